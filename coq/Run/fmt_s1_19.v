From FP Require Import Lexer Parser ShowPT Digest Formatter.
From Coq Require Import String List NArith.
Import ListNotations.
Open Scope string_scope.
Set Printing Width 100000000.
Set Printing Depth 100000000.
Definition show_fres (r : fres) : string :=
  match r with
  | FOk s => "OK:" ++ sh_escaped s ""
  | FErr s => "ERR:" ++ sh_escaped s ""
  | FPanic p => "PANIC:" ++ p
  end.
Definition check (rs : list rune) : string := digest (show_fres (format_res rs)).
Definition full (rs : list rune) : string := show_fres (format_res rs).
Eval vm_compute in ("<<<M3650>>>" ++ check (runes_of_ascii "  options
{ 
ArrayPrefixLenType 
= u16;
FixedStringPadFromLeft=true
;
JavaPackage  =	""com.example.msg"";
	GoPackage	=

""msg""
    ;GoModule=
	""example.com/msg"" ;

    } MetaData
Meta 
{
    u32 SeqNum	`sequence number` ,
char[8

    ] Symbol `symbol`  ,

    zchar[  5] ZSym`z symbol`  ,string  Note, Symbol AltSymbol
	`alias of symbol` , f64
Price
	,
}packet
Inner{	u8
a,  i16
    b
,
    string
c ,
}
    packet
	Inner2 { 
u8
a2
	,char[ 3 ] c2
	, }	packet
Logon {	u8
x, string	user 
, repeat
u16	codes
,
}	packet Logout {u16 
reason  ,	} packet

Empty

{  }

root	packet
    Msg

    {u8
    su8
, uint8  luint8

    , u16
    su16
	,

uint16	luint16

,  u32

    su32

    , uint32 luint32
,	u64
    su64,

uint64
	luint64

, 
i8	si8

,
	int8
    lint8,  i16

si16

,  int16 
lint16 , 
i32

    si32
	, 
int32
lint32

,i64 si64

    , int64
lint64
,
f32
	sf32

    ,
float32	lfloat32
,

f64
    sf64
    , 
float64

    lfloat64	, char[
6	]
fsplain ,

@leftPad
    (
    '0'
	)
    char[ 4]fs0
,@rightPad
(
'0'

) char[ 5	] fs1, @leftPad (' ' ) char[
6

    ]
	fs2

    ,	@rightPad
	(
	' '
	)char[
7

] fs3 ,  @leftPad
(
    '\x00'
)  char[

    8
]

    fs4
,
    @rightPad(	'\x00')
char[9 ]  fs5	,
    @leftPad
(
)
char[ 
10 ] 
fs6  , @rightPad( )
char[ 11 ]

    fs7 ,zchar[
7
]

    fz 
, @leftPad
	( 
'0'
) zchar[

3 ]  fzl0,  string s1`doc`	,  char[]
	s2,Inner  ,Sub
{
u8 q
,string w

,
Deep 
{u16
z

,
	repeat 
i32 zs
	,

    }
,} ,
	repeat

u8 ru8
,
	repeat
    u16 
ru16 
,
    repeat	u32 ru32

    ,

repeat

u64
	ru64 ,

    repeat
    i8

    ri8

    ,
	repeat	i16 ri16
	,
    repeat 
i32

    ri32

    ,repeat i64 ri64	,
	repeat
	f32 rf32, repeat
	f64 rf64 ,

    repeat
string  rstr	, repeat  char[] 
rstr2,repeat

    char[ 3]

    rfs

,
repeat zchar[ 3
    ]
    rfz
,	repeat  Inner2
,
    repeat

Grp {
	u8
k
,
char[
2
]

v
    ,
    } ,  SeqNum,
	SeqNum seq2  ,
repeat
SeqNum
    seqs  , Symbol ,

AltSymbol 
alt , ZSym ,
Note, repeat

Symbol syms, 
Price  px,u16 
MsgType

,
u32	BodyLen @lengthOf(  Body
	)
, match  MsgType  as	Body {1 :  Logon	, [ 
2, 3] 
:	Logout , 
7
	: 
Logon

    ,
	9	: Empty, },	u32

Checksum @calculatedFrom(

    ""CRC32""  )

, }
")).
Eval vm_compute in ("<<<M3803>>>" ++ check (runes_of_ascii "
MetaData
Logon
{string_

    MetaDataX	`
`
	, } root
	packet  Pad {
    asx @lengthOf( 
BodyLength
) , }packet

    Pad {
    @calculatedFrom(	""a	b""  )zchar[ 7
	]x`a\`

    , @lengthOf( msg_type
// " ++ [27880; 37322]%N ++ runes_of_ascii "
		// trailing space 
      )int32
    Logon  @lengthOf(	u128 	 //	t
	)	`two words`
	,	@lengthOf(

    asx ) 
match

    o

    as
asx{ 
1

: crc,

    00
	: f32a,
} , char[1 ]leftPad @lengthOf(	string_ 
) `
`
,	f32 
	    // a // b

trueish @calculatedFrom(//x
  """" 
) 
`` 
        // " ++ [128512]%N ++ runes_of_ascii " emoji
  	,

    As
	,

    x_y_z
{match Packet as 
int 
{
	007 :
x  ,  // packet A { u8 x, }
""" ++ [28040; 24687]%N ++ runes_of_ascii """ :options1

    ,

    ""packet"" :  // packet A { u8 x, }
  repeatCount
    ""\n""
: x

    ,
}
//
	  , char[]
    i8i8  @lengthOf(  x_y_z  )  `two words`

,  match
    crc  as
x_y_z  {

    ""CRC32""  :
    Z9_, }

    ,
    packetx
,
	}
    ,

    repeat
	char[ 0 
    // packet A { u8 x, }
    // `tick` ""quote"" 'q'

]

    asx ,@calculatedFrom(""1"")
char[ 
00  ]float ,

repeat
i32	msg_type
	, }
    packet 
x_y_z  {// `tick` ""quote"" 'q'
  @calculatedFrom(  ""a\\"")
    @calculatedFrom(""packet""
)
	uint8x
@calculatedFrom( """" )  ,
	    //	t
		@lengthOf( 
x) u8x
	x ,

    @calculatedFrom( 
""a	b"")

    int16 
pack 

// packet A { u8 x, }

  //x
	  , match 
Pad as
T 
	    //	t
		// @lengthOf(
{[
	00] :
	leftPad  ,

""CRC32""
:
    body

    ,	//x
3
	: zchar 1
	: u8x 7  :
    options1, 4294967296: falsey
	/// triple
  , } ,
    } packet T
	{

zchar[65535 
] //x
  roots , int x
`crlf
line` , @lengthOf(//	t
	int )
	charz {

i64_
    `" ++ [28040; 24687; 31867; 22411]%N ++ runes_of_ascii "` ,zchar[ 
  // `tick` ""quote"" 'q'
  42 ] len
// @lengthOf(

@calculatedFrom(	// " ++ [128512]%N ++ runes_of_ascii " emoji
		""" ++ [233]%N ++ runes_of_ascii "t" ++ [233]%N ++ runes_of_ascii """ ) ,

    repeat i8 o
, 	 // " ++ [27880; 37322]%N ++ runes_of_ascii "
  char[
0

    ] 	 // a // b
  	options1
`doc` 
,

}	,@lengthOf(roots) 
string

    Header	,}
")).
Eval vm_compute in ("<<<M4096>>>" ++ check (runes_of_ascii "  options{ 
metadata
=	char[
4294967296 ] 
;
    } packet f32a{match 
Z9_	as
	repeatCount	{  3 :crc , ""{,}"":

    pack, 
} ,char[]  calculatedFrom
@lengthOf( 	 // @lengthOf(
MetaDataX 
) ,@calculatedFrom(
""`tick`""	)  // " ++ [128512]%N ++ runes_of_ascii " emoji
	x_y_z
	// " ++ [27880; 37322]%N ++ runes_of_ascii "
	, i8 leftPad  ,i8

uint8x @calculatedFrom(
	""packet""	)// trailing space 
		`// not a comment`

    ,
    @calculatedFrom( """"

    )
@tag(
	007
	) char[

    10	]

T @calculatedFrom(""""  //
) 
,u8x
	{

    zchar@lengthOf( // packet A { u8 x, }

u
    )
    `{ , }` 
    // c
  	, }
    ,  float
    `say ""hi""`  ,
    i64

packetx ,  @lengthOf(BodyLength 
)string

    calculatedFrom  ,
	} packet MetaDataX  // " ++ [27880; 37322]%N ++ runes_of_ascii "
		{
    @calculatedFrom(

    ""{,}""
	)  match  /// triple

metadata as 	 //

_x
    {
""1""
: // c
uint8x
,
""{,}""
:

falsey} 
,

    }

packet 	 // " ++ [27880; 37322]%N ++ runes_of_ascii "
  Logon

    {

    o @lengthOf( i8i8
    )	,
	@rightPad('0' 
)
    int64 
msg_type

,  char  calculatedFrom

    ,
	@tag(
    255)
    i8i8 @calculatedFrom(
""x y""  )  ,
i8i8 // @lengthOf(
@calculatedFrom(""\" ++ [233]%N ++ runes_of_ascii """ )

    , @tag( 0123456789
	)

    lengthOf ,
@lengthOf(// `tick` ""quote"" 'q'
  o  )

@tag(	10
) match
    options1 as

    u {

""1"":
Pad, // c

""\" ++ [233]%N ++ runes_of_ascii """

: metadata  ,  // @lengthOf(
  } ,
@tag(	// " ++ [128512]%N ++ runes_of_ascii " emoji
  1

    )@tag( 65535 
)

@lengthOf(  Packet)repeat
T,
@tag( 4294967296) match x_y_z 
as 
uint8x {
""{,}""
	:
uint8x 7	: metadata
    , 7
    :
	i64_[
""" ++ [233]%N ++ runes_of_ascii "t" ++ [233]%N ++ runes_of_ascii """	,  ""CRC32""	, 	 // trailing space 
      ""packet"", 00  ,65535

,""x y""  ,  // " ++ [27880; 37322]%N ++ runes_of_ascii "
""packet""  //x
  ]:
	metadata,  // packet A { u8 x, }
""packet""
:uint8x ,	}
	,repeat	x
, }")).
Eval vm_compute in ("<<<M1361>>>" ++ check (runes_of_ascii "options { u= char[] }	MetaData u// " ++ [27880; 37322]%N ++ runes_of_ascii "
{  char[
0 ] Logon , char[]x_y_z , string string_ // @lengthOf(
,u64 uint8x ,
}
    packet body
    {char[00 ] rootA	, T {stringy// packet A { u8 x, }
{ repeat
char[]
//
//x
metadata `" ++ [28040; 24687; 31867; 22411]%N ++ runes_of_ascii "`
    ,
match i8i8// packet A { u8 x, }
as
BodyLength {
0:
BodyLength
    //	t
    ,
},// `tick` ""quote"" 'q'
packetx
@calculatedFrom( ""CRC32"" ) `
` , }, int32 falsey`a\`,
    } , //	t
match // a // b
Z9_ as calculatedFrom { 255
//	t
//	t
: As // " ++ [27880; 37322]%N ++ runes_of_ascii "
},
    // " ++ [27880; 37322]%N ++ runes_of_ascii "
    Logon `doc` , } root  packet
stringy
    {match x
as T {
    65535 : Header
,[ ""a\""b""
, ""1"" ]// " ++ [128512]%N ++ runes_of_ascii " emoji
:Z9_ ,
//
//
}
,char[]/// triple
zchar @lengthOf( lengthOf )
//x
// @lengthOf(
`two words`
,options1 { repeat int
Header `` , i8
    Logon @calculatedFrom( ""a	b""
    )  `" ++ [28040; 24687; 31867; 22411]%N ++ runes_of_ascii "` , // @lengthOf(
} , uint32 roots `// not a comment`
,
len
//
//
{ match
// `tick` ""quote"" 'q'
//x
options1
    as
//x
// c
o
{65535 :  f32a , ""CRC32"" :
tag ,// @lengthOf(
4294967296
:
u8x
    , 0 : metadata
,
""a	b"" : string_}
    , char[ 65535 ]
/// triple
// " ++ [128512]%N ++ runes_of_ascii " emoji
crc  @calculatedFrom(""{,}"" ) `crlf
line`, Pad@lengthOf(
leftPad	) ,uint8
Z9_ `u8 x,`
, }	, msg_type@calculatedFrom(
"""")
,
// trailing space 
// `tick` ""quote"" 'q'
repeat u8x	,	match	metadata
as BodyLength{
    ""packet""//
:f32a 7 : int /// triple
0123456789 : x  , // `tick` ""quote"" 'q'
} , uint16 i64_ , } packet
string_{
string_ ,
/// triple
//
}
")).
Eval vm_compute in ("<<<M3840>>>" ++ check (runes_of_ascii "packet repeatCount {
    i64 falsey,
    char[65535] calculatedFrom @lengthOf(calculatedFrom),
    int32 repeatCount,
    @tag(4294967296)
    repeat matchKey {
        repeat int64 rootA,
        match Packet as BodyLength {
            [10] : repeatCount,
            ""a\\"" : msg_type,
            [00, ""CRC32""] : calculatedFrom,
            7 : lengthOf,
            // " ++ [128512]%N ++ runes_of_ascii " emoji
            42 : Header,
            [
                65535, 0, 65535, 255, ""it's"",
                ""\n"", ""`tick`"", ""{,}""
            ] : T,
        },
    },
    @calculatedFrom(""{,}"")
    match asx as metadata {
        3 : Z9_,
        ""`tick`"" : string_,
    },
    @rightPad('0')
    int8 u128,
    @tag(3)
    repeat i8 x_y_z `it's`,
    @lengthOf(chars)
    @calculatedFrom(""" ++ [28040; 24687]%N ++ runes_of_ascii """)
    string float,
}

packet zchar {
    match uint8x as f32a {
        [""`tick`"", ""CRC32""] : repeatCount,
        [
            00, 255, 255, 1, 7,
            007, 7, ""x y""
        ] : tag,
        ""{,}"" : leftPad,
        007 : len,
    },
    @calculatedFrom(""CRC32"")
    @lengthOf(x)
    @calculatedFrom(""\" ++ [233]%N ++ runes_of_ascii """)
    char[65535] string_,
}

options {
}

MetaData u128 {
    trueish tag,
    packetx i8i8,
    f64 x_y_z,
    trueish u128,
    x Header `say ""hi""`,
    zchar[0] A,
}

MetaData i64_ {
}")).
Eval vm_compute in ("<<<M281>>>" ++ check (runes_of_ascii "
packet leftPad { // packet A { u8 x, }
@leftPad ( ' '
)
repeat
    x
`" ++ [233]%N ++ runes_of_ascii "` ,
repeat
    pack ,
// a // b
// a // b
uint32  A , // @lengthOf(
@tag(10  )@leftPad
    ( )
    @calculatedFrom( ""a	b"" ) u32 stringy @lengthOf( lengthOf ) , Foo`line1
line2` , crc `u8 x,`  ,// @lengthOf(
} options {//
x = float64
    // trailing space 
    ; u8x = //x
""" ++ [128512]%N ++ runes_of_ascii """ ; pack =
// `tick` ""quote"" 'q'
// trailing space 
' ';
    // c
    falsey
= ""a\""b"" } packet As
{repeat repeatCount u8x `doc`
    // packet A { u8 x, }
    , @leftPad ( '0' ) @calculatedFrom(""\" ++ [233]%N ++ runes_of_ascii """
    )match asx
as crc//x
{ 4294967296
    //	t
    :
    u8x
    , ""\n"" :u128
    , 0:asx
    [
    255
    // trailing space 
    ,""x y""	] :
    Logon ,0123456789 : A , 255	:i64_ , }
,
    metadata @lengthOf( u8x
)  , repeat crc
{	uint32
Packet	, } /// triple
, @calculatedFrom(""" ++ [128512]%N ++ runes_of_ascii """ )T u128  `{ , }` ,repeat i32	msg_type , @lengthOf(// packet A { u8 x, }
T	)int	,float {
// @lengthOf(
// `tick` ""quote"" 'q'
match trueish	as leftPad
    /// triple
    {
[ 0  ,	""" ++ [28040; 24687]%N ++ runes_of_ascii """  ]:
f32a, }  , uint32 i8i8,Packet{	char[ 65535 ] o
    // trailing space 
    @calculatedFrom( ""it's""  ) , }, // a // b
} , uint8 i8i8 `say ""hi""`, } /// triple
packet
BodyLength{ }
")).
Eval vm_compute in ("<<<M1170>>>" ++ check (runes_of_ascii "
MetaData T
{ leftPad msg_type, float Foo `doc`
,
uint64 charz `two words` ,
    crc Pad `" ++ [28040; 24687; 31867; 22411]%N ++ runes_of_ascii "` ,  } root packet zchar
{
    @tag(  0123456789
)
    zchar[
    42  ]
lengthOf `" ++ [233]%N ++ runes_of_ascii "`
    ,
@tag(  0123456789)
i64_
i8i8	`say ""hi""`
, Header
    , @lengthOf(i64_
)uint16 T
// " ++ [128512]%N ++ runes_of_ascii " emoji
// c
@calculatedFrom(
    ""x y"" ) , @lengthOf(/// triple
u)
    // a // b
    As {int64 // `tick` ""quote"" 'q'
options1
@lengthOf( leftPad
) `u8 x,` ,char[1	]
falsey @lengthOf( Pad ) `u8 x,`
    ,  char[]
charz
@lengthOf( Packet // c
), repeat
//x
// " ++ [128512]%N ++ runes_of_ascii " emoji
zchar { zchar[00
    ]chars ,
    msg_type @lengthOf(u128  )
, } // " ++ [27880; 37322]%N ++ runes_of_ascii "
,} , @leftPad ( '\x00' ) Foo @lengthOf(
    Logon)
, @lengthOf(Packet
) repeat int {
// @lengthOf(
// trailing space 
repeat char zchar , repeat
string	stringy , string
matchKey @calculatedFrom(""a	b"" ) `u8 x,`, }, match Logon as calculatedFrom { [ 42 ]
:
    x
,""`tick`""
:
    x, 65535
: Packet , },
    char[ 7 ]trueish ``,
match roots
as
    float { 007	: u8x// packet A { u8 x, }
""\" ++ [233]%N ++ runes_of_ascii """ :MetaDataX // " ++ [27880; 37322]%N ++ runes_of_ascii "
, //x
[ 255 , ""{,}"",
    """" , 255 ]// c
:
x_y_z , ""// no comment"" : Header // " ++ [27880; 37322]%N ++ runes_of_ascii "
,} // " ++ [128512]%N ++ runes_of_ascii " emoji
, }")).
Eval vm_compute in ("<<<M4227>>>" ++ check (runes_of_ascii "
options
    { }

    packet 
    //	t
  falsey/// triple

{

i64	calculatedFrom@calculatedFrom(
        //
    ""a\\"")
`it's`  ,
char[  00 ]  falsey
,
	@calculatedFrom( ""1""
	)
@calculatedFrom(
""{,}"" 
) i32  float 
,
	@tag(
3 	 //
  )
	@calculatedFrom(

""CRC32""

)int64  options1@lengthOf(
    roots)
`two words` , @calculatedFrom( 
""a\\""
)

repeat trueish { repeat
charz,
trueish	// trailing space 
tag	//x
	`two words` ,repeat  u64
Logon `" ++ [28040; 24687; 31867; 22411]%N ++ runes_of_ascii "` , }	, @leftPad  ( 
//x
  	'0'
    )	// " ++ [128512]%N ++ runes_of_ascii " emoji

@rightPad(

    // " ++ [128512]%N ++ runes_of_ascii " emoji
  //

' '  ) 
//	t
      //
    	u
    roots
    ,repeat

A {	i32  int@lengthOf(
	zchar) 
`" ++ [233]%N ++ runes_of_ascii "`
	,
} 	 //	t
	,u64 A ,@tag(  10

)
char[]
	u8x,zchar[  10  ]
pack
    //
	// " ++ [27880; 37322]%N ++ runes_of_ascii "
	  @calculatedFrom( ""1""
)	`say ""hi""`	,
}
packet Z9_  //	t
  	{ 	 // " ++ [27880; 37322]%N ++ runes_of_ascii "
@leftPad
( '0'
	)repeat 
  // a // b
    	// @lengthOf(
	As charz  ,  body	@calculatedFrom(	""it's"")
`crlf
line`	, 

    // " ++ [27880; 37322]%N ++ runes_of_ascii "
@leftPad ( 
'0'
) zchar[
4294967296
    ] A

@calculatedFrom(
""packet""  
  // trailing space 
	  )  `" ++ [233]%N ++ runes_of_ascii "`  ,  repeat
body  Header `" ++ [233]%N ++ runes_of_ascii "`, }

")).
Eval vm_compute in ("<<<M1258>>>" ++ check (runes_of_ascii "options { lengthOf
    =
""" ++ [128512]%N ++ runes_of_ascii """  Pad= ""it's""
    Packet
=' '
;} packet
stringy {@calculatedFrom( ""a\\"" ) stringy asx
    //x
    `doc` , f32a  , options1 { f64 BodyLength @lengthOf(i64_ )  , matchKey
    // `tick` ""quote"" 'q'
    roots,  repeat i8 chars ,
    /// triple
    } ,
charz
    string_ ,
    i8  repeatCount `crlf
line`
, }
    packet uint8x
    {@tag( 00 // " ++ [128512]%N ++ runes_of_ascii " emoji
)
uint64	MetaDataX  ,@tag( 00
) char uint8x @lengthOf(
    uint8x
    ) , roots @lengthOf( stringy  ) `
`
, @rightPad ()
    zchar[ 0123456789
    //
    ] T//x
`" ++ [233]%N ++ runes_of_ascii "`	, @tag(42
) repeat i64
    repeatCount // `tick` ""quote"" 'q'
, falsey `doc` , char[65535]
falsey
`say ""hi""` , x_y_z
    int, @lengthOf(  MetaDataX
) match
    Logon
as
    leftPad {""abc""	:
zchar , 255
: A	,},  }  MetaData falsey{
    }
    packet BodyLength
{ Pad asx , @calculatedFrom(
""a	b""// " ++ [27880; 37322]%N ++ runes_of_ascii "
) string packetx
//
// packet A { u8 x, }
`it's`, float64 uint8x
`two words`
    ,
    zchar[ 007
]	uint8x @calculatedFrom(
    ""a\\"" //x
)
    `" ++ [28040; 24687; 31867; 22411]%N ++ runes_of_ascii "` ,}")).
Eval vm_compute in ("<<<M356>>>" ++ check (runes_of_ascii "packet
Header { trueish @calculatedFrom(
""a	b"")
,
    Header@calculatedFrom(
    ""a\\"" //
)
,//	t
@calculatedFrom(  ""a\\"" )/// triple
i16	body
@lengthOf( f32a  ) , // packet A { u8 x, }
match // packet A { u8 x, }
stringy as _x{ ""`tick`""
// trailing space 
//
: string_ ,42:u8x , ""\n""
    :
    repeatCount, ""a\\"" : options1 ,	[ 4294967296 , ""{,}""
/// triple
//x
,
    4294967296 ,  """ ++ [28040; 24687]%N ++ runes_of_ascii """ , 3//	t
,
""abc"" ]
:
    //	t
    u8x , } , zchar[0123456789
    ] MetaDataX,@calculatedFrom(
    ""x y"" //	t
) @lengthOf( A )	zchar[ //x
00 ] a1 , match
// " ++ [128512]%N ++ runes_of_ascii " emoji
// `tick` ""quote"" 'q'
options1 as calculatedFrom // packet A { u8 x, }
{
    [ ""// no comment""
    // " ++ [27880; 37322]%N ++ runes_of_ascii "
    ,  ""abc"" , 65535,	""CRC32""
, 0
, ""CRC32"" ]
: uint8x
    , ""// no comment"" :
// " ++ [128512]%N ++ runes_of_ascii " emoji
// trailing space 
chars	,	[ """ ++ [233]%N ++ runes_of_ascii "t" ++ [233]%N ++ runes_of_ascii """ , ""a	b"" ]
    :
    pack , 10 :	tag ,}  , @tag( 42 )repeat
    // trailing space 
    len,
    @lengthOf( u )char[] f32a
, // packet A { u8 x, }
}
")).
Eval vm_compute in ("<<<M4054>>>" ++ check (runes_of_ascii "options {
    LittleEndian = false;
    FixedStringPadFromLeft = false;
    FixedStringPadChar = ' ';
}

packet Fill {
    uint16 Qty,
    uint64 clOrdID,
    repeat i64 Flags,
}

packet Ack {
    zchar[7] clOrdID,
    u64 lastPx,
    char[] Note,
    repeat Fill,
    int32 count,
}

packet Quote {
    u8 venue,
    InRef40 {
        char[] Qty,
    },
    zchar[5] Flags,
    @rightPad('\x00')
    char[12] msgKind,
}

packet Logout {
    InSym79 {
        int32 Qty,
        Fill,
        char[3] x,
        repeat InNote29 {
            i16 price,
            Ack,
            f64 x,
            zchar[8] count,
        },
    },
}

root packet Logon {
    zchar[1] sym,
    u32 count,
    u16 tag7 @lengthOf(Body),
    match count as Body {
        [122, 152] : Ack,
        118 : Logout,
        61 : Quote,
        161 : Fill,
    },
    u32 Acct @calculatedFrom(""CRC32""),
}")).
Eval vm_compute in ("<<<M1053>>>" ++ check (runes_of_ascii "packet
    repeatCount
    {	match	float as u { // trailing space 
""" ++ [128512]%N ++ runes_of_ascii """ :	i64_ , // trailing space 
}
    , repeat Z9_
    {string metadata `u8 x,` , }	,
u8 lengthOf ,
repeat float { zchar[ 255 // `tick` ""quote"" 'q'
]
    matchKey@lengthOf( u8x ) , uint8 Packet
    `" ++ [233]%N ++ runes_of_ascii "`	,x_y_z As	, zchar[
/// triple
// " ++ [128512]%N ++ runes_of_ascii " emoji
3 ] chars `it's` ,
} ,
    repeat a1
,@calculatedFrom(  ""it's"")uint64 x_y_z ,
match metadata  as Packet
{ [ """ ++ [233]%N ++ runes_of_ascii "t" ++ [233]%N ++ runes_of_ascii """]
: BodyLength , 3 :
    o  ,
    //
    65535 : Z9_// " ++ [27880; 37322]%N ++ runes_of_ascii "
, [ ""CRC32""] :
    Packet ,  ""a\\"":
int , 4294967296 : Foo,}
, repeat
// trailing space 
// c
int {
    // `tick` ""quote"" 'q'
    lengthOf @lengthOf(o
// trailing space 
// " ++ [27880; 37322]%N ++ runes_of_ascii "
) // " ++ [128512]%N ++ runes_of_ascii " emoji
`// not a comment`// c
, repeat Packet a1 ,}	,
    //
    @lengthOf( u )char[ 10 // @lengthOf(
] packetx @calculatedFrom(""abc"" ) , @rightPad
    ( '0' )  T,}
")).
Eval vm_compute in ("<<<M446>>>" ++ check (runes_of_ascii "// a // b
MetaData x{ i8 MetaDataX
`" ++ [233]%N ++ runes_of_ascii "`
,
string matchKey
//	t
// " ++ [27880; 37322]%N ++ runes_of_ascii "
, // packet A { u8 x, }
BodyLength
f32a,
char[ 7 ] u8x ,	char[] len , int16
msg_type
    , }packet o{ match roots as T{ [
    255 , 1 , 1 , """ ++ [28040; 24687]%N ++ runes_of_ascii """
, ""`tick`"",
    ""a\""b""
// c
//x
, 42	] :pack
, [ 0 //
,
""// no comment"" ] :
    Logon, [ ""1"", ""abc""
, 255 , 3 , ""\n""	, 255 , """ ++ [128512]%N ++ runes_of_ascii """
    ,
    ""{,}""
] // a // b
:
    x_y_z , }
,
    char[] len
    @lengthOf(Pad )
,
char[]
BodyLength ,trueish @calculatedFrom(""1"" )`" ++ [233]%N ++ runes_of_ascii "` , match
chars as x_y_z{ ""`tick`""
:calculatedFrom , } , @lengthOf( string_ ) char[
    3 ]f32a,falsey `" ++ [28040; 24687; 31867; 22411]%N ++ runes_of_ascii "` ,
repeat int64 //
u128 `tab	here`, uint8 msg_type @calculatedFrom( ""a\\"" )  `line1
line2`	, } options
{
    body =zchar[ 4294967296
] ;u128 = '\x00' BodyLength= float32 }
// @lengthOf(
")).
Eval vm_compute in ("<<<M343>>>" ++ check (runes_of_ascii "packet
Pad{
    } options { _x
= false
/// triple
// trailing space 
;} MetaData	repeatCount{char[ 10 ]  As `it's`
, T metadata `say ""hi""` , u16
matchKey ,  }packet u128{f32
    As@calculatedFrom( ""packet"") `a\` , repeat
// packet A { u8 x, }
// " ++ [128512]%N ++ runes_of_ascii " emoji
char[ 7 ]
// packet A { u8 x, }
// `tick` ""quote"" 'q'
T `say ""hi""`,
    @lengthOf(
    // c
    rootA )u64 //
trueish `{ , }` , repeat char[
3 ] MetaDataX ,
    repeat float64  i64_ ,i16
    charz
    ,u8 trueish @lengthOf(
    int
    )`u8 x,`
    ,
    @leftPad ( '0' ) match
Header
as
f32a { [  007
]
:
i8i8
, ""a	b""	://x
As ,
[ ""\n"" ]  :	zchar ,
    007:
a1 ,	0123456789 : falsey
, } , repeat float64 stringy	`a\`, } packet
    MetaDataX
{ roots
    // @lengthOf(
    leftPad `a\`, }")).
Eval vm_compute in ("<<<M910>>>" ++ check (runes_of_ascii "//x
packet zchar { match a1 as
BodyLength
    {
    [// " ++ [128512]%N ++ runes_of_ascii " emoji
""a\\""] :trueish ,
} ,@leftPad (
    //	t
    '0' )	repeatCount @calculatedFrom( ""a	b"" )
`tab	here`
    ,int8 o @lengthOf(
i64_ )
    `u8 x,` ,
    u8 chars	,
} packet trueish {@lengthOf( crc )@calculatedFrom( """ ++ [128512]%N ++ runes_of_ascii """) @calculatedFrom(  ""`tick`""  )//x
match BodyLength as Z9_
    {
    3: falsey [ 42 , 00 , 3
, 10
]
    :
    packetx	,255:
metadata	,} // trailing space 
, repeat x_y_z
Header , @calculatedFrom( ""CRC32"" ) Z9_ // trailing space 
{	x
    // @lengthOf(
    @calculatedFrom( ""1""
// packet A { u8 x, }
//x
) `it's`	,
// packet A { u8 x, }
// trailing space 
string
Header, }
,
    @lengthOf( roots  ) i64_
    , }
// @lengthOf(
")).
Eval vm_compute in ("<<<M420>>>" ++ check (runes_of_ascii "MetaData // `tick` ""quote"" 'q'
uint8x { char[// `tick` ""quote"" 'q'
7 ] Foo ,	float64
//x
/// triple
repeatCount
,/// triple
a1 uint8x `// not a comment` , }
    packet
Header{	@calculatedFrom( ""packet""  ) repeat calculatedFrom charz , } packet rootA { @calculatedFrom(""abc"") @calculatedFrom( """"	)	@lengthOf( // " ++ [128512]%N ++ runes_of_ascii " emoji
asx)
repeat
    repeatCount,
repeat// " ++ [128512]%N ++ runes_of_ascii " emoji
o {
crc options1
//x
// " ++ [128512]%N ++ runes_of_ascii " emoji
, zchar[
7] A	, Z9_	@lengthOf(Pad
) ,
calculatedFrom
    // trailing space 
    @calculatedFrom(
""a\""b"" ) // packet A { u8 x, }
, } , repeat a1 Foo `{ , }` ,
    charz , } options { body=
    """ ++ [28040; 24687]%N ++ runes_of_ascii """  ;
packetx // a // b
=
    0 }
MetaData _x // @lengthOf(
{ int16 crc, }")).
Eval vm_compute in ("<<<M4437>>>" ++ check (runes_of_ascii "packet float {
    match asx as len {
        255 : metadata,
    },
    char[4294967296] x @lengthOf(lengthOf),
    matchKey int,
}

packet falsey {
    @tag(0123456789)
    match u128 as stringy {
        // " ++ [128512]%N ++ runes_of_ascii " emoji
        0123456789 : u128,
        // packet A { u8 x, }
        [3, 7, 10, 0, ""CRC32""] : o,
        1 : charz,
        0123456789 : u,
        255 : pack,
    },
}

packet T {
    @lengthOf(Z9_)
    @rightPad('0')
    @calculatedFrom(""// no comment"")
    zchar[007] leftPad,
    @calculatedFrom(""1"")
    char[] As `two words`,
    @leftPad('0')
    repeat char[0123456789] x `// not a comment`,
    char[1] _x,
}")).
Eval vm_compute in ("<<<M269>>>" ++ check (runes_of_ascii "// trailing space 
packet
// packet A { u8 x, }
// packet A { u8 x, }
o {
@calculatedFrom(
""`tick`""
    //	t
    )repeat i8 rootA
, @calculatedFrom( ""`tick`""	)Logon
body`line1
line2` , // " ++ [128512]%N ++ runes_of_ascii " emoji
@lengthOf(crc )@tag( 0
) repeat
falsey string_ , @calculatedFrom(
"""" )
    lengthOf/// triple
, u16 calculatedFrom ,
    i8i8//x
tag `two words` , @tag( 1)	string rootA`u8 x,`
,match pack as int { [
""" ++ [233]%N ++ runes_of_ascii "t" ++ [233]%N ++ runes_of_ascii """
, ""\" ++ [233]%N ++ runes_of_ascii """	, 10 ,  0,
4294967296 , ""packet"" ,""" ++ [28040; 24687]%N ++ runes_of_ascii """
,""" ++ [233]%N ++ runes_of_ascii "t" ++ [233]%N ++ runes_of_ascii """ ] : int
//x
// trailing space 
, 3
    :zchar , """ ++ [128512]%N ++ runes_of_ascii """
:
options1, 00 // c
:x_y_z , 4294967296 :
chars , } ,float32 matchKey
    //x
    ,
T
,}
")).
Eval vm_compute in ("<<<M678>>>" ++ check (runes_of_ascii "packet
MetaDataX
{
    matchKey , }packet x
    { i32 msg_type
,leftPad
{ string Logon // " ++ [27880; 37322]%N ++ runes_of_ascii "
@lengthOf(body )
    ,} ,/// triple
repeat
    options1
{
    i8i8 msg_type `a\` , } , @tag( 0
)
    @leftPad() // `tick` ""quote"" 'q'
int64 f32a
@lengthOf( asx) `tab	here`,char[]  pack
`" ++ [28040; 24687; 31867; 22411]%N ++ runes_of_ascii "` , //x
@lengthOf(	stringy ) repeat leftPad  , @leftPad // packet A { u8 x, }
( ' '//	t
) @leftPad (  )
    match Logon	as roots{//x
""`tick`""// a // b
:
string_
,	}	, @tag(
    0123456789// `tick` ""quote"" 'q'
)
@calculatedFrom(
    ""1""
) @leftPad(
) u32	x_y_z @calculatedFrom(
""\" ++ [233]%N ++ runes_of_ascii """ )
    ,}
")).
Eval vm_compute in ("<<<M1359>>>" ++ check (runes_of_ascii "packet  Foo {
@calculatedFrom(
""`tick`"" ) @rightPad
    ( ' ' )
/// triple
//x
repeat float { repeatCount
    , /// triple
zchar[ 0123456789
    ]rootA
@calculatedFrom(	""{,}"")
, match
// c
// a // b
matchKey
as T { ""\n"" :o
//
// `tick` ""quote"" 'q'
00 : tag [3 // trailing space 
, 65535
    // trailing space 
    ] : body,	}	,
} ,
@rightPad
    // @lengthOf(
    (
    ' ' ) @leftPad
('0' ) string packetx @calculatedFrom(""x y"" )
    ,  @lengthOf( charz ) string i64_ `crlf
line`, @rightPad  ('0' ) repeat string calculatedFrom `tab	here`,}
")).
Eval vm_compute in ("<<<M1075>>>" ++ check (runes_of_ascii "options
    // packet A { u8 x, }
    { u = ""a\""b""
    // `tick` ""quote"" 'q'
    ;}packet matchKey {char[
/// triple
// `tick` ""quote"" 'q'
42 ]
    len @lengthOf( f32a
    //	t
    )
`it's`// packet A { u8 x, }
, @lengthOf( x_y_z )@calculatedFrom(//
""CRC32"" // " ++ [128512]%N ++ runes_of_ascii " emoji
) uint16 f32a@lengthOf( zchar )
    `" ++ [233]%N ++ runes_of_ascii "` , @lengthOf( Z9_
    //x
    )
// c
// @lengthOf(
@leftPad ( '0' )  repeat
    falsey { options1 ,char charz `doc`, zchar[ 10 ] leftPad // c
, // " ++ [27880; 37322]%N ++ runes_of_ascii "
} , } packet	o { stringy @calculatedFrom(
    ""CRC32"")
    , }
")).
Eval vm_compute in ("<<<M1191>>>" ++ check (runes_of_ascii "packet
    // @lengthOf(
    T { char[ 007 ] leftPad
@calculatedFrom( ""`tick`"" ) `{ , }`, f32 int , @calculatedFrom( """ ++ [233]%N ++ runes_of_ascii "t" ++ [233]%N ++ runes_of_ascii """	)
int // a // b
{int16	Packet ,  char[ 255
]
    Logon , char[ 0123456789] T /// triple
@lengthOf( i64_
) , i8
    // packet A { u8 x, }
    crc `tab	here`,
    }
, char[ 0 ] string_	, int8 msg_type `" ++ [28040; 24687; 31867; 22411]%N ++ runes_of_ascii "` // `tick` ""quote"" 'q'
, int64 u// a // b
`tab	here`
,
repeat
u128  ,
float64
i64_ @calculatedFrom( """ ++ [28040; 24687]%N ++ runes_of_ascii """ )
    , //
@lengthOf( crc ) Header chars , float32	x, }
")).
Eval vm_compute in ("<<<M4398>>>" ++ check (runes_of_ascii "packet o {
    repeat MetaDataX,
    uint64 f32a `" ++ [233]%N ++ runes_of_ascii "`,
    f32 packetx `doc`,
    leftPad {
        repeat len x,
        zchar[0123456789] tag @lengthOf(MetaDataX),
        chars {
            zchar[65535] u8x `" ++ [28040; 24687; 31867; 22411]%N ++ runes_of_ascii "`,
            u16 BodyLength @calculatedFrom(""`tick`"") `line1
                        line2`,
            char[] stringy,
            repeat i64_ charz `crlf
                        line`,// trailing space 
        },
        f32 msg_type,
    },
    x ``,
}")).
Eval vm_compute in ("<<<M480>>>" ++ check (runes_of_ascii "MetaData
    o {
    } packet BodyLength { @tag(
255 ) zchar[ 00 ]
    leftPad@lengthOf( float  )
`" ++ [233]%N ++ runes_of_ascii "` , }	packet
asx {
    @leftPad ( )	char[] _x,
char[ 65535
    ] /// triple
trueish
@calculatedFrom( ""a\""b"") ,
int64 u
    , match x as u8x { 255 //	t
:/// triple
o, 65535: asx ,  ""a\\""
:
string_
, ""\" ++ [233]%N ++ runes_of_ascii """
    : f32a, 65535
: //	t
x_y_z
    ,  7
:uint8x	}
    , repeat msg_type { u128 charz `` , u64 options1	, repeat  a1 `` ,	} , repeatCount  ,}
// c
")).
Eval vm_compute in ("<<<M3626>>>" ++ check (runes_of_ascii "options {
    LittleEndian = true;
    StringPrefixLenType = u16;
    ArrayPrefixLenType = u64;
}
packet Fill {
}
packet Logon {
    repeat char[3] Tail,
    zchar[6] venue,
    repeat string Side2,
}
root packet Cancel {
    char[] Flags,
    char[] OrderId,
    zchar[6] msgKind,
    Fill,
    char[] Acct,
    u8 f1,
    match f1 as Body {
        188 : Fill,
        5 : Logon,
    },
    u32 clOrdID @calculatedFrom(""CR\
C32""),
}
")).
Eval vm_compute in ("<<<M617>>>" ++ check (runes_of_ascii "root packet BodyLength { int8 asx ``
    , match stringy  as falsey
    { 7
:stringy } , Header `u8 x,` ,match string_  as falsey{ 007 :
    BodyLength 65535:	roots [
//
//x
10,
00, ""a\""b""  , 0123456789 ,	3
    , /// triple
""" ++ [233]%N ++ runes_of_ascii "t" ++ [233]%N ++ runes_of_ascii """, ""x y"" , ""abc""
] :
crc , 0123456789
    : f32a
, 1
    :
    Logon,  [""CRC32"" // a // b
,
""a	b"" ,
    65535 , ""1"" ,// trailing space 
""1""	,
65535 ] :
zchar //	t
,  } , i64_ , } //	t")).
Eval vm_compute in ("<<<M419>>>" ++ check (runes_of_ascii "/// triple
MetaData
x {uint64 u `doc`	, }
root
packet
i8i8
    {uint32
    zchar @lengthOf( chars ) , string rootA@calculatedFrom(
    ""\n""
) , } packet	MetaDataX
//	t
/// triple
{ i32 A
    @lengthOf( string_ )
`` , @calculatedFrom( ""a\\"" ) @lengthOf( roots ) msg_type asx  `crlf
line` ,@lengthOf(//
metadata ) @calculatedFrom( """ ++ [28040; 24687]%N ++ runes_of_ascii """) @leftPad
(
) repeat string o `// not a comment`
    , } //x")).
Eval vm_compute in ("<<<M3801>>>" ++ check (runes_of_ascii "  packet	body {	@rightPad
	(
	' ')
    msg_type
{
match	u as

    zchar

    { 
""""  // c
    	:metadata

    , 
} 
, As
	@calculatedFrom( 
""CRC32""
    // " ++ [128512]%N ++ runes_of_ascii " emoji
// " ++ [27880; 37322]%N ++ runes_of_ascii "
		)	,

//x
		// @lengthOf(
    }
, repeat

u16 tag,repeat

    MetaDataX,

}
    packet  Foo 
{  @rightPad 
( 
)	@leftPad
( ' ')@calculatedFrom(	""\" ++ [233]%N ++ runes_of_ascii """
    )	i8
	i64_	,	repeat

uint16
	float  ,
	}
")).
Eval vm_compute in ("<<<M245>>>" ++ check (runes_of_ascii "root packet  roots
{ falsey@calculatedFrom(""a\""b"" ) ,
    @lengthOf(
A )Header @calculatedFrom( ""packet""
) `u8 x,` ,
@leftPad  (' '
) @lengthOf(
    calculatedFrom)
// `tick` ""quote"" 'q'
// packet A { u8 x, }
match rootA as x_y_z {42	:
    //	t
    len, }, } options //x
{ chars =// c
4294967296 ;
    BodyLength
    = 0123456789 roots
    = ""a\""b"";
} //")).
Eval vm_compute in ("<<<M3992>>>" ++ check (runes_of_ascii "packet string_ {
    zchar[3] stringy @lengthOf(packetx) `u8 x,`,// `tick` ""quote"" 'q'
    f64 string_ ``,
}

MetaData leftPad {
    char[1] MetaDataX `crlf
    line`,
    metadata a1 `tab	here`,
    T o `line1
    line2`,
    o trueish,
}

options {
}

MetaData T {
    Foo Logon,
    Logon lengthOf,
    char[00] pack,
    char[7] i8i8 ``,
}")).
Eval vm_compute in ("<<<M955>>>" ++ check (runes_of_ascii "
options { u128
// c
// packet A { u8 x, }
=false
}packet i64_
{ @calculatedFrom( ""a	b"" ) Z9_ {
    x_y_z`two words` , string_
/// triple
//x
, }, match // trailing space 
BodyLength as As {
    //x
    [
""a\""b""]: Z9_	, } ,
//	t
// a // b
char[]	asx
,
    i16
crc `doc` , } packet o
    { @leftPad ( '\x00' ) repeat u8x
T,
    }
")).
Eval vm_compute in ("<<<M1876>>>" ++ check (runes_of_ascii "MetaData
    u { }  options options {
// c
// @lengthOf(
float = int8 ;rootA =false ; As =	int16 // `tick` ""quote"" 'q'
repeatCount
    // trailing space 
    =
    int16
; u8x =
    //	t
    '\x00' ; } options	{
    repeatCount
= 0
u128
    //
    = false ; i64_
// trailing space 
// `tick` ""quote"" 'q'
= '0' ; //	t
}
")).
Eval vm_compute in ("<<<M1993>>>" ++ check (runes_of_ascii "MetaData
    u { }  options {
// c
// @lengthOf(
float = int8 ;rootA =false ; As =	int16 // `tick` ""quote"" 'q'
repeatCount
    // trailing space 
    =
    int16
; u8x =
    //	t
    '\x00' ; } options	false
    repeatCount
= 0
u128
    //
    = false ; i64_
// trailing space 
// `tick` ""quote"" 'q'
= '0' ; //	t
}
")).
Eval vm_compute in ("<<<M2006>>>" ++ check (runes_of_ascii "MetaData
    u { }  options {
// c
// @lengthOf(
float = int8 ;rootA =false ; As =	int16 // `tick` ""quote"" 'q'
repeatCount
    // trailing space 
    =
    int16
; u8x =
    //	t
    '\x00' ; } options	{
    repeatCount
= 0 0
u128
    //
    = false ; i64_
// trailing space 
// `tick` ""quote"" 'q'
= '0' ; //	t
}
")).
Eval vm_compute in ("<<<M1858>>>" ++ check (runes_of_ascii "u
    MetaData { }  options {
// c
// @lengthOf(
float = int8 ;rootA =false ; As =	int16 // `tick` ""quote"" 'q'
repeatCount
    // trailing space 
    =
    int16
; u8x =
    //	t
    '\x00' ; } options	{
    repeatCount
= 0
u128
    //
    = false ; i64_
// trailing space 
// `tick` ""quote"" 'q'
= '0' ; //	t
}
")).
Eval vm_compute in ("<<<M2002>>>" ++ check (runes_of_ascii "MetaData
    u { }  options {
// c
// @lengthOf(
float = int8 ;rootA =false ; As =	int16 // `tick` ""quote"" 'q'
repeatCount
    // trailing space 
    =
    int16
; u8x =
    //	t
    '\x00' ; } options	{
    repeatCount
0 =
u128
    //
    = false ; i64_
// trailing space 
// `tick` ""quote"" 'q'
= '0' ; //	t
}
")).
Eval vm_compute in ("<<<M2015>>>" ++ check (runes_of_ascii "MetaData
    u { }  options {
// c
// @lengthOf(
float = int8 ;rootA =false ; As =	int16 // `tick` ""quote"" 'q'
repeatCount
    // trailing space 
    =
    int16
; u8x =
    //	t
    '\x00' ; } options	{
    repeatCount
= 0
u128
    //
     false ; i64_
// trailing space 
// `tick` ""quote"" 'q'
= '0' ; //	t
}
")).
Eval vm_compute in ("<<<M1998>>>" ++ check (runes_of_ascii "MetaData
    u { }  options {
// c
// @lengthOf(
float = int8 ;rootA =false ; As =	int16 // `tick` ""quote"" 'q'
repeatCount
    // trailing space 
    =
    int16
; u8x =
    //	t
    '\x00' ; } options	{
    match
= 0
u128
    //
    = false ; i64_
// trailing space 
// `tick` ""quote"" 'q'
= '0' ; //	t
}
")).
Eval vm_compute in ("<<<M4107>>>" ++ check (runes_of_ascii "// " ++ [128512]%N ++ runes_of_ascii " emoji
options {
}

packet a1 {
    @lengthOf(Foo)
    pack {
        repeat matchKey leftPad,
        zchar[7] zchar `{ , }`,
        charz @lengthOf(x_y_z) `
                `,
    },
}

root packet roots {
}

options {
    calculatedFrom = false;
    o = int64;
    u = ""a\\""
    zchar = 42;
}")).
Eval vm_compute in ("<<<M3912>>>" ++ check (runes_of_ascii "options{ LittleEndian =true
	;	}	packet
    Sub 
{  u8 
a,
	@calculatedFrom(""CRC16""
) u64	SubSum
,
}

root packet Frame
{ u16  MsgType ,
u16
    BodyLen
@lengthOf(
Body
	)
    ,Sub 
Body,  string	note

    , 
@calculatedFrom(

    ""CRC16""

    )	u64

Checksum 
,	u8
	tail 
, 
} ")).
Eval vm_compute in ("<<<M575>>>" ++ check (runes_of_ascii "packet	crc{ @calculatedFrom(
    // `tick` ""quote"" 'q'
    """" ) int8 len @lengthOf(lengthOf ) , @leftPad
/// triple
// " ++ [27880; 37322]%N ++ runes_of_ascii "
('\x00' )  _x //x
@calculatedFrom(
    """ ++ [28040; 24687]%N ++ runes_of_ascii """
), string leftPad @lengthOf(	packetx
    )
`say ""hi""` ,// packet A { u8 x, }
} options
{u128 =
    65535 ; }")).
Eval vm_compute in ("<<<M4360>>>" ++ check (runes_of_ascii "packet
    MDSnapshotZZ	{
u8 a	,
	}

packet
OrderACK	{ u16
	b ,}
    packet HTTPServerInfo
    {
    string  s
	,} root
packet 
FIXMsg	{

u8
KType
,MDSnapshotZZ ,  repeat 
OrderACK
,
match  KType
    as 
Body
{  1:
HTTPServerInfo 
, 
2

    :
OrderACK
,
}	, }
")).
Eval vm_compute in ("<<<M55>>>" ++ check (runes_of_ascii "// " ++ [27880; 37322]%N ++ runes_of_ascii "
options { u8x
=false}	packet crc
{ @leftPad
    ( // `tick` ""quote"" 'q'
'\x00'
)@calculatedFrom( ""a\""b"" ) char[] u@lengthOf(
    x ), stringy
charz	`" ++ [233]%N ++ runes_of_ascii "`
// c
// c
,
} packet
// c
//x
tag {
    string T,zchar[ 7
    ] leftPad ,// `tick` ""quote"" 'q'
}
")).
Eval vm_compute in ("<<<M1533>>>" ++ check (runes_of_ascii "packet
//	t
// trailing space 
_x {
// packet A { u8 x, }
// c
char[
3
    ] u8x @lengthOf(
u8x ) ) , @calculatedFrom(""" ++ [128512]%N ++ runes_of_ascii """ // @lengthOf(
)
i16	Foo
@lengthOf(	string_
    )`doc`	, repeat	i64 metadata , @lengthOf( string_
) i8 // c
u  `line1
line2`	,
}
")).
Eval vm_compute in ("<<<M4382>>>" ++ check (runes_of_ascii "options {
    uint8x = 3;
    crc = 42
    Logon = '\x00'
    falsey = false
}

root packet zchar {
    int16 u,
}

root packet Header {
    @rightPad(' ')
    @lengthOf(a1)
    repeat body,
    zchar[65535] string_ @lengthOf(MetaDataX),// @lengthOf(
}")).
Eval vm_compute in ("<<<M1609>>>" ++ check (runes_of_ascii "packet
//	t
// trailing space 
_x {
// packet A { u8 x, }
// c
char[
3
    ] u8x @lengthOf(
u8x ) , @calculatedFrom(""" ++ [128512]%N ++ runes_of_ascii """ // @lengthOf(
)
i16	Foo
@lengthOf(	string_
    )`doc`	, repeat	i64 metadata @lengthOf( , string_
) i8 // c
u  `line1
line2`	,
}
")).
Eval vm_compute in ("<<<M1491>>>" ++ check (runes_of_ascii "true
//	t
// trailing space 
_x {
// packet A { u8 x, }
// c
char[
3
    ] u8x @lengthOf(
u8x ) , @calculatedFrom(""" ++ [128512]%N ++ runes_of_ascii """ // @lengthOf(
)
i16	Foo
@lengthOf(	string_
    )`doc`	, repeat	i64 metadata , @lengthOf( string_
) i8 // c
u  `line1
line2`	,
}
")).
Eval vm_compute in ("<<<M1570>>>" ++ check (runes_of_ascii "packet
//	t
// trailing space 
_x {
// packet A { u8 x, }
// c
char[
3
    ] u8x @lengthOf(
u8x ) , @calculatedFrom(""" ++ [128512]%N ++ runes_of_ascii """ // @lengthOf(
)
i16	Foo
i32	string_
    )`doc`	, repeat	i64 metadata , @lengthOf( string_
) i8 // c
u  `line1
line2`	,
}
")).
Eval vm_compute in ("<<<M615>>>" ++ check (runes_of_ascii "
MetaData
    Header { int16 //	t
i64_ , } packet
u8x
{@tag(4294967296 ) zchar[
//	t
// " ++ [27880; 37322]%N ++ runes_of_ascii "
255 ] MetaDataX`
`,} options { pack = ""a	b"";crc =
    true _x
    =
4294967296 ;Z9_ = ' ' } root packet// a // b
repeatCount  { char[]
u8x ,  }
")).
Eval vm_compute in ("<<<M4092>>>" ++ check (runes_of_ascii "  options
{
u128	// packet A { u8 x, }
	  =  ""x y"" 
}
packet // a // b
    rootA  // @lengthOf(
    { 
  // " ++ [27880; 37322]%N ++ runes_of_ascii "
  } packet metadata
    {@tag( 007

    // " ++ [128512]%N ++ runes_of_ascii " emoji
    ) repeat u8

    A	`// not a comment`

    ,
    }
")).
Eval vm_compute in ("<<<M3818>>>" ++ check (runes_of_ascii "packet _x {
    // packet A { u8 x, }
    // c
    char[3] u8x @lengthOf(u8x),
    @calculatedFrom(""" ++ [128512]%N ++ runes_of_ascii """)
    Foo @lengthOf(string_) `doc`,
    repeat i64 metadata,
    @lengthOf(string_)
    i8 u `line1
        line2`,
}")).
Eval vm_compute in ("<<<M1702>>>" ++ check (runes_of_ascii "options { trueish = ""`tick`"" ; string_ string_= """ ++ [233]%N ++ runes_of_ascii "t" ++ [233]%N ++ runes_of_ascii """
    // c
    } root
    packet body { stringy @calculatedFrom(
""a	b"" ) `line1
line2` , }
packet Logon {
    @leftPad(
    ' ' ) //	t
u16 string_ `u8 x,` ,
}
")).
Eval vm_compute in ("<<<M79>>>" ++ check (runes_of_ascii "root packet Foo {i16 BodyLength `// not a comment`
    // c
    ,
    //x
    }options { // packet A { u8 x, }
} options
    {Z9_ = // trailing space 
false msg_type //
=
true f32a = ' ' zchar  =""`tick`"";}
")).
Eval vm_compute in ("<<<M1841>>>" ++ check (runes_of_ascii "options { trueish = ""`tick`"" ; string_= " ++ [233]%N ++ runes_of_ascii " """ ++ [233]%N ++ runes_of_ascii "t" ++ [233]%N ++ runes_of_ascii """
    // c
    } root
    packet body { stringy @calculatedFrom(
""a	b"" ) `line1
line2` , }
packet Logon {
    @leftPad(
    ' ' ) //	t
u16 string_ `u8 x,` ,
}
")).
Eval vm_compute in ("<<<M1708>>>" ++ check (runes_of_ascii "options { trueish = ""`tick`"" ; string_""" ++ [233]%N ++ runes_of_ascii "t" ++ [233]%N ++ runes_of_ascii """ =
    // c
    } root
    packet body { stringy @calculatedFrom(
""a	b"" ) `line1
line2` , }
packet Logon {
    @leftPad(
    ' ' ) //	t
u16 string_ `u8 x,` ,
}
")).
Eval vm_compute in ("<<<M1349>>>" ++ check (runes_of_ascii "
root
    packet x_y_z{@lengthOf( _x ) _x  @lengthOf( trueish)	,} packet
    BodyLength {// packet A { u8 x, }
}
    // " ++ [128512]%N ++ runes_of_ascii " emoji
    MetaData // @lengthOf(
a1 { Pad
    repeatCount	,i16 zchar `` ,//	t
}")).
Eval vm_compute in ("<<<M3817>>>" ++ check (runes_of_ascii "// @lengthOf(
options {
}// c

root packet Packet {
    @calculatedFrom("""")
    x u128 `" ++ [28040; 24687; 31867; 22411]%N ++ runes_of_ascii "`,
}

options {
    msg_type = i16;
    packetx = false
    falsey = ""x y"";
    packetx = 1;
    As = true
}")).
Eval vm_compute in ("<<<M1691>>>" ++ check (runes_of_ascii "options { trueish =  ; string_= """ ++ [233]%N ++ runes_of_ascii "t" ++ [233]%N ++ runes_of_ascii """
    // c
    } root
    packet body { stringy @calculatedFrom(
""a	b"" ) `line1
line2` , }
packet Logon {
    @leftPad(
    ' ' ) //	t
u16 string_ `u8 x,` ,
}
")).
Eval vm_compute in ("<<<M1979>>>" ++ check (runes_of_ascii "MetaData
    u { }  options {
// c
// @lengthOf(
float = int8 ;rootA =false ; As =	int16 // `tick` ""quote"" 'q'
repeatCount
    // trailing space 
    =
    int16
; u8x =
    //	t
    '\x00'")).
Eval vm_compute in ("<<<M3565>>>" ++ check (runes_of_ascii "// top
root
    // c0
packet // c1a
  // c1b
P { // c3
u16 // c4
a ,
    // c6
u32 Sum // c8
@calculatedFrom( // c9a
  // c9b
""CRC32"" // c10
) // c11a
  // c11b
, // c12
}
    // c13
")).
Eval vm_compute in ("<<<M545>>>" ++ check (runes_of_ascii "root packet Z9_ { repeatCount
    `a\`
,char[ 255 ]Pad`" ++ [28040; 24687; 31867; 22411]%N ++ runes_of_ascii "`
    // " ++ [27880; 37322]%N ++ runes_of_ascii "
    ,  char[ // c
0
] calculatedFrom `it's` , MetaDataX msg_type`line1
line2`, }
// packet A { u8 x, }
")).
Eval vm_compute in ("<<<M329>>>" ++ check (runes_of_ascii "packet
pack
    { pack calculatedFrom, len, u16	T,
@lengthOf( trueish) repeat
leftPad ,
@calculatedFrom( """ ++ [233]%N ++ runes_of_ascii "t" ++ [233]%N ++ runes_of_ascii """	) @rightPad	( '0' ) f64 a1,repeat
trueish Header , } 	 ")).
Eval vm_compute in ("<<<M3556>>>" ++ check (runes_of_ascii "
options {
	LittleEndian

    =true ;}  packet
    B
	{u8
	a
,string

    s  , }
root

    packet

    P
	{ u16
L@lengthOf(
B )

    , B , u8 t  , 
}")).
Eval vm_compute in ("<<<M4287>>>" ++ check (runes_of_ascii "//x
  options
	{ pack =

""{,}"" ;
asx
	= 65535
    ;  u	=
    zchar[
	007  ]  ;
    // trailing space 
    i8i8
=char[]As  //x
  	=' '
} 	 // packet A { u8 x, }
")).
Eval vm_compute in ("<<<M2366>>>" ++ check (runes_of_ascii "// c
packet x { @lengthOf( metadata ) repeat lengthOf
,a1 a1{
trueish	,// c
repeat//	t
MetaDataX , } , zchar[
    42	] rootA // `tick` ""quote"" 'q'
,
    }
")).
Eval vm_compute in ("<<<M2313>>>" ++ check (runes_of_ascii "// c
packet x { @lengthOf( metadata ) repeat lengthOf
,a1{
trueish	,// c
repeat//	t
MetaDataX , } , zchar[
    42	] rootA // `tick` ""quote"" 'q'
,
" ++ [8232]%N ++ runes_of_ascii "    }
")).
Eval vm_compute in ("<<<M2331>>>" ++ check (runes_of_ascii "// c
x packet { @lengthOf( metadata ) repeat lengthOf
,a1{
trueish	,// c
repeat//	t
MetaDataX , } , zchar[
    42	] rootA // `tick` ""quote"" 'q'
,
    }
")).
Eval vm_compute in ("<<<M2341>>>" ++ check (runes_of_ascii "// c
packet x { @lengthOf( metadata ) repeat lengthOf
,a1{
trueish	,// c
repeat//	t
MetaDataX , } , zchar[
    42	] rootA // `tick` ""quote"" 'q'

    }
")).
Eval vm_compute in ("<<<M2166>>>" ++ check (runes_of_ascii "options{
_x
= true
} options
{ o	= /// triple
false
    ; chars
= ""\n"" } root packet	{
/// triple
// packet A { u8 x, }
Pad	chars
    // a // b
    ,}")).
Eval vm_compute in ("<<<M2084>>>" ++ check (runes_of_ascii "options{

= true
} options
{ o	= /// triple
false
    ; chars
= ""\n"" } root packet	Pad
/// triple
// packet A { u8 x, }
{	chars
    // a // b
    ,}")).
Eval vm_compute in ("<<<M4483>>>" ++ check (runes_of_ascii "options{ LittleEndian =  true ; } packet B
    {	u8
	a
    ,
string	s , } 
root	packet
P
{
	u16
L

@lengthOf(

    B
)

    ,B , u8

t  ,
	}

")).
Eval vm_compute in ("<<<M2411>>>" ++ check (runes_of_ascii "// c
packet x { @lengthOf( metadata ) repeat lengthOf
,a1{
trueish	,// c
repeat//	t
 , } , zchar[
    42	] rootA // `tick` ""quote"" 'q'
,
    }
")).
Eval vm_compute in ("<<<M4429>>>" ++ check (runes_of_ascii "packet A {
    match k as n {
        [
            007, 66, ""a"", ""bb"", ""d"",
            ""e"", ""g"", ""h""
        ] : B,
        2 : C,
    },
}")).
Eval vm_compute in ("<<<M1561>>>" ++ check (runes_of_ascii "packet
//	t
// trailing space 
_x {
// packet A { u8 x, }
// c
char[
3
    ] u8x @lengthOf(
u8x ) , @calculatedFrom(""" ++ [128512]%N ++ runes_of_ascii """ // @lengthOf(
)")).
Eval vm_compute in ("<<<M670>>>" ++ check (runes_of_ascii "//	t
MetaData asx
{
zchar Packet `" ++ [233]%N ++ runes_of_ascii "` ,	zchar[ 42 ]
f32a
    , } options {
    // packet A { u8 x, }
    tag=
    ""\n"" ;
    }
")).
Eval vm_compute in ("<<<M2178>>>" ++ check (runes_of_ascii "options{
_x
= true
} options
{ o	= /// triple
false
    ; chars
= ""\n"" } root packet	Pad
/// triple
// packet A { u8 x, }
{")).
Eval vm_compute in ("<<<M1127>>>" ++ check (runes_of_ascii "options  {
}options
{rootA =
zchar[ 255 ];
} options { Packet
    // `tick` ""quote"" 'q'
    =
    0123456789; a1	= """" }
")).
Eval vm_compute in ("<<<M3324>>>" ++ check (runes_of_ascii "root packet matchKey { zchar[ 3 ] // c
pack @calculatedFrom( ""a	b"" ) `doc` , } options { } MetaData A { int8 msg_type , }")).
Eval vm_compute in ("<<<M3356>>>" ++ check (runes_of_ascii "root packet matchKey { zchar[ 3 ] pack @calculatedFrom( ""a	b"" ) `doc` , } options { } MetaData A { int8 msg_type , // c
}")).
Eval vm_compute in ("<<<M1479>>>" ++ check (runes_of_ascii "
packet
    falsey { Header@calculatedFrom(""packet""  ) " ++ [0]%N ++ runes_of_ascii ", char[
    0123456789 ] packetx
    , } // `tick` ""quote"" 'q'")).
Eval vm_compute in ("<<<M4007>>>" ++ check (runes_of_ascii "// top
root // c0

  packet
	// c1
	u128 // c2a
  // c2b

	{ 
    // c3
	chars
// c4
		`it's`,
	} 
    // c7
")).
Eval vm_compute in ("<<<M4516>>>" ++ check (runes_of_ascii "packet metadata {
    // c
    Logon {
        A `" ++ [28040; 24687; 31867; 22411]%N ++ runes_of_ascii "`,
        tag o,
    },
    zchar len `// not a comment`,
}")).
Eval vm_compute in ("<<<M4459>>>" ++ check (runes_of_ascii "  packet
A{  match

    k
    as n{
[ 
""a"" , ""bb"" ,
""c c""
    ,  ""d""

    ,
""e""  ]
:
B
	2
: C
}
	,
}
")).
Eval vm_compute in ("<<<M3003>>>" ++ check (runes_of_ascii "packet A {
    u16 len @lengthOf(body) `a
b`,
    u32 crc @calculatedFrom(""CRC32"") `a
b`,
    string body,
}")).
Eval vm_compute in ("<<<M883>>>" ++ check (runes_of_ascii "options /// triple
{
    asx ='\x00' ;
    }
    //	t
    options
{ pack =""CRC32""
;} root packet
f32a { }")).
Eval vm_compute in ("<<<M2972>>>" ++ check (runes_of_ascii "packet A {
  match k as n {
    [""a"", ""bb"", 007, ""d"", ""e"", 66, ""g"", ""h"", 9, ""j""] : B,
    2 : C
  },
}")).
Eval vm_compute in ("<<<M3040>>>" ++ check (runes_of_ascii "packet A {
    Inner {
        u8 x `
x`,
        Deep {
            u8 y `
x`,
        },
    },
}")).
Eval vm_compute in ("<<<M2939>>>" ++ check (runes_of_ascii "packet A {
  match k as n {
    [""a"", ""bb"", ""c c"", ""d"", ""e"", ""f"", ""g"", ""h""] : B
    2 : C
  },
}")).
Eval vm_compute in ("<<<M3752>>>" ++ check (runes_of_ascii "packet repeatCount {
}

root packet uint8x {
    @rightPad('\x00')
    options1 As,// a // b
}")).
Eval vm_compute in ("<<<M2267>>>" ++ check (runes_of_ascii "options
{ } options { BodyLength= u16 Header= f64 ; u128 u128 =
    true
    ; } // a // b")).
Eval vm_compute in ("<<<M866>>>" ++ check (runes_of_ascii "
root packet len
    {char[  1] Foo
    @calculatedFrom( ""abc""
),// `tick` ""quote"" 'q'
}
")).
Eval vm_compute in ("<<<M3292>>>" ++ check (runes_of_ascii "MetaData float { float64 charz `
` , } root packet chars {
// c
@rightPad ( '0' ) Foo , }")).
Eval vm_compute in ("<<<M3503>>>" ++ check (runes_of_ascii "packet chars { } packet MetaDataX { @tag( 42 ) // c
i16 string_ , repeat x `say ""hi""` , }")).
Eval vm_compute in ("<<<M2294>>>" ++ check (runes_of_ascii "options
{ } options { BodyLength= @ u16 Header= f64 ; u128 =
    true
    ; } // a // b")).
Eval vm_compute in ("<<<M3212>>>" ++ check (runes_of_ascii "
// c
packet metadata { Logon { A `" ++ [28040; 24687; 31867; 22411]%N ++ runes_of_ascii "` , tag o , } , zchar len `// not a comment` , }")).
Eval vm_compute in ("<<<M2913>>>" ++ check (runes_of_ascii "packet A {
  match k as n {
    [""a"", ""bb"", ""c c"", ""d"", ""e"", ""f""] : B
    2 : C
  },
}")).
Eval vm_compute in ("<<<M3242>>>" ++ check (runes_of_ascii "packet metadata { Logon { A `" ++ [28040; 24687; 31867; 22411]%N ++ runes_of_ascii "` , tag o , } , zchar len
// c
`// not a comment` , }")).
Eval vm_compute in ("<<<M3430>>>" ++ check (runes_of_ascii "packet
// c
o { repeat Logon uint8x , } options { asx = zchar[ 3 ] stringy = '\x00' }")).
Eval vm_compute in ("<<<M3462>>>" ++ check (runes_of_ascii "packet o { repeat Logon uint8x , } options { asx = zchar[ 3 ] stringy =
// c
'\x00' }")).
Eval vm_compute in ("<<<M2921>>>" ++ check (runes_of_ascii "packet A {
  match k as n {
    [""a"", ""bb"", 007, ""d"", ""e"", 66] : B
    2 : C
  },
}")).
Eval vm_compute in ("<<<M3407>>>" ++ check (runes_of_ascii "MetaData body { i64 pack `it's` ,
// c
} packet stringy { int16 calculatedFrom , }")).
Eval vm_compute in ("<<<M684>>>" ++ check (runes_of_ascii "packet u128{ zchar[ 00 ]
// a // b
// packet A { u8 x, }
f32a
// " ++ [128512]%N ++ runes_of_ascii " emoji
//
, }
")).
Eval vm_compute in ("<<<M2309>>>" ++ check (runes_of_ascii "options
{ } options { " ++ [21517; 23383]%N ++ runes_of_ascii "= u16 Header= f64 ; u128 =
    true
    ; } // a // b")).
Eval vm_compute in ("<<<M1231>>>" ++ check (runes_of_ascii "options	{zchar = 10 As
= u32// packet A { u8 x, }
; A= ""a\\"" // " ++ [128512]%N ++ runes_of_ascii " emoji
}
")).
Eval vm_compute in ("<<<M4211>>>" ++ check (runes_of_ascii "MetaData/// triple

float	{
f64
    // trailing space 
u8x
	`
`,
	}

")).
Eval vm_compute in ("<<<M3567>>>" ++ check (runes_of_ascii "root packet P {
    u16 a,
    u32 Sum @calculatedFrom(""CR\
C32""),
}
")).
Eval vm_compute in ("<<<M2871>>>" ++ check (runes_of_ascii "packet A {
  match k as n {
    [1, 22, 007] : B,
    2 : C
  },
}")).
Eval vm_compute in ("<<<M4407>>>" ++ check (runes_of_ascii "
// c
	packet  x{@rightPad(  )repeat roots 
Logon

`doc`
,	}
")).
Eval vm_compute in ("<<<M3716>>>" ++ check (runes_of_ascii "

  root
packet 	 // c
	  u128 {

    chars
`it's`  , }

")).
Eval vm_compute in ("<<<M3571>>>" ++ check (runes_of_ascii "root packet P {
    repeat string ss,
    repeat u16 ns,
}
")).
Eval vm_compute in ("<<<M3382>>>" ++ check (runes_of_ascii "packet x { @rightPad ( ) repeat roots Logon
// c
`doc` , }")).
Eval vm_compute in ("<<<M805>>>" ++ check (runes_of_ascii "options { Packet =// @lengthOf(
""\n"";// c
}
// " ++ [128512]%N ++ runes_of_ascii " emoji
")).
Eval vm_compute in ("<<<M2824>>>" ++ check (runes_of_ascii "zchar[ i64 true i32 options MetaData @tag( as true [")).
Eval vm_compute in ("<<<M3802>>>" ++ check (runes_of_ascii "MetaData	M {

    } // c
      packet

A  { 
} ")).
Eval vm_compute in ("<<<M2260>>>" ++ check (runes_of_ascii "options
{ } options { BodyLength= u16 Header=")).
Eval vm_compute in ("<<<M784>>>" ++ check (runes_of_ascii "
root packet float{repeat charz falsey  , }
")).
Eval vm_compute in ("<<<M2785>>>" ++ check (runes_of_ascii "= ] i64 f32 @calculatedFrom( ; match false")).
Eval vm_compute in ("<<<M3191>>>" ++ check (runes_of_ascii "root packet // c
u128 { chars `it's` , }")).
Eval vm_compute in ("<<<M2250>>>" ++ check (runes_of_ascii "options
{ } options { BodyLength= u16")).
Eval vm_compute in ("<<<M2749>>>" ++ check (runes_of_ascii "7n9Pa7n1_7](hItIzEPN(=6lB6B^*NjpYE6g")).
Eval vm_compute in ("<<<M4009>>>" ++ check (runes_of_ascii "root packet stringy {
    _x Pad,
}")).
Eval vm_compute in ("<<<M2240>>>" ++ check (runes_of_ascii "options
{ } options { BodyLength")).
Eval vm_compute in ("<<<M3568>>>" ++ check (runes_of_ascii "root packet P {
    string s,
}
")).
Eval vm_compute in ("<<<M2817>>>" ++ check ([65533; 65533; 65533]%N ++ runes_of_ascii "Et" ++ [65533]%N ++ runes_of_ascii "b" ++ [65533]%N ++ runes_of_ascii "=" ++ [4; 15]%N ++ runes_of_ascii "@" ++ [65533; 65533]%N ++ runes_of_ascii "yr" ++ [65533]%N ++ runes_of_ascii "_	kM" ++ [1260; 65533; 23]%N ++ runes_of_ascii "j_" ++ [65533; 65533; 8; 65533]%N)).
Eval vm_compute in ("<<<M4067>>>" ++ check (runes_of_ascii "  root
packet
	chars 
{  }

")).
Eval vm_compute in ("<<<M3031>>>" ++ check (runes_of_ascii "packet A {
    u8 x `x
`,
}")).
Eval vm_compute in ("<<<M2598>>>" ++ check (runes_of_ascii "packet A { B { u8 x, }, }")).
Eval vm_compute in ("<<<M3984>>>" ++ check (runes_of_ascii "packet A {
}// a// b// c")).
Eval vm_compute in ("<<<M912>>>" ++ check (runes_of_ascii "
packet rootA
    {
}")).
Eval vm_compute in ("<<<M3997>>>" ++ check (runes_of_ascii "root packet pack {
}")).
Eval vm_compute in ("<<<M3472>>>" ++ check (runes_of_ascii "MetaData // c
o { }")).
Eval vm_compute in ("<<<M3080>>>" ++ check (runes_of_ascii "packet A {
}
// c" ++ [5760]%N)).
Eval vm_compute in ("<<<M860>>>" ++ check (runes_of_ascii "packet zchar
{ }")).
Eval vm_compute in ("<<<M3872>>>" ++ check (runes_of_ascii "MetaData
u 
{ } ")).
Eval vm_compute in ("<<<M536>>>" ++ check (runes_of_ascii "packet _x	{ }
")).
Eval vm_compute in ("<<<M2763>>>" ++ check ([65533; 65533]%N ++ runes_of_ascii "xu7H\" ++ [65533; 65533; 65533]%N ++ runes_of_ascii "}#")).
Eval vm_compute in ("<<<M1685>>>" ++ check (runes_of_ascii "options {")).
Eval vm_compute in ("<<<M2429>>>" ++ check (runes_of_ascii "char[]x")).
Eval vm_compute in ("<<<M2722>>>" ++ check (runes_of_ascii "w""Bn;m")).
Eval vm_compute in ("<<<M3069>>>" ++ check (runes_of_ascii "// c" ++ [160]%N)).
Eval vm_compute in ("<<<M2523>>>" ++ check (runes_of_ascii "`
`")).
Eval vm_compute in ("<<<M2529>>>" ++ check (runes_of_ascii "1 2")).
Eval vm_compute in ("<<<M2531>>>" ++ check (runes_of_ascii "-1")).
Eval vm_compute in ("<<<M2852>>>" ++ check ([31]%N)).
