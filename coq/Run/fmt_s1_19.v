From FP Require Import Lexer Parser ShowPT Digest Formatter.
From Coq Require Import String List NArith.
Import ListNotations.
Open Scope string_scope.
Set Printing Width 100000000.
Set Printing Depth 100000000.
Definition show_fres (r : fres) : string :=
  match r with
  | FOk s => "OK:" ++ sh_escaped s ""
  | FErr s => "ERR:" ++ sh_escaped s ""
  | FPanic p => "PANIC:" ++ p
  end.
Definition check (rs : list rune) : string := digest (show_fres (format_res rs)).
Definition full (rs : list rune) : string := show_fres (format_res rs).
Eval vm_compute in ("<<<M1778>>>" ++ check (runes_of_ascii "

  packet

    //
	  // " ++ [128512]%N ++ runes_of_ascii " emoji
    body  {	@calculatedFrom( """ ++ [233]%N ++ runes_of_ascii "t" ++ [233]%N ++ runes_of_ascii """ 
)	body

    {
o @calculatedFrom( """ ++ [233]%N ++ runes_of_ascii "t" ++ [233]%N ++ runes_of_ascii """ 
),  } ,  char	i8i8 @lengthOf( int
    )	`doc`
	,
    @rightPad ( 
)
	char[ 
0	]
tag  @lengthOf(
repeatCount 
)
,

    @calculatedFrom(""""
)	x
    @calculatedFrom(

    """ ++ [28040; 24687]%N ++ runes_of_ascii """  ) ,
	@calculatedFrom(	""""  )// c
    	Packet `u8 x,`

    , 	 // trailing space 
  string
    x_y_z ,
    string_
    charz `doc`
, match packetx as	string_ { 00	:
    asx
	,
[""\n"" ]  // " ++ [128512]%N ++ runes_of_ascii " emoji
:	float ,

[
    """ ++ [28040; 24687]%N ++ runes_of_ascii """  
      // @lengthOf(
    /// triple
,  3 ] 
: Foo ,  [

0123456789 ,
    ""1""
] :  o 
""\" ++ [233]%N ++ runes_of_ascii """  : 
_x
, 0123456789

: matchKey
	}
,

    @rightPad
( ' ' 
)

stringy {	match calculatedFrom
    as 
o { // c

1  :
    x_y_z
	,	007
:  pack
,
	3:
asx 
        // trailing space 
  	,// " ++ [27880; 37322]%N ++ runes_of_ascii "
	}, }

,
@calculatedFrom(
    """" )
@tag( 4294967296
	) 
repeat i64 // packet A { u8 x, }
  chars,
}
	packet roots {

}

root

packet rootA  {

@tag(	255

    )	pack	`it's` ,  @lengthOf(
f32a )

@tag(
    // a // b
  1	)

@tag( 7 ) 
      // " ++ [128512]%N ++ runes_of_ascii " emoji

Foo@calculatedFrom(  
  //x
  //
""" ++ [128512]%N ++ runes_of_ascii """
    ) ,
    repeat
calculatedFrom
{ string
	leftPad

`doc` 
,

    repeat
	crc
{ 
pack
	@calculatedFrom( ""\" ++ [233]%N ++ runes_of_ascii """
)

    ,

}
,
}

,  string_	{match i64_ as u8x{
    0:_x ,
},

    },
@lengthOf( u128 
)	// trailing space 
    match	asx

    as
	charz

{
["""" , 4294967296

    ]
:

    A , 	 // trailing space 
    1: options1
, 4294967296 : pack
42	: charz
,
[	""`tick`""	,  // a // b
""x y""	/// triple
  , 	 // " ++ [27880; 37322]%N ++ runes_of_ascii "
  255 
]  // packet A { u8 x, }
    : 
stringy
,},
@rightPad
	(  ' '

)@lengthOf(	// c

Packet

    )	repeat
	uint8x 
trueish
	,
}  MetaData  i8i8 
{ zchar[ 10 
]Z9_	, zchar[
	0
	]Header`a\`
,stringy  roots	// " ++ [27880; 37322]%N ++ runes_of_ascii "
, } 
packet
options1  // c
  { char[
10
    ] Pad
@calculatedFrom(
""\n""
)
	`// not a comment`	,
    roots
    ,
    @calculatedFrom(
    ""x y""
)	zchar
    ,  @rightPad 
(  '0' )
repeat  string 

    //x
    	//
		roots	`say ""hi""` ,

    } ")).
Eval vm_compute in ("<<<M105>>>" ++ check (runes_of_ascii "packet
uint8x {match Pad as// " ++ [128512]%N ++ runes_of_ascii " emoji
repeatCount{ [0 ] :
lengthOf ,[""// no comment"" ] :
metadata ,} , metadata
// trailing space 
//
, zchar[/// triple
1
] trueish//	t
, @calculatedFrom(""a\""b"" ) match//x
roots as f32a { 4294967296
: i64_ , ""it's""
: a1 , [
    // trailing space 
    00	,
    0123456789 ] : As ,
255 : Packet , ""{,}"" :
T/// triple
0
    :
falsey } ,
    body @calculatedFrom( ""\n""
    // trailing space 
    ) , @calculatedFrom( """ ++ [128512]%N ++ runes_of_ascii """ )	@tag(
10 ) char[ 10 ]
    trueish `doc` ,	@tag( 255 ) repeat
    Z9_ { asx chars`// not a comment` , } , @lengthOf(Packet ) u16
    crc , }
    // `tick` ""quote"" 'q'
    options
{ BodyLength =
    i32 ; x// " ++ [128512]%N ++ runes_of_ascii " emoji
=
255
    ; u= 3 } options
{ }
packet
    calculatedFrom {	}
    //x
    root
packet Header {
    Pad {
repeatCount ,  uint16 zchar , match msg_type
as
pack
    /// triple
    {	""abc"" : repeatCount , ""{,}"" : repeatCount""a	b""	: calculatedFrom},
repeat string
Logon `a\` , }
,@lengthOf( x_y_z
    ) match
tag as repeatCount { 007 :  BodyLength , [
    //	t
    """ ++ [28040; 24687]%N ++ runes_of_ascii """ ] :
BodyLength 42: string_ ""// no comment""
// trailing space 
/// triple
: //
Z9_ , 4294967296:
    // " ++ [128512]%N ++ runes_of_ascii " emoji
    _x
    } , f64 u `it's` , zchar[ 00] f32a `doc` ,match
    i64_
    as Logon
    { 4294967296// a // b
:
metadata ,
}
, char[1 ]Pad
, zchar[  0123456789 ] float // @lengthOf(
`` , }

")).
Eval vm_compute in ("<<<M1956>>>" ++ check (runes_of_ascii "root packet As {
    @calculatedFrom(""{,}"")
    zchar[4294967296] As,
    @tag(7)
    repeat pack {
        body {
            // trailing space 
            zchar[65535] MetaDataX `doc`,
            string_ @lengthOf(Logon),
            i64 MetaDataX @calculatedFrom("""") `a\`,//x
            repeat char[] Foo,
        },
        /// triple
        // packet A { u8 x, }
    },
    @lengthOf(MetaDataX)
    @calculatedFrom(""\n"")
    @lengthOf(float)
    char[0123456789] a1 @calculatedFrom(""a\""b""),
    repeat msg_type {
        // `tick` ""quote"" 'q'
        repeat f64 Packet `a\`,
        int64 asx @calculatedFrom(""{,}"") `" ++ [233]%N ++ runes_of_ascii "`,
        zchar[3] metadata,
        zchar[00] x_y_z @calculatedFrom(""CRC32""),
    },
}

packet calculatedFrom {
    match calculatedFrom as BodyLength {
        65535 : Foo,
    },
    match int as falsey {
        42 : body,
        [""abc"", ""\n"", ""abc"", """ ++ [28040; 24687]%N ++ runes_of_ascii """] : stringy,
        [0123456789, ""{,}"", 42, 1] : trueish,
        ""`tick`"" : metadata,
        [""1"", ""a	b"", 42] : zchar,
    },
    repeat zchar[4294967296] stringy `line1
        line2`,
}

options {
    stringy = ' ';
}")).
Eval vm_compute in ("<<<M1555>>>" ++ check (runes_of_ascii "
options {StringPrefixLenType
    =

u64;  ArrayPrefixLenType
	=

u16
    ; FixedStringPadChar  =  ' '

    ;

}  packet
    Logon	{
    i32	msgKind
    , repeat InOrderid65 {
	u8	pad0 
,

}  ,

    i8 
tag7

,
@leftPad(
	' '  )char[ 
12
    ]x

,}packet

Leg{ char[]
	f1 , 
repeat 
char[ 
5 ] Px 
,
InQty34{repeat char[6 ]

    Qty , char[
	7]
seqNo	,string count ,
}
    ,
	Logon,  } packet Party{
@leftPad('0'	)

    char[
	10
]
OrderId,
string
	Tail
, 
}  packet
Fill

{zchar[

5
    ] venue , zchar[
	3
] clOrdID,  InRef95{
	InLastpx25
    {
	u8 
pad0
,

} , float64	OrderId  ,i32 f1
,float32 
x  ,

    char[]

seqNo

,
}

, repeat

string seqNo , } root
packet

    Heartbeat
{	repeat Leg
    ,  u32 seqNo
, 
u16

tag7
    ,

u32 Flags@lengthOf(
Body ) 
,
match

tag7 as

    Body	{

[	195  ,
	75	] :Party  ,
	171
:Fill

, 
78
    : 
Logon
	, 142:	Leg
,	}
	,u32
Note
	@calculatedFrom(

""CRC32""  )

    ,

}
")).
Eval vm_compute in ("<<<M166>>>" ++ check (runes_of_ascii "packet A {
@lengthOf(
    lengthOf)int16 packetx // trailing space 
@calculatedFrom(""1"" )
    , repeat u64 Packet`
` , match trueish as /// triple
roots { 3
: A ,""x y""
// " ++ [27880; 37322]%N ++ runes_of_ascii "
//
:
BodyLength
    //
    ,
    42:Foo  , },
} packet As	{
    msg_type @lengthOf(
    /// triple
    u )
    , }root packet
    zchar
    {i8i8 i8i8
`
` ,zchar
    {int8	Foo
`a\`  , },
    f32 pack @lengthOf(
crc
// packet A { u8 x, }
// c
) , @calculatedFrom( ""{,}""	) // " ++ [27880; 37322]%N ++ runes_of_ascii "
match crc as
roots { 65535 : int ""packet""
:  float ,00 : zchar
// packet A { u8 x, }
// `tick` ""quote"" 'q'
, [ ""x y""] :
options1, ""it's""
:x, } , @lengthOf(
Packet)
    match x
    //	t
    as As{ //	t
0: lengthOf
,
    //	t
    3 : pack , ""it's""  : x_y_z ,
""a\""b"" : metadata
} , uint16
    i8i8, } // a // b")).
Eval vm_compute in ("<<<M242>>>" ++ check (runes_of_ascii "packet
    uint8x { @tag(	0123456789 // a // b
) match u as
As
    {
    ""1""
    :	o ,4294967296 : charz [ ""CRC32""
    ]	: A , 42: zchar, ""CRC32"" : leftPad //	t
,
    """ ++ [28040; 24687]%N ++ runes_of_ascii """// " ++ [128512]%N ++ runes_of_ascii " emoji
: uint8x, } , }
    options {
u128 = uint32
}
    packet
chars
{
    // a // b
    float @lengthOf( _x ) // `tick` ""quote"" 'q'
, string
    chars@lengthOf(
matchKey
// @lengthOf(
// packet A { u8 x, }
) , match  crc as
    Z9_ {0123456789 : int
    ,""x y"" //
:
    rootA,	""`tick`""
    : As,
    // @lengthOf(
    } ,@tag(7 )
Pad @lengthOf( trueish  )`u8 x,`
,}
packet float
{ repeat Packet{ lengthOf {
    //
    repeat f32a`it's`
, } ,	o @lengthOf( calculatedFrom	)  , }
,}

")).
Eval vm_compute in ("<<<M101>>>" ++ check (runes_of_ascii "
root
packet Packet
{ char[0123456789 ] pack @lengthOf(
As ) `{ , }`,
repeat
    // `tick` ""quote"" 'q'
    string
    rootA ,	match
repeatCount
    as
    pack /// triple
{ ""a\""b""
    :uint8x// packet A { u8 x, }
[ ""x y"" ,
    ""it's""
    // " ++ [128512]%N ++ runes_of_ascii " emoji
    ]	: chars
    ""\" ++ [233]%N ++ runes_of_ascii """
: //	t
crc	0123456789 :Packet ,[""1""
]:	A ,
    // @lengthOf(
    } ,// `tick` ""quote"" 'q'
} options /// triple
{ }packet pack // trailing space 
{ i8//x
MetaDataX ,string float
`" ++ [28040; 24687; 31867; 22411]%N ++ runes_of_ascii "`,@lengthOf( trueish)
@calculatedFrom(
    ""`tick`"" ) f64 lengthOf ,repeat pack	packetx
// trailing space 
// packet A { u8 x, }
, }
")).
Eval vm_compute in ("<<<M1921>>>" ++ check (runes_of_ascii "root packet i8i8 {
    BodyLength `" ++ [28040; 24687; 31867; 22411]%N ++ runes_of_ascii "`,
    Header,
    int16 len @lengthOf(msg_type) `
        `,
    @leftPad(' ')
    @rightPad()
    // trailing space 
    @calculatedFrom(""x y"")
    repeatCount @calculatedFrom(""packet"") `crlf
        line`,
    @lengthOf(falsey)
    roots @lengthOf(metadata) `line1
        line2`,
    i8 i64_,
    @tag(4294967296)
    @tag(3)
    repeat zchar[1] lengthOf,
    @lengthOf(Logon)
    repeat asx {
        stringy float `line1
                line2`,
        Pad,
    },
}")).
Eval vm_compute in ("<<<M1929>>>" ++ check (runes_of_ascii "packet i8i8

    {

matchKey//x
	,match  trueish 
	//	t
  // c
    as roots
    { 
[	00 ]  : int,
	255:	u128 , 3	:  matchKey
    ,

[
    65535 ]
    :
    // c
//
  trueish

,  //	t
	  }
	,

    }packet packetx 
{ 
}	packet 
u8x
    {
@tag(

3
)  match x_y_z

    as leftPad	{

    [

    7	]  :u8x}
	,@tag(42)int64

lengthOf ,
@tag(255  )

zchar[
	7]
o 
, 
A
	,@tag(  0  
  // @lengthOf(
		) 
repeat

lengthOf u8x ,	}

")).
Eval vm_compute in ("<<<M1219>>>" ++ check (runes_of_ascii "// top
root
    // c0
packet
    // c1
matchKey
    // c2
{
    // c3
zchar[
    // c4
3
    // c5
]
    // c6
pack
    // c7
@calculatedFrom(
    // c8
""a	b""
    // c9
)
    // c10
`doc`
    // c11
,
    // c12
}
    // c13
options
    // c14
{
    // c15
}
    // c16
MetaData
    // c17
A
    // c18
{
    // c19
int8
    // c20
msg_type
    // c21
,
    // c22
}
    // c23
")).
Eval vm_compute in ("<<<M1567>>>" ++ check (runes_of_ascii "options {
    FixedStringPadFromLeft = true;
    FixedStringPadChar = ' ';
}
packet Reject {
}
packet Fill {
    repeat i16 Tail,
}
root packet Trade {
    float64 Ref,
    Fill,
    u8 Note,
    u16 count @lengthOf(Body),
    match Note as Body {
        [98, 101] : Fill,
        34 : Reject,
    },
    u32 x @calculatedFrom(""CRC32""),
}
")).
Eval vm_compute in ("<<<M290>>>" ++ check (runes_of_ascii "packet i8i8
{ zchar[	10 ]a1 ,	}packet x_y_z {
//
// c
} options{	matchKey
= false// " ++ [128512]%N ++ runes_of_ascii " emoji
;
Foo=
i32 ; MetaDataX  = 007 pack =
""" ++ [28040; 24687]%N ++ runes_of_ascii """
// a // b
// c
; }  packet leftPad  {} root packet// a // b
stringy{/// triple
rootA Pad ,	falsey @calculatedFrom( ""it's"") `two words` , u8x float
, int64
u8x, } //x")).
Eval vm_compute in ("<<<M116>>>" ++ check (runes_of_ascii "packet string_ { trueish
{options1 @lengthOf( Z9_ ) `// not a comment` , // c
_x
    //	t
    @lengthOf( u128), /// triple
match packetx as charz{[
1 , 3 ,
""a\\"" //x
,10 ] : lengthOf ,
""" ++ [28040; 24687]%N ++ runes_of_ascii """
:float	""CRC32"" : // a // b
calculatedFrom
, """ ++ [128512]%N ++ runes_of_ascii """ : tag , 00
:
rootA, }
    ,} ,}")).
Eval vm_compute in ("<<<M82>>>" ++ check (runes_of_ascii "packet
zchar {@rightPad (// a // b
) uint8 a1 `line1
line2` , @calculatedFrom( ""x y"" ) match pack as	matchKey
{
    /// triple
    """ ++ [28040; 24687]%N ++ runes_of_ascii """  : //x
u128 ,
    3 : i64_
    ""a\""b""
    : As , } ,
// " ++ [27880; 37322]%N ++ runes_of_ascii "
// @lengthOf(
u8 Packet	@calculatedFrom( ""// no comment"" ) //x
,
    }
//
")).
Eval vm_compute in ("<<<M536>>>" ++ check (runes_of_ascii "root packet tag { }  packet MetaDataX{char[007	]
// c
/// triple
root  @calculatedFrom( ""a\""b""
) `say ""hi""`// " ++ [27880; 37322]%N ++ runes_of_ascii "
,  @tag(4294967296 )
    char[1//x
] packetx @calculatedFrom(""a\""b""
    ) ,
// " ++ [128512]%N ++ runes_of_ascii " emoji
// a // b
@calculatedFrom(""" ++ [233]%N ++ runes_of_ascii "t" ++ [233]%N ++ runes_of_ascii """  ) repeat pack // " ++ [27880; 37322]%N ++ runes_of_ascii "
,
    } // c")).
Eval vm_compute in ("<<<M565>>>" ++ check (runes_of_ascii "root packet tag { }  packet MetaDataX{char[007	]
// c
/// triple
asx  @calculatedFrom( ""a\""b""
) `say ""hi""`// " ++ [27880; 37322]%N ++ runes_of_ascii "
,  4294967296@tag( )
    char[1//x
] packetx @calculatedFrom(""a\""b""
    ) ,
// " ++ [128512]%N ++ runes_of_ascii " emoji
// a // b
@calculatedFrom(""" ++ [233]%N ++ runes_of_ascii "t" ++ [233]%N ++ runes_of_ascii """  ) repeat pack // " ++ [27880; 37322]%N ++ runes_of_ascii "
,
    } // c")).
Eval vm_compute in ("<<<M25>>>" ++ check (runes_of_ascii "
root packet  calculatedFrom { repeat Header
, } MetaData Header{ zchar[// packet A { u8 x, }
10
]	As
    ,// trailing space 
string
chars, crc Logon `u8 x,`  , Z9_ Logon ,	}packet trueish
    {}
    MetaData
A { }  options { options1
=
' '
    //
    ; //	t
}
")).
Eval vm_compute in ("<<<M603>>>" ++ check (runes_of_ascii "root packet tag { }  packet MetaDataX{char[007	]
// c
/// triple
asx  @calculatedFrom( ""a\""b""
) `say ""hi""`// " ++ [27880; 37322]%N ++ runes_of_ascii "
,  @tag(4294967296 )
    char[1//x
] packetx @calculatedFrom(
    ) ,
// " ++ [128512]%N ++ runes_of_ascii " emoji
// a // b
@calculatedFrom(""" ++ [233]%N ++ runes_of_ascii "t" ++ [233]%N ++ runes_of_ascii """  ) repeat pack // " ++ [27880; 37322]%N ++ runes_of_ascii "
,
    } // c")).
Eval vm_compute in ("<<<M1523>>>" ++ check (runes_of_ascii "
packet
Logon{ 
string user 
, } 
root packet

    Frame  {
u8

K, match
K as
Body	{ 1

:
	Logon
, 2

    : Logout

    ,  } ,

Tail ,	}
	packet
Logout
    {u16
    reason  ,

    }	packet Tail
    {

    u32  crc
    , }
")).
Eval vm_compute in ("<<<M95>>>" ++ check (runes_of_ascii "packet len {
@tag( 255  ) repeat // packet A { u8 x, }
zchar[ 007] roots
, leftPad { //	t
f32 calculatedFrom , f32
    lengthOf , u32 calculatedFrom , } ,
x//	t
x
    ,} MetaData u128 {
A i8i8 `two words` ,}
")).
Eval vm_compute in ("<<<M185>>>" ++ check (runes_of_ascii "packet a1 {
    char[ 0 ]
len
    `two words` , char[ 00 ]packetx ,} MetaData pack // a // b
{	int64 a1 `crlf
line` ,i64_  Foo,
char[0123456789
// " ++ [128512]%N ++ runes_of_ascii " emoji
// " ++ [27880; 37322]%N ++ runes_of_ascii "
] x
    `tab	here` ,
    }

")).
Eval vm_compute in ("<<<M1490>>>" ++ check (runes_of_ascii "
packet A{	u8	a ,

    }
packet

B  {u16	b,

}root

packet P{ u8	K1
    ,u8 K2 
, 
match
    K1 as M1  {
    1
    :	A
,

    }	, match

    K2
as
	M2

    {1: B,	} , 
} ")).
Eval vm_compute in ("<<<M469>>>" ++ check (runes_of_ascii "packet'1'
    // `tick` ""quote"" 'q'
    crc
// packet A { u8 x, }
//	t
{
u32 a1 ,
    // trailing space 
    roots
charz //
`two words`,	}
    MetaData int {
} /// triple")).
Eval vm_compute in ("<<<M691>>>" ++ check (runes_of_ascii "root packet len // trailing space 
{
// " ++ [27880; 37322]%N ++ runes_of_ascii "
//	t
char[ ]
10 metadata	@lengthOf( o ) `crlf
line`,
    @rightPad
( ' '
) string
    Header @calculatedFrom( ""a\\""
    ), }
")).
Eval vm_compute in ("<<<M714>>>" ++ check (runes_of_ascii "root packet len // trailing space 
{
// " ++ [27880; 37322]%N ++ runes_of_ascii "
//	t
char[10
] metadata	@lengthOf( o ) `crlf
line`,
    @rightPad
( )
' ' string
    Header @calculatedFrom( ""a\\""
    ), }
")).
Eval vm_compute in ("<<<M682>>>" ++ check (runes_of_ascii "] packet len // trailing space 
{
// " ++ [27880; 37322]%N ++ runes_of_ascii "
//	t
char[10
] metadata	@lengthOf( o ) `crlf
line`,
    @rightPad
( ' '
) string
    Header @calculatedFrom( ""a\\""
    ), }
")).
Eval vm_compute in ("<<<M424>>>" ++ check (runes_of_ascii "packet
    // `tick` ""quote"" 'q'
    crc
// packet A { u8 x, }
//	t
{
u32 a1 ,
    // trailing space 
    roots
charz //
,	}
    MetaData int {
} /// triple")).
Eval vm_compute in ("<<<M1767>>>" ++ check (runes_of_ascii "packet	A
	{	match	k
    as

    n { 
[""a"" , 
""bb""
    , ""c c""
,
    ""d""
    ,
""e""

, ""f""
	,
""g"",

    ""h"",
    ""i""]
: B
	, 2	: C },

    }

")).
Eval vm_compute in ("<<<M297>>>" ++ check (runes_of_ascii "packet
    // " ++ [27880; 37322]%N ++ runes_of_ascii "
    Foo
{ //x
uint8x
// " ++ [27880; 37322]%N ++ runes_of_ascii "
// " ++ [128512]%N ++ runes_of_ascii " emoji
,match
len as options1
// a // b
// trailing space 
{ 3 /// triple
:i64_ , }
, }
")).
Eval vm_compute in ("<<<M298>>>" ++ check (runes_of_ascii "MetaData  metadata
{	char[65535]	x ,
    // c
    char[]
    u128, pack Z9_ , }
    packet // " ++ [27880; 37322]%N ++ runes_of_ascii "
a1{ repeat float repeatCount, }
")).
Eval vm_compute in ("<<<M572>>>" ++ check (runes_of_ascii "root packet tag { }  packet MetaDataX{char[007	]
// c
/// triple
asx  @calculatedFrom( ""a\""b""
) `say ""hi""`// " ++ [27880; 37322]%N ++ runes_of_ascii "
,  @tag(")).
Eval vm_compute in ("<<<M1253>>>" ++ check (runes_of_ascii "root packet matchKey { zchar[ 3 ] pack @calculatedFrom( ""a	b"" ) `doc` , } options { // c
} MetaData A { int8 msg_type , }")).
Eval vm_compute in ("<<<M1990>>>" ++ check (runes_of_ascii "  packet  A

    {
	match k  as
    n

    {
	[ 
1 , 
22	,
""c c"" 
,

    4 , 5

    ,
""f""  ]
: B 2 :C },	}
")).
Eval vm_compute in ("<<<M423>>>" ++ check (runes_of_ascii "packet
    // `tick` ""quote"" 'q'
    crc
// packet A { u8 x, }
//	t
{
u32 a1 ,
    // trailing space 
    roots")).
Eval vm_compute in ("<<<M24>>>" ++ check (runes_of_ascii "root packet
    metadata// " ++ [128512]%N ++ runes_of_ascii " emoji
{ } packet // c
u
{@leftPad (
) repeat char[  4294967296 ] A
`a\`  ,
}
")).
Eval vm_compute in ("<<<M1922>>>" ++ check (runes_of_ascii "MetaData float {
    float64 charz `
        `,
}

root packet chars {
    @rightPad('0')
    Foo,
}// c")).
Eval vm_compute in ("<<<M1514>>>" ++ check (runes_of_ascii "  packet
    FooBar
{
u8

a
, }	packet

foo_bar{
u16  b	,}
root
packet R

{
	FooBar 
, foo_bar,} ")).
Eval vm_compute in ("<<<M878>>>" ++ check (runes_of_ascii "packet A {
  match k as n {
    [1, ""bb"", 007, ""d"", 5, ""f"", 7, ""h"", 9, ""j""] : B
    2 : C
  },
}")).
Eval vm_compute in ("<<<M76>>>" ++ check (runes_of_ascii "MetaData
chars {
uint32 chars	`doc` , int64 float, // trailing space 
u8
pack `
` ,
    }
")).
Eval vm_compute in ("<<<M1180>>>" ++ check (runes_of_ascii "MetaData // c
float { float64 charz `
` , } root packet chars { @rightPad ( '0' ) Foo , }")).
Eval vm_compute in ("<<<M1212>>>" ++ check (runes_of_ascii "MetaData float { float64 charz `
` , } root packet chars { @rightPad ( '0' ) Foo // c
, }")).
Eval vm_compute in ("<<<M1423>>>" ++ check (runes_of_ascii "packet chars { } packet MetaDataX { @tag( 42 ) i16 string_ , repeat
// c
x `say ""hi""` , }")).
Eval vm_compute in ("<<<M824>>>" ++ check (runes_of_ascii "packet A {
  match k as n {
    [""a"", ""bb"", ""c c"", ""d"", ""e"", ""f""] : B
    2 : C
  },
}")).
Eval vm_compute in ("<<<M1153>>>" ++ check (runes_of_ascii "packet metadata { Logon { A `" ++ [28040; 24687; 31867; 22411]%N ++ runes_of_ascii "` , tag o , } , zchar len
// c
`// not a comment` , }")).
Eval vm_compute in ("<<<M1358>>>" ++ check (runes_of_ascii "packet o { repeat Logon uint8x , } options { // c
asx = zchar[ 3 ] stringy = '\x00' }")).
Eval vm_compute in ("<<<M1807>>>" ++ check (runes_of_ascii "packet A {
    B b `tab
    	x`,
    B `tab
    	x`,
    repeat B bs `tab
    	x`,
}")).
Eval vm_compute in ("<<<M1319>>>" ++ check (runes_of_ascii "MetaData body { i64 pack `it's` , } // c
packet stringy { int16 calculatedFrom , }")).
Eval vm_compute in ("<<<M826>>>" ++ check (runes_of_ascii "packet A {
  match k as n {
    [1, ""bb"", 007, ""d"", 5, ""f""] : B
    2 : C
  },
}")).
Eval vm_compute in ("<<<M822>>>" ++ check (runes_of_ascii "packet A {
  match k as n {
    [1, 22, 007, 4, 5, 66] : B
    2 : C
  },
}")).
Eval vm_compute in ("<<<M2075>>>" ++ check (runes_of_ascii "  packet
    x
{
	@rightPad  ( ) repeat	roots Logon 	 // c
`doc`

, }
")).
Eval vm_compute in ("<<<M919>>>" ++ check (runes_of_ascii "packet A {
    B b `a
b`,
    B `a
b`,
    repeat B bs `a
b`,
}")).
Eval vm_compute in ("<<<M773>>>" ++ check (runes_of_ascii "packet A {
  match k as n {
    [1, 22] : B,
    2 : C
  },
}")).
Eval vm_compute in ("<<<M1279>>>" ++ check (runes_of_ascii "packet x
// c
{ @rightPad ( ) repeat roots Logon `doc` , }")).
Eval vm_compute in ("<<<M300>>>" ++ check (runes_of_ascii "
MetaData trueish // c
{  string	trueish `it's`	,
}")).
Eval vm_compute in ("<<<M1068>>>" ++ check (runes_of_ascii "packet A {} packet B {} MetaData M {} options {}")).
Eval vm_compute in ("<<<M527>>>" ++ check (runes_of_ascii "root packet tag { }  packet MetaDataX{char[")).
Eval vm_compute in ("<<<M1107>>>" ++ check (runes_of_ascii "root packet u128 {
// c
chars `it's` , }")).
Eval vm_compute in ("<<<M930>>>" ++ check (runes_of_ascii "packet A {
    u8 x `a
    b
  c`,
}")).
Eval vm_compute in ("<<<M1606>>>" ++ check (runes_of_ascii "packet A {
    u8 x `d" ++ [11]%N ++ runes_of_ascii "`,// c" ++ [11]%N ++ runes_of_ascii "
}")).
Eval vm_compute in ("<<<M1981>>>" ++ check (runes_of_ascii "packet A {
    u8 x `
    `,
}")).
Eval vm_compute in ("<<<M108>>>" ++ check (runes_of_ascii "packet  o {  } // " ++ [128512]%N ++ runes_of_ascii " emoji")).
Eval vm_compute in ("<<<M1382>>>" ++ check (runes_of_ascii "
// c
MetaData o { }")).
Eval vm_compute in ("<<<M992>>>" ++ check (runes_of_ascii "// c" ++ [5760]%N ++ runes_of_ascii "
packet A {
}")).
Eval vm_compute in ("<<<M974>>>" ++ check (runes_of_ascii "packet A {
}// c" ++ [12288]%N)).
Eval vm_compute in ("<<<M765>>>" ++ check (runes_of_ascii "T5 y!?""5s|e^*")).
Eval vm_compute in ("<<<M980>>>" ++ check (runes_of_ascii "// c" ++ [160]%N)).
Eval vm_compute in ("<<<M729>>>" ++ check ([65279]%N)).
