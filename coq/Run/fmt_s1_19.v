From FP Require Import Lexer Parser ShowPT Digest Formatter.
From Coq Require Import String List NArith.
Import ListNotations.
Open Scope string_scope.
Set Printing Width 100000000.
Set Printing Depth 100000000.
Definition show_fres (r : fres) : string :=
  match r with
  | FOk s => "OK:" ++ sh_escaped s ""
  | FErr s => "ERR:" ++ sh_escaped s ""
  | FPanic p => "PANIC:" ++ p
  end.
Definition check (rs : list rune) : string := digest (show_fres (format_res rs)).
Definition full (rs : list rune) : string := show_fres (format_res rs).
Eval vm_compute in ("<<<M4325>>>" ++ check (runes_of_ascii "  // c

	root 
packet pack
	{
    repeat	char[
	007 ] MetaDataX `say ""hi""` , char[]x_y_z
    @lengthOf(
u128 )

,

    @tag(10

)	match falsey

as
string_
    {	""packet""
	:

    u 
,
42 
:	options1 ,""CRC32"" :

trueish

    ,	0123456789
:
    Packet ,

    """ ++ [128512]%N ++ runes_of_ascii """
:trueish

4294967296 : // a // b
    matchKey , }
	,
}

    packet

roots
{  repeat f32a
{ 	 // c
  match

trueish 	 // c
  as 
    // a // b
    // trailing space 
		x 
    /// triple
  // trailing space 
    {// trailing space 
  	[
""{,}""
    ,

    """ ++ [28040; 24687]%N ++ runes_of_ascii """ ,0 ,

""abc""
,""a\""b""
,007

] :
Foo
} 	 /// triple

	,}	// c
    	,
@lengthOf(Z9_)  @tag(  7	) chars uint8x

`it's`
	, 
@calculatedFrom( ""a	b"" 
)	crc  { match
    // c
// " ++ [128512]%N ++ runes_of_ascii " emoji

trueish 
as // packet A { u8 x, }
    metadata 
{ 65535 :

    string_
    """ ++ [28040; 24687]%N ++ runes_of_ascii """
: Logon
,} ,char[
    007	// " ++ [27880; 37322]%N ++ runes_of_ascii "
	]
falsey
`100% of %d` ,
u128

@calculatedFrom(  ""{,}"" 
)

,
	}  // c
  ,

match

// packet A { u8 x, }
// 50% %s

a1 as
    As{
""" ++ [233]%N ++ runes_of_ascii "t" ++ [233]%N ++ runes_of_ascii """
: asx

255

:	As""// no comment""	:
	string_ 
//
    	//x
,
	0123456789
:
Z9_	, 65535

    : // @lengthOf(
	A 4294967296: options1
	,
	}
	,
    repeat  MetaDataX

,
Logon

,	@calculatedFrom( ""a\\""
) 
        // `tick` ""quote"" 'q'
  options1 ,@lengthOf(
T)roots	, Foo

@lengthOf(  Pad
	) , 	 // " ++ [27880; 37322]%N ++ runes_of_ascii "
  	char[65535]len

, }
root// " ++ [27880; 37322]%N ++ runes_of_ascii "

	packet

repeatCount

    {	// trailing space 
@calculatedFrom( ""CRC32"" )
    @tag(	7
)
	@calculatedFrom(
""a\\""
)
u128
{ metadata  @calculatedFrom(

""// no comment""
) `two words`

    ,} ,@rightPad
    ( )
    repeat char[

0123456789	//

  ]
	MetaDataX
    ,
@calculatedFrom(

""x y"" )stringy

    @lengthOf( metadata

    )	,Foo
options1 	 // @lengthOf(
,
	@leftPad ('\x00' 
    // packet A { u8 x, }
	// " ++ [128512]%N ++ runes_of_ascii " emoji
	)@rightPad //	t
()	i32

T , zchar[
    007  ]
a1

    `" ++ [28040; 24687; 31867; 22411]%N ++ runes_of_ascii "`,  @lengthOf(uint8x )
MetaDataX	@calculatedFrom( 
""\" ++ [233]%N ++ runes_of_ascii """ )
`line1
line2` , @calculatedFrom( 
""a	b""
	/// triple
) string  matchKey  `doc` ,	@lengthOf(
    As 
)// @lengthOf(
@calculatedFrom(  ""// no comment"" ) @tag(
10  )string
    Foo  ,	repeat

lengthOf  `// not a comment`
,} 
      /// triple")).
Eval vm_compute in ("<<<M3451>>>" ++ check (runes_of_ascii "options { // c1a
  // c1b
LittleEndian // c2
= true // c4a
  // c4b
; // c5
StringPrefixLenType // c6a
  // c6b
=
    // c7
u8 // c8
; // c9a
  // c9b
FixedStringPadFromLeft
    // c10
= // c11a
  // c11b
false // c12a
  // c12b
; // c13
FixedStringPadChar // c14a
  // c14b
= // c15
'0' // c16a
  // c16b
; // c17
}
    // c18
packet
    // c19
Order { repeat // c22
string // c23
Px // c24
, // c25a
  // c25b
repeat // c26a
  // c26b
char[
    // c27
2 // c28
] // c29
Qty
    // c30
, string
    // c32
Tail
    // c33
, // c34
char[] // c35
OrderId // c36
,
    // c37
int8 // c38
tag7 , // c40
int64 // c41a
  // c41b
Flags
    // c42
, // c43
} // c44
packet Party // c46a
  // c46b
{ // c47a
  // c47b
Order // c48a
  // c48b
, // c49
f32
    // c50
lastPx , f32
    // c53
Note , // c55a
  // c55b
string x
    // c57
, } // c59
packet Logon
    // c61
{ uint8 OrderId // c64a
  // c64b
,
    // c65
string // c66
msgKind // c67a
  // c67b
, // c68
int32 // c69
lastPx , // c71
} // c72a
  // c72b
packet // c73
Ack
    // c74
{
    // c75
}
    // c76
packet // c77a
  // c77b
Cancel { // c79
repeat // c80a
  // c80b
char[ // c81
5 ] // c83a
  // c83b
Note
    // c84
, // c85a
  // c85b
repeat // c86a
  // c86b
i32 // c87
x // c88a
  // c88b
, Ack ,
    // c91
repeat // c92
InF16 // c93
{ repeat // c95
i8 sym , } // c99a
  // c99b
, // c100a
  // c100b
char[
    // c101
1 // c102a
  // c102b
] Acct // c104
,
    // c105
} // c106a
  // c106b
root
    // c107
packet // c108
Fill { // c110
i32 // c111
price
    // c112
, @leftPad ( // c115
' ' // c116a
  // c116b
)
    // c117
char[ 8 // c119
] msgKind // c121a
  // c121b
,
    // c122
char[] Acct
    // c124
, // c125a
  // c125b
char[] // c126
Note , // c128
uint64 // c129
venue // c130a
  // c130b
, // c131a
  // c131b
} // c132
")).
Eval vm_compute in ("<<<M934>>>" ++ check (runes_of_ascii "
packet	_x
{} options {
repeatCount=	""" ++ [28040; 24687]%N ++ runes_of_ascii """ ; options1= 10 ; }
    options { repeatCount = true
    ; lengthOf
= ""\n"" f32a=
false ; Header =false ; x_y_z = //x
7;
// " ++ [27880; 37322]%N ++ runes_of_ascii "
// @lengthOf(
} root packet
    // c
    zchar{ A @calculatedFrom( ""1""
    // packet A { u8 x, }
    ) ,
    repeat packetx// " ++ [128512]%N ++ runes_of_ascii " emoji
{ match  Packet	as leftPad	{ ""{,}""
// @lengthOf(
//x
: repeatCount [""{,}"" , ""`tick`"" , 00
    ,""CRC32""  , ""packet"" ] : rootA
    , ""CRC32""	:
chars,
[ ""x y""] :
    leftPad ,[7, 007 ,
0123456789,
    ""a\""b"" , 007 , // trailing space 
""\" ++ [233]%N ++ runes_of_ascii """ ,4294967296] :u },u64 //
rootA,
}  ,	@lengthOf(tag )
repeat
char[]	tag
, u @calculatedFrom(
"""" )
,
    u32 zchar  `" ++ [233]%N ++ runes_of_ascii "` ,
match
    // " ++ [27880; 37322]%N ++ runes_of_ascii "
    Header // @lengthOf(
as msg_type {"""" : calculatedFrom
,	0123456789 :  chars,
    //x
    42 :
//x
// " ++ [27880; 37322]%N ++ runes_of_ascii "
uint8x
    ,255 :T [
""CRC32"" ,
    //
    ""packet"" // 50% %s
, ""\" ++ [233]%N ++ runes_of_ascii """ ,10
    , 00 ] :
x // `tick` ""quote"" 'q'
, } ,  uint64
    MetaDataX @lengthOf( u) , lengthOf msg_type ,Pad{
    u128 { match
    // a // b
    options1 as zchar{ 42
// " ++ [128512]%N ++ runes_of_ascii " emoji
//	t
:
roots	, } ,match u128
as
    x_y_z {
""a	b""
// a // b
// c
: u
    ,
[ 007 // trailing space 
,
    007, """ ++ [233]%N ++ runes_of_ascii "t" ++ [233]%N ++ runes_of_ascii """ //x
] :
As ,
""""
    :
    crc ""1"" :  _x
// trailing space 
//	t
[ //x
""" ++ [28040; 24687]%N ++ runes_of_ascii """, ""a	b""
,
65535 , 1 , ""`tick`""
    //x
    ,007] :  As
,0123456789
    :
falsey
,} , f64
Foo `it's` , f32 rootA , } , } //x
, }
    root packet BodyLength { repeat metadata {f32a
    //x
    matchKey
    , string_  zchar, } , }
")).
Eval vm_compute in ("<<<M198>>>" ++ check (runes_of_ascii "packet stringy { repeat	f32a o`" ++ [28040; 24687; 31867; 22411]%N ++ runes_of_ascii "`
    , @lengthOf( f32a) /// triple
char[
    42 ] uint8x ,
@tag( 42// trailing space 
)
    float @lengthOf( MetaDataX ),
    string
    T	,
    match
_x as
leftPad {
0123456789  : stringy, }
    ,
@leftPad ( )
    repeat
uint8x { string_{ char[	255]
a1 @calculatedFrom(
    // " ++ [27880; 37322]%N ++ runes_of_ascii "
    ""abc"" ) , metadata
@lengthOf( asx
    ) // packet A { u8 x, }
,}
//	t
// " ++ [27880; 37322]%N ++ runes_of_ascii "
,
    repeat
    falsey , Logon {As,
    repeat char[] u , }, }  , @leftPad (' ' // a // b
)	char[10
] charz @lengthOf(float
    )
    // 50% %s
    ,@calculatedFrom( """ ++ [233]%N ++ runes_of_ascii "t" ++ [233]%N ++ runes_of_ascii """)
i64 trueish `" ++ [28040; 24687; 31867; 22411]%N ++ runes_of_ascii "` // `tick` ""quote"" 'q'
,
}options
// c
// a // b
{ options1 =  7 ; u =
""""
    ;
} root packet
Packet {
char As `` ,
    repeat leftPad //x
{match
    x_y_z
    as x_y_z	{	""abc"" : f32a
    [
    1
    //x
    ,42 ]
:	rootA
, 7 : pack	,
    ""abc""
    : _x
""1""  :	asx, ""packet"" :int// trailing space 
}
, }// a // b
, @calculatedFrom( ""\n"" )repeat
    f64 u8x
, @lengthOf(
    zchar )
    o,
    pack @lengthOf(
falsey ) `two words` , zchar[ 1]asx @lengthOf( uint8x)
    , @calculatedFrom( ""\n""
// c
// 50% %s
)
    char[ 42 ] // a // b
u @calculatedFrom(""packet"" )
    , match // " ++ [27880; 37322]%N ++ runes_of_ascii "
rootA as i8i8{ 00
// `tick` ""quote"" 'q'
// packet A { u8 x, }
: A ,	0 : o 0123456789
    :
len	,
    65535 : zchar
    } ,
}
//
")).
Eval vm_compute in ("<<<M480>>>" ++ check (runes_of_ascii "root packet // `tick` ""quote"" 'q'
Packet
// `tick` ""quote"" 'q'
// `tick` ""quote"" 'q'
{ char i64_,match
crc
    as
trueish
{007
    :pack  ,[""a\\"" , 255 // a // b
] :
a1 , // packet A { u8 x, }
} ,MetaDataX{
char[ 1
]
    Z9_ `100% of %d` ,
    } ,	@calculatedFrom( ""a	b"" ) @tag( 3 // trailing space 
)@tag(42) match stringy  as calculatedFrom
    //	t
    { """ ++ [233]%N ++ runes_of_ascii "t" ++ [233]%N ++ runes_of_ascii """
:
Z9_ , ""\n"":
    uint8x ,[""x y"",
    ""packet"", ""it's""]: repeatCount
    }
, @tag(
65535 )	int16 x `doc` , @leftPad ( '0' )char[]
options1
    , // 50% %s
match len
as // a // b
As	{ [ ""x y""
    , 00 , // " ++ [128512]%N ++ runes_of_ascii " emoji
""it's""
    ,
    ""1"" , // @lengthOf(
10	, ""`tick`""
    , ""// no comment""] :
crc	,
    3:
T,} ,}options{ calculatedFrom = f64 calculatedFrom= '\x00'
; zchar = f32
;
    } packet lengthOf  {i8
leftPad
    ,i8 uint8x @calculatedFrom(
    ""packet"" ) `100% of %d` ,
@calculatedFrom("""" )@tag( 007 )char[ 10
]
    T // @lengthOf(
@calculatedFrom(	""""
) , u8x
    {// " ++ [128512]%N ++ runes_of_ascii " emoji
zchar
    // 50% %s
    @lengthOf( u)  `100% of %d`	,	}
, float // trailing space 
`" ++ [233]%N ++ runes_of_ascii "`,
i64 packetx  , @lengthOf( BodyLength)	string calculatedFrom
    , repeat
    zchar[
00 //
] roots, }packet
    T // packet A { u8 x, }
{ }
//x
")).
Eval vm_compute in ("<<<M722>>>" ++ check (runes_of_ascii "// `tick` ""quote"" 'q'
root packet Z9_{ char[ 1 ] x_y_z
    @lengthOf( body) , i32 o
, repeat
    falsey u128 `it's`
, // `tick` ""quote"" 'q'
uint32  As  `` , repeat i8	i64_`100% of %d`, @calculatedFrom(
""a\""b""
)repeat float
    ,@rightPad ( // `tick` ""quote"" 'q'
'0'
)char[]u
`it's` ,
//
//x
u8x@calculatedFrom( ""x y"" ) `doc` // c
, //	t
int8
    stringy	`tab	here` , } packet calculatedFrom {
    f64  u128 @lengthOf(
    len ) ,
    } packet As  { float64 calculatedFrom `two words`
    ,  match repeatCount // packet A { u8 x, }
as // @lengthOf(
chars { """" :
charz	, } ,	repeat // 50% %s
trueish
{ u8 Z9_ ,
repeat
body,},
int float ,@leftPad (
)tag {	u16 string_
@calculatedFrom( ""`tick`"")`
` ,
zchar[007 ] x @calculatedFrom(""1""
//
// " ++ [128512]%N ++ runes_of_ascii " emoji
)`// not a comment`,
    }
    ,
A roots ,@tag(
4294967296 ) match msg_type	as  A{ 007
: msg_type  , /// triple
[
42
    // a // b
    , ""{,}""]  : x_y_z, 255
    //	t
    :  f32a // `tick` ""quote"" 'q'
,
[0123456789 ,	""1"" ] :
    T
,
} , @tag(0 ) o packetx
`" ++ [28040; 24687; 31867; 22411]%N ++ runes_of_ascii "`,
pack  int
    `two words`
    //	t
    ,// trailing space 
@rightPad ( ' '
) i64_  @lengthOf( Foo ), }")).
Eval vm_compute in ("<<<M771>>>" ++ check (runes_of_ascii "packet Z9_{  @tag( 007
) @tag( 007 ) @lengthOf( trueish
) char[]
i8i8 `{ , }` , } MetaData trueish
    {  char[] metadata ,
char[
    0123456789]
uint8x , //
} packet Packet/// triple
{ uint16 float
@lengthOf(
    Z9_
) `" ++ [28040; 24687; 31867; 22411]%N ++ runes_of_ascii "`
    ,
@calculatedFrom( ""// no comment"" )
// a // b
//	t
crc,uint8x `" ++ [233]%N ++ runes_of_ascii "`
, uint16 packetx , @leftPad
    (
) repeat rootA
{
repeat
    // `tick` ""quote"" 'q'
    As options1	, } ,match x as tag {1
// 50% %s
//
:
// " ++ [128512]%N ++ runes_of_ascii " emoji
// 50% %s
T
// c
// 50% %s
,
""abc"" : tag""\n""
    // @lengthOf(
    :
/// triple
//x
tag ,  65535 :	u ,
} // trailing space 
, match
    // trailing space 
    Pad as
Foo // `tick` ""quote"" 'q'
{ ""it's"":
T , } ,metadata,@lengthOf(rootA )  @rightPad ('\x00' )
    // packet A { u8 x, }
    match i64_	as  stringy { """ ++ [233]%N ++ runes_of_ascii "t" ++ [233]%N ++ runes_of_ascii """ : crc
,
00 : trueish 0 :repeatCount
    ,
3
    :
falsey , """ ++ [28040; 24687]%N ++ runes_of_ascii """ : lengthOf  [ """"// `tick` ""quote"" 'q'
, 1 ]
    : lengthOf , } ,
} MetaData A {
    chars MetaDataX ,
    char[ 7 ] x_y_z,
f32 u `crlf
line`
,
int64 packetx`say ""hi""`
, } MetaData
Foo { i64 lengthOf `crlf
line`, }
")).
Eval vm_compute in ("<<<M1344>>>" ++ check (runes_of_ascii "packet msg_type{} packet // @lengthOf(
tag /// triple
{
@tag( 1 ) @tag( 7
    )
trueish
@calculatedFrom(
    ""{,}"" )`a\` ,@calculatedFrom(""\n"") string BodyLength
, @lengthOf(
x) @calculatedFrom(
""abc"" )
@tag(
3 // @lengthOf(
) char[0123456789 ] a1 @calculatedFrom( ""\n"" ) ,  @leftPad
    ( // packet A { u8 x, }
'\x00' )
repeat i16 repeatCount, match int	as u{
3 :
    x	[ 3 ,""`tick`"" , ""`tick`""	]  : a1 ,
    [10 , 4294967296  ]
: string_,} , string_
    x ,u64// trailing space 
matchKey`line1
line2`, repeat len {int Foo ,
zchar[ 007 ] BodyLength`// not a comment` ,repeat packetx crc
    `tab	here` , } ,}root packet /// triple
chars
{@tag(
    00	) repeat uint64 i8i8
,zchar[ 7 ] matchKey`line1
line2`
, Z9_ @lengthOf( options1 )  , @calculatedFrom(
""{,}""
) int @calculatedFrom( //
""it's""	), @rightPad ( ) @leftPad
    ( ' ' ) // " ++ [27880; 37322]%N ++ runes_of_ascii "
@lengthOf(crc)
    // " ++ [27880; 37322]%N ++ runes_of_ascii "
    u128	stringy , // 50% %s
@lengthOf( //	t
options1
)uint32 options1
`// not a comment`
,repeat uint8x  zchar`" ++ [233]%N ++ runes_of_ascii "` , // " ++ [128512]%N ++ runes_of_ascii " emoji
}
")).
Eval vm_compute in ("<<<M404>>>" ++ check (runes_of_ascii "  packet	Packet  { @lengthOf(	Foo) match  Logon
    as
// @lengthOf(
// trailing space 
string_ { [ ""`tick`""
, ""// no comment""
, //
0
    , 3 , 4294967296
] : trueish , """ ++ [233]%N ++ runes_of_ascii "t" ++ [233]%N ++ runes_of_ascii """ : packetx 10 : float , """":x_y_z ,
""a	b"" :
    o , 10
    :calculatedFrom } ,// 50% %s
metadata { matchKey @lengthOf( // @lengthOf(
Pad ),zchar[ 255 ] x``
    ,
x @lengthOf( metadata
    ) , } , repeat msg_type rootA,
repeat// " ++ [27880; 37322]%N ++ runes_of_ascii "
Header
,char[ 7
]len// `tick` ""quote"" 'q'
@lengthOf( packetx
) `u8 x,` , @lengthOf(	falsey ) @lengthOf(// trailing space 
options1 ) repeat u16 Foo , repeat int32 msg_type , match lengthOf
    as Logon {
    ""1"" : tag ,} // @lengthOf(
, } MetaData u128
    //	t
    {uint8x MetaDataX,} packet falsey { uint16
A @calculatedFrom( ""// no comment"" )//	t
, @leftPad
    ( ' ')
    // `tick` ""quote"" 'q'
    trueish //
, @tag( 7)
repeat string
msg_type,repeat string	falsey
    `line1
line2` , }
    packet lengthOf { } // `tick` ""quote"" 'q'")).
Eval vm_compute in ("<<<M699>>>" ++ check (runes_of_ascii "packet repeatCount {
    match
Header
as
//
// 50% %s
options1 {	[ 0 ,
    0123456789]:BodyLength [	00 ]	:
    o """ ++ [28040; 24687]%N ++ runes_of_ascii """: rootA //
,
    ""\" ++ [233]%N ++ runes_of_ascii """ :// packet A { u8 x, }
Packet
    , """ ++ [128512]%N ++ runes_of_ascii """:trueish , [
    """ ++ [128512]%N ++ runes_of_ascii """] :
    body	,
// trailing space 
/// triple
}  , } packet a1	{ // a // b
@lengthOf( asx) @lengthOf(u128 ) match u8x as f32a {
    42
: Z9_ // 50% %s
, }  , i64 rootA ,  @tag(0)
// c
// " ++ [128512]%N ++ runes_of_ascii " emoji
A ,@calculatedFrom( ""a\\"" ) // " ++ [128512]%N ++ runes_of_ascii " emoji
@leftPad
    (  )
@tag(// packet A { u8 x, }
255)
// `tick` ""quote"" 'q'
//x
u64
matchKey
    @calculatedFrom( ""packet""
    // " ++ [27880; 37322]%N ++ runes_of_ascii "
    ) //	t
,
repeat float32 falsey , match int // @lengthOf(
as crc{ 007 :
    As ,
[ 00 ,0123456789
//
//	t
] : roots,
    10
:
BodyLength
, [ 0123456789
    //	t
    ,""abc"",42 ] :
    len	,}	,
repeat	msg_type {
char[ 007 ]
// packet A { u8 x, }
// " ++ [128512]%N ++ runes_of_ascii " emoji
u8x @lengthOf(	Packet // 50% %s
) `` ,
    }, } // packet A { u8 x, }")).
Eval vm_compute in ("<<<M840>>>" ++ check (runes_of_ascii "root
packet repeatCount
{string chars
    // `tick` ""quote"" 'q'
    , } options	{ matchKey =	""a	b"";}root
packet repeatCount{ @tag( 0 ) char[ 00 ] T  `" ++ [233]%N ++ runes_of_ascii "` ,
x @lengthOf(
chars )
, @tag(
// a // b
// " ++ [27880; 37322]%N ++ runes_of_ascii "
007)A @calculatedFrom( ""{,}"" ) `line1
line2` , // @lengthOf(
@tag( 65535//
)
u,@lengthOf( f32a
)
char[]
    A `{ , }` , i64 u@lengthOf(
zchar
    //x
    ) , lengthOf {
string	chars
@lengthOf( Foo )
    `100% of %d`,
repeat
i8i8{
    rootA
    len	`crlf
line` , T  @lengthOf(
T
) ,// @lengthOf(
} , string msg_type @calculatedFrom(
""a	b"" ) , } ,	x_y_z{  char[] uint8x @calculatedFrom(""a\""b""	)  `it's` , x_y_z @lengthOf(
lengthOf	) , match
    //	t
    chars	as  Packet	{[""1"", 007
] :
    Header,
    255 :MetaDataX // " ++ [128512]%N ++ runes_of_ascii " emoji
,
    007
: pack , ""abc"" : As //	t
, } ,zchar[3]
tag
    @calculatedFrom(
    ""// no comment"" ) `two words` // a // b
,},}
")).
Eval vm_compute in ("<<<M1168>>>" ++ check (runes_of_ascii "packet metadata  {
    // 50% %s
    i64_  options1
    ,i64 x `" ++ [233]%N ++ runes_of_ascii "` , zchar[ 0 ]body , }packet
    charz// a // b
{
    repeat float64 options1`" ++ [233]%N ++ runes_of_ascii "` , @lengthOf(
Z9_ )
// c
// @lengthOf(
As ,  repeat uint8	Foo
, u32 string_
,
i32 calculatedFrom @lengthOf( msg_type
)
    // @lengthOf(
    `two words`
    ,repeat Header charz	`// not a comment`, @calculatedFrom(	""x y"" )
//x
// trailing space 
char[
0123456789	] stringy@calculatedFrom(""x y"" )
    , repeat
lengthOf o
`a\` , match u
as
A
    // @lengthOf(
    { ""`tick`"" : // 50% %s
uint8x , ""abc"" : charz , 7:
    crc  ,
// @lengthOf(
// packet A { u8 x, }
""`tick`"" : asx , ""a\\"" :
// `tick` ""quote"" 'q'
/// triple
i64_} ,
Header calculatedFrom
    `" ++ [233]%N ++ runes_of_ascii "`
    ,
// c
//
} packet a1{// trailing space 
} MetaData
u128{ matchKey falsey `line1
line2` , }
")).
Eval vm_compute in ("<<<M171>>>" ++ check (runes_of_ascii "packet
Z9_ { u32
pack `crlf
line` ,
    /// triple
    @lengthOf(len) u128 {match
    x_y_z as  Logon  { 7 : pack ,1
: int 4294967296// " ++ [27880; 37322]%N ++ runes_of_ascii "
: rootA, 1 :
f32a,
[
    """" , // 50% %s
42	, ""\n"" ,
// " ++ [128512]%N ++ runes_of_ascii " emoji
// packet A { u8 x, }
7
, // c
0 ,
""// no comment"", 4294967296 ,
""// no comment""
] :
    matchKey  ,
},
    // " ++ [27880; 37322]%N ++ runes_of_ascii "
    match float
as trueish // a // b
{007 : packetx, 65535	: repeatCount} , repeat
    // @lengthOf(
    roots lengthOf
, repeat
i8 string_, } ,  i64
    leftPad @lengthOf( msg_type ) , // a // b
@tag(
    // c
    7 )zchar[ 7] f32a //	t
@calculatedFrom(""\n"" ) , string falsey ,
    // packet A { u8 x, }
    repeat leftPad{ match matchKey // a // b
as	repeatCount { ""\n"" :metadata  ,""x y""
:Logon
// " ++ [128512]%N ++ runes_of_ascii " emoji
// " ++ [27880; 37322]%N ++ runes_of_ascii "
, }
    , }
    , /// triple
}
")).
Eval vm_compute in ("<<<M97>>>" ++ check (runes_of_ascii "root
packet	uint8x {// " ++ [27880; 37322]%N ++ runes_of_ascii "
MetaDataX// " ++ [27880; 37322]%N ++ runes_of_ascii "
`doc`,
char
A  `line1
line2` , match BodyLength as roots
    {
    [ ""// no comment"" , 4294967296,
""" ++ [128512]%N ++ runes_of_ascii """
] : falsey
, // @lengthOf(
""" ++ [233]%N ++ runes_of_ascii "t" ++ [233]%N ++ runes_of_ascii """
:o
[  7	] : o, 65535 :int ,
    3 :	int, 65535
:
    Foo , // packet A { u8 x, }
} , @lengthOf( MetaDataX
// c
// @lengthOf(
)
    repeat Packet  chars	, @calculatedFrom( ""abc""
)@lengthOf(
    uint8x )
@leftPad(
)
    // " ++ [27880; 37322]%N ++ runes_of_ascii "
    i8 x ,
    repeat
As{ _x	@calculatedFrom(
    // @lengthOf(
    ""x y"")`100% of %d` , i16
    options1 @lengthOf(
o ) , repeat string i8i8 ,
    char[ 255 ]packetx `a\` ,} ,	@leftPad( // 50% %s
'\x00' )u32 u128
@lengthOf(msg_type )
    `// not a comment` , zchar @lengthOf(crc
)
, char[0
    ]
a1, @leftPad
(' ') char[ 4294967296 ]	int , }
")).
Eval vm_compute in ("<<<M4410>>>" ++ check (runes_of_ascii "packet tag {
    @tag(1)
    @calculatedFrom(""abc"")
    char[] Logon,
    char[] Logon @calculatedFrom(""a\\""),
    uint8x {
        // a // b
        //
        char[] float,
        repeat char[] zchar,
        match f32a as f32a {
            ""abc"" : options1,
            007 : _x,
            10 : BodyLength,
        },
    },
    @lengthOf(f32a)
    @lengthOf(Header)
    @lengthOf(msg_type)
    repeat Logon i64_,
    @calculatedFrom(""" ++ [28040; 24687]%N ++ runes_of_ascii """)
    repeat int roots,/// triple
    @lengthOf(zchar)
    i16 stringy @calculatedFrom(""it's"") `u8 x,`,
    @calculatedFrom(""{,}"")
    match string_ as MetaDataX {
        [""// no comment"", 007] : i8i8,
        [1, ""packet""] : trueish,
    },
    //
    /// triple
}")).
Eval vm_compute in ("<<<M702>>>" ++ check (runes_of_ascii "packet crc {
match
    string_ as Z9_ {  [
    /// triple
    """ ++ [233]%N ++ runes_of_ascii "t" ++ [233]%N ++ runes_of_ascii """ ]
    : tag ,
    4294967296 : // a // b
float 65535 :
    i64_ , } ,	@leftPad
( '\x00'  )@calculatedFrom(
""{,}"" ) match MetaDataX as leftPad{0 : lengthOf ,} , BodyLength{ match	calculatedFrom
    as len{ // 50% %s
10 : Packet	, },repeat zchar[ // @lengthOf(
3] matchKey
`crlf
line` , } ,
// 50% %s
//x
match u8x
    as Packet {4294967296:
    trueish , }
    // `tick` ""quote"" 'q'
    , match calculatedFrom as a1
    { ""\" ++ [233]%N ++ runes_of_ascii """ : tag /// triple
,[  65535 , //	t
""a\""b""
, // " ++ [128512]%N ++ runes_of_ascii " emoji
3 ] :
    asx ,""" ++ [233]%N ++ runes_of_ascii "t" ++ [233]%N ++ runes_of_ascii """ : uint8x } , @calculatedFrom( ""x y""
    ) repeat uint64
roots `line1
line2` //	t
,trueish
uint8x  ,
}

")).
Eval vm_compute in ("<<<M30>>>" ++ check (runes_of_ascii "packet
u8x{ char[ 7 ]Logon//x
, @lengthOf( Foo) trueish Header
    , match
repeatCount as o { 00
: uint8x, [ 007 // " ++ [27880; 37322]%N ++ runes_of_ascii "
]
    :calculatedFrom
""abc"":
_x , } , char[] MetaDataX `it's` , } root  packet _x {
@lengthOf(As)
@lengthOf( asx
    ) zchar[ 42 //	t
]
    u128	@calculatedFrom( """ ++ [28040; 24687]%N ++ runes_of_ascii """ ),
repeat string
_x , asx{ zchar[ 1  ]
crc
    ,}
,
    } packet trueish { match
    i64_ as
    tag
{ 3:
    roots  ,
0123456789 :
    options1
    ,""it's""
    :
stringy , } , @tag(
    // `tick` ""quote"" 'q'
    10 ) @rightPad (// @lengthOf(
' ' )  @rightPad	(
    /// triple
    '\x00' )
repeat i64 // @lengthOf(
packetx
, repeat//x
o  x `// not a comment` , }
")).
Eval vm_compute in ("<<<M3459>>>" ++ check (runes_of_ascii "options {
    StringPrefixLenType = u64;
    ArrayPrefixLenType = u16;
}
packet Heartbeat {
    uint32 Side2,
    u8 OrderId,
    string Tail,
    InPx95 {
        char[3] Note,
        char[2] count,
        repeat InOrderid76 {
            char[12] f1,
        },
        uint8 lastPx,
        char[] seqNo,
    },
}
packet Leg {
    zchar[5] tag7,
    Heartbeat,
}
root packet Reject {
    u8 Ref,
    uint8 Flags,
    repeat Leg,
    zchar[1] venue,
    zchar[9] clOrdID,
    u8 Tail,
    u32 price @lengthOf(Body),
    match Tail as Body {
        84 : Heartbeat,
        6 : Leg,
    },
    u32 Note @calculatedFrom(""CR\
C32""),
}
")).
Eval vm_compute in ("<<<M3542>>>" ++ check (runes_of_ascii "packet  A {}	packet u128{

    match
Pad as	asx 
{1	:
repeatCount  ,
255
:

    As 4294967296
    //	t
  	// " ++ [128512]%N ++ runes_of_ascii " emoji

:	falsey
	,
	[	// " ++ [27880; 37322]%N ++ runes_of_ascii "
    	""a	b"" 
]
    :
float ,	""1"" 
:

msg_type  ,

    [	7
, ""a\\"" ,

    ""a\\""
, 
255

,

    4294967296 ,

3 ,
    007

    ]
:string_
, }  ,
    @tag(

    0	) match

lengthOf 
as // " ++ [128512]%N ++ runes_of_ascii " emoji
  options1	// c
    {  [ ""it's"" 	 // packet A { u8 x, }

] 	 // " ++ [27880; 37322]%N ++ runes_of_ascii "
    	:
float
	,
7
: Foo
	[  ""{,}"" 
]
: packetx  ,
    }
, 
@tag(
	007) char[ 00 
        // packet A { u8 x, }
  /// triple
] x_y_z@calculatedFrom(

    ""`tick`"")	, repeat

u8
i8i8`doc`  ,
} ")).
Eval vm_compute in ("<<<M540>>>" ++ check (runes_of_ascii "packet leftPad { }
options
    { u8x =
    false ; A=	42 ; rootA = ""1"" ; }
root packet
crc { @leftPad ( '\x00' ) @calculatedFrom( ""`tick`""	)@calculatedFrom(
""a	b"") len{repeat Foo{ Foo  { char[ 255]  string_@calculatedFrom(  ""CRC32""  ) // a // b
`crlf
line` ,
    char[] chars  @lengthOf(_x  ) , } ,	repeat asx `
` ,},char[]trueish
@lengthOf(
i8i8
    ) ,repeat // @lengthOf(
msg_type`line1
line2` // `tick` ""quote"" 'q'
, zchar[ 10	]  asx ,
    }
, }
packet body
{ } packet
    Packet// " ++ [128512]%N ++ runes_of_ascii " emoji
{
    @lengthOf( zchar )string u8x
`two words` ,
    // packet A { u8 x, }
    } // " ++ [27880; 37322]%N)).
Eval vm_compute in ("<<<M4422>>>" ++ check (runes_of_ascii "MetaData
    stringy

    {
i32

leftPad `" ++ [233]%N ++ runes_of_ascii "` ,

    u32 crc,x_y_z Z9_	`crlf
line`	,

Header int,	uint16 	 // a // b
	charz
	,  }// @lengthOf(
  root
    packet
len
{ 
_x lengthOf,	uint8x
	@calculatedFrom(
	""" ++ [128512]%N ++ runes_of_ascii """ 
    // a // b

	)

,
@rightPad

    ( '\x00') @calculatedFrom(""" ++ [128512]%N ++ runes_of_ascii """
	) @leftPad('0'
	)  repeat	crc { 
	    // packet A { u8 x, }
	// trailing space 
	  char[	007

    ] BodyLength

    ,
charz 
@calculatedFrom( ""a	b"" )`{ , }`, 
uint16
	matchKey  
  // `tick` ""quote"" 'q'

@calculatedFrom(	""it's"" )// @lengthOf(
    , 
/// triple
    } 
,
}")).
Eval vm_compute in ("<<<M424>>>" ++ check (runes_of_ascii "  packet
    int
    { trueish, } root packet zchar{ @leftPad ( '0' ) uint32
Packet`doc` ,
    repeat packetx  { lengthOf {
    u8
zchar
    `" ++ [28040; 24687; 31867; 22411]%N ++ runes_of_ascii "` ,
    match chars as
    // packet A { u8 x, }
    i8i8 {
255
:
Header 7
:
    //
    rootA ,
00
:	falsey
    ,	} ,
} ,
u8 u
    `two words` ,
    match uint8x as// trailing space 
A {  [""CRC32""]	: Header , ""\n"" :
msg_type , }
, }  ,match charz	as A {""" ++ [28040; 24687]%N ++ runes_of_ascii """ : _x
    , [
007 , 00
] : uint8x [ 1
,// packet A { u8 x, }
7 ,
    42 ]	:
packetx 4294967296
: pack , }
, }packet
    i64_
{	}

")).
Eval vm_compute in ("<<<M1243>>>" ++ check (runes_of_ascii "  packet a1 {
    u8 Packet `it's`  , @leftPad	(
)
    msg_type
    , @lengthOf( crc)As repeatCount ,
// 50% %s
// c
@calculatedFrom( ""a\\""	)@calculatedFrom(
//x
//x
""" ++ [233]%N ++ runes_of_ascii "t" ++ [233]%N ++ runes_of_ascii """ // packet A { u8 x, }
)@tag(00	)	i16	As , @lengthOf(	int ) matchKey {
    len
{
zchar[
    //x
    255]crc
//x
//	t
, repeat char[]	charz	,
repeat
i8 x_y_z `{ , }` , rootA
@calculatedFrom(""" ++ [28040; 24687]%N ++ runes_of_ascii """) `
`,  } // " ++ [128512]%N ++ runes_of_ascii " emoji
, } ,}
    // a // b
    MetaData	metadata  { u16 x ,
i8i8 crc
    // packet A { u8 x, }
    , f32 Packet , float64 chars , }

")).
Eval vm_compute in ("<<<M4051>>>" ++ check (runes_of_ascii "
packet
    uint8x { @tag(  7)
    @lengthOf(asx
    ) @tag(
    0  )
	zchar[

65535
        // trailing space 
	]
// trailing space 
      f32a	`line1
line2` ,string_ ,  @tag(
0 )	@calculatedFrom( 
""a	b""
/// triple
    ) 
@tag(

    007	)
    match

crc as // @lengthOf(

	stringy 
{  ""`tick`""  :As 
""CRC32""

    :
metadata
	,
[ // `tick` ""quote"" 'q'
	""`tick`""
    ] : stringy
,	[ ""\" ++ [233]%N ++ runes_of_ascii """

    ] :

x """ ++ [233]%N ++ runes_of_ascii "t" ++ [233]%N ++ runes_of_ascii """
	:roots
    ,
	}	,
char[] trueish @lengthOf( Header
    )
    ``

    , 
}
")).
Eval vm_compute in ("<<<M1215>>>" ++ check (runes_of_ascii "// `tick` ""quote"" 'q'
root packet x_y_z	{
repeat zchar[
1
] body	,
    @calculatedFrom( ""a	b"" ) A {repeat i16
Foo
`tab	here`, _x @calculatedFrom(""" ++ [28040; 24687]%N ++ runes_of_ascii """ )// `tick` ""quote"" 'q'
`it's` , } ,	match charz as charz
    {
10
    :
    leftPad , 10
: leftPad
0123456789
:
    float , },@calculatedFrom( """ ++ [233]%N ++ runes_of_ascii "t" ++ [233]%N ++ runes_of_ascii """
    ) zchar[007 ] charz`it's` // packet A { u8 x, }
, } options{} root /// triple
packet
falsey
{
// trailing space 
// trailing space 
repeat char[ 42 ] len,
}
")).
Eval vm_compute in ("<<<M3676>>>" ++ check (runes_of_ascii "

  packet

x_y_z
    { float64  leftPad @lengthOf(	repeatCount) ,	match
    msg_type  
  //x
  as

    x 
{ 65535:
	    // `tick` ""quote"" 'q'
    // packet A { u8 x, }
	roots

    ,

4294967296	: metadata

    ,

},}

packet
float 
{u64	x_y_z 	 // packet A { u8 x, }
	``
    ,char[ 7 ] A	@lengthOf(
Packet 

    // 50% %s

)

    `" ++ [233]%N ++ runes_of_ascii "`, repeat
o
	{ string

MetaDataX
`{ , }`  , }
	,  @lengthOf(uint8x

)string  int `it's`
    //
  , } ")).
Eval vm_compute in ("<<<M4052>>>" ++ check (runes_of_ascii "options {
}

root packet A {
    @tag(00)
    int64 u8x,// @lengthOf(
    @calculatedFrom(""a\""b"")
    // packet A { u8 x, }
    repeat crc,
    @tag(10)
    x_y_z,
    char[] u `line1
    line2`,
}

root packet leftPad {
    float @lengthOf(packetx),
    match msg_type as matchKey {
        [""it's"", ""x y"", 1] : i8i8,
        [""a	b"", 42, 00] : string_,
        """ ++ [28040; 24687]%N ++ runes_of_ascii """ : asx,
    },
    char[0123456789] roots `say ""hi""`,
}
// " ++ [27880; 37322]%N)).
Eval vm_compute in ("<<<M432>>>" ++ check (runes_of_ascii "packet calculatedFrom { Z9_ repeatCount,
@tag(
    // trailing space 
    4294967296 ) u16 Foo, zchar[ 255 ] _x ,As{
// 50% %s
/// triple
zchar[
65535 ] charz ,//x
f64 A
`crlf
line`, } , // `tick` ""quote"" 'q'
}
    packet
u {match x_y_z as int {
[	""it's"" ]:
uint8x , 4294967296 : i64_
    ,
""x y""	: BodyLength
// packet A { u8 x, }
// trailing space 
, ""x y"" :u8x	,
    }, //	t
}options { As =
    f64 ;  }")).
Eval vm_compute in ("<<<M183>>>" ++ check (runes_of_ascii "options {As	= 007 x
    // a // b
    =
    false ; x_y_z // trailing space 
= ""a\\""
//
// 50% %s
; }
packet BodyLength{
    @tag(  255
)// " ++ [128512]%N ++ runes_of_ascii " emoji
match trueish
    // c
    as Pad {
""a\\"" : calculatedFrom	, ""a	b""//
:leftPad
    } , }
MetaData calculatedFrom{
    char[ 3 ]matchKey , char[ 4294967296  ] matchKey	, o x_y_z
, lengthOf packetx
    `crlf
line`,
// packet A { u8 x, }
//	t
}
")).
Eval vm_compute in ("<<<M3485>>>" ++ check (runes_of_ascii "options {
    LittleEndian = true;
    StringPrefixLenType = u16;
    ArrayPrefixLenType = u64;
    FixedStringPadFromLeft = true;
    FixedStringPadChar = ' ';
}
packet Reject {
    zchar[3] OrderId,
    int16 Flags,
    @leftPad(' ') char[11] x,
    u16 tag7,
}
packet Quote {
    Reject,
    char[] Qty,
    repeat f32 f1,
    zchar[5] Flags,
}
root packet Leg {
    i32 Px,
}
")).
Eval vm_compute in ("<<<M4090>>>" ++ check (runes_of_ascii "packet Logon {
    tag @lengthOf(Packet) `a\`,
    u64 u128,
    crc,
    @lengthOf(A)
    match rootA as chars {
        [
            00, ""// no comment"", 65535, 65535, ""CRC32"",
            ""\" ++ [233]%N ++ runes_of_ascii """, 1
        ] : u128,
        [""\" ++ [233]%N ++ runes_of_ascii """, 1, """"] : rootA,
        255 : Pad,
        //	t
        0123456789 : x_y_z,
        ""{,}"" : float,
        7 : packetx,
    },
}")).
Eval vm_compute in ("<<<M478>>>" ++ check (runes_of_ascii "
MetaData string_
{ x charz `say ""hi""` , options1 options1 `line1
line2` , } packet tag { @lengthOf( zchar
) calculatedFrom zchar , @calculatedFrom(	""`tick`""
)
Foo
/// triple
//
`tab	here` // trailing space 
, match packetx /// triple
as Pad {[
// `tick` ""quote"" 'q'
// trailing space 
""packet"", ""a	b"" , """ ++ [233]%N ++ runes_of_ascii "t" ++ [233]%N ++ runes_of_ascii """ , ""abc"",255
]: falsey} , }
")).
Eval vm_compute in ("<<<M4407>>>" ++ check (runes_of_ascii "MetaData len {
}

packet BodyLength {
    char[42] A @calculatedFrom(""// no comment"") `it's`,
    match Header as calculatedFrom {
        ""`tick`"" : o,
    },
    //x
    //	t
    repeat packetx,
}

packet u {
}

packet x_y_z {
    @lengthOf(repeatCount)
    char[] charz @calculatedFrom(""it's"") ``,
}

packet calculatedFrom {
}")).
Eval vm_compute in ("<<<M1220>>>" ++ check (runes_of_ascii "packet //	t
len
{  @leftPad( ' ' )	string_ f32a
,
// " ++ [128512]%N ++ runes_of_ascii " emoji
// 50% %s
}
//x
// @lengthOf(
MetaData As
{char[
    42 ]  string_ `say ""hi""`	,
i8 Logon,MetaDataX f32a,} options{  pack =
    zchar[42 ]; x_y_z = zchar[ 10 ] ;
int=
    ""1"" ; x_y_z
=
// `tick` ""quote"" 'q'
// `tick` ""quote"" 'q'
""packet"" matchKey =' ' }
")).
Eval vm_compute in ("<<<M1205>>>" ++ check (runes_of_ascii "root packet asx
// `tick` ""quote"" 'q'
// `tick` ""quote"" 'q'
{
} root
    // `tick` ""quote"" 'q'
    packet
    MetaDataX// " ++ [128512]%N ++ runes_of_ascii " emoji
{ } packet charz{ int32
    o @calculatedFrom( ""CRC32""
), }
options { }
packet crc
{ @lengthOf(leftPad) @tag( 65535
    ) @calculatedFrom(""a\""b""
)
string Header`" ++ [28040; 24687; 31867; 22411]%N ++ runes_of_ascii "` , }")).
Eval vm_compute in ("<<<M3987>>>" ++ check (runes_of_ascii "packet _x {
    char Packet,
    // `tick` ""quote"" 'q'
    // a // b
}

MetaData string_ {
    char[] string_,
    string T,
    char u,
    metadata stringy,
    zchar[42] u8x,
}

MetaData calculatedFrom {
}

MetaData pack {
    i16 u128 `{ , }`,
    float64 metadata `a\`,
}

options {
}")).
Eval vm_compute in ("<<<M89>>>" ++ check (runes_of_ascii "packet metadata { // trailing space 
roots
uint8x , @leftPad
    ( )zchar[
3
] Header,
    i64_ roots , @lengthOf( A)
    // " ++ [128512]%N ++ runes_of_ascii " emoji
    @lengthOf( // trailing space 
pack
) @lengthOf( calculatedFrom
// a // b
/// triple
)
    // trailing space 
    u8 charz `crlf
line` , }")).
Eval vm_compute in ("<<<M1622>>>" ++ check (runes_of_ascii "// 50% %s
packet	a1
    { zchar[
// a // b
// 50% %s
007]
T `it's`
    ,@rightPad
    // a // b
    (
'\x00')
    o repeatCount , }  packet Logon {  }packet packet	Logon //x
{ repeat // " ++ [128512]%N ++ runes_of_ascii " emoji
uint16 u128
    //
    `a\`,
falsey
@calculatedFrom(""packet"" ) ,
    } 	 ")).
Eval vm_compute in ("<<<M1614>>>" ++ check (runes_of_ascii "// 50% %s
packet	a1
    { zchar[
// a // b
// 50% %s
007]
T `it's`
    ,@rightPad
    // a // b
    (
'\x00')
    o repeatCount , }  packet Logon int8  }packet	Logon //x
{ repeat // " ++ [128512]%N ++ runes_of_ascii " emoji
uint16 u128
    //
    `a\`,
falsey
@calculatedFrom(""packet"" ) ,
    } 	 ")).
Eval vm_compute in ("<<<M3881>>>" ++ check (runes_of_ascii "packet x_y_z {
    @tag(7)
    zchar[255] calculatedFrom,
    zchar[1] Header `u8 x,`,
    @lengthOf(falsey)
    u16 u8x,
    @lengthOf(chars)
    charz @calculatedFrom(""`tick`"") `" ++ [233]%N ++ runes_of_ascii "`,
}

MetaData roots {
    packetx msg_type `" ++ [233]%N ++ runes_of_ascii "`,
    _x stringy,
    zchar uint8x,
}")).
Eval vm_compute in ("<<<M1603>>>" ++ check (runes_of_ascii "// 50% %s
packet	a1
    { zchar[
// a // b
// 50% %s
007]
T `it's`
    ,@rightPad
    // a // b
    (
'\x00')
    o repeatCount , }  Logon packet {  }packet	Logon //x
{ repeat // " ++ [128512]%N ++ runes_of_ascii " emoji
uint16 u128
    //
    `a\`,
falsey
@calculatedFrom(""packet"" ) ,
    } 	 ")).
Eval vm_compute in ("<<<M1616>>>" ++ check (runes_of_ascii "// 50% %s
packet	a1
    { zchar[
// a // b
// 50% %s
007]
T `it's`
    ,@rightPad
    // a // b
    (
'\x00')
    o repeatCount , }  packet Logon {  packet	Logon //x
{ repeat // " ++ [128512]%N ++ runes_of_ascii " emoji
uint16 u128
    //
    `a\`,
falsey
@calculatedFrom(""packet"" ) ,
    } 	 ")).
Eval vm_compute in ("<<<M1519>>>" ++ check (runes_of_ascii "// 50% %s
)	a1
    { zchar[
// a // b
// 50% %s
007]
T `it's`
    ,@rightPad
    // a // b
    (
'\x00')
    o repeatCount , }  packet Logon {  }packet	Logon //x
{ repeat // " ++ [128512]%N ++ runes_of_ascii " emoji
uint16 u128
    //
    `a\`,
falsey
@calculatedFrom(""packet"" ) ,
    } 	 ")).
Eval vm_compute in ("<<<M918>>>" ++ check (runes_of_ascii "
packet i8i8 {
repeat
    char
MetaDataX `u8 x,` , }packet
MetaDataX{} root// " ++ [128512]%N ++ runes_of_ascii " emoji
packet zchar{ @tag(
4294967296
    ) char[]
falsey @lengthOf( tag ) , f64	T	,  } options {
Packet	=	u32 ;
    u128 = u8 trueish = string ; }
root	packet body{ } 	 ")).
Eval vm_compute in ("<<<M4430>>>" ++ check (runes_of_ascii "packet As {
    zchar[42] float @calculatedFrom(""a\""b"") `{ , }`,// 50% %s
    @tag(42)
    @rightPad('0')
    @calculatedFrom(""a\""b"")
    repeat int32 Header,
    float @lengthOf(falsey),
    @leftPad()
    uint32 options1 @lengthOf(Pad) `a\`,
}")).
Eval vm_compute in ("<<<M4393>>>" ++ check (runes_of_ascii "MetaData Header {
    // trailing space 
    i64 pack,
}

root packet charz {
    repeat string BodyLength `// not a comment`,// " ++ [128512]%N ++ runes_of_ascii " emoji
    @calculatedFrom(""{,}"")
    zchar[1] i8i8 @lengthOf(uint8x),
    zchar[00] a1,
    uint64 u,
}")).
Eval vm_compute in ("<<<M3496>>>" ++ check (runes_of_ascii "packet  Logon

    {
u8 x
,
	string
user,
}packet	Logout
{u16  reason
    ,
}
    packet
Empty {
}
    root
	packet Frame 
{
u16
	MsgType, @lengthOf( Body )
	u64 BodyLen	,u8 flags	,
Logon  Body ,	u32 
trailer ,
}
")).
Eval vm_compute in ("<<<M4424>>>" ++ check (runes_of_ascii "MetaData Header {
    // trailing space 
    char[3] Logon,
    falsey options1,
    char[] f32a,
    // `tick` ""quote"" 'q'
    // " ++ [27880; 37322]%N ++ runes_of_ascii "
    chars Z9_,
    int16 zchar `
    `,
}

MetaData i64_ {
}

// " ++ [27880; 37322]%N ++ runes_of_ascii "
packet _x {
}")).
Eval vm_compute in ("<<<M218>>>" ++ check (runes_of_ascii "packet Pad { repeat i32 Z9_ , } MetaData u8x{ // " ++ [128512]%N ++ runes_of_ascii " emoji
msg_type Logon `a\` // packet A { u8 x, }
,} MetaData
    Pad { //	t
} options{body =	4294967296;
    a1
    =
42  ;
asx= '\x00';
//
// @lengthOf(
}
")).
Eval vm_compute in ("<<<M1136>>>" ++ check (runes_of_ascii "MetaData _x { char[
255
] MetaDataX // trailing space 
`doc` , } options { f32a =
    zchar[
    // " ++ [27880; 37322]%N ++ runes_of_ascii "
    42
]
    ; body = ""`tick`"" //x
;
As = // c
true tag =3
    ;packetx =
    true } //	t")).
Eval vm_compute in ("<<<M3444>>>" ++ check (runes_of_ascii "packet u128 {
    u8 a,
}
root packet Msg {
    u8 k,
    u24 {
        u8 Hi,
        u16 Lo,
    },
    repeat i24 {
        u32 q,
    },
    u128,
    u16 float32x,
    string s,
}
")).
Eval vm_compute in ("<<<M3934>>>" ++ check (runes_of_ascii "packet rootA
{  repeat
    Packet
BodyLength
	`line1
line2`// " ++ [27880; 37322]%N ++ runes_of_ascii "
    ,
i32
	float
	,	x_y_z

`" ++ [233]%N ++ runes_of_ascii "` ,	} 
packet//	t

  msg_type
{ // a // b
char[]
rootA@lengthOf(Z9_
	)
    ,}
")).
Eval vm_compute in ("<<<M779>>>" ++ check (runes_of_ascii "MetaData
    x{	int32 int // a // b
`line1
line2` , } packet o
{  u32 charz, char[
1] x_y_z	`
`
    ,//	t
len lengthOf,
@lengthOf( charz )
    i16 body`crlf
line` ,}")).
Eval vm_compute in ("<<<M4375>>>" ++ check (runes_of_ascii "
options{

    Logon  // @lengthOf(
    =u16 roots 
=
    '\x00'
//
    //
		;	o

=
    ""abc""
;
} packet  A	{// `tick` ""quote"" 'q'
	Z9_ charz
    ,
    }
")).
Eval vm_compute in ("<<<M136>>>" ++ check (runes_of_ascii "packet As{ trueish @lengthOf( roots ) , }
packet charz{}	options  { charz
= ""a	b"" uint8x=
    // a // b
    4294967296 ; uint8x
= '\x00' tag = string }
")).
Eval vm_compute in ("<<<M2176>>>" ++ check (runes_of_ascii "MetaData BodyLength
{ int8 Foo
, string
    MetaDataX , float zchar ,pack options1
,asx string_, }
packet u8x {Foo@lengthOf(charz )
`" ++ [28040; 24687; 31867; 22411]%N ++ runes_of_ascii "` `" ++ [28040; 24687; 31867; 22411]%N ++ runes_of_ascii "`,  }
")).
Eval vm_compute in ("<<<M458>>>" ++ check (runes_of_ascii "
root packet int
{chars @lengthOf( Foo) `a\`,
    repeat char[0123456789
]BodyLength , i8 T// " ++ [128512]%N ++ runes_of_ascii " emoji
, @rightPad ( )  u64 lengthOf
    ,
    }
")).
Eval vm_compute in ("<<<M2039>>>" ++ check (runes_of_ascii "
packet @lengthOfleftPad {
@leftPad( '0')
u32
i64_ `100% of %d` ,repeat// 50% %s
i8 chars
    ,
} MetaData
    f32a
{ // packet A { u8 x, }
}")).
Eval vm_compute in ("<<<M2082>>>" ++ check (runes_of_ascii "MetaData BodyLength
{ int8 Foo
, string
    , MetaDataX float zchar ,pack options1
,asx string_, }
packet u8x {Foo@lengthOf(charz )
`" ++ [28040; 24687; 31867; 22411]%N ++ runes_of_ascii "`,  }
")).
Eval vm_compute in ("<<<M2070>>>" ++ check (runes_of_ascii "MetaData BodyLength
{ int8 Foo
 string
    MetaDataX , float zchar ,pack options1
,asx string_, }
packet u8x {Foo@lengthOf(charz )
`" ++ [28040; 24687; 31867; 22411]%N ++ runes_of_ascii "`,  }
")).
Eval vm_compute in ("<<<M4011>>>" ++ check (runes_of_ascii "

  packet
	len

{T @lengthOf(	lengthOf	) 
,

    } packet

    T
{  // `tick` ""quote"" 'q'
  repeat
    zchar[ 7
]
body

    ,
    }")).
Eval vm_compute in ("<<<M2083>>>" ++ check (runes_of_ascii "MetaData BodyLength
{ int8 Foo
, string
    """ ++ [233]%N ++ runes_of_ascii "t" ++ [233]%N ++ runes_of_ascii """ , float zchar ,pack options1
,asx string_, }
packet u8x {Foo@lengthOf(charz )
`" ++ [28040; 24687; 31867; 22411]%N ++ runes_of_ascii "`,  }
")).
Eval vm_compute in ("<<<M2284>>>" ++ check (runes_of_ascii "options
    {
x_y_z// " ++ [27880; 37322]%N ++ runes_of_ascii "
= 10 ; }
packet body {
    @calculatedFrom(
// trailing space 
// " ++ [27880; 37322]%N ++ runes_of_ascii "
""1""
)	match T as as Foo
    {
255 :T , }
,}")).
Eval vm_compute in ("<<<M2309>>>" ++ check (runes_of_ascii "options
    {
x_y_z// " ++ [27880; 37322]%N ++ runes_of_ascii "
= 10 ; }
packet body {
    @calculatedFrom(
// trailing space 
// " ++ [27880; 37322]%N ++ runes_of_ascii "
""1""
)	match T as Foo
    {
255 :T T , }
,}")).
Eval vm_compute in ("<<<M4149>>>" ++ check (runes_of_ascii "packet A {
    match k as n {
        [
            1, ""bb"", 007, ""d"", 5,
            ""f"", 7, ""h""
        ] : B,
        2 : C,
    },
}")).
Eval vm_compute in ("<<<M2216>>>" ++ check (runes_of_ascii "options
    x_y_z
{// " ++ [27880; 37322]%N ++ runes_of_ascii "
= 10 ; }
packet body {
    @calculatedFrom(
// trailing space 
// " ++ [27880; 37322]%N ++ runes_of_ascii "
""1""
)	match T as Foo
    {
255 :T , }
,}")).
Eval vm_compute in ("<<<M1936>>>" ++ check (runes_of_ascii "
packet leftPad 
@leftPad( '0')
u32
i64_ `100% of %d` ,repeat// 50% %s
i8 chars
    ,
} MetaData
    f32a
{ // packet A { u8 x, }
}")).
Eval vm_compute in ("<<<M3520>>>" ++ check (runes_of_ascii "root packet int {
    chars @lengthOf(Foo) `a\`,
    repeat char[0123456789] BodyLength,
    i8 T,
    @rightPad()
    u64 lengthOf,
}")).
Eval vm_compute in ("<<<M3410>>>" ++ check (runes_of_ascii "  packet

    A
{
u8	a
,	} packet
    B{  u16 b, } root	packet 
P
	{ u8  K , match  K
as M
	{

1

    :A ,	1 :	B	,

}
    , }")).
Eval vm_compute in ("<<<M3922>>>" ++ check (runes_of_ascii "packet leftPad {
    @leftPad('0')
    u32 i64_ `100% of %d`,
    repeat i8 chars,
}

MetaData f32a {
    // packet A { u8 x, }
}")).
Eval vm_compute in ("<<<M4101>>>" ++ check (runes_of_ascii "packet o {
    @calculatedFrom(""packet"")
    match As as float {
        255 : metadata,
        [0123456789] : i8i8,
    },
}")).
Eval vm_compute in ("<<<M4377>>>" ++ check (runes_of_ascii "packet falsey {
    repeat matchKey,
}

options {
    As = 3;// " ++ [27880; 37322]%N ++ runes_of_ascii "
}

root packet x {
    @tag(65535)
    repeatCount a1,
}")).
Eval vm_compute in ("<<<M810>>>" ++ check (runes_of_ascii "packet	leftPad
    { @tag( //	t
10
)
    uint64 calculatedFrom
``
, body  , uint8 zchar ,i8i8 ,// trailing space 
}
")).
Eval vm_compute in ("<<<M1873>>>" ++ check (runes_of_ascii "packet o {
    roots `it's`
// trailing space 
//x
, char[ 42
    ]  A A, // " ++ [27880; 37322]%N ++ runes_of_ascii "
f64
repeatCount
    `crlf
line`
,}")).
Eval vm_compute in ("<<<M4419>>>" ++ check (runes_of_ascii "packet
o {
    roots
    `it's`

// trailing space 
    //x

  ,
char[
	42  ]A
	,  // " ++ [27880; 37322]%N ++ runes_of_ascii "
    f64 
repeatCount
,
}")).
Eval vm_compute in ("<<<M1850>>>" ++ check (runes_of_ascii "packet o {
    roots int16
// trailing space 
//x
, char[ 42
    ]  A, // " ++ [27880; 37322]%N ++ runes_of_ascii "
f64
repeatCount
    `crlf
line`
,}")).
Eval vm_compute in ("<<<M1386>>>" ++ check (runes_of_ascii "
options  {	int = ' ' ;T =""`tick`""
; A =
    //
    255 ; matchKey = ' '
    ; body =zchar[ 4294967296 ]
;
}
")).
Eval vm_compute in ("<<<M3867>>>" ++ check (runes_of_ascii "  packet

    A 
{
    match k

as
n {[	// a
    1 	 // b
    , 	 // c

	2 ] // d
	  :

    B  } 
,  }
")).
Eval vm_compute in ("<<<M514>>>" ++ check (runes_of_ascii "MetaData u	{ float32	u8x `{ , }`, char[ 007]
//x
// 50% %s
matchKey `tab	here`
, char[
7 ] float ,
    }
")).
Eval vm_compute in ("<<<M36>>>" ++ check (runes_of_ascii "options { MetaDataX= 0 matchKey = '0' ; BodyLength = '\x00' ;packetx
=char[]	;
    charz =  '\x00' }
")).
Eval vm_compute in ("<<<M527>>>" ++ check (runes_of_ascii "options { }
    packet roots { leftPad
    falsey , char[
1// c
]
u8x ,
crc{charz
asx, }
    , }
")).
Eval vm_compute in ("<<<M3750>>>" ++ check (runes_of_ascii "MetaData stringy {
    char[] A,
    BodyLength stringy,
    int lengthOf,
    Pad crc `{ , }`,
}")).
Eval vm_compute in ("<<<M4317>>>" ++ check (runes_of_ascii "packet A {
    match k as n {
        [""a"", ""bb"", ""c c"", ""d"", ""e""] : B,
        2 : C,
    },
}")).
Eval vm_compute in ("<<<M3587>>>" ++ check (runes_of_ascii "

  options  {	BodyLength

=

    true 
	/// triple
	  chars

= ""it's""
	;float='\x00' }
")).
Eval vm_compute in ("<<<M3902>>>" ++ check (runes_of_ascii "
packet
Foo { match
body as	leftPad{

    4294967296
:  /// triple

tag  ,

    } , }

")).
Eval vm_compute in ("<<<M1434>>>" ++ check (runes_of_ascii "packet
T
{ match as repeatCount	calculatedFrom
{ [65535 ]	: As	,
} ,}
// trailing space 
")).
Eval vm_compute in ("<<<M1447>>>" ++ check (runes_of_ascii "packet
T
{ match repeatCount as	calculatedFrom
 [65535 ]	: As	,
} ,}
// trailing space 
")).
Eval vm_compute in ("<<<M3957>>>" ++ check (runes_of_ascii "packet
A
    {
    match 
k
as

    n { [ 1
,
    22

,	""c c""
	, 4 
] :  B
2 :	C } ,}")).
Eval vm_compute in ("<<<M1781>>>" ++ check (runes_of_ascii "options{  lengthOf =//x
i16;
    BodyLength = 0 ; pack
= false;
    A A = char[ 3 ] }")).
Eval vm_compute in ("<<<M2960>>>" ++ check (runes_of_ascii "packet A {
  match k as n {
    [1, 22, 007, 4, 5, 66, 7, 8, 9] : B,
    2 : C
  },
}")).
Eval vm_compute in ("<<<M2938>>>" ++ check (runes_of_ascii "packet A {
  match k as n {
    [1, ""bb"", 007, ""d"", 5, ""f"", 7] : B,
    2 : C
  },
}")).
Eval vm_compute in ("<<<M4441>>>" ++ check (runes_of_ascii "
packet
    u8x 
{

    }MetaData	crc
    { char[
// c
		4294967296 ]
Foo  , }

")).
Eval vm_compute in ("<<<M1804>>>" ++ check (runes_of_ascii "options{  lengthOf =//x
i16;
    BodyLength = 0 ; pack
= false;
    A = char[ 3")).
Eval vm_compute in ("<<<M3248>>>" ++ check (runes_of_ascii "MetaData Foo
// c
{ zchar[ 0 ] matchKey , } options { lengthOf = i32 u = 00 ; }")).
Eval vm_compute in ("<<<M3280>>>" ++ check (runes_of_ascii "MetaData Foo { zchar[ 0 ] matchKey , } options { lengthOf = i32 u = 00 ;
// c
}")).
Eval vm_compute in ("<<<M2898>>>" ++ check (runes_of_ascii "packet A {
  match k as n {
    [""a"", ""bb"", ""c c"", ""d""] : B
    2 : C
  },
}")).
Eval vm_compute in ("<<<M1565>>>" ++ check (runes_of_ascii "// 50% %s
packet	a1
    { zchar[
// a // b
// 50% %s
007]
T `it's`
    ,")).
Eval vm_compute in ("<<<M1180>>>" ++ check (runes_of_ascii "packet // 50% %s
Foo {
@rightPad ( '\x00')repeat char stringy ,
    }")).
Eval vm_compute in ("<<<M3073>>>" ++ check (runes_of_ascii "packet A {
    B b `%%d%!`,
    B `%%d%!`,
    repeat B bs `%%d%!`,
}")).
Eval vm_compute in ("<<<M70>>>" ++ check (runes_of_ascii "options { _x= 0123456789
;	a1
    // @lengthOf(
    =
'0'
    ; }")).
Eval vm_compute in ("<<<M939>>>" ++ check (runes_of_ascii "MetaData options1
// `tick` ""quote"" 'q'
//x
{ i8 trueish
    ,}
")).
Eval vm_compute in ("<<<M3536>>>" ++ check (runes_of_ascii "
MetaData
    float
{int16
	options1
,

int8
u128
`{ , }`,	} ")).
Eval vm_compute in ("<<<M3304>>>" ++ check (runes_of_ascii "packet u8x { } MetaData crc {
// c
char[ 4294967296 ] Foo , }")).
Eval vm_compute in ("<<<M1060>>>" ++ check (runes_of_ascii "packet pack{zchar[ //
255] f32a @calculatedFrom(""a\\"" ) ,}
")).
Eval vm_compute in ("<<<M633>>>" ++ check (runes_of_ascii "// `tick` ""quote"" 'q'
options {calculatedFrom = false  ;}")).
Eval vm_compute in ("<<<M204>>>" ++ check (runes_of_ascii "packet MetaDataX { int @calculatedFrom( ""`tick`"" ) ,
}")).
Eval vm_compute in ("<<<M427>>>" ++ check (runes_of_ascii "packet int { leftPad
Foo`// not a comment`
    ,  }")).
Eval vm_compute in ("<<<M4110>>>" ++ check (runes_of_ascii "MetaData

    Z9_
	{
BodyLength

    _x ,
} ")).
Eval vm_compute in ("<<<M3963>>>" ++ check (runes_of_ascii "root packet u128 {
    chars `doc`,
    // c
}")).
Eval vm_compute in ("<<<M3735>>>" ++ check (runes_of_ascii "root packet A {
    u8 x `tab
        	x`,
}")).
Eval vm_compute in ("<<<M3809>>>" ++ check (runes_of_ascii "

  packet
len
    {
repeat
    int  , }
")).
Eval vm_compute in ("<<<M3220>>>" ++ check (runes_of_ascii "
// c
root packet u128 { chars `doc` , }")).
Eval vm_compute in ("<<<M3234>>>" ++ check (runes_of_ascii "root packet u128 { chars `doc` ,
// c
}")).
Eval vm_compute in ("<<<M2390>>>" ++ check (runes_of_ascii "MetaData
Foo \ {Header //
pack ,	} 	 ")).
Eval vm_compute in ("<<<M2624>>>" ++ check (runes_of_ascii "packet A { match k as n { 1 : 2 }, }")).
Eval vm_compute in ("<<<M2863>>>" ++ check (runes_of_ascii "F" ++ [65533; 4; 65533; 65533]%N ++ runes_of_ascii "G" ++ [65533; 65533; 65533]%N ++ runes_of_ascii "_e" ++ [65533; 65533; 65533; 65533; 65533]%N ++ runes_of_ascii "PM" ++ [65533; 65533]%N ++ runes_of_ascii "	*" ++ [65533; 497; 65533; 31]%N ++ runes_of_ascii "^" ++ [12]%N ++ runes_of_ascii "Vi:" ++ [1301]%N ++ runes_of_ascii "I:" ++ [65533]%N)).
Eval vm_compute in ("<<<M2247>>>" ++ check (runes_of_ascii "options
    {
x_y_z// " ++ [27880; 37322]%N ++ runes_of_ascii "
= 10 ; }")).
Eval vm_compute in ("<<<M3159>>>" ++ check (runes_of_ascii "packet A {
 u8 x `d 	`, // c 	
}")).
Eval vm_compute in ("<<<M959>>>" ++ check (runes_of_ascii "root packet
calculatedFrom{ }
")).
Eval vm_compute in ("<<<M2237>>>" ++ check (runes_of_ascii "options
    {
x_y_z// " ++ [27880; 37322]%N ++ runes_of_ascii "
= 10")).
Eval vm_compute in ("<<<M3342>>>" ++ check (runes_of_ascii "options { // c
u8x = false }")).
Eval vm_compute in ("<<<M4123>>>" ++ check (runes_of_ascii "options {
    u8x = false
}")).
Eval vm_compute in ("<<<M2629>>>" ++ check (runes_of_ascii "packet A { @tag() u8 x, }")).
Eval vm_compute in ("<<<M1297>>>" ++ check (runes_of_ascii "
 // packet A { u8 x, }")).
Eval vm_compute in ("<<<M334>>>" ++ check (runes_of_ascii "MetaData msg_type { }")).
Eval vm_compute in ("<<<M2652>>>" ++ check (runes_of_ascii "MetaData M { u8 x, }")).
Eval vm_compute in ("<<<M3177>>>" ++ check (runes_of_ascii "packet A {
}
// c x")).
Eval vm_compute in ("<<<M3127>>>" ++ check (runes_of_ascii "packet A {
}
// c" ++ [8232]%N)).
Eval vm_compute in ("<<<M2576>>>" ++ check (runes_of_ascii "packet A { u8 x }")).
Eval vm_compute in ("<<<M654>>>" ++ check (runes_of_ascii "MetaData A { }

")).
Eval vm_compute in ("<<<M4019>>>" ++ check (runes_of_ascii "  // a
	// b
")).
Eval vm_compute in ("<<<M928>>>" ++ check (runes_of_ascii "options
{
}")).
Eval vm_compute in ("<<<M2694>>>" ++ check (runes_of_ascii "// a
// b
")).
Eval vm_compute in ("<<<M4077>>>" ++ check (runes_of_ascii "//x
// c")).
Eval vm_compute in ("<<<M2480>>>" ++ check (runes_of_ascii "'\x00'")).
Eval vm_compute in ("<<<M2683>>>" ++ check (runes_of_ascii "u8 x,")).
Eval vm_compute in ("<<<M2498>>>" ++ check (runes_of_ascii "@tag")).
Eval vm_compute in ("<<<M2509>>>" ++ check (runes_of_ascii "//")).
Eval vm_compute in ("<<<M2514>>>" ++ check (runes_of_ascii """""")).
Eval vm_compute in ("<<<M2696>>>" ++ check ([0]%N)).
