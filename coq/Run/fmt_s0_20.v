From FP Require Import Lexer Parser ShowPT Digest Formatter.
From Coq Require Import String List NArith.
Import ListNotations.
Open Scope string_scope.
Set Printing Width 100000000.
Set Printing Depth 100000000.
Definition show_fres (r : fres) : string :=
  match r with
  | FOk s => "OK:" ++ sh_escaped s ""
  | FErr s => "ERR:" ++ sh_escaped s ""
  | FPanic p => "PANIC:" ++ p
  end.
Definition check (rs : list rune) : string := digest (show_fres (format_res rs)).
Definition full (rs : list rune) : string := show_fres (format_res rs).
Eval vm_compute in ("<<<M41>>>" ++ check (runes_of_ascii "  root packet u{ match crc as
leftPad { [ 00 ] : //
o,  42
    /// triple
    :
// trailing space 
//x
crc [
""a	b"" ,
""CRC32"" , ""a\""b"" , ""\n""
, 0
, 255 ] : // packet A { u8 x, }
zchar ,
// " ++ [128512]%N ++ runes_of_ascii " emoji
//
} //	t
,	string stringy
    @lengthOf(matchKey ),
    int ,@tag(
1)repeat	zchar[ 4294967296] roots , @leftPad ( '\x00'	) x
    //x
    @lengthOf( crc ), } packet// c
repeatCount { zchar[ 255]	f32a	@calculatedFrom(
    ""x y"" )
,@tag(
    255) char[] asx
@calculatedFrom(""" ++ [28040; 24687]%N ++ runes_of_ascii """
    // " ++ [27880; 37322]%N ++ runes_of_ascii "
    ) , leftPad{
/// triple
// a // b
repeat int u8x ,
i64
trueish	@lengthOf(	i8i8 ) `" ++ [28040; 24687; 31867; 22411]%N ++ runes_of_ascii "`
    // a // b
    ,
repeat
int64 //	t
pack
    , } ,
    match float as o { //
65535
:
Pad ,[
""" ++ [128512]%N ++ runes_of_ascii """ , """ ++ [28040; 24687]%N ++ runes_of_ascii """,
    0123456789 ]
//x
// @lengthOf(
:i8i8
, 7 :
asx 00: stringy } ,@calculatedFrom(
""" ++ [233]%N ++ runes_of_ascii "t" ++ [233]%N ++ runes_of_ascii """ ) f32a
// packet A { u8 x, }
// trailing space 
u , repeat msg_type `" ++ [233]%N ++ runes_of_ascii "` ,
repeat zchar[
42 ]crc
    , uint64
    // " ++ [27880; 37322]%N ++ runes_of_ascii "
    lengthOf , repeat As``
    ,
zchar[ 007 ] tag `tab	here`  , }	root packet charz
{
    string msg_type , @calculatedFrom( """") repeat//	t
string  tag `tab	here`
    ,repeat calculatedFrom ,
repeat Foo, uint64
Foo@lengthOf( packetx) ,
@rightPad  ( )	match	falsey as calculatedFrom { [ 0 , 10
    , ""a\""b"" ] : metadata ,
} , @calculatedFrom( ""\" ++ [233]%N ++ runes_of_ascii """ )
    i64  As ``,
    @lengthOf(
rootA) u32 Logon // c
@lengthOf(a1  ) , @calculatedFrom( """" ) @leftPad ( ' '
    )
    uint16
i8i8
@calculatedFrom( ""// no comment""
) ,  } root packet// trailing space 
uint8x {
    repeat f32
chars `tab	here` ,}
MetaData calculatedFrom
{
//
// `tick` ""quote"" 'q'
metadata crc , }

")).
Eval vm_compute in ("<<<M282>>>" ++ check (runes_of_ascii "// a // b
packet stringy	{
string zchar ,
    repeat T
, match
u
as  charz {
007
    //x
    :
//	t
// @lengthOf(
float// trailing space 
,""\" ++ [233]%N ++ runes_of_ascii """ : Logon ""a	b"":
//	t
//	t
pack, } , match uint8x as
    // " ++ [27880; 37322]%N ++ runes_of_ascii "
    roots
{
1
    // `tick` ""quote"" 'q'
    : len
,	}
//x
// " ++ [27880; 37322]%N ++ runes_of_ascii "
, }packet zchar {	roots options1
    //x
    `// not a comment` , int64 As
,
    i16 float
    @lengthOf( falsey
    // " ++ [27880; 37322]%N ++ runes_of_ascii "
    ) `a\`
    , int64 msg_type `tab	here`
, @tag(0
    // `tick` ""quote"" 'q'
    ) repeat uint8x ,
    @lengthOf(x
    ) repeat metadata
    , zchar[ 0 ]	int , uint64
    zchar ,zchar[7 // " ++ [27880; 37322]%N ++ runes_of_ascii "
]
msg_type
,
@calculatedFrom(
/// triple
// " ++ [27880; 37322]%N ++ runes_of_ascii "
""" ++ [28040; 24687]%N ++ runes_of_ascii """ ) crc
, }
root packet zchar { repeat
leftPad,
} packet
A{
@lengthOf(
    string_ )	x@lengthOf( options1) `two words`,  string
len ,	}packet	falsey{ i64_ @calculatedFrom(	""{,}"" ) , repeat
string chars
, zchar[ 7]calculatedFrom
, Header
    { char u`two words`, repeat char[] // c
tag
    `say ""hi""`	, Z9_
    @lengthOf(
T ) `line1
line2` , } , msg_type @calculatedFrom( ""// no comment""
    ) , @rightPad (// packet A { u8 x, }
'\x00' )
@lengthOf( asx )
falsey
,
    } // packet A { u8 x, }")).
Eval vm_compute in ("<<<M129>>>" ++ check (runes_of_ascii "packet
MetaDataX { metadata trueish`" ++ [233]%N ++ runes_of_ascii "`
//x
//x
,// trailing space 
@calculatedFrom(""`tick`"" )uint8x
    // c
    @calculatedFrom(  """ ++ [128512]%N ++ runes_of_ascii """  ) `{ , }`
    , @calculatedFrom( ""a\""b"" ) // packet A { u8 x, }
match Packet as
    body { 3
    : repeatCount
,""x y""
    /// triple
    :lengthOf// `tick` ""quote"" 'q'
4294967296 :
    packetx
    , [ ""abc""
, ""// no comment""
    ,
""abc"" ,
""\n"" //	t
, ""1""
]: u128 [ 00 , 65535 ,""x y"" ,""{,}""  ]
: calculatedFrom ,
    7 :	i8i8  }, u8x ,match int as	matchKey{
[1 ,""CRC32""]
    // trailing space 
    :// @lengthOf(
asx,	}
    , @lengthOf( // " ++ [128512]%N ++ runes_of_ascii " emoji
a1) string x `it's` , repeat // @lengthOf(
char matchKey  ,
    // a // b
    @leftPad // trailing space 
( )@rightPad ( ) match
metadata	as  Packet { [ 65535  ] : Header , }, @tag( 255)
zchar[ 3 ] crc `u8 x,` ,} MetaData
    rootA // trailing space 
{
i8i8	Pad , int8
packetx `{ , }`
,
    int8 stringy,
    // `tick` ""quote"" 'q'
    body _x  , body o , }")).
Eval vm_compute in ("<<<M1899>>>" ++ check (runes_of_ascii "options {
    matchKey = ""x y"";
    MetaDataX = '0';
}

packet msg_type {
    @rightPad(' ')
    repeat u128 body,
    match body as pack {
        [""\" ++ [233]%N ++ runes_of_ascii """, ""1""] : BodyLength,
        [
            255, 007, 007, 0123456789, ""a	b"",
            ""a\\"", ""{,}""
        ] : options1,
    },
    @leftPad()
    @lengthOf(charz)
    @tag(42)
    o {
        i32 msg_type @lengthOf(A) `doc`,
        zchar[1] charz,// c
        i8 packetx `{ , }`,
        msg_type `crlf
        line`,
    },
    @calculatedFrom(""\" ++ [233]%N ++ runes_of_ascii """)
    Z9_ @calculatedFrom(""" ++ [128512]%N ++ runes_of_ascii """) `tab	here`,
    repeat char[] Foo,
    repeat zchar[0123456789] u128,
}

packet f32a {
    f32a @lengthOf(matchKey),
    @rightPad(' ')
    @lengthOf(chars)
    _x Foo ``,
    match body as body {
        [4294967296, 3, 0123456789, ""packet"", """ ++ [128512]%N ++ runes_of_ascii """] : T,
        [""a\\""] : T,
        ""\n"" : u8x,
    },
}//x

root packet lengthOf {
}")).
Eval vm_compute in ("<<<M1734>>>" ++ check (runes_of_ascii "
// a // b
	packet
	u128 
{repeat chars
{  i64 u8x	`
`  // a // b
  	,  // c
_x@lengthOf( falsey
    )
,  Logon `" ++ [28040; 24687; 31867; 22411]%N ++ runes_of_ascii "`

,

repeat char[]
    trueish`tab	here`  , 
} ,}

    root packet T

    { 
match
Packet
    as
trueish

{
""packet""	:
	charz,[
4294967296
,  ""1""	]
:

    A
	,
    7  :

    x
    // " ++ [27880; 37322]%N ++ runes_of_ascii "
      , 
[  
  // a // b
7	,
    ""a	b""

]:	u128 255 : As 
3	:Packet
,} ,
        //	t
		// trailing space 

	pack

    `a\`  , @calculatedFrom(

    """ ++ [233]%N ++ runes_of_ascii "t" ++ [233]%N ++ runes_of_ascii """ 	 //	t
	)
	rootA  matchKey

    ,

char[

65535
	]/// triple
  leftPad  @lengthOf( 
roots

//
  	),
	repeat

MetaDataX  { 
u64

    a1 
@calculatedFrom( 
""x y"") `doc` 
, 	 //	t
  uint8

    falsey ,
match 
BodyLength
    as A {	[ ""\" ++ [233]%N ++ runes_of_ascii """  ,255 
, """",  ""it's""
]:  Foo

, 3

    :  u128 }, }  , }")).
Eval vm_compute in ("<<<M1911>>>" ++ check (runes_of_ascii "  // top

	packet// c0a

// c0b
	A	// c1
	{
        // c2
u8 

    // c3
    a // c4a

// c4b
  ,
    }	// c6a
  // c6b
	packet	// c7a
// c7b
	B  // c8a
  	// c8b

{ 
u16 // c10
b 	 // c11a
  // c11b
    , 
// c12

	}
	    // c13
  	root	// c14
packet
	P // c16
    	{	// c17a
    	// c17b
      u8

K1	// c19
    	,// c20
  u8  // c21a
  // c21b
      K2 	 // c22a

  // c22b
  ,  // c23a
    // c23b
    match// c24a
    	// c24b
  K1
as

    // c26
M1// c27a
// c27b
    	{// c28a
		// c28b
1  
      // c29
  :
    // c30
	A// c31
    ,// c32a
	// c32b
	} ,
match 
K2  
  // c36
	as
    // c37
  M2// c38
	{
    1 
: 	 // c41a
// c41b
	B 

    // c42

	, }, 

    // c45
	}// c46")).
Eval vm_compute in ("<<<M1122>>>" ++ check (runes_of_ascii "// top
options // c0
{ // c1
uint8x // c2
= // c3
007 // c4
; // c5
lengthOf // c6
= // c7
i8 // c8
; // c9
} // c10
packet // c11
i64_ // c12
{ // c13
@calculatedFrom( // c14
""1"" // c15
) // c16
@tag( // c17
3 // c18
) // c19
@lengthOf( // c20
rootA // c21
) // c22
repeat // c23
int8 // c24
Packet // c25
`u8 x,` // c26
, // c27
} // c28
root // c29
packet // c30
stringy // c31
{ // c32
@rightPad // c33
( // c34
' ' // c35
) // c36
repeat // c37
char[ // c38
10 // c39
] // c40
repeatCount // c41
, // c42
@tag( // c43
255 // c44
) // c45
float64 // c46
msg_type // c47
@calculatedFrom( // c48
""packet"" // c49
) // c50
, // c51
} // c52
")).
Eval vm_compute in ("<<<M1447>>>" ++ check (runes_of_ascii "packet
leftPad //

{
	@rightPad()repeat

chars  {

    crc /// triple
	pack ,
} 
,	@calculatedFrom( """ ++ [28040; 24687]%N ++ runes_of_ascii """
    )@lengthOf(  options1 )  @tag(	65535)
    Foo

    ,
match

    matchKey as// " ++ [128512]%N ++ runes_of_ascii " emoji

tag{
// c
		[""{,}""

    ,	""""
    , ""`tick`"" ,3,  ""it's""

    ,  """ ++ [128512]%N ++ runes_of_ascii """

, ""it's"" ] 
:

    As
	,[
        /// triple
	//	t

""x y""	]  
  //x
  : chars

    ,

""" ++ [233]%N ++ runes_of_ascii "t" ++ [233]%N ++ runes_of_ascii """:

    uint8x
    ,

    4294967296 :	packetx ""// no comment""
:calculatedFrom, }
    ,@calculatedFrom( 
""// no comment"" // @lengthOf(

) char[  // trailing space 
    007 ]f32a ,
    }  // a // b
")).
Eval vm_compute in ("<<<M1399>>>" ++ check (runes_of_ascii "  MetaData  u128
	{// a // b
		string zchar 	 //x
`two words`
,
    u16

packetx`a\`  ,  char[ 1]

    Logon

, len
crc ,

char[7

] i8i8

,
	char[]
    calculatedFrom
	,
} // @lengthOf(
  MetaData  u	{
    u// " ++ [128512]%N ++ runes_of_ascii " emoji
  u128

    ,  //	t
      } 
root packet
    metadata
{ }
	options {
matchKey
=

    255
    ;x_y_z = 
007

    crc
= 
int16	;

zchar = 	 // c
	char[ 42] ;int=
true;}
    options
    {Header =
""" ++ [128512]%N ++ runes_of_ascii """
;

    len = ' ';	matchKey
=
	"""";
MetaDataX=' '

;  o 
=
'\x00'
;
	}  
  /// triple
")).
Eval vm_compute in ("<<<M133>>>" ++ check (runes_of_ascii "MetaData  falsey
{ } root packet // `tick` ""quote"" 'q'
o {@tag(3// " ++ [128512]%N ++ runes_of_ascii " emoji
) @calculatedFrom( """") @lengthOf(
    pack)char[ 65535
    ]falsey
    @lengthOf(falsey ) , }  root packet roots
    {@lengthOf(
chars )match Logon as chars{ ""`tick`"" :charz
    // packet A { u8 x, }
    ""a\\"" :Z9_ 007 : trueish ""CRC32"" :	msg_type , [
3
    ,3 // `tick` ""quote"" 'q'
,
00 ,4294967296 ,
0
,7 , //
""x y"",""\" ++ [233]%N ++ runes_of_ascii """
    //	t
    ] : metadata ,""a	b""
//x
// " ++ [27880; 37322]%N ++ runes_of_ascii "
:	crc } , }
")).
Eval vm_compute in ("<<<M1518>>>" ++ check (runes_of_ascii "
packet	crc

    {
    match trueish
	as
len

    {

    42

    :
uint8x
    , 	 // " ++ [128512]%N ++ runes_of_ascii " emoji
	""1"" 
:

    asx , 3
:
body[

    ""1""
	,
0123456789
	] :
u""packet"" 
:o , } ,}MetaData
tag
	{
    string
o
    `line1
line2`
    , 
char[] //
  Header`{ , }`// c
    ,uint8x 
Z9_
	, }MetaData
tag

{ i8
    len,
	}

options 	 //x
{ 
  // `tick` ""quote"" 'q'
    /// triple
      x=

10

    ;
	}
")).
Eval vm_compute in ("<<<M1654>>>" ++ check (runes_of_ascii "// packet A { u8 x, }
MetaData roots {
    char[00] lengthOf ``,
    As stringy,
    x calculatedFrom,
}

packet i8i8 {
    crc `crlf
        line`,
    @rightPad()
    zchar[42] falsey,
    @tag(42)
    u32 leftPad,
    @tag(42)
    a1 @lengthOf(Z9_),
    match leftPad as crc {
        [1, 255, ""a\""b""] : trueish,
        3 : float,
        0 : lengthOf,
    },
}")).
Eval vm_compute in ("<<<M285>>>" ++ check (runes_of_ascii "packet zchar { @calculatedFrom(
    ""packet"" )
    @lengthOf( body ) @lengthOf(A )
    repeat /// triple
u128
    { f32a
chars `` , repeat x_y_z `tab	here`	, // c
} , // " ++ [27880; 37322]%N ++ runes_of_ascii "
repeat
Logon {// " ++ [27880; 37322]%N ++ runes_of_ascii "
u@calculatedFrom( // `tick` ""quote"" 'q'
""// no comment"") //
`two words` , char
    u8x , uint32  uint8x  , } , int8
    asx ``,}
")).
Eval vm_compute in ("<<<M1451>>>" ++ check (runes_of_ascii "  packet
len
	{ }

options { 
Z9_=
    4294967296;

_x =  // a // b
	0
f32a=zchar[
42 ]
;
}

root
	packet 
        // @lengthOf(
	BodyLength 	 // trailing space 
	{ }

options
{

    string_
	=
	u32

;
	charz
    = 
	/// triple
    	// packet A { u8 x, }
    string ;
	}

packet
len  {
}
")).
Eval vm_compute in ("<<<M1348>>>" ++ check (runes_of_ascii "options {
    LittleEndian = false;
    StringPrefixLenType = u16;
}
packet Heartbeat {
    @rightPad('0') char[7] seqNo,
    uint64 Tail,
    i16 Flags,
    u16 msgKind,
}
root packet Reject {
    zchar[3] tag7,
    repeat Heartbeat,
    repeat string clOrdID,
}
")).
Eval vm_compute in ("<<<M1313>>>" ++ check (runes_of_ascii "options	{ FixedStringPadChar
=

'0';  }packet
Q
{ zchar[4  ]

z
	, @rightPad  ('\x00'  )

    char[ 
3
]
n , char[
    5 ]  d,
}

    root
packet
R

{

    Q 
, zchar[8 
]top

    ,	repeat zchar[	2
]
	zs

    , 
}")).
Eval vm_compute in ("<<<M10>>>" ++ check (runes_of_ascii "MetaData //	t
x{
    } packet rootA
//x
//	t
{ i64	As
//x
// @lengthOf(
@lengthOf(
    A )
`// not a comment` ,
}
    options { asx =	string ; i8i8 =zchar[
0123456789 ];	Foo =10 ; As =true
; }
")).
Eval vm_compute in ("<<<M1281>>>" ++ check (runes_of_ascii "// top
root // c0a
  // c0b
packet P {
    // c3
u16
    // c4
a
    // c5
,
    // c6
u32 // c7a
  // c7b
Sum // c8
@calculatedFrom( // c9a
  // c9b
""CRC32"" ) , } // c13
")).
Eval vm_compute in ("<<<M421>>>" ++ check (runes_of_ascii "packet uint8x
{ match pack
    as msg_type msg_type	{
    0123456789 :	float
}
,
} packet //	t
a1
    { } options {packetx
    = '\x00'	; u128= ""a	b""  ; }
")).
Eval vm_compute in ("<<<M508>>>" ++ check (runes_of_ascii "packet uint8x
{ match pack
    as msg_type	{
    0123456789 :	float
}
,
} packet //	t
a1
    { } options {packetx
    = '\x00'	int16 u128= ""a	b""  ; }
")).
Eval vm_compute in ("<<<M540>>>" ++ check (runes_of_ascii "packet uint8x
{ match pack
    as msg_type	{
    0123456789 :	float
}
,
} packet //	t
a1
    { } options " ++ [65279]%N ++ runes_of_ascii " {packetx
    = '\x00'	; u128= ""a	b""  ; }
")).
Eval vm_compute in ("<<<M432>>>" ++ check (runes_of_ascii "packet uint8x
{ match pack
    as msg_type	{
    : 0123456789	float
}
,
} packet //	t
a1
    { } options {packetx
    = '\x00'	; u128= ""a	b""  ; }
")).
Eval vm_compute in ("<<<M455>>>" ++ check (runes_of_ascii "packet uint8x
{ match pack
    as msg_type	{
    0123456789 :	float
}
,
 packet //	t
a1
    { } options {packetx
    = '\x00'	; u128= ""a	b""  ; }
")).
Eval vm_compute in ("<<<M510>>>" ++ check (runes_of_ascii "packet uint8x
{ match pack
    as msg_type	{
    0123456789 :	float
}
,
} packet //	t
a1
    { } options {packetx
    = '\x00'	; = ""a	b""  ; }
")).
Eval vm_compute in ("<<<M711>>>" ++ check (runes_of_ascii "// @lengthOf(
packet i8i8 { u128 o , }
options { MetaDataX = true;
    BodyLength =""packet"" x_y_z= 007
""crc //x
= ""abc"" ;
    msg_type =
i16 }")).
Eval vm_compute in ("<<<M692>>>" ++ check (runes_of_ascii "// @lengthOf(
packet i8i8 { u128 o , }
options { MetaDataX = true;
    BodyLength =""packet"" x_y_z= 007
u8 //x
= ""abc"" ;
    msg_type =
i16 }")).
Eval vm_compute in ("<<<M1383>>>" ++ check (runes_of_ascii "packet Logon {
    metadata @calculatedFrom(""a\\""),
    @tag(42)
    @tag(65535)
    repeat u16 o `line1
    line2`,
}

packet float {
}")).
Eval vm_compute in ("<<<M509>>>" ++ check (runes_of_ascii "packet uint8x
{ match pack
    as msg_type	{
    0123456789 :	float
}
,
} packet //	t
a1
    { } options {packetx
    = '\x00'")).
Eval vm_compute in ("<<<M680>>>" ++ check (runes_of_ascii "// @lengthOf(
packet i8i8 { u128 o , }
options { MetaDataX = true;
    BodyLength =""packet"" x_y_z= 007
crc //x
= ""abc""")).
Eval vm_compute in ("<<<M1167>>>" ++ check (runes_of_ascii "MetaData leftPad { chars MetaDataX , } packet repeatCount { char[ 255 ] // c
uint8x `" ++ [233]%N ++ runes_of_ascii "` , } MetaData pack { As Foo , }")).
Eval vm_compute in ("<<<M1596>>>" ++ check (runes_of_ascii "
MetaData

    crc
{	Pad

    T
,
zchar[ 0123456789
	] 
a1 ,

    int8

trueish // c
	,  } packet
float{
}
")).
Eval vm_compute in ("<<<M973>>>" ++ check (runes_of_ascii "packet A {
    match k as n {
        ""\
"" : B,
        [""\
"", 1] : C,
        [1,2,3,4,5,""\
""] : D,
    },
}")).
Eval vm_compute in ("<<<M1285>>>" ++ check (runes_of_ascii "// top
root
    // c0
packet // c1a
  // c1b
P
    // c2
{ // c3
string s // c5a
  // c5b
,
    // c6
} ")).
Eval vm_compute in ("<<<M956>>>" ++ check (runes_of_ascii "packet A {
    Inner {
        u8 x `
x`,
        Deep {
            u8 y `
x`,
        },
    },
}")).
Eval vm_compute in ("<<<M568>>>" ++ check (runes_of_ascii "
packet
    asx {match match u128 as lengthOf
{
//	t
// `tick` ""quote"" 'q'
255 : x ,
    } ,	}")).
Eval vm_compute in ("<<<M892>>>" ++ check (runes_of_ascii "packet A {
  match k as n {
    [1, 22, 007, 4, 5, 66, 7, 8, 9, 10, 11] : B
    2 : C
  },
}")).
Eval vm_compute in ("<<<M873>>>" ++ check (runes_of_ascii "packet A {
  match k as n {
    [1, 22, ""c c"", 4, 5, ""f"", 7, 8, ""i""] : B,
    2 : C
  },
}")).
Eval vm_compute in ("<<<M617>>>" ++ check (runes_of_ascii "
packet
    asx {match u128 as lengthOf
{
//	t
// `tick` ""quote"" 'q'
255 : x ,
    } 	}")).
Eval vm_compute in ("<<<M1246>>>" ++ check (runes_of_ascii "options {
    LittleEndian = true;
}
root packet P {
    repeat char cs,
    u8 x,
}
")).
Eval vm_compute in ("<<<M582>>>" ++ check (runes_of_ascii "
packet
    asx {match u128 as 
{
//	t
// `tick` ""quote"" 'q'
255 : x ,
    } ,	}")).
Eval vm_compute in ("<<<M1747>>>" ++ check (runes_of_ascii "packet
    A
{

    match
k

as
n{[""a"",  22,	""c c""
	]

:

B,2
	: C
	} ,}
")).
Eval vm_compute in ("<<<M1659>>>" ++ check (runes_of_ascii "packet Inner {
    u8 a,
}

root packet P {
    Inner ref_obj,
    u8 x,
}")).
Eval vm_compute in ("<<<M793>>>" ++ check (runes_of_ascii "packet A {
  match k as n {
    [""a"", 22, ""c c""] : B,
    2 : C
  },
}")).
Eval vm_compute in ("<<<M1715>>>" ++ check (runes_of_ascii "packet A {
    @tag(1)
    @leftPad('0')
    // b
    char[4] x,
}")).
Eval vm_compute in ("<<<M151>>>" ++ check (runes_of_ascii "packet
    stringy
{ } MetaData crc
/// triple
//x
{ u16 o ,}")).
Eval vm_compute in ("<<<M1097>>>" ++ check (runes_of_ascii "packet A {
    match k as n {
        1 : B,// c
    },
}")).
Eval vm_compute in ("<<<M1201>>>" ++ check (runes_of_ascii "packet body // c
{ i32 f32a `{ , }` , } options { }")).
Eval vm_compute in ("<<<M1100>>>" ++ check (runes_of_ascii "// top
MetaData // c0
tag // c1
{ // c2
} // c3
")).
Eval vm_compute in ("<<<M596>>>" ++ check (runes_of_ascii "
packet
    asx {match u128 as lengthOf
{")).
Eval vm_compute in ("<<<M1067>>>" ++ check (runes_of_ascii "packet A {    u8 x, // c    u8 y,}")).
Eval vm_compute in ("<<<M1562>>>" ++ check (runes_of_ascii "

  options{
Packet
=
	char[]}
")).
Eval vm_compute in ("<<<M998>>>" ++ check (runes_of_ascii "packet A {
 u8 x `d" ++ [5760]%N ++ runes_of_ascii "`, // c" ++ [5760]%N ++ runes_of_ascii "
}")).
Eval vm_compute in ("<<<M953>>>" ++ check (runes_of_ascii "packet A {
    u8 x `
x`,
}")).
Eval vm_compute in ("<<<M576>>>" ++ check (runes_of_ascii "
packet
    asx {match")).
Eval vm_compute in ("<<<M115>>>" ++ check (runes_of_ascii "MetaData roots{ } 	 ")).
Eval vm_compute in ("<<<M986>>>" ++ check (runes_of_ascii "packet A {
}
// c" ++ [160]%N)).
Eval vm_compute in ("<<<M1225>>>" ++ check (runes_of_ascii "
// c
packet x { }")).
Eval vm_compute in ("<<<M1230>>>" ++ check (runes_of_ascii "packet x { // c
}")).
Eval vm_compute in ("<<<M376>>>" ++ check (runes_of_ascii "
// " ++ [128512]%N ++ runes_of_ascii " emoji
")).
Eval vm_compute in ("<<<M1025>>>" ++ check (runes_of_ascii "// c" ++ [8287]%N)).
