From FP Require Import Lexer Parser ShowPT Digest Formatter.
From Coq Require Import String List NArith.
Import ListNotations.
Open Scope string_scope.
Set Printing Width 100000000.
Set Printing Depth 100000000.
Definition show_fres (r : fres) : string :=
  match r with
  | FOk s => "OK:" ++ sh_escaped s ""
  | FErr s => "ERR:" ++ sh_escaped s ""
  | FPanic p => "PANIC:" ++ p
  end.
Definition check (rs : list rune) : string := digest (show_fres (format_res rs)).
Definition full (rs : list rune) : string := show_fres (format_res rs).
Eval vm_compute in ("<<<M5>>>" ++ check (runes_of_ascii "MetaData  asx {char[] MetaDataX ,
lengthOf Z9_	, crc
    Foo ,char[ 4294967296]
BodyLength , Foo leftPad `doc`, tag // a // b
u128 , } root packet
    stringy { // trailing space 
match Header as
    repeatCount	{ [ ""{,}""] :
Header
/// triple
//
,255 :repeatCount , 00 :pack, 1 : trueish
    , 7
    : A }
    ,
T
    {Z9_
`
` ,
} ,
    int16 o
@calculatedFrom(
""it's""
) `line1
line2`	, match zchar
as As{ ""CRC32"" :	a1, 42: Header [ 10
    //
    ] : zchar // trailing space 
,
    }// " ++ [128512]%N ++ runes_of_ascii " emoji
, @tag( 42 )repeat i64_{
    // c
    char[00 ] _x `{ , }` ,
}
,repeat //x
char[] uint8x
`crlf
line` ,@leftPad
(	'\x00'
    ) @tag( 7 )
    int32
// a // b
// @lengthOf(
repeatCount
    @calculatedFrom(
""x y"" )
`// not a comment` , u32 zchar
    `
` , repeat stringy { i8i8 lengthOf
, } , // packet A { u8 x, }
@calculatedFrom(  ""abc"" ) @lengthOf( tag ) @lengthOf( /// triple
rootA )  char[3	] // c
rootA`" ++ [233]%N ++ runes_of_ascii "` ,// c
}MetaData crc
{
float32
asx `" ++ [233]%N ++ runes_of_ascii "` ,	string i64_// " ++ [128512]%N ++ runes_of_ascii " emoji
,
    }
root packet Packet
    //
    {charz @lengthOf( zchar) ,	f32
    f32a `{ , }` // a // b
, i64 matchKey @lengthOf( leftPad )
    , string trueish, @leftPad (  '0')
    // trailing space 
    tag@lengthOf( // a // b
string_ ) `doc` , match stringy
// @lengthOf(
// @lengthOf(
as calculatedFrom
    { [
0123456789 ]: repeatCount
//	t
//
,} ,// trailing space 
char[
3]
Header ,
int64 MetaDataX
,	@leftPad( ) len { packetx @lengthOf(chars ) `` ,
    }, @rightPad ( '0'
    )  x_y_z
,
} options{ rootA
// packet A { u8 x, }
//x
= '0'
; Foo =char
    ;A
    = zchar[ 0123456789 ]
// " ++ [27880; 37322]%N ++ runes_of_ascii "
//x
;packetx = """ ++ [233]%N ++ runes_of_ascii "t" ++ [233]%N ++ runes_of_ascii """
float = true } //x")).
Eval vm_compute in ("<<<M385>>>" ++ check (runes_of_ascii "options {
    StringPrefixLenType = u16;
    ArrayPrefixLenType = u16;
}

packet SampleBinary {
    uint16 MsgType `" ++ [28040; 24687; 31867; 22411]%N ++ runes_of_ascii "`,
    u16 BodyLenght @lengthOf(Body) `" ++ [28040; 24687; 20307; 38271; 24230]%N ++ runes_of_ascii "`,
    match MsgType as Body {
        1 : Logon,
        2 : Logout,
        3 : Heartbeat,
        4 : RiskControlRequest,
        5 : RiskControlResponse,
    },
    @calculatedFrom(""CRC32"")
    u32 Ckecksum `" ++ [26657; 39564; 21644]%N ++ runes_of_ascii "`,
}

packet Logon {
    @leftPad('0')
    char[10] UserName `" ++ [29992; 25143; 21517]%N ++ runes_of_ascii "`,
    string Password `" ++ [23494; 30721]%N ++ runes_of_ascii "`,
    uint64 ClientId `" ++ [23458; 25143; 31471]%N ++ runes_of_ascii "ID`,
    u16 HeartbeatInterval `" ++ [24515; 36339; 38388; 38548]%N ++ runes_of_ascii "`,
}

packet Logout {
    @rightPad('0')
    char[10] UserName `" ++ [29992; 25143; 21517]%N ++ runes_of_ascii "`,
    uint64 ClientId `" ++ [23458; 25143; 31471]%N ++ runes_of_ascii "ID`,
}

packet Heartbeat {
}

packet RiskControlRequest {
    string UniqueOrderId `" ++ [21807; 19968; 35746; 21333; 21495]%N ++ runes_of_ascii "`,
    char[16] ClOrdID `" ++ [23458; 25143; 35746; 21333; 21495]%N ++ runes_of_ascii "`,
    char[3] MarketID `" ++ [24066; 22330]%N ++ runes_of_ascii "id`,
    char[12] SecurityID `" ++ [35777; 21048; 20195; 30721]%N ++ runes_of_ascii "`,
    char Side `" ++ [20080; 21334; 26041; 21521]%N ++ runes_of_ascii "`,
    char OrderType `" ++ [35746; 21333; 31867; 22411]%N ++ runes_of_ascii "`,
    u64 Price `" ++ [20215; 26684]%N ++ runes_of_ascii "`,
    u32 Qty `" ++ [25968; 37327]%N ++ runes_of_ascii "`,
    repeat string ExtraInfo `" ++ [38468; 21152; 20449; 24687]%N ++ runes_of_ascii "`,
    repeat SubOrder {
        char[16] ClOrdID `" ++ [23376; 35746; 21333; 21495]%N ++ runes_of_ascii "`,
        u64 Price `" ++ [23376; 35746; 21333; 20215; 26684]%N ++ runes_of_ascii "`,
        u32 Qty `" ++ [23376; 35746; 21333; 25968; 37327]%N ++ runes_of_ascii "`,
    },
}

packet RiskControlResponse {
    string UniqueOrderId `" ++ [21807; 19968; 35746; 21333; 21495]%N ++ runes_of_ascii "`,
    i32 Status `" ++ [29366; 24577]%N ++ runes_of_ascii "`,
    string Msg `" ++ [32467; 26524; 20449; 24687]%N ++ runes_of_ascii "`,
    repeat Detail,
}

packet Detail {
    string RuleName `" ++ [35268; 21017; 21517; 31216]%N ++ runes_of_ascii "`,
    u16 Code `" ++ [21407; 22240; 20195; 30721]%N ++ runes_of_ascii "`,
}")).
Eval vm_compute in ("<<<M128>>>" ++ check (runes_of_ascii "root
packet // " ++ [27880; 37322]%N ++ runes_of_ascii "
crc
    {	@lengthOf(	As
)@calculatedFrom(""\" ++ [233]%N ++ runes_of_ascii """
    ) zchar[ 4294967296 ]MetaDataX `doc` ,/// triple
rootA @calculatedFrom( ""it's"" )	,@tag( 65535
    ) @tag( // c
7 )@tag( 00
//
// c
) len @lengthOf( A ) `two words` ,
// trailing space 
// " ++ [128512]%N ++ runes_of_ascii " emoji
string	rootA@lengthOf( pack
// trailing space 
//	t
) ,
// " ++ [128512]%N ++ runes_of_ascii " emoji
// trailing space 
repeat zchar ,
@calculatedFrom( ""abc"" )@leftPad ('\x00' ) @rightPad
( )match x_y_z
    as Z9_{
""it's""
    :
Logon//x
, ""x y"" : Packet,""abc""
: trueish 4294967296 // @lengthOf(
:
    repeatCount """ ++ [128512]%N ++ runes_of_ascii """:  x_y_z
} , char[ 10 // @lengthOf(
]
    stringy	`it's`
, @leftPad (
'\x00' )
rootA @lengthOf(  i64_  )
    , } MetaData falsey {
Packet repeatCount `tab	here` ,
}MetaData string_ {
    float64 roots `line1
line2` , char
As //
`
` , zchar[ 65535 ]falsey`a\` ,A
    T , _x metadata, } packet
_x // packet A { u8 x, }
{zchar[255 ] string_@lengthOf(
//	t
// @lengthOf(
u128 ) `{ , }`	,
}root packet Packet
    {repeat // " ++ [128512]%N ++ runes_of_ascii " emoji
lengthOf , }")).
Eval vm_compute in ("<<<M107>>>" ++ check (runes_of_ascii "packet falsey { i64_ ,	charz  {
match Packet  as Pad { ""\n"" :Packet
    , ""// no comment"" // " ++ [128512]%N ++ runes_of_ascii " emoji
:
f32a// `tick` ""quote"" 'q'
, [
    /// triple
    3  ,4294967296,
    10 ,//
7 , 10	]
: u
, // trailing space 
""`tick`"": u8x
,
[ 7 , ""it's"" ]:Packet, 0 : len
    //
    , }
    , }, /// triple
@lengthOf(	f32a) char[ 3 ]options1
    @lengthOf(
Pad)
, zchar[ 0123456789 ]// trailing space 
T ``
,
} packet
Pad
{
    // c
    o roots `{ , }` // " ++ [128512]%N ++ runes_of_ascii " emoji
, }packet f32a {
_x//
@calculatedFrom(	""x y"") //x
,@tag( 65535
) //	t
char pack @lengthOf( zchar  ) ,repeat //
int64 falsey  ,repeat len {match A
    as rootA {[ 42,  ""\n"" ]:
Z9_ , }
,repeat i16
A , repeat zchar[ 65535 ] tag `
` ,
f64 float
    @lengthOf( f32a ) ``  ,
// `tick` ""quote"" 'q'
// packet A { u8 x, }
} , x
    u8x
, @tag(  42	) repeat As Packet	, @lengthOf( Pad
    )repeat
    f64 rootA ,// @lengthOf(
}")).
Eval vm_compute in ("<<<M209>>>" ++ check (runes_of_ascii "packet calculatedFrom { // a // b
string charz
`two words`
//	t
//x
, } packet stringy {
@lengthOf(msg_type
)	crc
    // " ++ [128512]%N ++ runes_of_ascii " emoji
    , @leftPad
(	'0')crc @lengthOf(
u128 //	t
) ,@leftPad(
    ' '
)match
x_y_z as
rootA { [// @lengthOf(
3 ,255 ] : int
    ""1"": o ,// a // b
10:tag
, // c
10// " ++ [128512]%N ++ runes_of_ascii " emoji
: Header
    ,3 :
a1,""" ++ [128512]%N ++ runes_of_ascii """ :
packetx
    , }
// packet A { u8 x, }
// packet A { u8 x, }
, match
// " ++ [27880; 37322]%N ++ runes_of_ascii "
// a // b
o as x//x
{  ""a	b"" : u8x ,} ,  @rightPad () repeat
u packetx
,
    T // " ++ [27880; 37322]%N ++ runes_of_ascii "
,repeat
Logon ,	T{repeat
x_y_z , // a // b
i8 crc
`two words` ,
char[] calculatedFrom
    @calculatedFrom(""x y""
) , } , roots calculatedFrom,
@lengthOf(
asx)  repeat x_y_z{ T
matchKey, } , }
options { float
=char[1 ]
    ;
    msg_type // c
=i8 x =
//
// `tick` ""quote"" 'q'
zchar[ 7] ; f32a =""\n""}
")).
Eval vm_compute in ("<<<M1901>>>" ++ check (runes_of_ascii "packet charz {
    //	t
    repeat i64_,
    trueish {
        repeat _x,
        repeatCount,
        repeat u16 matchKey `
                `,
        // " ++ [128512]%N ++ runes_of_ascii " emoji
        // a // b
        matchKey @calculatedFrom(""a\""b"") `it's`,
    },
    @tag(007)
    @calculatedFrom(""a\\"")
    @tag(3)
    f32 f32a @lengthOf(asx) `crlf
        line`,
    repeat i8 string_,
    @lengthOf(Logon)
    @lengthOf(x_y_z)
    @lengthOf(zchar)
    repeat char[65535] Foo `" ++ [233]%N ++ runes_of_ascii "`,
    @calculatedFrom(""abc"")
    trueish @lengthOf(A),
    char[0] float,
    Packet @calculatedFrom(""a	b""),
}

MetaData Pad {
    char[00] leftPad,
    u8 rootA `
        `,
    //
    // " ++ [128512]%N ++ runes_of_ascii " emoji
    int32 a1 `say ""hi""`,
    Z9_ float,//x
    i32 Pad,
}")).
Eval vm_compute in ("<<<M154>>>" ++ check (runes_of_ascii "packet BodyLength
    // a // b
    {@rightPad (
'\x00' )
u8x/// triple
,  @tag(  007
) @calculatedFrom( ""packet""	) repeat  uint8x x_y_z, }
    MetaData A {
    // packet A { u8 x, }
    Z9_ // a // b
f32a ,
    zchar[ 255// a // b
]
    msg_type`say ""hi""` ,char[ 1	]Logon  `tab	here` ,//
}
packet uint8x {  @calculatedFrom(
""" ++ [28040; 24687]%N ++ runes_of_ascii """ )@tag(// `tick` ""quote"" 'q'
65535)	u32 int
@lengthOf( u8x )
`say ""hi""`
,	@leftPad ( ' ') stringy //
{
    string_ A ,
    char[ 4294967296
] i8i8 `" ++ [233]%N ++ runes_of_ascii "`	, char[]  Logon
,
string
x_y_z@lengthOf(	Packet ),
} , zchar[	4294967296 ]
int	`{ , }` , }
// trailing space 
// " ++ [27880; 37322]%N ++ runes_of_ascii "
packet u8x
    { }
// a // b
")).
Eval vm_compute in ("<<<M1751>>>" ++ check (runes_of_ascii "  options

    { LittleEndian= false
;  ArrayPrefixLenType =  u8;
	FixedStringPadFromLeft

    = 
true 
;
	FixedStringPadChar=	'0'
    ; }
	packet
Heartbeat	{

    string lastPx
, uint8
Qty
	,
    i64	Acct	,	char[
4 ]
Ref
    , }packet
Fill 
{uint8 Ref ,

Heartbeat

,	f32  OrderId
,
	repeat 
f32 
x ,} 
root
	packet
Order
	{	zchar[
2 
]	OrderId

,
	zchar[2

    ]

Acct
,zchar[	1	]

Note  , zchar[	9
]
Qty
,  string

price ,string
	tag7 ,

u32

    x , 
match x as	Body	{	123
:
	Fill  , 112
	:
Heartbeat
,}
, 
u32 
seqNo
	@calculatedFrom( ""CRC32""
	)
    , }
")).
Eval vm_compute in ("<<<M1324>>>" ++ check (runes_of_ascii "// top
root
    // c0
packet Frame
    // c2
{ u8
    // c4
K
    // c5
,
    // c6
Logon
    // c7
first
    // c8
, // c9
match // c10
K // c11a
  // c11b
as
    // c12
Body // c13a
  // c13b
{
    // c14
1 : Logon
    // c17
, // c18a
  // c18b
2
    // c19
: // c20a
  // c20b
Logout ,
    // c22
}
    // c23
, // c24a
  // c24b
} // c25a
  // c25b
packet Logon { string // c29a
  // c29b
user // c30
, // c31
} // c32
packet
    // c33
Logout
    // c34
{ u16 reason , // c38a
  // c38b
} // c39a
  // c39b
")).
Eval vm_compute in ("<<<M1578>>>" ++ check (runes_of_ascii "packet Logon {
    repeatCount {
        BodyLength `crlf
        line`,
    },
    zchar a1 `u8 x,`,
    match Foo as Foo {
        ""\n"" : i8i8,
        [""abc"", ""CRC32""] : crc,
        [
            3, ""x y"", 42, ""`tick`"", 1,
            ""a\""b"", ""CRC32"", 255
        ] : repeatCount,
        [
            1, 007, ""\n"", 007, 7,
            ""// no comment"", 255
        ] : uint8x,
        00 : f32a,
    },
    // a // b
    uint16 Pad @lengthOf(uint8x) `doc`,
}")).
Eval vm_compute in ("<<<M1193>>>" ++ check (runes_of_ascii "// top
MetaData
    // c0
uint8x // c1
{ char[]
    // c3
f32a // c4a
  // c4b
`// not a comment`
    // c5
, // c6a
  // c6b
float32 // c7
roots
    // c8
, // c9
char[ // c10a
  // c10b
7 // c11
] // c12
u8x // c13
, // c14a
  // c14b
zchar[
    // c15
10
    // c16
] // c17
f32a // c18
, // c19a
  // c19b
u64
    // c20
pack // c21a
  // c21b
, u16
    // c23
pack // c24a
  // c24b
,
    // c25
}
    // c26
")).
Eval vm_compute in ("<<<M1471>>>" ++ check (runes_of_ascii "packet crc {
    match trueish as len {
        42 : uint8x,
        // " ++ [128512]%N ++ runes_of_ascii " emoji
        ""1"" : asx,
        3 : body,
        [""1"", 0123456789] : u,
        ""packet"" : o,
    },
}

MetaData tag {
    string o `line1
        line2`,
    char[] Header `{ , }`,
    uint8x Z9_,
}

MetaData tag {
    i8 len,
}

options {
    // `tick` ""quote"" 'q'
    /// triple
    x = 10;
}")).
Eval vm_compute in ("<<<M1688>>>" ++ check (runes_of_ascii "
packet
A
{
u8
    a

    ,} packet
    B { 
u16

    b
	,	} 
packet	C 
{u32 c
    ,
    } root 
packet	M	{
u16 
Kc	,  u16
	Kb , u16 Ka
,	match
    Kc

    as
    X
{
    9

    :  A , 10: B
,  } ,  match
Kb 
as

    Y

    {	2
:
	C

,1

    :
A,}	, match

Ka
as
	Z { 
1 :B
,}

    ,	A  ,  B	,
C
    ,
} ")).
Eval vm_compute in ("<<<M1923>>>" ++ check (runes_of_ascii "packet zchar {
    @lengthOf(a1)
    i64_ @lengthOf(Header) `" ++ [28040; 24687; 31867; 22411]%N ++ runes_of_ascii "`,
    charz `" ++ [233]%N ++ runes_of_ascii "`,
    char[007] i64_,
    tag {
        u16 matchKey,
        match Pad as lengthOf {
            [""CRC32"", ""abc""] : Packet,
        },
    },
}

MetaData body {
    char[10] u128 `doc`,
    /// triple
    //x
}//x")).
Eval vm_compute in ("<<<M1250>>>" ++ check (runes_of_ascii "// top
packet
    // c0
Inner
    // c1
{ // c2a
  // c2b
u8
    // c3
a // c4a
  // c4b
, }
    // c6
root // c7
packet // c8
P // c9a
  // c9b
{
    // c10
Inner // c11a
  // c11b
ref_obj
    // c12
, // c13a
  // c13b
u8 x ,
    // c16
} // c17a
  // c17b
")).
Eval vm_compute in ("<<<M1928>>>" ++ check (runes_of_ascii "packet
roots {

    @calculatedFrom(

    ""a\\"" 
)
@lengthOf( packetx
) match repeatCount
	as  body  {	007
:lengthOf 
, 00:  // `tick` ""quote"" 'q'
zchar
    ,
} ,
	char[]
    chars `say ""hi""` ,
} MetaData
packetx
{  }

")).
Eval vm_compute in ("<<<M1501>>>" ++ check (runes_of_ascii "packet roots {
    @calculatedFrom(""a\\"")
    @lengthOf(packetx)
    match repeatCount as body {
        007 : lengthOf,
        00 : zchar,
    },
    char[] chars `say ""hi""`,
}

MetaData packetx {
}")).
Eval vm_compute in ("<<<M1786>>>" ++ check (runes_of_ascii "

  MetaData leftPad

    {chars
	MetaDataX
    ,
	} packet
repeatCount
{

    char[  255	]

    uint8x `" ++ [233]%N ++ runes_of_ascii "` , }MetaData

    pack
	{

As 
        // c

  Foo , }
")).
Eval vm_compute in ("<<<M355>>>" ++ check (runes_of_ascii "options  { As = true
    MetaDataX =true	}	packet A { repeat calculatedFrom `say ""hi""`
    ,} MetaData crc { u crc ,
    uint32 body , i16 stringy
`u8 x,`
, }
")).
Eval vm_compute in ("<<<M1608>>>" ++ check (runes_of_ascii "MetaData 
    // c
	  leftPad

{
    chars	MetaDataX 
,} packet repeatCount{

char[ 255 ]uint8x
    `" ++ [233]%N ++ runes_of_ascii "`
,	}

    MetaData
    pack
	{
	As

Foo ,
    }")).
Eval vm_compute in ("<<<M540>>>" ++ check (runes_of_ascii "packet uint8x
{ match pack
    as msg_type	{
    0123456789 :	float
}
,
} packet //	t
a1
    { } options " ++ [65279]%N ++ runes_of_ascii " {packetx
    = '\x00'	; u128= ""a	b""  ; }
")).
Eval vm_compute in ("<<<M437>>>" ++ check (runes_of_ascii "packet uint8x
{ match pack
    as msg_type	{
    0123456789 float	:
}
,
} packet //	t
a1
    { } options {packetx
    = '\x00'	; u128= ""a	b""  ; }
")).
Eval vm_compute in ("<<<M468>>>" ++ check (runes_of_ascii "packet uint8x
{ match pack
    as msg_type	{
    0123456789 :	float
}
,
} packet //	t
,
    { } options {packetx
    = '\x00'	; u128= ""a	b""  ; }
")).
Eval vm_compute in ("<<<M533>>>" ++ check (runes_of_ascii "packet uint8x
{ match pack
    as msg_type	{
    0123456789 :	float
}
,
} packet //	t
a1
    { } options {packetx
    = '\x00'	; u128= ""a	b""  ;")).
Eval vm_compute in ("<<<M711>>>" ++ check (runes_of_ascii "// @lengthOf(
packet i8i8 { u128 o , }
options { MetaDataX = true;
    BodyLength =""packet"" x_y_z= 007
""crc //x
= ""abc"" ;
    msg_type =
i16 }")).
Eval vm_compute in ("<<<M709>>>" ++ check (runes_of_ascii "// @lengthOf(
packet i8i8 { u128 o , }
options { MetaDataX = true;
    BodyLength =""packet"" x_y_z= 007
crc //x
= ""abc"" 
    msg_type =
i16 }")).
Eval vm_compute in ("<<<M716>>>" ++ check (runes_of_ascii "// @lengthOf(
packet i8i8 { u128 o , }
 { MetaDataX = true;
    BodyLength =""packet"" x_y_z= 007
crc //x
= ""abc"" ;
    msg_type =
i16 }")).
Eval vm_compute in ("<<<M1761>>>" ++ check (runes_of_ascii "packet A {
    match k as n {
        [
            ""a"", ""bb"", 007, ""d"", ""e"",
            66
        ] : B,
        2 : C,
    },
}")).
Eval vm_compute in ("<<<M1533>>>" ++ check (runes_of_ascii "options{

_x =
""`tick`"" 
; matchKey	=

    ""it's""

;

options1

    =

    u16	;
	stringy=
    true
	    // c

	}

")).
Eval vm_compute in ("<<<M1155>>>" ++ check (runes_of_ascii "MetaData leftPad { chars MetaDataX , } // c
packet repeatCount { char[ 255 ] uint8x `" ++ [233]%N ++ runes_of_ascii "` , } MetaData pack { As Foo , }")).
Eval vm_compute in ("<<<M1187>>>" ++ check (runes_of_ascii "MetaData leftPad { chars MetaDataX , } packet repeatCount { char[ 255 ] uint8x `" ++ [233]%N ++ runes_of_ascii "` , } MetaData pack { As Foo , // c
}")).
Eval vm_compute in ("<<<M1602>>>" ++ check (runes_of_ascii "packet Header {
    repeat char[0123456789] BodyLength `" ++ [28040; 24687; 31867; 22411]%N ++ runes_of_ascii "`,
    zchar[3] chars,// trailing space 
    A,
}//")).
Eval vm_compute in ("<<<M49>>>" ++ check (runes_of_ascii "options  { f32a = true;  metadata =""CRC32"" ;
body // " ++ [27880; 37322]%N ++ runes_of_ascii "
=
char ; A =
float64	;
} MetaData
    rootA { }")).
Eval vm_compute in ("<<<M671>>>" ++ check (runes_of_ascii "// @lengthOf(
packet i8i8 { u128 o , }
options { MetaDataX = true;
    BodyLength =""packet"" x_y_z= 0")).
Eval vm_compute in ("<<<M883>>>" ++ check (runes_of_ascii "packet A {
  match k as n {
    [1, ""bb"", 007, ""d"", 5, ""f"", 7, ""h"", 9, ""j""] : B
    2 : C
  },
}")).
Eval vm_compute in ("<<<M578>>>" ++ check (runes_of_ascii "
packet
    asx {match u128 as as lengthOf
{
//	t
// `tick` ""quote"" 'q'
255 : x ,
    } ,	}")).
Eval vm_compute in ("<<<M633>>>" ++ check (runes_of_ascii "
packet
    asx {match u128 as `lengthOf
{
//	t
// `tick` ""quote"" 'q'
255 : x ,
    } ,	}")).
Eval vm_compute in ("<<<M562>>>" ++ check (runes_of_ascii "
packet
    asx match u128 as lengthOf
{
//	t
// `tick` ""quote"" 'q'
255 : x ,
    } ,	}")).
Eval vm_compute in ("<<<M570>>>" ++ check (runes_of_ascii "
packet
    asx {{ u128 as lengthOf
{
//	t
// `tick` ""quote"" 'q'
255 : x ,
    } ,	}")).
Eval vm_compute in ("<<<M832>>>" ++ check (runes_of_ascii "packet A {
  match k as n {
    [""a"", 22, ""c c"", 4, ""e"", 66] : B,
    2 : C
  },
}")).
Eval vm_compute in ("<<<M1251>>>" ++ check (runes_of_ascii "packet
Inner
	{u8	a 
,
} root
	packet 
P
{ Inner	ref_obj,  u8	x
,

    }

")).
Eval vm_compute in ("<<<M1862>>>" ++ check (runes_of_ascii "packet A {
    @leftPad()
    char[4] x,
    @rightPad()
    zchar[2] y,
}")).
Eval vm_compute in ("<<<M877>>>" ++ check (runes_of_ascii "packet A { Inner { match k as n { [1,22,007,4,5,66,7,8,9] : B, }, }, }")).
Eval vm_compute in ("<<<M653>>>" ++ check (runes_of_ascii "// @lengthOf(
packet i8i8 { u128 o , }
options { MetaDataX = true")).
Eval vm_compute in ("<<<M314>>>" ++ check (runes_of_ascii "root packet string_{
char[] matchKey ,
} packet x {
    } 	 ")).
Eval vm_compute in ("<<<M767>>>" ++ check (runes_of_ascii "@rightPad char[] string u16 @tag( @lengthOf( as packet ,")).
Eval vm_compute in ("<<<M1200>>>" ++ check (runes_of_ascii "packet
// c
body { i32 f32a `{ , }` , } options { }")).
Eval vm_compute in ("<<<M375>>>" ++ check (runes_of_ascii "options {Foo = '0'	;	Pad = '0';	crc ='0' ; //	t
}")).
Eval vm_compute in ("<<<M763>>>" ++ check (runes_of_ascii "@calculatedFrom( true ; MetaData """ ++ [233]%N ++ runes_of_ascii "t" ++ [233]%N ++ runes_of_ascii """ match")).
Eval vm_compute in ("<<<M1854>>>" ++ check (runes_of_ascii "root packet A {
    u8 x `
        x`,
}")).
Eval vm_compute in ("<<<M54>>>" ++ check (runes_of_ascii "options
{ T= '0' ;A= u8 ;
    } 	 ")).
Eval vm_compute in ("<<<M959>>>" ++ check (runes_of_ascii "packet A {
    u8 x `tab
	x`,
}")).
Eval vm_compute in ("<<<M759>>>" ++ check (runes_of_ascii "= u64 ; u32 MetaData packet {")).
Eval vm_compute in ("<<<M1867>>>" ++ check (runes_of_ascii "// c x
    packet A { }

")).
Eval vm_compute in ("<<<M1105>>>" ++ check (runes_of_ascii "MetaData // c
tag { }")).
Eval vm_compute in ("<<<M1131>>>" ++ check (runes_of_ascii "MetaData
// c
u { }")).
Eval vm_compute in ("<<<M1022>>>" ++ check (runes_of_ascii "// c" ++ [8239]%N ++ runes_of_ascii "
packet A {
}")).
Eval vm_compute in ("<<<M1004>>>" ++ check (runes_of_ascii "packet A {
}// c" ++ [8202]%N)).
Eval vm_compute in ("<<<M566>>>" ++ check (runes_of_ascii "
packet
    asx")).
Eval vm_compute in ("<<<M1804>>>" ++ check (runes_of_ascii "// " ++ [27880; 37322]%N ++ runes_of_ascii "
 
")).
Eval vm_compute in ("<<<M765>>>" ++ check (runes_of_ascii "/" ++ [65533; 65533; 65533]%N)).
