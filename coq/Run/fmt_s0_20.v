From FP Require Import Lexer Parser ShowPT Digest Formatter.
From Coq Require Import String List NArith.
Import ListNotations.
Open Scope string_scope.
Set Printing Width 100000000.
Set Printing Depth 100000000.
Definition show_fres (r : fres) : string :=
  match r with
  | FOk s => "OK:" ++ sh_escaped s ""
  | FErr s => "ERR:" ++ sh_escaped s ""
  | FPanic p => "PANIC:" ++ p
  end.
Definition check (rs : list rune) : string := digest (show_fres (format_res rs)).
Definition full (rs : list rune) : string := show_fres (format_res rs).
Eval vm_compute in ("<<<M1586>>>" ++ check (runes_of_ascii "MetaData Logon {
    char[] u8x,
    matchKey pack,
    u8 int ``,
    char[007] msg_type,
    BodyLength o,
    string_ crc `a\`,
}

options {
    //x
    trueish = int16
    Packet = char
    MetaDataX = char[255];
}

root packet a1 {
}

root packet MetaDataX {
    @lengthOf(_x)
    repeat Logon {
        // " ++ [128512]%N ++ runes_of_ascii " emoji
        o a1,
        uint64 u128,
    },
    zchar[007] chars `line1
    line2`,
    repeat Header u128 `doc`,// " ++ [128512]%N ++ runes_of_ascii " emoji
    @calculatedFrom(""1"")
    int trueish,
    char[0123456789] uint8x,
    i8 int @lengthOf(msg_type) `line1
    line2`,
    //x
    @rightPad()
    repeat f64 Z9_,
    metadata {
        falsey @calculatedFrom(""abc""),
    },
    options1 @calculatedFrom(""\n""),
    @calculatedFrom(""\n"")
    match metadata as Header {
        ["""", ""1""] : Foo,
        [""\n"", 10, ""{,}""] : Logon,
        [""""] : len,
        ""\n"" : msg_type,
        [00] : trueish,
        10 : u8x,
    },
}// " ++ [27880; 37322]%N ++ runes_of_ascii "

root packet BodyLength {
    char[42] body @calculatedFrom(""{,}"") `tab	here`,
    i32 stringy @calculatedFrom(""" ++ [28040; 24687]%N ++ runes_of_ascii """),
    @tag(0123456789)
    @rightPad()
    @tag(00)
    i16 a1 @lengthOf(pack),
    @tag(10)
    @leftPad('\x00')
    // `tick` ""quote"" 'q'
    @calculatedFrom(""a\""b"")
    repeat char[] stringy `
    `,
    chars `say ""hi""`,
    @lengthOf(a1)
    @leftPad('0')
    match Z9_ as Header {
        00 : As,
    },
    o @calculatedFrom(""" ++ [128512]%N ++ runes_of_ascii """),
    @leftPad()
    As @calculatedFrom(""// no comment""),
    match x_y_z as BodyLength {
        ""x y"" : BodyLength,
        """ ++ [28040; 24687]%N ++ runes_of_ascii """ : packetx,
        0 : Header,
        ""x y"" : matchKey,
    },
}// trailing space ")).
Eval vm_compute in ("<<<M385>>>" ++ check (runes_of_ascii "options {
    StringPrefixLenType = u16;
    ArrayPrefixLenType = u16;
}

packet SampleBinary {
    uint16 MsgType `" ++ [28040; 24687; 31867; 22411]%N ++ runes_of_ascii "`,
    u16 BodyLenght @lengthOf(Body) `" ++ [28040; 24687; 20307; 38271; 24230]%N ++ runes_of_ascii "`,
    match MsgType as Body {
        1 : Logon,
        2 : Logout,
        3 : Heartbeat,
        4 : RiskControlRequest,
        5 : RiskControlResponse,
    },
    @calculatedFrom(""CRC32"")
    u32 Ckecksum `" ++ [26657; 39564; 21644]%N ++ runes_of_ascii "`,
}

packet Logon {
    @leftPad('0')
    char[10] UserName `" ++ [29992; 25143; 21517]%N ++ runes_of_ascii "`,
    string Password `" ++ [23494; 30721]%N ++ runes_of_ascii "`,
    uint64 ClientId `" ++ [23458; 25143; 31471]%N ++ runes_of_ascii "ID`,
    u16 HeartbeatInterval `" ++ [24515; 36339; 38388; 38548]%N ++ runes_of_ascii "`,
}

packet Logout {
    @rightPad('0')
    char[10] UserName `" ++ [29992; 25143; 21517]%N ++ runes_of_ascii "`,
    uint64 ClientId `" ++ [23458; 25143; 31471]%N ++ runes_of_ascii "ID`,
}

packet Heartbeat {
}

packet RiskControlRequest {
    string UniqueOrderId `" ++ [21807; 19968; 35746; 21333; 21495]%N ++ runes_of_ascii "`,
    char[16] ClOrdID `" ++ [23458; 25143; 35746; 21333; 21495]%N ++ runes_of_ascii "`,
    char[3] MarketID `" ++ [24066; 22330]%N ++ runes_of_ascii "id`,
    char[12] SecurityID `" ++ [35777; 21048; 20195; 30721]%N ++ runes_of_ascii "`,
    char Side `" ++ [20080; 21334; 26041; 21521]%N ++ runes_of_ascii "`,
    char OrderType `" ++ [35746; 21333; 31867; 22411]%N ++ runes_of_ascii "`,
    u64 Price `" ++ [20215; 26684]%N ++ runes_of_ascii "`,
    u32 Qty `" ++ [25968; 37327]%N ++ runes_of_ascii "`,
    repeat string ExtraInfo `" ++ [38468; 21152; 20449; 24687]%N ++ runes_of_ascii "`,
    repeat SubOrder {
        char[16] ClOrdID `" ++ [23376; 35746; 21333; 21495]%N ++ runes_of_ascii "`,
        u64 Price `" ++ [23376; 35746; 21333; 20215; 26684]%N ++ runes_of_ascii "`,
        u32 Qty `" ++ [23376; 35746; 21333; 25968; 37327]%N ++ runes_of_ascii "`,
    },
}

packet RiskControlResponse {
    string UniqueOrderId `" ++ [21807; 19968; 35746; 21333; 21495]%N ++ runes_of_ascii "`,
    i32 Status `" ++ [29366; 24577]%N ++ runes_of_ascii "`,
    string Msg `" ++ [32467; 26524; 20449; 24687]%N ++ runes_of_ascii "`,
    repeat Detail,
}

packet Detail {
    string RuleName `" ++ [35268; 21017; 21517; 31216]%N ++ runes_of_ascii "`,
    u16 Code `" ++ [21407; 22240; 20195; 30721]%N ++ runes_of_ascii "`,
}")).
Eval vm_compute in ("<<<M1461>>>" ++ check (runes_of_ascii "packet falsey {
    i64_,
    charz {
        match Packet as Pad {
            ""\n"" : Packet,
            ""// no comment"" : f32a,
            [
                3, 4294967296, 10,
                7, 10
            ] : u,
            // trailing space 
            ""`tick`"" : u8x,
            [7, ""it's""] : Packet,
            0 : len,
        },
    },/// triple
    @lengthOf(f32a)
    char[3] options1 @lengthOf(Pad),
    zchar[0123456789] T ``,
}

packet Pad {
    // c
    o roots `{ , }`,
}

packet f32a {
    _x @calculatedFrom(""x y""),
    @tag(65535)
    //	t
    char pack @lengthOf(zchar),
    repeat int64 falsey,
    repeat len {
        match A as rootA {
            [42, ""\n""] : Z9_,
        },
        repeat i16 A,
        repeat zchar[65535] tag `
                `,
        f64 float @lengthOf(f32a) ``,
        // `tick` ""quote"" 'q'
        // packet A { u8 x, }
    },
    x u8x,
    @tag(42)
    repeat As Packet,
    @lengthOf(Pad)
    repeat f64 rootA,// @lengthOf(
}")).
Eval vm_compute in ("<<<M1887>>>" ++ check (runes_of_ascii "packet crc {
    @tag(0)
    @calculatedFrom(""{,}"")
    @rightPad(' ')
    repeat uint8 lengthOf,
    char[42] float,
    repeat a1 {
        match x_y_z as charz {
            [
                00, 4294967296,
                ""it's"", """ ++ [28040; 24687]%N ++ runes_of_ascii """
            ] : zchar,
            [
                ""packet"", ""x y"", ""it's"",
                ""abc"", ""it's""
            ] : string_,
            0 : Z9_,
        },// `tick` ""quote"" 'q'
    },
    match u8x as pack {
        [0123456789, ""x y""] : trueish,
    },
    @calculatedFrom(""a\""b"")
    repeat string_ `a\`,
    packetx @calculatedFrom(""`tick`""),
    int64 chars `say ""hi""`,
    @calculatedFrom(""a	b"")
    @leftPad('\x00')
    @lengthOf(repeatCount)
    u64 falsey @calculatedFrom(""\" ++ [233]%N ++ runes_of_ascii """),
    repeat Header {
        repeat metadata,
        char[] chars `" ++ [28040; 24687; 31867; 22411]%N ++ runes_of_ascii "`,
        zchar[10] x_y_z `a\`,
    },
    // trailing space 
    // c
}")).
Eval vm_compute in ("<<<M209>>>" ++ check (runes_of_ascii "packet calculatedFrom { // a // b
string charz
`two words`
//	t
//x
, } packet stringy {
@lengthOf(msg_type
)	crc
    // " ++ [128512]%N ++ runes_of_ascii " emoji
    , @leftPad
(	'0')crc @lengthOf(
u128 //	t
) ,@leftPad(
    ' '
)match
x_y_z as
rootA { [// @lengthOf(
3 ,255 ] : int
    ""1"": o ,// a // b
10:tag
, // c
10// " ++ [128512]%N ++ runes_of_ascii " emoji
: Header
    ,3 :
a1,""" ++ [128512]%N ++ runes_of_ascii """ :
packetx
    , }
// packet A { u8 x, }
// packet A { u8 x, }
, match
// " ++ [27880; 37322]%N ++ runes_of_ascii "
// a // b
o as x//x
{  ""a	b"" : u8x ,} ,  @rightPad () repeat
u packetx
,
    T // " ++ [27880; 37322]%N ++ runes_of_ascii "
,repeat
Logon ,	T{repeat
x_y_z , // a // b
i8 crc
`two words` ,
char[] calculatedFrom
    @calculatedFrom(""x y""
) , } , roots calculatedFrom,
@lengthOf(
asx)  repeat x_y_z{ T
matchKey, } , }
options { float
=char[1 ]
    ;
    msg_type // c
=i8 x =
//
// `tick` ""quote"" 'q'
zchar[ 7] ; f32a =""\n""}
")).
Eval vm_compute in ("<<<M1799>>>" ++ check (runes_of_ascii "root packet asx {
    // `tick` ""quote"" 'q'
    f32a,
    @calculatedFrom(""abc"")
    zchar[65535] metadata `
    `,
    @calculatedFrom(""CRC32"")
    Header `doc`,
    match f32a as msg_type {
        [""\n""] : charz,
        // @lengthOf(
        0123456789 : pack,
        //x
        [
            ""packet"", """", ""`tick`"", ""CRC32"", ""\n"",
            ""it's"", ""it's"", 4294967296
        ] : charz,
        42 : leftPad,
        [
            255, 7, ""packet"", ""{,}"", ""\" ++ [233]%N ++ runes_of_ascii """,
            ""1"", ""1""
        ] : msg_type,
        [""" ++ [128512]%N ++ runes_of_ascii """] : i64_,
    },
}

packet body {
}

root packet i64_ {
    uint16 Header @calculatedFrom(""" ++ [233]%N ++ runes_of_ascii "t" ++ [233]%N ++ runes_of_ascii """) ``,
    float64 string_ @calculatedFrom(""`tick`""),
    repeat zchar[1] packetx `it's`,
}//	t")).
Eval vm_compute in ("<<<M1693>>>" ++ check (runes_of_ascii "

  root// c
  packet 
asx{ @rightPad(
' ' )  @lengthOf( int )  @tag(

0
	) 
u64

uint8x 
@calculatedFrom(

    ""packet"" ),
uint32

i64_ ,
// c
	repeat options1 o, 
match	f32a as/// triple
	falsey // " ++ [27880; 37322]%N ++ runes_of_ascii "
{ 
42 : 
stringy 10
	:As  ,	""""
:  Packet
	,
	}
    , @calculatedFrom( ""it's"" ) 	 // " ++ [128512]%N ++ runes_of_ascii " emoji
    f64
a1
	,@lengthOf( 
tag
	)  match 
roots  as  MetaDataX {	""" ++ [128512]%N ++ runes_of_ascii """

:
    f32a
    ,

    ""\n""	:

    As
	[
	255 ]

:
A

    ,}
	,a1

@calculatedFrom(
	""abc""
)  ``,@rightPad	(	)@rightPad (

    '\x00' ) @calculatedFrom(
""CRC32""
	)body 
As  ,
} root

packet
packetx {
	    //x
//
repeat
lengthOf 
Logon  `" ++ [28040; 24687; 31867; 22411]%N ++ runes_of_ascii "`
	,	//	t
      } ")).
Eval vm_compute in ("<<<M1114>>>" ++ check (runes_of_ascii "// top
packet
    // c0
float
    // c1
{
    // c2
@rightPad
    // c3
(
    // c4
)
    // c5
rootA
    // c6
@lengthOf(
    // c7
trueish
    // c8
)
    // c9
,
    // c10
stringy
    // c11
@lengthOf(
    // c12
matchKey
    // c13
)
    // c14
,
    // c15
char[
    // c16
4294967296
    // c17
]
    // c18
pack
    // c19
@lengthOf(
    // c20
uint8x
    // c21
)
    // c22
,
    // c23
}
    // c24
root
    // c25
packet
    // c26
trueish
    // c27
{
    // c28
repeat
    // c29
uint64
    // c30
u128
    // c31
`line1
line2`
    // c32
,
    // c33
}
    // c34
")).
Eval vm_compute in ("<<<M1674>>>" ++ check (runes_of_ascii "
MetaData

falsey {	} 
root
	packet  // `tick` ""quote"" 'q'
o 
{ @tag( 3 // " ++ [128512]%N ++ runes_of_ascii " emoji
	)@calculatedFrom(

""""

)
    @lengthOf( pack
    )char[65535 ] 
falsey @lengthOf( falsey )  ,

}

    root

packet  roots
    {  @lengthOf(  chars )
match

    Logon
as chars	{
""`tick`"": 
charz  
  // packet A { u8 x, }
""a\\"" :

Z9_

007
	:
trueish
""CRC32""
:
	msg_type
	,  [ 3 , 3 // `tick` ""quote"" 'q'
      ,	00 ,	4294967296 ,

0 ,	7
, //
  ""x y""

,""\" ++ [233]%N ++ runes_of_ascii """ 
    //	t
	] 
:  metadata

    ,
""a	b""
//x
  // " ++ [27880; 37322]%N ++ runes_of_ascii "
: crc}
	, }")).
Eval vm_compute in ("<<<M1235>>>" ++ check (runes_of_ascii "// top
options
    // c0
{
    // c1
f32a
    // c2
=
    // c3
0
    // c4
}
    // c5
packet
    // c6
trueish
    // c7
{
    // c8
}
    // c9
MetaData
    // c10
_x
    // c11
{
    // c12
char[
    // c13
0123456789
    // c14
]
    // c15
zchar
    // c16
,
    // c17
string
    // c18
crc
    // c19
,
    // c20
char[
    // c21
1
    // c22
]
    // c23
options1
    // c24
,
    // c25
uint8
    // c26
repeatCount
    // c27
,
    // c28
}
    // c29
")).
Eval vm_compute in ("<<<M68>>>" ++ check (runes_of_ascii "
packet
    Header {  match roots  as packetx
// " ++ [27880; 37322]%N ++ runes_of_ascii "
//	t
{
    // `tick` ""quote"" 'q'
    [
""" ++ [28040; 24687]%N ++ runes_of_ascii """ ,
    0123456789 ]:packetx,
//
// c
4294967296
    : Logon ,	[ ""\n""
    ,""x y"" , // " ++ [128512]%N ++ runes_of_ascii " emoji
""packet"" , ""packet"" ] : i8i8 , 42 // `tick` ""quote"" 'q'
:Foo
    ,
}, //	t
@calculatedFrom( ""x y""	) f64 Logon ,} options
    {
    // " ++ [128512]%N ++ runes_of_ascii " emoji
    chars=
' '
    ; repeatCount =
""" ++ [233]%N ++ runes_of_ascii "t" ++ [233]%N ++ runes_of_ascii """ x	= ""\n"" ; calculatedFrom = ""`tick`"" //x
; }
")).
Eval vm_compute in ("<<<M1262>>>" ++ check (runes_of_ascii "// top
packet // c0
B // c1
{
    // c2
u8
    // c3
a , } root packet // c8a
  // c8b
P // c9a
  // c9b
{
    // c10
u8 // c11
K , // c13
u64 // c14a
  // c14b
L @lengthOf( // c16a
  // c16b
Body
    // c17
) , match // c20a
  // c20b
K as // c22a
  // c22b
Body // c23
{ // c24a
  // c24b
1 : // c26a
  // c26b
B // c27a
  // c27b
,
    // c28
} // c29
, // c30
}
    // c31
")).
Eval vm_compute in ("<<<M178>>>" ++ check (runes_of_ascii "packet // c
As
{@tag( 42
    )
    repeat Logon	uint8x
// " ++ [128512]%N ++ runes_of_ascii " emoji
//
``, repeat int32
    x_y_z ,char[7 // trailing space 
]	pack , repeat string crc
/// triple
// c
`// not a comment`
, @calculatedFrom(
    ""`tick`""
    ) @tag( 1 )match
    // @lengthOf(
    chars as
MetaDataX { 4294967296 : // @lengthOf(
T ,
} /// triple
,
}
")).
Eval vm_compute in ("<<<M1277>>>" ++ check (runes_of_ascii "// top
options
    // c0
{
    // c1
LittleEndian // c2
=
    // c3
true
    // c4
;
    // c5
}
    // c6
root // c7a
  // c7b
packet P // c9a
  // c9b
{ u16
    // c11
a // c12
, // c13
u32 // c14a
  // c14b
Sum
    // c15
@calculatedFrom( ""CRC32"" ) // c18a
  // c18b
,
    // c19
} // c20a
  // c20b
")).
Eval vm_compute in ("<<<M1888>>>" ++ check (runes_of_ascii "

  options

{ 
LittleEndian	// c2a
    // c2b
= // c3
  true 
  // c4

;

    } root 
// c7
		packet	P  // c9a
  // c9b
    {

repeat
	char	// c12a
// c12b

cs 	 // c13a
	// c13b
	, // c14a

  // c14b
  u8
    // c15

x
    // c16
, 	 // c17
	  } 

    // c18
")).
Eval vm_compute in ("<<<M1886>>>" ++ check (runes_of_ascii "// top
options {
    // c1
    f32a = 0// c4
}// c5

packet trueish {
    // c8
}// c9

MetaData _x {
    // c12
    char[0123456789] zchar,// c17
    string crc,// c20
    char[1] options1,// c25
    uint8 repeatCount,// c28
}// c29")).
Eval vm_compute in ("<<<M1326>>>" ++ check (runes_of_ascii "packet Logon {
    string user,
}
root packet Frame {
    u8 K,
    match K as Body {
        1 : Logon,
        2 : Logout,
    },
    Tail,
}
packet Logout {
    u16 reason,
}
packet Tail {
    u32 crc,
}
")).
Eval vm_compute in ("<<<M9>>>" ++ check (runes_of_ascii "
options {body = """ ++ [28040; 24687]%N ++ runes_of_ascii """ }	packet matchKey
{string_
// packet A { u8 x, }
// a // b
@lengthOf( f32a) ,	int32 int @lengthOf(u128 )	, tag x_y_z ,}packet BodyLength /// triple
{ }")).
Eval vm_compute in ("<<<M431>>>" ++ check (runes_of_ascii "packet uint8x
{ match pack
    as msg_type	{
    0123456789 0123456789 :	float
}
,
} packet //	t
a1
    { } options {packetx
    = '\x00'	; u128= ""a	b""  ; }
")).
Eval vm_compute in ("<<<M411>>>" ++ check (runes_of_ascii "packet uint8x
{ match pack pack
    as msg_type	{
    0123456789 :	float
}
,
} packet //	t
a1
    { } options {packetx
    = '\x00'	; u128= ""a	b""  ; }
")).
Eval vm_compute in ("<<<M451>>>" ++ check (runes_of_ascii "packet uint8x
{ match pack
    as msg_type	{
    0123456789 :	float
}
, ,
} packet //	t
a1
    { } options {packetx
    = '\x00'	; u128= ""a	b""  ; }
")).
Eval vm_compute in ("<<<M275>>>" ++ check (runes_of_ascii "MetaData
stringy { zchar[10 ] crc,  }
    packet u128
{ repeat uint16  BodyLength `// not a comment`, @lengthOf( falsey ) _x ,
char[ 42 ]  i8i8	, }

")).
Eval vm_compute in ("<<<M532>>>" ++ check (runes_of_ascii "packet uint8x
{ match pack
    as msg_type	{
    0123456789 :	float
}
,
} packet //	t
a1
    { } options {packetx
    = '\x00'	; u128= ""a	b""  ; )
")).
Eval vm_compute in ("<<<M1818>>>" ++ check (runes_of_ascii "

  MetaData
repeatCount 	 // c

{char[ 
42	// " ++ [27880; 37322]%N ++ runes_of_ascii "

	] 
	    // " ++ [128512]%N ++ runes_of_ascii " emoji
	MetaDataX , 
    // @lengthOf(
    	zchar[ 
// " ++ [27880; 37322]%N ++ runes_of_ascii "
//x
  0 ]
    asx ,}

")).
Eval vm_compute in ("<<<M391>>>" ++ check (runes_of_ascii " uint8x
{ match pack
    as msg_type	{
    0123456789 :	float
}
,
} packet //	t
a1
    { } options {packetx
    = '\x00'	; u128= ""a	b""  ; }
")).
Eval vm_compute in ("<<<M1288>>>" ++ check (runes_of_ascii "// top
root
    // c0
packet P
    // c2
{ // c3a
  // c3b
repeat // c4
string // c5
ss , // c7
repeat u16 ns ,
    // c11
} // c12a
  // c12b
")).
Eval vm_compute in ("<<<M329>>>" ++ check (runes_of_ascii "  packet calculatedFrom
{ uint8x {body `line1
line2`
, string crc
@lengthOf(uint8x// " ++ [128512]%N ++ runes_of_ascii " emoji
) , char[]As@lengthOf(	Pad )
    , } , }
")).
Eval vm_compute in ("<<<M1753>>>" ++ check (runes_of_ascii "packet	A

    {match 
k  as n
{  [ 1

    ,
	""bb""
	,	007 ,""d"" 
,	5
,""f""

,
7
,
    ""h""
,
9

, ""j""

    ] :  B
	2 :

C
} ,}
")).
Eval vm_compute in ("<<<M343>>>" ++ check (runes_of_ascii "packet Header { repeat char[  0123456789 ]BodyLength`" ++ [28040; 24687; 31867; 22411]%N ++ runes_of_ascii "`/// triple
, zchar[ 3
    ] chars
    ,// trailing space 
A, } //")).
Eval vm_compute in ("<<<M1149>>>" ++ check (runes_of_ascii "MetaData leftPad { chars // c
MetaDataX , } packet repeatCount { char[ 255 ] uint8x `" ++ [233]%N ++ runes_of_ascii "` , } MetaData pack { As Foo , }")).
Eval vm_compute in ("<<<M1181>>>" ++ check (runes_of_ascii "MetaData leftPad { chars MetaDataX , } packet repeatCount { char[ 255 ] uint8x `" ++ [233]%N ++ runes_of_ascii "` , } MetaData pack { // c
As Foo , }")).
Eval vm_compute in ("<<<M346>>>" ++ check (runes_of_ascii "MetaData chars {
x_y_z
/// triple
/// triple
x
    `line1
line2` ,_x A`// not a comment`,	} // `tick` ""quote"" 'q'")).
Eval vm_compute in ("<<<M881>>>" ++ check (runes_of_ascii "packet A {
  match k as n {
    [""a"", ""bb"", ""c c"", ""d"", ""e"", ""f"", ""g"", ""h"", ""i"", ""j""] : B
    2 : C
  },
}")).
Eval vm_compute in ("<<<M1521>>>" ++ check (runes_of_ascii "packet

    A
	{ match k
as n

{
[
""a"" 
,22 ,

""c c""
,
4  , ""e"" 
,
    66]:	B 2 
:C
    }
    ,}
")).
Eval vm_compute in ("<<<M875>>>" ++ check (runes_of_ascii "packet A {
  match k as n {
    [""a"", ""bb"", 007, ""d"", ""e"", 66, ""g"", ""h"", 9] : B,
    2 : C
  },
}")).
Eval vm_compute in ("<<<M565>>>" ++ check (runes_of_ascii "
packet
    asx true match u128 as lengthOf
{
//	t
// `tick` ""quote"" 'q'
255 : x ,
    } ,	}")).
Eval vm_compute in ("<<<M682>>>" ++ check (runes_of_ascii "// @lengthOf(
packet i8i8 { u128 o , }
options { MetaDataX = true;
    BodyLength =""packet""")).
Eval vm_compute in ("<<<M614>>>" ++ check (runes_of_ascii "
packet
    asx {match u128 as lengthOf
{
//	t
// `tick` ""quote"" 'q'
255 : x ,
    , }	}")).
Eval vm_compute in ("<<<M557>>>" ++ check (runes_of_ascii "
packet
     {match u128 as lengthOf
{
//	t
// `tick` ""quote"" 'q'
255 : x ,
    } ,	}")).
Eval vm_compute in ("<<<M647>>>" ++ check (runes_of_ascii "// @lengthOf(
packet i8i8 { u128 o , }
options { MetaDataX = true;
    BodyLength =")).
Eval vm_compute in ("<<<M1252>>>" ++ check (runes_of_ascii "packet Inner {
    u8 a,
}
root packet P {
    repeat Inner items,
    u8 x,
}
")).
Eval vm_compute in ("<<<M1484>>>" ++ check (runes_of_ascii "packet roots {
}

MetaData metadata {
    asx matchKey,
    uint64 rootA,
}")).
Eval vm_compute in ("<<<M454>>>" ++ check (runes_of_ascii "packet uint8x
{ match pack
    as msg_type	{
    0123456789 :	float
}")).
Eval vm_compute in ("<<<M924>>>" ++ check (runes_of_ascii "packet A {
    B b `a
b`,
    B `a
b`,
    repeat B bs `a
b`,
}")).
Eval vm_compute in ("<<<M204>>>" ++ check (runes_of_ascii "  options {// " ++ [128512]%N ++ runes_of_ascii " emoji
Packet =// `tick` ""quote"" 'q'
char[3 ]}")).
Eval vm_compute in ("<<<M773>>>" ++ check (runes_of_ascii "packet A {
  match k as n {
    [1] : B,
    2 : C
  },
}")).
Eval vm_compute in ("<<<M159>>>" ++ check (runes_of_ascii "root packet x  { roots @calculatedFrom(""a\""b"" ) , }")).
Eval vm_compute in ("<<<M1907>>>" ++ check (runes_of_ascii "  options
{ a
    =

1 // c
	b =2 ; 	 // d
    }
")).
Eval vm_compute in ("<<<M755>>>" ++ check (runes_of_ascii "string i8 ) } u8 [ uint32 ] } = uint8 '\x00'")).
Eval vm_compute in ("<<<M1410>>>" ++ check (runes_of_ascii "  MetaData

    u{ 
        // c

	}

")).
Eval vm_compute in ("<<<M132>>>" ++ check (runes_of_ascii "options
    { Foo = 0123456789
; }")).
Eval vm_compute in ("<<<M753>>>" ++ check (runes_of_ascii ":l" ++ [65533; 23]%N ++ runes_of_ascii "9" ++ [65533; 1549]%N ++ runes_of_ascii "F" ++ [65533; 65533; 65533; 65533]%N ++ runes_of_ascii "j)" ++ [65533; 65533; 27; 25; 65533; 65533; 261; 14; 65533]%N ++ runes_of_ascii "V" ++ [65533; 65533]%N ++ runes_of_ascii "4b-" ++ [65533; 65533]%N)).
Eval vm_compute in ("<<<M1689>>>" ++ check (runes_of_ascii "

  MetaData 
// c
u
    { } ")).
Eval vm_compute in ("<<<M713>>>" ++ check (runes_of_ascii "// @lengthOf(
packet i8i8")).
Eval vm_compute in ("<<<M1069>>>" ++ check (runes_of_ascii "// a// bpacket A {}")).
Eval vm_compute in ("<<<M1042>>>" ++ check (runes_of_ascii "// c 	
packet A {
}")).
Eval vm_compute in ("<<<M1011>>>" ++ check (runes_of_ascii "packet A {
}
// c" ++ [8232]%N)).
Eval vm_compute in ("<<<M984>>>" ++ check (runes_of_ascii "packet A {
}// c" ++ [160]%N)).
Eval vm_compute in ("<<<M46>>>" ++ check (runes_of_ascii "//x

// a // b
")).
Eval vm_compute in ("<<<M29>>>" ++ check (runes_of_ascii "// " ++ [27880; 37322]%N ++ runes_of_ascii "

")).
Eval vm_compute in ("<<<M1649>>>" ++ check (runes_of_ascii "
//
")).
