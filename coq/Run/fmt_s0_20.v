From FP Require Import Lexer Parser ShowPT Digest Formatter.
From Coq Require Import String List NArith.
Import ListNotations.
Open Scope string_scope.
Set Printing Width 100000000.
Set Printing Depth 100000000.
Definition show_fres (r : fres) : string :=
  match r with
  | FOk s => "OK:" ++ sh_escaped s ""
  | FErr s => "ERR:" ++ sh_escaped s ""
  | FPanic p => "PANIC:" ++ p
  end.
Definition check (rs : list rune) : string := digest (show_fres (format_res rs)).
Definition full (rs : list rune) : string := show_fres (format_res rs).
Eval vm_compute in ("<<<M1960>>>" ++ check (runes_of_ascii "//	t

packet 
MetaDataX

{@leftPad(  )
repeat

    float64 
asx 
, } MetaData 
Foo
{  // a // b
	char[
65535
	]Pad , }
    packet body  // 50% %s
{

    match 
asx	as
    charz
{  // `tick` ""quote"" 'q'
	  10
: u8x	,

    ""it's""
    : 
leftPad

    , 3
: metadata 
        // trailing space 
    //x
  	, ""it's""
    : x, [ 65535 ,  """ ++ [233]%N ++ runes_of_ascii "t" ++ [233]%N ++ runes_of_ascii """
]
	:
    u128  ,
    10

:	// @lengthOf(

len
	},repeat
f32  rootA
	``

    , // 50% %s
  @leftPad( 

//
  ' '
    )

repeat

    i64  BodyLength // c
  , repeatCount

    {
i16  crc
@lengthOf(	u128

)  ,
    }
    ,
u16  // " ++ [27880; 37322]%N ++ runes_of_ascii "
	  u  @lengthOf( f32a

    ) 
`// not a comment` , // trailing space 
  len
{

match
    Logon
as // @lengthOf(
      Foo
	{""" ++ [233]%N ++ runes_of_ascii "t" ++ [233]%N ++ runes_of_ascii """
	: stringy

    ,
10 :msg_type ,  //	t
	[
""\n""
,""`tick`""
,
""abc""

,""""  ,  007  ,  1 
,	""a\""b""
	]  :
i64_ 	 // packet A { u8 x, }

  ,255  
  //x
    : T
    ,

""{,}"":
f32a
    },

string

    tag @lengthOf(Z9_ ), 
  // a // b
u32 charz
    `crlf
line`	,
u8x @lengthOf( 	 /// triple
      rootA
    )
,}, float
	,
int8  repeatCount
@lengthOf(f32a

)
`crlf
line`

    ,
    zchar[
    // packet A { u8 x, }
      7  // a // b
	]
    BodyLength 
@lengthOf(  string_  // a // b

)	,

    } 
packet u128  {	x  `// not a comment`,
}//

packet

x { 
A`doc`

    ,
	Packet 
@calculatedFrom(	// `tick` ""quote"" 'q'
    ""\" ++ [233]%N ++ runes_of_ascii """
    )

`say ""hi""` , repeat  string
asx 
, @lengthOf(

MetaDataX

)
	repeat char[4294967296  //
		] 
string_	`u8 x,`

,
@lengthOf( charz ) char[

    0123456789
	]
	f32a
    `say ""hi""`
,  }

")).
Eval vm_compute in ("<<<M258>>>" ++ check (runes_of_ascii "packet
Packet { @rightPad (  )
match calculatedFrom
    as zchar {""abc"" : leftPad ,  0123456789:
    BodyLength , ""// no comment"":	Packet } , @tag(
    0123456789
)
    zchar[ 0]
    _x @lengthOf(
u128 ) ,
    @calculatedFrom( ""`tick`""
)	options1 {
// a // b
// trailing space 
zchar @calculatedFrom(""CRC32""
) ,
i64
A
@lengthOf(string_ )// " ++ [128512]%N ++ runes_of_ascii " emoji
`two words` , float
// @lengthOf(
// trailing space 
@calculatedFrom(
// c
// trailing space 
""{,}"" ) `crlf
line` ,
repeat char[ 00/// triple
]
_x , } ,
    @leftPad( ' '
) char[	255
] options1 ,  @tag( 0123456789
)repeat MetaDataX { //
BodyLength { As , } , o `say ""hi""`
    ,
match asx //x
as string_{ ""a	b"" :Logon ,// `tick` ""quote"" 'q'
}, } ,	@rightPad	( // `tick` ""quote"" 'q'
) match  o as T//
{ 007
    :
    body	, 10 :o 10 : i8i8	, } , @rightPad ( '0'	)@rightPad (  '\x00' )
    @leftPad ( '\x00' ) int8 tag `" ++ [28040; 24687; 31867; 22411]%N ++ runes_of_ascii "`
, i64 falsey, @lengthOf( u8x )
    repeat Packet	{ char[] x_y_z , repeat
    f32 Packet ,crc @lengthOf( Foo )// a // b
, } // 50% %s
,//	t
@calculatedFrom(	""{,}"" )
    // a // b
    @lengthOf(metadata ) @lengthOf( i8i8  ) // `tick` ""quote"" 'q'
int64	options1 @calculatedFrom(""CRC32"" /// triple
)	`say ""hi""`
    ,
    }
")).
Eval vm_compute in ("<<<M1746>>>" ++ check (runes_of_ascii "packet rootA {
    // a // b
    // " ++ [128512]%N ++ runes_of_ascii " emoji
    @tag(00)
    match i8i8 as f32a {
        0 : u8x,
        [""a\\""] : BodyLength,
        [""{,}""] : body,
        4294967296 : options1,
        // c
        ""CRC32"" : A,
    },
    Logon @lengthOf(T),
    @lengthOf(stringy)
    char[0123456789] zchar,
    zchar[1] i8i8 `it's`,
    @calculatedFrom(""1"")
    // `tick` ""quote"" 'q'
    repeat zchar[42] A `u8 x,`,
    i16 A @calculatedFrom(""packet""),/// triple
    @lengthOf(MetaDataX)
    match falsey as repeatCount {
        0123456789 : T,
    },
    @leftPad( // " ++ [27880; 37322]%N ++ runes_of_ascii "
    '\x00' )
    @rightPad( '0'
    )
    @tag(0)
    repeat len {
        trueish rootA `" ++ [28040; 24687; 31867; 22411]%N ++ runes_of_ascii "`,
        char[7] repeatCount @calculatedFrom(""// no comment""),
        string_ @calculatedFrom(""it's""),
    },
    repeat Header `say ""hi""`,
    //x
    //x
    match packetx as Packet {
        [""`tick`""] : asx,
        7 : asx,
        [""a\\""] : float,
        ""packet"" : lengthOf,
        ""x y"" : len,
    },
}")).
Eval vm_compute in ("<<<M1349>>>" ++ check (runes_of_ascii "options {
    LittleEndian = false;
    FixedStringPadChar = ' ';
}
packet Fill {
    InFlags6 {
        repeat u64 count,
    },
    char[8] price,
    repeat char[2] lastPx,
    char[] count,
}
packet Quote {
    char[] Qty,
    int32 sym,
    zchar[9] Flags,
    int8 tag7,
    char[7] count,
}
packet Cancel {
    string Acct,
    @rightPad('\x00') char[2] Note,
    zchar[5] Side2,
}
packet Trade {
    repeat Quote,
    Fill,
    repeat i64 Side2,
    uint16 Tail,
    zchar[7] OrderId,
}
root packet Party {
    repeat InLastpx79 {
        char[12] Px,
        int8 Tail,
    },
    f32 count,
    repeat u8 Note,
    Trade,
    f64 venue,
    @rightPad('\x00') char[11] tag7,
    u16 Px,
    u32 Side2 @lengthOf(Body),
    match Px as Body {
        [48, 188] : Fill,
        190 : Trade,
        160 : Quote,
        85 : Cancel,
    },
}
")).
Eval vm_compute in ("<<<M1326>>>" ++ check (runes_of_ascii "packet MDSnapshotZZ // c1a
  // c1b
{ // c2
u8
    // c3
a , // c5a
  // c5b
} // c6a
  // c6b
packet OrderACK
    // c8
{ // c9a
  // c9b
u16 // c10a
  // c10b
b
    // c11
, // c12a
  // c12b
} // c13a
  // c13b
packet HTTPServerInfo // c15
{ string
    // c17
s // c18a
  // c18b
,
    // c19
} root packet // c22
FIXMsg // c23
{ // c24a
  // c24b
u8 // c25
KType
    // c26
, // c27
MDSnapshotZZ // c28
, // c29a
  // c29b
repeat // c30a
  // c30b
OrderACK // c31a
  // c31b
, // c32
match // c33a
  // c33b
KType // c34a
  // c34b
as Body // c36
{ // c37a
  // c37b
1
    // c38
: // c39
HTTPServerInfo
    // c40
,
    // c41
2
    // c42
: // c43
OrderACK
    // c44
, }
    // c46
, // c47a
  // c47b
} // c48
")).
Eval vm_compute in ("<<<M78>>>" ++ check (runes_of_ascii "root packet
crc{	MetaDataX @calculatedFrom(
// " ++ [128512]%N ++ runes_of_ascii " emoji
//
""// no comment"" ), // " ++ [27880; 37322]%N ++ runes_of_ascii "
@calculatedFrom("""" )
    // trailing space 
    len metadata// @lengthOf(
,@tag( 0 )
// `tick` ""quote"" 'q'
// c
char As `doc`
,@lengthOf(// `tick` ""quote"" 'q'
crc
// c
//	t
)repeat
    leftPad
    // a // b
    { repeat chars
    u8x`// not a comment` ,
uint8x{ repeat char[
    10 ] crc,options1 ,},
// " ++ [128512]%N ++ runes_of_ascii " emoji
// trailing space 
match  leftPad
    as
Packet{ ""// no comment"": chars , [42 ,
0 ]
: a1
    // c
    ""\n"" : len // `tick` ""quote"" 'q'
,3 : // " ++ [128512]%N ++ runes_of_ascii " emoji
Header} , char[]
options1
@lengthOf( //	t
f32a ) `
` ,}
    , // a // b
}
")).
Eval vm_compute in ("<<<M255>>>" ++ check (runes_of_ascii "packet
msg_type { @lengthOf(
trueish
) @calculatedFrom( //	t
""packet""
    ) @rightPad
( ) trueish
chars
    // c
    ,	}
root
packet i64_
    { } packet	charz
{// " ++ [128512]%N ++ runes_of_ascii " emoji
repeat float64 // @lengthOf(
u8x
`{ , }`
    , roots @lengthOf( BodyLength )
    ``
,	repeat string
Header
    //x
    , Z9_ @lengthOf(
    A ) ,
    @rightPad () repeat len
`" ++ [233]%N ++ runes_of_ascii "`,
    float64 Foo @lengthOf( Header  ) ,repeat char[
0 ] charz// c
`say ""hi""`, string a1 , @leftPad
    (
    '0') metadata
    { zchar[ 42 ]  i8i8
    @lengthOf( lengthOf)
,
//x
/// triple
} ,
} options	{ }
")).
Eval vm_compute in ("<<<M370>>>" ++ check (runes_of_ascii "// 50% %s
packet crc
{  char[65535	] Foo
    `" ++ [233]%N ++ runes_of_ascii "` , calculatedFrom	Header, stringy MetaDataX, @lengthOf(
    //
    BodyLength
    ) lengthOf  { f32 u `100% of %d`
,T
    @lengthOf(
leftPad )	,f32
    // 50% %s
    f32a `it's`
,
    zchar[	255 ]crc , } ,Pad
    @calculatedFrom( ""abc"" ) ,
    @lengthOf(
repeatCount  ) @rightPad ( ) @tag( 1// trailing space 
) //	t
char[
7 ] MetaDataX
@calculatedFrom(
""\n"" ) ,	repeat uint64 pack,
@calculatedFrom(
""CRC32"") repeat x_y_z
msg_type `say ""hi""` , }")).
Eval vm_compute in ("<<<M58>>>" ++ check (runes_of_ascii "packet o { zchar[ 7 ] /// triple
f32a@calculatedFrom( ""a\""b"")	, @lengthOf( pack
)
    options1 ,@calculatedFrom(""abc""
)
    Header , @lengthOf( Logon )zchar[4294967296
    ] asx // packet A { u8 x, }
@lengthOf(
// a // b
// packet A { u8 x, }
u )
`100% of %d`	, @leftPad (' ' // trailing space 
)	@calculatedFrom( ""`tick`"" )
uint16 x_y_z`doc` , @tag( 00 )zchar[ //	t
1 ] // c
u,@calculatedFrom(""a\""b"" ) //
u8x uint8x,
char[1 ]
metadata , }
")).
Eval vm_compute in ("<<<M1282>>>" ++ check (runes_of_ascii "options {
    // c1
LittleEndian = true ; } // c6
packet // c7a
  // c7b
B
    // c8
{
    // c9
u8 // c10a
  // c10b
a // c11a
  // c11b
, // c12
string s // c14a
  // c14b
, // c15a
  // c15b
}
    // c16
root packet // c18a
  // c18b
P
    // c19
{ // c20
u16
    // c21
L // c22a
  // c22b
@lengthOf(
    // c23
B // c24
)
    // c25
, // c26a
  // c26b
B
    // c27
, // c28
u8 t ,
    // c31
} // c32a
  // c32b
")).
Eval vm_compute in ("<<<M18>>>" ++ check (runes_of_ascii "
packet
    tag  {@tag( 00 ) match x_y_z as Packet{[3
    ]:packetx , [// " ++ [128512]%N ++ runes_of_ascii " emoji
""{,}"" ]
// " ++ [27880; 37322]%N ++ runes_of_ascii "
// 50% %s
:
BodyLength ,
//x
//
00
    : i8i8 , 255  :	asx
    //
    , },} packet
Packet { @calculatedFrom(
    // " ++ [27880; 37322]%N ++ runes_of_ascii "
    """ ++ [233]%N ++ runes_of_ascii "t" ++ [233]%N ++ runes_of_ascii """ // 50% %s
)	match i8i8
as
    charz
// @lengthOf(
// " ++ [128512]%N ++ runes_of_ascii " emoji
{ 3
: f32a ""a\\"" // " ++ [27880; 37322]%N ++ runes_of_ascii "
: len
,	} , @tag(	10 ) @lengthOf( charz	) int , repeat	string Foo ,}")).
Eval vm_compute in ("<<<M82>>>" ++ check (runes_of_ascii "packet stringy {  string
    lengthOf  @calculatedFrom(""" ++ [128512]%N ++ runes_of_ascii """)
, @lengthOf(MetaDataX) Logon
{ string
Pad`u8 x,` ,  } , // " ++ [128512]%N ++ runes_of_ascii " emoji
@tag( 00	)
@calculatedFrom(
    """ ++ [28040; 24687]%N ++ runes_of_ascii """ )
    repeat uint8 asx , @leftPad( '0'  ) @tag( 00 // c
)
    zchar[0 ]trueish `u8 x,` , Header @lengthOf(repeatCount )
    ,} packet
u128 {  } MetaData// trailing space 
charz
{ }")).
Eval vm_compute in ("<<<M1396>>>" ++ check (runes_of_ascii "options {
	LittleEndian
= true ; 
} 
packet
    Sub { u8 a

    ,	@calculatedFrom(  ""CRC16""

    )  uint64
    SubSum  , 
}
    root
	packet Frame  {
	u16 MsgType
    , u16
BodyLen @lengthOf(
	Body 
)
	,	Sub Body,string
    note 
,
@calculatedFrom(""CRC16"" 
)  uint64

    Checksum,	u8

    tail,
}
")).
Eval vm_compute in ("<<<M272>>>" ++ check (runes_of_ascii "// c
packet BodyLength
{ @tag(
    42) Header tag
    `u8 x,`
, } options { } packet string_
{	float32
rootA , uint8 MetaDataX `crlf
line`,
charz
    // " ++ [128512]%N ++ runes_of_ascii " emoji
    ,  @tag(  4294967296) @rightPad( '\x00' )	@tag(7	)
    // c
    u32 u128 //x
@calculatedFrom(""\" ++ [233]%N ++ runes_of_ascii """ ) ,
}")).
Eval vm_compute in ("<<<M6>>>" ++ check (runes_of_ascii "packet
rootA
{ match	BodyLength as A
{ 42: leftPad ,	1: u8x, [ 10 ,
    //
    """ ++ [128512]%N ++ runes_of_ascii """ ] : // trailing space 
i8i8
    7// " ++ [128512]%N ++ runes_of_ascii " emoji
: u8x , 007: trueish,
    // c
    }, o uint8x , repeat
zchar[
7] //x
pack ,
string x_y_z@lengthOf(
charz	)
    `
` , } // c")).
Eval vm_compute in ("<<<M390>>>" ++ check (runes_of_ascii "4294967296
    asx { @calculatedFrom(
""""  ) @tag( 255 )repeat
// packet A { u8 x, }
// trailing space 
int16 u8x
,
@tag(
    //
    007 )
    @tag( 0
    /// triple
    ) @tag( 1) u
    @lengthOf( T ),
// `tick` ""quote"" 'q'
//x
} // " ++ [128512]%N ++ runes_of_ascii " emoji")).
Eval vm_compute in ("<<<M423>>>" ++ check (runes_of_ascii "packet
    asx { @calculatedFrom(
""""  ) @tag( ) 255 repeat
// packet A { u8 x, }
// trailing space 
int16 u8x
,
@tag(
    //
    007 )
    @tag( 0
    /// triple
    ) @tag( 1) u
    @lengthOf( T ),
// `tick` ""quote"" 'q'
//x
} // " ++ [128512]%N ++ runes_of_ascii " emoji")).
Eval vm_compute in ("<<<M463>>>" ++ check (runes_of_ascii "packet
    asx { @calculatedFrom(
""""  ) @tag( 255 )repeat
// packet A { u8 x, }
// trailing space 
int16 u8x
,
@tag(
    //
    007 @tag(
    ) 0
    /// triple
    ) @tag( 1) u
    @lengthOf( T ),
// `tick` ""quote"" 'q'
//x
} // " ++ [128512]%N ++ runes_of_ascii " emoji")).
Eval vm_compute in ("<<<M516>>>" ++ check (runes_of_ascii "packet
    asx { @calculatedFrom(
""""  ) @tag( 255 )repeat
// packet A { u8 x, }
// trailing space 
int16 u8x
,
@tag(
    //
    007 )
    @tag( 0
    /// triple
    ) @tag( 1) u
    @lengthOf( T )
// `tick` ""quote"" 'q'
//x
} // " ++ [128512]%N ++ runes_of_ascii " emoji")).
Eval vm_compute in ("<<<M323>>>" ++ check (runes_of_ascii "
root
packet int{ @tag( 0) @tag( 007 )
@tag( 255
) match i8i8 as
//	t
// 50% %s
_x { ""\" ++ [233]%N ++ runes_of_ascii """ : //
i64_ 42 :
    asx , 0123456789:Logon 65535 // `tick` ""quote"" 'q'
:  calculatedFrom ,""" ++ [233]%N ++ runes_of_ascii "t" ++ [233]%N ++ runes_of_ascii """ // c
:u
    },
    /// triple
    }
")).
Eval vm_compute in ("<<<M1925>>>" ++ check (runes_of_ascii "  root
packet
body { 
string 
chars 
`" ++ [233]%N ++ runes_of_ascii "`

    , repeat
	uint8x
, match
    uint8x  as
x  // `tick` ""quote"" 'q'

{007
    //	t
  	:
	// c
	// @lengthOf(
  calculatedFrom
	, },
    string_  falsey	`
`
,
}
")).
Eval vm_compute in ("<<<M38>>>" ++ check (runes_of_ascii "packet Logon {	@calculatedFrom(""{,}"") repeat	int64 Packet	, @tag( 42 )char[] MetaDataX`doc`, } MetaData Packet	{string msg_type , Logon calculatedFrom,f32a
    matchKey ,zchar[	0	] _x ,  }")).
Eval vm_compute in ("<<<M720>>>" ++ check (runes_of_ascii "packet
crc
{repeat  Foo A  `u8 x,` ,	@lengthOf( uint8x ) string string
matchKey @lengthOf( stringy ) `a\`
,
    // c
    }
MetaData chars{
leftPad
    //	t
    crc
`" ++ [233]%N ++ runes_of_ascii "`
,}")).
Eval vm_compute in ("<<<M1751>>>" ++ check (runes_of_ascii "
packet  A
    {u16
    len @lengthOf(

    body
) 
`100% of %s %d %v` 
, 
u32
crc

    @calculatedFrom(  ""CRC32"" )

    `100% of %s %d %v`
,
	string body  ,
}

")).
Eval vm_compute in ("<<<M702>>>" ++ check (runes_of_ascii "MetaData u
    { } MetaData o
{ float uint8x
`100% of %d` ,repeatCount u8x, string_ leftPad
, i32
    Foo , int64 x `two words` , calculatedFrom
< stringy `a\` ,
}
")).
Eval vm_compute in ("<<<M618>>>" ++ check (runes_of_ascii "MetaData u
    { } MetaData o
{ float uint8x
`100% of %d` ,repeatCount u8x, leftPad string_
, i32
    Foo , int64 x `two words` , calculatedFrom
stringy `a\` ,
}
")).
Eval vm_compute in ("<<<M681>>>" ++ check (runes_of_ascii "MetaData u
    { } MetaData o
{ float uint8x
`100% of %d` ,repeatCount u8x, string_ leftPad
, i32
    Foo , int64 x `two words` , calculatedFrom
stringy `a\` 
}
")).
Eval vm_compute in ("<<<M616>>>" ++ check (runes_of_ascii "MetaData u
    { } MetaData o
{ float uint8x
`100% of %d` ,repeatCount u8x,  leftPad
, i32
    Foo , int64 x `two words` , calculatedFrom
stringy `a\` ,
}
")).
Eval vm_compute in ("<<<M1310>>>" ++ check (runes_of_ascii "packet A {
    u8 a,
}
packet B {
    u16 b,
}
root packet P {
    u8 K,
    match K as M {
        [1, 2] : A,
        3 : B,
        7 : A,
    },
}
")).
Eval vm_compute in ("<<<M166>>>" ++ check (runes_of_ascii "  options {Packet =true msg_type
=false // 50% %s
Logon// @lengthOf(
=
true
    packetx
//
// `tick` ""quote"" 'q'
=
""abc"" ;
    pack= ' '}

")).
Eval vm_compute in ("<<<M208>>>" ++ check (runes_of_ascii "MetaData uint8x{char msg_type `two words`, char[3 ] chars `say ""hi""`, zchar[
007]
zchar	,
    // " ++ [128512]%N ++ runes_of_ascii " emoji
    } // `tick` ""quote"" 'q'")).
Eval vm_compute in ("<<<M1670>>>" ++ check (runes_of_ascii "packet

A { 
u8 
a, }packet B
{
u16

b
,
    }
root	packet	P 
{
	u8
K,	match	K
as
    M{
1
:
	A
,1

    :B
	,}
,  }

")).
Eval vm_compute in ("<<<M1814>>>" ++ check (runes_of_ascii "

  packet
A{  Inner
    {
match

    k

    as

n{[
1,	22, 
007
,
	4 ,5
,
	66
	] 
: 
B ,
    }
    ,  }	,
}")).
Eval vm_compute in ("<<<M1218>>>" ++ check (runes_of_ascii "options { } options { MetaDataX = char
// c
; } MetaData Pad { i8 metadata , string stringy , int8 As `{ , }` , }")).
Eval vm_compute in ("<<<M109>>>" ++ check (runes_of_ascii "
options
{
charz  = ""a\\""
    // trailing space 
    rootA
=""packet"" ; x= ""a	b"" ;
    // " ++ [27880; 37322]%N ++ runes_of_ascii "
    rootA =
string}")).
Eval vm_compute in ("<<<M1898>>>" ++ check (runes_of_ascii "// `tick` ""quote"" 'q'
packet
	o {} options{ }	MetaData
    trueish{
    u64
repeatCount `100% of %d` ,	}

")).
Eval vm_compute in ("<<<M893>>>" ++ check (runes_of_ascii "packet A {
  match k as n {
    [1, ""bb"", 007, ""d"", 5, ""f"", 7, ""h"", 9, ""j"", 11] : B,
    2 : C
  },
}")).
Eval vm_compute in ("<<<M880>>>" ++ check (runes_of_ascii "packet A {
  match k as n {
    [1, ""bb"", 007, ""d"", 5, ""f"", 7, ""h"", 9, ""j""] : B,
    2 : C
  },
}")).
Eval vm_compute in ("<<<M861>>>" ++ check (runes_of_ascii "packet A {
  match k as n {
    [""a"", ""bb"", 007, ""d"", ""e"", 66, ""g"", ""h""] : B
    2 : C
  },
}")).
Eval vm_compute in ("<<<M1592>>>" ++ check (runes_of_ascii "packet A {
    match k as n {
        [1, ""bb"", 007, ""d"", 5] : B,
        2 : C,
    },
}")).
Eval vm_compute in ("<<<M219>>>" ++ check (runes_of_ascii "packet u {Foo @lengthOf(
    crc)`{ , }`
//	t
//x
, @tag( /// triple
007
    ) o
,
}")).
Eval vm_compute in ("<<<M828>>>" ++ check (runes_of_ascii "packet A {
  match k as n {
    [1, ""bb"", 007, ""d"", 5, ""f""] : B,
    2 : C
  },
}")).
Eval vm_compute in ("<<<M824>>>" ++ check (runes_of_ascii "packet A {
  match k as n {
    [1, 22, 007, 4, 5, 66] : B,
    2 : C
  },
}")).
Eval vm_compute in ("<<<M265>>>" ++ check (runes_of_ascii "// c
packet options1
{options1
x
, }
    options
{
Logon = float32  } 	 ")).
Eval vm_compute in ("<<<M1294>>>" ++ check (runes_of_ascii "root packet P {
    u16 a,
    u32 Sum @calculatedFrom(""CR\
C32""),
}
")).
Eval vm_compute in ("<<<M251>>>" ++ check (runes_of_ascii "
root packet len{
    @calculatedFrom(  ""a\""b"" )
i16 a1 ,
    }")).
Eval vm_compute in ("<<<M1972>>>" ++ check (runes_of_ascii "packet chars {
    char[007] float @calculatedFrom(""x y""),
}")).
Eval vm_compute in ("<<<M1848>>>" ++ check (runes_of_ascii "
packet
	_x {@tag(	10 ) 
float32	roots

`u8 x,`

,

}

")).
Eval vm_compute in ("<<<M979>>>" ++ check (runes_of_ascii "MetaData M {
    u8 x `%%d%!`,
    T t `%%d%!`,
}")).
Eval vm_compute in ("<<<M955>>>" ++ check (runes_of_ascii "MetaData M {
    u8 x `
x`,
    T t `
x`,
}")).
Eval vm_compute in ("<<<M74>>>" ++ check (runes_of_ascii "packet
// 50% %s
//
len { uint8x A , }")).
Eval vm_compute in ("<<<M1187>>>" ++ check (runes_of_ascii "options { A // c
= ""// no comment"" }")).
Eval vm_compute in ("<<<M920>>>" ++ check (runes_of_ascii "root packet A {
    u8 x `a
b`,
}")).
Eval vm_compute in ("<<<M1027>>>" ++ check (runes_of_ascii "packet A {
 u8 x `d" ++ [8202]%N ++ runes_of_ascii "`, // c" ++ [8202]%N ++ runes_of_ascii "
}")).
Eval vm_compute in ("<<<M951>>>" ++ check (runes_of_ascii "packet A {
    u8 x `
x`,
}")).
Eval vm_compute in ("<<<M364>>>" ++ check (runes_of_ascii "
packet string_
    { }")).
Eval vm_compute in ("<<<M1129>>>" ++ check (runes_of_ascii "MetaData tag {
// c
}")).
Eval vm_compute in ("<<<M1030>>>" ++ check (runes_of_ascii "packet A {
}
// c" ++ [8232]%N)).
Eval vm_compute in ("<<<M1013>>>" ++ check (runes_of_ascii "packet A {
}// c" ++ [5760]%N)).
Eval vm_compute in ("<<<M766>>>" ++ check (runes_of_ascii "zchar[ , uint16")).
Eval vm_compute in ("<<<M999>>>" ++ check (runes_of_ascii "// c" ++ [12288]%N)).
Eval vm_compute in ("<<<M160>>>" ++ check (@nil rune)).
