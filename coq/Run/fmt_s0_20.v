From FP Require Import Lexer Parser ShowPT Digest Formatter.
From Coq Require Import String List NArith.
Import ListNotations.
Open Scope string_scope.
Set Printing Width 100000000.
Set Printing Depth 100000000.
Definition show_fres (r : fres) : string :=
  match r with
  | FOk s => "OK:" ++ sh_escaped s ""
  | FErr s => "ERR:" ++ sh_escaped s ""
  | FPanic p => "PANIC:" ++ p
  end.
Definition check (rs : list rune) : string := digest (show_fres (format_res rs)).
Definition full (rs : list rune) : string := show_fres (format_res rs).
Eval vm_compute in ("<<<M1688>>>" ++ check (runes_of_ascii "  packet body
{

@tag(
    3

    )	i16 options1 
,  repeat  string body	, 
@calculatedFrom(	// trailing space 
	""a\""b"" ) 
x_y_z@calculatedFrom(	""a\\""
)
`it's`
    ,match

    o

as
    BodyLength { 00 :

    pack
, 1

:  u	, [
255
    ,
    255,
""// no comment"" 
]

    : Packet[

    65535
]:	i64_	, 
} 

// @lengthOf(
//
	, 	 // a // b
@calculatedFrom(// c
""" ++ [233]%N ++ runes_of_ascii "t" ++ [233]%N ++ runes_of_ascii """
) string 	 // `tick` ""quote"" 'q'
  len `tab	here` 
, @tag(
0123456789
    )	repeat 
  //	t
	  matchKey  A

    `a\`
    ,
i8i8 Packet
    ,
stringy
@calculatedFrom(
""x y""

    )	, 
f32a 
As

    `crlf
line`
	,
u128 { repeat	int
    { 
repeat

zchar[ 255
	] a1 `{ , }`	, 
// a // b
	  // a // b

  match calculatedFrom as body 	 //	t
	{
0// " ++ [27880; 37322]%N ++ runes_of_ascii "
  :body 42
    // c

:

    tag // @lengthOf(
	,""1""

: packetx, ""it's""
    :roots, }  ,

i32

u  @calculatedFrom(// " ++ [128512]%N ++ runes_of_ascii " emoji
    ""a\\""
	) 
,

} ,string_ `crlf
line`
    , 
_x,

    repeat lengthOf
	crc  , 
}
	,	// " ++ [27880; 37322]%N ++ runes_of_ascii "
} MetaData
rootA {
uint8 
tag

,string	Z9_

`u8 x,`

    ,f64

float
,
Logon

    falsey`a\`	,
}
    packet 
len  {	char[] 
u`// not a comment`

,
	char[]  Header

    `// not a comment`  ,
	string
charz

    // a // b

/// triple
`tab	here`, 

    //

	@leftPad 
    // packet A { u8 x, }

(

)
    @lengthOf(	a1
	)  
      // " ++ [128512]%N ++ runes_of_ascii " emoji
	//x

len	crc
    ,@leftPad
( ' ' 
) Packet  @calculatedFrom(""" ++ [128512]%N ++ runes_of_ascii """ )
,repeat uint8
	a1
, match
T as As 
{
    ""packet""

:
	Logon
    ,
    [

""" ++ [128512]%N ++ runes_of_ascii """  ,	0]  : 
i64_  ,[  ""packet"" ,7
    ]	:

    string_
,
	}, repeat	//

	zchar[007
]
zchar `{ , }` ,
} ")).
Eval vm_compute in ("<<<M43>>>" ++ check (runes_of_ascii "packet asx {
    leftPad@calculatedFrom( """ ++ [233]%N ++ runes_of_ascii "t" ++ [233]%N ++ runes_of_ascii """ ) , @leftPad
(  '0')
    // trailing space 
    u8x As `crlf
line` ,char[ 3 ] asx @calculatedFrom( ""{,}"" )  ,
// @lengthOf(
// trailing space 
repeat u128  { int {packetx @calculatedFrom( ""packet"" )
    ,	match
T as  T
{ ""a	b""
: o , } , zchar[ 00
    ]lengthOf
`{ , }` ,
/// triple
// trailing space 
char[] crc @calculatedFrom( ""abc"" )
, } , Header	@calculatedFrom( """ ++ [233]%N ++ runes_of_ascii "t" ++ [233]%N ++ runes_of_ascii """ )
`two words` ,
repeat uint8 uint8x , repeat
    //
    char[0123456789 ]float`u8 x,`,} ,
packetx x `say ""hi""` , @rightPad ( )
i8i8
    @calculatedFrom( ""x y""), @leftPad
    ( ) BodyLength {repeat	int32
_x ``  , i8 msg_type
`doc` //
, }, }
// `tick` ""quote"" 'q'
// packet A { u8 x, }
packet body { }	packet	repeatCount{zchar[  3 ] Packet, @lengthOf( // @lengthOf(
Header  )
    i64
// c
// c
Packet `two words` ,
zchar[ 65535
]calculatedFrom `tab	here`//	t
, match x as leftPad
    { ""// no comment"": rootA
    , ""`tick`"" :
o,
}
,// " ++ [128512]%N ++ runes_of_ascii " emoji
zchar[ //	t
3 ]
// packet A { u8 x, }
// " ++ [27880; 37322]%N ++ runes_of_ascii "
u128 @calculatedFrom( ""{,}"" ) `{ , }`
    ,
}
    //	t
    options { u = char[ 42 ] // " ++ [27880; 37322]%N ++ runes_of_ascii "
metadata
=""a\\""
;  Logon =
string ; Z9_ = u16
;  }
")).
Eval vm_compute in ("<<<M1868>>>" ++ check (runes_of_ascii "options {
    FixedStringPadFromLeft = true;
    FixedStringPadChar = '0';
}

packet Leg {
    InPrice0 {
        repeat string clOrdID,
        int16 msgKind,
        zchar[5] Px,
    },
    i16 f1,
    repeat f64 Side2,
    string Acct,
}

packet Cancel {
    zchar[4] clOrdID,
    string seqNo,
    Leg,
    @leftPad('0')
    char[11] OrderId,
}

packet Quote {
    repeat char[4] sym,
    f64 OrderId,
    repeat Leg,
    repeat i64 f1,
    int16 Note,
    zchar[3] count,
}

root packet Ack {
    @leftPad(' ')
    char[10] sym,
    InPx60 {
        Cancel,
        repeat char[1] f1,
        string Tail,
        repeat InNote55 {
            int8 count,
            f64 f1,
            repeat Cancel,
        },
        char[] tag7,
        repeat string msgKind,
    },
    u8 lastPx,
    match lastPx as Body {
        152 : Quote,
        173 : Cancel,
        4 : Leg,
    },
    u16 Ref @calculatedFrom(""CRC32""),
}")).
Eval vm_compute in ("<<<M1486>>>" ++ check (runes_of_ascii "options {
    FixedStringPadFromLeft = true;
    FixedStringPadChar = '0';
}

packet Leg {
    repeat InSym93 {
        zchar[3] Acct,
        string Side2,
        i32 Flags,
        f32 Note,
        i32 msgKind,
    },
    f64 Note,
    uint16 Px,
}

packet Quote {
    zchar[2] OrderId,
}

packet Ack {
    repeat string lastPx,
    zchar[4] price,
    uint32 OrderId,
    Quote,
    int8 Acct,
}

packet Fill {
    repeat Leg,
    @rightPad('0')
    char[11] Note,
    f64 Px,
    @rightPad('\x00')
    char[5] Flags,
    zchar[9] x,
    string msgKind,
}

root packet Order {
    Leg,
    repeat Ack,
    @rightPad('\x00')
    char[3] Side2,
    repeat char[1] seqNo,
    u16 clOrdID,
    match clOrdID as Body {
        198 : Leg,
        23 : Quote,
        13 : Ack,
        159 : Fill,
    },
    u32 venue @calculatedFrom(""CR\
    C32""),
}")).
Eval vm_compute in ("<<<M230>>>" ++ check (runes_of_ascii "packet rootA{	match
zchar as
    // " ++ [128512]%N ++ runes_of_ascii " emoji
    int {
    [ ""it's""
, ""1""]
    :// c
tag ,
    } , char Packet @lengthOf( body ) , metadata @lengthOf( packetx ) ,@calculatedFrom( """ ++ [128512]%N ++ runes_of_ascii """	)match
    repeatCount as f32a { """ ++ [28040; 24687]%N ++ runes_of_ascii """
    :chars ,
    }
    ,@lengthOf(string_ )char[ 0
    //
    ] len @calculatedFrom(
""abc"" )
,
    // `tick` ""quote"" 'q'
    u8 uint8x@lengthOf( roots)  `say ""hi""`
, int @calculatedFrom( ""a\""b"") ,match
msg_type as i8i8 {// c
""\" ++ [233]%N ++ runes_of_ascii """
// " ++ [27880; 37322]%N ++ runes_of_ascii "
// packet A { u8 x, }
: Header , 1 : zchar,
    [ ""\n""	]
:	string_
""\n"" :i8i8 0123456789 : Logon
    [ 00 , 007 ,""1"" ,
    //	t
    ""it's""
    , ""// no comment""
    ,
    0
, ""a\\"" ,// packet A { u8 x, }
007 ]
    :BodyLength}
, match rootA as // c
chars  {
7
:
    // @lengthOf(
    Header }
, A Foo `tab	here` ,
}
")).
Eval vm_compute in ("<<<M1795>>>" ++ check (runes_of_ascii "packet options1 {
    @leftPad('0')
    @rightPad('\x00')
    @tag(255)
    /// triple
    repeat string As `
        `,
    @calculatedFrom("""")
    @calculatedFrom(""x y"")
    a1 {
        Foo {
            trueish {
                tag @lengthOf(i8i8) `doc`,
            },
            zchar[00] f32a @lengthOf(calculatedFrom),
            repeat zchar[1] stringy `{ , }`,
        },
        uint64 repeatCount @lengthOf(asx),
        char[42] lengthOf @calculatedFrom(""packet""),
        char[10] calculatedFrom @lengthOf(BodyLength),
    },
    asx `// not a comment`,
}

options {
    matchKey = """ ++ [128512]%N ++ runes_of_ascii """
    falsey = ""a\""b"";
    A = ""CRC32""
    msg_type = """ ++ [233]%N ++ runes_of_ascii "t" ++ [233]%N ++ runes_of_ascii """;
}

MetaData o {
}

packet Pad {
}")).
Eval vm_compute in ("<<<M227>>>" ++ check (runes_of_ascii "packet	crc
    { @lengthOf(Header )	repeat roots
    // @lengthOf(
    `a\` ,
@lengthOf( tag ) match x as string_{ [ ""a\\"" , ""packet""
] : Header""// no comment""
    /// triple
    :
Logon , 7:
falsey ,7  : metadata [ 7  , 00] :
    // `tick` ""quote"" 'q'
    repeatCount 3 : u ,
},
    //	t
    @lengthOf( u128
//
// " ++ [27880; 37322]%N ++ runes_of_ascii "
) @rightPad
(
'\x00' // c
)
char[] int ,int16 Packet @lengthOf(  string_
    ) , trueish{ repeat
crc {zchar
calculatedFrom , } ,
} ,
// @lengthOf(
//x
@rightPad
( ) repeat
    _x pack // " ++ [27880; 37322]%N ++ runes_of_ascii "
, @lengthOf(
// c
// trailing space 
chars)repeat
    string_ {repeat
    uint8x`// not a comment`,}
, }")).
Eval vm_compute in ("<<<M1553>>>" ++ check (runes_of_ascii "options {
    StringPrefixLenType = u8;
    ArrayPrefixLenType = u8;
    FixedStringPadFromLeft = false;
    FixedStringPadChar = ' ';
}

packet Ack {
    char[] tag7,
}

packet Reject {
    InSym61 {
        repeat Ack,
        zchar[4] f1,
    },
}

packet Logout {
    char[4] clOrdID,
}

root packet Cancel {
    @leftPad(' ')
    char[10] price,
    u8 x,
    u32 venue @lengthOf(Body),
    match x as Body {
        [92, 175] : Logout,
        26 : Reject,
        144 : Ack,
    },
    u16 count @calculatedFrom(""CR\
        C32""),
}")).
Eval vm_compute in ("<<<M1907>>>" ++ check (runes_of_ascii "
packet
T	// c
	  {@tag( 00	)

repeat
    char[]
    charz

    `
`

, char[
    0123456789
] BodyLength @lengthOf(//x

Z9_
)`u8 x,`

    , }

MetaData
    crc

    {
    float64  int `" ++ [28040; 24687; 31867; 22411]%N ++ runes_of_ascii "` // a // b
    ,
	As

    Logon
    ``
, // `tick` ""quote"" 'q'

  uint8  // " ++ [27880; 37322]%N ++ runes_of_ascii "
      u
    , u32
stringy
`
`,
    // a // b
//	t

  uint64	uint8x	,
asx
calculatedFrom
    , //x

	}

MetaData chars {

    char[1 

// `tick` ""quote"" 'q'
	] //	t
    chars
, } 	 // trailing space 
")).
Eval vm_compute in ("<<<M335>>>" ++ check (runes_of_ascii "//	t
packet u8x  {
u8x { body
@calculatedFrom(	""`tick`"") `say ""hi""`
,match a1	as
    asx // c
{
    //	t
    0
    :
// " ++ [27880; 37322]%N ++ runes_of_ascii "
// @lengthOf(
asx }
    ,}
, @rightPad ( )
    match Logon as	x { [
    00 , ""// no comment"" , ""a\\"",0123456789
    // trailing space 
    ,
    4294967296 ] : crc , 00:options1 , // " ++ [27880; 37322]%N ++ runes_of_ascii "
42
    :i8i8,0 : o 0123456789
: body , } ,@tag(
7 )float
    @lengthOf(
stringy) `" ++ [233]%N ++ runes_of_ascii "`,
u
    // c
    @lengthOf( msg_type )
,
    }")).
Eval vm_compute in ("<<<M1236>>>" ++ check (runes_of_ascii "// top
options // c0a
  // c0b
{ f32a
    // c2
= // c3
0 } // c5
packet trueish // c7a
  // c7b
{ // c8
}
    // c9
MetaData _x // c11
{ char[ // c13a
  // c13b
0123456789 // c14
] // c15a
  // c15b
zchar
    // c16
, // c17a
  // c17b
string // c18
crc ,
    // c20
char[
    // c21
1 ] // c23a
  // c23b
options1
    // c24
, uint8 // c26a
  // c26b
repeatCount
    // c27
, // c28
} // c29
")).
Eval vm_compute in ("<<<M1538>>>" ++ check (runes_of_ascii "// packet A { u8 x, }
MetaData roots {
    char[00] lengthOf ``,
    As stringy,
    x calculatedFrom,
}

packet i8i8 {
    crc `crlf
    line`,
    @rightPad()
    zchar[42] falsey,
    @tag(42)
    u32 leftPad,
    @tag(42)
    a1 @lengthOf(Z9_),
    match leftPad as crc {
        [1, 255, ""a\""b""] : trueish,
        3 : float,
        0 : lengthOf,
    },
}")).
Eval vm_compute in ("<<<M100>>>" ++ check (runes_of_ascii "
root packet
a1
    {
tag Pad``
, } options {
}
    root packet int	{
    uint64 f32a , } packet
MetaDataX {// c
@leftPad( ' ' ) /// triple
repeat uint16 Header	`{ , }`
,
// `tick` ""quote"" 'q'
/// triple
}
options {
Z9_= false
    falsey //	t
= ""x y"" ; rootA = false
    // a // b
    Foo	=true
lengthOf
    = float64 }")).
Eval vm_compute in ("<<<M1804>>>" ++ check (runes_of_ascii "

  // top
    options
    // c0

{ // c1a
  // c1b

FixedStringPadFromLeft 
        // c2
      =	// c3
  true 
	    // c4
; // c5a
// c5b

	} 
// c6
	  root 	 // c7
packet 
P
{

// c10
  char[// c11a
    // c11b
    4 // c12a
	// c12b
    ]z  // c14
, 
    // c15
  } // c16a

// c16b
 
")).
Eval vm_compute in ("<<<M1314>>>" ++ check (runes_of_ascii "packet MDSnapshotZZ {
    u8 a,
}
packet OrderACK {
    u16 b,
}
packet HTTPServerInfo {
    string s,
}
root packet FIXMsg {
    u8 KType,
    MDSnapshotZZ,
    repeat OrderACK,
    match KType as Body {
        1 : HTTPServerInfo,
        2 : OrderACK,
    },
}
")).
Eval vm_compute in ("<<<M1491>>>" ++ check (runes_of_ascii "options {
    falsey = int64;
    u8x = uint32
    uint8x = zchar[1];
    leftPad = ""a	b"";
    calculatedFrom = false;
}

MetaData Packet {
    zchar[7] As,
}

root packet pack {
    @leftPad()
    @tag(7)
    zchar[3] u @lengthOf(x),
}")).
Eval vm_compute in ("<<<M207>>>" ++ check (runes_of_ascii "
MetaData chars { } options
{ As
= true ;As // `tick` ""quote"" 'q'
= false; stringy
= true} packet repeatCount  {string
    float@lengthOf(
    matchKey )
// packet A { u8 x, }
//x
`say ""hi""` ,
}
")).
Eval vm_compute in ("<<<M44>>>" ++ check (runes_of_ascii "
packet repeatCount
    {
trueish , } packet uint8x
{/// triple
match u8x as calculatedFrom
    { [ 4294967296 ]: len ,
[ """ ++ [128512]%N ++ runes_of_ascii """ ,	""" ++ [233]%N ++ runes_of_ascii "t" ++ [233]%N ++ runes_of_ascii """ , 255 , //
1
] : falsey , } , }
")).
Eval vm_compute in ("<<<M481>>>" ++ check (runes_of_ascii "packet uint8x
{ match pack
    as msg_type	{
    0123456789 :	float
}
,
} packet //	t
a1
    { } options options {packetx
    = '\x00'	; u128= ""a	b""  ; }
")).
Eval vm_compute in ("<<<M508>>>" ++ check (runes_of_ascii "packet uint8x
{ match pack
    as msg_type	{
    0123456789 :	float
}
,
} packet //	t
a1
    { } options {packetx
    = '\x00'	int16 u128= ""a	b""  ; }
")).
Eval vm_compute in ("<<<M516>>>" ++ check (runes_of_ascii "packet uint8x
{ match pack
    as msg_type	{
    0123456789 :	float
}
,
} packet //	t
a1
    { } options {packetx
    = '\x00'	; u128= = ""a	b""  ; }
")).
Eval vm_compute in ("<<<M417>>>" ++ check (runes_of_ascii "packet uint8x
{ match pack
    msg_type as	{
    0123456789 :	float
}
,
} packet //	t
a1
    { } options {packetx
    = '\x00'	; u128= ""a	b""  ; }
")).
Eval vm_compute in ("<<<M435>>>" ++ check (runes_of_ascii "packet uint8x
{ match pack
    as msg_type	{
    0123456789 	float
}
,
} packet //	t
a1
    { } options {packetx
    = '\x00'	; u128= ""a	b""  ; }
")).
Eval vm_compute in ("<<<M698>>>" ++ check (runes_of_ascii "// @lengthOf(
packet i8i8 { u128 o , }
options { MetaDataX = true;
    BodyLength =""packet"" x_y_z= 007
crc //x
= ""abc"" ;
    msg_type =
i16 i16 }")).
Eval vm_compute in ("<<<M391>>>" ++ check (runes_of_ascii " uint8x
{ match pack
    as msg_type	{
    0123456789 :	float
}
,
} packet //	t
a1
    { } options {packetx
    = '\x00'	; u128= ""a	b""  ; }
")).
Eval vm_compute in ("<<<M1461>>>" ++ check (runes_of_ascii "packet A {
    Inner {
        u8 x `a
                b`,
        Deep {
            u8 y `a
                        b`,
        },
    },
}")).
Eval vm_compute in ("<<<M1790>>>" ++ check (runes_of_ascii "packet
	A

    {  match

    k as

n{ [
""a""

,
""bb""
    , 007 ,
""d""
,

""e"" ,
	66

    ,
    ""g"", ""h"" 
,  9 ] 
: 
B 
2: C
    } , }
")).
Eval vm_compute in ("<<<M1387>>>" ++ check (runes_of_ascii "packet A {
    u8 a,
}

packet B {
    u16 b,
}

root packet P {
    u8 K,
    match K as M {
        1 : A,
        1 : B,
    },
}")).
Eval vm_compute in ("<<<M504>>>" ++ check (runes_of_ascii "packet uint8x
{ match pack
    as msg_type	{
    0123456789 :	float
}
,
} packet //	t
a1
    { } options {packetx
    =")).
Eval vm_compute in ("<<<M1151>>>" ++ check (runes_of_ascii "MetaData leftPad { chars MetaDataX // c
, } packet repeatCount { char[ 255 ] uint8x `" ++ [233]%N ++ runes_of_ascii "` , } MetaData pack { As Foo , }")).
Eval vm_compute in ("<<<M1183>>>" ++ check (runes_of_ascii "MetaData leftPad { chars MetaDataX , } packet repeatCount { char[ 255 ] uint8x `" ++ [233]%N ++ runes_of_ascii "` , } MetaData pack { As // c
Foo , }")).
Eval vm_compute in ("<<<M1539>>>" ++ check (runes_of_ascii "packet
A
{ match k
as n
	{ [1

, 22
, 007  ,4
,
	5

    ,  66
	,
7 ,
8,9
	] :
B

,

2

: 
C}

    , }
")).
Eval vm_compute in ("<<<M1511>>>" ++ check (runes_of_ascii "packet u128 {
    @calculatedFrom(""x y"")
    @rightPad(' ')
    char[42] Header @calculatedFrom(""abc""),
}")).
Eval vm_compute in ("<<<M484>>>" ++ check (runes_of_ascii "packet uint8x
{ match pack
    as msg_type	{
    0123456789 :	float
}
,
} packet //	t
a1
    { }")).
Eval vm_compute in ("<<<M1592>>>" ++ check (runes_of_ascii "packet
A {

match
	k

as  n
	{[ 
1  , 
22
,
    ""c c""
, 4 ,
    5
] :
B,
	2
	:  C
    }
	,}

")).
Eval vm_compute in ("<<<M717>>>" ++ check (runes_of_ascii "// @lengthOf(
packet i8i8 { u128 o , }
options { MetaDataX = true;
    BodyLength =""packet"" ")).
Eval vm_compute in ("<<<M637>>>" ++ check (runes_of_ascii "
~packet
    asx {match u128 as lengthOf
{
//	t
// `tick` ""quote"" 'q'
255 : x ,
    } ,	}")).
Eval vm_compute in ("<<<M602>>>" ++ check (runes_of_ascii "
packet
    asx {match u128 as lengthOf
{
//	t
// `tick` ""quote"" 'q'
255 :  ,
    } ,	}")).
Eval vm_compute in ("<<<M572>>>" ++ check (runes_of_ascii "
packet
    asx {match  as lengthOf
{
//	t
// `tick` ""quote"" 'q'
255 : x ,
    } ,	}")).
Eval vm_compute in ("<<<M852>>>" ++ check (runes_of_ascii "packet A {
  match k as n {
    [1, 22, 007, 4, 5, 66, 7, 8] : B,
    2 : C
  },
}")).
Eval vm_compute in ("<<<M1251>>>" ++ check (runes_of_ascii "packet
Inner
	{u8	a 
,
} root
	packet 
P
{ Inner	ref_obj,  u8	x
,

    }

")).
Eval vm_compute in ("<<<M1932>>>" ++ check (runes_of_ascii "packet roots {
}

MetaData metadata {
    asx matchKey,
    uint64 rootA,
}")).
Eval vm_compute in ("<<<M877>>>" ++ check (runes_of_ascii "packet A { Inner { match k as n { [1,22,007,4,5,66,7,8,9] : B, }, }, }")).
Eval vm_compute in ("<<<M1290>>>" ++ check (runes_of_ascii "root packet P {
    u8 s_u8,
    repeat u8 r_u8,
    u16 b_len,
}
")).
Eval vm_compute in ("<<<M1842>>>" ++ check (runes_of_ascii "//	t
options {
    roots = ""\n"";
    o = '0';
    tag = true
}")).
Eval vm_compute in ("<<<M776>>>" ++ check (runes_of_ascii "packet A {
  match k as n {
    [""a""] : B
    2 : C
  },
}")).
Eval vm_compute in ("<<<M1220>>>" ++ check (runes_of_ascii "packet body { i32 f32a `{ , }` , } options { }
// c
")).
Eval vm_compute in ("<<<M1393>>>" ++ check (runes_of_ascii "packet body {
    i32 f32a `{ , }`,
}

options {
}")).
Eval vm_compute in ("<<<M755>>>" ++ check (runes_of_ascii "string i8 ) } u8 [ uint32 ] } = uint8 '\x00'")).
Eval vm_compute in ("<<<M591>>>" ++ check (runes_of_ascii "
packet
    asx {match u128 as lengthOf")).
Eval vm_compute in ("<<<M1481>>>" ++ check (runes_of_ascii "packet A {
    u8 x `
        `,
}")).
Eval vm_compute in ("<<<M586>>>" ++ check (runes_of_ascii "
packet
    asx {match u128 as")).
Eval vm_compute in ("<<<M381>>>" ++ check (runes_of_ascii "options{
int
=char[] ; }
//
")).
Eval vm_compute in ("<<<M1923>>>" ++ check (runes_of_ascii "
// c x
  packet A{ } ")).
Eval vm_compute in ("<<<M1109>>>" ++ check (runes_of_ascii "MetaData tag { // c
}")).
Eval vm_compute in ("<<<M112>>>" ++ check (runes_of_ascii "packet falsey { }
")).
Eval vm_compute in ("<<<M1051>>>" ++ check (runes_of_ascii "packet A {
}
// c" ++ [65279]%N)).
Eval vm_compute in ("<<<M1054>>>" ++ check (runes_of_ascii "packet A {
}// c" ++ [6158]%N)).
Eval vm_compute in ("<<<M404>>>" ++ check (runes_of_ascii "packet uint8x")).
Eval vm_compute in ("<<<M1025>>>" ++ check (runes_of_ascii "// c" ++ [8287]%N)).
