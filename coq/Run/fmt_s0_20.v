From FP Require Import Lexer Parser ShowPT Digest Formatter.
From Coq Require Import String List NArith.
Import ListNotations.
Open Scope string_scope.
Set Printing Width 100000000.
Set Printing Depth 100000000.
Definition show_fres (r : fres) : string :=
  match r with
  | FOk s => "OK:" ++ sh_escaped s ""
  | FErr s => "ERR:" ++ sh_escaped s ""
  | FPanic p => "PANIC:" ++ p
  end.
Definition check (rs : list rune) : string := digest (show_fres (format_res rs)).
Definition full (rs : list rune) : string := show_fres (format_res rs).
Eval vm_compute in ("<<<M146>>>" ++ check (runes_of_ascii "MetaData
chars {	int8 Z9_,	float rootA	`tab	here`// @lengthOf(
,
//x
// @lengthOf(
T o `it's` ,
roots int , // c
repeatCount MetaDataX, float32
    falsey `say ""hi""`,} packet
    msg_type
{ repeat f32
o // `tick` ""quote"" 'q'
, @tag( 0
)char[]  A	,  repeat char[] tag `say ""hi""` ,repeat char[ 0 ] Z9_ ,
zchar[ 1 ] lengthOf ,
i64 T , match float as
leftPad {
    007 : len /// triple
, ""it's"" : len
    , ""it's"" : // @lengthOf(
float
    [ 255 ,
00
, ""abc"", ""abc""
,
1
, """ ++ [28040; 24687]%N ++ runes_of_ascii """ // `tick` ""quote"" 'q'
, ""x y"" , """" // a // b
] :	_x ,
    """" : len ,""\" ++ [233]%N ++ runes_of_ascii """  : // a // b
i64_
, //	t
}, roots{ char[ 1
]// @lengthOf(
Header
@lengthOf( x_y_z )
    , body u128 , // `tick` ""quote"" 'q'
char[]
float ,chars@lengthOf( x  )
    `doc` ,}
,
    crc `it's`
    // `tick` ""quote"" 'q'
    , @calculatedFrom(""" ++ [128512]%N ++ runes_of_ascii """
    )
    BodyLength `" ++ [28040; 24687; 31867; 22411]%N ++ runes_of_ascii "` , }
    packet
    u128{  lengthOf ,pack
@lengthOf( u8x// c
)`// not a comment`// " ++ [27880; 37322]%N ++ runes_of_ascii "
,@leftPad
    (
' ' ) float{match
    asx as
    charz
{ [ 4294967296,""""
, 255 ,42
    ,""1""  ] : u8x ""{,}""	: Foo 42  :
leftPad[ // trailing space 
255 ,
    // " ++ [128512]%N ++ runes_of_ascii " emoji
    ""a\""b"" , ""it's""  , 4294967296 ] : stringy , 3
:Header ,
} ,match o // `tick` ""quote"" 'q'
as
    Pad
    // trailing space 
    { 3 :
    i64_//x
, } ,repeat
    string msg_type ,
    match
packetx // " ++ [27880; 37322]%N ++ runes_of_ascii "
as
lengthOf
    { [ ""x y"","""" ]
:x_y_z
// " ++ [27880; 37322]%N ++ runes_of_ascii "
// c
}, } ,i64 float,repeat
    zchar[ 3  ] rootA
    `crlf
line`, match msg_type as len{
""CRC32"":
MetaDataX
,
} ,
    f32
A , char[
0123456789 ] chars// " ++ [27880; 37322]%N ++ runes_of_ascii "
`{ , }` , /// triple
@calculatedFrom( ""a\""b""
) string
string_
    `" ++ [233]%N ++ runes_of_ascii "` ,}
")).
Eval vm_compute in ("<<<M1775>>>" ++ check (runes_of_ascii "packet _x {
    leftPad `it's`,
    match Logon as matchKey {
        ""packet"" : stringy,
        3 : u,
        //
        ""1"" : Pad,
    },
    float32 Z9_ @lengthOf(i8i8) `" ++ [233]%N ++ runes_of_ascii "`,
    @tag(3)
    match As as Pad {
        """" : chars,
        ""x y"" : i64_,
    },
    @calculatedFrom(""it's"")
    @leftPad(' ')
    zchar[0123456789] falsey,
    match A as packetx {
        [42] : matchKey,
    },
    @leftPad(' ')
    match x as a1 {
        ""packet"" : a1,
        10 : pack,
        ""{,}"" : u8x,
        [007, 00] : trueish,
        ""x y"" : pack,
        """ ++ [233]%N ++ runes_of_ascii "t" ++ [233]%N ++ runes_of_ascii """ : matchKey,
    },
    @leftPad('0')
    uint8x u,
    zchar[3] u ``,
    @rightPad(' ')
    repeat _x ``,
}

MetaData Foo {
    a1 Z9_,
    options1 T,
    u32 u8x `crlf
        line`,
    metadata falsey,
    lengthOf x_y_z,
}

packet calculatedFrom {
    @tag(3)
    string A,
    match leftPad as a1 {
        //	t
        0123456789 : calculatedFrom,
    },
    match crc as body {
        00 : _x,
    },
    o @calculatedFrom(""x y""),
}

packet T {
}

packet Logon {
    @leftPad('\x00')
    As @calculatedFrom(""a	b"") `line1
        line2`,
    pack lengthOf,
}// `tick` ""quote"" 'q'")).
Eval vm_compute in ("<<<M1344>>>" ++ check (runes_of_ascii "options {
    FixedStringPadFromLeft = true;
    FixedStringPadChar = '0';
}
packet Leg {
    InPrice0 {
        repeat string clOrdID,
        int16 msgKind,
        zchar[5] Px,
    },
    i16 f1,
    repeat f64 Side2,
    string Acct,
}
packet Cancel {
    zchar[4] clOrdID,
    string seqNo,
    Leg,
    @leftPad('0') char[11] OrderId,
}
packet Quote {
    repeat char[4] sym,
    f64 OrderId,
    repeat Leg,
    repeat i64 f1,
    int16 Note,
    zchar[3] count,
}
root packet Ack {
    @leftPad(' ') char[10] sym,
    InPx60 {
        Cancel,
        repeat char[1] f1,
        string Tail,
        repeat InNote55 {
            int8 count,
            f64 f1,
            repeat Cancel,
        },
        char[] tag7,
        repeat string msgKind,
    },
    u8 lastPx,
    match lastPx as Body {
        152 : Quote,
        173 : Cancel,
        4 : Leg,
    },
    u16 Ref @calculatedFrom(""CR\
C32""),
}
")).
Eval vm_compute in ("<<<M1380>>>" ++ check (runes_of_ascii "// top
options
    // c0
{ // c1a
  // c1b
LittleEndian // c2
=
    // c3
true // c4a
  // c4b
; }
    // c6
packet // c7
Logon { u8
    // c10
x , // c12
} // c13a
  // c13b
packet Logout // c15
{ // c16a
  // c16b
u16 reason , } // c20
root // c21a
  // c21b
packet Frame { u8
    // c25
Kind , // c27a
  // c27b
u8
    // c28
Kind2
    // c29
, match // c31
Kind
    // c32
as
    // c33
Body // c34a
  // c34b
{
    // c35
1 :
    // c37
Logon // c38a
  // c38b
, // c39
[ // c40a
  // c40b
2
    // c41
,
    // c42
3
    // c43
, 4 // c45a
  // c45b
] // c46
: Logout // c48a
  // c48b
,
    // c49
100
    // c50
:
    // c51
Logon
    // c52
, // c53a
  // c53b
} // c54
, // c55
match // c56
Kind2 as // c58
Trailer { // c60a
  // c60b
0 : Logout // c63a
  // c63b
, // c64a
  // c64b
} // c65a
  // c65b
, // c66
} // c67
")).
Eval vm_compute in ("<<<M1356>>>" ++ check (runes_of_ascii "options {
    StringPrefixLenType = u16;
    ArrayPrefixLenType = u32;
    FixedStringPadFromLeft = true;
    FixedStringPadChar = '0';
}
packet Cancel {
}
packet Party {
}
packet Logon {
}
packet Ack {
}
packet Logout {
    repeat InSym87 {
        InClordid94 {
            string clOrdID,
        },
        string Px,
        i16 Qty,
        repeat InCount71 {
            repeat Cancel,
            uint16 Tail,
            char[2] x,
            repeat string Ref,
        },
        Cancel,
    },
}
root packet Order {
    repeat string tag7,
    @leftPad(' ') char[3] Px,
    u8 Qty,
    match Qty as Body {
        [28, 62] : Logon,
        148 : Ack,
        88 : Party,
        184 : Cancel,
    },
    u16 Note @calculatedFrom(""CRC32""),
}
")).
Eval vm_compute in ("<<<M117>>>" ++ check (runes_of_ascii "// a // b
packet	u128  {
    repeat chars	{i64 u8x
`
`// a // b
, // c
_x
@lengthOf(  falsey
    )
,
    Logon
`" ++ [28040; 24687; 31867; 22411]%N ++ runes_of_ascii "` ,repeat char[]
trueish `tab	here` ,}
    , } root packet T { match Packet
as
trueish {
""packet"" : charz
    ,
    [4294967296 , ""1"" ] : A , 7 : x
    // " ++ [27880; 37322]%N ++ runes_of_ascii "
    , [
    // a // b
    7 ,""a	b""
    ]
:	u128 255 :
As
    3:
Packet,} ,
//	t
// trailing space 
pack
`a\` , @calculatedFrom( """ ++ [233]%N ++ runes_of_ascii "t" ++ [233]%N ++ runes_of_ascii """ //	t
)
    rootA matchKey  ,
char[ 65535]/// triple
leftPad @lengthOf( roots
    //
    ) , repeat MetaDataX { u64
    a1 @calculatedFrom(""x y"" ) `doc`  ,//	t
uint8 falsey
,
match BodyLength as A
{  [ ""\" ++ [233]%N ++ runes_of_ascii """,255 ,"""" ,
    ""it's"" ] :	Foo ,
3 : u128}	, } ,	}
")).
Eval vm_compute in ("<<<M206>>>" ++ check (runes_of_ascii "//x
root
    // " ++ [128512]%N ++ runes_of_ascii " emoji
    packet
// `tick` ""quote"" 'q'
/// triple
float{options1 A
,@tag(
42 )
    u8x{ tag //x
@calculatedFrom(	""\" ++ [233]%N ++ runes_of_ascii """) // packet A { u8 x, }
`tab	here` ,
    }
    , int16 asx ,
    @lengthOf( o
    )
@rightPad( ) repeat int
/// triple
/// triple
Logon,@calculatedFrom(""// no comment"" )  @leftPad('\x00')
    @rightPad('0'	)	zchar[ 65535 //x
] o `
`
    ,
    repeat As{ //x
repeat uint16 o ,repeat
char[ // trailing space 
1
    ]o ,
u128
metadata	, repeat char[7	] Header ,
    } , @tag( 0123456789
    ) a1 tag
    , float32 asx ,
    repeat // packet A { u8 x, }
len
``
    ,}
")).
Eval vm_compute in ("<<<M1842>>>" ++ check (runes_of_ascii "options
{
ArrayPrefixLenType
    =u64  ;FixedStringPadFromLeft
    = 
true
	; FixedStringPadChar =

    '0'

    ;}

    packet
Quote
	{ }packet 
Ack

    {
	repeat 
InNote66

{
    u8

    pad0 
,}
	,
	}

packet

Reject
{ }
root packet
Order {

Quote ,repeat

    Reject ,  string venue
	,
string

    seqNo,

    uint32
	Ref
,

u16
lastPx,

u32
clOrdID	@lengthOf(
Body
)

, match lastPx
    as Body

    { 190

:

    Reject

, 
186:
    Quote , 
22
    :
	Ack

,

}
    ,	u16
	Flags @calculatedFrom( ""CR\
C32"" )

    , }")).
Eval vm_compute in ("<<<M294>>>" ++ check (runes_of_ascii "options { rootA = 4294967296 ; falsey = ""a\""b""
;
As =
// @lengthOf(
/// triple
""""
;packetx
    = ""packet"" i8i8 =true ;
} // `tick` ""quote"" 'q'
packet x  { repeat zchar
rootA , char[]
    pack  `// not a comment`
,@tag( 00 )
@tag( 0123456789)
u @calculatedFrom( ""packet"" )`u8 x,` , Header{
    zchar[ 00
    ] body
,
    a1	@calculatedFrom( // " ++ [128512]%N ++ runes_of_ascii " emoji
""it's"" )
`" ++ [233]%N ++ runes_of_ascii "`, }, } // " ++ [27880; 37322]%N ++ runes_of_ascii "
MetaData
    A // a // b
{zchar /// triple
matchKey
    `` , int64 metadata ,char[] _x //	t
, }
")).
Eval vm_compute in ("<<<M1893>>>" ++ check (runes_of_ascii "options {
    rootA = 4294967296;
    falsey = ""a\""b"";
    As = """";
    packetx = ""packet""
    i8i8 = true;
}// `tick` ""quote"" 'q'

packet x {
    repeat zchar rootA,
    char[] pack `// not a comment`,
    @tag(00)
    @tag(0123456789)
    u @calculatedFrom(""packet"") `u8 x,`,
    Header {
        zchar[00] body,
        a1 @calculatedFrom(""it's"") `" ++ [233]%N ++ runes_of_ascii "`,
    },
}// " ++ [27880; 37322]%N ++ runes_of_ascii "

MetaData A {
    zchar matchKey ``,
    int64 metadata,
    char[] _x,
}")).
Eval vm_compute in ("<<<M1236>>>" ++ check (runes_of_ascii "// top
options // c0a
  // c0b
{ f32a
    // c2
= // c3
0 } // c5
packet trueish // c7a
  // c7b
{ // c8
}
    // c9
MetaData _x // c11
{ char[ // c13a
  // c13b
0123456789 // c14
] // c15a
  // c15b
zchar
    // c16
, // c17a
  // c17b
string // c18
crc ,
    // c20
char[
    // c21
1 ] // c23a
  // c23b
options1
    // c24
, uint8 // c26a
  // c26b
repeatCount
    // c27
, // c28
} // c29
")).
Eval vm_compute in ("<<<M75>>>" ++ check (runes_of_ascii "packet zchar { @calculatedFrom( ""`tick`""
) uint32
    falsey,} MetaData packetx {
string
//
// @lengthOf(
msg_type `u8 x,`, }packet i8i8 {zchar@lengthOf(
uint8x
    ) ,
    }packet As{ zchar[ 4294967296
    // " ++ [27880; 37322]%N ++ runes_of_ascii "
    ] T	@calculatedFrom( ""abc"" ) , @tag(007 )
    repeat
    i16
// " ++ [27880; 37322]%N ++ runes_of_ascii "
// packet A { u8 x, }
u8x `say ""hi""`, @lengthOf( u )
repeat uint16 u128 , }")).
Eval vm_compute in ("<<<M1587>>>" ++ check (runes_of_ascii "options {
    LittleEndian = true;
    StringPrefixLenType = u16;
    FixedStringPadChar = ' ';
}

packet Logon {
    @leftPad('0')
    char[10] tag7,
}

root packet Ack {
    int32 Px,
    uint16 count,
    string Qty,
    string OrderId,
    string Flags,
    u8 x,
    match x as Body {
        [58, 169] : Logon,
    },
}")).
Eval vm_compute in ("<<<M370>>>" ++ check (runes_of_ascii "  root packet trueish // " ++ [128512]%N ++ runes_of_ascii " emoji
{ char[] MetaDataX , @leftPad (
    // trailing space 
    '0' )match float as
//x
// trailing space 
crc { 0123456789 :// " ++ [27880; 37322]%N ++ runes_of_ascii "
chars	, ""{,}"" : i8i8,
}
, f32a
    // " ++ [128512]%N ++ runes_of_ascii " emoji
    f32a `tab	here` ,// " ++ [128512]%N ++ runes_of_ascii " emoji
@lengthOf( Foo )
    Packet@calculatedFrom( """ ++ [28040; 24687]%N ++ runes_of_ascii """ ) `it's` , }
")).
Eval vm_compute in ("<<<M1421>>>" ++ check (runes_of_ascii "root  // trailing space 
packet int
{ f32a@calculatedFrom( ""packet""
) 
`
`  ,

    }  options {
rootA 

    // @lengthOf(
	=
	""\" ++ [233]%N ++ runes_of_ascii """	;}
packet i8i8

{ 

// trailing space 
      uint8
	uint8x 
@lengthOf(	string_ ) 	 //	t

	,i32 
tag  //	t
@lengthOf(
Logon

)
, }
")).
Eval vm_compute in ("<<<M203>>>" ++ check (runes_of_ascii "root packet Pad {match //	t
falsey as
    A{
255:// `tick` ""quote"" 'q'
T, } , int64
Header	`tab	here`
, repeat i64_ `line1
line2`, @tag( 7 )
    float32	zchar
    @calculatedFrom( ""\" ++ [233]%N ++ runes_of_ascii """
    )
//
// @lengthOf(
,u64 Header ,
    }
")).
Eval vm_compute in ("<<<M1660>>>" ++ check (runes_of_ascii "packet f32a {
    @rightPad('0')
    @lengthOf(BodyLength)
    uint8 Foo ``,
    //x
    char[] options1 @calculatedFrom(""it's""),
    @tag(255)
    uint64 Header @calculatedFrom(""abc"") `
        `,
}")).
Eval vm_compute in ("<<<M1743>>>" ++ check (runes_of_ascii "

  root
	packet T{ zchar[// a // b
0123456789
]  // c
uint8x	,
	} 
root	packet

metadata
{  @rightPad
(
)x_y_z	@lengthOf( 
stringy 
) 
      // `tick` ""quote"" 'q'
// c
		,}

")).
Eval vm_compute in ("<<<M1914>>>" ++ check (runes_of_ascii "
MetaData
leftPad

    {
	chars

MetaDataX
, } packet
repeatCount{	char[ 255
    ]  uint8x

`" ++ [233]%N ++ runes_of_ascii "` , }// c
  	MetaData
    pack

    {

    As Foo,

    }
")).
Eval vm_compute in ("<<<M511>>>" ++ check (runes_of_ascii "packet uint8x
{ match pack
    as msg_type	{
    0123456789 :	float
}
,
} packet //	t
a1
    { } options {packetx
    = '\x00'	; u128 u128= ""a	b""  ; }
")).
Eval vm_compute in ("<<<M506>>>" ++ check (runes_of_ascii "packet uint8x
{ match pack
    as msg_type	{
    0123456789 :	float
}
,
} packet //	t
a1
    { } options {packetx
    = '\x00'	; ; u128= ""a	b""  ; }
")).
Eval vm_compute in ("<<<M422>>>" ++ check (runes_of_ascii "packet uint8x
{ match pack
    as {	msg_type
    0123456789 :	float
}
,
} packet //	t
a1
    { } options {packetx
    = '\x00'	; u128= ""a	b""  ; }
")).
Eval vm_compute in ("<<<M450>>>" ++ check (runes_of_ascii "packet uint8x
{ match pack
    as msg_type	{
    0123456789 :	float
}

} packet //	t
a1
    { } options {packetx
    = '\x00'	; u128= ""a	b""  ; }
")).
Eval vm_compute in ("<<<M1772>>>" ++ check (runes_of_ascii "MetaData leftPad
	{	chars  MetaDataX	,  } packet 
repeatCount 
{ 
char[ 255]
	uint8x
`" ++ [233]%N ++ runes_of_ascii "`

    ,

    // c
}
MetaData

pack
{ As 
Foo

    ,}
")).
Eval vm_compute in ("<<<M660>>>" ++ check (runes_of_ascii "/""/ @lengthOf(
packet i8i8 { u128 o , }
options { MetaDataX = true;
    BodyLength =""packet"" x_y_z= 007
crc //x
= ""abc"" ;
    msg_type =
i16 }")).
Eval vm_compute in ("<<<M689>>>" ++ check (runes_of_ascii "// @lengthOf(
packet i8i8 { u128 o , }
options { MetaDataX  true;
    BodyLength =""packet"" x_y_z= 007
crc //x
= ""abc"" ;
    msg_type =
i16 }")).
Eval vm_compute in ("<<<M1634>>>" ++ check (runes_of_ascii "packet A {
    Inner {
        u8 x `
                `,
        Deep {
            u8 y `
                        `,
        },
    },
}")).
Eval vm_compute in ("<<<M1588>>>" ++ check (runes_of_ascii "packet A {	u16 len 
@lengthOf( body

    )
    `x
`
,
    u32

crc

    @calculatedFrom(	""CRC32"" 
)`x
`
,

string

body
,	} ")).
Eval vm_compute in ("<<<M1261>>>" ++ check (runes_of_ascii "packet B {
    u8 a,
}
root packet P {
    u8 K,
    u64 L @lengthOf(Body),
    match K as Body {
        1 : B,
    },
}
")).
Eval vm_compute in ("<<<M1150>>>" ++ check (runes_of_ascii "MetaData leftPad { chars
// c
MetaDataX , } packet repeatCount { char[ 255 ] uint8x `" ++ [233]%N ++ runes_of_ascii "` , } MetaData pack { As Foo , }")).
Eval vm_compute in ("<<<M1182>>>" ++ check (runes_of_ascii "MetaData leftPad { chars MetaDataX , } packet repeatCount { char[ 255 ] uint8x `" ++ [233]%N ++ runes_of_ascii "` , } MetaData pack {
// c
As Foo , }")).
Eval vm_compute in ("<<<M239>>>" ++ check (runes_of_ascii "options { lengthOf =3
trueish
// packet A { u8 x, }
// trailing space 
=
    true
; calculatedFrom =
007;} 	 ")).
Eval vm_compute in ("<<<M24>>>" ++ check (runes_of_ascii "options { metadata
= '\x00' ;
    u128
=
    ""CRC32"" ; charz = ' 'options1 = 00 ; }
packet string_ { }
")).
Eval vm_compute in ("<<<M1317>>>" ++ check (runes_of_ascii "packet FooBar {
    u8 a,
}
packet foo_bar {
    u16 b,
}
root packet R {
    FooBar,
    foo_bar,
}
")).
Eval vm_compute in ("<<<M554>>>" ++ check (runes_of_ascii "
packet packet
    asx {match u128 as lengthOf
{
//	t
// `tick` ""quote"" 'q'
255 : x ,
    } ,	}")).
Eval vm_compute in ("<<<M887>>>" ++ check (runes_of_ascii "packet A {
  match k as n {
    [1, 22, ""c c"", 4, 5, ""f"", 7, 8, ""i"", 10] : B
    2 : C
  },
}")).
Eval vm_compute in ("<<<M870>>>" ++ check (runes_of_ascii "packet A {
  match k as n {
    [1, ""bb"", 007, ""d"", 5, ""f"", 7, ""h"", 9] : B
    2 : C
  },
}")).
Eval vm_compute in ("<<<M614>>>" ++ check (runes_of_ascii "
packet
    asx {match u128 as lengthOf
{
//	t
// `tick` ""quote"" 'q'
255 : x ,
    , }	}")).
Eval vm_compute in ("<<<M1307>>>" ++ check (runes_of_ascii "  packet
orderItem 
{
	u8
    a
    , 
}root
packet
newOrder{ orderItem	, 
u8
x
	,
}")).
Eval vm_compute in ("<<<M116>>>" ++ check (runes_of_ascii "root packet Z9_ { repeat lengthOf
pack , repeat
    A {	repeatCount`doc` ,
    },	}")).
Eval vm_compute in ("<<<M1723>>>" ++ check (runes_of_ascii "root packet 
P
{

    u16 a	,

u32 Sum
	@calculatedFrom(""CRC32"")

    , }
")).
Eval vm_compute in ("<<<M903>>>" ++ check (runes_of_ascii "packet A { Inner { match k as n { [1,22,007,4,5,66,7,8,9,10,11] : B, }, }, }")).
Eval vm_compute in ("<<<M1099>>>" ++ check (runes_of_ascii "packet A {
    match k as n {
        1 : B // c
        , // d
    },
}")).
Eval vm_compute in ("<<<M1656>>>" ++ check (runes_of_ascii "MetaData M {
    u8 x `tab
        	x`,
    T t `tab
        	x`,
}")).
Eval vm_compute in ("<<<M785>>>" ++ check (runes_of_ascii "packet A {
  match k as n {
    [""a"", 22] : B
    2 : C
  },
}")).
Eval vm_compute in ("<<<M1706>>>" ++ check (runes_of_ascii "root packet P {
    hdr {
        u8 a,
    },
    u8 x,
}")).
Eval vm_compute in ("<<<M1198>>>" ++ check (runes_of_ascii "
// c
packet body { i32 f32a `{ , }` , } options { }")).
Eval vm_compute in ("<<<M332>>>" ++ check (runes_of_ascii "MetaData o
    { } MetaData T  {
    } options { }")).
Eval vm_compute in ("<<<M1449>>>" ++ check (runes_of_ascii "
root

packet
	chars

{ i16 
leftPad
, 
}
")).
Eval vm_compute in ("<<<M1921>>>" ++ check (runes_of_ascii "options {
    a = 1;// a
    b = 2// b
}")).
Eval vm_compute in ("<<<M1615>>>" ++ check (runes_of_ascii "root packet u {
}// trailing space ")).
Eval vm_compute in ("<<<M1613>>>" ++ check (runes_of_ascii "

  // c
    MetaData  tag
{
} ")).
Eval vm_compute in ("<<<M1048>>>" ++ check (runes_of_ascii "packet A {
 u8 x `d" ++ [8203]%N ++ runes_of_ascii "`, // c" ++ [8203]%N ++ runes_of_ascii "
}")).
Eval vm_compute in ("<<<M1953>>>" ++ check (runes_of_ascii "  packet

int
{
} 
//	t
")).
Eval vm_compute in ("<<<M1470>>>" ++ check (runes_of_ascii "
// c" ++ [133]%N ++ runes_of_ascii "
packet  A {}
")).
Eval vm_compute in ("<<<M22>>>" ++ check (runes_of_ascii "packet leftPad {
}")).
Eval vm_compute in ("<<<M997>>>" ++ check (runes_of_ascii "// c" ++ [5760]%N ++ runes_of_ascii "
packet A {
}")).
Eval vm_compute in ("<<<M172>>>" ++ check (runes_of_ascii "packet
len { }

")).
Eval vm_compute in ("<<<M310>>>" ++ check (runes_of_ascii "
MetaData A {}
")).
Eval vm_compute in ("<<<M732>>>" ++ check (runes_of_ascii "// a
// b
")).
Eval vm_compute in ("<<<M157>>>" ++ check (runes_of_ascii "//

")).
