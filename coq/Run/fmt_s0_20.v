From FP Require Import Lexer Parser ShowPT Digest Formatter.
From Coq Require Import String List NArith.
Import ListNotations.
Open Scope string_scope.
Set Printing Width 100000000.
Set Printing Depth 100000000.
Definition show_fres (r : fres) : string :=
  match r with
  | FOk s => "OK:" ++ sh_escaped s ""
  | FErr s => "ERR:" ++ sh_escaped s ""
  | FPanic p => "PANIC:" ++ p
  end.
Definition check (rs : list rune) : string := digest (show_fres (format_res rs)).
Definition full (rs : list rune) : string := show_fres (format_res rs).
Eval vm_compute in ("<<<M218>>>" ++ check (runes_of_ascii "packet rootA
    {Header { repeat i64 int ,
char[]x	@lengthOf(
metadata
    ) , }
,@leftPad (// a // b
'\x00'
    /// triple
    )a1 string_ , @tag( 0 ) char[]
    pack @lengthOf( uint8x
), @calculatedFrom(""a	b"" )
// " ++ [128512]%N ++ runes_of_ascii " emoji
//x
f64
string_
    , char[] packetx ,
}
packet  repeatCount	{@rightPad(	)
falsey A
    `" ++ [233]%N ++ runes_of_ascii "`,// packet A { u8 x, }
repeat _x {
    u8x
, f32a {char[ 7 ] Header
    // `tick` ""quote"" 'q'
    @lengthOf( i8i8 )
`" ++ [233]%N ++ runes_of_ascii "` ,
    // trailing space 
    } , Header Pad , u8x Logon
`100% of %d`, }  , repeat string o , int16 zchar@calculatedFrom(// a // b
""CRC32"" )	`two words`, @tag( 4294967296 )chars { Pad
packetx`two words` , uint32 stringy@lengthOf( x_y_z ) ``	,	}
    ,	repeat Header{
repeat char[ // c
4294967296
] Header ,	trueish As , //x
body ,
u8 msg_type `tab	here` , } , // a // b
f64
    u8x
`two words`,  repeat len
    lengthOf,
    } options/// triple
{
rootA
=
'0' i64_
    =/// triple
zchar[ 0123456789] ; } packet msg_type
    { x @lengthOf( uint8x) ,@tag( 00 ) char[] calculatedFrom	,
    repeat Z9_
{ repeat float64 Pad
    //x
    , } ,}// c
root
    packet calculatedFrom{ zchar[
1
    ]
    f32a, repeat
    uint8x {
match crc  as u8x{0 : zchar , [
65535 ,
0
, ""CRC32""  ,	4294967296 ,
42, ""\" ++ [233]%N ++ runes_of_ascii """] :chars, ""`tick`"" :
pack , 255
// " ++ [128512]%N ++ runes_of_ascii " emoji
//	t
:Pad, }
    ,
    string a1 `it's`
,
tag
{ a1
    , //
match BodyLength as //x
options1
{
    ""packet""
: Z9_ } , MetaDataX@calculatedFrom( """ ++ [28040; 24687]%N ++ runes_of_ascii """
    ) // packet A { u8 x, }
,
tag
Pad
// a // b
// 50% %s
, },
    }  ,
@tag(
255
)zchar[0123456789
    ]o //x
,  int16 Logon , @calculatedFrom( """ ++ [128512]%N ++ runes_of_ascii """
)
char[ 0 ] metadata
`it's`
    , }
")).
Eval vm_compute in ("<<<M1943>>>" ++ check (runes_of_ascii "packet packetx {
}

root packet repeatCount {
    int16 rootA @lengthOf(len) ``,
    i32 A @calculatedFrom(""a\\""),
    i16 asx @calculatedFrom(""x y""),
    repeat char[] x,
}

root packet lengthOf {
    @leftPad('0')
    @calculatedFrom(""\" ++ [233]%N ++ runes_of_ascii """)
    @lengthOf(Z9_)
    repeat char[] As,
    @rightPad(' ')
    repeat zchar,
    match a1 as pack {
        [3] : lengthOf,
        [007, ""x y""] : A,
    },
    repeat chars {
        char[4294967296] body,
        body @lengthOf(pack),
        string Z9_,
    },
    @leftPad(' ')
    zchar[255] Header,
    @tag(0)
    repeat char[00] roots,
    match crc as body {
        ""`tick`"" : a1,
    },
    @tag(1)
    char[] rootA @calculatedFrom(""" ++ [233]%N ++ runes_of_ascii "t" ++ [233]%N ++ runes_of_ascii """),
}

packet pack {
    match Packet as repeatCount {
        //x
        ""a	b"" : pack,
    },
    packetx packetx,//	t
    match o as Packet {
        // a // b
        0123456789 : lengthOf,
        // `tick` ""quote"" 'q'
        ""CRC32"" : i64_,
        1 : asx,
        ""\" ++ [233]%N ++ runes_of_ascii """ : o,
        ""a	b"" : u128,
        ""// no comment"" : Packet,
        // `tick` ""quote"" 'q'
    },
    @leftPad('0')
    @calculatedFrom(""" ++ [128512]%N ++ runes_of_ascii """)
    A @calculatedFrom(""{,}"") `u8 x,`,
    @tag(255)
    float32 MetaDataX,
    char[] u128 @lengthOf(zchar),
    match x as _x {
        00 : A,
    },
    //	t
}")).
Eval vm_compute in ("<<<M1538>>>" ++ check (runes_of_ascii "root
packet 
len

{	match x
as
	metadata  // " ++ [27880; 37322]%N ++ runes_of_ascii "
	{

    [
    1  
  // packet A { u8 x, }
    	//x
	,
    0
,""""	,""a	b"" 
, 00

]
    : pack
	,[""// no comment"",
""x y""
,
""" ++ [233]%N ++ runes_of_ascii "t" ++ [233]%N ++ runes_of_ascii """

    ]	:  Packet//
		,  }  ,	repeat
    lengthOf
u128 ,

@calculatedFrom( 
// " ++ [128512]%N ++ runes_of_ascii " emoji
  	""it's""	)  @lengthOf(calculatedFrom
    // trailing space 
  // 50% %s
      )
	@lengthOf( u

)
	metadata
{
	int8
lengthOf
`crlf
line`,
    } ,
@tag( // trailing space 
4294967296

)calculatedFrom	{  f32
    i64_ 	 // packet A { u8 x, }
`" ++ [233]%N ++ runes_of_ascii "` 
,
}
    , 
@lengthOf(

BodyLength

    )repeat 	 //x
	char[

65535] float 
	    // `tick` ""quote"" 'q'
	// c
      ,
@calculatedFrom(  ""\" ++ [233]%N ++ runes_of_ascii """  ) i64_{match
    stringy
as

    _x
{ 	 //	t
		[

    4294967296 ,
3
	] : i8i8 , [
""a\""b""

    ]	:  x_y_z
	,
3
	:len	,  }	, }
    ,
@tag(	// trailing space 
0

    )

zchar[

7]
    x_y_z	, @lengthOf(
Header)repeat
    // 50% %s
    /// triple
  u64  As`
`
,// " ++ [27880; 37322]%N ++ runes_of_ascii "
    @rightPad( )/// triple
	@rightPad 
('\x00'
) u16
Header
    `{ , }`
,} ")).
Eval vm_compute in ("<<<M22>>>" ++ check (runes_of_ascii "root packet packetx
{	char[] leftPad
@lengthOf( chars )
, @lengthOf(
u
    )repeat uint8 float , A
,	zchar[ 4294967296 ]string_ @lengthOf( float ), match
rootA
as As {// " ++ [128512]%N ++ runes_of_ascii " emoji
[
    ""it's"", 255
    ,// 50% %s
0123456789
,""" ++ [233]%N ++ runes_of_ascii "t" ++ [233]%N ++ runes_of_ascii """, ""{,}"" , ""abc"" ,
""" ++ [233]%N ++ runes_of_ascii "t" ++ [233]%N ++ runes_of_ascii """
]
    :int , 4294967296
:
    tag// trailing space 
, }, @calculatedFrom(
    ""\" ++ [233]%N ++ runes_of_ascii """
    // packet A { u8 x, }
    ) @lengthOf( tag ) match leftPad as u {[ ""it's""
    ] : string_,
} , @calculatedFrom( ""\n""
// 50% %s
// packet A { u8 x, }
) @lengthOf(calculatedFrom)
    // 50% %s
    @lengthOf(
// trailing space 
// trailing space 
MetaDataX)charz, @tag( 65535 ) match f32a as rootA
    { [
    """ ++ [128512]%N ++ runes_of_ascii """ ] :
falsey 0 :// packet A { u8 x, }
MetaDataX, // @lengthOf(
}
    ,
char[
    007 ] i8i8 @calculatedFrom( // c
""" ++ [233]%N ++ runes_of_ascii "t" ++ [233]%N ++ runes_of_ascii """
// trailing space 
// " ++ [128512]%N ++ runes_of_ascii " emoji
) `
` ,
} options{trueish
    /// triple
    = // c
true ; rootA	= ""\" ++ [233]%N ++ runes_of_ascii """; trueish
= false ; } // a // b")).
Eval vm_compute in ("<<<M260>>>" ++ check (runes_of_ascii "
packet
pack { char[] falsey ,  @lengthOf(
zchar) @rightPad	(
)
    float
    roots,	@calculatedFrom(""// no comment""
    ) i64 u8x ,
@lengthOf(
lengthOf)@leftPad	(
    )
    @tag(
    4294967296	) Packet, match uint8x as Foo // `tick` ""quote"" 'q'
{
    ""abc""
: string_ , } ,
Logon{repeat//
char[ 65535 ]matchKey `100% of %d`
,
zchar[
    0123456789] leftPad @calculatedFrom( ""// no comment"" ) ,string // packet A { u8 x, }
len, }, // @lengthOf(
u64 body  @lengthOf( string_ )
    ,
    // c
    Z9_
charz `tab	here` ,
    //x
    }MetaData u
    { lengthOf chars `" ++ [28040; 24687; 31867; 22411]%N ++ runes_of_ascii "` ,  char[ // 50% %s
007 ] options1`100% of %d`, body u8x , float32/// triple
body
`u8 x,` , } packet //	t
T // c
{}
    packet
    i8i8
{
    string
    packetx, tag
falsey,} 	 ")).
Eval vm_compute in ("<<<M1576>>>" ++ check (runes_of_ascii "// top
    packet // c0a
    // c0b
  	u128 

// c1
{// c2a
	  // c2b
u8
    // c3
  a
,

// c5
}	// c6a
    // c6b
root	// c7a
	// c7b
    packet // c8a

	// c8b
      Msg // c9

{ 	 // c10a
// c10b
  u8 
  // c11
    k 	 // c12a
// c12b
	,  u24// c14a
    // c14b

	{  // c15
	u8	// c16a

	// c16b
  Hi 

// c17
      ,u16 	 // c19
Lo
	,// c21
}, 	 // c23a
  // c23b
  repeat 
	    // c24
  	i24
// c25
    {// c26
		u32  
      // c27

q 
// c28
  , 	 // c29

}	// c30
,	// c31
u128	// c32
  ,// c33
  	u16  // c34a
    // c34b
	float32x
    ,	// c36
  string// c37a
		// c37b
s // c38a
	// c38b
  	,	// c39a
  // c39b
    }// c40a
	// c40b
")).
Eval vm_compute in ("<<<M1784>>>" ++ check (runes_of_ascii "
// top
  	packet	// c0a
    // c0b
    _x // c1

{ 
// c2

  match// c3a
  // c3b
  Foo // c4
    as	// c5

	Z9_ 
	    // c6
		{""a	b"" 
	// c8
:  // c9
Pad  // c10a

  // c10b
,
}

    // c12
  ,// c13a
	  // c13b
repeat  // c14
    x// c15
    `// not a comment` 
    // c16
  	,
    @rightPad  // c18

	( 	 // c19a
      // c19b
' '

)
    // c21
@calculatedFrom(	// c22
	""a\\""  // c23a
// c23b
) 
    // c24
	metadata  // c25
  	MetaDataX // c26
	,
@tag(
	    // c28
  0  // c29a
	  // c29b
    	) Logon
        // c31
    int	`two words` 
    // c33
,} // c35
")).
Eval vm_compute in ("<<<M61>>>" ++ check (runes_of_ascii "MetaData trueish // " ++ [128512]%N ++ runes_of_ascii " emoji
{
uint64
Z9_	`u8 x,` // packet A { u8 x, }
, zchar[ 3 ]	tag , } root packet tag// " ++ [128512]%N ++ runes_of_ascii " emoji
{Packet	chars ,  }	packet trueish
    { @lengthOf(
    roots )string repeatCount , @calculatedFrom( ""1""
) @leftPad// 50% %s
(	'\x00' ) @tag(3
)
    int16 stringy ,
    // `tick` ""quote"" 'q'
    @rightPad
( '0'
    ) @rightPad('\x00')
//
// c
@lengthOf(
    x ) repeat	trueish pack
    `a\`, len // " ++ [128512]%N ++ runes_of_ascii " emoji
, @tag( 3 ) char packetx , } // `tick` ""quote"" 'q'
packet u
    {
u64 options1 //	t
, }	options { }
")).
Eval vm_compute in ("<<<M245>>>" ++ check (runes_of_ascii "root packet x { } options
    {	msg_type
=	false //	t
; Z9_ =	0 ;
    // c
    }
MetaData metadata{
} packet	_x{ @tag(65535) match BodyLength
as metadata
    {
10
:trueish , [// `tick` ""quote"" 'q'
""{,}"" ] : u// @lengthOf(
,
    }
    , @calculatedFrom(""CRC32""
)@rightPad( '0' ) lengthOf string_
    ,// 50% %s
@lengthOf( matchKey
) Packet
    { lengthOf@lengthOf( uint8x
    ) `` ,
i8i8 { repeat msg_type lengthOf,
    // c
    matchKey	,},
    o @lengthOf( lengthOf ) , }, }
//	t
")).
Eval vm_compute in ("<<<M1871>>>" ++ check (runes_of_ascii "
MetaData 
o  //
{
    MetaDataX	As 
`crlf
line` ,
    string_
	T

    ,
    zchar[

    1
]
    Header, 	 //	t
}	packet packetx{// " ++ [128512]%N ++ runes_of_ascii " emoji
		repeat  //	t
  char[ 10
    // @lengthOf(
	//
	] crc `a\`

, @tag(42	) repeat char[]
	asx
    `// not a comment`
, 
zchar[
// a // b
	// " ++ [128512]%N ++ runes_of_ascii " emoji
    	007
]

len @lengthOf(
u )	`a\`
	,	@leftPad
    ( '\x00' ) @tag(

    3 )

    @calculatedFrom(  ""a\""b""

)

char[  //x
10
] As`
` ,  } ")).
Eval vm_compute in ("<<<M1376>>>" ++ check (runes_of_ascii "options {
    ArrayPrefixLenType = u64;
    FixedStringPadFromLeft = true;
    FixedStringPadChar = '0';
}
packet Order {
}
root packet Leg {
    char[] Ref,
    repeat Order,
    f32 Acct,
    @leftPad('0') char[10] venue,
    @rightPad('0') char[3] seqNo,
    repeat u64 Px,
    u8 Flags,
    u32 lastPx @lengthOf(Body),
    match Flags as Body {
        185 : Order,
    },
    u16 sym @calculatedFrom(""CRC32""),
}
")).
Eval vm_compute in ("<<<M1411>>>" ++ check (runes_of_ascii "// top
    options // c0
  {	// c1a
      // c1b
  }  
      // c2

	options  // c3
  { 
// c4
  MetaDataX
        // c5

	=// c6a
  // c6b
  char// c7a
    // c7b
  ;
    }	// c9
MetaData	// c10
  	Pad // c11

{	// c12
i8	metadata  // c14a
    // c14b
	, // c15
      string  // c16a
// c16b

stringy  ,
int8	// c19a

// c19b
  	As// c20
	`{ , }`
        // c21
	,

}

")).
Eval vm_compute in ("<<<M267>>>" ++ check (runes_of_ascii "// " ++ [128512]%N ++ runes_of_ascii " emoji
packet  Header {metadata
, T @calculatedFrom( ""// no comment""
)
    `100% of %d` , // " ++ [128512]%N ++ runes_of_ascii " emoji
options1
i64_ , } options
{
    /// triple
    len =	' ' int = /// triple
i64 tag
=0123456789 calculatedFrom
= // packet A { u8 x, }
""\" ++ [233]%N ++ runes_of_ascii """
} options
{As  = false matchKey =""\n"" ; }options {
pack
= ""a\\"" ; float = """ ++ [28040; 24687]%N ++ runes_of_ascii """ A =
7 i8i8 =	42; }
")).
Eval vm_compute in ("<<<M1435>>>" ++ check (runes_of_ascii "packet leftPad {
    @tag(10)
    @tag(007)
    @lengthOf(a1)
    repeat metadata,
}

options {
    // " ++ [128512]%N ++ runes_of_ascii " emoji
    lengthOf = """ ++ [128512]%N ++ runes_of_ascii """;
}

packet T {
    A {
        tag @calculatedFrom(""abc""),
    },
    @lengthOf(matchKey)
    string Header @lengthOf(metadata),
    leftPad @calculatedFrom(""a\""b"") `tab	here`,
}")).
Eval vm_compute in ("<<<M94>>>" ++ check (runes_of_ascii "packet BodyLength{ }
    MetaData Z9_{ // c
Z9_ _x
    , }	packet
float
{@tag(
    42 )
@calculatedFrom(// `tick` ""quote"" 'q'
""// no comment"")
    char[
    42
]	packetx
    `it's`
, } MetaData body{  uint16 zchar `" ++ [233]%N ++ runes_of_ascii "` // " ++ [27880; 37322]%N ++ runes_of_ascii "
, i32 Pad`" ++ [28040; 24687; 31867; 22411]%N ++ runes_of_ascii "`
,i8 Header
,  u16 u128 , i32 u, }
")).
Eval vm_compute in ("<<<M144>>>" ++ check (runes_of_ascii "packet leftPad { @leftPad
(
' ' ) @calculatedFrom( """ ++ [28040; 24687]%N ++ runes_of_ascii """	) zchar[
    4294967296 ]string_, metadata
    { tag  @lengthOf( body ) `two words` ,} ,@tag( 255 )
int16 asx @calculatedFrom( ""a	b""
    )
// `tick` ""quote"" 'q'
// `tick` ""quote"" 'q'
`{ , }`// c
, }
")).
Eval vm_compute in ("<<<M424>>>" ++ check (runes_of_ascii "packet
    asx { @calculatedFrom(
""""  ) @tag( options )repeat
// packet A { u8 x, }
// trailing space 
int16 u8x
,
@tag(
    //
    007 )
    @tag( 0
    /// triple
    ) @tag( 1) u
    @lengthOf( T ),
// `tick` ""quote"" 'q'
//x
} // " ++ [128512]%N ++ runes_of_ascii " emoji")).
Eval vm_compute in ("<<<M535>>>" ++ check (runes_of_ascii "packet
    asx { @calculatedFrom(
""""  ) @tag( 2@55 )repeat
// packet A { u8 x, }
// trailing space 
int16 u8x
,
@tag(
    //
    007 )
    @tag( 0
    /// triple
    ) @tag( 1) u
    @lengthOf( T ),
// `tick` ""quote"" 'q'
//x
} // " ++ [128512]%N ++ runes_of_ascii " emoji")).
Eval vm_compute in ("<<<M488>>>" ++ check (runes_of_ascii "packet
    asx { @calculatedFrom(
""""  ) @tag( 255 )repeat
// packet A { u8 x, }
// trailing space 
int16 u8x
,
@tag(
    //
    007 )
    @tag( 0
    /// triple
    ) @tag( )1 u
    @lengthOf( T ),
// `tick` ""quote"" 'q'
//x
} // " ++ [128512]%N ++ runes_of_ascii " emoji")).
Eval vm_compute in ("<<<M391>>>" ++ check (runes_of_ascii "packet
     { @calculatedFrom(
""""  ) @tag( 255 )repeat
// packet A { u8 x, }
// trailing space 
int16 u8x
,
@tag(
    //
    007 )
    @tag( 0
    /// triple
    ) @tag( 1) u
    @lengthOf( T ),
// `tick` ""quote"" 'q'
//x
} // " ++ [128512]%N ++ runes_of_ascii " emoji")).
Eval vm_compute in ("<<<M126>>>" ++ check (runes_of_ascii "packet u{ } packet charz { char[
//
// " ++ [128512]%N ++ runes_of_ascii " emoji
255// " ++ [128512]%N ++ runes_of_ascii " emoji
]options1
,@calculatedFrom( """") zchar[ //x
00 ] leftPad
, char[]  A`it's` ,} options{ i8i8 = '\x00' ;u128
= ' ' ; options1=42; charz
    =
""\n""
int= true ;}
")).
Eval vm_compute in ("<<<M515>>>" ++ check (runes_of_ascii "packet
    asx { @calculatedFrom(
""""  ) @tag( 255 )repeat
// packet A { u8 x, }
// trailing space 
int16 u8x
,
@tag(
    //
    007 )
    @tag( 0
    /// triple
    ) @tag( 1) u
    @lengthOf( T")).
Eval vm_compute in ("<<<M1787>>>" ++ check (runes_of_ascii "MetaData lengthOf {
    chars asx,
    T Header `100% of %d`,
    int32 x_y_z `two words`,
    zchar[0123456789] Header ``,
    len x_y_z `
    `,// c
}// " ++ [27880; 37322]%N ++ runes_of_ascii "

packet BodyLength {
}")).
Eval vm_compute in ("<<<M1785>>>" ++ check (runes_of_ascii "options {
	Foo = true
    len
	=
'0'

    ;metadata	= 
u32;	repeatCount =  42 } 
MetaData	lengthOf
    {

}
options{ options1	= zchar[

    0123456789

    ]
} // " ++ [27880; 37322]%N ++ runes_of_ascii "
")).
Eval vm_compute in ("<<<M572>>>" ++ check (runes_of_ascii "MetaData u
    { } MetaData o o
{ float uint8x
`100% of %d` ,repeatCount u8x, string_ leftPad
, i32
    Foo , int64 x `two words` , calculatedFrom
stringy `a\` ,
}
")).
Eval vm_compute in ("<<<M549>>>" ++ check (runes_of_ascii "u MetaData
    { } MetaData o
{ float uint8x
`100% of %d` ,repeatCount u8x, string_ leftPad
, i32
    Foo , int64 x `two words` , calculatedFrom
stringy `a\` ,
}
")).
Eval vm_compute in ("<<<M683>>>" ++ check (runes_of_ascii "MetaData u
    { } MetaData o
{ float uint8x
`100% of %d` ,repeatCount u8x, string_ leftPad
, i32
    Foo , int64 x `two words` , calculatedFrom
stringy `a\` }
,
")).
Eval vm_compute in ("<<<M569>>>" ++ check (runes_of_ascii "MetaData u
    { } char o
{ float uint8x
`100% of %d` ,repeatCount u8x, string_ leftPad
, i32
    Foo , int64 x `two words` , calculatedFrom
stringy `a\` ,
}
")).
Eval vm_compute in ("<<<M680>>>" ++ check (runes_of_ascii "MetaData u
    { } MetaData o
{ float uint8x
`100% of %d` ,repeatCount u8x, string_ leftPad
, i32
    Foo , int64 x `two words` , calculatedFrom
stringy")).
Eval vm_compute in ("<<<M1283>>>" ++ check (runes_of_ascii "

  options
{

    LittleEndian =
true; }
packet 
B 
{ u8
    a 
,  string s,
    } root
packet
	P
	{ u16
L@lengthOf(
B )
,

B

,	u8

t, 
}
")).
Eval vm_compute in ("<<<M8>>>" ++ check (runes_of_ascii "MetaData roots //
{ /// triple
char[65535 ] i64_,	char[ 0 ] int
`a\` ,
uint8 MetaDataX , } packet
asx{
char[ 007 ] len
    `
`
,
}
")).
Eval vm_compute in ("<<<M665>>>" ++ check (runes_of_ascii "MetaData u
    { } MetaData o
{ float uint8x
`100% of %d` ,repeatCount u8x, string_ leftPad
, i32
    Foo , int64 x `two words`")).
Eval vm_compute in ("<<<M1942>>>" ++ check (runes_of_ascii "
options 
{
	T
    =42

    packetx 
= true  //	t
	;

    x_y_z= char[]
    ;trueish	// trailing space 

=	u16	}
")).
Eval vm_compute in ("<<<M1209>>>" ++ check (runes_of_ascii "options { } options // c
{ MetaDataX = char ; } MetaData Pad { i8 metadata , string stringy , int8 As `{ , }` , }")).
Eval vm_compute in ("<<<M1241>>>" ++ check (runes_of_ascii "options { } options { MetaDataX = char ; } MetaData Pad { i8 metadata , string stringy , int8 // c
As `{ , }` , }")).
Eval vm_compute in ("<<<M176>>>" ++ check (runes_of_ascii "packet
    _x { @lengthOf( packetx
) _x @lengthOf(// c
f32a), float64 Header @calculatedFrom( ""it's"" ) , }")).
Eval vm_compute in ("<<<M1737>>>" ++ check (runes_of_ascii "  packet 
A
{
    match k as  n

    {

[ ""a"",
22	,
""c c""
    , 4
    ,
""e""
    ]
	:
B 2
: C } ,	}")).
Eval vm_compute in ("<<<M1698>>>" ++ check (runes_of_ascii "MetaData matchKey {
    i64 float `crlf
        line`,//	t
    leftPad asx,
    uint8x leftPad,
}")).
Eval vm_compute in ("<<<M1869>>>" ++ check (runes_of_ascii "  packet

    A
{ Inner{u8

    x  `a
b` , 
Deep
{ u8
y

`a
b`
    ,
	}  ,}
    ,
	}

")).
Eval vm_compute in ("<<<M854>>>" ++ check (runes_of_ascii "packet A {
  match k as n {
    [1, ""bb"", 007, ""d"", 5, ""f"", 7, ""h""] : B,
    2 : C
  },
}")).
Eval vm_compute in ("<<<M1756>>>" ++ check (runes_of_ascii "options {
    LittleEndian = true;
}

root packet P {
    repeat char cs,
    u8 x,
}")).
Eval vm_compute in ("<<<M114>>>" ++ check (runes_of_ascii "// `tick` ""quote"" 'q'
options{
chars  =
65535	packetx =
""packet""Z9_
    = '0' ; }")).
Eval vm_compute in ("<<<M34>>>" ++ check (runes_of_ascii "packet
    u8x	{
repeat
    Foo  { repeat msg_type`it's`  ,	}	, }
// " ++ [128512]%N ++ runes_of_ascii " emoji
")).
Eval vm_compute in ("<<<M820>>>" ++ check (runes_of_ascii "packet A {
  match k as n {
    [1, 22, ""c c"", 4, 5] : B
    2 : C
  },
}")).
Eval vm_compute in ("<<<M796>>>" ++ check (runes_of_ascii "packet A {
  match k as n {
    [""a"", ""bb"", 007] : B
    2 : C
  },
}")).
Eval vm_compute in ("<<<M251>>>" ++ check (runes_of_ascii "
root packet len{
    @calculatedFrom(  ""a\""b"" )
i16 a1 ,
    }")).
Eval vm_compute in ("<<<M1839>>>" ++ check (runes_of_ascii "
MetaData
    M  { u8

    x

`a
b` 
, T  t  `a
b`  , }
")).
Eval vm_compute in ("<<<M1856>>>" ++ check (runes_of_ascii "  root	packet
	P

{repeat string
ss ,repeat 
u16 ns ,}

")).
Eval vm_compute in ("<<<M1119>>>" ++ check (runes_of_ascii "// top
MetaData // c0
tag // c1
{ // c2
} // c3
")).
Eval vm_compute in ("<<<M1164>>>" ++ check (runes_of_ascii "// top
packet // c0
x { // c2
}
    // c3
")).
Eval vm_compute in ("<<<M1736>>>" ++ check (runes_of_ascii "

  packet

    A {u8	x
	`a
b`
,	}
")).
Eval vm_compute in ("<<<M1192>>>" ++ check (runes_of_ascii "options { A = ""// no comment""
// c
}")).
Eval vm_compute in ("<<<M920>>>" ++ check (runes_of_ascii "root packet A {
    u8 x `a
b`,
}")).
Eval vm_compute in ("<<<M997>>>" ++ check (runes_of_ascii "packet A {
 u8 x `d `, // c 
}")).
Eval vm_compute in ("<<<M915>>>" ++ check (runes_of_ascii "packet A {
    u8 x `a
b`,
}")).
Eval vm_compute in ("<<<M1152>>>" ++ check (runes_of_ascii "root packet a1 { }
// c
")).
Eval vm_compute in ("<<<M1125>>>" ++ check (runes_of_ascii "MetaData
// c
tag { }")).
Eval vm_compute in ("<<<M1026>>>" ++ check (runes_of_ascii "// c" ++ [8202]%N ++ runes_of_ascii "
packet A {
}")).
Eval vm_compute in ("<<<M1003>>>" ++ check (runes_of_ascii "packet A {
}// c" ++ [160]%N)).
Eval vm_compute in ("<<<M766>>>" ++ check (runes_of_ascii "zchar[ , uint16")).
Eval vm_compute in ("<<<M1079>>>" ++ check (runes_of_ascii "// c x")).
Eval vm_compute in ("<<<M39>>>" ++ check (runes_of_ascii "
")).
