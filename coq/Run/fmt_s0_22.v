From FP Require Import Lexer Parser ShowPT Digest Formatter.
From Coq Require Import String List NArith.
Import ListNotations.
Open Scope string_scope.
Set Printing Width 100000000.
Set Printing Depth 100000000.
Definition show_fres (r : fres) : string :=
  match r with
  | FOk s => "OK:" ++ sh_escaped s ""
  | FErr s => "ERR:" ++ sh_escaped s ""
  | FPanic p => "PANIC:" ++ p
  end.
Definition check (rs : list rune) : string := digest (show_fres (format_res rs)).
Definition full (rs : list rune) : string := show_fres (format_res rs).
Eval vm_compute in ("<<<M41>>>" ++ check (runes_of_ascii "  root packet u{ match crc as
leftPad { [ 00 ] : //
o,  42
    /// triple
    :
// trailing space 
//x
crc [
""a	b"" ,
""CRC32"" , ""a\""b"" , ""\n""
, 0
, 255 ] : // packet A { u8 x, }
zchar ,
// " ++ [128512]%N ++ runes_of_ascii " emoji
//
} //	t
,	string stringy
    @lengthOf(matchKey ),
    int ,@tag(
1)repeat	zchar[ 4294967296] roots , @leftPad ( '\x00'	) x
    //x
    @lengthOf( crc ), } packet// c
repeatCount { zchar[ 255]	f32a	@calculatedFrom(
    ""x y"" )
,@tag(
    255) char[] asx
@calculatedFrom(""" ++ [28040; 24687]%N ++ runes_of_ascii """
    // " ++ [27880; 37322]%N ++ runes_of_ascii "
    ) , leftPad{
/// triple
// a // b
repeat int u8x ,
i64
trueish	@lengthOf(	i8i8 ) `" ++ [28040; 24687; 31867; 22411]%N ++ runes_of_ascii "`
    // a // b
    ,
repeat
int64 //	t
pack
    , } ,
    match float as o { //
65535
:
Pad ,[
""" ++ [128512]%N ++ runes_of_ascii """ , """ ++ [28040; 24687]%N ++ runes_of_ascii """,
    0123456789 ]
//x
// @lengthOf(
:i8i8
, 7 :
asx 00: stringy } ,@calculatedFrom(
""" ++ [233]%N ++ runes_of_ascii "t" ++ [233]%N ++ runes_of_ascii """ ) f32a
// packet A { u8 x, }
// trailing space 
u , repeat msg_type `" ++ [233]%N ++ runes_of_ascii "` ,
repeat zchar[
42 ]crc
    , uint64
    // " ++ [27880; 37322]%N ++ runes_of_ascii "
    lengthOf , repeat As``
    ,
zchar[ 007 ] tag `tab	here`  , }	root packet charz
{
    string msg_type , @calculatedFrom( """") repeat//	t
string  tag `tab	here`
    ,repeat calculatedFrom ,
repeat Foo, uint64
Foo@lengthOf( packetx) ,
@rightPad  ( )	match	falsey as calculatedFrom { [ 0 , 10
    , ""a\""b"" ] : metadata ,
} , @calculatedFrom( ""\" ++ [233]%N ++ runes_of_ascii """ )
    i64  As ``,
    @lengthOf(
rootA) u32 Logon // c
@lengthOf(a1  ) , @calculatedFrom( """" ) @leftPad ( ' '
    )
    uint16
i8i8
@calculatedFrom( ""// no comment""
) ,  } root packet// trailing space 
uint8x {
    repeat f32
chars `tab	here` ,}
MetaData calculatedFrom
{
//
// `tick` ""quote"" 'q'
metadata crc , }

")).
Eval vm_compute in ("<<<M382>>>" ++ check (runes_of_ascii "options {
	StringPrefixLenType = u16;
	ArrayPrefixLenType = u16;
}

packet SampleBinary {
    uint16 MsgType `" ++ [28040; 24687; 31867; 22411]%N ++ runes_of_ascii "`,
    u16 BodyLenght @lengthOf(Body) `" ++ [28040; 24687; 20307; 38271; 24230]%N ++ runes_of_ascii "`,
    match MsgType as Body {
        1 : Logon,
        2 : Logout,
        3 : Heartbeat,
        4 : RiskControlRequest,
        5 : RiskControlResponse,
    },
        @calculatedFrom(""CRC32"")
    u32 Ckecksum `" ++ [26657; 39564; 21644]%N ++ runes_of_ascii "`,
}

packet Logon {
     @leftPad('0')
    char[10] UserName `" ++ [29992; 25143; 21517]%N ++ runes_of_ascii "`,
    string Password `" ++ [23494; 30721]%N ++ runes_of_ascii "`,
    uint64 ClientId `" ++ [23458; 25143; 31471]%N ++ runes_of_ascii "ID`,
    u16 HeartbeatInterval `" ++ [24515; 36339; 38388; 38548]%N ++ runes_of_ascii "`,
}

packet Logout {
      @rightPad('0')
    char[10] UserName `" ++ [29992; 25143; 21517]%N ++ runes_of_ascii "`,
    uint64 ClientId `" ++ [23458; 25143; 31471]%N ++ runes_of_ascii "ID`,
}

packet Heartbeat {
}

packet RiskControlRequest {
    string UniqueOrderId `" ++ [21807; 19968; 35746; 21333; 21495]%N ++ runes_of_ascii "`,
    char[16] ClOrdID `" ++ [23458; 25143; 35746; 21333; 21495]%N ++ runes_of_ascii "`,
    char[3] MarketID `" ++ [24066; 22330]%N ++ runes_of_ascii "id`,
    char[12] SecurityID `" ++ [35777; 21048; 20195; 30721]%N ++ runes_of_ascii "`,
    char Side `" ++ [20080; 21334; 26041; 21521]%N ++ runes_of_ascii "`,
    char OrderType `" ++ [35746; 21333; 31867; 22411]%N ++ runes_of_ascii "`,
    u64 Price `" ++ [20215; 26684]%N ++ runes_of_ascii "`,
    u32 Qty `" ++ [25968; 37327]%N ++ runes_of_ascii "`,
    repeat string ExtraInfo `" ++ [38468; 21152; 20449; 24687]%N ++ runes_of_ascii "`,
    repeat SubOrder {
    		char[16] ClOrdID `" ++ [23376; 35746; 21333; 21495]%N ++ runes_of_ascii "`,
    		u64 Price `" ++ [23376; 35746; 21333; 20215; 26684]%N ++ runes_of_ascii "`,
    		u32 Qty `" ++ [23376; 35746; 21333; 25968; 37327]%N ++ runes_of_ascii "`,
    	},
}

packet RiskControlResponse {
    string UniqueOrderId `" ++ [21807; 19968; 35746; 21333; 21495]%N ++ runes_of_ascii "`,
    i32 Status `" ++ [29366; 24577]%N ++ runes_of_ascii "`,
    string Msg `" ++ [32467; 26524; 20449; 24687]%N ++ runes_of_ascii "`,
    repeat Detail,
}

packet Detail {
    string RuleName `" ++ [35268; 21017; 21517; 31216]%N ++ runes_of_ascii "`,
    u16 Code `" ++ [21407; 22240; 20195; 30721]%N ++ runes_of_ascii "`,
}")).
Eval vm_compute in ("<<<M1497>>>" ++ check (runes_of_ascii "packet falsey {
    i64_,
    charz {
        match Packet as Pad {
            ""\n"" : Packet,
            ""// no comment"" : f32a,
            [
                3, 4294967296, 10,
                7, 10
            ] : u,
            // trailing space 
            ""`tick`"" : u8x,
            [7, ""it's""] : Packet,
            0 : len,
        },
    },/// triple
    @lengthOf(f32a)
    char[3] options1 @lengthOf(Pad),
    zchar[0123456789] T ``,
}

packet Pad {
    // c
    o roots `{ , }`,
}

packet f32a {
    _x @calculatedFrom(""x y""),
    @tag(65535)
    //	t
    char pack @lengthOf(zchar),
    repeat int64 falsey,
    repeat len {
        match A as rootA {
            [42, ""\n""] : Z9_,
        },
        repeat i16 A,
        repeat zchar[65535] tag `
        `,
        f64 float @lengthOf(f32a) ``,
        // `tick` ""quote"" 'q'
        // packet A { u8 x, }
    },
    x u8x,
    @tag(42)
    repeat As Packet,
    @lengthOf(Pad)
    repeat f64 rootA,// @lengthOf(
}")).
Eval vm_compute in ("<<<M196>>>" ++ check (runes_of_ascii "root  packet u { match //x
T as body// c
{
[
""a\""b""
    , 3 ] :
stringy  ""a	b"" : charz // a // b
,
    10:  lengthOf// " ++ [128512]%N ++ runes_of_ascii " emoji
, ""CRC32"" : falsey
,
    0123456789 : _x ,
    } , body @lengthOf( i64_ )
, u64 chars
`u8 x,` ,T {i64_ string_,
    u32 metadata , zchar[ 1
]Z9_,}
    // c
    ,@calculatedFrom( ""a\\"" ) rootA // " ++ [128512]%N ++ runes_of_ascii " emoji
x_y_z
`u8 x,` ,
    zchar[ 007 ]body @calculatedFrom(
""\n""
) ,
    @leftPad (
'0') @rightPad
    ( '0' )
@calculatedFrom( """ ++ [233]%N ++ runes_of_ascii "t" ++ [233]%N ++ runes_of_ascii """
    )	repeat uint64 A	, repeat  u8x
    { match
o
as
x
    {
    10	:charz
// " ++ [27880; 37322]%N ++ runes_of_ascii "
// " ++ [27880; 37322]%N ++ runes_of_ascii "
,""a	b"": matchKey
, ""x y""
:
    trueish ,[ """ ++ [233]%N ++ runes_of_ascii "t" ++ [233]%N ++ runes_of_ascii """ ] : zchar,""1"" : charz // " ++ [27880; 37322]%N ++ runes_of_ascii "
,
[ ""a\""b"" ,
""abc""
, ""a\\"", ""abc"" ,
// packet A { u8 x, }
// " ++ [128512]%N ++ runes_of_ascii " emoji
""""
// packet A { u8 x, }
/// triple
] : u8x, } ,	},repeat falsey { rootA
    tag ,
    zchar[/// triple
0 ] falsey ,  }
    , charz a1 `{ , }`
, } root
packet /// triple
Header{}
")).
Eval vm_compute in ("<<<M1336>>>" ++ check (runes_of_ascii "// top
options // c0
{ LittleEndian
    // c2
= true
    // c4
; StringPrefixLenType = // c7a
  // c7b
u16 // c8
; // c9a
  // c9b
FixedStringPadChar = // c11a
  // c11b
' ' // c12
; // c13
} packet // c15
Logon { // c17
@leftPad // c18a
  // c18b
( '0'
    // c20
) char[ // c22
10 ]
    // c24
tag7 // c25a
  // c25b
, }
    // c27
root // c28a
  // c28b
packet Ack
    // c30
{ // c31
int32 Px // c33
, // c34a
  // c34b
uint16 // c35
count // c36a
  // c36b
, // c37
string // c38
Qty // c39
, string
    // c41
OrderId
    // c42
, string Flags // c45a
  // c45b
, u8 x // c48a
  // c48b
, // c49a
  // c49b
match // c50
x // c51
as Body
    // c53
{ // c54
[
    // c55
58 // c56
, // c57a
  // c57b
169 ] // c59
: // c60a
  // c60b
Logon
    // c61
, } // c63
, } // c65a
  // c65b
")).
Eval vm_compute in ("<<<M1362>>>" ++ check (runes_of_ascii "
options { StringPrefixLenType =  u8;	ArrayPrefixLenType= 
u32
;

FixedStringPadFromLeft=
	true 
; FixedStringPadChar
    =

' ' ; 
}
	packet Leg
    {}
packet Heartbeat
    {

    zchar[

    6]msgKind
    ,
    @rightPad
('0')
char[3
] Qty
, zchar[9 ] Side2,
	i8

    Acct
, } 
packet Logout{int8	x,

} 
packet
Order{

char[]

    Acct  ,
zchar[
8 ]
	count ,

    u32
OrderId 
,uint8 
lastPx	,  u16
clOrdID ,	zchar[ 
7]
    Note	,
    }
    root packet Reject {
@leftPad(
' '
) char[ 8 ]Side2,

i8 
clOrdID , repeat
	f32

x
,
u32
	lastPx,
match
lastPx as Body {
    [30
	, 147] : Heartbeat

    ,	134 :
Leg	, 183	:

    Logout ,
40
	: Order,}, 
u16	Ref 
@calculatedFrom(
	""CRC32"" ), }
")).
Eval vm_compute in ("<<<M1797>>>" ++ check (runes_of_ascii "packet stringy {
    repeat T {
        u64 lengthOf `tab	here`,
        repeat _x {
            match calculatedFrom as Header {
                [""" ++ [233]%N ++ runes_of_ascii "t" ++ [233]%N ++ runes_of_ascii """] : _x,
                // @lengthOf(
                [""packet""] : MetaDataX,
                255 : u128,
                42 : A,
                ""// no comment"" : body,
            },
            repeat crc Foo,
            charz,
        },
        zchar[1] i8i8 @calculatedFrom(""x y""),
        uint8x Pad `line1
                line2`,
    },
    @lengthOf(u)
    char[4294967296] crc,
    @tag(007)
    repeatCount,
    repeat char[] Header,
    @rightPad()
    char[] string_ `a\`,
}")).
Eval vm_compute in ("<<<M1720>>>" ++ check (runes_of_ascii "  packet
    Header

{	char[

    10
	]

    A `it's` , @calculatedFrom( 
""" ++ [28040; 24687]%N ++ runes_of_ascii """ 
)
    calculatedFrom	// a // b
      @lengthOf(
	zchar )	`tab	here`

    , u32 BodyLength  ,

    @lengthOf(
stringy )//
@rightPad (

    ' '
) @tag(0123456789

    )  body{ match	i8i8 as Foo	{  [7,
""CRC32"" ] :
	options1
    ,[
""a\""b""
,

    """ ++ [128512]%N ++ runes_of_ascii """
	,

""it's"" ,
    ""a	b"",
	""// no comment""
	,
    ""it's""

    , 7

,
""abc"" ]
    :
As ,

1 :

    _x 
    // " ++ [128512]%N ++ runes_of_ascii " emoji
//
  }, repeat

    uint8x  {  crc 
@calculatedFrom( ""a\\""  )
,

}  , repeat

    i8
tag ,// " ++ [128512]%N ++ runes_of_ascii " emoji
	} ,
}
")).
Eval vm_compute in ("<<<M1324>>>" ++ check (runes_of_ascii "// top
root
    // c0
packet Frame
    // c2
{ u8
    // c4
K
    // c5
,
    // c6
Logon
    // c7
first
    // c8
, // c9
match // c10
K // c11a
  // c11b
as
    // c12
Body // c13a
  // c13b
{
    // c14
1 : Logon
    // c17
, // c18a
  // c18b
2
    // c19
: // c20a
  // c20b
Logout ,
    // c22
}
    // c23
, // c24a
  // c24b
} // c25a
  // c25b
packet Logon { string // c29a
  // c29b
user // c30
, // c31
} // c32
packet
    // c33
Logout
    // c34
{ u16 reason , // c38a
  // c38b
} // c39a
  // c39b
")).
Eval vm_compute in ("<<<M301>>>" ++ check (runes_of_ascii "root packet A { repeat uint64 matchKey
    , char[]
    Packet , char[
    007 ] calculatedFrom , }
options{ Header =
007 ;
float =
    true} packet chars { repeat
chars ,@rightPad
    ( '0' ) chars f32a
    `line1
line2`
, int16
u8x , @tag( 4294967296 ) @rightPad
( )
u64 packetx@calculatedFrom(""it's"" )
,
@calculatedFrom( ""\n"" ) o@calculatedFrom(""a\""b"" ), Logon	@lengthOf( BodyLength
    /// triple
    )
// a // b
// packet A { u8 x, }
,}options {
    }
")).
Eval vm_compute in ("<<<M1636>>>" ++ check (runes_of_ascii "  options{u 
=
7  
  // " ++ [27880; 37322]%N ++ runes_of_ascii "

roots
	= zchar[

65535]	msg_type
    =""" ++ [233]%N ++ runes_of_ascii "t" ++ [233]%N ++ runes_of_ascii """
    ;x
=
false
}
MetaData string_
	{
char[ 	 // trailing space 
	  42 
        //x
    // " ++ [128512]%N ++ runes_of_ascii " emoji

]
	i8i8

    `" ++ [28040; 24687; 31867; 22411]%N ++ runes_of_ascii "`
    , u8 x_y_z

    ,packetx 
lengthOf
    `` 
      // " ++ [27880; 37322]%N ++ runes_of_ascii "

,
    T Header
	`line1
line2`

    ,
char[]	// " ++ [27880; 37322]%N ++ runes_of_ascii "
u8x
	`two words` ,
    } packet	float//x
    {calculatedFrom ,
	@rightPad
    ( '0') 
char[  3
	]u128, } ")).
Eval vm_compute in ("<<<M1259>>>" ++ check (runes_of_ascii "// top
packet // c0
B // c1a
  // c1b
{ // c2
u8 // c3a
  // c3b
a // c4
, } // c6
root // c7a
  // c7b
packet // c8a
  // c8b
P { // c10
u8
    // c11
K , // c13
u8 // c14a
  // c14b
L // c15a
  // c15b
@lengthOf( // c16a
  // c16b
Body )
    // c18
, match // c20
K as // c22a
  // c22b
Body
    // c23
{ 1 :
    // c26
B // c27
, }
    // c29
,
    // c30
}
    // c31
")).
Eval vm_compute in ("<<<M1337>>>" ++ check (runes_of_ascii "options 
{

LittleEndian	=

    true
; StringPrefixLenType
=
u16 ;
FixedStringPadChar
	=
' ' 
; } packet
Logon
{

@leftPad	( '0') char[ 10 ]

tag7
	,
}
root packet

    Ack	{ int32
Px ,uint16	count ,

string Qty	,
    string
    OrderId 
,string
Flags, u8
    x	,  match
x
	as
    Body{
[	58
,  169  ] :	Logon
, } 
, } ")).
Eval vm_compute in ("<<<M1755>>>" ++ check (runes_of_ascii "// top
    packet 
      // c0
Inner
    // c1
    {  // c2a
	  // c2b
u8
    // c3
  a // c4a
	// c4b
  ,
} 
	// c6
root  // c7
	packet 	 // c8

P  // c9a
    // c9b
  { 
// c10
    Inner 	 // c11a
// c11b
	ref_obj
	// c12
, 	 // c13a
    // c13b
u8  x , 
  // c16
    } 	 // c17a

// c17b
 
")).
Eval vm_compute in ("<<<M1314>>>" ++ check (runes_of_ascii "packet MDSnapshotZZ {
    u8 a,
}
packet OrderACK {
    u16 b,
}
packet HTTPServerInfo {
    string s,
}
root packet FIXMsg {
    u8 KType,
    MDSnapshotZZ,
    repeat OrderACK,
    match KType as Body {
        1 : HTTPServerInfo,
        2 : OrderACK,
    },
}
")).
Eval vm_compute in ("<<<M1613>>>" ++ check (runes_of_ascii "packet body {
    @lengthOf(T)
    @lengthOf(int)
    @leftPad('\x00')
    asx len,
    repeat zchar[3] int `" ++ [28040; 24687; 31867; 22411]%N ++ runes_of_ascii "`,
    @lengthOf(options1)
    match x as leftPad {
        7 : x_y_z,
        65535 : u128,
        42 : x,
    },//
}")).
Eval vm_compute in ("<<<M318>>>" ++ check (runes_of_ascii "options {Z9_ =// trailing space 
""packet"" ;float = false
; A =
' ' }
    // c
    MetaData pack
{ zchar[
3] leftPad
,zchar
    falsey `it's` , char[] repeatCount ,char[ 65535 // " ++ [128512]%N ++ runes_of_ascii " emoji
] Z9_, }
//	t
")).
Eval vm_compute in ("<<<M309>>>" ++ check (runes_of_ascii "packet
    // `tick` ""quote"" 'q'
    _x {//
repeat zchar[ 1 ] metadata
    ,@leftPad
    ( ' ' ) @lengthOf( T )@lengthOf(
Z9_ )
    char[] As// @lengthOf(
,string f32a  , }
")).
Eval vm_compute in ("<<<M1747>>>" ++ check (runes_of_ascii "packet calculatedFrom {
    uint8x {
        body `line1
                line2`,
        string crc @lengthOf(uint8x),
        char[] As @lengthOf(Pad),
    },
}")).
Eval vm_compute in ("<<<M443>>>" ++ check (runes_of_ascii "packet uint8x
{ match pack
    as msg_type	{
    0123456789 :	@lengthOf(
}
,
} packet //	t
a1
    { } options {packetx
    = '\x00'	; u128= ""a	b""  ; }
")).
Eval vm_compute in ("<<<M471>>>" ++ check (runes_of_ascii "packet uint8x
{ match pack
    as msg_type	{
    0123456789 :	float
}
,
} packet //	t
a1
    { { } options {packetx
    = '\x00'	; u128= ""a	b""  ; }
")).
Eval vm_compute in ("<<<M397>>>" ++ check (runes_of_ascii "packet {
uint8x match pack
    as msg_type	{
    0123456789 :	float
}
,
} packet //	t
a1
    { } options {packetx
    = '\x00'	; u128= ""a	b""  ; }
")).
Eval vm_compute in ("<<<M1241>>>" ++ check (runes_of_ascii "// top
root
    // c0
packet // c1
P // c2a
  // c2b
{ // c3
char
    // c4
c // c5a
  // c5b
, // c6a
  // c6b
u8
    // c7
x // c8
, // c9
} // c10
")).
Eval vm_compute in ("<<<M394>>>" ++ check (runes_of_ascii "u32 uint8x
{ match pack
    as msg_type	{
    0123456789 :	float
}
,
} packet //	t
a1
    { } options {packetx
    = '\x00'	; u128= ""a	b""  ; }
")).
Eval vm_compute in ("<<<M460>>>" ++ check (runes_of_ascii "packet uint8x
{ match pack
    as msg_type	{
    0123456789 :	float
}
,
}  //	t
a1
    { } options {packetx
    = '\x00'	; u128= ""a	b""  ; }
")).
Eval vm_compute in ("<<<M185>>>" ++ check (runes_of_ascii "root packet lengthOf{ @leftPad
    (
' '// c
)
repeat char MetaDataX
,
}MetaData
Pad {
msg_type rootA// trailing space 
`// not a comment`, }")).
Eval vm_compute in ("<<<M658>>>" ++ check (runes_of_ascii "// @lengthOf(
 i8i8 { u128 o , }
options { MetaDataX = true;
    BodyLength =""packet"" x_y_z= 007
crc //x
= ""abc"" ;
    msg_type =
i16 }")).
Eval vm_compute in ("<<<M514>>>" ++ check (runes_of_ascii "packet uint8x
{ match pack
    as msg_type	{
    0123456789 :	float
}
,
} packet //	t
a1
    { } options {packetx
    = '\x00'	;")).
Eval vm_compute in ("<<<M1915>>>" ++ check (runes_of_ascii "packet A {
    match k as n {
        [
            1, 22, 007, 4, 5,
            66
        ] : B,
        2 : C,
    },
}")).
Eval vm_compute in ("<<<M1151>>>" ++ check (runes_of_ascii "MetaData leftPad { chars MetaDataX // c
, } packet repeatCount { char[ 255 ] uint8x `" ++ [233]%N ++ runes_of_ascii "` , } MetaData pack { As Foo , }")).
Eval vm_compute in ("<<<M1183>>>" ++ check (runes_of_ascii "MetaData leftPad { chars MetaDataX , } packet repeatCount { char[ 255 ] uint8x `" ++ [233]%N ++ runes_of_ascii "` , } MetaData pack { As // c
Foo , }")).
Eval vm_compute in ("<<<M1625>>>" ++ check (runes_of_ascii "
packet B

    {u8
a  , string 
s
,} root
	packet

P 
{
	u16 L
	@lengthOf(  B

    )  , B  ,

u8
    t ,
	}
")).
Eval vm_compute in ("<<<M908>>>" ++ check (runes_of_ascii "packet A {
  match k as n {
    [1, ""bb"", 007, ""d"", 5, ""f"", 7, ""h"", 9, ""j"", 11, ""l""] : B,
    2 : C
  },
}")).
Eval vm_compute in ("<<<M889>>>" ++ check (runes_of_ascii "packet A {
  match k as n {
    [""a"", ""bb"", 007, ""d"", ""e"", 66, ""g"", ""h"", 9, ""j""] : B
    2 : C
  },
}")).
Eval vm_compute in ("<<<M900>>>" ++ check (runes_of_ascii "packet A {
  match k as n {
    [1, 22, ""c c"", 4, 5, ""f"", 7, 8, ""i"", 10, 11] : B
    2 : C
  },
}")).
Eval vm_compute in ("<<<M615>>>" ++ check (runes_of_ascii "
packet
    asx {match u128 as lengthOf
{
//	t
// `tick` ""quote"" 'q'
255 : x ,
    match ,	}")).
Eval vm_compute in ("<<<M870>>>" ++ check (runes_of_ascii "packet A {
  match k as n {
    [1, ""bb"", 007, ""d"", 5, ""f"", 7, ""h"", 9] : B
    2 : C
  },
}")).
Eval vm_compute in ("<<<M849>>>" ++ check (runes_of_ascii "packet A {
  match k as n {
    [""a"", ""bb"", 007, ""d"", ""e"", 66, ""g""] : B,
    2 : C
  },
}")).
Eval vm_compute in ("<<<M771>>>" ++ check (runes_of_ascii "true @tag( root : repeat @calculatedFrom( match f64 int32 ] { zchar[ packet @lengthOf(")).
Eval vm_compute in ("<<<M844>>>" ++ check (runes_of_ascii "packet A {
  match k as n {
    [1, ""bb"", 007, ""d"", 5, ""f"", 7] : B
    2 : C
  },
}")).
Eval vm_compute in ("<<<M819>>>" ++ check (runes_of_ascii "packet A {
  match k as n {
    [""a"", 22, ""c c"", 4, ""e""] : B,
    2 : C
  },
}")).
Eval vm_compute in ("<<<M1661>>>" ++ check (runes_of_ascii "  packet
A  {  }

    packet B
{ 
}
MetaData M
    { 
} options
    {
}
")).
Eval vm_compute in ("<<<M797>>>" ++ check (runes_of_ascii "packet A {
  match k as n {
    [""a"", ""bb"", 007] : B,
    2 : C
  },
}")).
Eval vm_compute in ("<<<M1098>>>" ++ check (runes_of_ascii "packet A {
    match k as n {
        1 : B,
        // c
    },
}")).
Eval vm_compute in ("<<<M825>>>" ++ check (runes_of_ascii "packet A { Inner { match k as n { [1,22,007,4,5] : B, }, }, }")).
Eval vm_compute in ("<<<M930>>>" ++ check (runes_of_ascii "packet A {
    B b `
`,
    B `
`,
    repeat B bs `
`,
}")).
Eval vm_compute in ("<<<M1197>>>" ++ check (runes_of_ascii "// c
packet body { i32 f32a `{ , }` , } options { }")).
Eval vm_compute in ("<<<M375>>>" ++ check (runes_of_ascii "options {Foo = '0'	;	Pad = '0';	crc ='0' ; //	t
}")).
Eval vm_compute in ("<<<M968>>>" ++ check (runes_of_ascii "options {
    a = ""x\
y"";
    b = ""x\
y""
}")).
Eval vm_compute in ("<<<M591>>>" ++ check (runes_of_ascii "
packet
    asx {match u128 as lengthOf")).
Eval vm_compute in ("<<<M424>>>" ++ check (runes_of_ascii "packet uint8x
{ match pack
    as")).
Eval vm_compute in ("<<<M934>>>" ++ check (runes_of_ascii "root packet A {
    u8 x `
`,
}")).
Eval vm_compute in ("<<<M759>>>" ++ check (runes_of_ascii "= u64 ; u32 MetaData packet {")).
Eval vm_compute in ("<<<M1490>>>" ++ check (runes_of_ascii "// c" ++ [12288]%N ++ runes_of_ascii "
	  packet
    A{} ")).
Eval vm_compute in ("<<<M1105>>>" ++ check (runes_of_ascii "MetaData // c
tag { }")).
Eval vm_compute in ("<<<M1062>>>" ++ check (runes_of_ascii "// c x
packet A {
}")).
Eval vm_compute in ("<<<M1016>>>" ++ check (runes_of_ascii "packet A {
}
// c" ++ [8233]%N)).
Eval vm_compute in ("<<<M994>>>" ++ check (runes_of_ascii "packet A {
}// c" ++ [5760]%N)).
Eval vm_compute in ("<<<M566>>>" ++ check (runes_of_ascii "
packet
    asx")).
Eval vm_compute in ("<<<M741>>>" ++ check ([65533; 65533]%N ++ runes_of_ascii "1" ++ [65533]%N ++ runes_of_ascii "dcV")).
Eval vm_compute in ("<<<M111>>>" ++ check (runes_of_ascii "

")).
