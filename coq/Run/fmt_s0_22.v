From FP Require Import Lexer Parser ShowPT Digest Formatter.
From Coq Require Import String List NArith.
Import ListNotations.
Open Scope string_scope.
Set Printing Width 100000000.
Set Printing Depth 100000000.
Definition show_fres (r : fres) : string :=
  match r with
  | FOk s => "OK:" ++ sh_escaped s ""
  | FErr s => "ERR:" ++ sh_escaped s ""
  | FPanic p => "PANIC:" ++ p
  end.
Definition check (rs : list rune) : string := digest (show_fres (format_res rs)).
Definition full (rs : list rune) : string := show_fres (format_res rs).
Eval vm_compute in ("<<<M41>>>" ++ check (runes_of_ascii "  root packet u{ match crc as
leftPad { [ 00 ] : //
o,  42
    /// triple
    :
// trailing space 
//x
crc [
""a	b"" ,
""CRC32"" , ""a\""b"" , ""\n""
, 0
, 255 ] : // packet A { u8 x, }
zchar ,
// " ++ [128512]%N ++ runes_of_ascii " emoji
//
} //	t
,	string stringy
    @lengthOf(matchKey ),
    int ,@tag(
1)repeat	zchar[ 4294967296] roots , @leftPad ( '\x00'	) x
    //x
    @lengthOf( crc ), } packet// c
repeatCount { zchar[ 255]	f32a	@calculatedFrom(
    ""x y"" )
,@tag(
    255) char[] asx
@calculatedFrom(""" ++ [28040; 24687]%N ++ runes_of_ascii """
    // " ++ [27880; 37322]%N ++ runes_of_ascii "
    ) , leftPad{
/// triple
// a // b
repeat int u8x ,
i64
trueish	@lengthOf(	i8i8 ) `" ++ [28040; 24687; 31867; 22411]%N ++ runes_of_ascii "`
    // a // b
    ,
repeat
int64 //	t
pack
    , } ,
    match float as o { //
65535
:
Pad ,[
""" ++ [128512]%N ++ runes_of_ascii """ , """ ++ [28040; 24687]%N ++ runes_of_ascii """,
    0123456789 ]
//x
// @lengthOf(
:i8i8
, 7 :
asx 00: stringy } ,@calculatedFrom(
""" ++ [233]%N ++ runes_of_ascii "t" ++ [233]%N ++ runes_of_ascii """ ) f32a
// packet A { u8 x, }
// trailing space 
u , repeat msg_type `" ++ [233]%N ++ runes_of_ascii "` ,
repeat zchar[
42 ]crc
    , uint64
    // " ++ [27880; 37322]%N ++ runes_of_ascii "
    lengthOf , repeat As``
    ,
zchar[ 007 ] tag `tab	here`  , }	root packet charz
{
    string msg_type , @calculatedFrom( """") repeat//	t
string  tag `tab	here`
    ,repeat calculatedFrom ,
repeat Foo, uint64
Foo@lengthOf( packetx) ,
@rightPad  ( )	match	falsey as calculatedFrom { [ 0 , 10
    , ""a\""b"" ] : metadata ,
} , @calculatedFrom( ""\" ++ [233]%N ++ runes_of_ascii """ )
    i64  As ``,
    @lengthOf(
rootA) u32 Logon // c
@lengthOf(a1  ) , @calculatedFrom( """" ) @leftPad ( ' '
    )
    uint16
i8i8
@calculatedFrom( ""// no comment""
) ,  } root packet// trailing space 
uint8x {
    repeat f32
chars `tab	here` ,}
MetaData calculatedFrom
{
//
// `tick` ""quote"" 'q'
metadata crc , }

")).
Eval vm_compute in ("<<<M382>>>" ++ check (runes_of_ascii "options {
	StringPrefixLenType = u16;
	ArrayPrefixLenType = u16;
}

packet SampleBinary {
    uint16 MsgType `" ++ [28040; 24687; 31867; 22411]%N ++ runes_of_ascii "`,
    u16 BodyLenght @lengthOf(Body) `" ++ [28040; 24687; 20307; 38271; 24230]%N ++ runes_of_ascii "`,
    match MsgType as Body {
        1 : Logon,
        2 : Logout,
        3 : Heartbeat,
        4 : RiskControlRequest,
        5 : RiskControlResponse,
    },
        @calculatedFrom(""CRC32"")
    u32 Ckecksum `" ++ [26657; 39564; 21644]%N ++ runes_of_ascii "`,
}

packet Logon {
     @leftPad('0')
    char[10] UserName `" ++ [29992; 25143; 21517]%N ++ runes_of_ascii "`,
    string Password `" ++ [23494; 30721]%N ++ runes_of_ascii "`,
    uint64 ClientId `" ++ [23458; 25143; 31471]%N ++ runes_of_ascii "ID`,
    u16 HeartbeatInterval `" ++ [24515; 36339; 38388; 38548]%N ++ runes_of_ascii "`,
}

packet Logout {
      @rightPad('0')
    char[10] UserName `" ++ [29992; 25143; 21517]%N ++ runes_of_ascii "`,
    uint64 ClientId `" ++ [23458; 25143; 31471]%N ++ runes_of_ascii "ID`,
}

packet Heartbeat {
}

packet RiskControlRequest {
    string UniqueOrderId `" ++ [21807; 19968; 35746; 21333; 21495]%N ++ runes_of_ascii "`,
    char[16] ClOrdID `" ++ [23458; 25143; 35746; 21333; 21495]%N ++ runes_of_ascii "`,
    char[3] MarketID `" ++ [24066; 22330]%N ++ runes_of_ascii "id`,
    char[12] SecurityID `" ++ [35777; 21048; 20195; 30721]%N ++ runes_of_ascii "`,
    char Side `" ++ [20080; 21334; 26041; 21521]%N ++ runes_of_ascii "`,
    char OrderType `" ++ [35746; 21333; 31867; 22411]%N ++ runes_of_ascii "`,
    u64 Price `" ++ [20215; 26684]%N ++ runes_of_ascii "`,
    u32 Qty `" ++ [25968; 37327]%N ++ runes_of_ascii "`,
    repeat string ExtraInfo `" ++ [38468; 21152; 20449; 24687]%N ++ runes_of_ascii "`,
    repeat SubOrder {
    		char[16] ClOrdID `" ++ [23376; 35746; 21333; 21495]%N ++ runes_of_ascii "`,
    		u64 Price `" ++ [23376; 35746; 21333; 20215; 26684]%N ++ runes_of_ascii "`,
    		u32 Qty `" ++ [23376; 35746; 21333; 25968; 37327]%N ++ runes_of_ascii "`,
    	},
}

packet RiskControlResponse {
    string UniqueOrderId `" ++ [21807; 19968; 35746; 21333; 21495]%N ++ runes_of_ascii "`,
    i32 Status `" ++ [29366; 24577]%N ++ runes_of_ascii "`,
    string Msg `" ++ [32467; 26524; 20449; 24687]%N ++ runes_of_ascii "`,
    repeat Detail,
}

packet Detail {
    string RuleName `" ++ [35268; 21017; 21517; 31216]%N ++ runes_of_ascii "`,
    u16 Code `" ++ [21407; 22240; 20195; 30721]%N ++ runes_of_ascii "`,
}")).
Eval vm_compute in ("<<<M8>>>" ++ check (runes_of_ascii "// @lengthOf(
packet Pad { zchar[
    0 ]Header @calculatedFrom(
""a	b"" ) // " ++ [27880; 37322]%N ++ runes_of_ascii "
`say ""hi""` , @calculatedFrom(
    ""a\""b"" // a // b
)  body @lengthOf( body// `tick` ""quote"" 'q'
)`say ""hi""` , u16 stringy@lengthOf(
    // trailing space 
    trueish ) , @lengthOf( rootA) f64 Foo `say ""hi""` // c
,u16 Z9_ , x_y_z , }
    MetaData metadata { uint64 x , trueish chars//
,
    asx lengthOf `u8 x,`  ,
} options { body // a // b
=	""packet"" } root
    packet MetaDataX {zchar[
42	]
a1
,Packet x_y_z // " ++ [27880; 37322]%N ++ runes_of_ascii "
, u8 Foo
    `u8 x,` , u64
//	t
/// triple
tag, @tag( 1 //x
)  string x_y_z @calculatedFrom( ""x y"" ) ,f32 Logon	, _x ,charz // a // b
{
    rootA metadata `crlf
line`
    , Header @calculatedFrom( ""\" ++ [233]%N ++ runes_of_ascii """ ) `` ,
i64_`line1
line2`
    // @lengthOf(
    , } ,@lengthOf(
a1// `tick` ""quote"" 'q'
) string
As	`doc`
    , @tag(
1 ) match As
    as	trueish
    //	t
    {
    [ ""`tick`""
    // trailing space 
    ] :charz,  ""packet"": asx , 42  :
packetx, [ ""a\\"" ] :
u }
,
}
/// triple
")).
Eval vm_compute in ("<<<M196>>>" ++ check (runes_of_ascii "root  packet u { match //x
T as body// c
{
[
""a\""b""
    , 3 ] :
stringy  ""a	b"" : charz // a // b
,
    10:  lengthOf// " ++ [128512]%N ++ runes_of_ascii " emoji
, ""CRC32"" : falsey
,
    0123456789 : _x ,
    } , body @lengthOf( i64_ )
, u64 chars
`u8 x,` ,T {i64_ string_,
    u32 metadata , zchar[ 1
]Z9_,}
    // c
    ,@calculatedFrom( ""a\\"" ) rootA // " ++ [128512]%N ++ runes_of_ascii " emoji
x_y_z
`u8 x,` ,
    zchar[ 007 ]body @calculatedFrom(
""\n""
) ,
    @leftPad (
'0') @rightPad
    ( '0' )
@calculatedFrom( """ ++ [233]%N ++ runes_of_ascii "t" ++ [233]%N ++ runes_of_ascii """
    )	repeat uint64 A	, repeat  u8x
    { match
o
as
x
    {
    10	:charz
// " ++ [27880; 37322]%N ++ runes_of_ascii "
// " ++ [27880; 37322]%N ++ runes_of_ascii "
,""a	b"": matchKey
, ""x y""
:
    trueish ,[ """ ++ [233]%N ++ runes_of_ascii "t" ++ [233]%N ++ runes_of_ascii """ ] : zchar,""1"" : charz // " ++ [27880; 37322]%N ++ runes_of_ascii "
,
[ ""a\""b"" ,
""abc""
, ""a\\"", ""abc"" ,
// packet A { u8 x, }
// " ++ [128512]%N ++ runes_of_ascii " emoji
""""
// packet A { u8 x, }
/// triple
] : u8x, } ,	},repeat falsey { rootA
    tag ,
    zchar[/// triple
0 ] falsey ,  }
    , charz a1 `{ , }`
, } root
packet /// triple
Header{}
")).
Eval vm_compute in ("<<<M1336>>>" ++ check (runes_of_ascii "// top
options // c0
{ LittleEndian
    // c2
= true
    // c4
; StringPrefixLenType = // c7a
  // c7b
u16 // c8
; // c9a
  // c9b
FixedStringPadChar = // c11a
  // c11b
' ' // c12
; // c13
} packet // c15
Logon { // c17
@leftPad // c18a
  // c18b
( '0'
    // c20
) char[ // c22
10 ]
    // c24
tag7 // c25a
  // c25b
, }
    // c27
root // c28a
  // c28b
packet Ack
    // c30
{ // c31
int32 Px // c33
, // c34a
  // c34b
uint16 // c35
count // c36a
  // c36b
, // c37
string // c38
Qty // c39
, string
    // c41
OrderId
    // c42
, string Flags // c45a
  // c45b
, u8 x // c48a
  // c48b
, // c49a
  // c49b
match // c50
x // c51
as Body
    // c53
{ // c54
[
    // c55
58 // c56
, // c57a
  // c57b
169 ] // c59
: // c60a
  // c60b
Logon
    // c61
, } // c63
, } // c65a
  // c65b
")).
Eval vm_compute in ("<<<M1693>>>" ++ check (runes_of_ascii "packet falsey {
    // `tick` ""quote"" 'q'
    repeat charz float `tab	here`,
    char[] stringy,
    Logon f32a,
    char[] string_,
    int16 _x ``,
    match crc as stringy {
        ""abc"" : Pad,
        [
            ""\n"", 10, 4294967296, 0123456789, ""abc"",
            """ ++ [28040; 24687]%N ++ runes_of_ascii """
        ] : i8i8,
        10 : Header,
        10 : calculatedFrom,
        0123456789 : charz,
        10 : repeatCount,
    },
    leftPad @lengthOf(u8x),
    @lengthOf(a1)
    repeat x body,
}

MetaData string_ {
    float64 f32a,
    zchar[255] T,
    u32 trueish,
    BodyLength roots `two words`,
}

// " ++ [128512]%N ++ runes_of_ascii " emoji
//	t
packet stringy {
    zchar[255] Foo,
}

MetaData leftPad {
}//

options {
    x = true;
    zchar = """"
}//")).
Eval vm_compute in ("<<<M23>>>" ++ check (runes_of_ascii "MetaData lengthOf
{ }
MetaData falsey { // " ++ [27880; 37322]%N ++ runes_of_ascii "
falsey i64_
`
`	, zchar[ 255	] u `two words` ,	BodyLength int , matchKey	i8i8 `crlf
line` ,uint8x	asx ,
char[]options1 ,	}packet
    asx  {	@lengthOf( o
)@calculatedFrom(//
""\n"" ) char[] lengthOf  `two words`// c
,
    BodyLength `" ++ [233]%N ++ runes_of_ascii "` ,repeat u8x len // " ++ [27880; 37322]%N ++ runes_of_ascii "
`doc`
, int
@calculatedFrom(
""a\\""
    ) `line1
line2`,@lengthOf( MetaDataX
)
Packet packetx
    // `tick` ""quote"" 'q'
    , a1 {
    match Logon	as
// " ++ [128512]%N ++ runes_of_ascii " emoji
/// triple
len {	4294967296
:matchKey , [
1  , 10 , 10 ,
""{,}"" , """ ++ [233]%N ++ runes_of_ascii "t" ++ [233]%N ++ runes_of_ascii """ , 0123456789]: leftPad ,  3
    :msg_type ,
//	t
//x
1 : As
,} ,
    chars , }
    ,}
")).
Eval vm_compute in ("<<<M1383>>>" ++ check (runes_of_ascii "// top
packet // c0a
  // c0b
Sub // c1
{
    // c2
u8 // c3a
  // c3b
a
    // c4
, // c5
@calculatedFrom( ""CRC16"" )
    // c8
i32 // c9
SubSum
    // c10
, } // c12
root packet // c14a
  // c14b
Frame // c15
{
    // c16
u16
    // c17
MsgType // c18a
  // c18b
, // c19
u16 // c20a
  // c20b
BodyLen // c21a
  // c21b
@lengthOf( Body ) , // c25a
  // c25b
Sub
    // c26
Body // c27
,
    // c28
string // c29a
  // c29b
note // c30a
  // c30b
,
    // c31
@calculatedFrom( // c32
""CRC16"" ) i32 Checksum // c36a
  // c36b
, // c37a
  // c37b
u8 // c38
tail , }
    // c41
")).
Eval vm_compute in ("<<<M1760>>>" ++ check (runes_of_ascii "options {
    leftPad = 0;
    //
    Logon = char// `tick` ""quote"" 'q'
    i64_ = '\x00';
}

options {
    crc = i32;
    matchKey = 255
    leftPad = ' ';
    metadata = 42;
    packetx = 10
}

root packet A {
    @calculatedFrom(""x y"")
    /// triple
    zchar[00] f32a,
    @tag(255)
    zchar[0123456789] a1 @lengthOf(As) `" ++ [28040; 24687; 31867; 22411]%N ++ runes_of_ascii "`,
    int16 body,// `tick` ""quote"" 'q'
    uint64 x @calculatedFrom(""1"") `line1
        line2`,
    @lengthOf(Logon)
    char[0] float @calculatedFrom(""abc""),
}

MetaData u128 {
}")).
Eval vm_compute in ("<<<M301>>>" ++ check (runes_of_ascii "root packet A { repeat uint64 matchKey
    , char[]
    Packet , char[
    007 ] calculatedFrom , }
options{ Header =
007 ;
float =
    true} packet chars { repeat
chars ,@rightPad
    ( '0' ) chars f32a
    `line1
line2`
, int16
u8x , @tag( 4294967296 ) @rightPad
( )
u64 packetx@calculatedFrom(""it's"" )
,
@calculatedFrom( ""\n"" ) o@calculatedFrom(""a\""b"" ), Logon	@lengthOf( BodyLength
    /// triple
    )
// a // b
// packet A { u8 x, }
,}options {
    }
")).
Eval vm_compute in ("<<<M1834>>>" ++ check (runes_of_ascii "packet matchKey {
    float32 float,
    @calculatedFrom(""a\\"")
    @rightPad('\x00')
    i16 tag @calculatedFrom(""abc""),
    repeat zchar[255] pack,
    @lengthOf(Z9_)
    tag,
}// trailing space 

root packet rootA {
    repeat metadata {
        Logon,
    },
    @tag(10)
    @lengthOf(A)
    @tag(007)
    u32 options1,
    match float as u {
        0123456789 : u8x,
    },
}// " ++ [27880; 37322]%N ++ runes_of_ascii "

root packet lengthOf {
}")).
Eval vm_compute in ("<<<M1690>>>" ++ check (runes_of_ascii "packet

    a1 {

    @leftPad
    (
) float 
@lengthOf( 
uint8x )
,

}packet	Logon
	{ 
char Logon
@calculatedFrom(	""a\\""
)
    , T	stringy
,  
      //
		// c
  repeat uint8 stringy
	`two words`	,
} MetaData

    charz  {

u tag `
` 
,a1
falsey  ,  //x
Z9_
    matchKey, f64 lengthOf `a\`// @lengthOf(
	,  f32a roots

``
,

float64  x_y_z // @lengthOf(
,
	}")).
Eval vm_compute in ("<<<M323>>>" ++ check (runes_of_ascii "options{ }
MetaData  string_ // `tick` ""quote"" 'q'
{ u32
matchKey `u8 x,`,
    string  MetaDataX , uint8
Logon, uint64 options1
, char[ 00 ] len
// `tick` ""quote"" 'q'
// trailing space 
`tab	here` , u8
options1
, }// a // b
packet a1 { chars ,
char[]
i64_ @lengthOf(
    // " ++ [27880; 37322]%N ++ runes_of_ascii "
    stringy
) ,char T,repeat i8 charz
`a\`
,
}
")).
Eval vm_compute in ("<<<M1497>>>" ++ check (runes_of_ascii "

  // top
    packet	// c0

Inner // c1
	{ // c2
	u8 	 // c3a
	  // c3b
    	a // c4
	, 

// c5
	  }  // c6
      root// c7
	packet	// c8a
  // c8b
P// c9
{// c10a
    // c10b

repeat  // c11a
  // c11b
	Inner items  // c13
	, // c14
u8 
// c15
    	x  ,	// c17a
	// c17b
  }	// c18
")).
Eval vm_compute in ("<<<M177>>>" ++ check (runes_of_ascii "root
packet Logon {
    @rightPad
(// @lengthOf(
'0' ) repeat
    charz // " ++ [27880; 37322]%N ++ runes_of_ascii "
{// " ++ [128512]%N ++ runes_of_ascii " emoji
Z9_ `{ , }` , string string_ `say ""hi""` , repeat int8  rootA ,	match Foo	as
pack {
[ 42
// c
/// triple
, 0 ] :u, ""a\""b"" : int
,
}
// c
// `tick` ""quote"" 'q'
,
} , }")).
Eval vm_compute in ("<<<M1382>>>" ++ check (runes_of_ascii "packet Sub {
    u8 a,
    @calculatedFrom(""CRC16"") i32 SubSum,
}
root packet Frame {
    u16 MsgType,
    u16 BodyLen @lengthOf(Body),
    Sub Body,
    string note,
    @calculatedFrom(""CRC16"") i32 Checksum,
    u8 tail,
}
")).
Eval vm_compute in ("<<<M10>>>" ++ check (runes_of_ascii "MetaData //	t
x{
    } packet rootA
//x
//	t
{ i64	As
//x
// @lengthOf(
@lengthOf(
    A )
`// not a comment` ,
}
    options { asx =	string ; i8i8 =zchar[
0123456789 ];	Foo =10 ; As =true
; }
")).
Eval vm_compute in ("<<<M1281>>>" ++ check (runes_of_ascii "// top
root // c0a
  // c0b
packet P {
    // c3
u16
    // c4
a
    // c5
,
    // c6
u32 // c7a
  // c7b
Sum // c8
@calculatedFrom( // c9a
  // c9b
""CRC32"" ) , } // c13
")).
Eval vm_compute in ("<<<M453>>>" ++ check (runes_of_ascii "packet uint8x
{ match pack
    as msg_type	{
    0123456789 :	float
}
@lengthOf(
} packet //	t
a1
    { } options {packetx
    = '\x00'	; u128= ""a	b""  ; }
")).
Eval vm_compute in ("<<<M1714>>>" ++ check (runes_of_ascii "MetaData chars {
}

options {
    As = true;
    As = false;
    stringy = true
}

packet repeatCount {
    string float @lengthOf(matchKey) `say ""hi""`,
}")).
Eval vm_compute in ("<<<M544>>>" ++ check (runes_of_ascii "packet uint8x
{ match pack
    as msg_type	{
    0123456789 :	float
}
,
} packet //	t
a1
    { } options {packetx
    = " ++ [65279]%N ++ runes_of_ascii " '\x00'	; u128= ""a	b""  ; }
")).
Eval vm_compute in ("<<<M447>>>" ++ check (runes_of_ascii "packet uint8x
{ match pack
    as msg_type	{
    0123456789 :	float
,
}
} packet //	t
a1
    { } options {packetx
    = '\x00'	; u128= ""a	b""  ; }
")).
Eval vm_compute in ("<<<M475>>>" ++ check (runes_of_ascii "packet uint8x
{ match pack
    as msg_type	{
    0123456789 :	float
}
,
} packet //	t
a1
    {  options {packetx
    = '\x00'	; u128= ""a	b""  ; }
")).
Eval vm_compute in ("<<<M668>>>" ++ check (runes_of_ascii "// @len'1'gthOf(
packet i8i8 { u128 o , }
options { MetaDataX = true;
    BodyLength =""packet"" x_y_z= 007
crc //x
= ""abc"" ;
    msg_type =
i16 }")).
Eval vm_compute in ("<<<M723>>>" ++ check (runes_of_ascii "// @lengthOf(
packet i8i8 { u128 o , }
options { MetaD?ataX = true;
    BodyLength =""packet"" x_y_z= 007
crc //x
= ""abc"" ;
    msg_type =
i16 }")).
Eval vm_compute in ("<<<M1921>>>" ++ check (runes_of_ascii "packet A {
    u16 len @lengthOf(body) `a
        
        b`,
    u32 crc @calculatedFrom(""CRC32"") `a
        
        b`,
    string body,
}")).
Eval vm_compute in ("<<<M1616>>>" ++ check (runes_of_ascii "packet

A
    {
match 
k as
	n{
[1 ,	22  ,""c c""

    ,	4 
,

5, ""f"",

    7  ,  8	,""i""
, 
10 ,  11]
    :B

    2 : 
C }
	,
}

")).
Eval vm_compute in ("<<<M304>>>" ++ check (runes_of_ascii "packet
    // " ++ [27880; 37322]%N ++ runes_of_ascii "
    Logon {
repeatCount @lengthOf( roots ) , @tag(0) repeat zchar[007] crc , rootA a1 `{ , }` , string_ `" ++ [233]%N ++ runes_of_ascii "`
,  }
")).
Eval vm_compute in ("<<<M1654>>>" ++ check (runes_of_ascii "packet B {
    u8 a,
}

root packet P {
    u8 K,
    u64 L @lengthOf(Body),
    match K as Body {
        1 : B,
    },
}")).
Eval vm_compute in ("<<<M1157>>>" ++ check (runes_of_ascii "MetaData leftPad { chars MetaDataX , } packet // c
repeatCount { char[ 255 ] uint8x `" ++ [233]%N ++ runes_of_ascii "` , } MetaData pack { As Foo , }")).
Eval vm_compute in ("<<<M1660>>>" ++ check (runes_of_ascii "
packet
B
	{ 
u8 a
    ,
    string

s	,
}
    root
packet

    P
{
u16
L  @lengthOf(B 
)  ,	B,

u8

    t ,
}
")).
Eval vm_compute in ("<<<M290>>>" ++ check (runes_of_ascii "options {
    /// triple
    asx // " ++ [27880; 37322]%N ++ runes_of_ascii "
= 3 } MetaData T
{  f32/// triple
Pad `u8 x,` , } // `tick` ""quote"" 'q'")).
Eval vm_compute in ("<<<M909>>>" ++ check (runes_of_ascii "packet A {
  match k as n {
    [1, ""bb"", 007, ""d"", 5, ""f"", 7, ""h"", 9, ""j"", 11, ""l""] : B
    2 : C
  },
}")).
Eval vm_compute in ("<<<M484>>>" ++ check (runes_of_ascii "packet uint8x
{ match pack
    as msg_type	{
    0123456789 :	float
}
,
} packet //	t
a1
    { }")).
Eval vm_compute in ("<<<M1267>>>" ++ check (runes_of_ascii "packet B {
    u8 a,
    string s,
}
root packet P {
    u16 L @lengthOf(B),
    B,
    u8 t,
}
")).
Eval vm_compute in ("<<<M635>>>" ++ check (runes_of_ascii "
packet
    asx {'1'match u128 as lengthOf
{
//	t
// `tick` ""quote"" 'q'
255 : x ,
    } ,	}")).
Eval vm_compute in ("<<<M637>>>" ++ check (runes_of_ascii "
~packet
    asx {match u128 as lengthOf
{
//	t
// `tick` ""quote"" 'q'
255 : x ,
    } ,	}")).
Eval vm_compute in ("<<<M587>>>" ++ check (runes_of_ascii "
packet
    asx {match u128 as lengthOf

//	t
// `tick` ""quote"" 'q'
255 : x ,
    } ,	}")).
Eval vm_compute in ("<<<M621>>>" ++ check (runes_of_ascii "
packet
    asx {match u128 as lengthOf
{
//	t
// `tick` ""quote"" 'q'
255 : x ,
    }")).
Eval vm_compute in ("<<<M852>>>" ++ check (runes_of_ascii "packet A {
  match k as n {
    [1, 22, 007, 4, 5, 66, 7, 8] : B,
    2 : C
  },
}")).
Eval vm_compute in ("<<<M1904>>>" ++ check (runes_of_ascii "packet A {
    // a
    @tag(1)
    u8 x,// b
    // c
    @tag(2)
    u8 y,
}")).
Eval vm_compute in ("<<<M459>>>" ++ check (runes_of_ascii "packet uint8x
{ match pack
    as msg_type	{
    0123456789 :	float
}
,")).
Eval vm_compute in ("<<<M1856>>>" ++ check (runes_of_ascii "
packet

    A
	{ 
B b `a
b`
,
B`a
b` ,

repeat

B
	bs
`a
b` , }
")).
Eval vm_compute in ("<<<M788>>>" ++ check (runes_of_ascii "packet A {
  match k as n {
    [1, 22, 007] : B
    2 : C
  },
}")).
Eval vm_compute in ("<<<M779>>>" ++ check (runes_of_ascii "packet A {
  match k as n {
    [1, 22] : B
    2 : C
  },
}")).
Eval vm_compute in ("<<<M1670>>>" ++ check (runes_of_ascii "packet calculatedFrom {
    repeat string Foo `{ , }`,
}")).
Eval vm_compute in ("<<<M1202>>>" ++ check (runes_of_ascii "packet body
// c
{ i32 f32a `{ , }` , } options { }")).
Eval vm_compute in ("<<<M1567>>>" ++ check (runes_of_ascii "MetaData M {
    u8 x `
    `,
    T t `
    `,
}")).
Eval vm_compute in ("<<<M1221>>>" ++ check (runes_of_ascii "// top
packet // c0
x // c1
{ // c2
} // c3
")).
Eval vm_compute in ("<<<M752>>>" ++ check (runes_of_ascii "repeatCount u32 as false uint64 0 @tag(")).
Eval vm_compute in ("<<<M197>>>" ++ check (runes_of_ascii "
options {u8x
=
    ""packet"" ;	}
")).
Eval vm_compute in ("<<<M1579>>>" ++ check (runes_of_ascii "packet A {
    // a
    u8 x,
}")).
Eval vm_compute in ("<<<M941>>>" ++ check (runes_of_ascii "packet A {
    u8 x `a

b`,
}")).
Eval vm_compute in ("<<<M1903>>>" ++ check (runes_of_ascii "options {
    // a // b
}")).
Eval vm_compute in ("<<<M1107>>>" ++ check (runes_of_ascii "MetaData tag // c
{ }")).
Eval vm_compute in ("<<<M1133>>>" ++ check (runes_of_ascii "MetaData u
// c
{ }")).
Eval vm_compute in ("<<<M1027>>>" ++ check (runes_of_ascii "// c" ++ [8287]%N ++ runes_of_ascii "
packet A {
}")).
Eval vm_compute in ("<<<M1014>>>" ++ check (runes_of_ascii "packet A {
}// c" ++ [8233]%N)).
Eval vm_compute in ("<<<M762>>>" ++ check (runes_of_ascii "w|lL|]kVFeknSP9")).
Eval vm_compute in ("<<<M561>>>" ++ check (runes_of_ascii "
packet")).
Eval vm_compute in ("<<<M56>>>" ++ check (runes_of_ascii " 	 ")).
