From FP Require Import Lexer Parser ShowPT Digest Formatter.
From Coq Require Import String List NArith.
Import ListNotations.
Open Scope string_scope.
Set Printing Width 100000000.
Set Printing Depth 100000000.
Definition show_fres (r : fres) : string :=
  match r with
  | FOk s => "OK:" ++ sh_escaped s ""
  | FErr s => "ERR:" ++ sh_escaped s ""
  | FPanic p => "PANIC:" ++ p
  end.
Definition check (rs : list rune) : string := digest (show_fres (format_res rs)).
Definition full (rs : list rune) : string := show_fres (format_res rs).
Eval vm_compute in ("<<<M1676>>>" ++ check (runes_of_ascii "MetaData chars {
    int8 Z9_,
    float rootA `tab	here`,
    T o `it's`,
    roots int,
    repeatCount MetaDataX,
    float32 falsey `say ""hi""`,
}

packet msg_type {
    repeat f32 o,
    @tag(0)
    char[] A,
    repeat char[] tag `say ""hi""`,
    repeat char[0] Z9_,
    zchar[1] lengthOf,
    i64 T,
    match float as leftPad {
        007 : len,
        ""it's"" : len,
        ""it's"" : float,
        [
            255, 00, 1, ""abc"", ""abc"",
            """ ++ [28040; 24687]%N ++ runes_of_ascii """, ""x y"", """"
        ] : _x,
        """" : len,
        ""\" ++ [233]%N ++ runes_of_ascii """ : i64_,
        //	t
    },
    roots {
        char[1] Header @lengthOf(x_y_z),
        body u128,// `tick` ""quote"" 'q'
        char[] float,
        chars @lengthOf(x) `doc`,
    },
    crc `it's`,
    @calculatedFrom(""" ++ [128512]%N ++ runes_of_ascii """)
    BodyLength `" ++ [28040; 24687; 31867; 22411]%N ++ runes_of_ascii "`,
}

packet u128 {
    lengthOf,
    pack @lengthOf(u8x) `// not a comment`,
    @leftPad(' ')
    float {
        match asx as charz {
            [4294967296, 255, 42, """", ""1""] : u8x,
            ""{,}"" : Foo,
            42 : leftPad,
            [255, 4294967296, ""a\""b"", ""it's""] : stringy,
            3 : Header,
        },
        match o as Pad {
            3 : i64_,
        },
        repeat string msg_type,
        match packetx as lengthOf {
            [""x y"", """"] : x_y_z,
        },
    },
    i64 float,
    repeat zchar[3] rootA `crlf
    line`,
    match msg_type as len {
        ""CRC32"" : MetaDataX,
    },
    f32 A,
    char[0123456789] chars `{ , }`,/// triple
    @calculatedFrom(""a\""b"")
    string string_ `" ++ [233]%N ++ runes_of_ascii "`,
}")).
Eval vm_compute in ("<<<M1510>>>" ++ check (runes_of_ascii "root packet// " ++ [27880; 37322]%N ++ runes_of_ascii "
	  crc
	{	@lengthOf( As

) 
@calculatedFrom(""\" ++ [233]%N ++ runes_of_ascii """
    )zchar[

    4294967296] 
MetaDataX

    `doc` , 	 /// triple
	rootA@calculatedFrom( ""it's"" ),
@tag(
	65535 )
@tag(// c
  7 )@tag(  00 
//
  // c
) 
len @lengthOf( A )
    `two words` ,  
      // trailing space 

// " ++ [128512]%N ++ runes_of_ascii " emoji

	string  rootA
	@lengthOf(	pack 
    // trailing space 
  	//	t
),
    // " ++ [128512]%N ++ runes_of_ascii " emoji
	// trailing space 
	repeat zchar 
,
	@calculatedFrom( ""abc""

    )@leftPad( '\x00' 
) @rightPad

    ( )
match 
x_y_z

as
	Z9_ {  ""it's""
:Logon//x
    ,
	""x y"":	Packet  ,""abc""
	:

trueish 4294967296  // @lengthOf(
	: repeatCount

""" ++ [128512]%N ++ runes_of_ascii """
:	x_y_z
} ,
	char[10 	 // @lengthOf(
	] stringy  `it's`  , @leftPad	('\x00'

    ) 
rootA @lengthOf(
i64_  )
,  }  MetaData falsey
{ Packet repeatCount
`tab	here`
, } MetaData

string_
{ float64
    roots `line1
line2`,
	char  As	//
  `
`	,	zchar[ 65535
	]falsey
`a\`
	, A 
T
	, _x  metadata

    , }	packet
_x 	 // packet A { u8 x, }
{ zchar[

255	]
string_

    @lengthOf( 
    //	t
	// @lengthOf(
	  u128

    )  `{ , }`  ,	}root packet	Packet {
repeat 	 // " ++ [128512]%N ++ runes_of_ascii " emoji
    lengthOf ,  }

")).
Eval vm_compute in ("<<<M174>>>" ++ check (runes_of_ascii "
root packet asx { leftPad
    {u128 @calculatedFrom( ""1""
) , //x
}
, lengthOf // packet A { u8 x, }
@calculatedFrom( """ ++ [128512]%N ++ runes_of_ascii """ ) `a\`
, i64 // `tick` ""quote"" 'q'
Packet @lengthOf(  calculatedFrom ) , @calculatedFrom(
""" ++ [233]%N ++ runes_of_ascii "t" ++ [233]%N ++ runes_of_ascii """ ) stringy	a1 `doc` // `tick` ""quote"" 'q'
, @rightPad
    (
    // a // b
    )
    // c
    a1
    `a\`
,  char
Header @lengthOf(
    x )`say ""hi""`, uint8x
Z9_ `tab	here` ,  }
options
    {
    calculatedFrom// packet A { u8 x, }
= 0}	packet metadata {@leftPad ( '\x00'	) f32
    pack
//	t
//
, @tag( 65535 ) u32 uint8x @lengthOf( repeatCount) ``,MetaDataX	{ repeat options1 , match
matchKey as len { """ ++ [128512]%N ++ runes_of_ascii """:
    u8x	, 1 :
zchar
, /// triple
[ ""a\\""
    ,
    ""x y"" ] : charz 0
    :
    x_y_z
    //
    ,[// trailing space 
4294967296// `tick` ""quote"" 'q'
]: asx  , [/// triple
""a\""b"" , ""\n"" , ""\" ++ [233]%N ++ runes_of_ascii """ ,10 ] : _x ,
    }	, uint8  metadata
@lengthOf(float
) ,
zchar[
    255] i8i8 , },
    }root  packet
f32a
    { }")).
Eval vm_compute in ("<<<M1123>>>" ++ check (runes_of_ascii "// top
options
    // c0
{
    // c1
uint8x
    // c2
=
    // c3
007
    // c4
;
    // c5
lengthOf
    // c6
=
    // c7
i8
    // c8
;
    // c9
}
    // c10
packet
    // c11
i64_
    // c12
{
    // c13
@calculatedFrom(
    // c14
""1""
    // c15
)
    // c16
@tag(
    // c17
3
    // c18
)
    // c19
@lengthOf(
    // c20
rootA
    // c21
)
    // c22
repeat
    // c23
int8
    // c24
Packet
    // c25
`u8 x,`
    // c26
,
    // c27
}
    // c28
root
    // c29
packet
    // c30
stringy
    // c31
{
    // c32
@rightPad
    // c33
(
    // c34
' '
    // c35
)
    // c36
repeat
    // c37
char[
    // c38
10
    // c39
]
    // c40
repeatCount
    // c41
,
    // c42
@tag(
    // c43
255
    // c44
)
    // c45
float64
    // c46
msg_type
    // c47
@calculatedFrom(
    // c48
""packet""
    // c49
)
    // c50
,
    // c51
}
    // c52
")).
Eval vm_compute in ("<<<M230>>>" ++ check (runes_of_ascii "packet rootA{	match
zchar as
    // " ++ [128512]%N ++ runes_of_ascii " emoji
    int {
    [ ""it's""
, ""1""]
    :// c
tag ,
    } , char Packet @lengthOf( body ) , metadata @lengthOf( packetx ) ,@calculatedFrom( """ ++ [128512]%N ++ runes_of_ascii """	)match
    repeatCount as f32a { """ ++ [28040; 24687]%N ++ runes_of_ascii """
    :chars ,
    }
    ,@lengthOf(string_ )char[ 0
    //
    ] len @calculatedFrom(
""abc"" )
,
    // `tick` ""quote"" 'q'
    u8 uint8x@lengthOf( roots)  `say ""hi""`
, int @calculatedFrom( ""a\""b"") ,match
msg_type as i8i8 {// c
""\" ++ [233]%N ++ runes_of_ascii """
// " ++ [27880; 37322]%N ++ runes_of_ascii "
// packet A { u8 x, }
: Header , 1 : zchar,
    [ ""\n""	]
:	string_
""\n"" :i8i8 0123456789 : Logon
    [ 00 , 007 ,""1"" ,
    //	t
    ""it's""
    , ""// no comment""
    ,
    0
, ""a\\"" ,// packet A { u8 x, }
007 ]
    :BodyLength}
, match rootA as // c
chars  {
7
:
    // @lengthOf(
    Header }
, A Foo `tab	here` ,
}
")).
Eval vm_compute in ("<<<M4>>>" ++ check (runes_of_ascii "packet
    // " ++ [128512]%N ++ runes_of_ascii " emoji
    u128
{ repeat char[
// trailing space 
// packet A { u8 x, }
65535 ] float ,
}
options  { f32a
= char[] ; } packet// trailing space 
_x { @rightPad ('0' ) // packet A { u8 x, }
@lengthOf(i8i8) @lengthOf(lengthOf
)  repeat	Z9_//x
`crlf
line`, string_ {
// `tick` ""quote"" 'q'
// c
zchar[7
]x_y_z , Header x
`line1
line2` ,
    }, //	t
@leftPad ( )
    match float
as	x_y_z
{ """ ++ [28040; 24687]%N ++ runes_of_ascii """ : metadata, 007 :
    A,00 : falsey
    , 0123456789  : Foo // trailing space 
,0123456789
:
    zchar
, } ,@calculatedFrom( ""1"" )
@tag(
/// triple
/// triple
0	) char[
00 ] options1	, } packet Pad{
u16
body
@lengthOf( stringy // c
), } options { BodyLength ='0'msg_type =""a\""b"" ; }

")).
Eval vm_compute in ("<<<M1404>>>" ++ check (runes_of_ascii "// `tick` ""quote"" 'q'
packet As {
    @rightPad('0')
    stringy @lengthOf(calculatedFrom),
    @tag(10)
    string uint8x `
    `,
    match body as uint8x {
        ""it's"" : rootA,
        [00] : leftPad,
        42 : MetaDataX,
        ""a	b"" : calculatedFrom,
        255 : trueish,
    },
    repeat i64 Logon `tab	here`,
}

options {
    crc = '\x00';
}

packet x {
    @calculatedFrom(""a\\"")
    @tag(42)
    @leftPad('0')
    match o as x_y_z {
        // packet A { u8 x, }
        [
            0123456789, 007, 3, 007, """ ++ [128512]%N ++ runes_of_ascii """,
            ""x y"", ""CRC32"", ""it's""
        ] : Packet,
        // c
        [255, ""x y""] : x_y_z,
    },
}")).
Eval vm_compute in ("<<<M348>>>" ++ check (runes_of_ascii "root // c
packet asx { @rightPad
    (
' ' ) @lengthOf(  int)@tag( 0 ) u64 uint8x @calculatedFrom( ""packet"")
    ,  uint32 i64_ ,
    // c
    repeat options1 o,match f32a as /// triple
falsey// " ++ [27880; 37322]%N ++ runes_of_ascii "
{ 42 : stringy 10 :
As, """" :
    Packet ,
} ,@calculatedFrom(""it's""
) // " ++ [128512]%N ++ runes_of_ascii " emoji
f64	a1 ,
    @lengthOf(
    tag )
    match roots as MetaDataX
{
""" ++ [128512]%N ++ runes_of_ascii """:  f32a
    , ""\n"" :
    As [ 255 ]: A ,  }, a1 @calculatedFrom(	""abc"" )
`` , @rightPad(
)
    @rightPad (
    '\x00'
)@calculatedFrom(
""CRC32"" )body As , }  root packet packetx
{
//x
//
repeat lengthOf Logon `" ++ [28040; 24687; 31867; 22411]%N ++ runes_of_ascii "` , //	t
}")).
Eval vm_compute in ("<<<M1752>>>" ++ check (runes_of_ascii "// a // b
packet stringy {
    @tag(3)
    // trailing space 
    i64 len,
    @calculatedFrom(""1"")
    char[0] x @lengthOf(Foo),
    @calculatedFrom("""")
    body @lengthOf(calculatedFrom) `line1
    line2`,
    @calculatedFrom(""it's"")
    // packet A { u8 x, }
    match falsey as u8x {
        [42, 1, 10, """ ++ [128512]%N ++ runes_of_ascii """] : Header,
    },
}

MetaData stringy {
    f32a u128 `{ , }`,
    char[10] u128,
    chars _x,
    zchar[65535] falsey `{ , }`,
    _x i64_,
    int32 Packet `crlf
    line`,
}

MetaData lengthOf {
}")).
Eval vm_compute in ("<<<M1574>>>" ++ check (runes_of_ascii "root packet int {
    repeat float tag,
    char[] roots,
    @lengthOf(repeatCount)
    @lengthOf(rootA)
    uint16 o `tab	here`,
    //	t
    i16 Pad `line1
    line2`,
    Pad {
        match Pad as _x {
            [00] : Z9_,
        },
    },
    repeat zchar calculatedFrom `a\`,
    f64 charz,
    Pad Foo,
    @calculatedFrom(""" ++ [28040; 24687]%N ++ runes_of_ascii """)
    charz @lengthOf(charz),
    @lengthOf(rootA)
    match o as body {
        00 : x_y_z,
        // " ++ [128512]%N ++ runes_of_ascii " emoji
    },
}")).
Eval vm_compute in ("<<<M1433>>>" ++ check (runes_of_ascii "packet u {
    @lengthOf(zchar)
    match Header as len {
        42 : x_y_z,
    },
    rootA `
    `,
    match u8x as pack {
        [1, """"] : float,
        ""abc"" : string_,
        42 : i64_,
        1 : zchar,
    },
    char[3] int,
    match options1 as u128 {
        [""`tick`""] : u,
    },
}

options {
    len = i8;
    zchar = true;
}

packet T {
    char[42] asx @calculatedFrom(""CRC32""),
}")).
Eval vm_compute in ("<<<M372>>>" ++ check (runes_of_ascii "// @lengthOf(
MetaData leftPad { string	options1`say ""hi""` ,
    //x
    int16 metadata`" ++ [233]%N ++ runes_of_ascii "`,f32 i64_
//	t
// c
, }  packet
trueish { // c
MetaDataX roots ,_x
    a1 , match
packetx as charz { 0
: // c
f32a ,
} //
, repeat body Logon , }	options { repeatCount=
    int8
charz // `tick` ""quote"" 'q'
=	char[];  msg_type =""it's""	u
=
    007 Z9_
    = uint32
    //
    }")).
Eval vm_compute in ("<<<M194>>>" ++ check (runes_of_ascii "// `tick` ""quote"" 'q'
options
    //	t
    { }  packet lengthOf // `tick` ""quote"" 'q'
{  } packet
// a // b
// " ++ [27880; 37322]%N ++ runes_of_ascii "
Foo {
@tag(
1
) string
uint8x ,_x { chars  , string uint8x , i64 _x //
`it's`
    , repeat uint8 As,	}
, float32
f32a , @leftPad( '\x00')
    @calculatedFrom( """ ++ [28040; 24687]%N ++ runes_of_ascii """
) // trailing space 
uint8 Logon
,
    }")).
Eval vm_compute in ("<<<M321>>>" ++ check (runes_of_ascii "
options
{ a1 = '\x00'
As
= ""{,}"" u8x
=//x
""a	b""
    ; asx
    = u64;
o
// @lengthOf(
// c
=0123456789 } packet Header
{
    //
    @lengthOf(x // trailing space 
)
    // " ++ [27880; 37322]%N ++ runes_of_ascii "
    repeat
falsey { repeatCount
    trueish
`u8 x,` , } ,
// `tick` ""quote"" 'q'
// " ++ [128512]%N ++ runes_of_ascii " emoji
zchar[
65535 ] x
    ,
}")).
Eval vm_compute in ("<<<M1322>>>" ++ check (runes_of_ascii "packet

    P1
    { u8

    a 
,
} packet

P2  { 
P1
	,
    }  packet	P3 {	P2  ,

P1	,}
	packet  P4

{ 
repeat  P3
	,

P2,

}root

    packet
    P5 {
P4,

    P3

,

    P1 , u8	K
    ,match
    K as Body {
	4:P4 ,
3

: P3 ,
	2 : P2 , 1
: P1	,
}	,  }")).
Eval vm_compute in ("<<<M203>>>" ++ check (runes_of_ascii "root packet Pad {match //	t
falsey as
    A{
255:// `tick` ""quote"" 'q'
T, } , int64
Header	`tab	here`
, repeat i64_ `line1
line2`, @tag( 7 )
    float32	zchar
    @calculatedFrom( ""\" ++ [233]%N ++ runes_of_ascii """
    )
//
// @lengthOf(
,u64 Header ,
    }
")).
Eval vm_compute in ("<<<M1729>>>" ++ check (runes_of_ascii "
options 
{

Logon
	=char[
    00	];
    zchar=

    false
Logon 
= 
i8
;} options{  asx ='0' int

=

""\" ++ [233]%N ++ runes_of_ascii """
    calculatedFrom

=  '\x00'// packet A { u8 x, }
    ; 	 // `tick` ""quote"" 'q'
}")).
Eval vm_compute in ("<<<M1597>>>" ++ check (runes_of_ascii "packet x_y_z {
    rootA @lengthOf(o) `two words`,
}

MetaData f32a {
    trueish x,
}

MetaData body {
    u128 pack,
    f64 float,
    char[65535] tag `" ++ [233]%N ++ runes_of_ascii "`,
}// " ++ [128512]%N ++ runes_of_ascii " emoji")).
Eval vm_compute in ("<<<M481>>>" ++ check (runes_of_ascii "packet uint8x
{ match pack
    as msg_type	{
    0123456789 :	float
}
,
} packet //	t
a1
    { } options options {packetx
    = '\x00'	; u128= ""a	b""  ; }
")).
Eval vm_compute in ("<<<M1457>>>" ++ check (runes_of_ascii "packet A {
    match k as n {
        [
            ""a"", ""bb"", ""c c"", ""d"", ""e"",
            ""f"", ""g"", ""h"", ""i"", ""j""
        ] : B,
        2 : C,
    },
}")).
Eval vm_compute in ("<<<M544>>>" ++ check (runes_of_ascii "packet uint8x
{ match pack
    as msg_type	{
    0123456789 :	float
}
,
} packet //	t
a1
    { } options {packetx
    = " ++ [65279]%N ++ runes_of_ascii " '\x00'	; u128= ""a	b""  ; }
")).
Eval vm_compute in ("<<<M442>>>" ++ check (runes_of_ascii "packet uint8x
{ match pack
    as msg_type	{
    0123456789 :	}
float
,
} packet //	t
a1
    { } options {packetx
    = '\x00'	; u128= ""a	b""  ; }
")).
Eval vm_compute in ("<<<M470>>>" ++ check (runes_of_ascii "packet uint8x
{ match pack
    as msg_type	{
    0123456789 :	float
}
,
} packet //	t
a1
     } options {packetx
    = '\x00'	; u128= ""a	b""  ; }
")).
Eval vm_compute in ("<<<M667>>>" ++ check (runes_of_ascii "// @lengthOf(
packet i8i8 { u128 o char }
options { MetaDataX = true;
    BodyLength =""packet"" x_y_z= 007
crc //x
= ""abc"" ;
    msg_type =
i16 }")).
Eval vm_compute in ("<<<M723>>>" ++ check (runes_of_ascii "// @lengthOf(
packet i8i8 { u128 o , }
options { MetaD?ataX = true;
    BodyLength =""packet"" x_y_z= 007
crc //x
= ""abc"" ;
    msg_type =
i16 }")).
Eval vm_compute in ("<<<M704>>>" ++ check (runes_of_ascii "// @lengthOf(
packet i8i8 { u128 o , }
options { MetaDataX = true;
    BodyLength =""packet"" x_y_z 007
crc //x
= ""abc"" ;
    msg_type =
i16 }")).
Eval vm_compute in ("<<<M1599>>>" ++ check (runes_of_ascii "packet _x {
    //
    repeat zchar[1] metadata,
    @leftPad(' ')
    @lengthOf(T)
    @lengthOf(Z9_)
    char[] As,
    string f32a,
}")).
Eval vm_compute in ("<<<M1598>>>" ++ check (runes_of_ascii "packet A {
    match k as n {
        [
            1, 22, 4, 5, 7,
            ""c c"", ""f""
        ] : B,
        2 : C,
    },
}")).
Eval vm_compute in ("<<<M1189>>>" ++ check (runes_of_ascii "MetaData leftPad { chars MetaDataX , } packet repeatCount { char[ 255 ] uint8x `" ++ [233]%N ++ runes_of_ascii "` , } MetaData pack { As Foo , } // c
")).
Eval vm_compute in ("<<<M1169>>>" ++ check (runes_of_ascii "MetaData leftPad { chars MetaDataX , } packet repeatCount { char[ 255 ] uint8x // c
`" ++ [233]%N ++ runes_of_ascii "` , } MetaData pack { As Foo , }")).
Eval vm_compute in ("<<<M1717>>>" ++ check (runes_of_ascii "
options
{
lengthOf
=3
trueish
    // packet A { u8 x, }
// trailing space 
=
true;
calculatedFrom
	=
007;}
")).
Eval vm_compute in ("<<<M25>>>" ++ check (runes_of_ascii "packet stringy	{
    } // packet A { u8 x, }
packet
    u128
    { u16 len@lengthOf( u128)	,
    //x
    }
")).
Eval vm_compute in ("<<<M352>>>" ++ check (runes_of_ascii "packet _x {
} // trailing space 
options
    { repeatCount
    =42 //x
;Pad = true;
x_y_z =
65535 ;}
")).
Eval vm_compute in ("<<<M1494>>>" ++ check (runes_of_ascii "packet A {
    u32 crc @calculatedFrom(""\
        ""),
    @calculatedFrom(""\
        "")
    u8 y,
}")).
Eval vm_compute in ("<<<M1254>>>" ++ check (runes_of_ascii "
packet
    Inner {
    u8 a

,
} root
	packet P

    {  repeat
    Inner items,	u8 
x	, } ")).
Eval vm_compute in ("<<<M226>>>" ++ check (runes_of_ascii "// a // b
packet Pad {
    char[] // packet A { u8 x, }
Z9_ @lengthOf( Pad
) `{ , }` , } 	 ")).
Eval vm_compute in ("<<<M69>>>" ++ check (runes_of_ascii "//
packet metadata
{ }	MetaData chars
//x
//	t
{
    char[ 42	] leftPad `crlf
line`  ,
}")).
Eval vm_compute in ("<<<M850>>>" ++ check (runes_of_ascii "packet A {
  match k as n {
    [""a"", ""bb"", 007, ""d"", ""e"", 66, ""g""] : B
    2 : C
  },
}")).
Eval vm_compute in ("<<<M1382>>>" ++ check (runes_of_ascii "packet  A	{

match
k as
n
{ [
	1
, 22
	, 007

,4	]  :

    B

    2
:  C}, }

")).
Eval vm_compute in ("<<<M748>>>" ++ check (runes_of_ascii "options match @lengthOf( options char[] zchar[ MetaData f32 f64 u16 ""{,}"" `doc` (")).
Eval vm_compute in ("<<<M269>>>" ++ check (runes_of_ascii "options
{ Z9_ ='\x00'  } packet trueish
{ // " ++ [128512]%N ++ runes_of_ascii " emoji
u16 calculatedFrom
, }")).
Eval vm_compute in ("<<<M67>>>" ++ check (runes_of_ascii "options { charz =""1"" _x= """ ++ [128512]%N ++ runes_of_ascii """ u = string ; stringy=
""" ++ [28040; 24687]%N ++ runes_of_ascii """ }
// @lengthOf(
")).
Eval vm_compute in ("<<<M809>>>" ++ check (runes_of_ascii "packet A {
  match k as n {
    [1, 22, ""c c"", 4] : B
    2 : C
  },
}")).
Eval vm_compute in ("<<<M653>>>" ++ check (runes_of_ascii "// @lengthOf(
packet i8i8 { u128 o , }
options { MetaDataX = true")).
Eval vm_compute in ("<<<M204>>>" ++ check (runes_of_ascii "  options {// " ++ [128512]%N ++ runes_of_ascii " emoji
Packet =// `tick` ""quote"" 'q'
char[3 ]}")).
Eval vm_compute in ("<<<M1926>>>" ++ check (runes_of_ascii "

  root	packet
P  {
repeat

    char 
cs 
,
u8 x
	, }")).
Eval vm_compute in ("<<<M1203>>>" ++ check (runes_of_ascii "packet body { // c
i32 f32a `{ , }` , } options { }")).
Eval vm_compute in ("<<<M1257>>>" ++ check (runes_of_ascii "
root	packet

P	{
	hdr {u8  a,
}  ,u8 
x , 
}
")).
Eval vm_compute in ("<<<M965>>>" ++ check (runes_of_ascii "options {
    a = ""x\
y"";
    b = ""x\
y""
}")).
Eval vm_compute in ("<<<M1096>>>" ++ check (runes_of_ascii "packet A { u8 x,// a


// b

 u8 y, }")).
Eval vm_compute in ("<<<M105>>>" ++ check (runes_of_ascii "// " ++ [128512]%N ++ runes_of_ascii " emoji
MetaData crc
    {  }")).
Eval vm_compute in ("<<<M1008>>>" ++ check (runes_of_ascii "packet A {
 u8 x `d" ++ [8202]%N ++ runes_of_ascii "`, // c" ++ [8202]%N ++ runes_of_ascii "
}")).
Eval vm_compute in ("<<<M1681>>>" ++ check (runes_of_ascii "
packet 
x 	 // c
  {
}

")).
Eval vm_compute in ("<<<M1104>>>" ++ check (runes_of_ascii "
// c
MetaData tag { }")).
Eval vm_compute in ("<<<M1129>>>" ++ check (runes_of_ascii "
// c
MetaData u { }")).
Eval vm_compute in ("<<<M991>>>" ++ check (runes_of_ascii "packet A {
}
// c" ++ [133]%N)).
Eval vm_compute in ("<<<M1233>>>" ++ check (runes_of_ascii "packet x { }
// c
")).
Eval vm_compute in ("<<<M1774>>>" ++ check (runes_of_ascii "// trailing space")).
Eval vm_compute in ("<<<M1763>>>" ++ check (runes_of_ascii "// " ++ [128512]%N ++ runes_of_ascii " emoji
")).
Eval vm_compute in ("<<<M1035>>>" ++ check (runes_of_ascii "// c" ++ [12]%N)).
