From FP Require Import Lexer Parser ShowPT Digest Formatter.
From Coq Require Import String List NArith.
Import ListNotations.
Open Scope string_scope.
Set Printing Width 100000000.
Set Printing Depth 100000000.
Definition show_fres (r : fres) : string :=
  match r with
  | FOk s => "OK:" ++ sh_escaped s ""
  | FErr s => "ERR:" ++ sh_escaped s ""
  | FPanic p => "PANIC:" ++ p
  end.
Definition check (rs : list rune) : string := digest (show_fres (format_res rs)).
Definition full (rs : list rune) : string := show_fres (format_res rs).
Eval vm_compute in ("<<<M233>>>" ++ check (runes_of_ascii "
packet rootA { char[ 0  ]  len @calculatedFrom(// `tick` ""quote"" 'q'
""abc"" ) , u8
    // trailing space 
    uint8x @lengthOf(roots
) // 50% %s
`a\`
, int
    @calculatedFrom(""a\""b"" ) ,
match msg_type as i8i8 { ""\" ++ [233]%N ++ runes_of_ascii """ :
// trailing space 
// a // b
Header , 1 /// triple
:
    zchar
,
[
    ""\n"" ] :string_
""\n""
:i8i8 0123456789// c
:Logon[00 ,007 , ""1"",
""it's""//
, ""// no comment"" ,0, ""a\\"" , 007 // " ++ [27880; 37322]%N ++ runes_of_ascii "
] /// triple
:BodyLength }
,
    match
    rootA
// @lengthOf(
// " ++ [27880; 37322]%N ++ runes_of_ascii "
as
    chars
{ 7 :
    Header} , A Foo // `tick` ""quote"" 'q'
`tab	here`
,float64
charz @calculatedFrom(""\" ++ [233]%N ++ runes_of_ascii """ ) ,	f32 tag , @lengthOf( x ) // `tick` ""quote"" 'q'
@leftPad
    (	'\x00' )	crc { repeat i16 options1 `tab	here` , match options1
as charz { ""CRC32""	: u , 0 // " ++ [27880; 37322]%N ++ runes_of_ascii "
: //
charz
""x y""
    :	roots	, [ ""CRC32""
,
    """ ++ [233]%N ++ runes_of_ascii "t" ++ [233]%N ++ runes_of_ascii """
]
: i8i8
,}
    ,  repeat // " ++ [27880; 37322]%N ++ runes_of_ascii "
falsey { match chars as
asx	{ ""abc"" : stringy
,
    } ,match lengthOf as charz {
    0123456789	:
// c
//
o // " ++ [27880; 37322]%N ++ runes_of_ascii "
,
    ""// no comment""
: chars ,[
    // @lengthOf(
    """"  , 7
    , 255 ,00  , 42	]
    :
float  , } ,	match
    a1 as lengthOf
{ [ /// triple
65535	, 1 ]: int
""{,}"": calculatedFrom ,
""`tick`"" :  float// @lengthOf(
""// no comment""
: Packet[ // c
""\" ++ [233]%N ++ runes_of_ascii """ ,	""// no comment"",
3	,
    """ ++ [128512]%N ++ runes_of_ascii """
    // packet A { u8 x, }
    , 255]  : int ,
//	t
// trailing space 
} ,},
}	,}  options {
msg_type= true
lengthOf =zchar[
    //
    1 // @lengthOf(
]; } root
    //
    packet packetx { i8 // 50% %s
tag
`line1
line2`,
    // @lengthOf(
    }")).
Eval vm_compute in ("<<<M1370>>>" ++ check (runes_of_ascii "// top
options
    // c0
{ // c1a
  // c1b
LittleEndian
    // c2
= // c3a
  // c3b
true // c4
; ArrayPrefixLenType = u32 ;
    // c9
FixedStringPadChar // c10
= ' '
    // c12
; } packet Order // c16a
  // c16b
{
    // c17
char[ 5 ] seqNo // c21a
  // c21b
, // c22
uint8 Px // c24a
  // c24b
, } // c26
packet // c27a
  // c27b
Logon
    // c28
{ @rightPad // c30
(
    // c31
'\x00' // c32
)
    // c33
char[ // c34
8 ] Flags // c37
,
    // c38
zchar[
    // c39
3
    // c40
]
    // c41
count
    // c42
, repeat // c44a
  // c44b
Order // c45
, // c46a
  // c46b
} // c47
root
    // c48
packet // c49a
  // c49b
Party // c50
{ // c51a
  // c51b
repeat // c52
Logon // c53
,
    // c54
repeat // c55
char[ 1 // c57
]
    // c58
x , u32 // c61a
  // c61b
price
    // c62
, // c63
u32
    // c64
Side2
    // c65
@lengthOf(
    // c66
Body
    // c67
) ,
    // c69
match price // c71a
  // c71b
as Body // c73a
  // c73b
{ // c74
49 // c75
: Order , // c78
196 : // c80a
  // c80b
Logon // c81a
  // c81b
, } // c83a
  // c83b
, u32 // c85
f1 // c86a
  // c86b
@calculatedFrom( ""CRC32""
    // c88
) // c89a
  // c89b
, // c90a
  // c90b
} // c91a
  // c91b
")).
Eval vm_compute in ("<<<M1928>>>" ++ check (runes_of_ascii "  root
    packet rootA{}

packet	// 50% %s

Z9_  {

    repeat

char[  007	]

f32a 
,
    @rightPad(  ) u32 Header

    `a\` ,

    repeat
Z9_
    , repeat
i8i8 
    // 50% %s
    int`u8 x,` 	 // a // b
	, 	 // `tick` ""quote"" 'q'
  	uint8x , f64 

    // @lengthOf(
	// `tick` ""quote"" 'q'
i8i8  `" ++ [28040; 24687; 31867; 22411]%N ++ runes_of_ascii "`, @tag(
    //x
    	// 50% %s
3	) 	 // `tick` ""quote"" 'q'
    @tag(  3
	) @tag(
	10
)  repeat int
	{	MetaDataX

    , },	@tag(	10

    )

    int8

// " ++ [128512]%N ++ runes_of_ascii " emoji
pack

@lengthOf(  x
) ,	} 
packet	metadata  {@calculatedFrom(	""" ++ [233]%N ++ runes_of_ascii "t" ++ [233]%N ++ runes_of_ascii """	)
    repeat	rootA  uint8x
    , @calculatedFrom( ""\n""	)@lengthOf( 
len

    )	BodyLength {

    matchKey f32a `a\`
	, } ,

char[] leftPad 
`tab	here` , 
    // " ++ [27880; 37322]%N ++ runes_of_ascii "
  u32
    a1
    ,}

packet	trueish

    {
	@tag(
	007
	) 
f64 f32a	@calculatedFrom("""" )

`say ""hi""`	/// triple
	,@calculatedFrom(	""packet"" ) 
@calculatedFrom(""" ++ [28040; 24687]%N ++ runes_of_ascii """ // trailing space 
		)repeat	char[

    3  ]  zchar `
` ,
}MetaData tag
{} ")).
Eval vm_compute in ("<<<M305>>>" ++ check (runes_of_ascii "options { i8i8 =
    // " ++ [27880; 37322]%N ++ runes_of_ascii "
    float64//
;
pack =
    ""// no comment"" ; len =
    zchar[ 42 ] ;A
    = 65535
    //	t
    ;
    BodyLength	= 255
;
    }
root
packet	uint8x { @tag(
255 )
    @calculatedFrom( /// triple
""a\""b"" ) @leftPad ( ) string
i64_,} root packet tag
{char[]
BodyLength , tag {	repeat zchar[10] roots`" ++ [28040; 24687; 31867; 22411]%N ++ runes_of_ascii "` ,
} , BodyLength {
    // `tick` ""quote"" 'q'
    repeat msg_type
{zchar[
    // " ++ [27880; 37322]%N ++ runes_of_ascii "
    10 ]
Header @calculatedFrom( ""`tick`"" ) , repeat chars, f32a @calculatedFrom(""packet"") , Header {roots @calculatedFrom( """ ++ [28040; 24687]%N ++ runes_of_ascii """ ) ,
}  , },match
    body as
    // `tick` ""quote"" 'q'
    calculatedFrom {
    65535 :calculatedFrom 00 :
i64_ [ ""\n"" ,""a\""b""
// c
// a // b
]
    // @lengthOf(
    :
a1 ,
    // " ++ [128512]%N ++ runes_of_ascii " emoji
    65535 : charz , [ 3
    ,
""" ++ [28040; 24687]%N ++ runes_of_ascii """ ] :
    _x	,""1""
:
    pack , },
    } , float32
    lengthOf	`doc` ,}
")).
Eval vm_compute in ("<<<M1332>>>" ++ check (runes_of_ascii "packet P1 // c1a
  // c1b
{ // c2
u8 // c3a
  // c3b
a
    // c4
, }
    // c6
packet
    // c7
P2
    // c8
{ P1 // c10
, // c11a
  // c11b
}
    // c12
packet
    // c13
P3 { // c15
P2 , // c17a
  // c17b
P1
    // c18
, // c19a
  // c19b
}
    // c20
packet P4 { // c23a
  // c23b
repeat P3 , // c26
P2 // c27a
  // c27b
, // c28
} root // c30a
  // c30b
packet // c31
P5 { P4
    // c34
,
    // c35
P3
    // c36
, // c37a
  // c37b
P1 // c38a
  // c38b
, u8 K // c41a
  // c41b
,
    // c42
match
    // c43
K // c44
as Body {
    // c47
4 // c48
: // c49
P4 , // c51
3 :
    // c53
P3 ,
    // c55
2 // c56a
  // c56b
:
    // c57
P2
    // c58
,
    // c59
1 // c60
: // c61
P1 // c62
, } , } ")).
Eval vm_compute in ("<<<M1880>>>" ++ check (runes_of_ascii "packet Header {
    uint16 As @calculatedFrom(""CRC32""),
    float `doc`,
    char[3] crc,//x
    repeat u32 packetx,
    a1 @calculatedFrom(""`tick`""),
    repeat rootA {
        u8x `crlf
                line`,
        string x,
    },
    roots {
        char[65535] len `100% of %d`,
        u32 x_y_z,
    },
    a1 {
        match zchar as len {
            ""a\""b"" : roots,
        },
        uint32 i64_ `// not a comment`,
        repeat x_y_z {
            u @calculatedFrom(""""),
            Packet {
                char[00] msg_type,
            },
        },
    },
    options1 i8i8,
    string calculatedFrom,
}")).
Eval vm_compute in ("<<<M1600>>>" ++ check (runes_of_ascii "// top
options {
    LittleEndian = true;
    // c5
    StringPrefixLenType = u16;// c9a
    // c9b
    ArrayPrefixLenType = u16;
    // c13
    FixedStringPadFromLeft = true;// c17a
    // c17b
    FixedStringPadChar = '0';// c21
}

// c22
packet Leg {
    // c25a
    // c25b
    u16 Flags,
    // c28
    u8 price,
}// c32

packet Quote {
    uint16 count,// c38
    InNote89 {
        repeat Leg,// c43a
        // c43b
    },
}

root packet Ack {
    // c50
    char[3] price,// c55
    u64 sym,
    // c58
    zchar[1] Tail,// c63
}// c64a
// c64b")).
Eval vm_compute in ("<<<M187>>>" ++ check (runes_of_ascii "  packet matchKey
    { @tag( 4294967296) lengthOf`{ , }`
, //x
repeat BodyLength u8x
    ,  @tag(  007 )
    // packet A { u8 x, }
    match o as int	{ [ /// triple
""a\""b""
]: Header , } ,@tag( // @lengthOf(
1 )repeat /// triple
u128
    // @lengthOf(
    {
    repeat
    metadata
float	`
` , } //
, @calculatedFrom(
""""
    )@tag( 4294967296
    // a // b
    ) @tag(  7 ) i64_ Logon ,
    // " ++ [27880; 37322]%N ++ runes_of_ascii "
    @rightPad (  '\x00' //x
)  @calculatedFrom(
""\" ++ [233]%N ++ runes_of_ascii """ )
    @rightPad ( //	t
'0' ) i32 roots ,	}")).
Eval vm_compute in ("<<<M1500>>>" ++ check (runes_of_ascii "
options{ stringy  = 
// packet A { u8 x, }
		// a // b
true

;
	x_y_z
	=

false

x ='\x00'	//x
; matchKey  = i64 
;	// c
      }  root packet 
o	{
@lengthOf( float )int32

As , }	root
        /// triple
// trailing space 
  packet
x 
{// a // b
@rightPad
    ( ) 
i8i8 
@calculatedFrom(
""x y""

    )	//x
	  ,

}
MetaData u
{

A
    /// triple
	u8x , }
	options
{
u8x

    =

    i64
	_x= ""CRC32""

    ;MetaDataX 
=
u8
    }
")).
Eval vm_compute in ("<<<M1633>>>" ++ check (runes_of_ascii "packet falsey

    { 
repeat  f32 msg_type

    ,
	    // `tick` ""quote"" 'q'
  } options	{ 
x
=
    false 	 // trailing space 

  ; //	t
	A
	=
    0123456789; }packet 
stringy{  u128 int 
// @lengthOf(
	// @lengthOf(
  ,

    }

MetaData	A	{
u16

o
, A
    u8x,string  roots
	,

    options1
u128 
`line1
line2`

    ,
char[]msg_type``
,
    roots

    rootA`{ , }`

    , 	 // @lengthOf(
}
")).
Eval vm_compute in ("<<<M1851>>>" ++ check (runes_of_ascii "root packet rootA {
    @tag(3)
    T {
        int64 pack @calculatedFrom(""a\\"") `tab	here`,
        char[10] float,
        u {
            repeat f32 chars,
        },
        char[] f32a @lengthOf(zchar),
    },
    @calculatedFrom(""CRC32"")
    u32 x_y_z @lengthOf(Header) `say ""hi""`,
    @tag(65535)
    char Logon `line1
    line2`,
    float32 zchar `// not a comment`,
}")).
Eval vm_compute in ("<<<M1175>>>" ++ check (runes_of_ascii "// top
options // c0
{ // c1
f32a // c2
= // c3
0 // c4
} // c5
packet // c6
trueish // c7
{ // c8
} // c9
MetaData // c10
_x // c11
{ // c12
char[ // c13
0123456789 // c14
] // c15
zchar // c16
, // c17
string // c18
crc // c19
, // c20
char[ // c21
1 // c22
] // c23
options1 // c24
, // c25
uint8 // c26
repeatCount // c27
, // c28
} // c29
")).
Eval vm_compute in ("<<<M21>>>" ++ check (runes_of_ascii "options {
// " ++ [27880; 37322]%N ++ runes_of_ascii "
// " ++ [128512]%N ++ runes_of_ascii " emoji
string_
    =
false ;	falsey
    = char[ 4294967296
// 50% %s
// `tick` ""quote"" 'q'
] ; }
    packet zchar	{
    match //	t
float as
    //x
    len {
    [ """ ++ [233]%N ++ runes_of_ascii "t" ++ [233]%N ++ runes_of_ascii """
] : matchKey ,	3 :
//	t
// 50% %s
u
[ 4294967296,
    ""1""
] :zchar, } ,} MetaData T // packet A { u8 x, }
{
} 	 ")).
Eval vm_compute in ("<<<M1740>>>" ++ check (runes_of_ascii "MetaData u {
    f64 roots,
    zchar trueish,
}

root packet Foo {
    packetx,
    repeat zchar[3] msg_type `
    `,
}

root packet Header {
    match u8x as options1 {
        4294967296 : metadata,
        // `tick` ""quote"" 'q'
        4294967296 : float,
    },//x
}")).
Eval vm_compute in ("<<<M1505>>>" ++ check (runes_of_ascii "options {
    // c1
    LittleEndian = true;
}// c6

packet B {
    // c9
    u8 a,// c12
    string s,// c15a
    // c15b
}

// c16
root packet P {
    // c20
    u16 L @lengthOf(B),// c26a
    // c26b
    B,// c28
    u8 t,
    // c31
}// c32a
// c32b")).
Eval vm_compute in ("<<<M422>>>" ++ check (runes_of_ascii "packet
    asx { @calculatedFrom(
""""  ) @tag( 255 255 )repeat
// packet A { u8 x, }
// trailing space 
int16 u8x
,
@tag(
    //
    007 )
    @tag( 0
    /// triple
    ) @tag( 1) u
    @lengthOf( T ),
// `tick` ""quote"" 'q'
//x
} // " ++ [128512]%N ++ runes_of_ascii " emoji")).
Eval vm_compute in ("<<<M493>>>" ++ check (runes_of_ascii "packet
    asx { @calculatedFrom(
""""  ) @tag( 255 )repeat
// packet A { u8 x, }
// trailing space 
int16 u8x
,
@tag(
    //
    007 )
    @tag( 0
    /// triple
    ) @tag( 1 u )
    @lengthOf( T ),
// `tick` ""quote"" 'q'
//x
} // " ++ [128512]%N ++ runes_of_ascii " emoji")).
Eval vm_compute in ("<<<M468>>>" ++ check (runes_of_ascii "packet
    asx { @calculatedFrom(
""""  ) @tag( 255 )repeat
// packet A { u8 x, }
// trailing space 
int16 u8x
,
@tag(
    //
    007 )
    0 @tag(
    /// triple
    ) @tag( 1) u
    @lengthOf( T ),
// `tick` ""quote"" 'q'
//x
} // " ++ [128512]%N ++ runes_of_ascii " emoji")).
Eval vm_compute in ("<<<M544>>>" ++ check (runes_of_ascii "packet
    x" ++ [178]%N ++ runes_of_ascii " { @calculatedFrom(
""""  ) @tag( 255 )repeat
// packet A { u8 x, }
// trailing space 
int16 u8x
,
@tag(
    //
    007 )
    @tag( 0
    /// triple
    ) @tag( 1) u
    @lengthOf( T ),
// `tick` ""quote"" 'q'
//x
} // " ++ [128512]%N ++ runes_of_ascii " emoji")).
Eval vm_compute in ("<<<M1510>>>" ++ check (runes_of_ascii "  packet
    roots {
f64
u	@calculatedFrom(  ""a\\""	)
, @tag( 1 )
zchar[
0 ]
    stringy @lengthOf(	u  ) //	t
    ,
    } MetaData	body 
	    // trailing space 

{

BodyLength tag ,
	u32
	MetaDataX  , // @lengthOf(
    	}
")).
Eval vm_compute in ("<<<M1481>>>" ++ check (runes_of_ascii "
root packet trueish	// packet A { u8 x, }
	{ @tag(	00
    // 50% %s

)rootA @lengthOf(float
)	,	@rightPad
    (
	'0')
pack 
string_

, 
}

    packet i8i8

    {  string
	o

@calculatedFrom( 
""" ++ [128512]%N ++ runes_of_ascii """ ) ,
}
")).
Eval vm_compute in ("<<<M294>>>" ++ check (runes_of_ascii "
options  { Packet =u16 ;
f32a
    //
    =
""a\""b"" lengthOf= '0'
; uint8x =
    i8 uint8x ='\x00'; } packet
    rootA {
} options
{
uint8x =
    // a // b
    ""\" ++ [233]%N ++ runes_of_ascii """ } MetaData Packet {}
")).
Eval vm_compute in ("<<<M548>>>" ++ check (runes_of_ascii "MetaData MetaData u
    { } MetaData o
{ float uint8x
`100% of %d` ,repeatCount u8x, string_ leftPad
, i32
    Foo , int64 x `two words` , calculatedFrom
stringy `a\` ,
}
")).
Eval vm_compute in ("<<<M147>>>" ++ check (runes_of_ascii "packet
Pad { /// triple
trueish {  uint16	Packet @lengthOf(i8i8 ) `" ++ [28040; 24687; 31867; 22411]%N ++ runes_of_ascii "`
,Logon
    , repeat// `tick` ""quote"" 'q'
zchar[ 255  ]
f32a	`say ""hi""` ,	}
,
    //	t
    }
")).
Eval vm_compute in ("<<<M1423>>>" ++ check (runes_of_ascii "
options
    {
    }
    options
{
MetaDataX 
=	char
    ;
    }
    MetaData

    Pad

{
	i8 
metadata,
    string stringy ,  int8 
      // c
	As`{ , }`  ,

} ")).
Eval vm_compute in ("<<<M628>>>" ++ check (runes_of_ascii "MetaData u
    { } MetaData o
{ float uint8x
`100% of %d` ,repeatCount u8x, string_ leftPad
i32 ,
    Foo , int64 x `two words` , calculatedFrom
stringy `a\` ,
}
")).
Eval vm_compute in ("<<<M721>>>" ++ check (runes_of_ascii "packet
crc
{repeat  Foo A  `u8 x,` ,	@lengthOf( uint8x ) string
matchKey @lengthOf( stringy ) `a\`
,
    // c
    }
MetaData chars{
leftPad
    //	t
    crc
`" ++ [233]%N ++ runes_of_ascii "`")).
Eval vm_compute in ("<<<M671>>>" ++ check (runes_of_ascii "MetaData u
    { } MetaData o
{ float uint8x
`100% of %d` ,repeatCount u8x, string_ leftPad
, i32
    Foo , int64 x `two words` , calculatedFrom
 `a\` ,
}
")).
Eval vm_compute in ("<<<M60>>>" ++ check (runes_of_ascii "MetaData len{ }packet int
    {
repeat
    char[1 ] stringy,}// a // b
packet MetaDataX { zchar[
10]
leftPad
@calculatedFrom( ""// no comment"" )
, }
")).
Eval vm_compute in ("<<<M1893>>>" ++ check (runes_of_ascii "packet A
    {  match 
k  as n

    {[  ""a"", 22 ,
	""c c"" ,4

    , ""e""
	,

    66	, ""g"" , 
8 
,""i""
	,10]  : B

,  2
:C

    }  ,
	}")).
Eval vm_compute in ("<<<M1413>>>" ++ check (runes_of_ascii "

  options  {	}  options
{ MetaDataX =	char;	} 	 // c
  	MetaData
Pad
	{
	i8	metadata ,
string

stringy	, int8
    As `{ , }`,
	} ")).
Eval vm_compute in ("<<<M1733>>>" ++ check (runes_of_ascii "packet A {
    Inner {
        u8 x `a
        b`,
        Deep {
            u8 y `a
            b`,
        },
    },
}")).
Eval vm_compute in ("<<<M983>>>" ++ check (runes_of_ascii "packet A {
    match k as n {
        ""x\
y"" : B,
        [""x\
y"", 1] : C,
        [1,2,3,4,5,""x\
y""] : D,
    },
}")).
Eval vm_compute in ("<<<M1220>>>" ++ check (runes_of_ascii "options { } options { MetaDataX = char ;
// c
} MetaData Pad { i8 metadata , string stringy , int8 As `{ , }` , }")).
Eval vm_compute in ("<<<M455>>>" ++ check (runes_of_ascii "packet
    asx { @calculatedFrom(
""""  ) @tag( 255 )repeat
// packet A { u8 x, }
// trailing space 
int16 u8x
,")).
Eval vm_compute in ("<<<M1947>>>" ++ check (runes_of_ascii "
MetaData  calculatedFrom{ x

    float
    ,
    //x
    //	t
	T lengthOf	,	}
    root  packet Pad
{
}")).
Eval vm_compute in ("<<<M1328>>>" ++ check (runes_of_ascii "packet FooBar {
    u8 a,
}
packet foo_bar {
    u16 b,
}
root packet R {
    FooBar,
    foo_bar,
}
")).
Eval vm_compute in ("<<<M902>>>" ++ check (runes_of_ascii "packet A {
  match k as n {
    [1, 22, 007, 4, 5, 66, 7, 8, 9, 10, 11, 12] : B,
    2 : C
  },
}")).
Eval vm_compute in ("<<<M889>>>" ++ check (runes_of_ascii "packet A {
  match k as n {
    [1, 22, 007, 4, 5, 66, 7, 8, 9, 10, 11] : B,
    2 : C
  },
}")).
Eval vm_compute in ("<<<M341>>>" ++ check (runes_of_ascii "MetaData rootA {
uint8 msg_type ,zchar[
    //
    42 ]
    As, T int
    , } // a // b")).
Eval vm_compute in ("<<<M386>>>" ++ check (runes_of_ascii "root packet SimpleMessage {
	uint16 MsgType `" ++ [28040; 24687; 31867; 22411]%N ++ runes_of_ascii "`,
	string JsonBody `Json" ++ [23383; 31526; 20018; 28040; 24687; 20307]%N ++ runes_of_ascii "`,
}")).
Eval vm_compute in ("<<<M846>>>" ++ check (runes_of_ascii "packet A {
  match k as n {
    [1, 22, ""c c"", 4, 5, ""f"", 7] : B
    2 : C
  },
}")).
Eval vm_compute in ("<<<M1139>>>" ++ check (runes_of_ascii "// top
root
    // c0
packet
    // c1
a1
    // c2
{
    // c3
}
    // c4
")).
Eval vm_compute in ("<<<M803>>>" ++ check (runes_of_ascii "packet A {
  match k as n {
    [1, ""bb"", 007, ""d""] : B
    2 : C
  },
}")).
Eval vm_compute in ("<<<M1444>>>" ++ check (runes_of_ascii "root packet lengthOf {
    repeatCount {
        uint64 u8x,
    },
}")).
Eval vm_compute in ("<<<M836>>>" ++ check (runes_of_ascii "packet A { Inner { match k as n { [1,22,007,4,5,66] : B, }, }, }")).
Eval vm_compute in ("<<<M758>>>" ++ check (runes_of_ascii "`100% of %d` packet ] { match packet int32 repeat int16 = }")).
Eval vm_compute in ("<<<M280>>>" ++ check (runes_of_ascii "packet T{ zchar[  7
]  charz , } packet MetaDataX { }
")).
Eval vm_compute in ("<<<M1540>>>" ++ check (runes_of_ascii "options{

    A  =	// c
		""// no comment"" 
}
")).
Eval vm_compute in ("<<<M981>>>" ++ check (runes_of_ascii "options {
    a = ""x\
y"";
    b = ""x\
y""
}")).
Eval vm_compute in ("<<<M743>>>" ++ check ([65533; 65533]%N ++ runes_of_ascii "%" ++ [65533; 65533; 23]%N ++ runes_of_ascii "C" ++ [65533]%N ++ runes_of_ascii "c$/" ++ [65533; 18]%N ++ runes_of_ascii "o" ++ [65533; 65533]%N ++ runes_of_ascii "A" ++ [14; 65533]%N ++ runes_of_ascii "Z" ++ [65533; 25; 65533]%N ++ runes_of_ascii "x" ++ [65533]%N ++ runes_of_ascii "I?w" ++ [65533; 65533; 65533]%N ++ runes_of_ascii """&" ++ [924]%N ++ runes_of_ascii "R" ++ [65533; 20; 65533]%N)).
Eval vm_compute in ("<<<M1189>>>" ++ check (runes_of_ascii "options { A = // c
""// no comment"" }")).
Eval vm_compute in ("<<<M49>>>" ++ check (runes_of_ascii "root packet i8i8
{ } /// triple")).
Eval vm_compute in ("<<<M1037>>>" ++ check (runes_of_ascii "packet A {
 u8 x `d" ++ [8233]%N ++ runes_of_ascii "`, // c" ++ [8233]%N ++ runes_of_ascii "
}")).
Eval vm_compute in ("<<<M1445>>>" ++ check (runes_of_ascii "packet

    BodyLength {}")).
Eval vm_compute in ("<<<M1143>>>" ++ check (runes_of_ascii "root // c
packet a1 { }")).
Eval vm_compute in ("<<<M1479>>>" ++ check (runes_of_ascii "packet A {
    // a
}")).
Eval vm_compute in ("<<<M1035>>>" ++ check (runes_of_ascii "packet A {
}
// c" ++ [8233]%N)).
Eval vm_compute in ("<<<M1023>>>" ++ check (runes_of_ascii "packet A {
}// c" ++ [8202]%N)).
Eval vm_compute in ("<<<M1091>>>" ++ check (runes_of_ascii "

  packet A {}")).
Eval vm_compute in ("<<<M1009>>>" ++ check (runes_of_ascii "// c" ++ [133]%N)).
