From FP Require Import Lexer Parser ShowPT Digest Formatter.
From Coq Require Import String List NArith.
Import ListNotations.
Open Scope string_scope.
Set Printing Width 100000000.
Set Printing Depth 100000000.
Definition show_fres (r : fres) : string :=
  match r with
  | FOk s => "OK:" ++ sh_escaped s ""
  | FErr s => "ERR:" ++ sh_escaped s ""
  | FPanic p => "PANIC:" ++ p
  end.
Definition check (rs : list rune) : string := digest (show_fres (format_res rs)).
Definition full (rs : list rune) : string := show_fres (format_res rs).
Eval vm_compute in ("<<<M11>>>" ++ check (runes_of_ascii "root packet repeatCount
    {repeat tag As  , Logon @calculatedFrom(
""it's"" )
, @calculatedFrom( ""`tick`""
) string uint8x , repeat /// triple
Pad u8x `line1
line2`
,@leftPad( )char[
    007
    ] string_
    , @lengthOf(Packet ) repeat
    int8 Header `it's`,
    // `tick` ""quote"" 'q'
    } root packet pack{
    uint64  Packet @calculatedFrom(	""\n""
    )
, }
    options {	pack	=
    ""// no comment"" //x
;
body // " ++ [128512]%N ++ runes_of_ascii " emoji
= ""a	b""
;} // trailing space 
packet Logon// trailing space 
{ u8x{
    // 50% %s
    trueish
@lengthOf(tag) `two words` , match body
    // trailing space 
    as
int  {// trailing space 
0 :i8i8 } ,
    repeat uint8x o
, } //	t
,
@tag(65535)
int16 falsey, zchar[ 10] float `100% of %d`
    , repeat
    // packet A { u8 x, }
    calculatedFrom
`a\` , zchar[ 10]	crc
@lengthOf(
    repeatCount
)
`" ++ [28040; 24687; 31867; 22411]%N ++ runes_of_ascii "` , // `tick` ""quote"" 'q'
match
// trailing space 
// " ++ [128512]%N ++ runes_of_ascii " emoji
rootA as repeatCount  {
3: crc
""CRC32""
    : //x
x
    //x
    , 007
    :A 7: chars
    ,	[
    007 ]: x ,  [
    //x
    007// " ++ [27880; 37322]%N ++ runes_of_ascii "
, 255  ,""" ++ [28040; 24687]%N ++ runes_of_ascii """ , 42 ]: Z9_
    , } ,  @tag(
007//	t
)
repeat string len , int	, Foo  {
match
roots
as
    _x
    { ""// no comment"" : o, [ 4294967296, """ ++ [233]%N ++ runes_of_ascii "t" ++ [233]%N ++ runes_of_ascii """ , 4294967296 , 7  , ""packet""
,
    3
] : string_ ,""x y""// " ++ [27880; 37322]%N ++ runes_of_ascii "
:float [ ""a\""b"" //x
,
""1""
] // packet A { u8 x, }
: zchar  ,}
    , rootA { repeat metadata{ repeat
char[
    1 ] i64_
`100% of %d`, match matchKey as stringy{ [ ""`tick`"" ] :x ,
[
    3 , 65535 ,255 ,  ""a\\"",""a\\"" , ""x y"" //x
] : _x,} , }
, }	,
repeat char stringy ,
    A `crlf
line`
, //	t
}, @leftPad ( ) Header{	i32 asx @lengthOf(
    lengthOf
)
,
} , }
")).
Eval vm_compute in ("<<<M320>>>" ++ check (runes_of_ascii "// @lengthOf(
MetaData BodyLength{ u8x	u128 `a\` , }packet
    // c
    stringy  { } packet// " ++ [128512]%N ++ runes_of_ascii " emoji
a1
{i8 f32a
    `
`	,repeat  i64 len,@calculatedFrom( ""\" ++ [233]%N ++ runes_of_ascii """ ) string
    leftPad
`line1
line2` , match a1
as float { [ 007 , 3 ] : repeatCount, 3 /// triple
: MetaDataX ""CRC32""
    /// triple
    : u128
    // trailing space 
    , [ ""a\""b"" ,""// no comment""
]
:roots,""\" ++ [233]%N ++ runes_of_ascii """: // c
A}// packet A { u8 x, }
, zchar[ 42]Pad,/// triple
@calculatedFrom( """ ++ [233]%N ++ runes_of_ascii "t" ++ [233]%N ++ runes_of_ascii """) // `tick` ""quote"" 'q'
match
    chars	as// trailing space 
string_
{3 :
options1 , } , uint32
packetx
    `` ,
@tag(// 50% %s
42) @tag( 1 ) /// triple
@calculatedFrom( """ ++ [128512]%N ++ runes_of_ascii """ )
_x`// not a comment` ,}root packet repeatCount {
@leftPad (
) char[ 0] x_y_z@calculatedFrom(""1"" //x
),
@rightPad ( ) char[] int
, f64 // c
asx ,	repeat Pad
, match i64_
as
roots{
[ ""1""
    , ""packet""]
    /// triple
    :a1,""`tick`""  :
    // c
    trueish  , [3 ,	""\n"" // `tick` ""quote"" 'q'
, ""`tick`"", ""it's"" , 10 ,
""a\""b"" // a // b
, ""CRC32"" // a // b
]
    //	t
    : As, [ 10
,
10 ]: options1
, ""CRC32"": a1
,65535 :u
    , // c
} , @calculatedFrom( ""x y"" )
@tag(255
    )@tag( 1 )// c
zchar[1 ] crc // " ++ [27880; 37322]%N ++ runes_of_ascii "
`
` , repeat u16 tag `crlf
line` ,
@leftPad (' ') roots
@calculatedFrom(
    //	t
    """" )
    ,}

")).
Eval vm_compute in ("<<<M1714>>>" ++ check (runes_of_ascii "options {
    LittleEndian = true;
    StringPrefixLenType = u16;
    ArrayPrefixLenType = u8;
    FixedStringPadChar = ' ';
}

packet Ack {
    @leftPad(' ')
    char[5] lastPx,
    zchar[4] count,
    repeat InVenue30 {
        char[9] Side2,
        char[12] venue,
    },
}

packet Order {
    int16 Note,
    repeat InAcct28 {
        InSym3 {
            Ack,
            char[4] lastPx,
            char[1] venue,
            f32 Ref,
        },
        repeat InTag729 {
            char[3] Side2,
            uint64 Acct,
            char[] price,
            zchar[9] Note,
            zchar[9] venue,
        },
        char[] count,
        Ack,
        char[] Px,
    },
    u8 f1,
    Ack,
}

packet Fill {
    zchar[7] x,
    Order,
    @leftPad(' ')
    char[9] venue,
    string count,
    char[] Flags,
}

packet Logon {
}

packet Reject {
    Order,
    char[] sym,
}

root packet Quote {
    string price,
    i64 Flags,
    repeat Fill,
    zchar[9] x,
    f32 lastPx,
    repeat Ack,
}")).
Eval vm_compute in ("<<<M28>>>" ++ check (runes_of_ascii "options {
Foo =
true ; len = '\x00'
asx =
'0' ; asx = // packet A { u8 x, }
3 ;
// " ++ [128512]%N ++ runes_of_ascii " emoji
//
} //	t
packet	u128{
    uint8 crc `doc`,
    Z9_ ,repeat
i8 roots,	@lengthOf( crc) repeat As `two words` , zchar[	007 ]
    //x
    tag `// not a comment` ,} packet pack// c
{ string msg_type ,@calculatedFrom(	""""	)
    repeat string
tag`u8 x,`
    ,int16 leftPad ,
@tag(1
    // " ++ [27880; 37322]%N ++ runes_of_ascii "
    ) crc ,}
/// triple
// a // b
root packet packetx {
@rightPad
(	'0'	) float64 o
    // a // b
    `two words`
,
repeat //	t
string_
    crc , i64
    As`line1
line2` ,@lengthOf( rootA //
)
u32
Logon @lengthOf(a1
) , @calculatedFrom(""""
    ) @leftPad
//x
// @lengthOf(
(' '
) uint16 i8i8
@calculatedFrom( ""// no comment"") , repeat char[]a1
, u128 {
// packet A { u8 x, }
// trailing space 
falsey @lengthOf( pack ) , int16
packetx ,
i64_ @calculatedFrom(""\" ++ [233]%N ++ runes_of_ascii """
    ) `{ , }`
    // " ++ [27880; 37322]%N ++ runes_of_ascii "
    , int64 i8i8 `a\`,
    }
, }")).
Eval vm_compute in ("<<<M1380>>>" ++ check (runes_of_ascii "options {
    ArrayPrefixLenType = u32;
    FixedStringPadFromLeft = false;
    FixedStringPadChar = '0';
}
packet Trade {
    repeat InVenue78 {
        u16 tag7,
        repeat InLastpx9 {
            u8 pad0,
        },
        int64 Tail,
        repeat InQty37 {
            char[2] OrderId,
            zchar[6] lastPx,
            int64 Qty,
        },
        uint8 Side2,
    },
}
packet Logon {
    repeat string venue,
    @rightPad('\x00') char[3] sym,
    zchar[9] count,
    zchar[7] f1,
    Trade,
}
packet Logout {
}
root packet Reject {
    int32 sym,
    u8 Px,
    u32 Tail @lengthOf(Body),
    match Px as Body {
        184 : Trade,
        173 : Logon,
        12 : Logout,
    },
    u32 tag7 @calculatedFrom(""CRC32""),
}
")).
Eval vm_compute in ("<<<M165>>>" ++ check (runes_of_ascii "packet Pad { match
string_
as
// c
// `tick` ""quote"" 'q'
asx
{ 7 : len 3 : lengthOf
,[1
    ]:
charz
""{,}""
:
    string_
, ""\n"" :
tag	,}
    , @calculatedFrom( ""a	b"" )
// packet A { u8 x, }
// " ++ [128512]%N ++ runes_of_ascii " emoji
i16 calculatedFrom `it's` ,
@tag(10	) repeat
    // packet A { u8 x, }
    o {
    repeat
    char[] o  `say ""hi""` ,
int @calculatedFrom(	""a\\"" ) , Foo { repeat T {f32
    /// triple
    A @lengthOf( charz
) ,  Logon @lengthOf( // c
pack
)`a\` ,
    }
    , }	,
// " ++ [128512]%N ++ runes_of_ascii " emoji
//
}, } options
    { i64_=uint32 // trailing space 
;	falsey = ""a	b"" ; BodyLength
/// triple
// c
=
'0' ;
    lengthOf
    = """ ++ [28040; 24687]%N ++ runes_of_ascii """ ; repeatCount=
    // @lengthOf(
    u64}
")).
Eval vm_compute in ("<<<M25>>>" ++ check (runes_of_ascii "
packet float// @lengthOf(
{
}
root packet Foo
    { @calculatedFrom(
""\" ++ [233]%N ++ runes_of_ascii """ )char[ 7] u128
    ,
@calculatedFrom(	""1"") repeat
    char[3] u `100% of %d`,  u128
    // " ++ [27880; 37322]%N ++ runes_of_ascii "
    ,
@tag( 3 ) char[
3 ] rootA
`two words` //x
, @leftPad() metadata  @lengthOf( //x
leftPad) ,
string
    // 50% %s
    i8i8@calculatedFrom(""{,}""
)
,repeat int32 T , @calculatedFrom(
""abc""
    )@lengthOf( options1
)	@lengthOf(options1 ) match
    T// " ++ [27880; 37322]%N ++ runes_of_ascii "
as body// a // b
{
    ""{,}""
// `tick` ""quote"" 'q'
//	t
:
// packet A { u8 x, }
//
stringy
    , } ,@lengthOf( Packet ) leftPad
`tab	here`,  } 	 ")).
Eval vm_compute in ("<<<M1434>>>" ++ check (runes_of_ascii "packet metadata {
    Header u128,
}

packet zchar {
    /// triple
    @tag(4294967296)
    @lengthOf(a1)
    i8 _x `crlf
    line`,
    @lengthOf(_x)
    match x_y_z as Packet {
        0 : leftPad,
        65535 : tag,
        00 : leftPad,
        ""a\\"" : Packet,
        10 : o,
        [""CRC32""] : float,
    },
    match stringy as calculatedFrom {
        ""`tick`"" : rootA,
        ""`tick`"" : asx,
        3 : u128,
    },
    @lengthOf(msg_type)
    @tag(10)
    // 50% %s
    repeatCount @lengthOf(string_) `a\`,
}")).
Eval vm_compute in ("<<<M181>>>" ++ check (runes_of_ascii "  packet // c
_x{ calculatedFrom@lengthOf(
roots  ) `it's` ,
match
metadata
as BodyLength {	[
    10 , 10, ""a\""b""
    ,""""//	t
,
""\n""
,// @lengthOf(
""a\\"" ,	4294967296 ] : u,
    },
    repeat // trailing space 
i64_
    Packet// " ++ [128512]%N ++ runes_of_ascii " emoji
`{ , }` // " ++ [27880; 37322]%N ++ runes_of_ascii "
,// packet A { u8 x, }
@tag(
65535 )char[]
float
    `crlf
line`,char[ 7]
    /// triple
    x @calculatedFrom(
""{,}""
)
/// triple
// a // b
,
    @leftPad ( )
    u64 stringy
    // c
    @calculatedFrom( ""\" ++ [233]%N ++ runes_of_ascii """ ) , }packet A	{ }")).
Eval vm_compute in ("<<<M13>>>" ++ check (runes_of_ascii "MetaData u128 {} MetaData a1 {}// " ++ [128512]%N ++ runes_of_ascii " emoji
root packet o
{
char[ 10 ] stringy@lengthOf(
/// triple
// 50% %s
Z9_ //	t
) ,
    match x_y_z as	stringy { 3 : float ,	} , @leftPad	(
' ' )u128 {
    repeat i32
msg_type `it's` , x ,
repeat char[ //
65535 ] T
, match  A as i8i8 { """ ++ [128512]%N ++ runes_of_ascii """ : Logon , },} , }MetaData x_y_z { // @lengthOf(
options1 a1 , u8x  x_y_z
`tab	here` ,	char MetaDataX , // " ++ [27880; 37322]%N ++ runes_of_ascii "
zchar[ 65535
    ] chars
    , char[]
crc`doc`	, }")).
Eval vm_compute in ("<<<M1616>>>" ++ check (runes_of_ascii "root 	 // 50% %s
  packet
    u128
{ 
a1@calculatedFrom(""a\""b""
)
,
}root
packet

pack
	{ BodyLength
@calculatedFrom( ""{,}"" 
)`// not a comment` , //x
uint8x ,
	i64
    rootA 
,	@lengthOf( BodyLength
	)string

zchar 
, // " ++ [128512]%N ++ runes_of_ascii " emoji
  }packet

    _x {

    @tag(
    7
	) match	// @lengthOf(
	trueish

    as 
packetx 
{10: 
Header
    , 7
:

trueish
    ""a\""b"" : 
    // @lengthOf(

// " ++ [27880; 37322]%N ++ runes_of_ascii "
		pack	,} ,}")).
Eval vm_compute in ("<<<M0>>>" ++ check (runes_of_ascii "packet leftPad// 50% %s
{@tag(10 )@tag( 007) @lengthOf( a1 )repeat
metadata , }
    options
{ // " ++ [128512]%N ++ runes_of_ascii " emoji
lengthOf
    // @lengthOf(
    = """ ++ [128512]%N ++ runes_of_ascii """
; }	packet
T  {A
    // " ++ [27880; 37322]%N ++ runes_of_ascii "
    { tag
@calculatedFrom(
//
// `tick` ""quote"" 'q'
""abc""),}
, @lengthOf(
    matchKey ) string
    Header @lengthOf(	metadata ) ,
leftPad @calculatedFrom(""a\""b""
    // trailing space 
    )
`tab	here` ,}")).
Eval vm_compute in ("<<<M82>>>" ++ check (runes_of_ascii "packet stringy {  string
    lengthOf  @calculatedFrom(""" ++ [128512]%N ++ runes_of_ascii """)
, @lengthOf(MetaDataX) Logon
{ string
Pad`u8 x,` ,  } , // " ++ [128512]%N ++ runes_of_ascii " emoji
@tag( 00	)
@calculatedFrom(
    """ ++ [28040; 24687]%N ++ runes_of_ascii """ )
    repeat uint8 asx , @leftPad( '0'  ) @tag( 00 // c
)
    zchar[0 ]trueish `u8 x,` , Header @lengthOf(repeatCount )
    ,} packet
u128 {  } MetaData// trailing space 
charz
{ }")).
Eval vm_compute in ("<<<M21>>>" ++ check (runes_of_ascii "options {
// " ++ [27880; 37322]%N ++ runes_of_ascii "
// " ++ [128512]%N ++ runes_of_ascii " emoji
string_
    =
false ;	falsey
    = char[ 4294967296
// 50% %s
// `tick` ""quote"" 'q'
] ; }
    packet zchar	{
    match //	t
float as
    //x
    len {
    [ """ ++ [233]%N ++ runes_of_ascii "t" ++ [233]%N ++ runes_of_ascii """
] : matchKey ,	3 :
//	t
// 50% %s
u
[ 4294967296,
    ""1""
] :zchar, } ,} MetaData T // packet A { u8 x, }
{
} 	 ")).
Eval vm_compute in ("<<<M1808>>>" ++ check (runes_of_ascii "
// top
	options // c0
    {  // c1a
		// c1b
    LittleEndian= 	 // c3
		true

    ;
}// c6a
    // c6b
    root	// c7a
  	// c7b
	packet

    // c8
	P

    {  
  // c10
	repeat  char
    // c12

  cs , 
      // c14
u8
x // c16a
	  // c16b
      ,

    // c17
}
")).
Eval vm_compute in ("<<<M6>>>" ++ check (runes_of_ascii "packet
rootA
{ match	BodyLength as A
{ 42: leftPad ,	1: u8x, [ 10 ,
    //
    """ ++ [128512]%N ++ runes_of_ascii """ ] : // trailing space 
i8i8
    7// " ++ [128512]%N ++ runes_of_ascii " emoji
: u8x , 007: trueish,
    // c
    }, o uint8x , repeat
zchar[
7] //x
pack ,
string x_y_z@lengthOf(
charz	)
    `
` , } // c")).
Eval vm_compute in ("<<<M457>>>" ++ check (runes_of_ascii "packet
    asx { @calculatedFrom(
""""  ) @tag( 255 )repeat
// packet A { u8 x, }
// trailing space 
int16 u8x
,
@tag(
    //
    007 007 )
    @tag( 0
    /// triple
    ) @tag( 1) u
    @lengthOf( T ),
// `tick` ""quote"" 'q'
//x
} // " ++ [128512]%N ++ runes_of_ascii " emoji")).
Eval vm_compute in ("<<<M538>>>" ++ check (runes_of_ascii "packet
    asx { @calculatedFrom(
""""  ) @tag( 255 )repeat
// packet A { u8 x, }
// trailing space 
int16 ?u8x
,
@tag(
    //
    007 )
    @tag( 0
    /// triple
    ) @tag( 1) u
    @lengthOf( T ),
// `tick` ""quote"" 'q'
//x
} // " ++ [128512]%N ++ runes_of_ascii " emoji")).
Eval vm_compute in ("<<<M499>>>" ++ check (runes_of_ascii "packet
    asx { @calculatedFrom(
""""  ) @tag( 255 )repeat
// packet A { u8 x, }
// trailing space 
int16 u8x
,
@tag(
    //
    007 )
    @tag( 0
    /// triple
    ) @tag( 1) {
    @lengthOf( T ),
// `tick` ""quote"" 'q'
//x
} // " ++ [128512]%N ++ runes_of_ascii " emoji")).
Eval vm_compute in ("<<<M441>>>" ++ check (runes_of_ascii "packet
    asx { @calculatedFrom(
""""  ) @tag( 255 )repeat
// packet A { u8 x, }
// trailing space 
int16 
,
@tag(
    //
    007 )
    @tag( 0
    /// triple
    ) @tag( 1) u
    @lengthOf( T ),
// `tick` ""quote"" 'q'
//x
} // " ++ [128512]%N ++ runes_of_ascii " emoji")).
Eval vm_compute in ("<<<M15>>>" ++ check (runes_of_ascii "options{ x
    = ""x y"";}
options/// triple
{ i8i8
= 4294967296 crc =255
// " ++ [128512]%N ++ runes_of_ascii " emoji
// 50% %s
; string_=	char[
//x
// a // b
255]u
    =  '\x00';	BodyLength
    ='0' } packet u {float32 pack // `tick` ""quote"" 'q'
,
}
")).
Eval vm_compute in ("<<<M1769>>>" ++ check (runes_of_ascii "packet A {
    Inner {
        u8 x `a
                    b
                  c`,
        Deep {
            u8 y `a
                            b
                          c`,
        },
    },
}")).
Eval vm_compute in ("<<<M667>>>" ++ check (runes_of_ascii "MetaData u
    { } MetaData o
{ float uint8x
`100% of %d` ,repeatCount u8x, string_ leftPad
, i32
    Foo , int64 x `two words` , calculatedFrom calculatedFrom
stringy `a\` ,
}
")).
Eval vm_compute in ("<<<M1449>>>" ++ check (runes_of_ascii "packet A {
    match k as n {
        [
            ""a"", ""bb"", ""c c"", ""d"", ""e"",
            ""f"", ""g"", ""h"", ""i"", ""j"",
            ""k""
        ] : B,
        2 : C,
    },
}")).
Eval vm_compute in ("<<<M579>>>" ++ check (runes_of_ascii "MetaData u
    { } MetaData o
u32 float uint8x
`100% of %d` ,repeatCount u8x, string_ leftPad
, i32
    Foo , int64 x `two words` , calculatedFrom
stringy `a\` ,
}
")).
Eval vm_compute in ("<<<M553>>>" ++ check (runes_of_ascii "MetaData {
    u } MetaData o
{ float uint8x
`100% of %d` ,repeatCount u8x, string_ leftPad
, i32
    Foo , int64 x `two words` , calculatedFrom
stringy `a\` ,
}
")).
Eval vm_compute in ("<<<M1565>>>" ++ check (runes_of_ascii "packet A {
    Inner {
        match k as n {
            [
                1, 22, 007, 4, 5,
                66, 7, 8, 9, 10
            ] : B,
        },
    },
}")).
Eval vm_compute in ("<<<M676>>>" ++ check (runes_of_ascii "MetaData u
    { } MetaData o
{ float uint8x
`100% of %d` ,repeatCount u8x, string_ leftPad
, i32
    Foo , int64 x `two words` , calculatedFrom
stringy  ,
}
")).
Eval vm_compute in ("<<<M1846>>>" ++ check (runes_of_ascii "packet A {
    Inner {
        match k as n {
            [
                1, 22, 007, 4, 5,
                66, 7
            ] : B,
        },
    },
}")).
Eval vm_compute in ("<<<M1762>>>" ++ check (runes_of_ascii "
packet
A
{match k as

n  { [
	""a"" ,

    ""bb"" ,

    ""c c""
    , ""d""
    , 
""e"" ,
    ""f""

    , ""g""  ,	""h""
    ,""i""
] : B	,
	2  :
C } ,}")).
Eval vm_compute in ("<<<M153>>>" ++ check (runes_of_ascii "MetaData packetx { As packetx // @lengthOf(
`it's` ,
f64
Foo ,u8x i64_ , u32
    x `doc` // " ++ [27880; 37322]%N ++ runes_of_ascii "
, int32 metadata , string _x
    ,	}
")).
Eval vm_compute in ("<<<M1887>>>" ++ check (runes_of_ascii "packet A {
    match k as n {
        [
            ""a"", 22, ""c c"", 4, ""e"",
            66
        ] : B,
        2 : C,
    },
}")).
Eval vm_compute in ("<<<M986>>>" ++ check (runes_of_ascii "packet A {
    match k as n {
        ""x\
y"" : B,
        [""x\
y"", 1] : C,
        [1,2,3,4,5,""x\
y""] : D,
    },
}")).
Eval vm_compute in ("<<<M1211>>>" ++ check (runes_of_ascii "options { } options { // c
MetaDataX = char ; } MetaData Pad { i8 metadata , string stringy , int8 As `{ , }` , }")).
Eval vm_compute in ("<<<M1243>>>" ++ check (runes_of_ascii "options { } options { MetaDataX = char ; } MetaData Pad { i8 metadata , string stringy , int8 As // c
`{ , }` , }")).
Eval vm_compute in ("<<<M878>>>" ++ check (runes_of_ascii "packet A {
  match k as n {
    [""a"", ""bb"", ""c c"", ""d"", ""e"", ""f"", ""g"", ""h"", ""i"", ""j""] : B,
    2 : C
  },
}")).
Eval vm_compute in ("<<<M865>>>" ++ check (runes_of_ascii "packet A {
  match k as n {
    [""a"", ""bb"", ""c c"", ""d"", ""e"", ""f"", ""g"", ""h"", ""i""] : B,
    2 : C
  },
}")).
Eval vm_compute in ("<<<M1914>>>" ++ check (runes_of_ascii "

  packet

    A{
	Inner{

    u8 
x `x
`

    , Deep {
	u8
    y
    `x
`
	,
	}

,  }  , }")).
Eval vm_compute in ("<<<M356>>>" ++ check (runes_of_ascii "options{asx
    // " ++ [128512]%N ++ runes_of_ascii " emoji
    = char
}
options{  }
    packet BodyLength {
    a1 uint8x , }")).
Eval vm_compute in ("<<<M872>>>" ++ check (runes_of_ascii "packet A {
  match k as n {
    [1, 22, ""c c"", 4, 5, ""f"", 7, 8, ""i""] : B
    2 : C
  },
}")).
Eval vm_compute in ("<<<M219>>>" ++ check (runes_of_ascii "packet u {Foo @lengthOf(
    crc)`{ , }`
//	t
//x
, @tag( /// triple
007
    ) o
,
}")).
Eval vm_compute in ("<<<M828>>>" ++ check (runes_of_ascii "packet A {
  match k as n {
    [1, ""bb"", 007, ""d"", 5, ""f""] : B,
    2 : C
  },
}")).
Eval vm_compute in ("<<<M818>>>" ++ check (runes_of_ascii "packet A {
  match k as n {
    [""a"", 22, ""c c"", 4, ""e""] : B
    2 : C
  },
}")).
Eval vm_compute in ("<<<M1509>>>" ++ check (runes_of_ascii "
packet
A  {

    B
b`a
b`
,

B
`a
b`

,repeat	B  bs `a
b`

,

}
")).
Eval vm_compute in ("<<<M976>>>" ++ check (runes_of_ascii "packet A {
    B b `%%d%!`,
    B `%%d%!`,
    repeat B bs `%%d%!`,
}")).
Eval vm_compute in ("<<<M836>>>" ++ check (runes_of_ascii "packet A { Inner { match k as n { [1,22,007,4,5,66] : B, }, }, }")).
Eval vm_compute in ("<<<M758>>>" ++ check (runes_of_ascii "`100% of %d` packet ] { match packet int32 repeat int16 = }")).
Eval vm_compute in ("<<<M1916>>>" ++ check (runes_of_ascii "packet A {
}

packet B {
}

MetaData M {
}

options {
}")).
Eval vm_compute in ("<<<M91>>>" ++ check (runes_of_ascii "// c
MetaData leftPad { msg_type As
`{ , }`
,}
")).
Eval vm_compute in ("<<<M1892>>>" ++ check (runes_of_ascii "
root
packet
    A
	{ u8 x 
`a
b`  ,
}

")).
Eval vm_compute in ("<<<M1908>>>" ++ check (runes_of_ascii "

  // c" ++ [133]%N ++ runes_of_ascii "
      packet  A	{

    }

")).
Eval vm_compute in ("<<<M1452>>>" ++ check (runes_of_ascii "  // c
root

    packet
	a1

{ } ")).
Eval vm_compute in ("<<<M1513>>>" ++ check (runes_of_ascii "
packet
A
    {
u8

x  `%` , } ")).
Eval vm_compute in ("<<<M1007>>>" ++ check (runes_of_ascii "packet A {
 u8 x `d" ++ [160]%N ++ runes_of_ascii "`, // c" ++ [160]%N ++ runes_of_ascii "
}")).
Eval vm_compute in ("<<<M1881>>>" ++ check (runes_of_ascii "packet
	A{ u8
x
	`
x` , 
}

")).
Eval vm_compute in ("<<<M1815>>>" ++ check (runes_of_ascii "

  options//	t

	{ 
}
")).
Eval vm_compute in ("<<<M1127>>>" ++ check (runes_of_ascii "MetaData tag
// c
{ }")).
Eval vm_compute in ("<<<M1031>>>" ++ check (runes_of_ascii "// c" ++ [8232]%N ++ runes_of_ascii "
packet A {
}")).
Eval vm_compute in ("<<<M1013>>>" ++ check (runes_of_ascii "packet A {
}// c" ++ [5760]%N)).
Eval vm_compute in ("<<<M1091>>>" ++ check (runes_of_ascii "

  packet A {}")).
Eval vm_compute in ("<<<M754>>>" ++ check (runes_of_ascii "int64")).
Eval vm_compute in ("<<<M725>>>" ++ check (runes_of_ascii "")).
