From FP Require Import Lexer Parser ShowPT Digest Formatter.
From Coq Require Import String List NArith.
Import ListNotations.
Open Scope string_scope.
Set Printing Width 100000000.
Set Printing Depth 100000000.
Definition show_fres (r : fres) : string :=
  match r with
  | FOk s => "OK:" ++ sh_escaped s ""
  | FErr s => "ERR:" ++ sh_escaped s ""
  | FPanic p => "PANIC:" ++ p
  end.
Definition check (rs : list rune) : string := digest (show_fres (format_res rs)).
Definition full (rs : list rune) : string := show_fres (format_res rs).
Eval vm_compute in ("<<<M1582>>>" ++ check (runes_of_ascii "
// packet A { u8 x, }
  packet string_ { @tag(	4294967296 
) @calculatedFrom(

    """ ++ [128512]%N ++ runes_of_ascii """
)
	@calculatedFrom(
    ""1"" 
)leftPad

    @lengthOf(//	t
    int )
``
	    // `tick` ""quote"" 'q'
//
,
    repeat Packet
{zchar[
    0 
        // packet A { u8 x, }

  ]
options1  `line1
line2`, 
},	@calculatedFrom(
""""

    ) float32 u8x , float
    ,  i64_	{
    packetx	{i16 falsey 
,f32 repeatCount

`{ , }`  ,}  ,
repeat	char[0 ]
	i8i8 ,

string 
o

@lengthOf(
options1

),  }

    ,
i64_
	@calculatedFrom( ""a\""b"") 
    /// triple
    //x
    	`a\`
,
@rightPad

    (
) @lengthOf(packetx)match

matchKey 
as 
stringy
{
""a	b""  : body
	,

}, 
  // " ++ [27880; 37322]%N ++ runes_of_ascii "
@lengthOf(

u128) @calculatedFrom(

    ""`tick`"") 
@rightPad(
    )  // @lengthOf(
	repeat
falsey

    string_ 
`" ++ [28040; 24687; 31867; 22411]%N ++ runes_of_ascii "`
,
	string
    As`it's` , 
@calculatedFrom(

    """ ++ [28040; 24687]%N ++ runes_of_ascii """
    )
repeat
rootA
{float64 body  ,	}
, }
	options
	{  zchar
	= 
    // " ++ [128512]%N ++ runes_of_ascii " emoji
    	true

    ;
    i8i8 =
3
	;

}  packet
leftPad
	{

    @calculatedFrom(
	    // c
	""""
    ) //x
    @leftPad
( ' ' ) @calculatedFrom( ""abc""
)
repeat
MetaDataX { char[]	Pad	, body
@lengthOf(

    Foo) 
/// triple
		/// triple
		,

    uint64	i8i8 ,
char[
42 ]options1
@calculatedFrom(  ""x y""	)
	,
}
	,
}	packet stringy
/// triple
	{ @calculatedFrom( """ ++ [28040; 24687]%N ++ runes_of_ascii """)

BodyLength len	, @lengthOf(
	u
)i8i8	metadata , @calculatedFrom(""a\\""
) //x
	packetx,
f64 i8i8@lengthOf( 
Header )
, 
metadata 
`
`, @lengthOf( int

    ) repeat
falsey
,repeat
char[]
    trueish , }
")).
Eval vm_compute in ("<<<M282>>>" ++ check (runes_of_ascii "// a // b
packet stringy	{
string zchar ,
    repeat T
, match
u
as  charz {
007
    //x
    :
//	t
// @lengthOf(
float// trailing space 
,""\" ++ [233]%N ++ runes_of_ascii """ : Logon ""a	b"":
//	t
//	t
pack, } , match uint8x as
    // " ++ [27880; 37322]%N ++ runes_of_ascii "
    roots
{
1
    // `tick` ""quote"" 'q'
    : len
,	}
//x
// " ++ [27880; 37322]%N ++ runes_of_ascii "
, }packet zchar {	roots options1
    //x
    `// not a comment` , int64 As
,
    i16 float
    @lengthOf( falsey
    // " ++ [27880; 37322]%N ++ runes_of_ascii "
    ) `a\`
    , int64 msg_type `tab	here`
, @tag(0
    // `tick` ""quote"" 'q'
    ) repeat uint8x ,
    @lengthOf(x
    ) repeat metadata
    , zchar[ 0 ]	int , uint64
    zchar ,zchar[7 // " ++ [27880; 37322]%N ++ runes_of_ascii "
]
msg_type
,
@calculatedFrom(
/// triple
// " ++ [27880; 37322]%N ++ runes_of_ascii "
""" ++ [28040; 24687]%N ++ runes_of_ascii """ ) crc
, }
root packet zchar { repeat
leftPad,
} packet
A{
@lengthOf(
    string_ )	x@lengthOf( options1) `two words`,  string
len ,	}packet	falsey{ i64_ @calculatedFrom(	""{,}"" ) , repeat
string chars
, zchar[ 7]calculatedFrom
, Header
    { char u`two words`, repeat char[] // c
tag
    `say ""hi""`	, Z9_
    @lengthOf(
T ) `line1
line2` , } , msg_type @calculatedFrom( ""// no comment""
    ) , @rightPad (// packet A { u8 x, }
'\x00' )
@lengthOf( asx )
falsey
,
    } // packet A { u8 x, }")).
Eval vm_compute in ("<<<M1332>>>" ++ check (runes_of_ascii "options {
    FixedStringPadFromLeft = true;
    FixedStringPadChar = '0';
}
packet Leg {
    InPrice0 {
        repeat string clOrdID,
        int16 msgKind,
        zchar[5] Px,
    },
    i16 f1,
    repeat f64 Side2,
    string Acct,
}
packet Cancel {
    zchar[4] clOrdID,
    string seqNo,
    Leg,
    @leftPad('0') char[11] OrderId,
}
packet Quote {
    repeat char[4] sym,
    f64 OrderId,
    repeat Leg,
    repeat i64 f1,
    int16 Note,
    zchar[3] count,
}
root packet Ack {
    @leftPad(' ') char[10] sym,
    InPx60 {
        Cancel,
        repeat char[1] f1,
        string Tail,
        repeat InNote55 {
            int8 count,
            f64 f1,
            repeat Cancel,
        },
        char[] tag7,
        repeat string msgKind,
    },
    u8 lastPx,
    match lastPx as Body {
        152 : Quote,
        173 : Cancel,
        4 : Leg,
    },
    u16 Ref @calculatedFrom(""CR\
C32""),
}
")).
Eval vm_compute in ("<<<M237>>>" ++ check (runes_of_ascii "root
    packet
    asx { // `tick` ""quote"" 'q'
f32a	,
@calculatedFrom(
""abc"") zchar[ 65535 ]	metadata `
` , @calculatedFrom(// " ++ [128512]%N ++ runes_of_ascii " emoji
""CRC32"" // `tick` ""quote"" 'q'
) Header `doc`
    // @lengthOf(
    , match
f32a as
msg_type
// @lengthOf(
//x
{ [ ""\n"" ] /// triple
:
charz// @lengthOf(
0123456789 :
pack
    // `tick` ""quote"" 'q'
    ,//x
[ ""packet"" , """",
    // @lengthOf(
    ""`tick`"" ,
    ""CRC32"" , ""\n"" ,
// `tick` ""quote"" 'q'
// trailing space 
""it's""//	t
,
""it's"", //
4294967296 ]
:
charz
42
    : leftPad , [
255 ,	7 , ""packet"" , // trailing space 
""{,}""
    , ""\" ++ [233]%N ++ runes_of_ascii """ ,""1""
    ,	""1""  ] : msg_type
,
    [ """ ++ [128512]%N ++ runes_of_ascii """
    ]:  i64_ } ,  }packet body { } root packet i64_
    { uint16  Header @calculatedFrom(
""" ++ [233]%N ++ runes_of_ascii "t" ++ [233]%N ++ runes_of_ascii """ )
    ``
    ,float64 string_@calculatedFrom( // a // b
""`tick`"") , repeat zchar[ // @lengthOf(
1] packetx`it's` ,
} //	t")).
Eval vm_compute in ("<<<M1891>>>" ++ check (runes_of_ascii "  // top
  options

// c0

  {
    // c1
  zchar 
    // c2

  =

    // c3
	true
    // c4
  ;
    // c5
  	Pad

    // c6
	  =
// c7
  	char[ 

    // c8
    	00
	    // c9
]
	// c10
	a1 
// c11
    =
    // c12
	uint32 
    // c13
	  BodyLength
        // c14
      = 
    // c15
  	true
	// c16
; 
        // c17
} 
      // c18
	  root
    // c19
	packet  
      // c20
      T
// c21
	{ 
    // c22
	@lengthOf( 

    // c23
  repeatCount
    // c24
    )
// c25
    	@tag( 
// c26
	1 
      // c27
) 
// c28
@calculatedFrom( 
	    // c29
    ""a	b""
        // c30

  )
// c31
	string 
        // c32
  stringy
    // c33
	@calculatedFrom( 

// c34
	""\n""
    // c35
    ) 
    // c36
    	`u8 x,` 

    // c37
  ,  
      // c38
  	}

// c39
 
")).
Eval vm_compute in ("<<<M201>>>" ++ check (runes_of_ascii "packet charz
{ //	t
repeat i64_ ,trueish {
repeat _x
    ,	repeatCount, repeat u16
matchKey `
`
,
// " ++ [128512]%N ++ runes_of_ascii " emoji
// a // b
matchKey @calculatedFrom( ""a\""b"" )
`it's` ,}	,
@tag(
007 )@calculatedFrom(
    ""a\\"")	@tag(
    3 // @lengthOf(
)f32 f32a @lengthOf(asx ) `crlf
line` // packet A { u8 x, }
, repeat i8 string_
,
    @lengthOf(
    // @lengthOf(
    Logon  ) @lengthOf( x_y_z )
    @lengthOf(
zchar
    ) repeat char[ 65535	] Foo`" ++ [233]%N ++ runes_of_ascii "`,
@calculatedFrom(//
""abc""
) trueish @lengthOf( A )
// " ++ [27880; 37322]%N ++ runes_of_ascii "
// a // b
,char[ 0 ] float , Packet
    @calculatedFrom( ""a	b""
), } MetaData
    Pad { char[ 00 ] leftPad , u8 rootA `
`,
//
// " ++ [128512]%N ++ runes_of_ascii " emoji
int32
    a1	`say ""hi""`
    ,
Z9_ float , //x
i32 Pad ,
}")).
Eval vm_compute in ("<<<M247>>>" ++ check (runes_of_ascii "
options { leftPad // packet A { u8 x, }
= 0
;
    //
    Logon
    =
char // `tick` ""quote"" 'q'
i64_ = '\x00'
; }
options { crc =
i32	; matchKey =
255
    leftPad = ' ' ; metadata= 42// trailing space 
; packetx =10
    }
root packet//
A { @calculatedFrom( ""x y"" // c
)/// triple
zchar[ 00]
f32a, @tag(
255 )
    zchar[
0123456789 ]	a1
@lengthOf(As )`" ++ [28040; 24687; 31867; 22411]%N ++ runes_of_ascii "`
    /// triple
    , int16 body, // `tick` ""quote"" 'q'
uint64
x
@calculatedFrom(""1""
//	t
// " ++ [128512]%N ++ runes_of_ascii " emoji
) // packet A { u8 x, }
`line1
line2` ,@lengthOf( Logon )char[
    0// packet A { u8 x, }
]float@calculatedFrom(
""abc"" ) ,
} MetaData u128 { }
")).
Eval vm_compute in ("<<<M66>>>" ++ check (runes_of_ascii "packet	int {// @lengthOf(
repeat
string
    BodyLength
    `a\`
    , } packet repeatCount { @lengthOf( x_y_z ) crc ,
    match Packet as
Z9_{""// no comment"" :MetaDataX ,
//	t
// a // b
[  00, 7]: chars ,""CRC32""
    : zchar 42: stringy //	t
, [ ""a\""b"",""1""// a // b
] : u ,
},
@rightPad
( ' ' )
@lengthOf( i64_//x
)
    repeat
f64
x `two words`
    , @calculatedFrom(""`tick`""	) int64 falsey @lengthOf(//x
u128 ) , charz
    {
    //x
    char[]
    T
// c
// " ++ [27880; 37322]%N ++ runes_of_ascii "
`a\` ,
}
,@lengthOf(
    u8x)string_, repeat
// " ++ [128512]%N ++ runes_of_ascii " emoji
//	t
x
    , }
")).
Eval vm_compute in ("<<<M1716>>>" ++ check (runes_of_ascii "MetaData u128 {
    zchar[3] matchKey `crlf
    line`,
}

// packet A { u8 x, }
options {
}

root packet rootA {
    @calculatedFrom(""{,}"")
    repeat u16 len,
    repeat body,
    i8i8 @lengthOf(packetx),
    metadata int `line1
    line2`,
    uint8x `two words`,
    int16 x_y_z,
    repeatCount,
    Logon {
        repeat i8 Packet `line1
        line2`,
    },
}

options {
    // " ++ [128512]%N ++ runes_of_ascii " emoji
    lengthOf = ' ';
    i64_ = ""{,}"";
    msg_type = '0';
    u = i32;
    _x = ""abc"";
}")).
Eval vm_compute in ("<<<M1363>>>" ++ check (runes_of_ascii "options {
    LittleEndian = true;
    StringPrefixLenType = u64;
    ArrayPrefixLenType = u16;
    FixedStringPadFromLeft = false;
    FixedStringPadChar = ' ';
}
packet Logon {
    zchar[5] Side2,
}
root packet Logout {
    repeat i64 Tail,
    Logon,
    repeat i16 OrderId,
    char[] venue,
    uint64 x,
    repeat i16 count,
    u8 Flags,
    match Flags as Body {
        25 : Logon,
    },
    u16 Qty @calculatedFrom(""CRC32""),
}
")).
Eval vm_compute in ("<<<M1533>>>" ++ check (runes_of_ascii "  packet

    a1
    {
@leftPad	()

    float @lengthOf( uint8x )
, } packet Logon
{
char

Logon@calculatedFrom(
""a\\"" )
    , T

    stringy
    , 
	    //
	// c
  repeat uint8 stringy 
`two words`, } MetaData 
charz 
{u
	tag
	`
` ,
    a1 falsey , //x
  Z9_

    matchKey, f64

    lengthOf`a\`	// @lengthOf(
,	f32a roots 
``
    ,
    float64
x_y_z  // @lengthOf(
	  ,

} ")).
Eval vm_compute in ("<<<M106>>>" ++ check (runes_of_ascii "MetaData Pad
    {
    i16 repeatCount , // c
f32 pack `a\`,} packet//
f32a {@lengthOf( metadata // a // b
)match msg_type as matchKey
    {
00: rootA ,  }, @rightPad ( ) match repeatCount as len {
    [/// triple
""x y""
// c
//
,
10] : As , 42: i64_""" ++ [128512]%N ++ runes_of_ascii """	: BodyLength
, 7
: f32a  ,
    }
    ,	@lengthOf( BodyLength )	repeat Foo `line1
line2` , } // @lengthOf(")).
Eval vm_compute in ("<<<M1504>>>" ++ check (runes_of_ascii "options {
}

packet charz {
    @rightPad(' ')
    @calculatedFrom(""a\\"")
    repeat int crc `two words`,
    string stringy @calculatedFrom(""a	b"") `// not a comment`,//
    char i8i8,
}

MetaData crc {
    crc i64_ `{ , }`,
    i32 u128,
    BodyLength Header,
    char[0123456789] Packet `u8 x,`,
    uint8 repeatCount,
}")).
Eval vm_compute in ("<<<M321>>>" ++ check (runes_of_ascii "
options
{ a1 = '\x00'
As
= ""{,}"" u8x
=//x
""a	b""
    ; asx
    = u64;
o
// @lengthOf(
// c
=0123456789 } packet Header
{
    //
    @lengthOf(x // trailing space 
)
    // " ++ [27880; 37322]%N ++ runes_of_ascii "
    repeat
falsey { repeatCount
    trueish
`u8 x,` , } ,
// `tick` ""quote"" 'q'
// " ++ [128512]%N ++ runes_of_ascii " emoji
zchar[
65535 ] x
    ,
}")).
Eval vm_compute in ("<<<M1322>>>" ++ check (runes_of_ascii "packet

    P1
    { u8

    a 
,
} packet

P2  { 
P1
	,
    }  packet	P3 {	P2  ,

P1	,}
	packet  P4

{ 
repeat  P3
	,

P2,

}root

    packet
    P5 {
P4,

    P3

,

    P1 , u8	K
    ,match
    K as Body {
	4:P4 ,
3

: P3 ,
	2 : P2 , 1
: P1	,
}	,  }")).
Eval vm_compute in ("<<<M1306>>>" ++ check (runes_of_ascii "// top
packet // c0a
  // c0b
orderItem // c1a
  // c1b
{ u8 // c3
a // c4
, // c5a
  // c5b
}
    // c6
root packet // c8a
  // c8b
newOrder // c9a
  // c9b
{ orderItem // c11
, u8
    // c13
x // c14a
  // c14b
,
    // c15
} // c16
")).
Eval vm_compute in ("<<<M1935>>>" ++ check (runes_of_ascii "
packet
	    // `tick` ""quote"" 'q'
    _x {  //

  repeat 
zchar[ 
1 ]
    metadata	, @leftPad ( 
' ' )

    @lengthOf(
T 
)
@lengthOf(Z9_
	) char[]As  // @lengthOf(
  , string

    f32a, 
}

")).
Eval vm_compute in ("<<<M1597>>>" ++ check (runes_of_ascii "MetaData Z9_ {
    zchar[4294967296] leftPad `u8 x,`,
}

MetaData body {
    trueish len `// not a comment`,
}

root packet u8x {
    char[10] x @calculatedFrom(""\" ++ [233]%N ++ runes_of_ascii """),
}")).
Eval vm_compute in ("<<<M1392>>>" ++ check (runes_of_ascii "
packet A 
{Inner
    {

match k
	as
n
    {
	[  1 ,22	,

007
    ,
    4
	,
5
,
66 ,
    7  , 
8,
9
    , 10 
, 11 ,

    12  ]
: B ,

    }  , 
},}")).
Eval vm_compute in ("<<<M1402>>>" ++ check (runes_of_ascii "

  MetaData
    leftPad	{chars  MetaDataX
    , 
// c
      } 
packet repeatCount 
{
char[
255]uint8x
`" ++ [233]%N ++ runes_of_ascii "`,	}
MetaData	pack

    {

As
    Foo	, 
}
")).
Eval vm_compute in ("<<<M531>>>" ++ check (runes_of_ascii "packet uint8x
{ match pack
    as msg_type	{
    0123456789 :	float
}
,
} packet //	t
a1
    { } options {packetx
    = '\x00'	; u128= ""a	b""  ; } }
")).
Eval vm_compute in ("<<<M427>>>" ++ check (runes_of_ascii "packet uint8x
{ match pack
    as msg_type	0123456789
    { :	float
}
,
} packet //	t
a1
    { } options {packetx
    = '\x00'	; u128= ""a	b""  ; }
")).
Eval vm_compute in ("<<<M450>>>" ++ check (runes_of_ascii "packet uint8x
{ match pack
    as msg_type	{
    0123456789 :	float
}

} packet //	t
a1
    { } options {packetx
    = '\x00'	; u128= ""a	b""  ; }
")).
Eval vm_compute in ("<<<M1469>>>" ++ check (runes_of_ascii "

  // c
MetaData

    leftPad { chars
MetaDataX
, }packet
repeatCount
	{ char[ 255 ] 
uint8x

    `" ++ [233]%N ++ runes_of_ascii "` ,

    } MetaData pack	{

As Foo , }")).
Eval vm_compute in ("<<<M460>>>" ++ check (runes_of_ascii "packet uint8x
{ match pack
    as msg_type	{
    0123456789 :	float
}
,
}  //	t
a1
    { } options {packetx
    = '\x00'	; u128= ""a	b""  ; }
")).
Eval vm_compute in ("<<<M1931>>>" ++ check (runes_of_ascii "packet A {
    Inner {
        u8 x `a
        
        b`,
        Deep {
            u8 y `a
            
            b`,
        },
    },
}")).
Eval vm_compute in ("<<<M650>>>" ++ check (runes_of_ascii "// @lengthOf(
packet i8i8 { u128 o , }
options { MetaDataX = true;
    BodyLength =""packet"" x_y_z= 007
crc //x
=  ;
    msg_type =
i16 }")).
Eval vm_compute in ("<<<M1689>>>" ++ check (runes_of_ascii "packet A {
    match k as n {
        [
            1, 22, 007, 4, 5,
            66, 7, 8, 9
        ] : B,
        2 : C,
    },
}")).
Eval vm_compute in ("<<<M1264>>>" ++ check (runes_of_ascii "packet B {
    u8 a,
}
root packet P {
    u8 K,
    match K as Body {
        1 : B,
    },
    u16 L @lengthOf(Body),
}
")).
Eval vm_compute in ("<<<M1153>>>" ++ check (runes_of_ascii "MetaData leftPad { chars MetaDataX , // c
} packet repeatCount { char[ 255 ] uint8x `" ++ [233]%N ++ runes_of_ascii "` , } MetaData pack { As Foo , }")).
Eval vm_compute in ("<<<M1185>>>" ++ check (runes_of_ascii "MetaData leftPad { chars MetaDataX , } packet repeatCount { char[ 255 ] uint8x `" ++ [233]%N ++ runes_of_ascii "` , } MetaData pack { As Foo // c
, }")).
Eval vm_compute in ("<<<M1854>>>" ++ check (runes_of_ascii "packet A {
    B b `a
        b
      c`,
    B `a
        b
      c`,
    repeat B bs `a
        b
      c`,
}")).
Eval vm_compute in ("<<<M1850>>>" ++ check (runes_of_ascii "MetaData

charz  { As  u128
, Logon
options1`say ""hi""` ,zchar[ 0 
    // @lengthOf(

  //
]	Logon
,
}
")).
Eval vm_compute in ("<<<M884>>>" ++ check (runes_of_ascii "packet A {
  match k as n {
    [""a"", 22, ""c c"", 4, ""e"", 66, ""g"", 8, ""i"", 10] : B,
    2 : C
  },
}")).
Eval vm_compute in ("<<<M1>>>" ++ check (runes_of_ascii "MetaData  crc {  Pad T
, zchar[
    0123456789
    ] a1 ,int8 trueish// c
, } packet float{ }
")).
Eval vm_compute in ("<<<M869>>>" ++ check (runes_of_ascii "packet A {
  match k as n {
    [1, ""bb"", 007, ""d"", 5, ""f"", 7, ""h"", 9] : B,
    2 : C
  },
}")).
Eval vm_compute in ("<<<M640>>>" ++ check (runes_of_ascii "
packet
    asx {match u128 as lengthOf
{
//	t
// `tick` ""quote"" 'q'
$255 : x ,
    } ,	}")).
Eval vm_compute in ("<<<M612>>>" ++ check (runes_of_ascii "
packet
    asx {match u128 as lengthOf
{
//	t
// `tick` ""quote"" 'q'
255 : x ,
     ,	}")).
Eval vm_compute in ("<<<M860>>>" ++ check (runes_of_ascii "packet A {
  match k as n {
    [1, 22, ""c c"", 4, 5, ""f"", 7, 8] : B,
    2 : C
  },
}")).
Eval vm_compute in ("<<<M582>>>" ++ check (runes_of_ascii "
packet
    asx {match u128 as 
{
//	t
// `tick` ""quote"" 'q'
255 : x ,
    } ,	}")).
Eval vm_compute in ("<<<M1701>>>" ++ check (runes_of_ascii "packet A {
    B b `a
    b`,
    B `a
    b`,
    repeat B bs `a
    b`,
}")).
Eval vm_compute in ("<<<M811>>>" ++ check (runes_of_ascii "packet A {
  match k as n {
    [""a"", ""bb"", 007, ""d""] : B
    2 : C
  },
}")).
Eval vm_compute in ("<<<M1702>>>" ++ check (runes_of_ascii "packet A {
    match k as n {
        [1] : B,
        2 : C,
    },
}")).
Eval vm_compute in ("<<<M1704>>>" ++ check (runes_of_ascii "packet A {
    match k as n {
        1 : B,
        // d
    },
}")).
Eval vm_compute in ("<<<M88>>>" ++ check (runes_of_ascii "options// @lengthOf(
{a1 = 65535
// `tick` ""quote"" 'q'
// c
}")).
Eval vm_compute in ("<<<M1682>>>" ++ check (runes_of_ascii "options {
    a = ""x\
        y"";
    b = ""x\
        y""
}")).
Eval vm_compute in ("<<<M1596>>>" ++ check (runes_of_ascii "root packet x {
    roots @calculatedFrom(""a\""b""),
}")).
Eval vm_compute in ("<<<M375>>>" ++ check (runes_of_ascii "options {Foo = '0'	;	Pad = '0';	crc ='0' ; //	t
}")).
Eval vm_compute in ("<<<M968>>>" ++ check (runes_of_ascii "options {
    a = ""x\
y"";
    b = ""x\
y""
}")).
Eval vm_compute in ("<<<M1398>>>" ++ check (runes_of_ascii "  packet	A
	{ u8

x  `d `, 	 // c 
}
")).
Eval vm_compute in ("<<<M922>>>" ++ check (runes_of_ascii "root packet A {
    u8 x `a
b`,
}")).
Eval vm_compute in ("<<<M983>>>" ++ check (runes_of_ascii "packet A {
 u8 x `d" ++ [12288]%N ++ runes_of_ascii "`, // c" ++ [12288]%N ++ runes_of_ascii "
}")).
Eval vm_compute in ("<<<M917>>>" ++ check (runes_of_ascii "packet A {
    u8 x `a
b`,
}")).
Eval vm_compute in ("<<<M380>>>" ++ check (runes_of_ascii "root packet	Packet { }
")).
Eval vm_compute in ("<<<M1381>>>" ++ check (runes_of_ascii "// top
MetaData u {
}")).
Eval vm_compute in ("<<<M744>>>" ++ check (runes_of_ascii "`" ++ [28040; 24687; 31867; 22411]%N ++ runes_of_ascii "` '0' options")).
Eval vm_compute in ("<<<M1056>>>" ++ check (runes_of_ascii "packet A {
}
// c" ++ [6158]%N)).
Eval vm_compute in ("<<<M1224>>>" ++ check (runes_of_ascii "// c
packet x { }")).
Eval vm_compute in ("<<<M742>>>" ++ check (runes_of_ascii "'j=KG=k_)FDOq")).
Eval vm_compute in ("<<<M1035>>>" ++ check (runes_of_ascii "// c" ++ [12]%N)).
