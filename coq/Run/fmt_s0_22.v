From FP Require Import Lexer Parser ShowPT Digest Formatter.
From Coq Require Import String List NArith.
Import ListNotations.
Open Scope string_scope.
Set Printing Width 100000000.
Set Printing Depth 100000000.
Definition show_fres (r : fres) : string :=
  match r with
  | FOk s => "OK:" ++ sh_escaped s ""
  | FErr s => "ERR:" ++ sh_escaped s ""
  | FPanic p => "PANIC:" ++ p
  end.
Definition check (rs : list rune) : string := digest (show_fres (format_res rs)).
Definition full (rs : list rune) : string := show_fres (format_res rs).
Eval vm_compute in ("<<<M1346>>>" ++ check (runes_of_ascii "// top
options // c0
{ // c1
LittleEndian // c2
= false
    // c4
; // c5
ArrayPrefixLenType // c6
=
    // c7
u8
    // c8
; // c9
FixedStringPadFromLeft // c10
= // c11
true // c12a
  // c12b
; FixedStringPadChar // c14a
  // c14b
=
    // c15
'0'
    // c16
; // c17a
  // c17b
} // c18
packet Heartbeat // c20
{
    // c21
string lastPx , // c24
uint8 // c25a
  // c25b
Qty // c26
, // c27
i64 Acct // c29
,
    // c30
char[ // c31
4
    // c32
]
    // c33
Ref , } // c36
packet // c37a
  // c37b
Fill // c38a
  // c38b
{ // c39a
  // c39b
uint8
    // c40
Ref
    // c41
, // c42a
  // c42b
Heartbeat // c43
,
    // c44
f32 // c45
OrderId , // c47
repeat // c48a
  // c48b
f32 // c49
x // c50a
  // c50b
, } // c52
root // c53
packet // c54a
  // c54b
Order
    // c55
{ // c56a
  // c56b
zchar[ // c57a
  // c57b
2
    // c58
]
    // c59
OrderId // c60a
  // c60b
,
    // c61
zchar[ // c62
2 // c63
] // c64
Acct
    // c65
,
    // c66
zchar[ // c67
1
    // c68
]
    // c69
Note // c70a
  // c70b
, // c71a
  // c71b
zchar[
    // c72
9 ] Qty // c75a
  // c75b
,
    // c76
string // c77a
  // c77b
price // c78a
  // c78b
,
    // c79
string
    // c80
tag7 , u32
    // c83
x
    // c84
,
    // c85
match // c86
x // c87a
  // c87b
as Body // c89a
  // c89b
{ // c90
123 // c91
:
    // c92
Fill , // c94
112 // c95
:
    // c96
Heartbeat // c97a
  // c97b
, // c98a
  // c98b
} // c99
, // c100a
  // c100b
u32
    // c101
seqNo // c102
@calculatedFrom( // c103
""CRC32"" // c104
)
    // c105
,
    // c106
}
    // c107
")).
Eval vm_compute in ("<<<M282>>>" ++ check (runes_of_ascii "// a // b
packet stringy	{
string zchar ,
    repeat T
, match
u
as  charz {
007
    //x
    :
//	t
// @lengthOf(
float// trailing space 
,""\" ++ [233]%N ++ runes_of_ascii """ : Logon ""a	b"":
//	t
//	t
pack, } , match uint8x as
    // " ++ [27880; 37322]%N ++ runes_of_ascii "
    roots
{
1
    // `tick` ""quote"" 'q'
    : len
,	}
//x
// " ++ [27880; 37322]%N ++ runes_of_ascii "
, }packet zchar {	roots options1
    //x
    `// not a comment` , int64 As
,
    i16 float
    @lengthOf( falsey
    // " ++ [27880; 37322]%N ++ runes_of_ascii "
    ) `a\`
    , int64 msg_type `tab	here`
, @tag(0
    // `tick` ""quote"" 'q'
    ) repeat uint8x ,
    @lengthOf(x
    ) repeat metadata
    , zchar[ 0 ]	int , uint64
    zchar ,zchar[7 // " ++ [27880; 37322]%N ++ runes_of_ascii "
]
msg_type
,
@calculatedFrom(
/// triple
// " ++ [27880; 37322]%N ++ runes_of_ascii "
""" ++ [28040; 24687]%N ++ runes_of_ascii """ ) crc
, }
root packet zchar { repeat
leftPad,
} packet
A{
@lengthOf(
    string_ )	x@lengthOf( options1) `two words`,  string
len ,	}packet	falsey{ i64_ @calculatedFrom(	""{,}"" ) , repeat
string chars
, zchar[ 7]calculatedFrom
, Header
    { char u`two words`, repeat char[] // c
tag
    `say ""hi""`	, Z9_
    @lengthOf(
T ) `line1
line2` , } , msg_type @calculatedFrom( ""// no comment""
    ) , @rightPad (// packet A { u8 x, }
'\x00' )
@lengthOf( asx )
falsey
,
    } // packet A { u8 x, }")).
Eval vm_compute in ("<<<M1341>>>" ++ check (runes_of_ascii "options {
    FixedStringPadFromLeft = true;
    FixedStringPadChar = '0';
}
packet Leg {
    InPrice0 {
        repeat string clOrdID,
        int16 msgKind,
        zchar[5] Px,
    },
    i16 f1,
    repeat f64 Side2,
    string Acct,
}
packet Cancel {
    zchar[4] clOrdID,
    string seqNo,
    Leg,
    @leftPad('0') char[11] OrderId,
}
packet Quote {
    repeat char[4] sym,
    f64 OrderId,
    repeat Leg,
    repeat i64 f1,
    int16 Note,
    zchar[3] count,
}
root packet Ack {
    @leftPad(' ') char[10] sym,
    InPx60 {
        Cancel,
        repeat char[1] f1,
        string Tail,
        repeat InNote55 {
            int8 count,
            f64 f1,
            repeat Cancel,
        },
        char[] tag7,
        repeat string msgKind,
    },
    u8 lastPx,
    match lastPx as Body {
        152 : Quote,
        173 : Cancel,
        4 : Leg,
    },
    u16 Ref @calculatedFrom(""CRC32""),
}
")).
Eval vm_compute in ("<<<M1371>>>" ++ check (runes_of_ascii "options {
    FixedStringPadFromLeft = true;
    FixedStringPadChar = '0';
}
packet Leg {
    repeat InSym93 {
        zchar[3] Acct,
        string Side2,
        i32 Flags,
        f32 Note,
        i32 msgKind,
    },
    f64 Note,
    uint16 Px,
}
packet Quote {
    zchar[2] OrderId,
}
packet Ack {
    repeat string lastPx,
    zchar[4] price,
    uint32 OrderId,
    Quote,
    int8 Acct,
}
packet Fill {
    repeat Leg,
    @rightPad('0') char[11] Note,
    f64 Px,
    @rightPad('\x00') char[5] Flags,
    zchar[9] x,
    string msgKind,
}
root packet Order {
    Leg,
    repeat Ack,
    @rightPad('\x00') char[3] Side2,
    repeat char[1] seqNo,
    u16 clOrdID,
    match clOrdID as Body {
        198 : Leg,
        23 : Quote,
        13 : Ack,
        159 : Fill,
    },
    u32 venue @calculatedFrom(""CRC32""),
}
")).
Eval vm_compute in ("<<<M1365>>>" ++ check (runes_of_ascii "
options{	StringPrefixLenType=

u8 
;
ArrayPrefixLenType=

u32

    ;  FixedStringPadFromLeft
=
true ;
	FixedStringPadChar =

    ' '
; 
}packet 
Leg	{  }
packet Heartbeat	{ 
zchar[6
    ]	msgKind
    ,
    @rightPad ( '0' )
char[3
]
Qty , zchar[ 9]Side2

,i8 Acct ,
	}

packet
Logout
{
	int8

x
,
} packet Order {
    char[]Acct
	, zchar[8 ] count

    ,	u32 OrderId
,	uint8 lastPx	,

    u16 clOrdID
,
	zchar[ 7]Note, 
}	root 
packet
	Reject {@leftPad (	' '
) 
char[ 
8] 
Side2, i8 clOrdID ,
	repeat	f32
x

    ,

    u32

    lastPx

, match	lastPx

    as

Body
    {
    [

    30

    ,
	147 
]	:

Heartbeat ,	134 : 
Leg  , 183

:  Logout	,

    40	:  Order
, } 
, 
u16
Ref@calculatedFrom(
""CRC32""

    ), 
}
")).
Eval vm_compute in ("<<<M1658>>>" ++ check (runes_of_ascii "options {
}

packet i8i8 {
    @tag(3)
    x @calculatedFrom(""it's""),
    @lengthOf(f32a)
    match rootA as uint8x {
        0 : string_,
        42 : Packet,
    },
    @leftPad('\x00')
    i64_ packetx `u8 x,`,
    @calculatedFrom(""x y"")
    matchKey {
        len,
    },
    @lengthOf(matchKey)
    @calculatedFrom(""abc"")
    @lengthOf(x_y_z)
    /// triple
    repeat metadata `line1
    line2`,
    lengthOf repeatCount,/// triple
    int32 roots @calculatedFrom(""`tick`"") `" ++ [233]%N ++ runes_of_ascii "`,
    zchar[1] Packet @calculatedFrom(""// no comment""),
}

packet options1 {
    @lengthOf(uint8x)
    A @calculatedFrom(""it's"") `doc`,
}

root packet crc {
    char[65535] chars,
}")).
Eval vm_compute in ("<<<M366>>>" ++ check (runes_of_ascii "packet
// @lengthOf(
//	t
f32a { char[] Header`" ++ [233]%N ++ runes_of_ascii "` ,  @tag( 00
) zchar[ 255  ] int
    , @lengthOf(	trueish)
x @calculatedFrom( """ ++ [128512]%N ++ runes_of_ascii """
    )`say ""hi""` , @leftPad
    (	'\x00'
) @lengthOf( //	t
u128 )//	t
repeat BodyLength ,
falsey @lengthOf( uint8x ), //
@lengthOf( rootA) repeat uint8 T  `a\` , repeat  string
lengthOf
`it's` , @leftPad(
    '\x00' )
zchar[ 42
// packet A { u8 x, }
// a // b
] u`say ""hi""` ,// a // b
repeat packetx
// a // b
// packet A { u8 x, }
{
Pad  f32a
,// trailing space 
i8i8 msg_type `say ""hi""` , i64_ repeatCount , char[]chars , } ,}MetaData _x
{  x matchKey `" ++ [28040; 24687; 31867; 22411]%N ++ runes_of_ascii "`, }")).
Eval vm_compute in ("<<<M1427>>>" ++ check (runes_of_ascii "

  options
	{StringPrefixLenType	= u8

; ArrayPrefixLenType 
=

u8
	; FixedStringPadFromLeft  =  false	;
FixedStringPadChar = ' ';

    }  packet
Ack

{ char[]

    tag7	,

    }packet Reject

{
	InSym61

{
	repeat  Ack

    ,zchar[
    4 ]
	f1, } ,}
packet Logout	{ char[ 4	]
    clOrdID

,} root  packet	Cancel	{
@leftPad
( ' '
) 
char[ 
10
    ] price  ,
	u8
x ,
    u32
    venue @lengthOf(	Body ), match 
x as	Body
{[ 92 ,
	175
	]:
Logout

,26
:	Reject,

    144
:Ack

    , 
}  ,u16

count	@calculatedFrom( ""CRC32""
	)	,
} ")).
Eval vm_compute in ("<<<M1885>>>" ++ check (runes_of_ascii "
MetaData BodyLength{zchar[	65535
	]	As
	`crlf
line`,	u16 charz

    ,body

len , zchar	msg_type ,
	uint64	metadata,

} root 
packet	//
      matchKey

{ 
repeat
i8i8 `{ , }`

, } MetaData

a1
{	i8i8

    Pad 
`it's` 
, 
  // trailing space 

// `tick` ""quote"" 'q'
	int64
	    // " ++ [128512]%N ++ runes_of_ascii " emoji
  roots
`doc`  ,Foo

    BodyLength`u8 x,`
	,
}
    packet _x{lengthOf

{
pack `" ++ [28040; 24687; 31867; 22411]%N ++ runes_of_ascii "`	,
    string_	// @lengthOf(

  ,

repeat  //

rootA len

, 
zchar[
    1 ]
u8x
    ,	}, }

")).
Eval vm_compute in ("<<<M1641>>>" ++ check (runes_of_ascii "packet metadata {
    @rightPad()
    zchar[0123456789] i64_ @calculatedFrom(""\n""),
    @leftPad(' ')
    zchar[255] MetaDataX `{ , }`,
    @rightPad(' ')
    @calculatedFrom(""abc"")
    // " ++ [128512]%N ++ runes_of_ascii " emoji
    @lengthOf(matchKey)
    repeat char[42] packetx `" ++ [233]%N ++ runes_of_ascii "`,
    trueish @calculatedFrom(""packet"") `a\`,
    matchKey int `" ++ [28040; 24687; 31867; 22411]%N ++ runes_of_ascii "`,
    @tag(0)
    len {
        char[65535] Header,
    },
    @lengthOf(f32a)
    zchar[10] trueish `crlf
    line`,
}")).
Eval vm_compute in ("<<<M1675>>>" ++ check (runes_of_ascii "
packet
	a1
{	char[]

charz
    @calculatedFrom( 
	//x

	""" ++ [28040; 24687]%N ++ runes_of_ascii """)	, uint8x `crlf
line` 
,

    uint64 
T `line1
line2`
, @leftPad(
'0' ) 
	// a // b
		/// triple
    	@calculatedFrom(""abc"" )
@tag(3 ) match

    int// a // b
    	as len {  0 :chars
	,	[ 10

    ,
	""a\\""  ,
1  , 0  ,
10
,

0]
: 
body ,

    007 
: 
    // a // b
		rootA  // a // b
  , }
    ,falsey options1 ,} ")).
Eval vm_compute in ("<<<M1545>>>" ++ check (runes_of_ascii "// top
root packet _x {
    // c3
    match Foo as Z9_ {
        // c8
        ""a	b"" : Pad,
        // c12
    },// c14
    repeat x `line1
    line2`,// c18
    @rightPad(' ')
    // c22
    @calculatedFrom(""a\\"")
    // c25
    metadata MetaDataX,// c28
    @tag(0)
    // c31
    Logon int ``,// c35
}// c36

options {
    // c38
    T = '\x00'// c41
}// c42")).
Eval vm_compute in ("<<<M285>>>" ++ check (runes_of_ascii "packet zchar { @calculatedFrom(
    ""packet"" )
    @lengthOf( body ) @lengthOf(A )
    repeat /// triple
u128
    { f32a
chars `` , repeat x_y_z `tab	here`	, // c
} , // " ++ [27880; 37322]%N ++ runes_of_ascii "
repeat
Logon {// " ++ [27880; 37322]%N ++ runes_of_ascii "
u@calculatedFrom( // `tick` ""quote"" 'q'
""// no comment"") //
`two words` , char
    u8x , uint32  uint8x  , } , int8
    asx ``,}
")).
Eval vm_compute in ("<<<M1542>>>" ++ check (runes_of_ascii "
// top
packet // c0
  	Inner // c1
	{ 	 // c2
	  u8// c3a
    // c3b
	a	// c4

, 
    // c5

	} 	 // c6
  root // c7
packet// c8a
// c8b
    	P  // c9

{  // c10a
  // c10b
	repeat // c11a

	// c11b
Inner  items // c13
    , // c14
    	u8 

    // c15

x ,	// c17a

  // c17b
    } // c18
")).
Eval vm_compute in ("<<<M1322>>>" ++ check (runes_of_ascii "packet

    P1
    { u8

    a 
,
} packet

P2  { 
P1
	,
    }  packet	P3 {	P2  ,

P1	,}
	packet  P4

{ 
repeat  P3
	,

P2,

}root

    packet
    P5 {
P4,

    P3

,

    P1 , u8	K
    ,match
    K as Body {
	4:P4 ,
3

: P3 ,
	2 : P2 , 1
: P1	,
}	,  }")).
Eval vm_compute in ("<<<M1385>>>" ++ check (runes_of_ascii "packet Sub {
    u8 a,
    @calculatedFrom(""CRC16"") i32 SubSum,
}
root packet Frame {
    u16 MsgType,
    u16 BodyLen @lengthOf(Body),
    Sub Body,
    string note,
    @calculatedFrom(""CRC16"") i32 Checksum,
    u8 tail,
}
")).
Eval vm_compute in ("<<<M1927>>>" ++ check (runes_of_ascii "// top
MetaData uint8x {
    // c2
    char[] f32a `// not a comment`,// c6
    float32 roots,// c9
    char[7] u8x,// c14
    zchar[10] f32a,// c19
    u64 pack,// c22
    u16 pack,// c25
}// c26")).
Eval vm_compute in ("<<<M309>>>" ++ check (runes_of_ascii "packet
    // `tick` ""quote"" 'q'
    _x {//
repeat zchar[ 1 ] metadata
    ,@leftPad
    ( ' ' ) @lengthOf( T )@lengthOf(
Z9_ )
    char[] As// @lengthOf(
,string f32a  , }
")).
Eval vm_compute in ("<<<M145>>>" ++ check (runes_of_ascii "MetaData //x
Packet
/// triple
// " ++ [27880; 37322]%N ++ runes_of_ascii "
{	u
/// triple
// c
lengthOf `say ""hi""`
    , } MetaData metadata {
    crc chars `crlf
line` , asx f32a /// triple
,
}

")).
Eval vm_compute in ("<<<M1664>>>" ++ check (runes_of_ascii "packet
A
{ 
match
k
as
n 
{ [
1 ,""bb""  , 007  , 
""d""
    , 5 
, ""f""

    ,

    7

, ""h""
	, 9 ,""j""

    ,
    11  , 
""l"" 
]	:
B,
    2:
C } ,

} ")).
Eval vm_compute in ("<<<M526>>>" ++ check (runes_of_ascii "packet uint8x
{ match pack
    as msg_type	{
    0123456789 :	float
}
,
} packet //	t
a1
    { } options {packetx
    = '\x00'	; u128= ""a	b""  ; ; }
")).
Eval vm_compute in ("<<<M428>>>" ++ check (runes_of_ascii "packet uint8x
{ match pack
    as msg_type	}
    0123456789 :	float
}
,
} packet //	t
a1
    { } options {packetx
    = '\x00'	; u128= ""a	b""  ; }
")).
Eval vm_compute in ("<<<M468>>>" ++ check (runes_of_ascii "packet uint8x
{ match pack
    as msg_type	{
    0123456789 :	float
}
,
} packet //	t
,
    { } options {packetx
    = '\x00'	; u128= ""a	b""  ; }
")).
Eval vm_compute in ("<<<M410>>>" ++ check (runes_of_ascii "packet uint8x
{ match 
    as msg_type	{
    0123456789 :	float
}
,
} packet //	t
a1
    { } options {packetx
    = '\x00'	; u128= ""a	b""  ; }
")).
Eval vm_compute in ("<<<M677>>>" ++ check (runes_of_ascii "// @lengthOf(
packet i8i8 { u128 o , }
options { MetaDataX = true;
    BodyLength =""packet"" x_y_z 007 =
crc //x
= ""abc"" ;
    msg_type =
i16 }")).
Eval vm_compute in ("<<<M699>>>" ++ check (runes_of_ascii "// @lengthOf(
packet i8i8 { a" ++ [769]%N ++ runes_of_ascii "b o , }
options { MetaDataX = true;
    BodyLength =""packet"" x_y_z= 007
crc //x
= ""abc"" ;
    msg_type =
i16 }")).
Eval vm_compute in ("<<<M716>>>" ++ check (runes_of_ascii "// @lengthOf(
packet i8i8 { u128 o , }
 { MetaDataX = true;
    BodyLength =""packet"" x_y_z= 007
crc //x
= ""abc"" ;
    msg_type =
i16 }")).
Eval vm_compute in ("<<<M1776>>>" ++ check (runes_of_ascii "root packet u8x {
}

options {
    o = zchar[1]
    Packet = u32;
    uint8x = ""a\\"";
    /// triple
    u8x = 0;
    crc = ""\n"";
}")).
Eval vm_compute in ("<<<M1547>>>" ++ check (runes_of_ascii "MetaData leftPad {
    chars MetaDataX,
}

packet repeatCount {
    char[255] uint8x `" ++ [233]%N ++ runes_of_ascii "`,
}

MetaData pack {
    As Foo,
}")).
Eval vm_compute in ("<<<M1152>>>" ++ check (runes_of_ascii "MetaData leftPad { chars MetaDataX
// c
, } packet repeatCount { char[ 255 ] uint8x `" ++ [233]%N ++ runes_of_ascii "` , } MetaData pack { As Foo , }")).
Eval vm_compute in ("<<<M1184>>>" ++ check (runes_of_ascii "MetaData leftPad { chars MetaDataX , } packet repeatCount { char[ 255 ] uint8x `" ++ [233]%N ++ runes_of_ascii "` , } MetaData pack { As
// c
Foo , }")).
Eval vm_compute in ("<<<M914>>>" ++ check (runes_of_ascii "packet A {
  match k as n {
    [""a"", ""bb"", 007, ""d"", ""e"", 66, ""g"", ""h"", 9, ""j"", ""k"", 12] : B,
    2 : C
  },
}")).
Eval vm_compute in ("<<<M142>>>" ++ check (runes_of_ascii "packet
len
    // " ++ [128512]%N ++ runes_of_ascii " emoji
    { int64 a1	@lengthOf(x_y_z )	, }
// c
// trailing space 
packet x_y_z { }

")).
Eval vm_compute in ("<<<M1716>>>" ++ check (runes_of_ascii "options {
    _x = ""`tick`"";
    matchKey = ""it's"";
    options1 = u16;
    stringy = true
    // c
}")).
Eval vm_compute in ("<<<M855>>>" ++ check (runes_of_ascii "packet A {
  match k as n {
    [""a"", ""bb"", ""c c"", ""d"", ""e"", ""f"", ""g"", ""h""] : B
    2 : C
  },
}")).
Eval vm_compute in ("<<<M1527>>>" ++ check (runes_of_ascii "packet A {
    match k as n {
        [""a"", ""bb"", 007, ""d"", ""e""] : B,
        2 : C,
    },
}")).
Eval vm_compute in ("<<<M1493>>>" ++ check (runes_of_ascii "packet A
    { 
Inner { 
u8  x `a
    b
  c`,  Deep

{ u8  y 
`a
    b
  c` , 
}  ,

}

, }")).
Eval vm_compute in ("<<<M849>>>" ++ check (runes_of_ascii "packet A {
  match k as n {
    [""a"", ""bb"", 007, ""d"", ""e"", 66, ""g""] : B,
    2 : C
  },
}")).
Eval vm_compute in ("<<<M1465>>>" ++ check (runes_of_ascii "packet A {
    match k as n {
        [1, 22, ""c c"", 4, 5] : B,
        2 : C,
    },
}")).
Eval vm_compute in ("<<<M647>>>" ++ check (runes_of_ascii "// @lengthOf(
packet i8i8 { u128 o , }
options { MetaDataX = true;
    BodyLength =")).
Eval vm_compute in ("<<<M824>>>" ++ check (runes_of_ascii "packet A {
  match k as n {
    [""a"", ""bb"", 007, ""d"", ""e""] : B
    2 : C
  },
}")).
Eval vm_compute in ("<<<M166>>>" ++ check (runes_of_ascii "packet calculatedFrom {repeat // packet A { u8 x, }
string Foo`{ , }`	, }
")).
Eval vm_compute in ("<<<M1636>>>" ++ check (runes_of_ascii "
options

{
	Logon	=	""" ++ [28040; 24687]%N ++ runes_of_ascii """ ;

    BodyLength 
=

    false
;
    }
")).
Eval vm_compute in ("<<<M851>>>" ++ check (runes_of_ascii "packet A { Inner { match k as n { [1,22,007,4,5,66,7] : B, }, }, }")).
Eval vm_compute in ("<<<M1781>>>" ++ check (runes_of_ascii "packet A {
    B {
        // a
        u8 x,// b
    },// d
}")).
Eval vm_compute in ("<<<M1757>>>" ++ check (runes_of_ascii "packet A {
    match k as n {
        [1, 2] : B,
    },
}")).
Eval vm_compute in ("<<<M1220>>>" ++ check (runes_of_ascii "packet body { i32 f32a `{ , }` , } options { }
// c
")).
Eval vm_compute in ("<<<M777>>>" ++ check (runes_of_ascii "packet A { Inner { match k as n { [1] : B, }, }, }")).
Eval vm_compute in ("<<<M1715>>>" ++ check (runes_of_ascii "options {
    trueish = '0';
    a1 = u64;
}")).
Eval vm_compute in ("<<<M752>>>" ++ check (runes_of_ascii "repeatCount u32 as false uint64 0 @tag(")).
Eval vm_compute in ("<<<M1662>>>" ++ check (runes_of_ascii "// top
packet x {
    // c2
}
// c3")).
Eval vm_compute in ("<<<M1898>>>" ++ check (runes_of_ascii "packet A {
    u8 x `d" ++ [12]%N ++ runes_of_ascii "`,// c" ++ [12]%N ++ runes_of_ascii "
}")).
Eval vm_compute in ("<<<M1058>>>" ++ check (runes_of_ascii "packet A {
 u8 x `d" ++ [6158]%N ++ runes_of_ascii "`, // c" ++ [6158]%N ++ runes_of_ascii "
}")).
Eval vm_compute in ("<<<M1448>>>" ++ check (runes_of_ascii "packet  f32a

{

    }

")).
Eval vm_compute in ("<<<M1486>>>" ++ check (runes_of_ascii "// c" ++ [65279]%N ++ runes_of_ascii "
	packet  A {
} ")).
Eval vm_compute in ("<<<M170>>>" ++ check (runes_of_ascii "packet pack
{
} 	 ")).
Eval vm_compute in ("<<<M1002>>>" ++ check (runes_of_ascii "// c" ++ [8192]%N ++ runes_of_ascii "
packet A {
}")).
Eval vm_compute in ("<<<M571>>>" ++ check (runes_of_ascii "
packet
    asx {")).
Eval vm_compute in ("<<<M409>>>" ++ check (runes_of_ascii "packet uint8x
{")).
Eval vm_compute in ("<<<M1487>>>" ++ check (runes_of_ascii "// " ++ [128512]%N ++ runes_of_ascii " emoji")).
Eval vm_compute in ("<<<M726>>>" ++ check (runes_of_ascii "
	 ")).
