From FP Require Import Lexer Parser ShowPT Digest.
From Coq Require Import String List NArith.
Import ListNotations.
Open Scope string_scope.
Set Printing Width 100000000.
Set Printing Depth 100000000.
Definition nl : string := String (Ascii.ascii_of_nat 10) EmptyString.
Definition model_lex (rs : list rune) : string := show_toks (lex rs).
Definition model_parse (rs : list rune) : string :=
  show_pt (match lex rs with Some ts => parse ts | None => None end).
(* coqc is slow at printing long strings: digests first (Digest.v), full texts on demand *)
Definition check (rs : list rune) : string :=
  digest (model_lex rs) ++ " " ++ digest (model_parse rs).
Definition full (rs : list rune) : string := model_lex rs ++ nl ++ model_parse rs.
Definition terms (ts : list tok) (t : pt) : string :=
  digest (show_toks (Some ts)) ++ " " ++ digest (show_pt (Some t)) ++ " " ++ digest (show_pt (parse ts)).
Definition terms_full (ts : list tok) (t : pt) : string :=
  show_toks (Some ts) ++ nl ++ show_pt (Some t) ++ nl ++ show_pt (parse ts).
Eval vm_compute in ("<<<M3>>>" ++ check (runes_of_ascii "packet
    Foo{
    uint64  Header @lengthOf( float )
`
`
, // a // b
char[]_x,@tag( 10
    )
char[] Packet , uint16 stringy @lengthOf(
    calculatedFrom
), }//x
options	{ }")).
Eval vm_compute in ("<<<M13>>>" ++ check (runes_of_ascii "packet crc {
@tag(  0123456789// " ++ [128512]%N ++ runes_of_ascii " emoji
) i64 uint8x , }
MetaData i8i8 {
    zchar[
    65535 ] int, }	packet lengthOf  {
// trailing space 
//	t
@leftPad	('0')	falsey int ,	}
// @lengthOf(
")).
Eval vm_compute in ("<<<T13>>>" ++ terms [mkTok 35 "packet" 1 0 false; mkTok 42 "crc" 1 7 false; mkTok 2 "{" 1 11 false; mkTok 9 "@tag(" 2 0 false; mkTok 30 "0123456789" 2 7 false; mkTok 44 (string_of_bytes [47; 47; 32; 240; 159; 152; 128; 32; 101; 109; 111; 106; 105]%N) 2 17 true; mkTok 6 ")" 3 0 false; mkTok 27 "i64" 3 2 false; mkTok 42 "uint8x" 3 6 false; mkTok 40 "," 3 13 false; mkTok 3 "}" 3 15 false; mkTok 37 "MetaData" 4 0 false; mkTok 42 "i8i8" 4 9 false; mkTok 2 "{" 4 14 false; mkTok 14 "zchar[" 5 4 false; mkTok 30 "65535" 6 4 false; mkTok 13 "]" 6 10 false; mkTok 42 "int" 6 12 false; mkTok 40 "," 6 15 false; mkTok 3 "}" 6 17 false; mkTok 35 "packet" 6 19 false; mkTok 42 "lengthOf" 6 26 false; mkTok 2 "{" 6 36 false; mkTok 44 "// trailing space " 7 0 true; mkTok 44 (string_of_bytes [47; 47; 9; 116]%N) 8 0 true; mkTok 32 "@leftPad" 9 0 false; mkTok 8 "(" 9 9 false; mkTok 33 "'0'" 9 10 false; mkTok 6 ")" 9 13 false; mkTok 42 "falsey" 9 15 false; mkTok 42 "int" 9 22 false; mkTok 40 "," 9 26 false; mkTok 3 "}" 9 28 false; mkTok 44 "// @lengthOf(" 10 0 true; mkTok 0 "<EOF>" 11 0 false] (mkPacket (mkPtok 35 "packet" 1 0 0) (Some (mkPtok 3 "}" 9 28 32)) [(DPacket (mkPacketDef (mkSpan (mkPtok 35 "packet" 1 0 0) (mkPtok 3 "}" 3 15 10)) None (mkPtok 35 "packet" 1 0 0) (mkPtok 42 "crc" 1 7 1) (mkPtok 2 "{" 1 11 2) [(mkFieldWithAttr (mkSpan (mkPtok 9 "@tag(" 2 0 3) (mkPtok 40 "," 3 13 9)) [(FATag (mkSpan (mkPtok 9 "@tag(" 2 0 3) (mkPtok 6 ")" 3 0 6)) (mkTagAttr (mkSpan (mkPtok 9 "@tag(" 2 0 3) (mkPtok 6 ")" 3 0 6)) (mkPtok 9 "@tag(" 2 0 3) (mkPtok 30 "0123456789" 2 7 4) (mkPtok 6 ")" 3 0 6)))] (MetaField (mkSpan (mkPtok 27 "i64" 3 2 7) (mkPtok 40 "," 3 13 9)) None (mkMetaDecl (mkSpan (mkPtok 27 "i64" 3 2 7) (mkPtok 40 "," 3 13 9)) (TyBasic (mkSpan (mkPtok 27 "i64" 3 2 7) (mkPtok 27 "i64" 3 2 7)) (mkBasicType (mkSpan (mkPtok 27 "i64" 3 2 7) (mkPtok 27 "i64" 3 2 7)) (mkPtok 27 "i64" 3 2 7))) (mkPtok 42 "uint8x" 3 6 8) None (mkPtok 40 "," 3 13 9))))] (mkPtok 3 "}" 3 15 10))); (DMeta (mkMetaDef (mkSpan (mkPtok 37 "MetaData" 4 0 11) (mkPtok 3 "}" 6 17 19)) (mkPtok 37 "MetaData" 4 0 11) (mkPtok 42 "i8i8" 4 9 12) (mkPtok 2 "{" 4 14 13) [(MIDecl (mkMetaDecl (mkSpan (mkPtok 14 "zchar[" 5 4 14) (mkPtok 40 "," 6 15 18)) (TyFixed (mkSpan (mkPtok 14 "zchar[" 5 4 14) (mkPtok 13 "]" 6 10 16)) (mkFixedString (mkSpan (mkPtok 14 "zchar[" 5 4 14) (mkPtok 13 "]" 6 10 16)) (mkPtok 14 "zchar[" 5 4 14) (mkPtok 30 "65535" 6 4 15) (mkPtok 13 "]" 6 10 16))) (mkPtok 42 "int" 6 12 17) None (mkPtok 40 "," 6 15 18)))] (mkPtok 3 "}" 6 17 19))); (DPacket (mkPacketDef (mkSpan (mkPtok 35 "packet" 6 19 20) (mkPtok 3 "}" 9 28 32)) None (mkPtok 35 "packet" 6 19 20) (mkPtok 42 "lengthOf" 6 26 21) (mkPtok 2 "{" 6 36 22) [(mkFieldWithAttr (mkSpan (mkPtok 32 "@leftPad" 9 0 25) (mkPtok 40 "," 9 26 31)) [(FAPadding (mkSpan (mkPtok 32 "@leftPad" 9 0 25) (mkPtok 6 ")" 9 13 28)) (mkPaddingAttr (mkSpan (mkPtok 32 "@leftPad" 9 0 25) (mkPtok 6 ")" 9 13 28)) (mkPtok 32 "@leftPad" 9 0 25) (mkPtok 8 "(" 9 9 26) (Some (mkPtok 33 "'0'" 9 10 27)) (mkPtok 6 ")" 9 13 28)))] (ObjectField (mkSpan (mkPtok 42 "falsey" 9 15 29) (mkPtok 40 "," 9 26 31)) None (mkPtok 42 "falsey" 9 15 29) (Some (mkPtok 42 "int" 9 22 30)) None (mkPtok 40 "," 9 26 31)))] (mkPtok 3 "}" 9 28 32)))])).
Eval vm_compute in ("<<<M23>>>" ++ check (runes_of_ascii "packet BodyLength { }
")).
Eval vm_compute in ("<<<M33>>>" ++ check (runes_of_ascii "packet BodyLength{//	t
x
f32a
    `line1
line2`
,
@calculatedFrom( ""a\\""
)@lengthOf(
repeatCount
) i8 Header
    `{ , }` ,float64	leftPad@calculatedFrom(	""\" ++ [233]%N ++ runes_of_ascii """)
,@calculatedFrom(  ""1"") uint64 o, } 	 ")).
Eval vm_compute in ("<<<M43>>>" ++ check (runes_of_ascii "MetaData// " ++ [128512]%N ++ runes_of_ascii " emoji
charz
{zchar[
    42] packetx
    `crlf
line` , } 	 ")).
Eval vm_compute in ("<<<M53>>>" ++ check (runes_of_ascii "options
{ string_ = //	t
007 }
")).
Eval vm_compute in ("<<<M63>>>" ++ check (runes_of_ascii "root packet u
    /// triple
    {
    }
")).
Eval vm_compute in ("<<<M73>>>" ++ check (runes_of_ascii "options { stringy=""x y""  ;
chars
=true Logon = string crc = true Logon
= char }")).
Eval vm_compute in ("<<<M83>>>" ++ check (@nil rune)).
Eval vm_compute in ("<<<T83>>>" ++ terms [mkTok 0 "<EOF>" 1 0 false] (mkPacket (mkPtok 0 "<EOF>" 1 0 0) None [])).
Eval vm_compute in ("<<<M93>>>" ++ check (runes_of_ascii "options {
    x_y_z	= false
;
    stringy =
    """ ++ [233]%N ++ runes_of_ascii "t" ++ [233]%N ++ runes_of_ascii """;
    // trailing space 
    crc =
""" ++ [128512]%N ++ runes_of_ascii """  i8i8=
'0'
    ;
}
    // `tick` ""quote"" 'q'
    packet _x { match u128 as tag { ""CRC32"" :stringy , 3
    //	t
    : repeatCount ,// " ++ [27880; 37322]%N ++ runes_of_ascii "
""\" ++ [233]%N ++ runes_of_ascii """ :	float,	[
"""" ,  """"	, """ ++ [28040; 24687]%N ++ runes_of_ascii """ , ""a\""b"" ]
    : u8x ,""1""
:
    x_y_z
, } , }packet stringy {
}
// " ++ [128512]%N ++ runes_of_ascii " emoji
")).
Eval vm_compute in ("<<<M103>>>" ++ check (runes_of_ascii "options
// trailing space 
// " ++ [27880; 37322]%N ++ runes_of_ascii "
{Foo=
""it's"" lengthOf = int8 falsey /// triple
= 7 ;a1
= false
; } MetaData repeatCount
//x
//x
{ T
    repeatCount,
    u8x msg_type `// not a comment`
    ,
    repeatCount T	, } packet repeatCount{  @tag( 007 ) i64_ As	,
}
root packet	packetx{
    string
//	t
// " ++ [128512]%N ++ runes_of_ascii " emoji
T @calculatedFrom(""{,}""//
)
    , repeat zchar[
    4294967296
    ] x  , @tag(
42 ) @lengthOf( lengthOf
)/// triple
@calculatedFrom( ""`tick`""	)repeat u16 u128 `say ""hi""` // trailing space 
, // trailing space 
@rightPad ( ) @tag( 255 )
repeat uint8x Logon
    // packet A { u8 x, }
    ,
    repeat zchar[ 007 ]Logon`a\`
    ,@rightPad(
    // `tick` ""quote"" 'q'
    '0' ) // @lengthOf(
string
falsey ,
}
")).
Eval vm_compute in ("<<<M113>>>" ++ check (runes_of_ascii "packet chars
{
    i8 Z9_ ,
match
// " ++ [128512]%N ++ runes_of_ascii " emoji
//	t
zchar
    as Logon
{ 00	: i8i8[
    ""// no comment""
, 42
    , 10 , ""it's"" , 4294967296
, ""`tick`"" ,
    ""x y"" , ""a\""b"" ]
    :leftPad [ ""\" ++ [233]%N ++ runes_of_ascii """ ]: A [ ""abc"" /// triple
, ""1""
    ] :
zchar ,	3 :
x,
    3 :
x_y_z , }
    , uint8x // a // b
@calculatedFrom(
    ""{,}"" )//x
, } // `tick` ""quote"" 'q'
packet calculatedFrom { int32
T, @lengthOf( float ) f32a len , @calculatedFrom(""" ++ [233]%N ++ runes_of_ascii "t" ++ [233]%N ++ runes_of_ascii """
    ) int32 f32a
@lengthOf( // c
matchKey
) `" ++ [233]%N ++ runes_of_ascii "`
, charz @calculatedFrom( ""x y""),} root packet stringy //	t
{ @lengthOf( Logon )
int64 len
    //x
    @calculatedFrom( // `tick` ""quote"" 'q'
""CRC32"") , T // " ++ [27880; 37322]%N ++ runes_of_ascii "
@calculatedFrom( ""1"" ) `line1
line2`, @tag( 255 )
    @tag( 7 )@tag(
007
)repeat
packetx len
//	t
// packet A { u8 x, }
, @tag(
1 ) repeat  zchar[
0] float , //
@lengthOf(
    lengthOf ) repeat x_y_z {char[ 10]u `
`
    , MetaDataX a1
    `u8 x,`  , }  , @tag( 1 ) string repeatCount `" ++ [28040; 24687; 31867; 22411]%N ++ runes_of_ascii "`,
int8 int @calculatedFrom(
""// no comment""
) , } packet
    asx
{
    @leftPad ( '\x00' )
char[
    00]
u8x @calculatedFrom( """ ++ [233]%N ++ runes_of_ascii "t" ++ [233]%N ++ runes_of_ascii """ ) , zchar[007 ] asx @calculatedFrom(
""" ++ [128512]%N ++ runes_of_ascii """)	,repeat MetaDataX metadata
    `
`,
    } 	 ")).
Eval vm_compute in ("<<<M123>>>" ++ check (runes_of_ascii "options//	t
{
BodyLength
    = ""{,}"" tag	=
    ""// no comment"" ; } options {
    charz
= '\x00' ; // a // b
repeatCount
= 255// c
; _x
=
    """ ++ [128512]%N ++ runes_of_ascii """
    ; Foo= '0'	a1 ='0'
//x
//
}root packet falsey { i64 packetx@lengthOf( Header//	t
)`" ++ [28040; 24687; 31867; 22411]%N ++ runes_of_ascii "` ,
len @lengthOf( roots )
`a\` , zchar	@lengthOf( MetaDataX
    //x
    )
    `line1
line2`
    , } // packet A { u8 x, }")).
Eval vm_compute in ("<<<M133>>>" ++ check (runes_of_ascii "packet	float{ }")).
Eval vm_compute in ("<<<M143>>>" ++ check (runes_of_ascii "packet int
    {
match Pad as	Z9_ { [65535,
    ""// no comment"" , ""a	b""//x
, // " ++ [128512]%N ++ runes_of_ascii " emoji
""CRC32"" ,
00 , 0123456789 , 0]
:  Z9_
4294967296
: stringy ,""""//
: f32a
    ,
"""" :
//	t
// " ++ [27880; 37322]%N ++ runes_of_ascii "
Header, [""it's"" , 1,""1"" ] :
msg_type , } , @leftPad ( )
f32 Foo
    // `tick` ""quote"" 'q'
    ``	, charz {
repeat int8
options1  ,repeat  char[]
T
,
repeat string
crc // c
`doc`
    //x
    , uint8x`a\`
    ,} ,} packet
    Logon{ A, u8
metadata , @lengthOf( trueish )
// a // b
// packet A { u8 x, }
@lengthOf(u8x) @lengthOf( A)
    // " ++ [27880; 37322]%N ++ runes_of_ascii "
    repeat string
trueish
    // " ++ [128512]%N ++ runes_of_ascii " emoji
    , @tag( 3) match
    rootA as
    Pad // @lengthOf(
{42 :msg_type,[ 0
    // a // b
    ,
// trailing space 
// `tick` ""quote"" 'q'
""" ++ [128512]%N ++ runes_of_ascii """ ,00
] : asx
, [ """ ++ [233]%N ++ runes_of_ascii "t" ++ [233]%N ++ runes_of_ascii """ ,""{,}""
,""" ++ [233]%N ++ runes_of_ascii "t" ++ [233]%N ++ runes_of_ascii """ , 255 ] //	t
:T ""x y"" : calculatedFrom
[
""a	b""	,0123456789	,
    ""{,}"" ,
    3 , 3
, 7 ,
    4294967296 ,  4294967296 ]: Header , [0,4294967296,
    10
    // packet A { u8 x, }
    ,
007 , 007 ,1 , ""1"",	""`tick`""
    //	t
    ] : Packet }/// triple
,
    zchar[
0
    ] asx @lengthOf( x_y_z
    )
`{ , }`
,
repeat char[
    7 ] leftPad, stringy`` , falsey //
repeatCount
`{ , }` ,}packet
    MetaDataX // packet A { u8 x, }
{
options1,	}
    // " ++ [27880; 37322]%N ++ runes_of_ascii "
    packet
    zchar { // " ++ [27880; 37322]%N ++ runes_of_ascii "
uint16 falsey ,  match string_ as BodyLength {
[
    4294967296 , 42 ,255 , ""1""
, """ ++ [28040; 24687]%N ++ runes_of_ascii """ ,""packet"" ,""`tick`"" ]
: Logon ,
7 : packetx , } , @leftPad  (
) @calculatedFrom(
    /// triple
    ""\n"" )
    @leftPad  () match T as
packetx {""1"" :options1, } //
,uint8 MetaDataX@lengthOf(	roots  ), @tag( 0123456789 //	t
) body// packet A { u8 x, }
@calculatedFrom( ""packet"" // @lengthOf(
)
// c
// trailing space 
`{ , }` ,@lengthOf(	roots )
zchar[ 0123456789 ]
repeatCount
    , repeat int32 matchKey `a\` , @lengthOf(
    options1 )u8 pack , @rightPad( ' ' ) float32 f32a
    , @rightPad (
    /// triple
    '\x00' )
    @rightPad(	) @calculatedFrom(// trailing space 
""CRC32"" )repeat
pack { // @lengthOf(
zchar[00 ] falsey ``
    , match calculatedFrom	as // c
leftPad { 65535 // trailing space 
: // packet A { u8 x, }
Z9_
    , 007//x
:
charz,} , repeat zchar[7] Pad ,} , }
//x
")).
Eval vm_compute in ("<<<M153>>>" ++ check (runes_of_ascii "  packet rootA	{ int @lengthOf(
    Packet // packet A { u8 x, }
) // `tick` ""quote"" 'q'
`// not a comment` , }
")).
Eval vm_compute in ("<<<T153>>>" ++ terms [mkTok 35 "packet" 1 2 false; mkTok 42 "rootA" 1 9 false; mkTok 2 "{" 1 15 false; mkTok 42 "int" 1 17 false; mkTok 7 "@lengthOf(" 1 21 false; mkTok 42 "Packet" 2 4 false; mkTok 44 "// packet A { u8 x, }" 2 11 true; mkTok 6 ")" 3 0 false; mkTok 44 "// `tick` ""quote"" 'q'" 3 2 true; mkTok 43 "`// not a comment`" 4 0 false; mkTok 40 "," 4 19 false; mkTok 3 "}" 4 21 false; mkTok 0 "<EOF>" 5 0 false] (mkPacket (mkPtok 35 "packet" 1 2 0) (Some (mkPtok 3 "}" 4 21 11)) [(DPacket (mkPacketDef (mkSpan (mkPtok 35 "packet" 1 2 0) (mkPtok 3 "}" 4 21 11)) None (mkPtok 35 "packet" 1 2 0) (mkPtok 42 "rootA" 1 9 1) (mkPtok 2 "{" 1 15 2) [(mkFieldWithAttr (mkSpan (mkPtok 42 "int" 1 17 3) (mkPtok 40 "," 4 19 10)) [] (LengthField (mkSpan (mkPtok 42 "int" 1 17 3) (mkPtok 40 "," 4 19 10)) (mkLengthFieldDecl (mkSpan (mkPtok 42 "int" 1 17 3) (mkPtok 40 "," 4 19 10)) None (mkPtok 42 "int" 1 17 3) (mkLengthOf (mkSpan (mkPtok 7 "@lengthOf(" 1 21 4) (mkPtok 6 ")" 3 0 7)) (mkPtok 7 "@lengthOf(" 1 21 4) (mkPtok 42 "Packet" 2 4 5) (mkPtok 6 ")" 3 0 7)) (Some (mkPtok 43 "`// not a comment`" 4 0 9)) (mkPtok 40 "," 4 19 10))))] (mkPtok 3 "}" 4 21 11)))])).
Eval vm_compute in ("<<<M163>>>" ++ check (runes_of_ascii "packet  BodyLength { @rightPad // packet A { u8 x, }
()
i32 packetx
@lengthOf( leftPad) ,  @lengthOf( MetaDataX
    ) leftPad
    ,
    _x {
match
zchar as zchar {
    [ // `tick` ""quote"" 'q'
""a\\"" ]
: crc """ ++ [28040; 24687]%N ++ runes_of_ascii """ :
Foo ,  1 : trueish ,	42 : rootA , [ 4294967296
// @lengthOf(
// `tick` ""quote"" 'q'
]
    //	t
    :
    float
    // " ++ [128512]%N ++ runes_of_ascii " emoji
    ""a\\"": Foo ,}  ,	repeat
float
    leftPad, uint8x i8i8 ,char[ 255  ]As// trailing space 
,	} ,  char[
    // " ++ [27880; 37322]%N ++ runes_of_ascii "
    4294967296
] uint8x`u8 x,` , @leftPad ( )
float32
body `two words` , }
")).
Eval vm_compute in ("<<<M173>>>" ++ check (runes_of_ascii "packet float {// a // b
@lengthOf(
    T ) repeat charz
    {
    // c
    packetx @calculatedFrom( """ ++ [28040; 24687]%N ++ runes_of_ascii """)
    `" ++ [233]%N ++ runes_of_ascii "` // " ++ [27880; 37322]%N ++ runes_of_ascii "
, char[
4294967296 //x
]Header	,  }
    , } /// triple")).
Eval vm_compute in ("<<<M183>>>" ++ check (runes_of_ascii "// c
options  {
i8i8
    = """ ++ [28040; 24687]%N ++ runes_of_ascii """
    // trailing space 
    ; Pad= ' ' }root packet i8i8{ i64 matchKey`" ++ [233]%N ++ runes_of_ascii "`
,match repeatCount as x// @lengthOf(
{
//	t
// a // b
42 : float
    ,
007 : u , }
// trailing space 
//x
,
@calculatedFrom( ""a	b"" ) string_
// @lengthOf(
/// triple
{  matchKey string_
    ,// trailing space 
} , repeat char[] repeatCount
    , }
options // a // b
{
msg_type =
true ; int
// " ++ [128512]%N ++ runes_of_ascii " emoji
// " ++ [27880; 37322]%N ++ runes_of_ascii "
= u16	string_
    = false ;}")).
Eval vm_compute in ("<<<M193>>>" ++ check (runes_of_ascii "root packet As { }

")).
Eval vm_compute in ("<<<M203>>>" ++ check (runes_of_ascii "packet x_y_z
    {@calculatedFrom( """"
) repeat
// `tick` ""quote"" 'q'
// `tick` ""quote"" 'q'
_x f32a , @calculatedFrom(
    ""it's"")chars
// c
// `tick` ""quote"" 'q'
,
    int32 u8x// `tick` ""quote"" 'q'
, // c
}options
    // " ++ [128512]%N ++ runes_of_ascii " emoji
    {crc	= """ ++ [233]%N ++ runes_of_ascii "t" ++ [233]%N ++ runes_of_ascii """ }root packet  string_{ } packet x  { u8x
    Packet
    ,
i32 float, } options
    {Pad =  4294967296 ; leftPad
= """ ++ [233]%N ++ runes_of_ascii "t" ++ [233]%N ++ runes_of_ascii """}
")).
Eval vm_compute in ("<<<M213>>>" ++ check (runes_of_ascii "
root packet	f32a {char[]x_y_z `doc` ,@calculatedFrom(	""CRC32""
) A tag `u8 x,`
,
int , } options { Packet =""1""
    ; } options {  } 	 ")).
Eval vm_compute in ("<<<M223>>>" ++ check (runes_of_ascii "packet chars
    {
int32 trueish ,match Pad
as repeatCount { [0] :// " ++ [27880; 37322]%N ++ runes_of_ascii "
Pad
    , /// triple
3
: Foo , ""abc""
    :
i64_ //	t
, [255
    ,	3 ]
    :
Packet ,[
0123456789 // @lengthOf(
,""// no comment"" ]
: Packet , }
    , // c
match  a1 as u {[// `tick` ""quote"" 'q'
""abc""
, """ ++ [233]%N ++ runes_of_ascii "t" ++ [233]%N ++ runes_of_ascii """
, """" ,  0
    ,
    //	t
    255 ]
:u
    //	t
    ,
    } ,@tag(  10
    ) match a1
    as a1
{
    [42
    ]//
:packetx ,
    } ,@lengthOf(As ) repeat	char[0123456789] repeatCount`tab	here` ,string o `crlf
line` ,
//x
// a // b
As
    @lengthOf(//x
i8i8 )
    , string repeatCount @lengthOf( u128 ) ,
    //
    @tag( 00 ) repeat pack Logon , }	root packet Foo {@tag( 1)char[ // packet A { u8 x, }
3
]
i64_ ,
f32
// packet A { u8 x, }
// " ++ [27880; 37322]%N ++ runes_of_ascii "
charz , // `tick` ""quote"" 'q'
i8 zchar
    @lengthOf(// `tick` ""quote"" 'q'
MetaDataX ) /// triple
,@tag( 007 )u8 _x ,@tag(  255 ) msg_type@calculatedFrom(""`tick`"") `doc` ,  @calculatedFrom( """ ++ [233]%N ++ runes_of_ascii "t" ++ [233]%N ++ runes_of_ascii """ ) match len as /// triple
As {""// no comment"" : falsey ,
    }  , } MetaData leftPad{ x i8i8 , } //")).
Eval vm_compute in ("<<<T223>>>" ++ terms [mkTok 35 "packet" 1 0 false; mkTok 42 "chars" 1 7 false; mkTok 2 "{" 2 4 false; mkTok 26 "int32" 3 0 false; mkTok 42 "trueish" 3 6 false; mkTok 40 "," 3 14 false; mkTok 38 "match" 3 15 false; mkTok 42 "Pad" 3 21 false; mkTok 17 "as" 4 0 false; mkTok 42 "repeatCount" 4 3 false; mkTok 2 "{" 4 15 false; mkTok 18 "[" 4 17 false; mkTok 30 "0" 4 18 false; mkTok 13 "]" 4 19 false; mkTok 39 ":" 4 21 false; mkTok 44 (string_of_bytes [47; 47; 32; 230; 179; 168; 233; 135; 138]%N) 4 22 true; mkTok 42 "Pad" 5 0 false; mkTok 40 "," 6 4 false; mkTok 44 "/// triple" 6 6 true; mkTok 30 "3" 7 0 false; mkTok 39 ":" 8 0 false; mkTok 42 "Foo" 8 2 false; mkTok 40 "," 8 6 false; mkTok 31 """abc""" 8 8 false; mkTok 39 ":" 9 4 false; mkTok 42 "i64_" 10 0 false; mkTok 44 (string_of_bytes [47; 47; 9; 116]%N) 10 5 true; mkTok 40 "," 11 0 false; mkTok 18 "[" 11 2 false; mkTok 30 "255" 11 3 false; mkTok 40 "," 12 4 false; mkTok 30 "3" 12 6 false; mkTok 13 "]" 12 8 false; mkTok 39 ":" 13 4 false; mkTok 42 "Packet" 14 0 false; mkTok 40 "," 14 7 false; mkTok 18 "[" 14 8 false; mkTok 30 "0123456789" 15 0 false; mkTok 44 "// @lengthOf(" 15 11 true; mkTok 40 "," 16 0 false; mkTok 31 """// no comment""" 16 1 false; mkTok 13 "]" 16 17 false; mkTok 39 ":" 17 0 false; mkTok 42 "Packet" 17 2 false; mkTok 40 "," 17 9 false; mkTok 3 "}" 17 11 false; mkTok 40 "," 18 4 false; mkTok 44 "// c" 18 6 true; mkTok 38 "match" 19 0 false; mkTok 42 "a1" 19 7 false; mkTok 17 "as" 19 10 false; mkTok 42 "u" 19 13 false; mkTok 2 "{" 19 15 false; mkTok 18 "[" 19 16 false; mkTok 44 "// `tick` ""quote"" 'q'" 19 17 true; mkTok 31 """abc""" 20 0 false; mkTok 40 "," 21 0 false; mkTok 31 (string_of_bytes [34; 195; 169; 116; 195; 169; 34]%N) 21 2 false; mkTok 40 "," 22 0 false; mkTok 31 """""" 22 2 false; mkTok 40 "," 22 5 false; mkTok 30 "0" 22 8 false; mkTok 40 "," 23 4 false; mkTok 44 (string_of_bytes [47; 47; 9; 116]%N) 24 4 true; mkTok 30 "255" 25 4 false; mkTok 13 "]" 25 8 false; mkTok 39 ":" 26 0 false; mkTok 42 "u" 26 1 false; mkTok 44 (string_of_bytes [47; 47; 9; 116]%N) 27 4 true; mkTok 40 "," 28 4 false; mkTok 3 "}" 29 4 false; mkTok 40 "," 29 6 false; mkTok 9 "@tag(" 29 7 false; mkTok 30 "10" 29 14 false; mkTok 6 ")" 30 4 false; mkTok 38 "match" 30 6 false; mkTok 42 "a1" 30 12 false; mkTok 17 "as" 31 4 false; mkTok 42 "a1" 31 7 false; mkTok 2 "{" 32 0 false; mkTok 18 "[" 33 4 false; mkTok 30 "42" 33 5 false; mkTok 13 "]" 34 4 false; mkTok 44 "//" 34 5 true; mkTok 39 ":" 35 0 false; mkTok 42 "packetx" 35 1 false; mkTok 40 "," 35 9 false; mkTok 3 "}" 36 4 false; mkTok 40 "," 36 6 false; mkTok 7 "@lengthOf(" 36 7 false; mkTok 42 "As" 36 17 false; mkTok 6 ")" 36 20 false; mkTok 36 "repeat" 36 22 false; mkTok 12 "char[" 36 29 false; mkTok 30 "0123456789" 36 34 false; mkTok 13 "]" 36 44 false; mkTok 42 "repeatCount" 36 46 false; mkTok 43 (string_of_bytes [96; 116; 97; 98; 9; 104; 101; 114; 101; 96]%N) 36 57 false; mkTok 40 "," 36 68 false; mkTok 15 "string" 36 69 false; mkTok 42 "o" 36 76 false; mkTok 43 (string_of_bytes [96; 99; 114; 108; 102; 13; 10; 108; 105; 110; 101; 96]%N) 36 78 false; mkTok 40 "," 37 6 false; mkTok 44 "//x" 38 0 true; mkTok 44 "// a // b" 39 0 true; mkTok 42 "As" 40 0 false; mkTok 7 "@lengthOf(" 41 4 false; mkTok 44 "//x" 41 14 true; mkTok 42 "i8i8" 42 0 false; mkTok 6 ")" 42 5 false; mkTok 40 "," 43 4 false; mkTok 15 "string" 43 6 false; mkTok 42 "repeatCount" 43 13 false; mkTok 7 "@lengthOf(" 43 25 false; mkTok 42 "u128" 43 36 false; mkTok 6 ")" 43 41 false; mkTok 40 "," 43 43 false; mkTok 44 "//" 44 4 true; mkTok 9 "@tag(" 45 4 false; mkTok 30 "00" 45 10 false; mkTok 6 ")" 45 13 false; mkTok 36 "repeat" 45 15 false; mkTok 42 "pack" 45 22 false; mkTok 42 "Logon" 45 27 false; mkTok 40 "," 45 33 false; mkTok 3 "}" 45 35 false; mkTok 34 "root" 45 37 false; mkTok 35 "packet" 45 42 false; mkTok 42 "Foo" 45 49 false; mkTok 2 "{" 45 53 false; mkTok 9 "@tag(" 45 54 false; mkTok 30 "1" 45 60 false; mkTok 6 ")" 45 61 false; mkTok 12 "char[" 45 62 false; mkTok 44 "// packet A { u8 x, }" 45 68 true; mkTok 30 "3" 46 0 false; mkTok 13 "]" 47 0 false; mkTok 42 "i64_" 48 0 false; mkTok 40 "," 48 5 false; mkTok 28 "f32" 49 0 false; mkTok 44 "// packet A { u8 x, }" 50 0 true; mkTok 44 (string_of_bytes [47; 47; 32; 230; 179; 168; 233; 135; 138]%N) 51 0 true; mkTok 42 "charz" 52 0 false; mkTok 40 "," 52 6 false; mkTok 44 "// `tick` ""quote"" 'q'" 52 8 true; mkTok 24 "i8" 53 0 false; mkTok 42 "zchar" 53 3 false; mkTok 7 "@lengthOf(" 54 4 false; mkTok 44 "// `tick` ""quote"" 'q'" 54 14 true; mkTok 42 "MetaDataX" 55 0 false; mkTok 6 ")" 55 10 false; mkTok 44 "/// triple" 55 12 true; mkTok 40 "," 56 0 false; mkTok 9 "@tag(" 56 1 false; mkTok 30 "007" 56 7 false; mkTok 6 ")" 56 11 false; mkTok 20 "u8" 56 12 false; mkTok 42 "_x" 56 15 false; mkTok 40 "," 56 18 false; mkTok 9 "@tag(" 56 19 false; mkTok 30 "255" 56 26 false; mkTok 6 ")" 56 30 false; mkTok 42 "msg_type" 56 32 false; mkTok 5 "@calculatedFrom(" 56 40 false; mkTok 31 """`tick`""" 56 56 false; mkTok 6 ")" 56 64 false; mkTok 43 "`doc`" 56 66 false; mkTok 40 "," 56 72 false; mkTok 5 "@calculatedFrom(" 56 75 false; mkTok 31 (string_of_bytes [34; 195; 169; 116; 195; 169; 34]%N) 56 92 false; mkTok 6 ")" 56 98 false; mkTok 38 "match" 56 100 false; mkTok 42 "len" 56 106 false; mkTok 17 "as" 56 110 false; mkTok 44 "/// triple" 56 113 true; mkTok 42 "As" 57 0 false; mkTok 2 "{" 57 3 false; mkTok 31 """// no comment""" 57 4 false; mkTok 39 ":" 57 20 false; mkTok 42 "falsey" 57 22 false; mkTok 40 "," 57 29 false; mkTok 3 "}" 58 4 false; mkTok 40 "," 58 7 false; mkTok 3 "}" 58 9 false; mkTok 37 "MetaData" 58 11 false; mkTok 42 "leftPad" 58 20 false; mkTok 2 "{" 58 27 false; mkTok 42 "x" 58 29 false; mkTok 42 "i8i8" 58 31 false; mkTok 40 "," 58 36 false; mkTok 3 "}" 58 38 false; mkTok 44 "//" 58 40 true; mkTok 0 "<EOF>" 58 42 false] (mkPacket (mkPtok 35 "packet" 1 0 0) (Some (mkPtok 3 "}" 58 38 190)) [(DPacket (mkPacketDef (mkSpan (mkPtok 35 "packet" 1 0 0) (mkPtok 3 "}" 45 35 125)) None (mkPtok 35 "packet" 1 0 0) (mkPtok 42 "chars" 1 7 1) (mkPtok 2 "{" 2 4 2) [(mkFieldWithAttr (mkSpan (mkPtok 26 "int32" 3 0 3) (mkPtok 40 "," 3 14 5)) [] (MetaField (mkSpan (mkPtok 26 "int32" 3 0 3) (mkPtok 40 "," 3 14 5)) None (mkMetaDecl (mkSpan (mkPtok 26 "int32" 3 0 3) (mkPtok 40 "," 3 14 5)) (TyBasic (mkSpan (mkPtok 26 "int32" 3 0 3) (mkPtok 26 "int32" 3 0 3)) (mkBasicType (mkSpan (mkPtok 26 "int32" 3 0 3) (mkPtok 26 "int32" 3 0 3)) (mkPtok 26 "int32" 3 0 3))) (mkPtok 42 "trueish" 3 6 4) None (mkPtok 40 "," 3 14 5)))); (mkFieldWithAttr (mkSpan (mkPtok 38 "match" 3 15 6) (mkPtok 40 "," 18 4 46)) [] (MatchField (mkSpan (mkPtok 38 "match" 3 15 6) (mkPtok 40 "," 18 4 46)) (mkMatchFieldDecl (mkSpan (mkPtok 38 "match" 3 15 6) (mkPtok 3 "}" 17 11 45)) (mkPtok 38 "match" 3 15 6) (mkPtok 42 "Pad" 3 21 7) (mkPtok 17 "as" 4 0 8) (mkPtok 42 "repeatCount" 4 3 9) (mkPtok 2 "{" 4 15 10) [(mkMatchPair (mkSpan (mkPtok 18 "[" 4 17 11) (mkPtok 40 "," 6 4 17)) (MKList (mkKeyList (mkSpan (mkPtok 18 "[" 4 17 11) (mkPtok 13 "]" 4 19 13)) (mkPtok 18 "[" 4 17 11) (mkPtok 30 "0" 4 18 12) [] (mkPtok 13 "]" 4 19 13))) (mkPtok 39 ":" 4 21 14) (mkPtok 42 "Pad" 5 0 16) (Some (mkPtok 40 "," 6 4 17))); (mkMatchPair (mkSpan (mkPtok 30 "3" 7 0 19) (mkPtok 40 "," 8 6 22)) (MKDigits (mkPtok 30 "3" 7 0 19)) (mkPtok 39 ":" 8 0 20) (mkPtok 42 "Foo" 8 2 21) (Some (mkPtok 40 "," 8 6 22))); (mkMatchPair (mkSpan (mkPtok 31 """abc""" 8 8 23) (mkPtok 40 "," 11 0 27)) (MKString (mkPtok 31 """abc""" 8 8 23)) (mkPtok 39 ":" 9 4 24) (mkPtok 42 "i64_" 10 0 25) (Some (mkPtok 40 "," 11 0 27))); (mkMatchPair (mkSpan (mkPtok 18 "[" 11 2 28) (mkPtok 40 "," 14 7 35)) (MKList (mkKeyList (mkSpan (mkPtok 18 "[" 11 2 28) (mkPtok 13 "]" 12 8 32)) (mkPtok 18 "[" 11 2 28) (mkPtok 30 "255" 11 3 29) [((mkPtok 40 "," 12 4 30), (mkPtok 30 "3" 12 6 31))] (mkPtok 13 "]" 12 8 32))) (mkPtok 39 ":" 13 4 33) (mkPtok 42 "Packet" 14 0 34) (Some (mkPtok 40 "," 14 7 35))); (mkMatchPair (mkSpan (mkPtok 18 "[" 14 8 36) (mkPtok 40 "," 17 9 44)) (MKList (mkKeyList (mkSpan (mkPtok 18 "[" 14 8 36) (mkPtok 13 "]" 16 17 41)) (mkPtok 18 "[" 14 8 36) (mkPtok 30 "0123456789" 15 0 37) [((mkPtok 40 "," 16 0 39), (mkPtok 31 """// no comment""" 16 1 40))] (mkPtok 13 "]" 16 17 41))) (mkPtok 39 ":" 17 0 42) (mkPtok 42 "Packet" 17 2 43) (Some (mkPtok 40 "," 17 9 44)))] (mkPtok 3 "}" 17 11 45)) (mkPtok 40 "," 18 4 46))); (mkFieldWithAttr (mkSpan (mkPtok 38 "match" 19 0 48) (mkPtok 40 "," 29 6 71)) [] (MatchField (mkSpan (mkPtok 38 "match" 19 0 48) (mkPtok 40 "," 29 6 71)) (mkMatchFieldDecl (mkSpan (mkPtok 38 "match" 19 0 48) (mkPtok 3 "}" 29 4 70)) (mkPtok 38 "match" 19 0 48) (mkPtok 42 "a1" 19 7 49) (mkPtok 17 "as" 19 10 50) (mkPtok 42 "u" 19 13 51) (mkPtok 2 "{" 19 15 52) [(mkMatchPair (mkSpan (mkPtok 18 "[" 19 16 53) (mkPtok 40 "," 28 4 69)) (MKList (mkKeyList (mkSpan (mkPtok 18 "[" 19 16 53) (mkPtok 13 "]" 25 8 65)) (mkPtok 18 "[" 19 16 53) (mkPtok 31 """abc""" 20 0 55) [((mkPtok 40 "," 21 0 56), (mkPtok 31 (string_of_bytes [34; 195; 169; 116; 195; 169; 34]%N) 21 2 57)); ((mkPtok 40 "," 22 0 58), (mkPtok 31 """""" 22 2 59)); ((mkPtok 40 "," 22 5 60), (mkPtok 30 "0" 22 8 61)); ((mkPtok 40 "," 23 4 62), (mkPtok 30 "255" 25 4 64))] (mkPtok 13 "]" 25 8 65))) (mkPtok 39 ":" 26 0 66) (mkPtok 42 "u" 26 1 67) (Some (mkPtok 40 "," 28 4 69)))] (mkPtok 3 "}" 29 4 70)) (mkPtok 40 "," 29 6 71))); (mkFieldWithAttr (mkSpan (mkPtok 9 "@tag(" 29 7 72) (mkPtok 40 "," 36 6 88)) [(FATag (mkSpan (mkPtok 9 "@tag(" 29 7 72) (mkPtok 6 ")" 30 4 74)) (mkTagAttr (mkSpan (mkPtok 9 "@tag(" 29 7 72) (mkPtok 6 ")" 30 4 74)) (mkPtok 9 "@tag(" 29 7 72) (mkPtok 30 "10" 29 14 73) (mkPtok 6 ")" 30 4 74)))] (MatchField (mkSpan (mkPtok 38 "match" 30 6 75) (mkPtok 40 "," 36 6 88)) (mkMatchFieldDecl (mkSpan (mkPtok 38 "match" 30 6 75) (mkPtok 3 "}" 36 4 87)) (mkPtok 38 "match" 30 6 75) (mkPtok 42 "a1" 30 12 76) (mkPtok 17 "as" 31 4 77) (mkPtok 42 "a1" 31 7 78) (mkPtok 2 "{" 32 0 79) [(mkMatchPair (mkSpan (mkPtok 18 "[" 33 4 80) (mkPtok 40 "," 35 9 86)) (MKList (mkKeyList (mkSpan (mkPtok 18 "[" 33 4 80) (mkPtok 13 "]" 34 4 82)) (mkPtok 18 "[" 33 4 80) (mkPtok 30 "42" 33 5 81) [] (mkPtok 13 "]" 34 4 82))) (mkPtok 39 ":" 35 0 84) (mkPtok 42 "packetx" 35 1 85) (Some (mkPtok 40 "," 35 9 86)))] (mkPtok 3 "}" 36 4 87)) (mkPtok 40 "," 36 6 88))); (mkFieldWithAttr (mkSpan (mkPtok 7 "@lengthOf(" 36 7 89) (mkPtok 40 "," 36 68 98)) [(FALengthOf (mkSpan (mkPtok 7 "@lengthOf(" 36 7 89) (mkPtok 6 ")" 36 20 91)) (mkLengthOf (mkSpan (mkPtok 7 "@lengthOf(" 36 7 89) (mkPtok 6 ")" 36 20 91)) (mkPtok 7 "@lengthOf(" 36 7 89) (mkPtok 42 "As" 36 17 90) (mkPtok 6 ")" 36 20 91)))] (MetaField (mkSpan (mkPtok 36 "repeat" 36 22 92) (mkPtok 40 "," 36 68 98)) (Some (mkPtok 36 "repeat" 36 22 92)) (mkMetaDecl (mkSpan (mkPtok 12 "char[" 36 29 93) (mkPtok 40 "," 36 68 98)) (TyFixed (mkSpan (mkPtok 12 "char[" 36 29 93) (mkPtok 13 "]" 36 44 95)) (mkFixedString (mkSpan (mkPtok 12 "char[" 36 29 93) (mkPtok 13 "]" 36 44 95)) (mkPtok 12 "char[" 36 29 93) (mkPtok 30 "0123456789" 36 34 94) (mkPtok 13 "]" 36 44 95))) (mkPtok 42 "repeatCount" 36 46 96) (Some (mkPtok 43 (string_of_bytes [96; 116; 97; 98; 9; 104; 101; 114; 101; 96]%N) 36 57 97)) (mkPtok 40 "," 36 68 98)))); (mkFieldWithAttr (mkSpan (mkPtok 15 "string" 36 69 99) (mkPtok 40 "," 37 6 102)) [] (MetaField (mkSpan (mkPtok 15 "string" 36 69 99) (mkPtok 40 "," 37 6 102)) None (mkMetaDecl (mkSpan (mkPtok 15 "string" 36 69 99) (mkPtok 40 "," 37 6 102)) (TyDynamic (mkSpan (mkPtok 15 "string" 36 69 99) (mkPtok 15 "string" 36 69 99)) (mkDynamicString (mkSpan (mkPtok 15 "string" 36 69 99) (mkPtok 15 "string" 36 69 99)) (mkPtok 15 "string" 36 69 99))) (mkPtok 42 "o" 36 76 100) (Some (mkPtok 43 (string_of_bytes [96; 99; 114; 108; 102; 13; 10; 108; 105; 110; 101; 96]%N) 36 78 101)) (mkPtok 40 "," 37 6 102)))); (mkFieldWithAttr (mkSpan (mkPtok 42 "As" 40 0 105) (mkPtok 40 "," 43 4 110)) [] (LengthField (mkSpan (mkPtok 42 "As" 40 0 105) (mkPtok 40 "," 43 4 110)) (mkLengthFieldDecl (mkSpan (mkPtok 42 "As" 40 0 105) (mkPtok 40 "," 43 4 110)) None (mkPtok 42 "As" 40 0 105) (mkLengthOf (mkSpan (mkPtok 7 "@lengthOf(" 41 4 106) (mkPtok 6 ")" 42 5 109)) (mkPtok 7 "@lengthOf(" 41 4 106) (mkPtok 42 "i8i8" 42 0 108) (mkPtok 6 ")" 42 5 109)) None (mkPtok 40 "," 43 4 110)))); (mkFieldWithAttr (mkSpan (mkPtok 15 "string" 43 6 111) (mkPtok 40 "," 43 43 116)) [] (LengthField (mkSpan (mkPtok 15 "string" 43 6 111) (mkPtok 40 "," 43 43 116)) (mkLengthFieldDecl (mkSpan (mkPtok 15 "string" 43 6 111) (mkPtok 40 "," 43 43 116)) (Some (TyDynamic (mkSpan (mkPtok 15 "string" 43 6 111) (mkPtok 15 "string" 43 6 111)) (mkDynamicString (mkSpan (mkPtok 15 "string" 43 6 111) (mkPtok 15 "string" 43 6 111)) (mkPtok 15 "string" 43 6 111)))) (mkPtok 42 "repeatCount" 43 13 112) (mkLengthOf (mkSpan (mkPtok 7 "@lengthOf(" 43 25 113) (mkPtok 6 ")" 43 41 115)) (mkPtok 7 "@lengthOf(" 43 25 113) (mkPtok 42 "u128" 43 36 114) (mkPtok 6 ")" 43 41 115)) None (mkPtok 40 "," 43 43 116)))); (mkFieldWithAttr (mkSpan (mkPtok 9 "@tag(" 45 4 118) (mkPtok 40 "," 45 33 124)) [(FATag (mkSpan (mkPtok 9 "@tag(" 45 4 118) (mkPtok 6 ")" 45 13 120)) (mkTagAttr (mkSpan (mkPtok 9 "@tag(" 45 4 118) (mkPtok 6 ")" 45 13 120)) (mkPtok 9 "@tag(" 45 4 118) (mkPtok 30 "00" 45 10 119) (mkPtok 6 ")" 45 13 120)))] (ObjectField (mkSpan (mkPtok 36 "repeat" 45 15 121) (mkPtok 40 "," 45 33 124)) (Some (mkPtok 36 "repeat" 45 15 121)) (mkPtok 42 "pack" 45 22 122) (Some (mkPtok 42 "Logon" 45 27 123)) None (mkPtok 40 "," 45 33 124)))] (mkPtok 3 "}" 45 35 125))); (DPacket (mkPacketDef (mkSpan (mkPtok 34 "root" 45 37 126) (mkPtok 3 "}" 58 9 183)) (Some (mkPtok 34 "root" 45 37 126)) (mkPtok 35 "packet" 45 42 127) (mkPtok 42 "Foo" 45 49 128) (mkPtok 2 "{" 45 53 129) [(mkFieldWithAttr (mkSpan (mkPtok 9 "@tag(" 45 54 130) (mkPtok 40 "," 48 5 138)) [(FATag (mkSpan (mkPtok 9 "@tag(" 45 54 130) (mkPtok 6 ")" 45 61 132)) (mkTagAttr (mkSpan (mkPtok 9 "@tag(" 45 54 130) (mkPtok 6 ")" 45 61 132)) (mkPtok 9 "@tag(" 45 54 130) (mkPtok 30 "1" 45 60 131) (mkPtok 6 ")" 45 61 132)))] (MetaField (mkSpan (mkPtok 12 "char[" 45 62 133) (mkPtok 40 "," 48 5 138)) None (mkMetaDecl (mkSpan (mkPtok 12 "char[" 45 62 133) (mkPtok 40 "," 48 5 138)) (TyFixed (mkSpan (mkPtok 12 "char[" 45 62 133) (mkPtok 13 "]" 47 0 136)) (mkFixedString (mkSpan (mkPtok 12 "char[" 45 62 133) (mkPtok 13 "]" 47 0 136)) (mkPtok 12 "char[" 45 62 133) (mkPtok 30 "3" 46 0 135) (mkPtok 13 "]" 47 0 136))) (mkPtok 42 "i64_" 48 0 137) None (mkPtok 40 "," 48 5 138)))); (mkFieldWithAttr (mkSpan (mkPtok 28 "f32" 49 0 139) (mkPtok 40 "," 52 6 143)) [] (MetaField (mkSpan (mkPtok 28 "f32" 49 0 139) (mkPtok 40 "," 52 6 143)) None (mkMetaDecl (mkSpan (mkPtok 28 "f32" 49 0 139) (mkPtok 40 "," 52 6 143)) (TyBasic (mkSpan (mkPtok 28 "f32" 49 0 139) (mkPtok 28 "f32" 49 0 139)) (mkBasicType (mkSpan (mkPtok 28 "f32" 49 0 139) (mkPtok 28 "f32" 49 0 139)) (mkPtok 28 "f32" 49 0 139))) (mkPtok 42 "charz" 52 0 142) None (mkPtok 40 "," 52 6 143)))); (mkFieldWithAttr (mkSpan (mkPtok 24 "i8" 53 0 145) (mkPtok 40 "," 56 0 152)) [] (LengthField (mkSpan (mkPtok 24 "i8" 53 0 145) (mkPtok 40 "," 56 0 152)) (mkLengthFieldDecl (mkSpan (mkPtok 24 "i8" 53 0 145) (mkPtok 40 "," 56 0 152)) (Some (TyBasic (mkSpan (mkPtok 24 "i8" 53 0 145) (mkPtok 24 "i8" 53 0 145)) (mkBasicType (mkSpan (mkPtok 24 "i8" 53 0 145) (mkPtok 24 "i8" 53 0 145)) (mkPtok 24 "i8" 53 0 145)))) (mkPtok 42 "zchar" 53 3 146) (mkLengthOf (mkSpan (mkPtok 7 "@lengthOf(" 54 4 147) (mkPtok 6 ")" 55 10 150)) (mkPtok 7 "@lengthOf(" 54 4 147) (mkPtok 42 "MetaDataX" 55 0 149) (mkPtok 6 ")" 55 10 150)) None (mkPtok 40 "," 56 0 152)))); (mkFieldWithAttr (mkSpan (mkPtok 9 "@tag(" 56 1 153) (mkPtok 40 "," 56 18 158)) [(FATag (mkSpan (mkPtok 9 "@tag(" 56 1 153) (mkPtok 6 ")" 56 11 155)) (mkTagAttr (mkSpan (mkPtok 9 "@tag(" 56 1 153) (mkPtok 6 ")" 56 11 155)) (mkPtok 9 "@tag(" 56 1 153) (mkPtok 30 "007" 56 7 154) (mkPtok 6 ")" 56 11 155)))] (MetaField (mkSpan (mkPtok 20 "u8" 56 12 156) (mkPtok 40 "," 56 18 158)) None (mkMetaDecl (mkSpan (mkPtok 20 "u8" 56 12 156) (mkPtok 40 "," 56 18 158)) (TyBasic (mkSpan (mkPtok 20 "u8" 56 12 156) (mkPtok 20 "u8" 56 12 156)) (mkBasicType (mkSpan (mkPtok 20 "u8" 56 12 156) (mkPtok 20 "u8" 56 12 156)) (mkPtok 20 "u8" 56 12 156))) (mkPtok 42 "_x" 56 15 157) None (mkPtok 40 "," 56 18 158)))); (mkFieldWithAttr (mkSpan (mkPtok 9 "@tag(" 56 19 159) (mkPtok 40 "," 56 72 167)) [(FATag (mkSpan (mkPtok 9 "@tag(" 56 19 159) (mkPtok 6 ")" 56 30 161)) (mkTagAttr (mkSpan (mkPtok 9 "@tag(" 56 19 159) (mkPtok 6 ")" 56 30 161)) (mkPtok 9 "@tag(" 56 19 159) (mkPtok 30 "255" 56 26 160) (mkPtok 6 ")" 56 30 161)))] (CheckSumField (mkSpan (mkPtok 42 "msg_type" 56 32 162) (mkPtok 40 "," 56 72 167)) (mkChecksumFieldDecl (mkSpan (mkPtok 42 "msg_type" 56 32 162) (mkPtok 40 "," 56 72 167)) None (mkPtok 42 "msg_type" 56 32 162) (mkCalculatedFrom (mkSpan (mkPtok 5 "@calculatedFrom(" 56 40 163) (mkPtok 6 ")" 56 64 165)) (mkPtok 5 "@calculatedFrom(" 56 40 163) (mkPtok 31 """`tick`""" 56 56 164) (mkPtok 6 ")" 56 64 165)) (Some (mkPtok 43 "`doc`" 56 66 166)) (mkPtok 40 "," 56 72 167)))); (mkFieldWithAttr (mkSpan (mkPtok 5 "@calculatedFrom(" 56 75 168) (mkPtok 40 "," 58 7 182)) [(FACalculatedFrom (mkSpan (mkPtok 5 "@calculatedFrom(" 56 75 168) (mkPtok 6 ")" 56 98 170)) (mkCalculatedFrom (mkSpan (mkPtok 5 "@calculatedFrom(" 56 75 168) (mkPtok 6 ")" 56 98 170)) (mkPtok 5 "@calculatedFrom(" 56 75 168) (mkPtok 31 (string_of_bytes [34; 195; 169; 116; 195; 169; 34]%N) 56 92 169) (mkPtok 6 ")" 56 98 170)))] (MatchField (mkSpan (mkPtok 38 "match" 56 100 171) (mkPtok 40 "," 58 7 182)) (mkMatchFieldDecl (mkSpan (mkPtok 38 "match" 56 100 171) (mkPtok 3 "}" 58 4 181)) (mkPtok 38 "match" 56 100 171) (mkPtok 42 "len" 56 106 172) (mkPtok 17 "as" 56 110 173) (mkPtok 42 "As" 57 0 175) (mkPtok 2 "{" 57 3 176) [(mkMatchPair (mkSpan (mkPtok 31 """// no comment""" 57 4 177) (mkPtok 40 "," 57 29 180)) (MKString (mkPtok 31 """// no comment""" 57 4 177)) (mkPtok 39 ":" 57 20 178) (mkPtok 42 "falsey" 57 22 179) (Some (mkPtok 40 "," 57 29 180)))] (mkPtok 3 "}" 58 4 181)) (mkPtok 40 "," 58 7 182)))] (mkPtok 3 "}" 58 9 183))); (DMeta (mkMetaDef (mkSpan (mkPtok 37 "MetaData" 58 11 184) (mkPtok 3 "}" 58 38 190)) (mkPtok 37 "MetaData" 58 11 184) (mkPtok 42 "leftPad" 58 20 185) (mkPtok 2 "{" 58 27 186) [(MIRef (mkRefMetaDecl (mkSpan (mkPtok 42 "x" 58 29 187) (mkPtok 40 "," 58 36 189)) (mkPtok 42 "x" 58 29 187) (mkPtok 42 "i8i8" 58 31 188) None (mkPtok 40 "," 58 36 189)))] (mkPtok 3 "}" 58 38 190)))])).
Eval vm_compute in ("<<<M233>>>" ++ check (runes_of_ascii "
packet len
    { }")).
Eval vm_compute in ("<<<M243>>>" ++ check (runes_of_ascii "packet Z9_
    { body MetaDataX , } MetaData asx  {
} //	t")).
Eval vm_compute in ("<<<M253>>>" ++ check (runes_of_ascii "
packet
    tag{repeat
    stringy {	repeat
i32 lengthOf
, // trailing space 
string msg_type // " ++ [27880; 37322]%N ++ runes_of_ascii "
@calculatedFrom( // " ++ [128512]%N ++ runes_of_ascii " emoji
""// no comment"" ) `" ++ [233]%N ++ runes_of_ascii "` ,
    zchar
    { x @calculatedFrom( """ ++ [28040; 24687]%N ++ runes_of_ascii """ )
    ,repeat u8x len , zchar[ 255 ] i8i8 , } ,
x @calculatedFrom( ""CRC32"")
`` ,} , packetx
//	t
//	t
u8x, @calculatedFrom( ""packet"" )
zchar[  007] body
@calculatedFrom( ""CRC32"" )
    , @lengthOf( x_y_z/// triple
) char[]
int
    `" ++ [28040; 24687; 31867; 22411]%N ++ runes_of_ascii "` , zchar[ 42 ]
Logon@calculatedFrom( ""// no comment""
    ) ,
    int8
f32a , }packet  As { @calculatedFrom(
""it's""
)  int64 msg_type	@calculatedFrom( ""a\""b"" )`it's`, i8i8 pack , tag {i64 _x ,match As as f32a { // trailing space 
007 : _x ,0123456789 : metadata
    , }
, }, @lengthOf( body )repeat
u8
f32a
    `` , char[] Pad `line1
line2` ,
    @lengthOf(msg_type)  string len , @lengthOf(	a1) @tag(00
) @rightPad('\x00' ) char[ 65535 ] Header ,// trailing space 
@calculatedFrom(
    // a // b
    ""1""
) @calculatedFrom(
""a\\""  )
    // @lengthOf(
    @lengthOf( body
//
// " ++ [27880; 37322]%N ++ runes_of_ascii "
)
    i8
x_y_z
, }
root packet a1 {
    }
    packet A{
}
    // " ++ [128512]%N ++ runes_of_ascii " emoji
    packet calculatedFrom {}")).
Eval vm_compute in ("<<<M263>>>" ++ check (runes_of_ascii "packet
Packet
    {
} packet repeatCount{@tag(	4294967296
    ) @lengthOf(A  ) @lengthOf( float ) rootA ,
@tag(0123456789  )
Header
    `// not a comment`,  matchKey
    f32a
    , Pad, repeat float32	uint8x
    `" ++ [233]%N ++ runes_of_ascii "` ,@leftPad
    ('\x00' )	repeat
    char[3]
tag `
`, repeat
pack {
repeat x { repeat f64 len ,
    i64_ len, }
    ,
repeatCount
    // `tick` ""quote"" 'q'
    @lengthOf(uint8x
    ) , match	zchar  as a1 {
// a // b
// packet A { u8 x, }
3: u ,
},// packet A { u8 x, }
repeat rootA
{ options1 {
repeat body u8x `crlf
line`	, match Z9_ as
    f32a{007
:repeatCount ,
    ""packet""
: calculatedFrom
    ,
    // " ++ [128512]%N ++ runes_of_ascii " emoji
    10 // `tick` ""quote"" 'q'
: /// triple
calculatedFrom
    ,
""CRC32""  :	_x , [	""x y""	] : i64_ , ""packet""
// `tick` ""quote"" 'q'
// a // b
:// `tick` ""quote"" 'q'
MetaDataX
    ,  }
// a // b
// " ++ [27880; 37322]%N ++ runes_of_ascii "
, } ,
    //x
    } , } ,  } MetaData// @lengthOf(
asx {	u trueish ,chars // c
f32a `// not a comment`	, float64 u128 , string_ string_ `
` , }packet crc
{ }")).
Eval vm_compute in ("<<<M273>>>" ++ check (runes_of_ascii "packet
float { f64 float `u8 x,` ,
// " ++ [27880; 37322]%N ++ runes_of_ascii "
//	t
@tag(
1 )len tag `crlf
line`
, } root packet u	{ o x `it's` , @rightPad
    ( ) repeat zchar[
00]	Foo ,
    // trailing space 
    }root
packet// `tick` ""quote"" 'q'
string_{}

")).
Eval vm_compute in ("<<<M283>>>" ++ check (runes_of_ascii "root packet repeatCount
{ @lengthOf( Foo  ) @tag( 4294967296 )
repeat f32	u8x
    , }
// c
")).
Eval vm_compute in ("<<<M293>>>" ++ check (runes_of_ascii "
packet body {match u as f32a {  ""// no comment""	:
    float ,}	,
    // trailing space 
    float32 int ,
    char[]tag `u8 x,`
    // packet A { u8 x, }
    , @lengthOf( body ) repeat // " ++ [27880; 37322]%N ++ runes_of_ascii "
i64_ crc
,@leftPad ('0' ) float64 zchar
    , // packet A { u8 x, }
@lengthOf( A)
@leftPad  ( ) @lengthOf( int
)
    //
    crc	@calculatedFrom( ""1"") ,
    }  root packet
    body{
    /// triple
    @lengthOf( T
    ) repeat
u128 `line1
line2` ,
string // `tick` ""quote"" 'q'
BodyLength , @calculatedFrom( ""x y"" ) char[] zchar @calculatedFrom(
    ""a\""b"")	`" ++ [28040; 24687; 31867; 22411]%N ++ runes_of_ascii "` //x
, falsey//	t
trueish	, /// triple
@rightPad // @lengthOf(
( '\x00'  )	@lengthOf( As) @tag( 4294967296  )repeat char[] uint8x , packetx,
    @tag(
7 )
    //
    i64 roots
// `tick` ""quote"" 'q'
// " ++ [27880; 37322]%N ++ runes_of_ascii "
@calculatedFrom( """ ++ [233]%N ++ runes_of_ascii "t" ++ [233]%N ++ runes_of_ascii """
)  `// not a comment`
    , @calculatedFrom( ""x y"" )
    /// triple
    f64 float@lengthOf(
    Packet // " ++ [27880; 37322]%N ++ runes_of_ascii "
), @tag(  4294967296 ) u32
lengthOf@calculatedFrom(""\" ++ [233]%N ++ runes_of_ascii """)// c
, @tag(	10 ) Foo ,
}	packet leftPad { } options {i8i8 =zchar[ 7 ]}")).
Eval vm_compute in ("<<<T293>>>" ++ terms [mkTok 35 "packet" 2 0 false; mkTok 42 "body" 2 7 false; mkTok 2 "{" 2 12 false; mkTok 38 "match" 2 13 false; mkTok 42 "u" 2 19 false; mkTok 17 "as" 2 21 false; mkTok 42 "f32a" 2 24 false; mkTok 2 "{" 2 29 false; mkTok 31 """// no comment""" 2 32 false; mkTok 39 ":" 2 48 false; mkTok 42 "float" 3 4 false; mkTok 40 "," 3 10 false; mkTok 3 "}" 3 11 false; mkTok 40 "," 3 13 false; mkTok 44 "// trailing space " 4 4 true; mkTok 28 "float32" 5 4 false; mkTok 42 "int" 5 12 false; mkTok 40 "," 5 16 false; mkTok 16 "char[]" 6 4 false; mkTok 42 "tag" 6 10 false; mkTok 43 "`u8 x,`" 6 14 false; mkTok 44 "// packet A { u8 x, }" 7 4 true; mkTok 40 "," 8 4 false; mkTok 7 "@lengthOf(" 8 6 false; mkTok 42 "body" 8 17 false; mkTok 6 ")" 8 22 false; mkTok 36 "repeat" 8 24 false; mkTok 44 (string_of_bytes [47; 47; 32; 230; 179; 168; 233; 135; 138]%N) 8 31 true; mkTok 42 "i64_" 9 0 false; mkTok 42 "crc" 9 5 false; mkTok 40 "," 10 0 false; mkTok 32 "@leftPad" 10 1 false; mkTok 8 "(" 10 10 false; mkTok 33 "'0'" 10 11 false; mkTok 6 ")" 10 15 false; mkTok 29 "float64" 10 17 false; mkTok 42 "zchar" 10 25 false; mkTok 40 "," 11 4 false; mkTok 44 "// packet A { u8 x, }" 11 6 true; mkTok 7 "@lengthOf(" 12 0 false; mkTok 42 "A" 12 11 false; mkTok 6 ")" 12 12 false; mkTok 32 "@leftPad" 13 0 false; mkTok 8 "(" 13 10 false; mkTok 6 ")" 13 12 false; mkTok 7 "@lengthOf(" 13 14 false; mkTok 42 "int" 13 25 false; mkTok 6 ")" 14 0 false; mkTok 44 "//" 15 4 true; mkTok 42 "crc" 16 4 false; mkTok 5 "@calculatedFrom(" 16 8 false; mkTok 31 """1""" 16 25 false; mkTok 6 ")" 16 28 false; mkTok 40 "," 16 30 false; mkTok 3 "}" 17 4 false; mkTok 34 "root" 17 7 false; mkTok 35 "packet" 17 12 false; mkTok 42 "body" 18 4 false; mkTok 2 "{" 18 8 false; mkTok 44 "/// triple" 19 4 true; mkTok 7 "@lengthOf(" 20 4 false; mkTok 42 "T" 20 15 false; mkTok 6 ")" 21 4 false; mkTok 36 "repeat" 21 6 false; mkTok 42 "u128" 22 0 false; mkTok 43 (string_of_bytes [96; 108; 105; 110; 101; 49; 10; 108; 105; 110; 101; 50; 96]%N) 22 5 false; mkTok 40 "," 23 7 false; mkTok 15 "string" 24 0 false; mkTok 44 "// `tick` ""quote"" 'q'" 24 7 true; mkTok 42 "BodyLength" 25 0 false; mkTok 40 "," 25 11 false; mkTok 5 "@calculatedFrom(" 25 13 false; mkTok 31 """x y""" 25 30 false; mkTok 6 ")" 25 36 false; mkTok 16 "char[]" 25 38 false; mkTok 42 "zchar" 25 45 false; mkTok 5 "@calculatedFrom(" 25 51 false; mkTok 31 """a\""b""" 26 4 false; mkTok 6 ")" 26 10 false; mkTok 43 (string_of_bytes [96; 230; 182; 136; 230; 129; 175; 231; 177; 187; 229; 158; 139; 96]%N) 26 12 false; mkTok 44 "//x" 26 19 true; mkTok 40 "," 27 0 false; mkTok 42 "falsey" 27 2 false; mkTok 44 (string_of_bytes [47; 47; 9; 116]%N) 27 8 true; mkTok 42 "trueish" 28 0 false; mkTok 40 "," 28 8 false; mkTok 44 "/// triple" 28 10 true; mkTok 32 "@rightPad" 29 0 false; mkTok 44 "// @lengthOf(" 29 10 true; mkTok 8 "(" 30 0 false; mkTok 33 "'\x00'" 30 2 false; mkTok 6 ")" 30 10 false; mkTok 7 "@lengthOf(" 30 12 false; mkTok 42 "As" 30 23 false; mkTok 6 ")" 30 25 false; mkTok 9 "@tag(" 30 27 false; mkTok 30 "4294967296" 30 33 false; mkTok 6 ")" 30 45 false; mkTok 36 "repeat" 30 46 false; mkTok 16 "char[]" 30 53 false; mkTok 42 "uint8x" 30 60 false; mkTok 40 "," 30 67 false; mkTok 42 "packetx" 30 69 false; mkTok 40 "," 30 76 false; mkTok 9 "@tag(" 31 4 false; mkTok 30 "7" 32 0 false; mkTok 6 ")" 32 2 false; mkTok 44 "//" 33 4 true; mkTok 27 "i64" 34 4 false; mkTok 42 "roots" 34 8 false; mkTok 44 "// `tick` ""quote"" 'q'" 35 0 true; mkTok 44 (string_of_bytes [47; 47; 32; 230; 179; 168; 233; 135; 138]%N) 36 0 true; mkTok 5 "@calculatedFrom(" 37 0 false; mkTok 31 (string_of_bytes [34; 195; 169; 116; 195; 169; 34]%N) 37 17 false; mkTok 6 ")" 38 0 false; mkTok 43 "`// not a comment`" 38 3 false; mkTok 40 "," 39 4 false; mkTok 5 "@calculatedFrom(" 39 6 false; mkTok 31 """x y""" 39 23 false; mkTok 6 ")" 39 29 false; mkTok 44 "/// triple" 40 4 true; mkTok 29 "f64" 41 4 false; mkTok 42 "float" 41 8 false; mkTok 7 "@lengthOf(" 41 13 false; mkTok 42 "Packet" 42 4 false; mkTok 44 (string_of_bytes [47; 47; 32; 230; 179; 168; 233; 135; 138]%N) 42 11 true; mkTok 6 ")" 43 0 false; mkTok 40 "," 43 1 false; mkTok 9 "@tag(" 43 3 false; mkTok 30 "4294967296" 43 10 false; mkTok 6 ")" 43 21 false; mkTok 22 "u32" 43 23 false; mkTok 42 "lengthOf" 44 0 false; mkTok 5 "@calculatedFrom(" 44 8 false; mkTok 31 (string_of_bytes [34; 92; 195; 169; 34]%N) 44 24 false; mkTok 6 ")" 44 28 false; mkTok 44 "// c" 44 29 true; mkTok 40 "," 45 0 false; mkTok 9 "@tag(" 45 2 false; mkTok 30 "10" 45 8 false; mkTok 6 ")" 45 11 false; mkTok 42 "Foo" 45 13 false; mkTok 40 "," 45 17 false; mkTok 3 "}" 46 0 false; mkTok 35 "packet" 46 2 false; mkTok 42 "leftPad" 46 9 false; mkTok 2 "{" 46 17 false; mkTok 3 "}" 46 19 false; mkTok 1 "options" 46 21 false; mkTok 2 "{" 46 29 false; mkTok 42 "i8i8" 46 30 false; mkTok 4 "=" 46 35 false; mkTok 14 "zchar[" 46 36 false; mkTok 30 "7" 46 43 false; mkTok 13 "]" 46 45 false; mkTok 3 "}" 46 46 false; mkTok 0 "<EOF>" 46 47 false] (mkPacket (mkPtok 35 "packet" 2 0 0) (Some (mkPtok 3 "}" 46 46 155)) [(DPacket (mkPacketDef (mkSpan (mkPtok 35 "packet" 2 0 0) (mkPtok 3 "}" 17 4 54)) None (mkPtok 35 "packet" 2 0 0) (mkPtok 42 "body" 2 7 1) (mkPtok 2 "{" 2 12 2) [(mkFieldWithAttr (mkSpan (mkPtok 38 "match" 2 13 3) (mkPtok 40 "," 3 13 13)) [] (MatchField (mkSpan (mkPtok 38 "match" 2 13 3) (mkPtok 40 "," 3 13 13)) (mkMatchFieldDecl (mkSpan (mkPtok 38 "match" 2 13 3) (mkPtok 3 "}" 3 11 12)) (mkPtok 38 "match" 2 13 3) (mkPtok 42 "u" 2 19 4) (mkPtok 17 "as" 2 21 5) (mkPtok 42 "f32a" 2 24 6) (mkPtok 2 "{" 2 29 7) [(mkMatchPair (mkSpan (mkPtok 31 """// no comment""" 2 32 8) (mkPtok 40 "," 3 10 11)) (MKString (mkPtok 31 """// no comment""" 2 32 8)) (mkPtok 39 ":" 2 48 9) (mkPtok 42 "float" 3 4 10) (Some (mkPtok 40 "," 3 10 11)))] (mkPtok 3 "}" 3 11 12)) (mkPtok 40 "," 3 13 13))); (mkFieldWithAttr (mkSpan (mkPtok 28 "float32" 5 4 15) (mkPtok 40 "," 5 16 17)) [] (MetaField (mkSpan (mkPtok 28 "float32" 5 4 15) (mkPtok 40 "," 5 16 17)) None (mkMetaDecl (mkSpan (mkPtok 28 "float32" 5 4 15) (mkPtok 40 "," 5 16 17)) (TyBasic (mkSpan (mkPtok 28 "float32" 5 4 15) (mkPtok 28 "float32" 5 4 15)) (mkBasicType (mkSpan (mkPtok 28 "float32" 5 4 15) (mkPtok 28 "float32" 5 4 15)) (mkPtok 28 "float32" 5 4 15))) (mkPtok 42 "int" 5 12 16) None (mkPtok 40 "," 5 16 17)))); (mkFieldWithAttr (mkSpan (mkPtok 16 "char[]" 6 4 18) (mkPtok 40 "," 8 4 22)) [] (MetaField (mkSpan (mkPtok 16 "char[]" 6 4 18) (mkPtok 40 "," 8 4 22)) None (mkMetaDecl (mkSpan (mkPtok 16 "char[]" 6 4 18) (mkPtok 40 "," 8 4 22)) (TyDynamic (mkSpan (mkPtok 16 "char[]" 6 4 18) (mkPtok 16 "char[]" 6 4 18)) (mkDynamicString (mkSpan (mkPtok 16 "char[]" 6 4 18) (mkPtok 16 "char[]" 6 4 18)) (mkPtok 16 "char[]" 6 4 18))) (mkPtok 42 "tag" 6 10 19) (Some (mkPtok 43 "`u8 x,`" 6 14 20)) (mkPtok 40 "," 8 4 22)))); (mkFieldWithAttr (mkSpan (mkPtok 7 "@lengthOf(" 8 6 23) (mkPtok 40 "," 10 0 30)) [(FALengthOf (mkSpan (mkPtok 7 "@lengthOf(" 8 6 23) (mkPtok 6 ")" 8 22 25)) (mkLengthOf (mkSpan (mkPtok 7 "@lengthOf(" 8 6 23) (mkPtok 6 ")" 8 22 25)) (mkPtok 7 "@lengthOf(" 8 6 23) (mkPtok 42 "body" 8 17 24) (mkPtok 6 ")" 8 22 25)))] (ObjectField (mkSpan (mkPtok 36 "repeat" 8 24 26) (mkPtok 40 "," 10 0 30)) (Some (mkPtok 36 "repeat" 8 24 26)) (mkPtok 42 "i64_" 9 0 28) (Some (mkPtok 42 "crc" 9 5 29)) None (mkPtok 40 "," 10 0 30))); (mkFieldWithAttr (mkSpan (mkPtok 32 "@leftPad" 10 1 31) (mkPtok 40 "," 11 4 37)) [(FAPadding (mkSpan (mkPtok 32 "@leftPad" 10 1 31) (mkPtok 6 ")" 10 15 34)) (mkPaddingAttr (mkSpan (mkPtok 32 "@leftPad" 10 1 31) (mkPtok 6 ")" 10 15 34)) (mkPtok 32 "@leftPad" 10 1 31) (mkPtok 8 "(" 10 10 32) (Some (mkPtok 33 "'0'" 10 11 33)) (mkPtok 6 ")" 10 15 34)))] (MetaField (mkSpan (mkPtok 29 "float64" 10 17 35) (mkPtok 40 "," 11 4 37)) None (mkMetaDecl (mkSpan (mkPtok 29 "float64" 10 17 35) (mkPtok 40 "," 11 4 37)) (TyBasic (mkSpan (mkPtok 29 "float64" 10 17 35) (mkPtok 29 "float64" 10 17 35)) (mkBasicType (mkSpan (mkPtok 29 "float64" 10 17 35) (mkPtok 29 "float64" 10 17 35)) (mkPtok 29 "float64" 10 17 35))) (mkPtok 42 "zchar" 10 25 36) None (mkPtok 40 "," 11 4 37)))); (mkFieldWithAttr (mkSpan (mkPtok 7 "@lengthOf(" 12 0 39) (mkPtok 40 "," 16 30 53)) [(FALengthOf (mkSpan (mkPtok 7 "@lengthOf(" 12 0 39) (mkPtok 6 ")" 12 12 41)) (mkLengthOf (mkSpan (mkPtok 7 "@lengthOf(" 12 0 39) (mkPtok 6 ")" 12 12 41)) (mkPtok 7 "@lengthOf(" 12 0 39) (mkPtok 42 "A" 12 11 40) (mkPtok 6 ")" 12 12 41))); (FAPadding (mkSpan (mkPtok 32 "@leftPad" 13 0 42) (mkPtok 6 ")" 13 12 44)) (mkPaddingAttr (mkSpan (mkPtok 32 "@leftPad" 13 0 42) (mkPtok 6 ")" 13 12 44)) (mkPtok 32 "@leftPad" 13 0 42) (mkPtok 8 "(" 13 10 43) None (mkPtok 6 ")" 13 12 44))); (FALengthOf (mkSpan (mkPtok 7 "@lengthOf(" 13 14 45) (mkPtok 6 ")" 14 0 47)) (mkLengthOf (mkSpan (mkPtok 7 "@lengthOf(" 13 14 45) (mkPtok 6 ")" 14 0 47)) (mkPtok 7 "@lengthOf(" 13 14 45) (mkPtok 42 "int" 13 25 46) (mkPtok 6 ")" 14 0 47)))] (CheckSumField (mkSpan (mkPtok 42 "crc" 16 4 49) (mkPtok 40 "," 16 30 53)) (mkChecksumFieldDecl (mkSpan (mkPtok 42 "crc" 16 4 49) (mkPtok 40 "," 16 30 53)) None (mkPtok 42 "crc" 16 4 49) (mkCalculatedFrom (mkSpan (mkPtok 5 "@calculatedFrom(" 16 8 50) (mkPtok 6 ")" 16 28 52)) (mkPtok 5 "@calculatedFrom(" 16 8 50) (mkPtok 31 """1""" 16 25 51) (mkPtok 6 ")" 16 28 52)) None (mkPtok 40 "," 16 30 53))))] (mkPtok 3 "}" 17 4 54))); (DPacket (mkPacketDef (mkSpan (mkPtok 34 "root" 17 7 55) (mkPtok 3 "}" 46 0 143)) (Some (mkPtok 34 "root" 17 7 55)) (mkPtok 35 "packet" 17 12 56) (mkPtok 42 "body" 18 4 57) (mkPtok 2 "{" 18 8 58) [(mkFieldWithAttr (mkSpan (mkPtok 7 "@lengthOf(" 20 4 60) (mkPtok 40 "," 23 7 66)) [(FALengthOf (mkSpan (mkPtok 7 "@lengthOf(" 20 4 60) (mkPtok 6 ")" 21 4 62)) (mkLengthOf (mkSpan (mkPtok 7 "@lengthOf(" 20 4 60) (mkPtok 6 ")" 21 4 62)) (mkPtok 7 "@lengthOf(" 20 4 60) (mkPtok 42 "T" 20 15 61) (mkPtok 6 ")" 21 4 62)))] (ObjectField (mkSpan (mkPtok 36 "repeat" 21 6 63) (mkPtok 40 "," 23 7 66)) (Some (mkPtok 36 "repeat" 21 6 63)) (mkPtok 42 "u128" 22 0 64) None (Some (mkPtok 43 (string_of_bytes [96; 108; 105; 110; 101; 49; 10; 108; 105; 110; 101; 50; 96]%N) 22 5 65)) (mkPtok 40 "," 23 7 66))); (mkFieldWithAttr (mkSpan (mkPtok 15 "string" 24 0 67) (mkPtok 40 "," 25 11 70)) [] (MetaField (mkSpan (mkPtok 15 "string" 24 0 67) (mkPtok 40 "," 25 11 70)) None (mkMetaDecl (mkSpan (mkPtok 15 "string" 24 0 67) (mkPtok 40 "," 25 11 70)) (TyDynamic (mkSpan (mkPtok 15 "string" 24 0 67) (mkPtok 15 "string" 24 0 67)) (mkDynamicString (mkSpan (mkPtok 15 "string" 24 0 67) (mkPtok 15 "string" 24 0 67)) (mkPtok 15 "string" 24 0 67))) (mkPtok 42 "BodyLength" 25 0 69) None (mkPtok 40 "," 25 11 70)))); (mkFieldWithAttr (mkSpan (mkPtok 5 "@calculatedFrom(" 25 13 71) (mkPtok 40 "," 27 0 81)) [(FACalculatedFrom (mkSpan (mkPtok 5 "@calculatedFrom(" 25 13 71) (mkPtok 6 ")" 25 36 73)) (mkCalculatedFrom (mkSpan (mkPtok 5 "@calculatedFrom(" 25 13 71) (mkPtok 6 ")" 25 36 73)) (mkPtok 5 "@calculatedFrom(" 25 13 71) (mkPtok 31 """x y""" 25 30 72) (mkPtok 6 ")" 25 36 73)))] (CheckSumField (mkSpan (mkPtok 16 "char[]" 25 38 74) (mkPtok 40 "," 27 0 81)) (mkChecksumFieldDecl (mkSpan (mkPtok 16 "char[]" 25 38 74) (mkPtok 40 "," 27 0 81)) (Some (TyDynamic (mkSpan (mkPtok 16 "char[]" 25 38 74) (mkPtok 16 "char[]" 25 38 74)) (mkDynamicString (mkSpan (mkPtok 16 "char[]" 25 38 74) (mkPtok 16 "char[]" 25 38 74)) (mkPtok 16 "char[]" 25 38 74)))) (mkPtok 42 "zchar" 25 45 75) (mkCalculatedFrom (mkSpan (mkPtok 5 "@calculatedFrom(" 25 51 76) (mkPtok 6 ")" 26 10 78)) (mkPtok 5 "@calculatedFrom(" 25 51 76) (mkPtok 31 """a\""b""" 26 4 77) (mkPtok 6 ")" 26 10 78)) (Some (mkPtok 43 (string_of_bytes [96; 230; 182; 136; 230; 129; 175; 231; 177; 187; 229; 158; 139; 96]%N) 26 12 79)) (mkPtok 40 "," 27 0 81)))); (mkFieldWithAttr (mkSpan (mkPtok 42 "falsey" 27 2 82) (mkPtok 40 "," 28 8 85)) [] (ObjectField (mkSpan (mkPtok 42 "falsey" 27 2 82) (mkPtok 40 "," 28 8 85)) None (mkPtok 42 "falsey" 27 2 82) (Some (mkPtok 42 "trueish" 28 0 84)) None (mkPtok 40 "," 28 8 85))); (mkFieldWithAttr (mkSpan (mkPtok 32 "@rightPad" 29 0 87) (mkPtok 40 "," 30 67 101)) [(FAPadding (mkSpan (mkPtok 32 "@rightPad" 29 0 87) (mkPtok 6 ")" 30 10 91)) (mkPaddingAttr (mkSpan (mkPtok 32 "@rightPad" 29 0 87) (mkPtok 6 ")" 30 10 91)) (mkPtok 32 "@rightPad" 29 0 87) (mkPtok 8 "(" 30 0 89) (Some (mkPtok 33 "'\x00'" 30 2 90)) (mkPtok 6 ")" 30 10 91))); (FALengthOf (mkSpan (mkPtok 7 "@lengthOf(" 30 12 92) (mkPtok 6 ")" 30 25 94)) (mkLengthOf (mkSpan (mkPtok 7 "@lengthOf(" 30 12 92) (mkPtok 6 ")" 30 25 94)) (mkPtok 7 "@lengthOf(" 30 12 92) (mkPtok 42 "As" 30 23 93) (mkPtok 6 ")" 30 25 94))); (FATag (mkSpan (mkPtok 9 "@tag(" 30 27 95) (mkPtok 6 ")" 30 45 97)) (mkTagAttr (mkSpan (mkPtok 9 "@tag(" 30 27 95) (mkPtok 6 ")" 30 45 97)) (mkPtok 9 "@tag(" 30 27 95) (mkPtok 30 "4294967296" 30 33 96) (mkPtok 6 ")" 30 45 97)))] (MetaField (mkSpan (mkPtok 36 "repeat" 30 46 98) (mkPtok 40 "," 30 67 101)) (Some (mkPtok 36 "repeat" 30 46 98)) (mkMetaDecl (mkSpan (mkPtok 16 "char[]" 30 53 99) (mkPtok 40 "," 30 67 101)) (TyDynamic (mkSpan (mkPtok 16 "char[]" 30 53 99) (mkPtok 16 "char[]" 30 53 99)) (mkDynamicString (mkSpan (mkPtok 16 "char[]" 30 53 99) (mkPtok 16 "char[]" 30 53 99)) (mkPtok 16 "char[]" 30 53 99))) (mkPtok 42 "uint8x" 30 60 100) None (mkPtok 40 "," 30 67 101)))); (mkFieldWithAttr (mkSpan (mkPtok 42 "packetx" 30 69 102) (mkPtok 40 "," 30 76 103)) [] (ObjectField (mkSpan (mkPtok 42 "packetx" 30 69 102) (mkPtok 40 "," 30 76 103)) None (mkPtok 42 "packetx" 30 69 102) None None (mkPtok 40 "," 30 76 103))); (mkFieldWithAttr (mkSpan (mkPtok 9 "@tag(" 31 4 104) (mkPtok 40 "," 39 4 116)) [(FATag (mkSpan (mkPtok 9 "@tag(" 31 4 104) (mkPtok 6 ")" 32 2 106)) (mkTagAttr (mkSpan (mkPtok 9 "@tag(" 31 4 104) (mkPtok 6 ")" 32 2 106)) (mkPtok 9 "@tag(" 31 4 104) (mkPtok 30 "7" 32 0 105) (mkPtok 6 ")" 32 2 106)))] (CheckSumField (mkSpan (mkPtok 27 "i64" 34 4 108) (mkPtok 40 "," 39 4 116)) (mkChecksumFieldDecl (mkSpan (mkPtok 27 "i64" 34 4 108) (mkPtok 40 "," 39 4 116)) (Some (TyBasic (mkSpan (mkPtok 27 "i64" 34 4 108) (mkPtok 27 "i64" 34 4 108)) (mkBasicType (mkSpan (mkPtok 27 "i64" 34 4 108) (mkPtok 27 "i64" 34 4 108)) (mkPtok 27 "i64" 34 4 108)))) (mkPtok 42 "roots" 34 8 109) (mkCalculatedFrom (mkSpan (mkPtok 5 "@calculatedFrom(" 37 0 112) (mkPtok 6 ")" 38 0 114)) (mkPtok 5 "@calculatedFrom(" 37 0 112) (mkPtok 31 (string_of_bytes [34; 195; 169; 116; 195; 169; 34]%N) 37 17 113) (mkPtok 6 ")" 38 0 114)) (Some (mkPtok 43 "`// not a comment`" 38 3 115)) (mkPtok 40 "," 39 4 116)))); (mkFieldWithAttr (mkSpan (mkPtok 5 "@calculatedFrom(" 39 6 117) (mkPtok 40 "," 43 1 127)) [(FACalculatedFrom (mkSpan (mkPtok 5 "@calculatedFrom(" 39 6 117) (mkPtok 6 ")" 39 29 119)) (mkCalculatedFrom (mkSpan (mkPtok 5 "@calculatedFrom(" 39 6 117) (mkPtok 6 ")" 39 29 119)) (mkPtok 5 "@calculatedFrom(" 39 6 117) (mkPtok 31 """x y""" 39 23 118) (mkPtok 6 ")" 39 29 119)))] (LengthField (mkSpan (mkPtok 29 "f64" 41 4 121) (mkPtok 40 "," 43 1 127)) (mkLengthFieldDecl (mkSpan (mkPtok 29 "f64" 41 4 121) (mkPtok 40 "," 43 1 127)) (Some (TyBasic (mkSpan (mkPtok 29 "f64" 41 4 121) (mkPtok 29 "f64" 41 4 121)) (mkBasicType (mkSpan (mkPtok 29 "f64" 41 4 121) (mkPtok 29 "f64" 41 4 121)) (mkPtok 29 "f64" 41 4 121)))) (mkPtok 42 "float" 41 8 122) (mkLengthOf (mkSpan (mkPtok 7 "@lengthOf(" 41 13 123) (mkPtok 6 ")" 43 0 126)) (mkPtok 7 "@lengthOf(" 41 13 123) (mkPtok 42 "Packet" 42 4 124) (mkPtok 6 ")" 43 0 126)) None (mkPtok 40 "," 43 1 127)))); (mkFieldWithAttr (mkSpan (mkPtok 9 "@tag(" 43 3 128) (mkPtok 40 "," 45 0 137)) [(FATag (mkSpan (mkPtok 9 "@tag(" 43 3 128) (mkPtok 6 ")" 43 21 130)) (mkTagAttr (mkSpan (mkPtok 9 "@tag(" 43 3 128) (mkPtok 6 ")" 43 21 130)) (mkPtok 9 "@tag(" 43 3 128) (mkPtok 30 "4294967296" 43 10 129) (mkPtok 6 ")" 43 21 130)))] (CheckSumField (mkSpan (mkPtok 22 "u32" 43 23 131) (mkPtok 40 "," 45 0 137)) (mkChecksumFieldDecl (mkSpan (mkPtok 22 "u32" 43 23 131) (mkPtok 40 "," 45 0 137)) (Some (TyBasic (mkSpan (mkPtok 22 "u32" 43 23 131) (mkPtok 22 "u32" 43 23 131)) (mkBasicType (mkSpan (mkPtok 22 "u32" 43 23 131) (mkPtok 22 "u32" 43 23 131)) (mkPtok 22 "u32" 43 23 131)))) (mkPtok 42 "lengthOf" 44 0 132) (mkCalculatedFrom (mkSpan (mkPtok 5 "@calculatedFrom(" 44 8 133) (mkPtok 6 ")" 44 28 135)) (mkPtok 5 "@calculatedFrom(" 44 8 133) (mkPtok 31 (string_of_bytes [34; 92; 195; 169; 34]%N) 44 24 134) (mkPtok 6 ")" 44 28 135)) None (mkPtok 40 "," 45 0 137)))); (mkFieldWithAttr (mkSpan (mkPtok 9 "@tag(" 45 2 138) (mkPtok 40 "," 45 17 142)) [(FATag (mkSpan (mkPtok 9 "@tag(" 45 2 138) (mkPtok 6 ")" 45 11 140)) (mkTagAttr (mkSpan (mkPtok 9 "@tag(" 45 2 138) (mkPtok 6 ")" 45 11 140)) (mkPtok 9 "@tag(" 45 2 138) (mkPtok 30 "10" 45 8 139) (mkPtok 6 ")" 45 11 140)))] (ObjectField (mkSpan (mkPtok 42 "Foo" 45 13 141) (mkPtok 40 "," 45 17 142)) None (mkPtok 42 "Foo" 45 13 141) None None (mkPtok 40 "," 45 17 142)))] (mkPtok 3 "}" 46 0 143))); (DPacket (mkPacketDef (mkSpan (mkPtok 35 "packet" 46 2 144) (mkPtok 3 "}" 46 19 147)) None (mkPtok 35 "packet" 46 2 144) (mkPtok 42 "leftPad" 46 9 145) (mkPtok 2 "{" 46 17 146) [] (mkPtok 3 "}" 46 19 147))); (DOption (mkOptionDef (mkSpan (mkPtok 1 "options" 46 21 148) (mkPtok 3 "}" 46 46 155)) (mkPtok 1 "options" 46 21 148) (mkPtok 2 "{" 46 29 149) [(mkOptionDecl (mkSpan (mkPtok 42 "i8i8" 46 30 150) (mkPtok 13 "]" 46 45 154)) (mkPtok 42 "i8i8" 46 30 150) (mkPtok 4 "=" 46 35 151) (VType (mkSpan (mkPtok 14 "zchar[" 46 36 152) (mkPtok 13 "]" 46 45 154)) (TyFixed (mkSpan (mkPtok 14 "zchar[" 46 36 152) (mkPtok 13 "]" 46 45 154)) (mkFixedString (mkSpan (mkPtok 14 "zchar[" 46 36 152) (mkPtok 13 "]" 46 45 154)) (mkPtok 14 "zchar[" 46 36 152) (mkPtok 30 "7" 46 43 153) (mkPtok 13 "]" 46 45 154)))) None)] (mkPtok 3 "}" 46 46 155)))])).
Eval vm_compute in ("<<<M303>>>" ++ check (runes_of_ascii "options {
    StringPrefixLenType = u16;
    ArrayPrefixLenType = u16;
}

packet SampleBinary {
    uint16 MsgType `" ++ [28040; 24687; 31867; 22411]%N ++ runes_of_ascii "`,
    u16 BodyLenght @lengthOf(Body) `" ++ [28040; 24687; 20307; 38271; 24230]%N ++ runes_of_ascii "`,
    match MsgType as Body {
        1 : Logon,
        2 : Logout,
        3 : Heartbeat,
        4 : RiskControlRequest,
        5 : RiskControlResponse,
    },
    @calculatedFrom(""CRC32"")
    u32 Ckecksum `" ++ [26657; 39564; 21644]%N ++ runes_of_ascii "`,
}

packet Logon {
    @leftPad('0')
    char[10] UserName `" ++ [29992; 25143; 21517]%N ++ runes_of_ascii "`,
    string Password `" ++ [23494; 30721]%N ++ runes_of_ascii "`,
    uint64 ClientId `" ++ [23458; 25143; 31471]%N ++ runes_of_ascii "ID`,
    u16 HeartbeatInterval `" ++ [24515; 36339; 38388; 38548]%N ++ runes_of_ascii "`,
}

packet Logout {
    @rightPad('0')
    char[10] UserName `" ++ [29992; 25143; 21517]%N ++ runes_of_ascii "`,
    uint64 ClientId `" ++ [23458; 25143; 31471]%N ++ runes_of_ascii "ID`,
}

packet Heartbeat {
}

packet RiskControlRequest {
    string UniqueOrderId `" ++ [21807; 19968; 35746; 21333; 21495]%N ++ runes_of_ascii "`,
    char[16] ClOrdID `" ++ [23458; 25143; 35746; 21333; 21495]%N ++ runes_of_ascii "`,
    char[3] MarketID `" ++ [24066; 22330]%N ++ runes_of_ascii "id`,
    char[12] SecurityID `" ++ [35777; 21048; 20195; 30721]%N ++ runes_of_ascii "`,
    char Side `" ++ [20080; 21334; 26041; 21521]%N ++ runes_of_ascii "`,
    char OrderType `" ++ [35746; 21333; 31867; 22411]%N ++ runes_of_ascii "`,
    u64 Price `" ++ [20215; 26684]%N ++ runes_of_ascii "`,
    u32 Qty `" ++ [25968; 37327]%N ++ runes_of_ascii "`,
    repeat string ExtraInfo `" ++ [38468; 21152; 20449; 24687]%N ++ runes_of_ascii "`,
    repeat SubOrder {
        char[16] ClOrdID `" ++ [23376; 35746; 21333; 21495]%N ++ runes_of_ascii "`,
        u64 Price `" ++ [23376; 35746; 21333; 20215; 26684]%N ++ runes_of_ascii "`,
        u32 Qty `" ++ [23376; 35746; 21333; 25968; 37327]%N ++ runes_of_ascii "`,
    },
}

packet RiskControlResponse {
    string UniqueOrderId `" ++ [21807; 19968; 35746; 21333; 21495]%N ++ runes_of_ascii "`,
    i32 Status `" ++ [29366; 24577]%N ++ runes_of_ascii "`,
    string Msg `" ++ [32467; 26524; 20449; 24687]%N ++ runes_of_ascii "`,
    repeat Detail,
}

packet Detail {
    string RuleName `" ++ [35268; 21017; 21517; 31216]%N ++ runes_of_ascii "`,
    u16 Code `" ++ [21407; 22240; 20195; 30721]%N ++ runes_of_ascii "`,
}")).
Eval vm_compute in ("<<<M313>>>" ++ check (@nil rune)).
Eval vm_compute in ("<<<M323>>>" ++ check (runes_of_ascii "root packet")).
Eval vm_compute in ("<<<M333>>>" ++ check (runes_of_ascii "root packet asx {")).
Eval vm_compute in ("<<<M343>>>" ++ check (runes_of_ascii "root packet asx { @tag(007")).
Eval vm_compute in ("<<<M353>>>" ++ check (runes_of_ascii "root packet asx { @tag(007 ) // @lengthOf(
repeat")).
Eval vm_compute in ("<<<M363>>>" ++ check (runes_of_ascii "root packet asx { @tag(007 ) // @lengthOf(
repeat
    u64  leftPad")).
Eval vm_compute in ("<<<M373>>>" ++ check (runes_of_ascii "root packet asx { @tag(007 ) // @lengthOf(
repeat
    u64  leftPad , }")).
Eval vm_compute in ("<<<M383>>>" ++ check (runes_of_ascii "root packet asx { @tag(007 ) // @lengthOf(
repeat
    u64  leftPad , } packet
i64_")).
Eval vm_compute in ("<<<M393>>>" ++ check (runes_of_ascii "root packet asx { @tag(007 ) // @lengthOf(
repeat
    u64  leftPad , } packet
i64_{ // packet A { u8 x, }
@calculatedFrom(")).
Eval vm_compute in ("<<<M403>>>" ++ check (runes_of_ascii "root packet asx { @tag(007 ) // @lengthOf(
repeat
    u64  leftPad , } packet
i64_{ // packet A { u8 x, }
@calculatedFrom(
""a\""b"" )")).
Eval vm_compute in ("<<<M413>>>" ++ check (runes_of_ascii "root packet asx { @tag(007 ) // @lengthOf(
repeat
    u64  leftPad , } packet
i64_{ // packet A { u8 x, }
@calculatedFrom(
""a\""b"" )
    zchar[
    10")).
Eval vm_compute in ("<<<M423>>>" ++ check (runes_of_ascii "root packet asx { @tag(007 ) // @lengthOf(
repeat
    u64  leftPad , } packet
i64_{ // packet A { u8 x, }
@calculatedFrom(
""a\""b"" )
    zchar[
    10]
    chars")).
Eval vm_compute in ("<<<M433>>>" ++ check (runes_of_ascii "root packet asx { @tag(007 ) // @lengthOf(
repeat
    u64  leftPad , } packet
i64_{ // packet A { u8 x, }
@calculatedFrom(
""a\""b"" )
    zchar[
    10]
    chars,
    }")).
Eval vm_compute in ("<<<T433>>>" ++ terms [mkTok 34 "root" 1 0 false; mkTok 35 "packet" 1 5 false; mkTok 42 "asx" 1 12 false; mkTok 2 "{" 1 16 false; mkTok 9 "@tag(" 1 18 false; mkTok 30 "007" 1 23 false; mkTok 6 ")" 1 27 false; mkTok 44 "// @lengthOf(" 1 29 true; mkTok 36 "repeat" 2 0 false; mkTok 23 "u64" 3 4 false; mkTok 42 "leftPad" 3 9 false; mkTok 40 "," 3 17 false; mkTok 3 "}" 3 19 false; mkTok 35 "packet" 3 21 false; mkTok 42 "i64_" 4 0 false; mkTok 2 "{" 4 4 false; mkTok 44 "// packet A { u8 x, }" 4 6 true; mkTok 5 "@calculatedFrom(" 5 0 false; mkTok 31 """a\""b""" 6 0 false; mkTok 6 ")" 6 7 false; mkTok 14 "zchar[" 7 4 false; mkTok 30 "10" 8 4 false; mkTok 13 "]" 8 6 false; mkTok 42 "chars" 9 4 false; mkTok 40 "," 9 9 false; mkTok 3 "}" 10 4 false; mkTok 0 "<EOF>" 10 5 false] (mkPacket (mkPtok 34 "root" 1 0 0) (Some (mkPtok 3 "}" 10 4 25)) [(DPacket (mkPacketDef (mkSpan (mkPtok 34 "root" 1 0 0) (mkPtok 3 "}" 3 19 12)) (Some (mkPtok 34 "root" 1 0 0)) (mkPtok 35 "packet" 1 5 1) (mkPtok 42 "asx" 1 12 2) (mkPtok 2 "{" 1 16 3) [(mkFieldWithAttr (mkSpan (mkPtok 9 "@tag(" 1 18 4) (mkPtok 40 "," 3 17 11)) [(FATag (mkSpan (mkPtok 9 "@tag(" 1 18 4) (mkPtok 6 ")" 1 27 6)) (mkTagAttr (mkSpan (mkPtok 9 "@tag(" 1 18 4) (mkPtok 6 ")" 1 27 6)) (mkPtok 9 "@tag(" 1 18 4) (mkPtok 30 "007" 1 23 5) (mkPtok 6 ")" 1 27 6)))] (MetaField (mkSpan (mkPtok 36 "repeat" 2 0 8) (mkPtok 40 "," 3 17 11)) (Some (mkPtok 36 "repeat" 2 0 8)) (mkMetaDecl (mkSpan (mkPtok 23 "u64" 3 4 9) (mkPtok 40 "," 3 17 11)) (TyBasic (mkSpan (mkPtok 23 "u64" 3 4 9) (mkPtok 23 "u64" 3 4 9)) (mkBasicType (mkSpan (mkPtok 23 "u64" 3 4 9) (mkPtok 23 "u64" 3 4 9)) (mkPtok 23 "u64" 3 4 9))) (mkPtok 42 "leftPad" 3 9 10) None (mkPtok 40 "," 3 17 11))))] (mkPtok 3 "}" 3 19 12))); (DPacket (mkPacketDef (mkSpan (mkPtok 35 "packet" 3 21 13) (mkPtok 3 "}" 10 4 25)) None (mkPtok 35 "packet" 3 21 13) (mkPtok 42 "i64_" 4 0 14) (mkPtok 2 "{" 4 4 15) [(mkFieldWithAttr (mkSpan (mkPtok 5 "@calculatedFrom(" 5 0 17) (mkPtok 40 "," 9 9 24)) [(FACalculatedFrom (mkSpan (mkPtok 5 "@calculatedFrom(" 5 0 17) (mkPtok 6 ")" 6 7 19)) (mkCalculatedFrom (mkSpan (mkPtok 5 "@calculatedFrom(" 5 0 17) (mkPtok 6 ")" 6 7 19)) (mkPtok 5 "@calculatedFrom(" 5 0 17) (mkPtok 31 """a\""b""" 6 0 18) (mkPtok 6 ")" 6 7 19)))] (MetaField (mkSpan (mkPtok 14 "zchar[" 7 4 20) (mkPtok 40 "," 9 9 24)) None (mkMetaDecl (mkSpan (mkPtok 14 "zchar[" 7 4 20) (mkPtok 40 "," 9 9 24)) (TyFixed (mkSpan (mkPtok 14 "zchar[" 7 4 20) (mkPtok 13 "]" 8 6 22)) (mkFixedString (mkSpan (mkPtok 14 "zchar[" 7 4 20) (mkPtok 13 "]" 8 6 22)) (mkPtok 14 "zchar[" 7 4 20) (mkPtok 30 "10" 8 4 21) (mkPtok 13 "]" 8 6 22))) (mkPtok 42 "chars" 9 4 23) None (mkPtok 40 "," 9 9 24))))] (mkPtok 3 "}" 10 4 25)))])).
Eval vm_compute in ("<<<M443>>>" ++ check (runes_of_ascii "root packet asx { @tag(007 ) // @lengthOf(
repeat
    u64  leftPad , } packet
i64_{ // packet A { u8 x, }
@calculatedFrom(
""a\""b"" )
    zchar[
    10]
    chars,
    }
    MetaData A")).
Eval vm_compute in ("<<<M453>>>" ++ check (runes_of_ascii "root packet asx { @tag(007 ) // @lengthOf(
repeat
    u64  leftPad , } packet
i64_{ // packet A { u8 x, }
@calculatedFrom(
""a\""b"" )
    zchar[
    10]
    chars,
    }
    MetaData A { charz")).
Eval vm_compute in ("<<<M463>>>" ++ check (runes_of_ascii "root packet asx { @tag(007 ) // @lengthOf(
repeat
    u64  leftPad , } packet
i64_{ // packet A { u8 x, }
@calculatedFrom(
""a\""b"" )
    zchar[
    10]
    chars,
    }
    MetaData A { charz
uint8x
    // trailing space 
    ,")).
Eval vm_compute in ("<<<M473>>>" ++ check (runes_of_ascii "root packet asx { @tag(007 ) // @lengthOf(
repeat
    u64  leftPad , } packet
i64_{ // packet A { u8 x, }
@calculatedFrom(
""a\""b"" )
    zchar[
    10]
    chars,
    }
    MetaData A { charz
uint8x
    // trailing space 
    , len uint8x")).
Eval vm_compute in ("<<<M483>>>" ++ check (runes_of_ascii "root packet asx { @tag(007 ) // @lengthOf(
repeat
    u64  leftPad , } packet
i64_{ // packet A { u8 x, }
@calculatedFrom(
""a\""b"" )
    zchar[
    10]
    chars,
    }
    MetaData A { charz
uint8x
    // trailing space 
    , len uint8x , u8")).
Eval vm_compute in ("<<<M493>>>" ++ check (runes_of_ascii "root packet asx { @tag(007 ) // @lengthOf(
repeat
    u64  leftPad , } packet
i64_{ // packet A { u8 x, }
@calculatedFrom(
""a\""b"" )
    zchar[
    10]
    chars,
    }
    MetaData A { charz
uint8x
    // trailing space 
    , len uint8x , u8
    charz,")).
Eval vm_compute in ("<<<M503>>>" ++ check (runes_of_ascii "root packet asx { @tag(007 ) // @lengthOf(
repeat
    u64  leftPad , } packet
i64_{ // packet A { u8 x, }
@calculatedFrom(
""a\""b"" )
    zchar[
    10]
    chars,
    }
    MetaData A { charz
uint8x
    // trailing space 
    , len uint8x , u8
    charz,	string_ msg_type")).
Eval vm_compute in ("<<<M513>>>" ++ check (runes_of_ascii "root packet asx { @tag(007 ) // @lengthOf(
repeat
    u64  leftPad , } packet
i64_{ // packet A { u8 x, }
@calculatedFrom(
""a\""b"" )
    zchar[
    10]
    chars,
    }
    MetaData A { charz
uint8x
    // trailing space 
    , len uint8x , u8
    charz@tag,	string_ msg_type ,}
")).
Eval vm_compute in ("<<<M523>>>" ++ check (runes_of_ascii "root packet asx { @tag(007 ) // @lengthOf(
repeat
    u64  leftPad , } packet
i64_{ // packet A { u8 x, }
'@calculatedFrom(
""a\""b"" )
    zchar[
    10]
    chars,
    }
    MetaData A { charz
uint8x
    // trailing space 
    , len uint8x , u8
    charz,	string_ msg_type ,}
")).
Eval vm_compute in ("<<<M533>>>" ++ check (runes_of_ascii "MetaData asx
{ zchar[ 7
] roots
,leftPad")).
Eval vm_compute in ("<<<M543>>>" ++ check (runes_of_ascii "MetaData asx
{ zchar[ 7
] roots
,leftPad
Foo
    `" ++ [233]%N ++ runes_of_ascii "`")).
Eval vm_compute in ("<<<M553>>>" ++ check (runes_of_ascii "MetaData asx
{")).
Eval vm_compute in ("<<<M563>>>" ++ check (@nil rune)).
Eval vm_compute in ("<<<M573>>>" ++ check (runes_of_ascii "


")).
Eval vm_compute in ("<<<M583>>>" ++ check (runes_of_ascii "MetaData : ) : u32 ] ] = char true `" ++ [28040; 24687; 31867; 22411]%N ++ runes_of_ascii "` @rightPad @tag( float64")).
Eval vm_compute in ("<<<M593>>>" ++ check ([65533; 6; 65533]%N ++ runes_of_ascii "7" ++ [65533; 65533]%N ++ runes_of_ascii "x" ++ [65533]%N ++ runes_of_ascii "." ++ [11]%N ++ runes_of_ascii "Z" ++ [65533; 65533; 65533]%N ++ runes_of_ascii "
" ++ [65533; 65533; 65533]%N ++ runes_of_ascii "z>z)" ++ [14]%N ++ runes_of_ascii "a" ++ [65533; 65533]%N ++ runes_of_ascii "g")).
