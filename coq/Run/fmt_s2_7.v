From FP Require Import Lexer Parser ShowPT Digest Formatter.
From Coq Require Import String List NArith.
Import ListNotations.
Open Scope string_scope.
Set Printing Width 100000000.
Set Printing Depth 100000000.
Definition show_fres (r : fres) : string :=
  match r with
  | FOk s => "OK:" ++ sh_escaped s ""
  | FErr s => "ERR:" ++ sh_escaped s ""
  | FPanic p => "PANIC:" ++ p
  end.
Definition check (rs : list rune) : string := digest (show_fres (format_res rs)).
Definition full (rs : list rune) : string := show_fres (format_res rs).
Eval vm_compute in ("<<<M4010>>>" ++ check (runes_of_ascii "
packet
    float 
{ repeat
    matchKey 
, char[] 	 // " ++ [128512]%N ++ runes_of_ascii " emoji
	repeatCount

    `{ , }`,

    char[ 
00
	]

a1
    ,
    char[]

roots
	`" ++ [28040; 24687; 31867; 22411]%N ++ runes_of_ascii "` , @rightPad	( '0' ) repeatCount ,match
MetaDataX
    as  tag
    { 
""`tick`"": tag

    ,
[ ""it's"",
42
	]:	asx 
    // packet A { u8 x, }
  , ""a	b""  :

    As  65535 :	calculatedFrom
007 :
stringy ,

007
: Packet// " ++ [128512]%N ++ runes_of_ascii " emoji
    ,	}  ,char[ // " ++ [27880; 37322]%N ++ runes_of_ascii "
		0	]  //	t
i8i8 
`a\`
,
	}
root  packet

chars
    {
@calculatedFrom( 
""packet""	)	// " ++ [27880; 37322]%N ++ runes_of_ascii "

i64_ string_ , match
Pad // " ++ [128512]%N ++ runes_of_ascii " emoji
as
MetaDataX
    {
0123456789 : 
repeatCount ,
    [
	""" ++ [128512]%N ++ runes_of_ascii """
    ]
: a1
,

[ 
""" ++ [233]%N ++ runes_of_ascii "t" ++ [233]%N ++ runes_of_ascii """
    , 
7	, //	t
""x y""
	,  00 ] :
//
// a // b

	int
,}
    ,
repeat
Foo
	`say ""hi""`

,
    @lengthOf(

As 
)u32 
leftPad
@lengthOf(  zchar
    ) 	 // a // b
	,
	    // " ++ [128512]%N ++ runes_of_ascii " emoji
	}	// c
  packet 
u128 {	@calculatedFrom(""`tick`""  
      // packet A { u8 x, }
	  )float	Z9_``

,
	string packetx
	, 
	// @lengthOf(
// packet A { u8 x, }
	@leftPad  ( '\x00'

)
uint8
    metadata,

    @leftPad () uint32
    a1

    `two words`,

@tag(0123456789
	// packet A { u8 x, }
  	// packet A { u8 x, }
  )

repeat zchar[
42	]
	pack
`two words`
	,
repeat stringy`line1
line2`
    , uint8x
	`" ++ [233]%N ++ runes_of_ascii "`,

    falsey`say ""hi""` ,}
packet

    a1 {

    uint16

    float ,
    @lengthOf( string_
    ) char[

0123456789] BodyLength

    @lengthOf(
	charz/// triple
    )
	    // `tick` ""quote"" 'q'

	`say ""hi""`,	@rightPad
	(
    '\x00' )Z9_
    @lengthOf(

zchar  ),
    calculatedFrom@lengthOf( 
pack  )
	`tab	here`,
@lengthOf(

    MetaDataX )
	@calculatedFrom( 
""abc""
)	@calculatedFrom(

    ""a\\""
)
match	falsey	//
as
body{ 	 // " ++ [27880; 37322]%N ++ runes_of_ascii "
	""a\""b"":  o  //x
, 255
:
    uint8x ,	[ // `tick` ""quote"" 'q'
65535]
: 
BodyLength} , 	 /// triple
	  char[] x_y_z
    , // trailing space 

@tag(
    // trailing space 
      /// triple
      0  ) int16
    x

`crlf
line`,

    match	Foo

as 
zchar
	{
    """ ++ [233]%N ++ runes_of_ascii "t" ++ [233]%N ++ runes_of_ascii """	:
    u128, }

    ,
	@lengthOf(x_y_z )
As

    @calculatedFrom(
	""packet"" 
) , repeat

Header { string_ 
`{ , }`, match chars
as uint8x	{""it's""

:	lengthOf

    ,  [

""\n""
, 3
,""CRC32"",	// a // b
		10  
  // " ++ [27880; 37322]%N ++ runes_of_ascii "
    , 
""" ++ [28040; 24687]%N ++ runes_of_ascii """]: falsey }

, repeat
    char[]	o

`
`
	,  i32	len
	@calculatedFrom(

    """ ++ [233]%N ++ runes_of_ascii "t" ++ [233]%N ++ runes_of_ascii """
)  `" ++ [28040; 24687; 31867; 22411]%N ++ runes_of_ascii "` ,	}	// trailing space 
  	, 	 // " ++ [27880; 37322]%N ++ runes_of_ascii "
    }

")).
Eval vm_compute in ("<<<M1057>>>" ++ check (runes_of_ascii "packet Foo
{ @lengthOf(chars ) @leftPad (
    //x
    ) repeat
    metadata
// @lengthOf(
// c
{
// packet A { u8 x, }
// " ++ [128512]%N ++ runes_of_ascii " emoji
_x,u body , match A as Logon { [ ""\" ++ [233]%N ++ runes_of_ascii """ ,10 ,	7 , """" , 0
//
// @lengthOf(
]
    // packet A { u8 x, }
    :	stringy, """ ++ [128512]%N ++ runes_of_ascii """
    // `tick` ""quote"" 'q'
    : msg_type ,} , uint16
    asx
@calculatedFrom(
    """ ++ [233]%N ++ runes_of_ascii "t" ++ [233]%N ++ runes_of_ascii """	)
, } , @lengthOf(
metadata
    ) match
matchKey
as o
//x
// `tick` ""quote"" 'q'
{[ 65535
,	255 ]: rootA,
} , @lengthOf(
    Z9_ )
match Header as
o{ 4294967296 : pack , 65535 : MetaDataX
,  ""CRC32"" : leftPad ,
[ ""{,}""] :	calculatedFrom
    , //x
""" ++ [28040; 24687]%N ++ runes_of_ascii """ // packet A { u8 x, }
: o ""a\\"" :u
    ,
    }
, @tag( 42 ) @lengthOf( options1	) @lengthOf( o) // c
match  options1 // `tick` ""quote"" 'q'
as uint8x{ [
//x
// " ++ [27880; 37322]%N ++ runes_of_ascii "
1 , ""CRC32""	, ""a\\""
,
//x
// c
1
, ""// no comment"" , 007  ]
// a // b
// `tick` ""quote"" 'q'
:
int 0	: repeatCount ,0123456789  :f32a
[
//x
// @lengthOf(
255, ""\" ++ [233]%N ++ runes_of_ascii """ ,
""a\\"" ]
:asx
,1 : Header
    // trailing space 
    , } , match	tag as _x // a // b
{00
    : lengthOf ,// " ++ [27880; 37322]%N ++ runes_of_ascii "
}  , repeat char[] i64_
,match
    // " ++ [27880; 37322]%N ++ runes_of_ascii "
    msg_type as Pad // c
{// a // b
""// no comment""
:asx ,	[
""" ++ [28040; 24687]%N ++ runes_of_ascii """
    ,
""\" ++ [233]%N ++ runes_of_ascii """ ] // c
:x
    ,
0:
u , /// triple
10
:
Foo
, } ,
// trailing space 
/// triple
@rightPad
    ( )
    //	t
    u8x
    ,@leftPad (	'\x00')
u64
crc @calculatedFrom( ""`tick`""
)
`
` , @lengthOf( rootA ) zchar[ 00 ]	roots
, }MetaData
MetaDataX
{} packet
    len // " ++ [27880; 37322]%N ++ runes_of_ascii "
{  repeat Z9_//x
{ i8
    //
    i8i8,
    }, match repeatCount
as
// trailing space 
// " ++ [27880; 37322]%N ++ runes_of_ascii "
asx
{ ""{,}""
: tag , 65535 // trailing space 
: Foo	, 7 : f32a , [
    """ ++ [28040; 24687]%N ++ runes_of_ascii """ , 0 ]
    ://	t
T	,
    [ 00 , """ ++ [128512]%N ++ runes_of_ascii """
    // " ++ [27880; 37322]%N ++ runes_of_ascii "
    ]
: x_y_z 0123456789 : MetaDataX, }
    , char[
    007
]
x `" ++ [233]%N ++ runes_of_ascii "`
//	t
// " ++ [27880; 37322]%N ++ runes_of_ascii "
,@leftPad ( )
i16 Logon@lengthOf( MetaDataX ) ,
} packet u8x {
}
")).
Eval vm_compute in ("<<<M226>>>" ++ check (runes_of_ascii "root packet Foo { @tag(00	)
char[] _x
@calculatedFrom(
    // trailing space 
    ""{,}"" ) ,@rightPad	( '0' )f32 Pad@calculatedFrom( ""abc""
// @lengthOf(
// " ++ [27880; 37322]%N ++ runes_of_ascii "
)
, @rightPad
    ( '0' )  repeat falsey string_
// @lengthOf(
// " ++ [128512]%N ++ runes_of_ascii " emoji
`{ , }` , @calculatedFrom( ""abc"" )//
@tag(
00 ) rootA@calculatedFrom( ""it's"" ), BodyLength/// triple
lengthOf `doc` , Z9_{ f64 Z9_ ,T
charz
    `" ++ [233]%N ++ runes_of_ascii "`
, x {
tag crc,
    repeat uint32	chars
, zchar[ 0123456789 ]roots ,
int64 charz@calculatedFrom(
    ""it's"" ) `" ++ [28040; 24687; 31867; 22411]%N ++ runes_of_ascii "` ,} , i8 msg_type//	t
@lengthOf( options1 )
,
    } ,
    repeat MetaDataX { matchKey i64_ , string tag @lengthOf(
    msg_type )// trailing space 
, tag { string f32a
,// " ++ [27880; 37322]%N ++ runes_of_ascii "
match crc as u128
{	4294967296  :
    Z9_ ,""" ++ [28040; 24687]%N ++ runes_of_ascii """ : a1 ,//	t
65535 : T , [ ""CRC32"" ,
1
, ""packet"" ]
: x_y_z , } ,	string matchKey @calculatedFrom(""" ++ [28040; 24687]%N ++ runes_of_ascii """ ) `two words`	, } , char[ 65535 // trailing space 
] Header@calculatedFrom( ""CRC32"" ) `// not a comment` ,
} ,match
Foo as metadata	{
[""1"" ,
//	t
// " ++ [27880; 37322]%N ++ runes_of_ascii "
""""
] :  metadata	[ 0123456789  ] : tag ,
""1"" :  T
//	t
// a // b
4294967296
    :x , // packet A { u8 x, }
0 :
trueish ,	""{,}"" :  metadata , // a // b
}, zchar[255
]
    u128
@lengthOf(float ) ,// trailing space 
} packet a1
{ @rightPad ( ' ' ) @tag( 7//x
)@tag( 10 )
//	t
// trailing space 
Header { Packet @lengthOf( lengthOf ) , string
options1
,
match zchar as pack
{ """" :o , """ ++ [28040; 24687]%N ++ runes_of_ascii """ :	leftPad  , """ ++ [28040; 24687]%N ++ runes_of_ascii """ :
crc } ,	Z9_
//x
// trailing space 
{
    //
    len//	t
int ,  } ,
    },}
")).
Eval vm_compute in ("<<<M995>>>" ++ check (runes_of_ascii "// " ++ [128512]%N ++ runes_of_ascii " emoji
packet options1 {
match
    MetaDataX  as
matchKey
{ 4294967296:  i8i8 ,  7	: // a // b
Header ,
    // trailing space 
    } ,
    crc Pad `doc`, @leftPad
/// triple
//
( ) repeat o f32a `u8 x,` , @lengthOf( calculatedFrom
    ) repeat int32 body
,// trailing space 
@tag(0123456789)
@tag( 42 ) @calculatedFrom( ""\n"" ) Foo { A	,//x
} , @tag(
    3 )@tag(3	)char	Header
    `it's`
    // packet A { u8 x, }
    , repeat float { char[ 007
    // `tick` ""quote"" 'q'
    ] // " ++ [27880; 37322]%N ++ runes_of_ascii "
u8x `tab	here` ,	f32a
    { // packet A { u8 x, }
match As as MetaDataX {4294967296 :u
, 1
    // @lengthOf(
    :Pad ,
// " ++ [128512]%N ++ runes_of_ascii " emoji
//x
3 // " ++ [27880; 37322]%N ++ runes_of_ascii "
:  x_y_z,
""" ++ [28040; 24687]%N ++ runes_of_ascii """
    :
asx , 1
    // " ++ [27880; 37322]%N ++ runes_of_ascii "
    :matchKey
// `tick` ""quote"" 'q'
// packet A { u8 x, }
,  """"
:leftPad,
} // `tick` ""quote"" 'q'
,
repeat // `tick` ""quote"" 'q'
i16
float
    `u8 x,` ,
match
chars as
int {"""" : rootA , // c
""packet"":f32a
, [ ""a	b""  , 3
    ,4294967296 , """ ++ [28040; 24687]%N ++ runes_of_ascii """
    // " ++ [27880; 37322]%N ++ runes_of_ascii "
    ]: Packet
[
""a\""b"" ,""a	b"" , 0123456789
    , 255 , ""\n""
,
    ""a	b"" ,
00
, ""1""
    ]
: //
stringy 0123456789  : lengthOf ,10 :i64_
, }
    , matchKey{
// a // b
//	t
repeat int16 zchar `crlf
line`
    // " ++ [128512]%N ++ runes_of_ascii " emoji
    ,
    } ,
} ,
    } ,repeat Pad { float32
trueish`// not a comment` ,
    } , repeat char[
    0] i64_ `say ""hi""` , @tag(65535 )
    // c
    u128
, }")).
Eval vm_compute in ("<<<M463>>>" ++ check (runes_of_ascii "packet
options1
    { /// triple
string
falsey `doc`
,float //
BodyLength ,
    @tag( 65535	) Logon@calculatedFrom( ""a	b"" )
    ,	repeat matchKey _x `u8 x,`, // `tick` ""quote"" 'q'
repeat tag{
    repeat u8
trueish `a\`, char[]
    // a // b
    u8x
    @calculatedFrom( ""it's""), }
,match i64_ as BodyLength//x
{ """ ++ [28040; 24687]%N ++ runes_of_ascii """ :
    T	, [	""packet"" ] // " ++ [128512]%N ++ runes_of_ascii " emoji
: x_y_z ,
    ""a\""b"" :A  , 65535 : asx [//	t
""\n""
,0123456789 ,0  ,  0123456789 ]: charz //
[ ""{,}"" ,  ""a\\"" , // @lengthOf(
255	,
10,  1
    , ""\" ++ [233]%N ++ runes_of_ascii """	,10
]: metadata ,
} , repeat
    string x_y_z
,
//
/// triple
match i8i8
as len
    // @lengthOf(
    {
""\n""
    : u8x , 0123456789
: int ,10 // " ++ [128512]%N ++ runes_of_ascii " emoji
: roots
    , }
,  rootA , @tag(// " ++ [27880; 37322]%N ++ runes_of_ascii "
3)rootA @lengthOf(f32a  ) // c
,
    // trailing space 
    }
packet options1{ @calculatedFrom( """ ++ [128512]%N ++ runes_of_ascii """ ) i8i8 //
@lengthOf( Logon )
,
// @lengthOf(
// `tick` ""quote"" 'q'
float32
    chars`tab	here`
,	@leftPad
( '0' ) @tag(3 ) @calculatedFrom(
    """" // trailing space 
) matchKey @calculatedFrom(// packet A { u8 x, }
""" ++ [233]%N ++ runes_of_ascii "t" ++ [233]%N ++ runes_of_ascii """
    ) , repeat uint16	u  ``
, @rightPad( /// triple
) rootA ,@leftPad
(
    // a // b
    '0'
    )// @lengthOf(
_x
// trailing space 
//	t
Z9_	, char[	0123456789 ]
packetx
`crlf
line`	,}")).
Eval vm_compute in ("<<<M1344>>>" ++ check (runes_of_ascii "packet As { }
MetaData
    // " ++ [128512]%N ++ runes_of_ascii " emoji
    BodyLength { uint32
Z9_ `// not a comment` , }
    packet f32a
    //x
    { f64 T @lengthOf(	As	)`u8 x,` ,repeat
i16 i64_ `" ++ [28040; 24687; 31867; 22411]%N ++ runes_of_ascii "` , char[
007] falsey
@lengthOf(  Pad )	,
repeat
leftPad
{	u64 u8x
,
    char[]tag
    ,	}// " ++ [128512]%N ++ runes_of_ascii " emoji
, match As as len{ ""1"" :
x_y_z ,	255 :
    // c
    len , 007: charz,
    [ ""abc"" , 42, 10	, """ ++ [28040; 24687]%N ++ runes_of_ascii """ ,  ""it's""
    ,//	t
3
    ] : // " ++ [27880; 37322]%N ++ runes_of_ascii "
matchKey //	t
, // `tick` ""quote"" 'q'
} , // @lengthOf(
} packet
BodyLength { @calculatedFrom( ""// no comment""
)@lengthOf( Logon ) @tag( 42 )
//
// " ++ [128512]%N ++ runes_of_ascii " emoji
repeat rootA metadata
,@tag(	4294967296)  repeat matchKey // @lengthOf(
{ int8
    pack
,} ,
    @tag(
65535
) @rightPad ( ) //
@lengthOf( // " ++ [27880; 37322]%N ++ runes_of_ascii "
Pad
)uint8x `{ , }` ,  match  Foo
as As {10 :
    uint8x
    ,0
    : rootA // " ++ [128512]%N ++ runes_of_ascii " emoji
, 007 : matchKey , [
""x y"" ] :
    u8x,}, float64 i64_
@calculatedFrom( ""// no comment""// `tick` ""quote"" 'q'
) , match
    trueish as matchKey {
// trailing space 
// trailing space 
""" ++ [233]%N ++ runes_of_ascii "t" ++ [233]%N ++ runes_of_ascii """:// trailing space 
_x
    , } ,
chars @lengthOf( Packet) `crlf
line` ,
char[] x , } MetaData
falsey //
{ Z9_ options1
``
, } 	 ")).
Eval vm_compute in ("<<<M3714>>>" ++ check (runes_of_ascii "packet a1 {
    @rightPad(' ')
    repeat a1,
    //	t
    repeat float32 i8i8 `two words`,
    @lengthOf(A)
    float zchar,
    @rightPad('0')
    uint32 o `doc`,
    @calculatedFrom(""packet"")
    repeat asx `crlf
        line`,
    @tag(007)
    @calculatedFrom(""CRC32"")
    repeat uint64 A `line1
        line2`,
    @leftPad('\x00')
    // packet A { u8 x, }
    //x
    string stringy ``,
    @rightPad('\x00')
    @tag(255)
    body @lengthOf(Z9_),
    match x_y_z as falsey {
        ""\" ++ [233]%N ++ runes_of_ascii """ : options1,
    },
    Logon falsey `say ""hi""`,
}

packet Foo {
}

options {
    // @lengthOf(
    // `tick` ""quote"" 'q'
    f32a = ""a\""b"";
    float = '0';
    calculatedFrom = 65535;
    msg_type = '0';
    // trailing space 
    A = """"
}

root packet string_ {
    match float as u128 {
        [""\n""] : Packet,
    },
}

packet charz {
    lengthOf @calculatedFrom(""" ++ [28040; 24687]%N ++ runes_of_ascii """),
    @leftPad(' ')
    repeat chars `" ++ [28040; 24687; 31867; 22411]%N ++ runes_of_ascii "`,
    match leftPad as a1 {
        ""`tick`"" : string_,
        // c
        // c
        10 : string_,
        4294967296 : Foo,
    },
}")).
Eval vm_compute in ("<<<M650>>>" ++ check (runes_of_ascii "// `tick` ""quote"" 'q'
packet
Logon { @lengthOf( //
Logon)	repeat f64// " ++ [27880; 37322]%N ++ runes_of_ascii "
MetaDataX ,
char[ 0
]
    // `tick` ""quote"" 'q'
    options1
,
    // " ++ [27880; 37322]%N ++ runes_of_ascii "
    repeat Foo
    `a\`  , // `tick` ""quote"" 'q'
@lengthOf( Header) u16 u128//x
@calculatedFrom( // `tick` ""quote"" 'q'
""\" ++ [233]%N ++ runes_of_ascii """
) //	t
,
    @lengthOf(	len )Header // trailing space 
{MetaDataX @calculatedFrom( ""a\""b""),
i32 rootA @calculatedFrom(
""a\""b"" //
)	`" ++ [28040; 24687; 31867; 22411]%N ++ runes_of_ascii "`	,
match A as
packetx { [0123456789]	: rootA
    , } ,
    }
    ,  }
    options{
Foo
    =// c
""CRC32""/// triple
;} MetaData MetaDataX
    { }packet lengthOf {// packet A { u8 x, }
repeat char[  3
] Pad,@calculatedFrom(  """ ++ [28040; 24687]%N ++ runes_of_ascii """ ) int16 roots
@lengthOf(
Logon )
, MetaDataX
{ //x
char[]
asx@lengthOf( calculatedFrom//x
) // " ++ [128512]%N ++ runes_of_ascii " emoji
, string
    //
    A@lengthOf( /// triple
Logon ) ,
char[]pack,}
    /// triple
    ,
    repeat options1 u ,@tag( 1 )
    repeat // c
pack	trueish ,repeat string repeatCount
, @calculatedFrom( """ ++ [28040; 24687]%N ++ runes_of_ascii """)  f32 float
    @calculatedFrom(""{,}"" )  , }")).
Eval vm_compute in ("<<<M357>>>" ++ check (runes_of_ascii "MetaData msg_type{ string
charz , crc u8x  ,
    u16 x_y_z
    `u8 x,`
, i64	zchar
,
    }
    // @lengthOf(
    packet T
{
@calculatedFrom( ""a\\"" ) uint16 chars @calculatedFrom(
    ""x y"") `
` , } packet pack // a // b
{}
    options { }	packet trueish
{
    // trailing space 
    @calculatedFrom(//x
""abc""	) match chars as lengthOf  {  [ 4294967296
]
: a1[""CRC32"" ,/// triple
7	, ""1""
, 4294967296// c
,  ""a\\"" ,
    0, 65535 , ""{,}""
] :  a1 , }
// packet A { u8 x, }
// trailing space 
, string	lengthOf  `" ++ [28040; 24687; 31867; 22411]%N ++ runes_of_ascii "` ,
@lengthOf( // trailing space 
x ) match
charz as a1 { 255:// trailing space 
Logon,
    }, @calculatedFrom(
""a	b""// a // b
)  @tag(00
// " ++ [27880; 37322]%N ++ runes_of_ascii "
// `tick` ""quote"" 'q'
)	@lengthOf( zchar ) body @lengthOf(
    /// triple
    msg_type)
    , MetaDataX	@lengthOf( len ) /// triple
`a\`/// triple
, @rightPad
( '\x00' ) @lengthOf(
Packet
    ) string u128// `tick` ""quote"" 'q'
`u8 x,` // c
,
packetx @lengthOf(	o )
, }
// @lengthOf(
")).
Eval vm_compute in ("<<<M1084>>>" ++ check (runes_of_ascii "packet
lengthOf { crc @calculatedFrom(
"""" )  `two words` , @lengthOf(crc )
    // c
    @calculatedFrom( ""x y""
    ) u16 Logon
`line1
line2`
    ,
    } MetaData u128{ } packet
len {  match
    options1 as pack { 00
: BodyLength, }, @calculatedFrom( ""a	b""
) asx Z9_ `` , @rightPad	( ) u32 calculatedFrom @lengthOf( asx)`doc`
    , @calculatedFrom(
    """ ++ [28040; 24687]%N ++ runes_of_ascii """	)uint8x , repeat zchar[ // " ++ [128512]%N ++ runes_of_ascii " emoji
007 ]u128 ,
    stringy { repeat zchar[ 3 ] A
, repeat i64 o/// triple
`` ,
f32// @lengthOf(
packetx
    @calculatedFrom( ""\" ++ [233]%N ++ runes_of_ascii """ ) , packetx charz ,	}, match int as Z9_ { ""a\\"" :	crc
// " ++ [128512]%N ++ runes_of_ascii " emoji
// " ++ [128512]%N ++ runes_of_ascii " emoji
, """"
    /// triple
    : trueish , [00 , ""\" ++ [233]%N ++ runes_of_ascii """  , 4294967296 ] : Packet
,}
    ,
/// triple
// packet A { u8 x, }
u8
// packet A { u8 x, }
/// triple
msg_type
// @lengthOf(
//
@lengthOf(i64_ ) ,} root packet A{BodyLength @lengthOf( stringy ) ,
    rootA
As ,
repeat BodyLength options1	`a\` ,}")).
Eval vm_compute in ("<<<M1159>>>" ++ check (runes_of_ascii "root packet T
    {
@tag(0
// c
// `tick` ""quote"" 'q'
)
u64
int
// `tick` ""quote"" 'q'
//
, match rootA as BodyLength { ""it's"" : o , 10: int // a // b
, ""packet"" : string_, [""abc"" // `tick` ""quote"" 'q'
, 3
    ,
    0123456789 ,
    007 ,7 , //
3
    ,007
    ] : int,
    } , match i64_ as
// packet A { u8 x, }
// trailing space 
options1
    { 0123456789
: zchar , 00  :pack, } ,match
// c
// packet A { u8 x, }
zchar as
options1 {
    ""it's""
:matchKey  , ""1"" :// `tick` ""quote"" 'q'
u128
,  ""`tick`""  :
    trueish
    // packet A { u8 x, }
    255 // " ++ [27880; 37322]%N ++ runes_of_ascii "
:
crc
    , }  ,  } packet Z9_
// `tick` ""quote"" 'q'
// packet A { u8 x, }
{ BodyLength@calculatedFrom(
// " ++ [27880; 37322]%N ++ runes_of_ascii "
// " ++ [27880; 37322]%N ++ runes_of_ascii "
""x y"" ) `" ++ [28040; 24687; 31867; 22411]%N ++ runes_of_ascii "`
, @lengthOf( metadata// packet A { u8 x, }
) repeat i8i8
    zchar
`" ++ [28040; 24687; 31867; 22411]%N ++ runes_of_ascii "` ,zchar[
255  ] uint8x,
int8 Z9_@calculatedFrom(
    """" ) , } // packet A { u8 x, }")).
Eval vm_compute in ("<<<M3830>>>" ++ check (runes_of_ascii "

  root packet 
uint8x { 
}  options

{ o =
        //x
//
    ' ';  x_y_z
    = 0123456789
stringy 
=	""packet""  }

packet  A { match

falsey

    as
	string_{

    """ ++ [28040; 24687]%N ++ runes_of_ascii """
    :
packetx ,
    0 :  BodyLength
,} // @lengthOf(
,float32 	 // " ++ [27880; 37322]%N ++ runes_of_ascii "
string_
    @lengthOf( a1

) ,
    trueish
    @calculatedFrom( 
""abc"" ), @leftPad  //	t

  ( 
'0') string

    matchKey @lengthOf(

    x_y_z
    )

    ``	, leftPad 
{
	trueish
    @calculatedFrom(
""a\""b"" )  // c
    ,} 
,  // `tick` ""quote"" 'q'
  @tag(
1  
      // trailing space 
  ) 
repeat
float64

    calculatedFrom	`{ , }` ,

@leftPad  
  // @lengthOf(
  	('\x00'
)match Z9_  //	t
	  as
	crc{[ 0 ]:	a1, //
  },_x@lengthOf(	T
) // trailing space 
  ,
x_y_z
`" ++ [28040; 24687; 31867; 22411]%N ++ runes_of_ascii "`

// c
	  // `tick` ""quote"" 'q'

,repeat

char[]Z9_  ,
    }

// " ++ [27880; 37322]%N ++ runes_of_ascii "
")).
Eval vm_compute in ("<<<M3531>>>" ++ check (runes_of_ascii "options
{

    LittleEndian
	= false
;  StringPrefixLenType =

    u16
;
ArrayPrefixLenType =	u64
	;  FixedStringPadFromLeft =
true
	;	FixedStringPadChar =  ' ' ; }packet

Logon{

    u16
    Tail 
,	repeat string

    x, i16 count ,
@leftPad (
    '0' ) char[
3	]
Note  ,

} 
packet 
Fill {} packet Heartbeat 
{ }
    packet
Reject  {string	msgKind
	,
	repeat Logon
	, InFlags25	{  repeat  InPrice29
    {

    u8
price
	,
	Logon	,
repeat char[ 1  ]
Note

,
    }	,

char[]	x,

Fill

, }  ,
	repeat

    Heartbeat

,}root packet

    Order
	{  InNote88 {
repeat
	i32
	Acct	,
	repeat
	i16 clOrdID ,

    repeat

    Logon,} ,
u16
tag7 
,
match	tag7  as 
Body

{ 
[
    14

, 22
    ]

:
    Logon
	,
55

: Heartbeat, 93
: Reject

,13:Fill ,
} , 
}
")).
Eval vm_compute in ("<<<M3523>>>" ++ check (runes_of_ascii "
options
    {

LittleEndian

    = false  ;
StringPrefixLenType =

u16; ArrayPrefixLenType=u32

    ; 
} packet Order { uint8 x
	,

repeat  string
venue
,  }packet Heartbeat
    {
i64  count  ,  zchar[	1]
Qty

,
repeat

InX29

{	InSeqno26 { int64  f1 ,

    char[ 5
]
    Acct 
,Order
    ,

},
repeat  InSide285	{ repeat

    Order
,	char[10  ]
Px ,

    zchar[ 
9

    ]

    OrderId,
	},
char[] venue
	, Order, } , @rightPad ('\x00'
)

    char[ 4
]

    clOrdID

    ,
	}  root

packet
    Party 
{ zchar[3]	f1 
,

u32

    clOrdID

    , u32 Px	@lengthOf(

    Body
    ),

match
	clOrdID
    as	Body {
	[180, 64

]  :Heartbeat
    ,11

    : Order
	,
},u32
Side2

@calculatedFrom(

""CRC32"")
,	}
")).
Eval vm_compute in ("<<<M3989>>>" ++ check (runes_of_ascii "  packet 
Foo

    {@calculatedFrom( 
""it's""
    )	/// triple
@calculatedFrom(""// no comment""	)pack
@calculatedFrom(
""// no comment""

    )	`tab	here`
, 
}  root packet 
options1
	{  @tag(42 )// a // b
    	repeat

char[

42 // a // b
  ]  Packet
    `// not a comment` 
,Logon	{len ,	crc {zchar[65535 
]  msg_type@calculatedFrom(
    ""`tick`"" )
    ,	},} ,

}  packet
    matchKey  {
	@lengthOf(

    int

)  @calculatedFrom( ""// no comment""
    )

    @tag(7 
        // `tick` ""quote"" 'q'
    // @lengthOf(
    ) x_y_z,
i16
x_y_z `say ""hi""`  ,
@calculatedFrom(""" ++ [233]%N ++ runes_of_ascii "t" ++ [233]%N ++ runes_of_ascii """ )
    @calculatedFrom( //x
""""
)
    // a // b
//x
	@tag(
4294967296 ) 
  // @lengthOf(
  	BodyLength  string_ 
,  }")).
Eval vm_compute in ("<<<M4104>>>" ++ check (runes_of_ascii "// " ++ [27880; 37322]%N ++ runes_of_ascii "
packet leftPad {
    // a // b
    string As `{ , }`,
    char[42] msg_type,
    @lengthOf(i8i8)
    match Foo as matchKey {
        1 : chars,
        65535 : o,
        7 : calculatedFrom,
        [65535, 7, ""a	b""] : int,
        [
            00, 0, ""x y"", 65535, """ ++ [128512]%N ++ runes_of_ascii """,
            007, ""it's"", """"
        ] : Packet,
        """" : float,
    },
    u64 Logon @calculatedFrom(""" ++ [128512]%N ++ runes_of_ascii """),
    @calculatedFrom(""a	b"")
    pack {
        float32 charz `line1
        line2`,
    },
}

MetaData u128 {
    repeatCount len `" ++ [233]%N ++ runes_of_ascii "`,
    BodyLength charz,
    u8x trueish `a\`,
    Header msg_type `line1
    line2`,
    string stringy,// " ++ [128512]%N ++ runes_of_ascii " emoji
    char[] u128 `" ++ [233]%N ++ runes_of_ascii "`,
}

options {
}")).
Eval vm_compute in ("<<<M452>>>" ++ check (runes_of_ascii "  packet BodyLength{
}
options {} packet uint8x { } packet chars {
@tag( //x
007)
pack { stringy
`doc` , match
    f32a as  calculatedFrom{
[""a	b""
, 00 // c
,
007 ,""a	b"" ]
:
u8x }  ,} , f32 options1@lengthOf(
leftPad ) , @calculatedFrom(
    ""packet""
) leftPad
, // `tick` ""quote"" 'q'
char stringy//x
, char[] A @calculatedFrom( // " ++ [27880; 37322]%N ++ runes_of_ascii "
""abc""
) ,  @tag(0	) char[
    4294967296] int @calculatedFrom( /// triple
""x y""	)
, repeat
x
{ stringy @calculatedFrom(	""packet"" )
`tab	here`
    , i16 asx
    `" ++ [233]%N ++ runes_of_ascii "` ,
f32a ,tag
    @calculatedFrom(  """" )`" ++ [233]%N ++ runes_of_ascii "` ,}, u32
    // a // b
    Header
, repeat f32a u128 `{ , }` , }options { pack = false ; }
")).
Eval vm_compute in ("<<<M1000>>>" ++ check (runes_of_ascii "MetaData rootA
{u64
trueish	, metadata calculatedFrom// @lengthOf(
,
// " ++ [128512]%N ++ runes_of_ascii " emoji
// `tick` ""quote"" 'q'
u8
u128 ,
    chars  pack ,
    zchar lengthOf `line1
line2` ,
}root packet //	t
len{ @lengthOf( trueish)
i8 Z9_
`" ++ [28040; 24687; 31867; 22411]%N ++ runes_of_ascii "` , @leftPad
(
)
    match
zchar // " ++ [27880; 37322]%N ++ runes_of_ascii "
as trueish {00:As,""" ++ [128512]%N ++ runes_of_ascii """
    : o
    ,
[ 42 ] : a1
// `tick` ""quote"" 'q'
// `tick` ""quote"" 'q'
,
10// trailing space 
: len } , repeat As , @leftPad (	'0' )
int32 calculatedFrom ,
repeat Header  ,
    @rightPad
//
// " ++ [27880; 37322]%N ++ runes_of_ascii "
(' ') // packet A { u8 x, }
calculatedFrom	repeatCount,
    msg_type @lengthOf( // c
T ) ,
    }
    packet calculatedFrom
    { }

")).
Eval vm_compute in ("<<<M1384>>>" ++ check (runes_of_ascii "MetaData u8x {  _x Foo `say ""hi""`
, }MetaData x_y_z { char rootA ,
    }
    options {
    f32a	= true} packet lengthOf {
    zchar[
    // `tick` ""quote"" 'q'
    255 ]  trueish@calculatedFrom(	""" ++ [233]%N ++ runes_of_ascii "t" ++ [233]%N ++ runes_of_ascii """	) ,@lengthOf( len) zchar[
007  ] // packet A { u8 x, }
roots @lengthOf( o)
// @lengthOf(
// `tick` ""quote"" 'q'
, char[
7 ] o, Pad`
`
, char[ 42
]
f32a//
@lengthOf( crc) , @lengthOf(
// `tick` ""quote"" 'q'
// @lengthOf(
lengthOf//
) @calculatedFrom(
""CRC32"" )@leftPad	( '0' )
//	t
// " ++ [27880; 37322]%N ++ runes_of_ascii "
repeat
crc Foo
, asx @lengthOf( trueish ) `a\`	,	@lengthOf( o ) string crc `it's` , }
")).
Eval vm_compute in ("<<<M4434>>>" ++ check (runes_of_ascii "options {
    tag = ""it's"";
    int = zchar[00];
    x_y_z = ""a	b"";
    packetx = ' ';
}

packet rootA {
    uint8x @calculatedFrom(""CRC32""),// " ++ [27880; 37322]%N ++ runes_of_ascii "
    u {
        repeat string repeatCount `line1
        line2`,
        repeat Logon {
            f32a @lengthOf(roots),
            Packet {
                int32 Z9_ `u8 x,`,
            },
            Packet Packet,
        },
        repeat repeatCount zchar,
    },
    a1 @calculatedFrom(""abc""),
}// `tick` ""quote"" 'q'

root packet crc {
    @tag(00)
    char[7] asx @lengthOf(T) ``,
}")).
Eval vm_compute in ("<<<M4101>>>" ++ check (runes_of_ascii "
MetaData
	// packet A { u8 x, }
	// @lengthOf(
    calculatedFrom

{zchar[
    3 ] u8x
,
	i32
	o ,
    zchar[42 

    //x
		// @lengthOf(
	] leftPad
    ,roots
u 
    //x
	//
	  , } 
packet trueish

{
    @leftPad (  )

    asx
//	t

@lengthOf(  i8i8
	) ,
	@rightPad

    (
'\x00' 
)

tag	@lengthOf(
    Packet
) 
,

    Pad 

// `tick` ""quote"" 'q'
	options1 `doc`
,
@lengthOf( Header
	) 
match
    Z9_ 
    // c
  	/// triple
    as	zchar {
4294967296  :

o
	,
    } ,} 	 /// triple
 
")).
Eval vm_compute in ("<<<M3643>>>" ++ check (runes_of_ascii "packet leftPad {
    @calculatedFrom(""\" ++ [233]%N ++ runes_of_ascii """)
    @rightPad('0')
    @lengthOf(asx)
    BodyLength trueish `it's`,
    @leftPad('\x00')
    A i8i8 `
    `,
    @tag(0)
    matchKey {
        int16 falsey `line1
        line2`,/// triple
    },// " ++ [128512]%N ++ runes_of_ascii " emoji
    match tag as falsey {
        [""packet""] : i64_,
        3 : leftPad,
    },
    @calculatedFrom(""// no comment"")
    string a1,
    @leftPad('\x00')
    @calculatedFrom(""" ++ [28040; 24687]%N ++ runes_of_ascii """)
    @calculatedFrom(""`tick`"")
    repeat chars As,
}")).
Eval vm_compute in ("<<<M3783>>>" ++ check (runes_of_ascii "  MetaData

    stringy
//x
{

    A

MetaDataX
    ,  } packet x { @calculatedFrom( 	 /// triple
		""""

)	char[]
    body

    `` 
      /// triple

// c
,matchKey

    @lengthOf(	uint8x	)
    ,	} // packet A { u8 x, }
    options 
{
	T
// `tick` ""quote"" 'q'
    	// trailing space 
    	= true  ; 
o// packet A { u8 x, }
	  =
    // c
  	//	t
'0' ;
asx
//
= 
4294967296
x = ""CRC32""
o	= zchar[
7
] }
    options
    { /// triple
	As 
=	false
;  }	//x")).
Eval vm_compute in ("<<<M1041>>>" ++ check (runes_of_ascii "root
    packet charz // " ++ [27880; 37322]%N ++ runes_of_ascii "
{options1 i64_ ,
int {zchar[
    0123456789 ] // " ++ [27880; 37322]%N ++ runes_of_ascii "
_x , int , Pad `doc`
    , // " ++ [128512]%N ++ runes_of_ascii " emoji
repeat T //x
{
    repeat msg_type , char[]
/// triple
//	t
lengthOf @lengthOf(	metadata) `tab	here` , char[] // " ++ [27880; 37322]%N ++ runes_of_ascii "
_x
    //x
    , }	,
},Logon crc
// `tick` ""quote"" 'q'
//
,} MetaData chars {int16 repeatCount ,u64 float,x_y_z Logon
    ``// @lengthOf(
,
char[ 1//	t
]	Foo ,
zchar[ 65535]int
,x_y_z calculatedFrom , // a // b
}")).
Eval vm_compute in ("<<<M1024>>>" ++ check (runes_of_ascii "// @lengthOf(
packet // trailing space 
falsey{
    a1 , //
int8 chars
//	t
//	t
``,	match Packet //x
as Z9_ { 42 :	metadata ,	}
    ,} MetaData pack{}root packet MetaDataX {
    @lengthOf(
    //
    MetaDataX )
    repeat As{
    match As as MetaDataX
{
[	""CRC32""
    //x
    ]:  i64_ ,	[	42 // packet A { u8 x, }
,// " ++ [27880; 37322]%N ++ runes_of_ascii "
65535  , 3
// `tick` ""quote"" 'q'
//x
]: // packet A { u8 x, }
Packet, 0	:
    Z9_ 10: i8i8 //
, } , } , }")).
Eval vm_compute in ("<<<M4321>>>" ++ check (runes_of_ascii "root packet body {
    // `tick` ""quote"" 'q'
    x_y_z @calculatedFrom(""\" ++ [233]%N ++ runes_of_ascii """) `" ++ [233]%N ++ runes_of_ascii "`,
    @lengthOf(stringy)
    asx `crlf
        line`,
    @calculatedFrom(""{,}"")
    float {
        repeat chars `doc`,
    },
}

root packet trueish {
    uint8x `tab	here`,
    @calculatedFrom(""it's"")
    u16 trueish `{ , }`,
    @lengthOf(stringy)
    i8i8 {
        u16 MetaDataX ``,
        string matchKey,
        //	t
    },
}")).
Eval vm_compute in ("<<<M4214>>>" ++ check (runes_of_ascii "  MetaData  o 	 // a // b
  	{
u32 string_ ,

    char[]

    a1 `crlf
line`,
    int8 
options1

,

    }packet 
Foo{ 
@lengthOf(

matchKey 
) f32 f32a,

@tag(

0) 	 // @lengthOf(
    	match
	MetaDataX	as trueish

{ //	t
  	255  :
T ,	4294967296
    :

pack
    // a // b
	, 3 
: 
falsey  ,
""1""	: uint8x ,

7 :
u128
4294967296

    :  
  // " ++ [27880; 37322]%N ++ runes_of_ascii "
	  MetaDataX  , }
	,

i32//
roots
,	}
")).
Eval vm_compute in ("<<<M258>>>" ++ check (runes_of_ascii "MetaData stringy
    //x
    { A MetaDataX ,}
    packet  x	{ @calculatedFrom( /// triple
"""")
char[] body``
/// triple
// c
, matchKey @lengthOf( uint8x ) , } // packet A { u8 x, }
options{	T
// `tick` ""quote"" 'q'
// trailing space 
=true
; o// packet A { u8 x, }
=
// c
//	t
'0'	; asx
    //
    = 4294967296
x= ""CRC32""o =
zchar[ 7 ] } options { /// triple
As =false ; } //x")).
Eval vm_compute in ("<<<M933>>>" ++ check (runes_of_ascii "packet chars { @lengthOf(As )// packet A { u8 x, }
u128 Logon /// triple
`line1
line2`
,
//x
// `tick` ""quote"" 'q'
f32a
, //x
@rightPad  (
    '\x00' )zchar[
10] As
    /// triple
    `doc`, u8x
    @lengthOf(
// a // b
//
u128) ,
    @lengthOf(	matchKey// @lengthOf(
)@calculatedFrom(""CRC32""
) @calculatedFrom( ""a\\"" ) repeat Z9_
    // c
    uint8x `u8 x,` , }")).
Eval vm_compute in ("<<<M320>>>" ++ check (runes_of_ascii "packet Pad { int16 charz `` ,
    @calculatedFrom(""a\""b"" // `tick` ""quote"" 'q'
)
    @tag(	1  )
    zchar[ //	t
4294967296
    // packet A { u8 x, }
    ] A, @rightPad () chars , // " ++ [27880; 37322]%N ++ runes_of_ascii "
uint8x { zchar[
0  ] // @lengthOf(
zchar // " ++ [27880; 37322]%N ++ runes_of_ascii "
`tab	here`
, msg_type f32a ,u8 roots@calculatedFrom(""x y""  ) `crlf
line`, /// triple
As rootA
// " ++ [27880; 37322]%N ++ runes_of_ascii "
//
, } , }
")).
Eval vm_compute in ("<<<M285>>>" ++ check (runes_of_ascii "
MetaData o// a // b
{ u32 string_, char[]a1
`crlf
line` , int8 options1 ,
} packet
    Foo{ @lengthOf( matchKey )f32 f32a ,
@tag(0 ) // @lengthOf(
match MetaDataX as trueish { //	t
255 : T ,	4294967296 : pack
    // a // b
    ,	3 :falsey ,
""1"" :uint8x ,7
    : u128 4294967296 :
    // " ++ [27880; 37322]%N ++ runes_of_ascii "
    MetaDataX
, } , i32 //
roots
, }")).
Eval vm_compute in ("<<<M712>>>" ++ check (runes_of_ascii "
packet Foo
    { @lengthOf( metadata) // " ++ [128512]%N ++ runes_of_ascii " emoji
repeat len {
matchKey lengthOf
,
repeat body { int8 Header	, zchar @lengthOf( x) , }
// " ++ [128512]%N ++ runes_of_ascii " emoji
// @lengthOf(
, }
    //
    ,
    char[
4294967296
]
    _x
, } MetaData T{repeatCount
    trueish,
    char[65535  ]  Pad `" ++ [233]%N ++ runes_of_ascii "` , }
options {
}
options {
u8x
=
    ""1"" ;}
")).
Eval vm_compute in ("<<<M3613>>>" ++ check (runes_of_ascii "  packet
	_x
	{	// packet A { u8 x, }
    repeat
u8

// @lengthOf(
	//	t

  Logon
,match
Packet	as
	repeatCount
    {  65535

    :

leftPad,
    [7
	] :
rootA 4294967296 
:  Header,[
	00	// trailing space 
      ] :u8x	, 42 :
MetaDataX ,
007 :
        // " ++ [27880; 37322]%N ++ runes_of_ascii "
// " ++ [27880; 37322]%N ++ runes_of_ascii "

uint8x,	// @lengthOf(
		}
	,  }
")).
Eval vm_compute in ("<<<M4106>>>" ++ check (runes_of_ascii "MetaData As {
    zchar[255] repeatCount,
    u32 lengthOf `u8 x,`,
    o crc,
    a1 u,
    BodyLength matchKey,
    char[00] options1 `
    `,
}

packet u8x {
    char[0] As @calculatedFrom(""packet""),
    @calculatedFrom(""\" ++ [233]%N ++ runes_of_ascii """)
    @lengthOf(int)
    repeat trueish T,
    float32 o `u8 x,`,
}
//	t")).
Eval vm_compute in ("<<<M1567>>>" ++ check (runes_of_ascii "root packet Foo // " ++ [128512]%N ++ runes_of_ascii " emoji
{ } options {
    // a // b
    tag // `tick` ""quote"" 'q'
= //	t
""""
    ; u8x = zchar[0  ] }
MetaData
    int {zchar[ 10]
lengthOf	`` , i64 u8x`// not a comment` ,MetaDataX options// `tick` ""quote"" 'q'
`crlf
line`
, Logon charz `crlf
line`
    ,
    // a // b
    }
")).
Eval vm_compute in ("<<<M1447>>>" ++ check (runes_of_ascii "root packet Foo // " ++ [128512]%N ++ runes_of_ascii " emoji
{ } options {
    // a // b
    true // `tick` ""quote"" 'q'
= //	t
""""
    ; u8x = zchar[0  ] }
MetaData
    int {zchar[ 10]
lengthOf	`` , i64 u8x`// not a comment` ,MetaDataX pack// `tick` ""quote"" 'q'
`crlf
line`
, Logon charz `crlf
line`
    ,
    // a // b
    }
")).
Eval vm_compute in ("<<<M1496>>>" ++ check (runes_of_ascii "root packet Foo // " ++ [128512]%N ++ runes_of_ascii " emoji
{ } options {
    // a // b
    tag // `tick` ""quote"" 'q'
= //	t
""""
    ; u8x = zchar[0  ] }
int
    MetaData {zchar[ 10]
lengthOf	`` , i64 u8x`// not a comment` ,MetaDataX pack// `tick` ""quote"" 'q'
`crlf
line`
, Logon charz `crlf
line`
    ,
    // a // b
    }
")).
Eval vm_compute in ("<<<M1479>>>" ++ check (runes_of_ascii "root packet Foo // " ++ [128512]%N ++ runes_of_ascii " emoji
{ } options {
    // a // b
    tag // `tick` ""quote"" 'q'
= //	t
""""
    ; u8x = zchar[  ] }
MetaData
    int {zchar[ 10]
lengthOf	`` , i64 u8x`// not a comment` ,MetaDataX pack// `tick` ""quote"" 'q'
`crlf
line`
, Logon charz `crlf
line`
    ,
    // a // b
    }
")).
Eval vm_compute in ("<<<M1544>>>" ++ check (runes_of_ascii "root packet Foo // " ++ [128512]%N ++ runes_of_ascii " emoji
{ } options {
    // a // b
    tag // `tick` ""quote"" 'q'
= //	t
""""
    ; u8x = zchar[0  ] }
MetaData
    int {zchar[ 10]
lengthOf	`` , i64 `// not a comment` ,MetaDataX pack// `tick` ""quote"" 'q'
`crlf
line`
, Logon charz `crlf
line`
    ,
    // a // b
    }
")).
Eval vm_compute in ("<<<M224>>>" ++ check (runes_of_ascii "packet MetaDataX {	int64 x_y_z //
@calculatedFrom( ""// no comment""
// packet A { u8 x, }
// `tick` ""quote"" 'q'
)
, }	MetaData int { u16 // packet A { u8 x, }
roots , zchar[ 7 // " ++ [27880; 37322]%N ++ runes_of_ascii "
]u8x ,  int16 //x
Logon, } MetaData i64_ // a // b
{// c
zchar[ 1 ] // `tick` ""quote"" 'q'
crc	, }

")).
Eval vm_compute in ("<<<M988>>>" ++ check (runes_of_ascii "root packet pack { zchar[00	] falsey
// trailing space 
// " ++ [27880; 37322]%N ++ runes_of_ascii "
, // " ++ [27880; 37322]%N ++ runes_of_ascii "
leftPad, uint64 stringy @calculatedFrom(""\n"") // " ++ [27880; 37322]%N ++ runes_of_ascii "
`" ++ [28040; 24687; 31867; 22411]%N ++ runes_of_ascii "` ,}
root packet
    pack {@tag(
    65535
    // " ++ [27880; 37322]%N ++ runes_of_ascii "
    ) zchar[  007//x
]
    uint8x `crlf
line`
, }
options { Header
    =//	t
""CRC32"" ;
}")).
Eval vm_compute in ("<<<M3495>>>" ++ check (runes_of_ascii "packet P1 {
    u8 a,
}
packet P2 {
    P1,
}
packet P3 {
    P2,
    P1,
}
packet P4 {
    repeat P3,
    P2,
}
root packet P5 {
    P4,
    P3,
    P1,
    u8 K,
    match K as Body {
        4 : P4,
        3 : P3,
        2 : P2,
        1 : P1,
    },
}
")).
Eval vm_compute in ("<<<M4071>>>" ++ check (runes_of_ascii "root packet Foo {
}

options {
    // a // b
    tag = """";
    u8x = zchar[0]
}

MetaData int {
    zchar[10] lengthOf ``,
    i64 u8x `// not a comment`,
    MetaDataX pack `crlf
        line`,
    Logon charz `crlf
        " ++ [8232]%N ++ runes_of_ascii "line`,
    // a // b
}")).
Eval vm_compute in ("<<<M297>>>" ++ check (runes_of_ascii "
packet As
{
} MetaData Logon { i16 falsey
`a\` // `tick` ""quote"" 'q'
, } MetaData T { f64 uint8x `u8 x,` , // " ++ [128512]%N ++ runes_of_ascii " emoji
char[	00 // @lengthOf(
] T , char[
    0
    ]
Pad
// c
// c
`crlf
line` , char[]
    f32a ,
char[] asx
    , } //	t")).
Eval vm_compute in ("<<<M1392>>>" ++ check (runes_of_ascii "MetaData matchKey// `tick` ""quote"" 'q'
{ metadata u8x
    ,int8 chars ,
// @lengthOf(
//
MetaDataX u128``
, }MetaData As{ uint8x
u , u32
falsey `" ++ [28040; 24687; 31867; 22411]%N ++ runes_of_ascii "` ,
zchar[ 1 ] tag ,
    zchar[ 0 ] float
,
char[]  metadata
, } // @lengthOf(")).
Eval vm_compute in ("<<<M1388>>>" ++ check (runes_of_ascii "options{ roots =0123456789; body = int64
repeatCount = ""// no comment""
; pack  =
""abc""
    ;charz =// " ++ [27880; 37322]%N ++ runes_of_ascii "
string ;
/// triple
// " ++ [128512]%N ++ runes_of_ascii " emoji
}
packet //
trueish{ @calculatedFrom( ""a	b""	) repeat u16 As
    `" ++ [233]%N ++ runes_of_ascii "` // " ++ [128512]%N ++ runes_of_ascii " emoji
, }
")).
Eval vm_compute in ("<<<M2338>>>" ++ check (runes_of_ascii "MetaData Packet { }packet	asx  { @lengthOf( asx) falsey`crlf
line`
,
    }
    packet x	{uint32// @lengthOf(
rootA	,u32 options1 `say ""hi""` , @tag( @tag(
    )// packet A { u8 x, }
msg_type @lengthOf(
stringy	)	, }

")).
Eval vm_compute in ("<<<M2302>>>" ++ check (runes_of_ascii "MetaData Packet { }packet	asx  { @lengthOf( asx) falsey`crlf
line`
,
    }
    packet x	{uint32// @lengthOf(
,	rootA u32 options1 `say ""hi""` , @tag( 7
    )// packet A { u8 x, }
msg_type @lengthOf(
stringy	)	, }

")).
Eval vm_compute in ("<<<M2297>>>" ++ check (runes_of_ascii "MetaData Packet { }packet	asx  { @lengthOf( asx) falsey`crlf
line`
,
    }
    packet x	{rootA// @lengthOf(
uint32	,u32 options1 `say ""hi""` , @tag( 7
    )// packet A { u8 x, }
msg_type @lengthOf(
stringy	)	, }

")).
Eval vm_compute in ("<<<M2340>>>" ++ check (runes_of_ascii "MetaData Packet { }packet	asx  { @lengthOf( asx) falsey`crlf
line`
,
    }
    packet x	{uint32// @lengthOf(
rootA	,u32 options1 `say ""hi""` , @tag( 7
    // packet A { u8 x, }
msg_type @lengthOf(
stringy	)	, }

")).
Eval vm_compute in ("<<<M2230>>>" ++ check (runes_of_ascii "MetaData Packet { }	asx  { @lengthOf( asx) falsey`crlf
line`
,
    }
    packet x	{uint32// @lengthOf(
rootA	,u32 options1 `say ""hi""` , @tag( 7
    )// packet A { u8 x, }
msg_type @lengthOf(
stringy	)	, }

")).
Eval vm_compute in ("<<<M2350>>>" ++ check (runes_of_ascii "MetaData Packet { }packet	asx  { @lengthOf( asx) falsey`crlf
line`
,
    }
    packet x	{uint32// @lengthOf(
rootA	,u32 options1 `say ""hi""` , @tag( 7
    )// packet A { u8 x, }
msg_type 
stringy	)	, }

")).
Eval vm_compute in ("<<<M680>>>" ++ check (runes_of_ascii "packet len{} options{
o =
uint32 ;
    uint8x
= 65535
    // trailing space 
    ; crc =
    true ;
    tag=
// " ++ [27880; 37322]%N ++ runes_of_ascii "
// a // b
i16 ; } packet
// `tick` ""quote"" 'q'
// " ++ [128512]%N ++ runes_of_ascii " emoji
u8x
{ pack body ,  }
")).
Eval vm_compute in ("<<<M4053>>>" ++ check (runes_of_ascii "MetaData stringy
    {
zchar[
    255 
]
    u
	`
`  , 	 // packet A { u8 x, }

	string repeatCount ,As  i8i8
`{ , }`

    ,string
    x_y_z 

    // c
	, uint16 Pad	, uint32
asx
,
}

")).
Eval vm_compute in ("<<<M4262>>>" ++ check (runes_of_ascii "
root packet  chars

    { repeat
    a1  { trueish	x `" ++ [28040; 24687; 31867; 22411]%N ++ runes_of_ascii "` ,	},

    }
    MetaData
metadata {
	int32
	int ,
f64

uint8x
    `say ""hi""` //

,

i64

rootA

`crlf
line`  ,

}")).
Eval vm_compute in ("<<<M3468>>>" ++ check (runes_of_ascii "packet A {
    u8 a,
}
packet B {
    u16 b,
}
root packet P {
    u8 K1,
    u8 K2,
    match K1 as M1 {
        1 : A,
    },
    match K2 as M2 {
        1 : B,
    },
}
")).
Eval vm_compute in ("<<<M3832>>>" ++ check (runes_of_ascii "MetaData stringy {
    zchar[255] u `
        `,// packet A { u8 x, }
    string repeatCount,
    As i8i8 `{ , }`,
    string x_y_z,
    uint16 Pad,
    uint32 asx,
}")).
Eval vm_compute in ("<<<M4179>>>" ++ check (runes_of_ascii "

  packet

    string_  { @calculatedFrom(  ""abc""
)

    @calculatedFrom(
    """ ++ [28040; 24687]%N ++ runes_of_ascii """ )

@rightPad( 
//	t
// packet A { u8 x, }
'0'	)crc len `tab	here`

,	} ")).
Eval vm_compute in ("<<<M3734>>>" ++ check (runes_of_ascii "// c
packet f32a {
}

MetaData rootA {
    zchar[007] As,
    A u,
    a1 A,
}

root packet Logon {
    @tag(1)
    x_y_z {
        repeat u _x,
    },
}")).
Eval vm_compute in ("<<<M119>>>" ++ check (runes_of_ascii "MetaData  trueish {
    chars	u8x // trailing space 
,
A chars ,i8i8 asx `tab	here`
    ,char[ 3 ]
body	`" ++ [233]%N ++ runes_of_ascii "`,
    zchar[	00	]
u128 ,
}
/// triple
")).
Eval vm_compute in ("<<<M4145>>>" ++ check (runes_of_ascii "

  packet

Logon {	@tag(
42
    )

    @rightPad 
        // c
    (  ' ' 
)

    @leftPad (
) 
repeat

trueish	{
	string

    T,
},}
")).
Eval vm_compute in ("<<<M1508>>>" ++ check (runes_of_ascii "root packet Foo // " ++ [128512]%N ++ runes_of_ascii " emoji
{ } options {
    // a // b
    tag // `tick` ""quote"" 'q'
= //	t
""""
    ; u8x = zchar[0  ] }
MetaData
    int")).
Eval vm_compute in ("<<<M3186>>>" ++ check (runes_of_ascii "// top
MetaData
    // c0
zchar
    // c1
{
    // c2
zchar[
    // c3
3
    // c4
]
    // c5
Pad
    // c6
,
    // c7
}
    // c8
")).
Eval vm_compute in ("<<<M1678>>>" ++ check (runes_of_ascii "root packet /// triple
rootA {	i32
MetaDataX@calculatedFrom( ""CRC32"" ) `line1
line2` , } } MetaData BodyLength {
u8
rootA, } // c")).
Eval vm_compute in ("<<<M1669>>>" ++ check (runes_of_ascii "root packet /// triple
rootA {	i32
MetaDataX@calculatedFrom( ""CRC32"" ) , `line1
line2` } MetaData BodyLength {
u8
rootA, } // c")).
Eval vm_compute in ("<<<M3841>>>" ++ check (runes_of_ascii "packet A {
    match k as n {
        [
            1, 22, 007, 4, 5,
            66, 7
        ] : B,
        2 : C,
    },
}")).
Eval vm_compute in ("<<<M3022>>>" ++ check (runes_of_ascii "packet A {
    u16 len @lengthOf(body) `a
    b
  c`,
    u32 crc @calculatedFrom(""CRC32"") `a
    b
  c`,
    string body,
}")).
Eval vm_compute in ("<<<M1346>>>" ++ check (runes_of_ascii "MetaData
    Logon {string
uint8x , msg_type
    Z9_  `{ , }`
    , f64 As`it's`
//x
// packet A { u8 x, }
, uint8	o , }
")).
Eval vm_compute in ("<<<M1498>>>" ++ check (runes_of_ascii "root packet Foo // " ++ [128512]%N ++ runes_of_ascii " emoji
{ } options {
    // a // b
    tag // `tick` ""quote"" 'q'
= //	t
""""
    ; u8x = zchar[0  ] }")).
Eval vm_compute in ("<<<M1888>>>" ++ check (runes_of_ascii "packet
    Pad // a // b
{ i8i8 @calcul" ++ [8232]%N ++ runes_of_ascii "atedFrom( ""a	b"") `u8 x,` ,
} options{ float// " ++ [128512]%N ++ runes_of_ascii " emoji
= f64 i64_
=//	t
00 }
")).
Eval vm_compute in ("<<<M1852>>>" ++ check (runes_of_ascii "packet
    Pad // a // b
{ i8i8 @calculatedFrom( ""a	b"") `u8 x,` ,
} options{ float// " ++ [128512]%N ++ runes_of_ascii " emoji
= i64_ f64
=//	t
00 }
")).
Eval vm_compute in ("<<<M358>>>" ++ check (runes_of_ascii "MetaData Packet { u128  u128 `say ""hi""` ,
    // @lengthOf(
    zchar
    len ,
Pad T `say ""hi""` // " ++ [128512]%N ++ runes_of_ascii " emoji
,
}
")).
Eval vm_compute in ("<<<M4475>>>" ++ check (runes_of_ascii "MetaData
u

{
    stringy
metadata `// not a comment`

    , u8
	len  ,
	_x
    a1  ,
string	Z9_

    ,  }
")).
Eval vm_compute in ("<<<M3000>>>" ++ check (runes_of_ascii "packet A {
  match k as n {
    [""a"", ""bb"", 007, ""d"", ""e"", 66, ""g"", ""h"", 9, ""j"", ""k"", 12] : B
    2 : C
  },
}")).
Eval vm_compute in ("<<<M3848>>>" ++ check (runes_of_ascii "  packet
	Logon

{ @tag(42 ) 
@rightPad
    ( 	 // c
  ' '
) @leftPad()  repeat
	trueish 
{string  T, },
	}")).
Eval vm_compute in ("<<<M3375>>>" ++ check (runes_of_ascii "packet calculatedFrom { @tag( 4294967296 ) u msg_type , char[ 3 ] crc @lengthOf( len ) `u8 x,` , } // c
")).
Eval vm_compute in ("<<<M3356>>>" ++ check (runes_of_ascii "packet calculatedFrom { @tag( 4294967296 ) u msg_type ,
// c
char[ 3 ] crc @lengthOf( len ) `u8 x,` , }")).
Eval vm_compute in ("<<<M4409>>>" ++ check (runes_of_ascii "
packet A  {

    B
b
`a
    b
  c`

    ,
    B 
`a
    b
  c`  ,

repeat
B bs`a
    b
  c` , }")).
Eval vm_compute in ("<<<M1125>>>" ++ check (runes_of_ascii "
packet	crc{
    match // trailing space 
x_y_z
    as Z9_{ [ 00 ]:asx }, } root packet x_y_z {}
")).
Eval vm_compute in ("<<<M3799>>>" ++ check (runes_of_ascii "packet  A

    {  Logon {	repeat

    char[
42 ]	falsey

`a\` ,
	repeat int32	T
,
    } ,	}
")).
Eval vm_compute in ("<<<M3232>>>" ++ check (runes_of_ascii "packet Logon { @tag( 42 ) @rightPad ( ' ' // c
) @leftPad ( ) repeat trueish { string T , } , }")).
Eval vm_compute in ("<<<M1375>>>" ++ check (runes_of_ascii "options	{
    repeatCount='0'
    roots =
""\" ++ [233]%N ++ runes_of_ascii """  ;int =
f64
Packet =
'\x00' ;
Z9_ = ""a\""b"" ; }")).
Eval vm_compute in ("<<<M4203>>>" ++ check (runes_of_ascii "options {
    Header = true;
    pack = ""{,}"";
}

//
/// triple
options {
    i8i8 = false
}")).
Eval vm_compute in ("<<<M1967>>>" ++ check (runes_of_ascii "root
packet crc crc
    { f32a @calculatedFrom( """ ++ [233]%N ++ runes_of_ascii "t" ++ [233]%N ++ runes_of_ascii """ )
    `say ""hi""`, lengthOf `` ,  }")).
Eval vm_compute in ("<<<M2022>>>" ++ check (runes_of_ascii "root
packet crc
    { f32a @calculatedFrom( """ ++ [233]%N ++ runes_of_ascii "t" ++ [233]%N ++ runes_of_ascii """ )
    `say ""hi""`, lengthOf `` ,  } }")).
Eval vm_compute in ("<<<M2044>>>" ++ check (runes_of_ascii "root
packet crc
    { na" ++ [239]%N ++ runes_of_ascii "ve @calculatedFrom( """ ++ [233]%N ++ runes_of_ascii "t" ++ [233]%N ++ runes_of_ascii """ )
    `say ""hi""`, lengthOf `` ,  }")).
Eval vm_compute in ("<<<M3679>>>" ++ check (runes_of_ascii "packet A {
    match k as n {
        [""a"", ""bb"", ""c c""] : B,
        2 : C,
    },
}")).
Eval vm_compute in ("<<<M4411>>>" ++ check (runes_of_ascii "packet A {
    match k as n {
        [""a"", ""bb"", 007] : B,
        2 : C,
    },
}")).
Eval vm_compute in ("<<<M3299>>>" ++ check (runes_of_ascii "packet o {
// c
@tag( 42 ) repeat x { char[ 0123456789 ] i64_ , } , } options { }")).
Eval vm_compute in ("<<<M3331>>>" ++ check (runes_of_ascii "packet o { @tag( 42 ) repeat x { char[ 0123456789 ] i64_ , } , } options {
// c
}")).
Eval vm_compute in ("<<<M2924>>>" ++ check (runes_of_ascii "packet A {
  match k as n {
    [1, 22, 007, 4, 5, 66, 7] : B,
    2 : C
  },
}")).
Eval vm_compute in ("<<<M4057>>>" ++ check (runes_of_ascii "MetaData M {
    u8 x `a
        b
      c`,
    T t `a
        b
      c`,
}")).
Eval vm_compute in ("<<<M999>>>" ++ check (runes_of_ascii "
MetaData
As
{Foo len,
} root packet Foo { Foo x , // `tick` ""quote"" 'q'
}")).
Eval vm_compute in ("<<<M2890>>>" ++ check (runes_of_ascii "packet A {
  match k as n {
    [1, ""bb"", 007, ""d""] : B
    2 : C
  },
}")).
Eval vm_compute in ("<<<M2882>>>" ++ check (runes_of_ascii "packet A {
  match k as n {
    [""a"", ""bb"", 007] : B,
    2 : C
  },
}")).
Eval vm_compute in ("<<<M2162>>>" ++ check (runes_of_ascii "root
    // `tick` ""quote"" 'q'
    packet As As { trueish Packet , }
")).
Eval vm_compute in ("<<<M2949>>>" ++ check (runes_of_ascii "packet A { Inner { match k as n { [1,22,007,4,5,66,7,8] : B, }, }, }")).
Eval vm_compute in ("<<<M2183>>>" ++ check (runes_of_ascii "root
    // `tick` ""quote"" 'q'
    packet As { trueish Packet } ,
")).
Eval vm_compute in ("<<<M1926>>>" ++ check (runes_of_ascii "
packet	As { @calculatedFrom(//x
""{,}""	)lengthOf lengthOf , } 	 ")).
Eval vm_compute in ("<<<M2868>>>" ++ check (runes_of_ascii "packet A {
  match k as n {
    [1, ""bb""] : B
    2 : C
  },
}")).
Eval vm_compute in ("<<<M4477>>>" ++ check (runes_of_ascii "packet _x {
    repeat crc {
        char[7] float,
    },
}")).
Eval vm_compute in ("<<<M4087>>>" ++ check (runes_of_ascii "
root	packet 
P	{ repeat
char
    cs

    , u8
x  ,
} ")).
Eval vm_compute in ("<<<M1819>>>" ++ check (runes_of_ascii "packet
    Pad // a // b
{ i8i8 @calculatedFrom( ""a	b"")")).
Eval vm_compute in ("<<<M1920>>>" ++ check (runes_of_ascii "
packet	As { @calculatedFrom(//x
""{,}""	lengthOf , } 	 ")).
Eval vm_compute in ("<<<M475>>>" ++ check (runes_of_ascii "packet i64_{@calculatedFrom( ""\" ++ [233]%N ++ runes_of_ascii """
    )u16 a1
, }
")).
Eval vm_compute in ("<<<M4416>>>" ++ check (runes_of_ascii "MetaData lengthOf {
    i64 matchKey `say ""hi""`,
}")).
Eval vm_compute in ("<<<M2416>>>" ++ check (runes_of_ascii "A MetaData
{
i64
chars	, } // `tick` ""quote"" 'q'")).
Eval vm_compute in ("<<<M3707>>>" ++ check (runes_of_ascii "options {
}

options {
}// `tick` ""quote"" 'q'\ ")).
Eval vm_compute in ("<<<M1744>>>" ++ check (runes_of_ascii "options } {options {  } // `tick` ""quote"" 'q'")).
Eval vm_compute in ("<<<M4451>>>" ++ check (runes_of_ascii "MetaData body {
}// c

options {
    // " ++ [27880; 37322]%N ++ runes_of_ascii "
}")).
Eval vm_compute in ("<<<M2152>>>" ++ check (runes_of_ascii "MetaData na" ++ [239]%N ++ runes_of_ascii "ve
{// " ++ [128512]%N ++ runes_of_ascii " emoji
i16 stringy , }")).
Eval vm_compute in ("<<<M950>>>" ++ check (runes_of_ascii "MetaData matchKey{Packet As//	t
`" ++ [233]%N ++ runes_of_ascii "` , }
")).
Eval vm_compute in ("<<<M3199>>>" ++ check (runes_of_ascii "MetaData zchar { zchar[ 3
// c
] Pad , }")).
Eval vm_compute in ("<<<M170>>>" ++ check (runes_of_ascii "options { Foo
    //	t
    = string }
")).
Eval vm_compute in ("<<<M345>>>" ++ check (runes_of_ascii "options
{ Logon = //x
'\x00'
    ; }
")).
Eval vm_compute in ("<<<M2823>>>" ++ check (runes_of_ascii "7cz/x~1=[HQ/x:A(ov&qJs5T2>9H=i|j3ta[")).
Eval vm_compute in ("<<<M2787>>>" ++ check (runes_of_ascii ";/,8.Dx&ZOZt4UM$f5a6\qFvu)[+P_;Nc*")).
Eval vm_compute in ("<<<M2714>>>" ++ check (runes_of_ascii "( char[] ] zchar[ Foo int32 int8")).
Eval vm_compute in ("<<<M444>>>" ++ check (runes_of_ascii "packet
//	t
/// triple
Z9_
{ }")).
Eval vm_compute in ("<<<M3735>>>" ++ check (runes_of_ascii "MetaData a1 {
    // " ++ [128512]%N ++ runes_of_ascii " emoji
}")).
Eval vm_compute in ("<<<M2688>>>" ++ check (runes_of_ascii "Li][ahWRkj9ULC5)4z,vi9B>n""<h")).
Eval vm_compute in ("<<<M3150>>>" ++ check (runes_of_ascii "packet A {
}// a// b// c
")).
Eval vm_compute in ("<<<M4037>>>" ++ check (runes_of_ascii "// c 
	packet A
    {  }
")).
Eval vm_compute in ("<<<M114>>>" ++ check (runes_of_ascii "//	t
packet
Logon { } 	 ")).
Eval vm_compute in ("<<<M3280>>>" ++ check (runes_of_ascii "options { u8x = 3
// c
}")).
Eval vm_compute in ("<<<M4165>>>" ++ check (runes_of_ascii "
// packet A { u8 x, }
")).
Eval vm_compute in ("<<<M1390>>>" ++ check (runes_of_ascii "MetaData
Header	{  }
")).
Eval vm_compute in ("<<<M2617>>>" ++ check (runes_of_ascii "packet A { @tag(1) }")).
Eval vm_compute in ("<<<M3126>>>" ++ check (runes_of_ascii "packet A {
}
// c 	")).
Eval vm_compute in ("<<<M3061>>>" ++ check (runes_of_ascii "packet A {
}
// c ")).
Eval vm_compute in ("<<<M3142>>>" ++ check (runes_of_ascii "// c" ++ [6158]%N ++ runes_of_ascii "
packet A {
}")).
Eval vm_compute in ("<<<M3094>>>" ++ check (runes_of_ascii "packet A {
}// c" ++ [8232]%N)).
Eval vm_compute in ("<<<M1156>>>" ++ check (runes_of_ascii "packet o
{//x
}")).
Eval vm_compute in ("<<<M753>>>" ++ check (runes_of_ascii "options { }
")).
Eval vm_compute in ("<<<M752>>>" ++ check (runes_of_ascii "options{}
")).
Eval vm_compute in ("<<<M2635>>>" ++ check (runes_of_ascii "packet A")).
Eval vm_compute in ("<<<M2456>>>" ++ check (runes_of_ascii "string")).
Eval vm_compute in ("<<<M2509>>>" ++ check (runes_of_ascii """a
b""")).
Eval vm_compute in ("<<<M2081>>>" ++ check (runes_of_ascii "Meta")).
Eval vm_compute in ("<<<M2472>>>" ++ check (runes_of_ascii "'1'")).
Eval vm_compute in ("<<<M2475>>>" ++ check (runes_of_ascii "'0")).
Eval vm_compute in ("<<<M2675>>>" ++ check (runes_of_ascii "1")).
