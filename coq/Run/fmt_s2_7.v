From FP Require Import Lexer Parser ShowPT Digest Formatter.
From Coq Require Import String List NArith.
Import ListNotations.
Open Scope string_scope.
Set Printing Width 100000000.
Set Printing Depth 100000000.
Definition show_fres (r : fres) : string :=
  match r with
  | FOk s => "OK:" ++ sh_escaped s ""
  | FErr s => "ERR:" ++ sh_escaped s ""
  | FPanic p => "PANIC:" ++ p
  end.
Definition check (rs : list rune) : string := digest (show_fres (format_res rs)).
Definition full (rs : list rune) : string := show_fres (format_res rs).
Eval vm_compute in ("<<<M134>>>" ++ check (runes_of_ascii "packet int
    {
match Pad as	Z9_ { [65535,
    ""// no comment"" , ""a	b""//x
, // " ++ [128512]%N ++ runes_of_ascii " emoji
""CRC32"" ,
00 , 0123456789 , 0]
:  Z9_
4294967296
: stringy ,""""//
: f32a
    ,
"""" :
//	t
// " ++ [27880; 37322]%N ++ runes_of_ascii "
Header, [""it's"" , 1,""1"" ] :
msg_type , } , @leftPad ( )
f32 Foo
    // `tick` ""quote"" 'q'
    ``	, charz {
repeat int8
options1  ,repeat  char[]
T
,
repeat string
crc // c
`doc`
    //x
    , uint8x`a\`
    ,} ,} packet
    Logon{ A, u8
metadata , @lengthOf( trueish )
// a // b
// packet A { u8 x, }
@lengthOf(u8x) @lengthOf( A)
    // " ++ [27880; 37322]%N ++ runes_of_ascii "
    repeat string
trueish
    // " ++ [128512]%N ++ runes_of_ascii " emoji
    , @tag( 3) match
    rootA as
    Pad // @lengthOf(
{42 :msg_type,[ 0
    // a // b
    ,
// trailing space 
// `tick` ""quote"" 'q'
""" ++ [128512]%N ++ runes_of_ascii """ ,00
] : asx
, [ """ ++ [233]%N ++ runes_of_ascii "t" ++ [233]%N ++ runes_of_ascii """ ,""{,}""
,""" ++ [233]%N ++ runes_of_ascii "t" ++ [233]%N ++ runes_of_ascii """ , 255 ] //	t
:T ""x y"" : calculatedFrom
[
""a	b""	,0123456789	,
    ""{,}"" ,
    3 , 3
, 7 ,
    4294967296 ,  4294967296 ]: Header , [0,4294967296,
    10
    // packet A { u8 x, }
    ,
007 , 007 ,1 , ""1"",	""`tick`""
    //	t
    ] : Packet }/// triple
,
    zchar[
0
    ] asx @lengthOf( x_y_z
    )
`{ , }`
,
repeat char[
    7 ] leftPad, stringy`` , falsey //
repeatCount
`{ , }` ,}packet
    MetaDataX // packet A { u8 x, }
{
options1,	}
    // " ++ [27880; 37322]%N ++ runes_of_ascii "
    packet
    zchar { // " ++ [27880; 37322]%N ++ runes_of_ascii "
uint16 falsey ,  match string_ as BodyLength {
[
    4294967296 , 42 ,255 , ""1""
, """ ++ [28040; 24687]%N ++ runes_of_ascii """ ,""packet"" ,""`tick`"" ]
: Logon ,
7 : packetx , } , @leftPad  (
) @calculatedFrom(
    /// triple
    ""\n"" )
    @leftPad  () match T as
packetx {""1"" :options1, } //
,uint8 MetaDataX@lengthOf(	roots  ), @tag( 0123456789 //	t
) body// packet A { u8 x, }
@calculatedFrom( ""packet"" // @lengthOf(
)
// c
// trailing space 
`{ , }` ,@lengthOf(	roots )
zchar[ 0123456789 ]
repeatCount
    , repeat int32 matchKey `a\` , @lengthOf(
    options1 )u8 pack , @rightPad( ' ' ) float32 f32a
    , @rightPad (
    /// triple
    '\x00' )
    @rightPad(	) @calculatedFrom(// trailing space 
""CRC32"" )repeat
pack { // @lengthOf(
zchar[00 ] falsey ``
    , match calculatedFrom	as // c
leftPad { 65535 // trailing space 
: // packet A { u8 x, }
Z9_
    , 007//x
:
charz,} , repeat zchar[7] Pad ,} , }
//x
")).
Eval vm_compute in ("<<<M1962>>>" ++ check (runes_of_ascii "// @lengthOf(
root packet leftPad {
    match Logon as msg_type {
        ""it's"" : int,
        """ ++ [128512]%N ++ runes_of_ascii """ : charz,
        ""a\\"" : options1,
    },
    @rightPad(' ')
    asx `doc`,
    @leftPad('0')
    uint32 charz,
    @tag(255)
    zchar[10] Pad ``,
    string asx `it's`,
}

packet Pad {
    @lengthOf(lengthOf)
    @lengthOf(crc)
    u8x `a\`,
    float64 f32a @calculatedFrom(""a\""b"") `it's`,
    @lengthOf(options1)
    @tag(42)
    @calculatedFrom(""1"")
    zchar[7] repeatCount `say ""hi""`,
    @calculatedFrom(""// no comment"")
    //x
    zchar[3] i8i8 @calculatedFrom(""// no comment"") `" ++ [233]%N ++ runes_of_ascii "`,
    @tag(65535)
    match o as float {
        [10] : len,
    },
    @tag(3)
    match repeatCount as Pad {
        [
            ""// no comment"", 42, ""\n"", 007, 3,
            ""// no comment""
        ] : calculatedFrom,
    },
    u8x {
        repeat string x `it's`,
        x @calculatedFrom(""" ++ [128512]%N ++ runes_of_ascii """),
        falsey {
            match f32a as u128 {
                [
                    ""it's"", 0123456789, 0, """ ++ [233]%N ++ runes_of_ascii "t" ++ [233]%N ++ runes_of_ascii """, 42,
                    65535, 1, 255
                ] : uint8x,
                0 : asx,
            },
            repeat packetx u `{ , }`,
            string Foo,
            x @calculatedFrom(""a	b""),
        },
        o pack,
    },// a // b
}

packet i64_ {
    repeat char[3] a1,
}

options {
}")).
Eval vm_compute in ("<<<M273>>>" ++ check (runes_of_ascii "root packet T // trailing space 
{
//	t
//
@rightPad( // " ++ [27880; 37322]%N ++ runes_of_ascii "
'\x00'
    ) repeat metadata {repeat
    i64 Z9_ , }
    , } options {_x = char[] ; tag
    =
    // packet A { u8 x, }
    uint32 calculatedFrom	=u16;  } packet // c
packetx { @leftPad /// triple
(' '	) int trueish , packetx
{
    leftPad	@lengthOf( //	t
string_ )
    , // `tick` ""quote"" 'q'
repeat o	string_	,  match // " ++ [27880; 37322]%N ++ runes_of_ascii "
stringy as packetx{ 0 :// `tick` ""quote"" 'q'
pack,
    // @lengthOf(
    ""CRC32""	:tag ,
    // trailing space 
    """ ++ [128512]%N ++ runes_of_ascii """:
    Z9_	4294967296 :  chars//x
,007 : calculatedFrom ,10
    : u8x , }
    , } // " ++ [27880; 37322]%N ++ runes_of_ascii "
, repeat BodyLength{ //	t
repeat char[ 3 ]	metadata `a\` ,  repeat char
pack`a\` , char
Header
    //	t
    @calculatedFrom(
""// no comment"")
    ,
    uint32 roots
    @lengthOf( i64_ ) ,
    }
    ,
// a // b
// trailing space 
pack , repeat len Header `
` ,	f64	f32a, char[] x,
    Header @lengthOf(a1	) , asx
@lengthOf( calculatedFrom	) ,  } MetaData roots {
options1 As// a // b
, string_
// `tick` ""quote"" 'q'
// c
float
`{ , }`
/// triple
// packet A { u8 x, }
, // trailing space 
} 	 ")).
Eval vm_compute in ("<<<M357>>>" ++ check (runes_of_ascii "MetaData msg_type{ string
charz , crc u8x  ,
    u16 x_y_z
    `u8 x,`
, i64	zchar
,
    }
    // @lengthOf(
    packet T
{
@calculatedFrom( ""a\\"" ) uint16 chars @calculatedFrom(
    ""x y"") `
` , } packet pack // a // b
{}
    options { }	packet trueish
{
    // trailing space 
    @calculatedFrom(//x
""abc""	) match chars as lengthOf  {  [ 4294967296
]
: a1[""CRC32"" ,/// triple
7	, ""1""
, 4294967296// c
,  ""a\\"" ,
    0, 65535 , ""{,}""
] :  a1 , }
// packet A { u8 x, }
// trailing space 
, string	lengthOf  `" ++ [28040; 24687; 31867; 22411]%N ++ runes_of_ascii "` ,
@lengthOf( // trailing space 
x ) match
charz as a1 { 255:// trailing space 
Logon,
    }, @calculatedFrom(
""a	b""// a // b
)  @tag(00
// " ++ [27880; 37322]%N ++ runes_of_ascii "
// `tick` ""quote"" 'q'
)	@lengthOf( zchar ) body @lengthOf(
    /// triple
    msg_type)
    , MetaDataX	@lengthOf( len ) /// triple
`a\`/// triple
, @rightPad
( '\x00' ) @lengthOf(
Packet
    ) string u128// `tick` ""quote"" 'q'
`u8 x,` // c
,
packetx @lengthOf(	o )
, }
// @lengthOf(
")).
Eval vm_compute in ("<<<M2011>>>" ++ check (runes_of_ascii "

  // top
    	packet // c0
P1  { 

// c2
u8  // c3
  a // c4
		, // c5

  }
// c6
    packet

P2 	 // c8
	{ // c9
  P1 
	    // c10
,// c11
  } packet	// c13
P3 

    // c14
  {  P2// c16a

	// c16b
,
P1 
    // c18
		,

    } 
    // c20
  packet // c21a
// c21b
P4 
// c22
{

    repeat

    P3
// c25
	, 

    // c26
P2 // c27
  ,	// c28

} 
        // c29
root packet
	P5 

// c32

	{ 	 // c33
    P4// c34a
  // c34b
  	,// c35a
  	// c35b
P3// c36
	, 	 // c37
  P1  // c38
	,
	u8 
// c40
K

, 	 // c42
		match
K // c44
as 

    // c45
  Body  // c46a
	  // c46b
  {  // c47

  4
	:	// c49
  P4 	 // c50
  ,3
	    // c52
  :
// c53
  	P3
    ,

2

// c56
:// c57a

  // c57b
	P2
        // c58
  	, // c59
    	1
    // c60
  :  // c61
    P1 
,
	}// c64
    , 	 // c65
  }  
  // c66")).
Eval vm_compute in ("<<<M171>>>" ++ check (runes_of_ascii "root  packet body { /// triple
crc
x_y_z `say ""hi""` , float// `tick` ""quote"" 'q'
_x , T// " ++ [128512]%N ++ runes_of_ascii " emoji
`a\`
    // " ++ [27880; 37322]%N ++ runes_of_ascii "
    , uint64 MetaDataX , repeat zchar[ 7 ]
    calculatedFrom `` , uint32 len
// c
// @lengthOf(
`a\` , } /// triple
options{
} packet	a1{ @tag( 1 )Logon @lengthOf(	options1) `{ , }` , @calculatedFrom( ""abc"")
    /// triple
    f32a // " ++ [27880; 37322]%N ++ runes_of_ascii "
{leftPad { // trailing space 
o matchKey
``  , }
, int32 int
// c
// @lengthOf(
``
, char[ 007 ]
    zchar
@lengthOf( Z9_ ) `tab	here`
    , char[ 1 ] falsey ,  } ,
    repeat int16 Z9_ , match	zchar as zchar{ ""packet"" :	x_y_z	,
[3
    // " ++ [128512]%N ++ runes_of_ascii " emoji
    , ""CRC32"", 0,""CRC32""//
, 0123456789 ]
: len
, [0 ,	4294967296
] :
Packet
, [65535
] : options1 [ 10]//	t
: u128 , } , // packet A { u8 x, }
}
")).
Eval vm_compute in ("<<<M1876>>>" ++ check (runes_of_ascii "  packet
Logon// c1
    { // c2

  string  // c3a
	// c3b
user // c4
,	// c5a
// c5b
    	} 
	    // c6
  	root packet	Frame// c9a
  // c9b
  { 
    // c10
u8 
    // c11
	K

,	// c13
	match

    // c14
      K 

// c15
	as 
      // c16
Body // c17a
// c17b

	{	1 // c19a
    // c19b
:
	Logon// c21
,  // c22a
    	// c22b
  2
: 
    // c24
    Logout
    // c25
    	,
    }	,
        // c28
    	Tail,
    }

    packet	// c32
Logout
// c33
  {	// c34
		u16 	 // c35a
    	// c35b

reason 	 // c36a

	// c36b
	, // c37
    } // c38a
		// c38b
  packet// c39a
    // c39b
	Tail	// c40
{

    u32 
// c42
      crc  , // c44a
// c44b
    } // c45a

  // c45b
")).
Eval vm_compute in ("<<<M296>>>" ++ check (runes_of_ascii "root
packet i64_ // " ++ [27880; 37322]%N ++ runes_of_ascii "
{match // " ++ [128512]%N ++ runes_of_ascii " emoji
rootA as stringy {
    10 : int , 7 : chars
, 7: int 4294967296: // @lengthOf(
Foo , [// trailing space 
7 , """ ++ [28040; 24687]%N ++ runes_of_ascii """  ]  :// c
BodyLength [ 0 ,""1""
    , 00 , 7
    ,""it's"" ] :
As ,
    } ,
repeat char[] a1`u8 x,`, @leftPad
// packet A { u8 x, }
// " ++ [27880; 37322]%N ++ runes_of_ascii "
(
    // trailing space 
    ' '	) packetx , @calculatedFrom(  ""\n"")  repeat matchKey
    { char[7
    // `tick` ""quote"" 'q'
    ] falsey
    `crlf
line` , } ,
// c
/// triple
@lengthOf( f32a ) uint8
Z9_
,
// a // b
//	t
falsey ,	repeat leftPad ,  @tag(1 ) u8x@lengthOf(  i64_
) , }
")).
Eval vm_compute in ("<<<M1787>>>" ++ check (runes_of_ascii "// top
root packet msg_type {
    // c3
    i64 options1,// c6
    @lengthOf(f32a)
    // c9
    repeat uint16 Foo,// c13
    @calculatedFrom(""x y"")
    // c16
    repeat int64 pack,// c20
    @leftPad(' ')
    // c24
    uint8 Foo,// c27
}// c28

packet rootA {
    // c31
    f32a x `two words`,// c35
    char asx @lengthOf(falsey) `u8 x,`,// c42
    @lengthOf(i64_)
    // c45
    uint16 chars,// c48
    @tag(0)
    // c51
    string _x @calculatedFrom(""abc"") `// not a comment`,// c58
}// c59")).
Eval vm_compute in ("<<<M1676>>>" ++ check (runes_of_ascii "  options

{LittleEndian

=false ;StringPrefixLenType=	u8	; ArrayPrefixLenType
= u16
    ; FixedStringPadFromLeft  =
false ;  }  packet
Heartbeat {  u8
seqNo
,
    @rightPad('\x00'
)	char[8  ] x

    , }
	root
    packet Trade  {  repeat 
Heartbeat , 
float32 OrderId

,
i64
    Acct	, u16  Qty
,  u16
	clOrdID ,

    match
    clOrdID
as  Body
	{
    131  : Heartbeat

, 
}
	,

    u16	sym 
@calculatedFrom( ""CRC32"" )
,}
")).
Eval vm_compute in ("<<<M117>>>" ++ check (runes_of_ascii "
packet x { @leftPad ( )	i32 float
,}
    options{  chars =
'0'
    ;Header // c
=
""`tick`""  x =
// `tick` ""quote"" 'q'
//
'\x00' ; rootA = char[	65535  ] ;
}options	{
x =
""it's"" asx
    // " ++ [27880; 37322]%N ++ runes_of_ascii "
    = char[ 007] ;  zchar= int8 ;
//	t
// a // b
zchar =true ; chars= char[]
/// triple
// `tick` ""quote"" 'q'
}
    options {  o  = 7 Logon
=	10 /// triple
body =
    false a1 // c
= ""x y"" }
")).
Eval vm_compute in ("<<<M9>>>" ++ check (runes_of_ascii "options { i64_ =// a // b
""it's"" ;
Foo =  ""\n""	; x_y_z = '\x00';
len= '0'
}	root packet Packet
{ @tag(  0)  match	crc
as A// " ++ [27880; 37322]%N ++ runes_of_ascii "
{[ ""`tick`"",
    ""`tick`""
// @lengthOf(
// a // b
, ""packet""
,
    ""CRC32""
    ,
// " ++ [27880; 37322]%N ++ runes_of_ascii "
//
""\n""
,""a\\""
,
    255 ]
    : T // c
} // @lengthOf(
, repeat float64 x,
zchar[ 00 // `tick` ""quote"" 'q'
] chars,
} //	t")).
Eval vm_compute in ("<<<M1249>>>" ++ check (runes_of_ascii "// top
packet
    // c0
calculatedFrom
    // c1
{
    // c2
@tag(
    // c3
4294967296
    // c4
)
    // c5
u
    // c6
msg_type
    // c7
,
    // c8
char[
    // c9
3
    // c10
]
    // c11
crc
    // c12
@lengthOf(
    // c13
len
    // c14
)
    // c15
`u8 x,`
    // c16
,
    // c17
}
    // c18
")).
Eval vm_compute in ("<<<M264>>>" ++ check (runes_of_ascii "
packet tag { char[]i64_
    `crlf
line`, @tag(4294967296	)
repeat // c
f32a { char[]
u8x @lengthOf( Foo)
    `{ , }` ,
match
Foo // " ++ [128512]%N ++ runes_of_ascii " emoji
as
packetx {255 : uint8x [	""\" ++ [233]%N ++ runes_of_ascii """ ]
: matchKey ,} ,	},
As @calculatedFrom( ""a	b"" )
`doc`, char[] BodyLength `two words`	, }
")).
Eval vm_compute in ("<<<M108>>>" ++ check (runes_of_ascii "packet T {	match Packet as
// c
// " ++ [27880; 37322]%N ++ runes_of_ascii "
Header { 42 : BodyLength , ""// no comment""
// `tick` ""quote"" 'q'
// packet A { u8 x, }
: matchKey ""`tick`"" :
crc ,	[ 1  ]	:o, } ,	}// " ++ [128512]%N ++ runes_of_ascii " emoji
packet As {
} options  { u128
= //x
' '
body=
    char[] }
")).
Eval vm_compute in ("<<<M487>>>" ++ check (runes_of_ascii "options
{
matchKey = 42/// triple
x='0' ;
// packet A { u8 x, }
//
charz
=
// packet A { u8 x, }
// trailing space 
true  ; } MetaData BodyLength
{
uint8
pack,zchar[ zchar[ 1]float ,  float32 x_y_z `` ,u32
_x,i16 body  , }
")).
Eval vm_compute in ("<<<M454>>>" ++ check (runes_of_ascii "options
{
matchKey = 42/// triple
x='0' ;
// packet A { u8 x, }
//
charz
=
// packet A { u8 x, }
// trailing space 
true  ; ""\n"" MetaData BodyLength
{
uint8
pack,zchar[ 1]float ,  float32 x_y_z `` ,u32
_x,i16 body  , }
")).
Eval vm_compute in ("<<<M474>>>" ++ check (runes_of_ascii "options
{
matchKey = 42/// triple
x='0' ;
// packet A { u8 x, }
//
charz
=
// packet A { u8 x, }
// trailing space 
true  ; } MetaData BodyLength
{
Packet
pack,zchar[ 1]float ,  float32 x_y_z `` ,u32
_x,i16 body  , }
")).
Eval vm_compute in ("<<<M449>>>" ++ check (runes_of_ascii "options
{
matchKey = 42/// triple
x='0' ;
// packet A { u8 x, }
//
charz
=
// packet A { u8 x, }
// trailing space 
true  } } MetaData BodyLength
{
uint8
pack,zchar[ 1]float ,  float32 x_y_z `` ,u32
_x,i16 body  , }
")).
Eval vm_compute in ("<<<M491>>>" ++ check (runes_of_ascii "options
{
matchKey = 42/// triple
x='0' ;
// packet A { u8 x, }
//
charz
=
// packet A { u8 x, }
// trailing space 
true  ; } MetaData BodyLength
{
uint8
pack,zchar[ ]float ,  float32 x_y_z `` ,u32
_x,i16 body  , }
")).
Eval vm_compute in ("<<<M1821>>>" ++ check (runes_of_ascii "root packet BodyLength {
    metadata {
        calculatedFrom,
        zchar[007] msg_type @lengthOf(int) `say ""hi""`,
        chars uint8x,
        string As @calculatedFrom(""a	b"") `
        `,/// triple
    },
}")).
Eval vm_compute in ("<<<M1414>>>" ++ check (runes_of_ascii "
root packet
	Frame{

    u8 K
,Logon
	first ,
match K

as
Body{
	1
    :
Logon
    ,2
    :
    Logout , 
}  ,}
packet
Logon

    { string
    user ,	} packet
	Logout
{ u16 reason,
	}
")).
Eval vm_compute in ("<<<M691>>>" ++ check (runes_of_ascii "// c
packet i64_ {	char[] calculatedFrom , } packet
trueish  {@calculatedFrom(
""a\\"" ) char[] { i32 falsey@lengthOf( uint8x ),
} , } // `tick` ""quote"" 'q'
options {// c
Z9_ = ' '//
}
")).
Eval vm_compute in ("<<<M679>>>" ++ check (runes_of_ascii "// c
packet { i64_	char[] calculatedFrom , } packet
trueish  {@calculatedFrom(
""a\\"" ) o { i32 falsey@lengthOf( uint8x ),
} , } // `tick` ""quote"" 'q'
options {// c
Z9_ = ' '//
}
")).
Eval vm_compute in ("<<<M242>>>" ++ check (runes_of_ascii "  options{
    // trailing space 
    A = ' '
    ; calculatedFrom
// c
// a // b
=
    ""a\""b""
;
msg_type  =	char[ 4294967296] ;
    //
    rootA
= '\x00' msg_type	= false }")).
Eval vm_compute in ("<<<M1806>>>" ++ check (runes_of_ascii "packet A {
    match k as n {
        [
            ""a"", 22, ""c c"", 4, ""e"",
            66, ""g"", 8, ""i"", 10,
            ""k""
        ] : B,
        2 : C,
    },
}")).
Eval vm_compute in ("<<<M353>>>" ++ check (runes_of_ascii "packet x  {match u128
as stringy// " ++ [128512]%N ++ runes_of_ascii " emoji
{ // a // b
[ """ ++ [28040; 24687]%N ++ runes_of_ascii """
    //	t
    ,	42 , ""// no comment"" // a // b
,""1""] :MetaDataX
, ""it's"" :o	,} ,
    }
")).
Eval vm_compute in ("<<<M1790>>>" ++ check (runes_of_ascii "
packet
Logon {

    @tag(
    42
) @rightPad (

' '
	) @leftPad

    (

)  repeat  trueish

    {
    // c
	string
T	,}
, }

")).
Eval vm_compute in ("<<<M299>>>" ++ check (runes_of_ascii "
packet a1
{ match i8i8
    as repeatCount
    // c
    { [ 00
    ] : crc, 3 :f32a 7 : matchKey , 0123456789	: float
    } , }
")).
Eval vm_compute in ("<<<M1850>>>" ++ check (runes_of_ascii "packet A {
    u16 len @lengthOf(body) `a
        b`,
    u32 crc @calculatedFrom(""CRC32"") `a
        b`,
    string body,
}")).
Eval vm_compute in ("<<<M71>>>" ++ check (runes_of_ascii "options{ BodyLength=
    '\x00' }options
{ } options {  Pad
    = ""\" ++ [233]%N ++ runes_of_ascii """  msg_type
= uint32 ; a1 = '0'  Foo =
    ' ' ; }")).
Eval vm_compute in ("<<<M2001>>>" ++ check (runes_of_ascii "packet Logon {
    @tag(42)
    @rightPad(' ')
    // c
    @leftPad()
    repeat trueish {
        string T,
    },
}")).
Eval vm_compute in ("<<<M594>>>" ++ check (runes_of_ascii "MetaData
    // trailing space 
    repeat
{ u64 chars // a // b
,char[] lengthOf `// not a comment`
    , //	t
}")).
Eval vm_compute in ("<<<M913>>>" ++ check (runes_of_ascii "packet A {
  match k as n {
    [""a"", ""bb"", 007, ""d"", ""e"", 66, ""g"", ""h"", 9, ""j"", ""k"", 12] : B,
    2 : C
  },
}")).
Eval vm_compute in ("<<<M1803>>>" ++ check (runes_of_ascii "// c
packet calculatedFrom {
    @tag(4294967296)
    u msg_type,
    char[3] crc @lengthOf(len) `u8 x,`,
}")).
Eval vm_compute in ("<<<M1255>>>" ++ check (runes_of_ascii "packet calculatedFrom // c
{ @tag( 4294967296 ) u msg_type , char[ 3 ] crc @lengthOf( len ) `u8 x,` , }")).
Eval vm_compute in ("<<<M1287>>>" ++ check (runes_of_ascii "packet calculatedFrom { @tag( 4294967296 ) u msg_type , char[ 3 ] crc @lengthOf( len ) `u8 x,` , // c
}")).
Eval vm_compute in ("<<<M1546>>>" ++ check (runes_of_ascii "
MetaData 
    // trailing space 
	  matchKey	{  u64 chars// a // b
,
char[]lengthOf
,	//	t
  }")).
Eval vm_compute in ("<<<M1133>>>" ++ check (runes_of_ascii "packet Logon
// c
{ @tag( 42 ) @rightPad ( ' ' ) @leftPad ( ) repeat trueish { string T , } , }")).
Eval vm_compute in ("<<<M1165>>>" ++ check (runes_of_ascii "packet Logon { @tag( 42 ) @rightPad ( ' ' ) @leftPad ( ) repeat trueish { string T
// c
, } , }")).
Eval vm_compute in ("<<<M339>>>" ++ check (runes_of_ascii "MetaData Z9_ {
//	t
// " ++ [27880; 37322]%N ++ runes_of_ascii "
u128 Foo  , lengthOf uint8x
    // " ++ [128512]%N ++ runes_of_ascii " emoji
    `say ""hi""` ,
    }")).
Eval vm_compute in ("<<<M1863>>>" ++ check (runes_of_ascii "packet

    A

{  match k as

n

{

[
""a""
    , ""bb""  , 007 
]  : B	,
2	: C 
}
	,

}

")).
Eval vm_compute in ("<<<M1969>>>" ++ check (runes_of_ascii "packet A {
    B b `
        x`,
    B `
        x`,
    repeat B bs `
        x`,
}")).
Eval vm_compute in ("<<<M1216>>>" ++ check (runes_of_ascii "packet o { @tag( 42 // c
) repeat x { char[ 0123456789 ] i64_ , } , } options { }")).
Eval vm_compute in ("<<<M1633>>>" ++ check (runes_of_ascii "packet A {
    match k as n {
        [1, ""bb"", 007] : B,
        2 : C,
    },
}")).
Eval vm_compute in ("<<<M1396>>>" ++ check (runes_of_ascii "packet
    orderItem  { u8 a	,
} root
packet newOrder{	orderItem	, u8 x	,}
")).
Eval vm_compute in ("<<<M1338>>>" ++ check (runes_of_ascii "packet Inner {
    u8 a,
}
root packet P {
    Inner ref_obj,
    u8 x,
}
")).
Eval vm_compute in ("<<<M1328>>>" ++ check (runes_of_ascii "MetaData _x { zchar[ 4294967296 ] lengthOf `// not a comment` , }
// c
")).
Eval vm_compute in ("<<<M797>>>" ++ check (runes_of_ascii "packet A {
  match k as n {
    [""a"", ""bb"", 007] : B
    2 : C
  },
}")).
Eval vm_compute in ("<<<M2028>>>" ++ check (runes_of_ascii "packet A { match 
k as n {	[  1
	,22  , 007 ]
:

B
	,  2
:	C }
,}")).
Eval vm_compute in ("<<<M228>>>" ++ check (runes_of_ascii "packet Z9_
    { body MetaDataX , } MetaData asx  {
} //	t")).
Eval vm_compute in ("<<<M277>>>" ++ check (runes_of_ascii "  MetaData/// triple
pack{
i64 Header
, u64
As
,
}
")).
Eval vm_compute in ("<<<M600>>>" ++ check (runes_of_ascii "MetaData
    // trailing space 
    matchKey")).
Eval vm_compute in ("<<<M1108>>>" ++ check (runes_of_ascii "MetaData zchar { // c
zchar[ 3 ] Pad , }")).
Eval vm_compute in ("<<<M1811>>>" ++ check (runes_of_ascii "  packet 
A{
	u8
x
`d" ++ [8192]%N ++ runes_of_ascii "`, 	 // c" ++ [8192]%N ++ runes_of_ascii "
} ")).
Eval vm_compute in ("<<<M1042>>>" ++ check (runes_of_ascii "packet A {
 u8 x `d 	`, // c 	
}")).
Eval vm_compute in ("<<<M1007>>>" ++ check (runes_of_ascii "packet A {
 u8 x `d" ++ [8202]%N ++ runes_of_ascii "`, // c" ++ [8202]%N ++ runes_of_ascii "
}")).
Eval vm_compute in ("<<<M1804>>>" ++ check (runes_of_ascii "options {
    u8x = 3// c
}")).
Eval vm_compute in ("<<<M1296>>>" ++ check (runes_of_ascii "packet // c
lengthOf { }")).
Eval vm_compute in ("<<<M1714>>>" ++ check (runes_of_ascii "packet	A
{
}// c" ++ [65279]%N ++ runes_of_ascii "
")).
Eval vm_compute in ("<<<M1020>>>" ++ check (runes_of_ascii "packet A {
}
// c" ++ [8239]%N)).
Eval vm_compute in ("<<<M1013>>>" ++ check (runes_of_ascii "packet A {
}// c" ++ [8233]%N)).
Eval vm_compute in ("<<<M233>>>" ++ check (runes_of_ascii " // a // b")).
Eval vm_compute in ("<<<M1049>>>" ++ check (runes_of_ascii "// c" ++ [65279]%N)).
