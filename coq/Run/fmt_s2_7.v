From FP Require Import Lexer Parser ShowPT Digest Formatter.
From Coq Require Import String List NArith.
Import ListNotations.
Open Scope string_scope.
Set Printing Width 100000000.
Set Printing Depth 100000000.
Definition show_fres (r : fres) : string :=
  match r with
  | FOk s => "OK:" ++ sh_escaped s ""
  | FErr s => "ERR:" ++ sh_escaped s ""
  | FPanic p => "PANIC:" ++ p
  end.
Definition check (rs : list rune) : string := digest (show_fres (format_res rs)).
Definition full (rs : list rune) : string := show_fres (format_res rs).
Eval vm_compute in ("<<<M754>>>" ++ check (runes_of_ascii "MetaData _x { char[ 4294967296	]
// 50% %s
// c
uint8x	,} packet
    falsey { uint8
    // a // b
    trueish
`` ,float64
    packetx `100% of %d` , stringy A
`u8 x,` // `tick` ""quote"" 'q'
,
// a // b
// c
@lengthOf(
    charz
)
match u8x as u8x { [""\" ++ [233]%N ++ runes_of_ascii """,
""" ++ [28040; 24687]%N ++ runes_of_ascii """ , 3 ,""a\""b"" ,// a // b
42 , ""// no comment"" ,
//x
/// triple
""abc""
    ,""\n"" ] : As 3:
    body , 65535 : body // " ++ [128512]%N ++ runes_of_ascii " emoji
,
[  255 ,	""a	b""
] : Packet 1
:len, }
    , @lengthOf(// `tick` ""quote"" 'q'
float
) match trueish
    as
    u128 {	1	: float , [
""{,}""] :u128, 00
:len , ""a\""b"" :metadata }, repeat
float asx
, i8 a1@calculatedFrom( ""a\\"" )
, leftPad
@calculatedFrom( """ ++ [128512]%N ++ runes_of_ascii """ ) `doc`
, uint16 trueish
    `crlf
line` ,// packet A { u8 x, }
@lengthOf( trueish
) zchar[ 3 ]Foo@lengthOf( Z9_) `crlf
line` , }
packet	pack// c
{  int len `100% of %d` ,// c
@lengthOf( chars )char[
0123456789 ] zchar
`" ++ [233]%N ++ runes_of_ascii "`
, @tag(
7 )
zchar[
10
] a1 `say ""hi""`, float64 leftPad , @calculatedFrom( """ ++ [128512]%N ++ runes_of_ascii """ ) Packet@calculatedFrom("""" )
,u {string BodyLength
, zchar[42
    ] // `tick` ""quote"" 'q'
metadata // a // b
, } ,repeat Packet {
zchar[
4294967296
]repeatCount `u8 x,` ,
    charz // " ++ [27880; 37322]%N ++ runes_of_ascii "
{
    Packet ,
//	t
// c
} , zchar[	007 ] // @lengthOf(
asx
// `tick` ""quote"" 'q'
// " ++ [27880; 37322]%N ++ runes_of_ascii "
, // a // b
} , @tag( 1
) //	t
@leftPad
( '\x00' ) //
match uint8x as f32a { ""\" ++ [233]%N ++ runes_of_ascii """ : matchKey, } ,
char[]
    //x
    As,
f32a @lengthOf(
    repeatCount )// " ++ [27880; 37322]%N ++ runes_of_ascii "
,}/// triple
root
packet
T
    {
    @lengthOf(repeatCount ) repeat matchKey`{ , }`, zchar[10 ] tag //	t
,char[ 0] As @calculatedFrom(
    ""packet"" ), @calculatedFrom( ""\" ++ [233]%N ++ runes_of_ascii """ )@lengthOf(
int)
    // c
    repeat
trueish T, float32 o `say ""hi""`
    ,
@leftPad	( ) @tag( 255 ) i16 Packet	@lengthOf(metadata )  ,	repeat	char[ 255
]	msg_type `// not a comment`
    ,
    @tag(	42 )char[]  u8x  @lengthOf( calculatedFrom ) , @tag( // trailing space 
255) char[ 007 ] calculatedFrom
@calculatedFrom( ""x y"" ),
    //	t
    @calculatedFrom(""" ++ [128512]%N ++ runes_of_ascii """	) @lengthOf(
    packetx )
@calculatedFrom(""{,}"" )
    match _x as//
o{ [ """ ++ [128512]%N ++ runes_of_ascii """, ""\" ++ [233]%N ++ runes_of_ascii """ , 65535,
    65535 , ""`tick`""
, ""// no comment"", 1 , 0123456789
] :stringy , [1	,
""x y""] : Logon , [ 0123456789,// packet A { u8 x, }
1 , ""CRC32"" , 007
    // a // b
    ]: pack [ 255,// `tick` ""quote"" 'q'
""it's"" , """ ++ [28040; 24687]%N ++ runes_of_ascii """,
// packet A { u8 x, }
// packet A { u8 x, }
""`tick`""
,
""// no comment"" , ""// no comment"", 0123456789
    ,
    /// triple
    42]
:packetx, } , } root packet BodyLength {
    x_y_z,
} // @lengthOf(")).
Eval vm_compute in ("<<<M3967>>>" ++ check (runes_of_ascii "
root

    packet Pad

{	@lengthOf( Logon  ) 
zchar[
    3 ]As // a // b
	@calculatedFrom(""x y""

    )
,
@leftPad
	( ' '

    ) matchKey `" ++ [28040; 24687; 31867; 22411]%N ++ runes_of_ascii "` ,	@tag(
    3 )
    BodyLength
{
	match

zchar

    as
int 
{
""a	b"" :
    int
	} // @lengthOf(

	,

    }  // a // b
	,
    @tag(

7
    ) match	x 
as A

{
    10// " ++ [27880; 37322]%N ++ runes_of_ascii "
:  metadata	,}

,zchar[ 3  ]

    chars 
,

len body // " ++ [128512]%N ++ runes_of_ascii " emoji
  	,
	match Z9_	as

    chars
{  ""a	b""  :	chars

    ,
},
@lengthOf( rootA 
)	//
A	,
    string tag
	, u32	a1`" ++ [28040; 24687; 31867; 22411]%N ++ runes_of_ascii "`

,	} MetaData
	string_
{
	char[]
_x, }packet x	{
    @lengthOf( As// 50% %s

)  @lengthOf( 	 //
    asx
	)  repeat  uint32
	int  ,

    @leftPad (	' '  ) repeat char[

3
    ]  o `two words` , repeat

a1
{
repeat
	f32a
	{
calculatedFrom 
crc	,

    x  Pad,
repeat  u16
	leftPad  // 50% %s
,repeat
f32a

calculatedFrom
    ,// `tick` ""quote"" 'q'
  }

,  i16 repeatCount
	,
    asx `a\` ,	}

, a1

    {
Z9_  x
    ,

charz  @lengthOf( As
) `doc`  ,  Packet u ,
	repeat	char[
007
    ] Header

    ,
	}
	, calculatedFrom 	 //	t
  lengthOf  `" ++ [28040; 24687; 31867; 22411]%N ++ runes_of_ascii "`,
crc `a\`
, 
repeat
char[]falsey

    , @tag(42
)string matchKey
,
	zchar	, @tag(0

// trailing space 
/// triple
  ) zchar[	007

    ] // packet A { u8 x, }

	u128
    `two words`
,}	MetaData
f32a	{ }

    packet  calculatedFrom
	{@leftPad
(
'0'
)

@rightPad  (  ' ' )
	metadata	Foo , @tag( 1
)
	int64 Pad

    `line1
line2`	,tag @lengthOf( 
Header  ) 
,
string
	u128	,  @calculatedFrom(

    ""x y""
	)@lengthOf(
i64_

)

tag	/// triple
  { o

    ,

Packet@calculatedFrom(
	""`tick`""
    )	,
    }
,// @lengthOf(
    	i32 leftPad@lengthOf( 
u  // " ++ [27880; 37322]%N ++ runes_of_ascii "
  )

    , i16 
Logon,
@calculatedFrom(	""it's""
    )
uint16 
BodyLength

@calculatedFrom( // packet A { u8 x, }
		""" ++ [233]%N ++ runes_of_ascii "t" ++ [233]%N ++ runes_of_ascii """	)
	// trailing space 
,	zchar[
10 ]
    x

    @calculatedFrom(  """" 
    // " ++ [27880; 37322]%N ++ runes_of_ascii "
	// 50% %s
), }
")).
Eval vm_compute in ("<<<M3911>>>" ++ check (runes_of_ascii "options {
    Pad = '0'
    o = true;// c
    x = false
}

root packet trueish {
    @tag(4294967296)
    repeat u32 metadata,
    @calculatedFrom(""CRC32"")
    @rightPad()
    @lengthOf(x_y_z)
    falsey {
        i8 i8i8 `it's`,
        Header {
            // trailing space 
            repeat calculatedFrom {
                calculatedFrom `{ , }`,
            },
        },
        repeat Pad,
    },
    x_y_z u8x `// not a comment`,
    lengthOf tag,// `tick` ""quote"" 'q'
    repeat zchar[7] options1,
    f32 _x `// not a comment`,
    match calculatedFrom as o {
        [0, 0] : uint8x,
        [""`tick`""] : options1,
        [
            7, 255, """ ++ [233]%N ++ runes_of_ascii "t" ++ [233]%N ++ runes_of_ascii """, """", ""\n"",
            65535
        ] : options1,
        ""// no comment"" : pack,
        [007, ""packet"", 3, 0123456789] : MetaDataX,
    },
    match string_ as roots {
        [0] : crc,
    },
    @lengthOf(asx)
    roots,
    @lengthOf(i8i8)
    u,
}

packet Logon {
    @calculatedFrom(""a\\"")
    @tag(1)
    @leftPad('\x00')
    roots @lengthOf(metadata),
    zchar[4294967296] roots `say ""hi""`,
    match u as chars {
        10 : roots,
        ""`tick`"" : o,
        255 : int,
        [1, 10, """ ++ [128512]%N ++ runes_of_ascii """] : Packet,
        // trailing space 
        255 : Header,
        [
            ""a\\"", 0123456789, 65535, ""\" ++ [233]%N ++ runes_of_ascii """, 65535,
            1, ""\n""
        ] : u,
    },
    _x @calculatedFrom(""" ++ [128512]%N ++ runes_of_ascii """) `100% of %d`,
    uint8 As @lengthOf(BodyLength),
}

options {
    u = ""a	b"";
    float = zchar[1];
}

options {
    //x
    //
    metadata = ""it's"";
    rootA = '0'
    /// triple
    // packet A { u8 x, }
    A = true;
}")).
Eval vm_compute in ("<<<M4011>>>" ++ check (runes_of_ascii "
options {  StringPrefixLenType=	u16; ArrayPrefixLenType

    =u16

;
    }packet SampleBinary
{  uint16	MsgType
    `" ++ [28040; 24687; 31867; 22411]%N ++ runes_of_ascii "`	, u16 
BodyLenght

    @lengthOf(	Body) `" ++ [28040; 24687; 20307; 38271; 24230]%N ++ runes_of_ascii "`
,
match

MsgType
as

    Body {

1

    :  Logon
,  2 
:
    Logout	,
    3 :Heartbeat
    ,
4  :RiskControlRequest	,

5:RiskControlResponse

, }

    ,	@calculatedFrom(  ""CRC32"" 
)u32 
Ckecksum

    `" ++ [26657; 39564; 21644]%N ++ runes_of_ascii "`
,} 
packet
    Logon
	{
@leftPad
    (	'0' )char[

    10 ]
    UserName
    `" ++ [29992; 25143; 21517]%N ++ runes_of_ascii "` , string
Password `" ++ [23494; 30721]%N ++ runes_of_ascii "` ,uint64
	ClientId

    `" ++ [23458; 25143; 31471]%N ++ runes_of_ascii "ID`

    ,
u16

HeartbeatInterval `" ++ [24515; 36339; 38388; 38548]%N ++ runes_of_ascii "`
	, }packet Logout 
{ @rightPad
('0')  char[

10
] UserName 
`" ++ [29992; 25143; 21517]%N ++ runes_of_ascii "`  ,
	uint64

ClientId`" ++ [23458; 25143; 31471]%N ++ runes_of_ascii "ID`	,	} packet Heartbeat

    {
}
	packet RiskControlRequest	{

    string
	UniqueOrderId `" ++ [21807; 19968; 35746; 21333; 21495]%N ++ runes_of_ascii "`,char[16 ]

    ClOrdID
`" ++ [23458; 25143; 35746; 21333; 21495]%N ++ runes_of_ascii "`,
char[ 3 
]
MarketID
`" ++ [24066; 22330]%N ++ runes_of_ascii "id`

    , char[  12

    ] 
SecurityID	`" ++ [35777; 21048; 20195; 30721]%N ++ runes_of_ascii "`
	,
char
Side`" ++ [20080; 21334; 26041; 21521]%N ++ runes_of_ascii "` ,
	char
    OrderType  `" ++ [35746; 21333; 31867; 22411]%N ++ runes_of_ascii "`	,

u64

Price`" ++ [20215; 26684]%N ++ runes_of_ascii "` 
,
    u32

    Qty `" ++ [25968; 37327]%N ++ runes_of_ascii "`
, 
repeat
    string
	ExtraInfo 
`" ++ [38468; 21152; 20449; 24687]%N ++ runes_of_ascii "`

    ,
	repeat	SubOrder  {
char[
16]

    ClOrdID  `" ++ [23376; 35746; 21333; 21495]%N ++ runes_of_ascii "` 
,

u64

    Price`" ++ [23376; 35746; 21333; 20215; 26684]%N ++ runes_of_ascii "`

    ,u32

Qty
    `" ++ [23376; 35746; 21333; 25968; 37327]%N ++ runes_of_ascii "` 
,  }

    , }
    packet
RiskControlResponse{

string
    UniqueOrderId `" ++ [21807; 19968; 35746; 21333; 21495]%N ++ runes_of_ascii "`
    ,

i32
Status
	`" ++ [29366; 24577]%N ++ runes_of_ascii "` ,

string 
Msg

    `" ++ [32467; 26524; 20449; 24687]%N ++ runes_of_ascii "`
,repeat Detail ,	}
packet
Detail{ string	RuleName
`" ++ [35268; 21017; 21517; 31216]%N ++ runes_of_ascii "`
    ,

u16 
Code

    `" ++ [21407; 22240; 20195; 30721]%N ++ runes_of_ascii "`

,}
")).
Eval vm_compute in ("<<<M159>>>" ++ check (runes_of_ascii "
options { } packet
x { }
root packet stringy { len // @lengthOf(
{// a // b
Header chars`{ , }` ,match rootA
as string_ { ""a\\"" :
a1 ,// " ++ [128512]%N ++ runes_of_ascii " emoji
}
,
packetx pack
// a // b
// @lengthOf(
, /// triple
f64
// a // b
// packet A { u8 x, }
float
`" ++ [28040; 24687; 31867; 22411]%N ++ runes_of_ascii "`,
} , @calculatedFrom(  """ ++ [233]%N ++ runes_of_ascii "t" ++ [233]%N ++ runes_of_ascii """)zchar[
    7]
    // packet A { u8 x, }
    i64_ @lengthOf( T)
// @lengthOf(
// " ++ [27880; 37322]%N ++ runes_of_ascii "
`crlf
line` , // packet A { u8 x, }
int int
    // " ++ [27880; 37322]%N ++ runes_of_ascii "
    , zchar[ 007
    // a // b
    ]
i8i8 `
`
    ,
    @rightPad// c
()repeat char[] f32a`it's`	,
@rightPad( ' ' )
Pad @calculatedFrom( ""// no comment"" ) `a\` , u{
zchar[
007
    ] roots,
} ,char[ 4294967296]i8i8
    @calculatedFrom( ""{,}"" ) , }
    //
    MetaData
    int { string packetx `// not a comment`,
    }
    root packet
    len { uint8 lengthOf `line1
line2` , @calculatedFrom( ""a	b"") @lengthOf(
    // a // b
    chars )@rightPad
    ( '0'
    ) int64 u8x `{ , }` ,
@calculatedFrom(
    // c
    """ ++ [128512]%N ++ runes_of_ascii """
) match u8x as
    A{ [ """" // packet A { u8 x, }
, 10 , 4294967296 , """ ++ [233]%N ++ runes_of_ascii "t" ++ [233]%N ++ runes_of_ascii """] : Pad ,// a // b
""it's"" : packetx 255 : repeatCount [
""" ++ [233]%N ++ runes_of_ascii "t" ++ [233]%N ++ runes_of_ascii """ , ""1"" ]
:Pad
    , }, @tag(	10 )
Header u
    ,uint8 trueish `` ,
    @rightPad (' ' ) falsey ,@tag(
0 )@calculatedFrom( ""1""
) @leftPad
    ( '\x00' ) o ,}
// trailing space 
")).
Eval vm_compute in ("<<<M1007>>>" ++ check (runes_of_ascii "packet
    x
    //x
    { } MetaData msg_type
{_x
    len // trailing space 
`it's`, char[] Pad `line1
line2`, As asx
, A
// `tick` ""quote"" 'q'
// 50% %s
options1 `
` , char[ 1 ]
    int
// a // b
// c
`say ""hi""` ,  stringy
    uint8x, } options {
u128 =
    zchar[	255] ; crc = '\x00' ;
    A = char[ 42] ;
} packet Z9_	{
    //	t
    @lengthOf(
    lengthOf
)float64 Packet @calculatedFrom( ""a\""b"" ),
    chars
    {
len	{ Logon len
, string string_,
u8x @calculatedFrom( ""a\\""  ) , repeat float { body int	`two words` , } , //	t
} , char[] f32a  ,i32 crc
, A	@calculatedFrom(
    ""\" ++ [233]%N ++ runes_of_ascii """),  } , zchar[
42 ]// trailing space 
x  ,@rightPad ( ' ' )
// " ++ [128512]%N ++ runes_of_ascii " emoji
// trailing space 
repeat // 50% %s
x_y_z len `// not a comment` , x  {
match // a // b
x_y_z as tag { 4294967296	: asx}
, } , char[] trueish @calculatedFrom(
    ""abc"")  ,
}
/// triple
// trailing space 
packet u { @calculatedFrom( """ ++ [233]%N ++ runes_of_ascii "t" ++ [233]%N ++ runes_of_ascii """
    )
@calculatedFrom(""it's"" )
match crc as  u128//	t
{ 3 :falsey 7: o	, 0 :
// 50% %s
// " ++ [128512]%N ++ runes_of_ascii " emoji
T , 65535 //
:Logon
, [ 0 ] :leftPad
    // trailing space 
    , [ """ ++ [233]%N ++ runes_of_ascii "t" ++ [233]%N ++ runes_of_ascii """ ,
// @lengthOf(
// @lengthOf(
00  ]  : Packet
    ,
    }
,} // packet A { u8 x, }")).
Eval vm_compute in ("<<<M3524>>>" ++ check (runes_of_ascii "packet Frame {
    // c2
u8 HK
    // c4
, // c5
u8
    // c6
BK , // c8a
  // c8b
u8 // c9
TK // c10
, // c11a
  // c11b
match HK // c13
as // c14a
  // c14b
Hdr { 1
    // c17
: HdrA // c19a
  // c19b
, 2
    // c21
: // c22
HdrB
    // c23
, // c24a
  // c24b
} // c25
, // c26a
  // c26b
match // c27a
  // c27b
BK
    // c28
as Body // c30
{ 1 : // c33
BodyA
    // c34
, 2
    // c36
: // c37a
  // c37b
BodyB // c38
, }
    // c40
,
    // c41
match TK // c43
as
    // c44
Trl {
    // c46
1 // c47
: // c48a
  // c48b
TrlA , } // c51a
  // c51b
, // c52
} packet HdrA { u8 a // c58
, } // c60
packet
    // c61
HdrB
    // c62
{ // c63
u16 // c64a
  // c64b
b ,
    // c66
}
    // c67
packet
    // c68
BodyA // c69
{
    // c70
u32
    // c71
c
    // c72
, // c73
} // c74a
  // c74b
packet // c75
BodyB // c76
{ // c77
u64 d // c79a
  // c79b
,
    // c80
}
    // c81
packet TrlA // c83a
  // c83b
{ // c84
u8
    // c85
e
    // c86
, // c87a
  // c87b
} // c88
root packet Msg // c91a
  // c91b
{ // c92a
  // c92b
Frame // c93a
  // c93b
,
    // c94
u8 // c95
x , } // c98
")).
Eval vm_compute in ("<<<M803>>>" ++ check (runes_of_ascii "options
    // 50% %s
    {
T	=
    3 lengthOf  = true
; msg_type = float64
    ;
    Foo= zchar[  4294967296 ] ;	zchar =  ""abc""
    ;}
// " ++ [128512]%N ++ runes_of_ascii " emoji
// " ++ [27880; 37322]%N ++ runes_of_ascii "
packet x{ @lengthOf(// packet A { u8 x, }
matchKey )@calculatedFrom(""a\\"")
repeat string u128
    , @calculatedFrom(""a\""b"" )i32 x @calculatedFrom( ""x y"" ) , char[] Foo ,@calculatedFrom( ""// no comment""	) @lengthOf(
string_ )@tag(  0123456789 )	repeat zchar[ 7
] tag
`100% of %d` , @lengthOf( msg_type  )
match msg_type as
    MetaDataX {
[ """ ++ [28040; 24687]%N ++ runes_of_ascii """
// " ++ [27880; 37322]%N ++ runes_of_ascii "
// 50% %s
, 00, ""packet"" ,  7
, 7 ,
    7 , 1 , ""a	b"" //
]
    : u8x 0123456789 : // @lengthOf(
Header,
0123456789 :
    falsey ,// 50% %s
65535 :
    //
    u8x  , } ,@tag(	007 ) char[] len // packet A { u8 x, }
,
    } options { Pad =
    ""// no comment""
;
i8i8
    // trailing space 
    = zchar[
// 50% %s
// 50% %s
42
    ];	leftPad	=10  } options { i8i8=
true f32a =
255  ; Pad= '\x00' ;// @lengthOf(
}
    /// triple
    packet
repeatCount {// trailing space 
@leftPad (  '\x00' )
msg_type Logon , }
")).
Eval vm_compute in ("<<<M4414>>>" ++ check (runes_of_ascii "
//x
	packet

// c
      roots{
} options 
  // " ++ [128512]%N ++ runes_of_ascii " emoji

// @lengthOf(
    { Header

=
zchar[ 
4294967296

] ;
	crc 
=""a\\"" 

    //x
// packet A { u8 x, }
	; o 
=

    // " ++ [128512]%N ++ runes_of_ascii " emoji

	""a	b""
    }
root 	 // @lengthOf(
	packet 
Header// `tick` ""quote"" 'q'
  { charz 
, repeat
Logon
	{ repeat

    o
`doc`
	,
	repeatCount
{
    matchKey
{	match  Pad

as
lengthOf {
4294967296
    /// triple
// trailing space 

  ://	t
    repeatCount 
, 3:
    leftPad
}
,

Z9_ 
@calculatedFrom(""" ++ [233]%N ++ runes_of_ascii "t" ++ [233]%N ++ runes_of_ascii """
)

    `two words`

,
match
	msg_type as 
Logon 
{ 3
:	options1

},	repeat
i64_ // 50% %s
tag
    `line1
line2`  ,
    }
    , 
},
// " ++ [128512]%N ++ runes_of_ascii " emoji
    	// a // b
    	i64 	 //	t

	f32a`two words`
	, u
	@lengthOf( 
matchKey
	)  // 50% %s
      `a\`

    , } ,

    int8 

// packet A { u8 x, }

packetx

,
    // packet A { u8 x, }
    }  MetaData
i64_  {	uint16	body ,  }	options

{ u8x
=1; len

=char[
007

]

;
	_x 

//x
// a // b
=

    """ ++ [128512]%N ++ runes_of_ascii """
}  // " ++ [27880; 37322]%N ++ runes_of_ascii "
")).
Eval vm_compute in ("<<<M3691>>>" ++ check (runes_of_ascii "//x
    packet
float
{uint8

calculatedFrom `tab	here` 
,
    }
root

packet  Packet
    {	/// triple
	  match 
calculatedFrom

    as
leftPad{""" ++ [28040; 24687]%N ++ runes_of_ascii """:u
,
    } , match chars	//	t
as
    int
{""x y"" :	trueish  ,  
  // @lengthOf(

	65535 

// `tick` ""quote"" 'q'
  //	t
: asx  [
	1 ,

    3,
    007 
, 7

    ,  ""it's""

    ]  : 

    // trailing space 
  	//

calculatedFrom

,

}
    , 
uint16
	options1
@lengthOf( 
a1 )

,
    u64	asx 	 /// triple
    @calculatedFrom(""abc"" )  ,	} 
packet  leftPad{float32
packetx 
  //x
  	@lengthOf( Packet ),
	    // @lengthOf(

/// triple
    @tag( 
00)@leftPad 
    //x

	// packet A { u8 x, }

(
'\x00'

    ) 
@calculatedFrom(

    """ ++ [128512]%N ++ runes_of_ascii """)
	Packet {  // `tick` ""quote"" 'q'
  uint16	x_y_z 
@calculatedFrom( 
""{,}""
)	,  } , repeat 
rootA	{zchar[
	0]i64_
	,	i8
Logon@lengthOf( asx )
	, } ,
	match
    msg_type as 
leftPad
{
	[

""" ++ [28040; 24687]%N ++ runes_of_ascii """
] :
Z9_,
},

}
")).
Eval vm_compute in ("<<<M1087>>>" ++ check (runes_of_ascii "root
packet Logon { @tag(
// 50% %s
// @lengthOf(
7 ) zchar[ 1 ]matchKey `say ""hi""` ,
    rootA
    `" ++ [233]%N ++ runes_of_ascii "`
    ,
match
    // packet A { u8 x, }
    string_ //x
as trueish {// trailing space 
[ 4294967296] : BodyLength , // 50% %s
7 :
BodyLength
, [""// no comment""
    , 65535
    ,
42 ,
    ""it's"" ,""\" ++ [233]%N ++ runes_of_ascii """ ]// a // b
: len
[ 1 ,""// no comment""  ]
    : matchKey ""packet""
: //x
Pad
    ,	} , @tag(10 )
// 50% %s
/// triple
@rightPad( '0'  ) char[ 1] /// triple
x_y_z
    @calculatedFrom( """ ++ [28040; 24687]%N ++ runes_of_ascii """ )
`" ++ [28040; 24687; 31867; 22411]%N ++ runes_of_ascii "`
, repeat string i64_ `u8 x,` ,char[] leftPad , @calculatedFrom(
""" ++ [28040; 24687]%N ++ runes_of_ascii """) match Packet as
chars // a // b
{ ""\" ++ [233]%N ++ runes_of_ascii """ :metadata  ,
    } , }
packet
packetx { uint32 len
@calculatedFrom( """ ++ [28040; 24687]%N ++ runes_of_ascii """
)  `tab	here`,@rightPad  (	' ' ) uint8 u128 `crlf
line`	, @rightPad  ('0' ) @lengthOf(
zchar /// triple
) @tag(
    3
) string
Logon , repeat
// a // b
/// triple
int16 charz, }")).
Eval vm_compute in ("<<<M1204>>>" ++ check (runes_of_ascii "
packet Z9_ { repeatCount
    // `tick` ""quote"" 'q'
    { match Packet
as pack{ [""" ++ [128512]%N ++ runes_of_ascii """
]: Header 65535 : trueish,},
len
    , //	t
pack @calculatedFrom(
    // 50% %s
    ""x y"" )	,
}
,
char[ 0123456789]// a // b
x
    ,
// a // b
// " ++ [27880; 37322]%N ++ runes_of_ascii "
}  packet Packet {
uint16
msg_type@calculatedFrom(
    """ ++ [128512]%N ++ runes_of_ascii """ ), f32 crc @lengthOf(	repeatCount )
    `// not a comment` , u32  i64_,@tag( // `tick` ""quote"" 'q'
0123456789	)
    asx {
    asx { repeat
zchar repeatCount `a\`
    // " ++ [27880; 37322]%N ++ runes_of_ascii "
    ,
// " ++ [27880; 37322]%N ++ runes_of_ascii "
// @lengthOf(
Logon
,
    match calculatedFrom as
crc {
// packet A { u8 x, }
// a // b
""" ++ [28040; 24687]%N ++ runes_of_ascii """// `tick` ""quote"" 'q'
:
    MetaDataX
,3 :len ,	[ ""1""
    ]: zchar
0
: f32a ,// `tick` ""quote"" 'q'
} , } , char[
1	] pack , string
    uint8x@calculatedFrom( ""it's"" )
`line1
line2` ,
} ,	} // " ++ [128512]%N ++ runes_of_ascii " emoji
MetaData Foo
    {
// " ++ [27880; 37322]%N ++ runes_of_ascii "
//	t
} // 50% %s")).
Eval vm_compute in ("<<<M1183>>>" ++ check (runes_of_ascii "packet
body {// @lengthOf(
repeat	i8i8 {
match // c
calculatedFrom as  T {  255 : repeatCount // `tick` ""quote"" 'q'
,
    [ // " ++ [128512]%N ++ runes_of_ascii " emoji
65535
    ,  ""it's"" , ""a	b""
, 007, ""`tick`"" , 10,
""`tick`"" , 4294967296 ] :
    float [ 42	,  0123456789
    ,  ""`tick`"" , ""a\\"",
""1"" ,007
] : packetx , } ,
} , i8 string_ @lengthOf( Z9_  ) , char[
255	]
    roots @calculatedFrom( """" )  `u8 x,` ,
}
// packet A { u8 x, }
//x
packet // 50% %s
_x
    {  @tag(00 )repeat a1 { char[] i8i8 @calculatedFrom( ""\" ++ [233]%N ++ runes_of_ascii """ ) , options1  @lengthOf( Foo ) ,
u32 falsey , f32 f32a @calculatedFrom( ""`tick`""
    ) , }, char T ,
}
// c
// a // b
MetaData falsey{ /// triple
x falsey
    ,u16 msg_type
    `a\` , calculatedFrom  crc /// triple
`it's` , char[ 7
    ]// c
Z9_// " ++ [27880; 37322]%N ++ runes_of_ascii "
`tab	here`,zchar[ 0 ] BodyLength `" ++ [233]%N ++ runes_of_ascii "` ,
}

")).
Eval vm_compute in ("<<<M4309>>>" ++ check (runes_of_ascii "MetaData leftPad {
    f32a BodyLength,
    i8 stringy `two words`,
    zchar[42] calculatedFrom,
    string chars,
}

options {
    u = 3
}

packet lengthOf {
    repeat u `
    `,
    i64_ `" ++ [28040; 24687; 31867; 22411]%N ++ runes_of_ascii "`,
    @rightPad()
    As float,
    zchar[7] options1 @calculatedFrom(""a	b""),
    char[] _x @calculatedFrom(""" ++ [128512]%N ++ runes_of_ascii """),
    @rightPad(' ')
    Header `it's`,
    i8 tag @calculatedFrom(""" ++ [233]%N ++ runes_of_ascii "t" ++ [233]%N ++ runes_of_ascii """) ``,
    metadata @calculatedFrom(""// no comment""),
}

packet Foo {
    @calculatedFrom(""\n"")
    @rightPad()
    match T as Pad {
        """ ++ [28040; 24687]%N ++ runes_of_ascii """ : Header,
    },
    u {
        chars @calculatedFrom(""\" ++ [233]%N ++ runes_of_ascii """),
    },
    @calculatedFrom(""a\""b"")
    @calculatedFrom(""" ++ [128512]%N ++ runes_of_ascii """)
    // packet A { u8 x, }
    @lengthOf(BodyLength)
    uint8x @calculatedFrom(""`tick`""),
    i32 u,
}")).
Eval vm_compute in ("<<<M437>>>" ++ check (runes_of_ascii "root packet metadata{i8	Z9_ // c
@calculatedFrom(""packet"" // c
)	,
@tag(
42
    )@lengthOf(  packetx// trailing space 
)
    @lengthOf(// `tick` ""quote"" 'q'
calculatedFrom //
)	Foo /// triple
_x // `tick` ""quote"" 'q'
, @tag( 4294967296)	match Foo as u8x{ 1
:
    crc ""a\""b""
: BodyLength// " ++ [128512]%N ++ runes_of_ascii " emoji
42: i64_,
} ,@calculatedFrom( """ ++ [28040; 24687]%N ++ runes_of_ascii """ )
    repeatCount , repeat
    // @lengthOf(
    zchar[ 1 ]
    u8x
,@rightPad ( '0' ) @calculatedFrom(
    """ ++ [128512]%N ++ runes_of_ascii """ //
) @calculatedFrom( ""it's""  ) zchar[ 0123456789
] falsey ,
    repeat
i8i8{match uint8x	as A { ""{,}""// c
: len ,  } ,zchar[ 007] // trailing space 
T `" ++ [233]%N ++ runes_of_ascii "`
    ,	x
    /// triple
    BodyLength ,repeat
    zchar[	1 ]BodyLength `say ""hi""`, // @lengthOf(
} ,
}
//	t
")).
Eval vm_compute in ("<<<M4346>>>" ++ check (runes_of_ascii "packet o {
}

options {
}

root packet matchKey {
    // trailing space 
    uint32 stringy,
    int64 msg_type @calculatedFrom(""" ++ [233]%N ++ runes_of_ascii "t" ++ [233]%N ++ runes_of_ascii """) `{ , }`,
    repeat Logon {
        repeat roots Header `two words`,
        u16 falsey `// not a comment`,
    },
    tag @calculatedFrom(""CRC32"") `crlf
    line`,
    char[] Pad `100% of %d`,
    match Header as falsey {
        """ ++ [28040; 24687]%N ++ runes_of_ascii """ : string_,
        // a // b
        7 : x_y_z,
        [
            ""`tick`"", ""`tick`"", 0123456789, 65535, 7,
            65535, ""abc""
        ] : MetaDataX,
    },
    i64_ crc,
}

options {
    zchar = char[4294967296];
    leftPad = 0123456789;
    trueish = """"
    //x
    //	t
    Logon = '\x00';
}")).
Eval vm_compute in ("<<<M3395>>>" ++ check (runes_of_ascii "// top
MetaData
    // c0
Pad
    // c1
{
    // c2
x_y_z
    // c3
a1
    // c4
,
    // c5
int8
    // c6
trueish
    // c7
`two words`
    // c8
,
    // c9
char[]
    // c10
x_y_z
    // c11
`{ , }`
    // c12
,
    // c13
zchar[
    // c14
1
    // c15
]
    // c16
pack
    // c17
`
`
    // c18
,
    // c19
len
    // c20
i64_
    // c21
,
    // c22
}
    // c23
MetaData
    // c24
crc
    // c25
{
    // c26
zchar[
    // c27
7
    // c28
]
    // c29
Z9_
    // c30
,
    // c31
char[]
    // c32
options1
    // c33
,
    // c34
uint32
    // c35
options1
    // c36
,
    // c37
u
    // c38
MetaDataX
    // c39
,
    // c40
}
    // c41
")).
Eval vm_compute in ("<<<M949>>>" ++ check (runes_of_ascii "  MetaData pack { pack x
`" ++ [233]%N ++ runes_of_ascii "`
,} packet u	{ match
len
    as roots
{
    [ 3 , 0123456789
    , ""1"",""" ++ [128512]%N ++ runes_of_ascii """ , 1,
// `tick` ""quote"" 'q'
//
255, 1 ]: matchKey , [	""x y""
    , ""1"" ]:A 255 : Logon, 1 :
    // `tick` ""quote"" 'q'
    Z9_//x
,
    }
    //x
    ,repeat float ,  @tag( 0
    ) string pack@calculatedFrom( """ ++ [28040; 24687]%N ++ runes_of_ascii """
    ) , char[ 3 ] charz @calculatedFrom(
    ""\" ++ [233]%N ++ runes_of_ascii """) , @lengthOf( u )@leftPad
( // a // b
'0' )
match BodyLength
    as msg_type // " ++ [128512]%N ++ runes_of_ascii " emoji
{ 10 :As ,[ 10 ,""CRC32"" ]:
    crc , 1
/// triple
//	t
:	matchKey ""// no comment"" : calculatedFrom ,
7: calculatedFrom , ""`tick`""
    :
zchar
    }
,
    As tag, }
")).
Eval vm_compute in ("<<<M972>>>" ++ check (runes_of_ascii "// a // b
packet
    Pad {  char uint8x @lengthOf( Z9_ )  , @tag( 42)@calculatedFrom( ""it's"" ) @leftPad ( '\x00'  ) float @lengthOf( int )
    , char[//x
1
] MetaDataX @calculatedFrom( ""packet"" // trailing space 
) `100% of %d` ,
string o@calculatedFrom(""" ++ [128512]%N ++ runes_of_ascii """ //
) // trailing space 
,
int64 asx @calculatedFrom( ""CRC32""
    ),
} MetaData Logon {
char[
42 ]  rootA
    `say ""hi""` , int32 a1 ,
    repeatCount options1 ,char[] BodyLength , Foo  x
, char[
    00 ] repeatCount
    ,
    } options
{
pack=""" ++ [128512]%N ++ runes_of_ascii """ pack = 42 ; //
options1 = ""it's""	u = u16
    // c
    ; float	=
string }
// @lengthOf(
")).
Eval vm_compute in ("<<<M3980>>>" ++ check (runes_of_ascii "root packet charz {
    i8i8 @calculatedFrom(""a\\""),
    body roots,
}

packet msg_type {
    @lengthOf(asx)
    repeat Header {
        match BodyLength as msg_type {
            [00, 3] : BodyLength,
            [0123456789, ""it's""] : charz,
            // " ++ [27880; 37322]%N ++ runes_of_ascii "
            0123456789 : msg_type,
        },
        char[42] i64_ @calculatedFrom(""packet"") `a\`,
        zchar[0] options1 `tab	here`,
    },
    @calculatedFrom(""\n"")
    zchar[255] msg_type,//x
    match repeatCount as repeatCount {
        42 : rootA,
    },
}

options {
    calculatedFrom = true
}")).
Eval vm_compute in ("<<<M802>>>" ++ check (runes_of_ascii "// `tick` ""quote"" 'q'
packet Header // " ++ [27880; 37322]%N ++ runes_of_ascii "
{ zchar[
    // packet A { u8 x, }
    00
]
Pad@lengthOf(  falsey
) `100% of %d`//x
, match
    Foo as i64_ { [ 255
,
    ""// no comment""//	t
,  """" //	t
, ""a	b"", 10 ,// " ++ [128512]%N ++ runes_of_ascii " emoji
""x y"", ""a\""b""] :
o ,
42
    : trueish,
// " ++ [27880; 37322]%N ++ runes_of_ascii "
// trailing space 
7 : falsey
    ,
""\" ++ [233]%N ++ runes_of_ascii """
    :	uint8x } ,	i8i8
@lengthOf( options1),
char[] zchar // " ++ [27880; 37322]%N ++ runes_of_ascii "
@calculatedFrom(
    """ ++ [128512]%N ++ runes_of_ascii """ ) `doc` ,}packet
    trueish {	@tag( 0 ) string msg_type @calculatedFrom(
    // trailing space 
    ""{,}""
    ) `` ,Z9_ @calculatedFrom(	""1"" ) , }")).
Eval vm_compute in ("<<<M4256>>>" ++ check (runes_of_ascii "options {
    LittleEndian = true;
}

packet Logon {
    // c9a
    // c9b
    u8 x,// c12
}// c13

packet Logout {
    // c16
    u16 reason,// c19
}// c20a

// c20b
root packet Frame {
    u16 Kind,// c27
    u16 Kind2,// c30a
    // c30b
    match Kind as Body {
        // c35
        1 : Logon,
        // c39
        [2, 3, 4] : Logout,
        // c49
        100 : Logon,
        // c53
    },// c55
    match Kind2 as Trailer {
        // c60a
        // c60b
        0 : Logout,
    },// c66a
    // c66b
}// c67a
// c67b")).
Eval vm_compute in ("<<<M583>>>" ++ check (runes_of_ascii "
MetaData
i64_
{ uint8x// c
As
    `say ""hi""` , body options1 `
`
    ,
    // packet A { u8 x, }
    string_
    chars ,
    u64 f32a , }	root
packet T { @tag( 00
    )
    pack @calculatedFrom( ""// no comment""
    // `tick` ""quote"" 'q'
    )
,	lengthOf rootA`" ++ [233]%N ++ runes_of_ascii "`
, @lengthOf( i64_
    )repeat falsey{
repeat BodyLength
    {
    len
// packet A { u8 x, }
// @lengthOf(
,} // " ++ [128512]%N ++ runes_of_ascii " emoji
,
    uint32 crc	@lengthOf(stringy
// @lengthOf(
// " ++ [27880; 37322]%N ++ runes_of_ascii "
) `" ++ [28040; 24687; 31867; 22411]%N ++ runes_of_ascii "` ,
} , // " ++ [128512]%N ++ runes_of_ascii " emoji
u8
i64_
@lengthOf(	rootA) ,
    }
")).
Eval vm_compute in ("<<<M921>>>" ++ check (runes_of_ascii "root  packet Header{o// c
rootA `100% of %d` , @calculatedFrom(""abc"") @rightPad	( ) @tag(
//x
// a // b
255)
    repeat asx `
`,
    repeat x_y_z zchar `line1
line2`, } // `tick` ""quote"" 'q'
packet charz { }
root packet matchKey	{BodyLength
{ match A as /// triple
options1 { [ 4294967296
,""\n""] : leftPad//x
, }
, repeat char[ 7 ]
    /// triple
    x // a // b
, string
    rootA @lengthOf(
    repeatCount)
    ,u32
string_`" ++ [28040; 24687; 31867; 22411]%N ++ runes_of_ascii "`
, } ,
    falsey stringy `crlf
line` ,}
")).
Eval vm_compute in ("<<<M4433>>>" ++ check (runes_of_ascii "  // top

options// c0
    	{// c1
	  }	// c2
  	options	// c3

{ 	 // c4
string_ 	 // c5
  = 	 // c6
    false // c7
	; // c8
	msg_type  // c9

	= 	 // c10
""1"" 	 // c11
    ;// c12
	}// c13
    MetaData  // c14

  lengthOf// c15
{// c16
  	zchar[ 	 // c17

4294967296	// c18
] // c19
		Z9_// c20
	,  // c21
	uint8 // c22
i8i8// c23
	`two words`	// c24

	,	// c25

  char[ 	 // c26
	7// c27
  	]	// c28
charz	// c29
    , // c30
  }  // c31
")).
Eval vm_compute in ("<<<M77>>>" ++ check (runes_of_ascii "options
{
    }
    root packet  _x { tag @lengthOf(
    u8x	), @calculatedFrom( ""x y"" ) // packet A { u8 x, }
string Logon ,}
/// triple
// @lengthOf(
packet Logon	{string
// trailing space 
// `tick` ""quote"" 'q'
falsey @calculatedFrom(
    ""{,}""  )
    // trailing space 
    `u8 x,`
// a // b
// packet A { u8 x, }
,// `tick` ""quote"" 'q'
@leftPad (// a // b
'0' ) u16 options1 `100% of %d` , @tag(007
    )
    string Logon`u8 x,` , }
")).
Eval vm_compute in ("<<<M310>>>" ++ check (runes_of_ascii "packet
matchKey
    // trailing space 
    { char[ 7
    ] /// triple
T
@lengthOf(matchKey  ) ,	match
    leftPad as options1
    {
    [  ""x y""
]  :
As , } , falsey @calculatedFrom(""{,}""
) , @rightPad (
    // c
    '0' ) @calculatedFrom( ""a\\"")
zchar[4294967296
]
    asx
`doc` , len, body@calculatedFrom( ""abc"" ) , i64 len @calculatedFrom( ""`tick`"" )
`100% of %d`, @lengthOf( a1 )
char[] metadata , //x
} options { }")).
Eval vm_compute in ("<<<M3624>>>" ++ check (runes_of_ascii "packet roots {
    string zchar,
    repeat string matchKey `line1
    line2`,
    repeat i32 x,
    u32 a1 @calculatedFrom(""" ++ [233]%N ++ runes_of_ascii "t" ++ [233]%N ++ runes_of_ascii """),
    @rightPad()
    //x
    @tag(007)
    @calculatedFrom(""a	b"")
    repeat roots `two words`,
    match Packet as zchar {
        ""CRC32"" : Logon,
    },
    @calculatedFrom(""{,}"")
    @lengthOf(a1)
    repeat u128 {
        repeat zchar[007] packetx,
    },
    a1,
}// 50% %s")).
Eval vm_compute in ("<<<M4132>>>" ++ check (runes_of_ascii "root packet lengthOf {
    @tag(007)
    @leftPad(' ')
    @tag(10)
    i64_ @calculatedFrom(""it's"") `it's`,
    @lengthOf(i8i8)
    @tag(3)
    @tag(1)
    zchar[7] _x @lengthOf(trueish) `// not a comment`,
    zchar[65535] trueish,
    @lengthOf(MetaDataX)
    @calculatedFrom(""CRC32"")
    int64 rootA,
}

options {
    falsey = '0';
}

options {
    Header = zchar[255];
    matchKey = 7;
}")).
Eval vm_compute in ("<<<M1333>>>" ++ check (runes_of_ascii "//x
root packet u128 // " ++ [128512]%N ++ runes_of_ascii " emoji
{
    string pack , char[
3 ] a1 @lengthOf( chars)  `// not a comment`	,
    repeat
    int8 packetx `" ++ [233]%N ++ runes_of_ascii "` , match len as repeatCount { 1 :
string_ [ ""it's""// " ++ [27880; 37322]%N ++ runes_of_ascii "
] ://	t
calculatedFrom, """ ++ [28040; 24687]%N ++ runes_of_ascii """
:
// trailing space 
//	t
MetaDataX
//	t
/// triple
,00
    :
A , } /// triple
,zchar[0 ] u  @lengthOf( uint8x
    )
,
} options{ Pad  =  ""`tick`"" ; }
")).
Eval vm_compute in ("<<<M1016>>>" ++ check (runes_of_ascii "//	t
packet uint8x {
match
    // c
    lengthOf
as // 50% %s
int { [
    ""x y"" ,
    00  ]:metadata 00: lengthOf // 50% %s
""a\""b"" :
    trueish ,// `tick` ""quote"" 'q'
[ ""abc"" ]: _x  ""`tick`"": Packet ,
42
:  int, //x
} ,  @calculatedFrom( """ ++ [28040; 24687]%N ++ runes_of_ascii """ ) f64 metadata// a // b
@lengthOf( calculatedFrom ) , }options {
}packet zchar
{Foo	`crlf
line` // @lengthOf(
,  }")).
Eval vm_compute in ("<<<M4196>>>" ++ check (runes_of_ascii "packet zchar {
    string uint8x @calculatedFrom(""a\\""),
    @rightPad()
    match zchar as T {
        65535 : f32a,
        [""1"", 1, 007] : calculatedFrom,
        ""\" ++ [233]%N ++ runes_of_ascii """ : metadata,
        0123456789 : x,
        3 : trueish,
    },
    char[42] o @lengthOf(_x),
    @lengthOf(BodyLength)
    @lengthOf(a1)
    repeat char[] Packet `100% of %d`,
}")).
Eval vm_compute in ("<<<M4214>>>" ++ check (runes_of_ascii "options

{ Z9_	=

    ""`tick`"" ;  zchar  =
	char[ 10 ] } MetaData

    matchKey
{MetaDataX 	 //x
    	zchar , 
    /// triple
    charz chars
	`crlf
line` 
,metadata 
BodyLength

    `it's` 

    // " ++ [128512]%N ++ runes_of_ascii " emoji
,  int16	zchar`line1
line2` 	 // packet A { u8 x, }
  ,

int64  _x 
`say ""hi""`
,

char[
7

]packetx/// triple
	,}
")).
Eval vm_compute in ("<<<M1126>>>" ++ check (runes_of_ascii "packet uint8x
// packet A { u8 x, }
// @lengthOf(
{ Header
    { uint16 metadata @lengthOf( // " ++ [27880; 37322]%N ++ runes_of_ascii "
MetaDataX // c
) `// not a comment` , } , metadata repeatCount ,repeat x_y_z
,
// @lengthOf(
//
chars A ,packetx @calculatedFrom(
""a\\"") /// triple
`line1
line2`  , char[007 //	t
] a1@lengthOf( A
    )
    `
` ,
    }
")).
Eval vm_compute in ("<<<M368>>>" ++ check (runes_of_ascii "options
    { }options // trailing space 
{	metadata =""a\""b"" ; options1
// trailing space 
// `tick` ""quote"" 'q'
= char[];
} packet
// @lengthOf(
/// triple
x { repeat i32  Packet
,	falsey matchKey
, @tag(
4294967296 )
    // `tick` ""quote"" 'q'
    uint32
roots@lengthOf(len/// triple
) `line1
line2`
, }
")).
Eval vm_compute in ("<<<M678>>>" ++ check (runes_of_ascii "//
MetaData
// " ++ [128512]%N ++ runes_of_ascii " emoji
// " ++ [27880; 37322]%N ++ runes_of_ascii "
Pad
    { Foo x ,
//
//	t
Pad Header
    `{ , }` , roots string_, // @lengthOf(
zchar[ // trailing space 
3 ] f32a `a\`
    ,char[42 ] a1
//
//	t
`" ++ [233]%N ++ runes_of_ascii "`, // packet A { u8 x, }
} options{
    tag= char[]
    ;i8i8 =
// " ++ [128512]%N ++ runes_of_ascii " emoji
//x
int8
;
string_= int8 } packet A { }

")).
Eval vm_compute in ("<<<M2002>>>" ++ check (runes_of_ascii "packet	packetx { // trailing space 
x_y_z
{
string
charz ,
string x// @lengthOf(
`two words`
    ,  u8x { // `tick` ""quote"" 'q'
charz `100% of %d` // packet A { u8 x, }
,}// " ++ [27880; 37322]%N ++ runes_of_ascii "
,} , }
    // a // b
    packet metadata {  @leftPad ( '0') repeat i32 options1 options1 ,u64 uint8x , }
")).
Eval vm_compute in ("<<<M1894>>>" ++ check (runes_of_ascii "packet	packetx { // trailing space 
x_y_z
{
string
charz ,
string match// @lengthOf(
`two words`
    ,  u8x { // `tick` ""quote"" 'q'
charz `100% of %d` // packet A { u8 x, }
,}// " ++ [27880; 37322]%N ++ runes_of_ascii "
,} , }
    // a // b
    packet metadata {  @leftPad ( '0') repeat i32 options1 ,u64 uint8x , }
")).
Eval vm_compute in ("<<<M1952>>>" ++ check (runes_of_ascii "packet	packetx { // trailing space 
x_y_z
{
string
charz ,
string x// @lengthOf(
`two words`
    ,  u8x { // `tick` ""quote"" 'q'
charz `100% of %d` // packet A { u8 x, }
,}// " ++ [27880; 37322]%N ++ runes_of_ascii "
,} , } }
    // a // b
    packet metadata {  @leftPad ( '0') repeat i32 options1 ,u64 uint8x , }
")).
Eval vm_compute in ("<<<M1893>>>" ++ check (runes_of_ascii "packet	packetx { // trailing space 
x_y_z
{
string
charz ,
string `two words`// @lengthOf(
x
    ,  u8x { // `tick` ""quote"" 'q'
charz `100% of %d` // packet A { u8 x, }
,}// " ++ [27880; 37322]%N ++ runes_of_ascii "
,} , }
    // a // b
    packet metadata {  @leftPad ( '0') repeat i32 options1 ,u64 uint8x , }
")).
Eval vm_compute in ("<<<M4149>>>" ++ check (runes_of_ascii "root packet
	float  { @calculatedFrom( ""// no comment"") 
Pad
uint8x// a // b
`tab	here`

    , @leftPad (
) repeat
pack

{ i8
packetx`doc` ,
}
,
zchar[
	0123456789

] metadata ,@rightPad  ()@lengthOf(
leftPad

)
    repeat

    char[ 7 ]
u8x
    `line1
line2`
    ,
}

")).
Eval vm_compute in ("<<<M1959>>>" ++ check (runes_of_ascii "packet	packetx { // trailing space 
x_y_z
{
string
charz ,
string x// @lengthOf(
`two words`
    ,  u8x { // `tick` ""quote"" 'q'
charz `100% of %d` // packet A { u8 x, }
,}// " ++ [27880; 37322]%N ++ runes_of_ascii "
,} , }
    // a // b
    i64 metadata {  @leftPad ( '0') repeat i32 options1 ,u64 uint8x , }
")).
Eval vm_compute in ("<<<M2016>>>" ++ check (runes_of_ascii "packet	packetx { // trailing space 
x_y_z
{
string
charz ,
string x// @lengthOf(
`two words`
    ,  u8x { // `tick` ""quote"" 'q'
charz `100% of %d` // packet A { u8 x, }
,}// " ++ [27880; 37322]%N ++ runes_of_ascii "
,} , }
    // a // b
    packet metadata {  @leftPad ( '0') repeat i32 options1 ,u64  , }
")).
Eval vm_compute in ("<<<M2052>>>" ++ check (runes_of_ascii "packet packet// packet A { u8 x, }
repeatCount	{// packet A { u8 x, }
@leftPad ( '\x00'
) repeat u8x MetaDataX `crlf
line`,
    repeat
    char[] MetaDataX
    ,
u64	uint8x@calculatedFrom(""a\""b""
// c
// packet A { u8 x, }
) `tab	here`
,//
}MetaData pack
    {
    }
")).
Eval vm_compute in ("<<<M3923>>>" ++ check (runes_of_ascii "MetaData calculatedFrom {
    float u,
    int32 roots ``,
    char[0123456789] x_y_z,
    char u128,//	t
}

root packet falsey {
    @rightPad(' ')
    /// triple
    @lengthOf(stringy)
    @calculatedFrom(""abc"")
    T u8x,
    uint8x @calculatedFrom(""`tick`""),
}")).
Eval vm_compute in ("<<<M3577>>>" ++ check (runes_of_ascii "options {
    LittleEndian = true;
}
packet Sub {
    u8 a,
    @calculatedFrom(""CRC16"") i16 SubSum,
}
root packet Frame {
    u16 MsgType,
    u16 BodyLen @lengthOf(Body),
    Sub Body,
    string note,
    @calculatedFrom(""CRC16"") i16 Checksum,
    u8 tail,
}
")).
Eval vm_compute in ("<<<M2096>>>" ++ check (runes_of_ascii "packet// packet A { u8 x, }
repeatCount	{// packet A { u8 x, }
@leftPad ( '\x00'
) repeat u8x `crlf
line` MetaDataX,
    repeat
    char[] MetaDataX
    ,
u64	uint8x@calculatedFrom(""a\""b""
// c
// packet A { u8 x, }
) `tab	here`
,//
}MetaData pack
    {
    }
")).
Eval vm_compute in ("<<<M2179>>>" ++ check (runes_of_ascii "packet// packet A { u8 x, }
repeatCount	{// packet A { u8 x, }
@leftPad ( '\x00'
) repeat u8x MetaDataX `crlf
line`,
    repeat
    char[] MetaDataX
    ,
u64	uint8x@calculatedFrom(""a\""b""
// c
// packet A { u8 x, }
) `tab	here`
,//
}MetaData pack
    
    }
")).
Eval vm_compute in ("<<<M1569>>>" ++ check (runes_of_ascii "packet calculatedFrom
{ @calculatedFrom( ""a\\"" ) zchar[ 4294967296 ]
calculatedFrom@lengthOf( pack )	`100% of %d` ,char[]body@calculatedFrom( ""// no comment"" )  ,
@tag( 007) //x
int8
leftPad`it's` , repeat pack
    { repeat repeat char[ 3] body
,},
}")).
Eval vm_compute in ("<<<M2102>>>" ++ check (runes_of_ascii "packet// packet A { u8 x, }
repeatCount	{// packet A { u8 x, }
@leftPad ( '\x00'
) repeat u8x MetaDataX ""\n"",
    repeat
    char[] MetaDataX
    ,
u64	uint8x@calculatedFrom(""a\""b""
// c
// packet A { u8 x, }
) `tab	here`
,//
}MetaData pack
    {
    }
")).
Eval vm_compute in ("<<<M1561>>>" ++ check (runes_of_ascii "packet calculatedFrom
{ @calculatedFrom( ""a\\"" ) zchar[ 4294967296 ]
calculatedFrom@lengthOf( pack )	`100% of %d` ,char[]body@calculatedFrom( ""// no comment"" )  ,
@tag( 007) //x
int8
leftPad`it's` , repeat packet
    { repeat char[ 3] body
,},
}")).
Eval vm_compute in ("<<<M1630>>>" ++ check (runes_of_ascii "packet calculatedFrom
{ @calcul" ++ [65279]%N ++ runes_of_ascii "atedFrom( ""a\\"" ) zchar[ 4294967296 ]
calculatedFrom@lengthOf( pack )	`100% of %d` ,char[]body@calculatedFrom( ""// no comment"" )  ,
@tag( 007) //x
int8
leftPad`it's` , repeat pack
    { repeat char[ 3] body
,},
}")).
Eval vm_compute in ("<<<M1520>>>" ++ check (runes_of_ascii "packet calculatedFrom
{ @calculatedFrom( ""a\\"" ) zchar[ 4294967296 ]
calculatedFrom@lengthOf( pack )	`100% of %d` ,char[]body@calculatedFrom( ""// no comment"" )  ,
007 @tag() //x
int8
leftPad`it's` , repeat pack
    { repeat char[ 3] body
,},
}")).
Eval vm_compute in ("<<<M1578>>>" ++ check (runes_of_ascii "packet calculatedFrom
{ @calculatedFrom( ""a\\"" ) zchar[ 4294967296 ]
calculatedFrom@lengthOf( pack )	`100% of %d` ,char[]body@calculatedFrom( ""// no comment"" )  ,
@tag( 007) //x
int8
leftPad`it's` , repeat pack
    { repeat char[ ] body
,},
}")).
Eval vm_compute in ("<<<M1433>>>" ++ check (runes_of_ascii "packet calculatedFrom
{ @calculatedFrom(  ) zchar[ 4294967296 ]
calculatedFrom@lengthOf( pack )	`100% of %d` ,char[]body@calculatedFrom( ""// no comment"" )  ,
@tag( 007) //x
int8
leftPad`it's` , repeat pack
    { repeat char[ 3] body
,},
}")).
Eval vm_compute in ("<<<M1985>>>" ++ check (runes_of_ascii "packet	packetx { // trailing space 
x_y_z
{
string
charz ,
string x// @lengthOf(
`two words`
    ,  u8x { // `tick` ""quote"" 'q'
charz `100% of %d` // packet A { u8 x, }
,}// " ++ [27880; 37322]%N ++ runes_of_ascii "
,} , }
    // a // b
    packet metadata {  @leftPad (")).
Eval vm_compute in ("<<<M3824>>>" ++ check (runes_of_ascii "  options
	{ FixedStringPadChar =
    '0'
    ;
} packet 
Q {zchar[
4 
]	z
    ,@rightPad (
'\x00'
    ) char[	3

    ] n
, 
char[5 ]	d

,	}

root packet R {
Q
, zchar[ 
8 
]top

    ,

repeat
    zchar[2	]
zs
    ,  }
")).
Eval vm_compute in ("<<<M32>>>" ++ check (runes_of_ascii "
packet //x
o { @rightPad
// " ++ [128512]%N ++ runes_of_ascii " emoji
//
(
'\x00'
) repeat
//	t
// " ++ [128512]%N ++ runes_of_ascii " emoji
char[
1
// c
// a // b
] asx  , } MetaData // " ++ [128512]%N ++ runes_of_ascii " emoji
chars {
}// " ++ [27880; 37322]%N ++ runes_of_ascii "
options
    // " ++ [128512]%N ++ runes_of_ascii " emoji
    { asx =false } //
MetaData repeatCount { }")).
Eval vm_compute in ("<<<M1562>>>" ++ check (runes_of_ascii "packet calculatedFrom
{ @calculatedFrom( ""a\\"" ) zchar[ 4294967296 ]
calculatedFrom@lengthOf( pack )	`100% of %d` ,char[]body@calculatedFrom( ""// no comment"" )  ,
@tag( 007) //x
int8
leftPad`it's` , repeat")).
Eval vm_compute in ("<<<M1552>>>" ++ check (runes_of_ascii "packet calculatedFrom
{ @calculatedFrom( ""a\\"" ) zchar[ 4294967296 ]
calculatedFrom@lengthOf( pack )	`100% of %d` ,char[]body@calculatedFrom( ""// no comment"" )  ,
@tag( 007) //x
int8
leftPad`it's`")).
Eval vm_compute in ("<<<M3996>>>" ++ check (runes_of_ascii "
packet  
      // @lengthOf(
	len{
	char[ 
42
    ] rootA
	@calculatedFrom(  ""a	b""
	) // c
    , 
}  packet stringy
{ @leftPad(	'\x00'
)
i16

Packet
@lengthOf(zchar) 
`100% of %d` ,
}
")).
Eval vm_compute in ("<<<M588>>>" ++ check (runes_of_ascii "MetaData
a1 { zchar lengthOf `{ , }` ,
options1
    leftPad , char[  10 ] charz `crlf
line` , }	packet a1 {i64
    // a // b
    body@calculatedFrom(""packet"" )// trailing space 
, }
")).
Eval vm_compute in ("<<<M1940>>>" ++ check (runes_of_ascii "packet	packetx { // trailing space 
x_y_z
{
string
charz ,
string x// @lengthOf(
`two words`
    ,  u8x { // `tick` ""quote"" 'q'
charz `100% of %d` // packet A { u8 x, }
,}")).
Eval vm_compute in ("<<<M1527>>>" ++ check (runes_of_ascii "packet calculatedFrom
{ @calculatedFrom( ""a\\"" ) zchar[ 4294967296 ]
calculatedFrom@lengthOf( pack )	`100% of %d` ,char[]body@calculatedFrom( ""// no comment"" )  ,
@tag(")).
Eval vm_compute in ("<<<M4470>>>" ++ check (runes_of_ascii "MetaData MetaDataX {
    string_ body `crlf
    line`,
    uint8 int,
    zchar[3] body,
}

MetaData x_y_z {
    lengthOf rootA `" ++ [28040; 24687; 31867; 22411]%N ++ runes_of_ascii "`,
    zchar[4294967296] _x,
}")).
Eval vm_compute in ("<<<M808>>>" ++ check (runes_of_ascii "root packet calculatedFrom{ }
    MetaData
u8x
    { char[ 42
    ]
pack ,zchar[ // " ++ [128512]%N ++ runes_of_ascii " emoji
0123456789 ]stringy
,
//	t
// `tick` ""quote"" 'q'
msg_type
pack,}
")).
Eval vm_compute in ("<<<M2395>>>" ++ check (runes_of_ascii "
packet MetaDataX
{
    @leftPad
( // a // b
'0'
) i8 u @lengthOf(
MetaDataX
    ) `say ""hi""` ,	} MetaData BodyLength {
    asx
x_y_z `" ++ [233]%N ++ runes_of_ascii "`
, uint64 u128 , }
@ ")).
Eval vm_compute in ("<<<M778>>>" ++ check (runes_of_ascii "/// triple
MetaData// " ++ [27880; 37322]%N ++ runes_of_ascii "
x { float
    Logon `doc`,
trueish u8x // " ++ [128512]%N ++ runes_of_ascii " emoji
`100% of %d`
, tag As ,
uint8 matchKey ,}
options{ /// triple
zchar= '0' ; } 	 ")).
Eval vm_compute in ("<<<M1673>>>" ++ check (runes_of_ascii "options { } packet Packet{char[] i64_ , ,
@tag(
    255) match
crc as i8i8{""{,}"" : trueish """" : Pad , ""a\\"" :
Foo ,
    1 :packetx
, """ ++ [128512]%N ++ runes_of_ascii """ : trueish , } , }")).
Eval vm_compute in ("<<<M3590>>>" ++ check (runes_of_ascii "packet A {
    u16 len @lengthOf(body) `a
            b
          c`,
    u32 crc @calculatedFrom(""CRC32"") `a
            b
          c`,
    string body,
}")).
Eval vm_compute in ("<<<M1645>>>" ++ check (runes_of_ascii "options { packet } Packet{char[] i64_ ,
@tag(
    255) match
crc as i8i8{""{,}"" : trueish """" : Pad , ""a\\"" :
Foo ,
    1 :packetx
, """ ++ [128512]%N ++ runes_of_ascii """ : trueish , } , }")).
Eval vm_compute in ("<<<M1799>>>" ++ check (runes_of_ascii "options { } packet Packet{char[] i64_ ,
@tag(
    255) match
crc as i8i8{""{,}"" : trueish """" : Pad , ""a\\"" :
Foo ,
    1 :packetx
, """ ++ [128512]%N ++ runes_of_ascii """ trueish : , } , }")).
Eval vm_compute in ("<<<M1812>>>" ++ check (runes_of_ascii "options { } packet Packet{char[] i64_ ,
@tag(
    255) match
crc as i8i8{""{,}"" : trueish """" : Pad , ""a\\"" :
Foo ,
    1 :packetx
, """ ++ [128512]%N ++ runes_of_ascii """ : trueish ,  , }")).
Eval vm_compute in ("<<<M997>>>" ++ check (runes_of_ascii "// " ++ [128512]%N ++ runes_of_ascii " emoji
options {
msg_type
    = """ ++ [28040; 24687]%N ++ runes_of_ascii """ } packet //	t
roots{// c
char[]charz @calculatedFrom(
""1"" // 50% %s
)	`crlf
line`
,}
    packet T {
    }

")).
Eval vm_compute in ("<<<M2128>>>" ++ check (runes_of_ascii "packet// packet A { u8 x, }
repeatCount	{// packet A { u8 x, }
@leftPad ( '\x00'
) repeat u8x MetaDataX `crlf
line`,
    repeat
    char[] MetaDataX")).
Eval vm_compute in ("<<<M4030>>>" ++ check (runes_of_ascii "MetaData
metadata
{}

MetaData rootA {
    i8
i64_,  roots
options1 // c
`a\`

    , lengthOf

Header

, Z9_ Foo  ,	int16 
BodyLength 
, } ")).
Eval vm_compute in ("<<<M4089>>>" ++ check (runes_of_ascii "MetaData metadata {
}

// c
MetaData rootA {
    i8 i64_,
    roots options1 `a\`,
    lengthOf Header,
    Z9_ Foo,
    int16 BodyLength,
}")).
Eval vm_compute in ("<<<M486>>>" ++ check (runes_of_ascii "MetaData
Logon { body string_ , uint8 i64_`two words`,Pad x_y_z `it's`,uint16 roots
    `two words`,x_y_z u8x ,
float64  asx `u8 x,` ,
}")).
Eval vm_compute in ("<<<M4333>>>" ++ check (runes_of_ascii "// c
	root  packet
repeatCount

{  //	t

	@tag(
	42)roots , }
MetaData As {

} MetaData 
repeatCount  // packet A { u8 x, }
  {
}
")).
Eval vm_compute in ("<<<M4152>>>" ++ check (runes_of_ascii "//	t
MetaData rootA {
    Header int,
    string_ asx,
    string roots,
    string lengthOf,
    char[3] Z9_,
    o metadata,
}")).
Eval vm_compute in ("<<<M3271>>>" ++ check (runes_of_ascii "MetaData metadata { } MetaData
// c
rootA { i8 i64_ , roots options1 `a\` , lengthOf Header , Z9_ Foo , int16 BodyLength , }")).
Eval vm_compute in ("<<<M3303>>>" ++ check (runes_of_ascii "MetaData metadata { } MetaData rootA { i8 i64_ , roots options1 `a\` , lengthOf Header , Z9_ Foo , int16
// c
BodyLength , }")).
Eval vm_compute in ("<<<M1350>>>" ++ check (runes_of_ascii "packet rootA{ @tag(
42 )string_ @lengthOf(rootA
    ),repeat uint32 float , @lengthOf( Z9_ ) repeat body
leftPad,  } //")).
Eval vm_compute in ("<<<M3890>>>" ++ check (runes_of_ascii "options  // a // b
	{
Logon 
=	char[]
    ;

    }
options
	{ BodyLength=' ';
	tag	=  3

} // `tick` ""quote"" 'q'")).
Eval vm_compute in ("<<<M4436>>>" ++ check (runes_of_ascii "// top
packet o {
    // c2
    @tag(4294967296)
    // c5
    options1 @lengthOf(u8x) `" ++ [233]%N ++ runes_of_ascii "`,
    // c11
}
// c12")).
Eval vm_compute in ("<<<M3342>>>" ++ check (runes_of_ascii "MetaData float { uint8 BodyLength , } MetaData charz { float32 trueish `a\` // c
, i16 metadata `say ""hi""` , }")).
Eval vm_compute in ("<<<M483>>>" ++ check (runes_of_ascii "MetaData body { string matchKey ``,  }root packet BodyLength{ } root packet
Z9_ // " ++ [128512]%N ++ runes_of_ascii " emoji
{
    //x
    }")).
Eval vm_compute in ("<<<M3038>>>" ++ check (runes_of_ascii "packet A {
    u16 len @lengthOf(body) `
`,
    u32 crc @calculatedFrom(""CRC32"") `
`,
    string body,
}")).
Eval vm_compute in ("<<<M795>>>" ++ check (runes_of_ascii "root packet falsey { repeat roots { u16
matchKey @calculatedFrom(
""" ++ [128512]%N ++ runes_of_ascii """
    ) `two words` , } ,
    }
")).
Eval vm_compute in ("<<<M2992>>>" ++ check (runes_of_ascii "packet A {
  match k as n {
    [""a"", 22, ""c c"", 4, ""e"", 66, ""g"", 8, ""i"", 10] : B
    2 : C
  },
}")).
Eval vm_compute in ("<<<M3682>>>" ++ check (runes_of_ascii "packet B {
    u8 a,
    string s,
}

root packet P {
    u16 L @lengthOf(B),
    B,
    u8 t,
}")).
Eval vm_compute in ("<<<M1412>>>" ++ check (runes_of_ascii "root packet SimpleMessage {
    uint16 MsgType `" ++ [28040; 24687; 31867; 22411]%N ++ runes_of_ascii "`,
    string JsonBody `Json" ++ [23383; 31526; 20018; 28040; 24687; 20307]%N ++ runes_of_ascii "`,
}")).
Eval vm_compute in ("<<<M1109>>>" ++ check (runes_of_ascii "
packet x{
@rightPad ( '0' ) int32 T @calculatedFrom(""a\\"" ) , // packet A { u8 x, }
} 	 ")).
Eval vm_compute in ("<<<M2278>>>" ++ check ([233]%N ++ runes_of_ascii "MetaData _x {string x `// not a comment` , string
i64_ // trailing space 
`a\` ,
    }
")).
Eval vm_compute in ("<<<M2252>>>" ++ check (runes_of_ascii "MetaData _x {string x `// not a comment` , string
root // trailing space 
`a\` ,
    }
")).
Eval vm_compute in ("<<<M3901>>>" ++ check (runes_of_ascii "packet
o{
	@tag( 4294967296
	) options1
@lengthOf( 
    // c
    	u8x
)
`" ++ [233]%N ++ runes_of_ascii "`

,
}

")).
Eval vm_compute in ("<<<M3643>>>" ++ check (runes_of_ascii "packet A {
    B b `x
        `,
    B `x
        `,
    repeat B bs `x
        `,
}")).
Eval vm_compute in ("<<<M1828>>>" ++ check (runes_of_ascii "options { } packet Packet{char[] i64_ ,
@tag(
    255) match
crc as i8i8{""{,}"" ")).
Eval vm_compute in ("<<<M256>>>" ++ check (runes_of_ascii "MetaData
u128 { f64 Foo , } MetaData calculatedFrom{ i32 len
    // " ++ [27880; 37322]%N ++ runes_of_ascii "
    , }
")).
Eval vm_compute in ("<<<M2385>>>" ++ check (runes_of_ascii "
packet MetaDataX
{
    @leftPad
( // a // b
'0'
) i8 u @lengthOf(
MetaDataX")).
Eval vm_compute in ("<<<M3375>>>" ++ check (runes_of_ascii "MetaData _x { f64 charz `tab	here`
// c
, } options { BodyLength = """ ++ [233]%N ++ runes_of_ascii "t" ++ [233]%N ++ runes_of_ascii """ ; }")).
Eval vm_compute in ("<<<M765>>>" ++ check (runes_of_ascii "MetaData len {metadata int ,} root packet
falsey //x
{// trailing space 
}")).
Eval vm_compute in ("<<<M646>>>" ++ check (runes_of_ascii "
packet	u { @rightPad
( ' ' ) char[  0
    ]
stringy , }packet _x {}
")).
Eval vm_compute in ("<<<M3427>>>" ++ check (runes_of_ascii "packet o { @tag( 4294967296 ) options1 @lengthOf( u8x ) `" ++ [233]%N ++ runes_of_ascii "` , }
// c
")).
Eval vm_compute in ("<<<M3421>>>" ++ check (runes_of_ascii "packet o { @tag( 4294967296 ) options1 @lengthOf( u8x )
// c
`" ++ [233]%N ++ runes_of_ascii "` , }")).
Eval vm_compute in ("<<<M2779>>>" ++ check (runes_of_ascii "00 uint32 packet i16 { repeatCount '\x00' i8 [ repeatCount float32")).
Eval vm_compute in ("<<<M4506>>>" ++ check (runes_of_ascii "
packet

    A  {B b

`
`	,
B
	`
`
	, 
repeat B
	bs `
`	,
	}
")).
Eval vm_compute in ("<<<M2885>>>" ++ check (runes_of_ascii "packet A {
  match k as n {
    [1, 22] : B,
    2 : C
  },
}")).
Eval vm_compute in ("<<<M1124>>>" ++ check (runes_of_ascii "// packet A { u8 x, }
root packet
Z9_{
    } // @lengthOf(")).
Eval vm_compute in ("<<<M2881>>>" ++ check (runes_of_ascii "packet A {
  match k as n {
    [1] : B
    2 : C
  },
}")).
Eval vm_compute in ("<<<M4103>>>" ++ check (runes_of_ascii "// packet A { u8 x, }
root packet Z9_ {
}// @lengthOf(")).
Eval vm_compute in ("<<<M2316>>>" ++ check (runes_of_ascii "
MetaData Pad{
u32 rootA @calculatedFrom( ,
    }
")).
Eval vm_compute in ("<<<M2300>>>" ++ check (runes_of_ascii "
MetaData Pad u32
{ rootA `line1
line2` ,
    }
")).
Eval vm_compute in ("<<<M3437>>>" ++ check (runes_of_ascii "root packet P {
    repeat char cs,
    u8 x,
}
")).
Eval vm_compute in ("<<<M1387>>>" ++ check (runes_of_ascii "packet //x
MetaDataX {uint32 A `say ""hi""` ,}")).
Eval vm_compute in ("<<<M1168>>>" ++ check (runes_of_ascii "options {falsey=
    ' ';roots = false ; }
")).
Eval vm_compute in ("<<<M2842>>>" ++ check (runes_of_ascii "match repeat uint8 as string false repeat")).
Eval vm_compute in ("<<<M3243>>>" ++ check (runes_of_ascii "MetaData zchar { zchar[ 3 ] // c
Pad , }")).
Eval vm_compute in ("<<<M4476>>>" ++ check (runes_of_ascii "packet MetaDataX {
    // @lengthOf(
}")).
Eval vm_compute in ("<<<M2836>>>" ++ check (runes_of_ascii "@|""M" ++ [65533; 65533; 65533]%N ++ runes_of_ascii "[|" ++ [65533]%N ++ runes_of_ascii "0" ++ [65533; 65533; 65533; 65533; 65533]%N ++ runes_of_ascii "fJ" ++ [65533; 65533; 65533; 65533; 8; 2]%N ++ runes_of_ascii "z" ++ [65533; 65533; 65533; 65533; 65533; 65533; 5; 7]%N ++ runes_of_ascii "dL" ++ [65533]%N)).
Eval vm_compute in ("<<<M164>>>" ++ check (runes_of_ascii "packet
    // 50% %s
    u128 { }
")).
Eval vm_compute in ("<<<M2856>>>" ++ check (runes_of_ascii "X" ++ [65533; 23; 6; 1; 65533; 65533; 65533; 65533]%N ++ runes_of_ascii "`V" ++ [65533; 65533]%N ++ runes_of_ascii "F" ++ [127; 65533; 65533; 65533; 65533]%N ++ runes_of_ascii "Y" ++ [65533; 65533]%N ++ runes_of_ascii "?" ++ [65533]%N ++ runes_of_ascii "h" ++ [36827]%N ++ runes_of_ascii "{0n" ++ [65533; 65533; 65533]%N ++ runes_of_ascii "'")).
Eval vm_compute in ("<<<M3041>>>" ++ check (runes_of_ascii "root packet A {
    u8 x `
`,
}")).
Eval vm_compute in ("<<<M1017>>>" ++ check (runes_of_ascii "// `tick` ""quote"" 'q'

// " ++ [27880; 37322]%N ++ runes_of_ascii "
")).
Eval vm_compute in ("<<<M2610>>>" ++ check (runes_of_ascii "packet A { x @lengthOf(), }")).
Eval vm_compute in ("<<<M3036>>>" ++ check (runes_of_ascii "packet A {
    u8 x `
`,
}")).
Eval vm_compute in ("<<<M2330>>>" ++ check (runes_of_ascii "
MetaData Pad{
u32 root")).
Eval vm_compute in ("<<<M2658>>>" ++ check (runes_of_ascii "root root packet A { }")).
Eval vm_compute in ("<<<M2686>>>" ++ check (runes_of_ascii "options { a = [1]; }")).
Eval vm_compute in ("<<<M3190>>>" ++ check (runes_of_ascii "// c x
packet A {
}")).
Eval vm_compute in ("<<<M3150>>>" ++ check (runes_of_ascii "// c" ++ [8239]%N ++ runes_of_ascii "
packet A {
}")).
Eval vm_compute in ("<<<M2654>>>" ++ check (runes_of_ascii "packet A { } // c")).
Eval vm_compute in ("<<<M1865>>>" ++ check (runes_of_ascii "packet	packetx {")).
Eval vm_compute in ("<<<M1187>>>" ++ check (runes_of_ascii " // @lengthOf(")).
Eval vm_compute in ("<<<M2578>>>" ++ check (runes_of_ascii """" ++ [233]%N ++ runes_of_ascii """ `" ++ [21517]%N ++ runes_of_ascii "` // " ++ [252]%N)).
Eval vm_compute in ("<<<M2830>>>" ++ check (runes_of_ascii "[ MetaData")).
Eval vm_compute in ("<<<M2445>>>" ++ check (runes_of_ascii "char[ ]")).
Eval vm_compute in ("<<<M2492>>>" ++ check (runes_of_ascii "'\x00'")).
Eval vm_compute in ("<<<M3103>>>" ++ check (runes_of_ascii "// c ")).
Eval vm_compute in ("<<<M2542>>>" ++ check (runes_of_ascii "`
`")).
Eval vm_compute in ("<<<M2547>>>" ++ check (runes_of_ascii "007")).
Eval vm_compute in ("<<<M2556>>>" ++ check (runes_of_ascii "_1")).
Eval vm_compute in ("<<<M2744>>>" ++ check ([65533]%N)).
