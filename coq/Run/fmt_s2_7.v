From FP Require Import Lexer Parser ShowPT Digest Formatter.
From Coq Require Import String List NArith.
Import ListNotations.
Open Scope string_scope.
Set Printing Width 100000000.
Set Printing Depth 100000000.
Definition show_fres (r : fres) : string :=
  match r with
  | FOk s => "OK:" ++ sh_escaped s ""
  | FErr s => "ERR:" ++ sh_escaped s ""
  | FPanic p => "PANIC:" ++ p
  end.
Definition check (rs : list rune) : string := digest (show_fres (format_res rs)).
Definition full (rs : list rune) : string := show_fres (format_res rs).
Eval vm_compute in ("<<<M3524>>>" ++ check (runes_of_ascii "// top
options // c0a
  // c0b
{ // c1
StringPrefixLenType = // c3a
  // c3b
u32
    // c4
; // c5
ArrayPrefixLenType // c6
= // c7
u8 // c8
; FixedStringPadFromLeft
    // c10
=
    // c11
false // c12
; // c13
} // c14
packet Logon {
    // c17
i8 // c18a
  // c18b
venue
    // c19
,
    // c20
int16 f1 , zchar[
    // c24
8 // c25a
  // c25b
] // c26a
  // c26b
Acct // c27a
  // c27b
, repeat // c29a
  // c29b
InNote16 // c30a
  // c30b
{ // c31
InQty73 // c32
{
    // c33
float32 // c34
tag7
    // c35
, // c36
}
    // c37
, // c38a
  // c38b
f32 // c39
Acct
    // c40
,
    // c41
zchar[ // c42
5 // c43
]
    // c44
sym
    // c45
, // c46a
  // c46b
} , // c48
uint16
    // c49
Side2
    // c50
, // c51
i32 // c52a
  // c52b
lastPx , } // c55a
  // c55b
packet // c56a
  // c56b
Fill // c57
{
    // c58
repeat
    // c59
InOrderid15 // c60
{ zchar[ 8 ]
    // c64
sym // c65
,
    // c66
repeat char[ // c68
2 // c69a
  // c69b
] // c70a
  // c70b
OrderId // c71a
  // c71b
, // c72a
  // c72b
repeat // c73a
  // c73b
Logon // c74a
  // c74b
,
    // c75
InQty82 {
    // c77
char[] // c78a
  // c78b
Tail // c79a
  // c79b
, repeat Logon
    // c82
, float64 // c84a
  // c84b
price // c85
, // c86a
  // c86b
f64 Side2 // c88a
  // c88b
,
    // c89
} ,
    // c91
char[ // c92
12 // c93
] // c94
venue
    // c95
, char[
    // c97
4 ] // c99
Px , } , // c103
@rightPad ( // c105
'0' // c106a
  // c106b
) char[ // c108a
  // c108b
2
    // c109
] // c110
venue
    // c111
, // c112a
  // c112b
InPrice99 // c113
{ InAcct72 // c115a
  // c115b
{
    // c116
u8 // c117a
  // c117b
pad0
    // c118
, } , // c121
u32 OrderId // c123
, // c124a
  // c124b
Logon , // c126a
  // c126b
}
    // c127
, // c128
} // c129a
  // c129b
root
    // c130
packet // c131
Reject
    // c132
{ // c133
zchar[ // c134a
  // c134b
9
    // c135
] // c136a
  // c136b
msgKind // c137
, // c138a
  // c138b
u32 // c139a
  // c139b
venue , u16
    // c142
seqNo
    // c143
@lengthOf( Body
    // c145
) // c146a
  // c146b
, match // c148a
  // c148b
venue // c149
as Body // c151a
  // c151b
{ 57 // c153
:
    // c154
Fill // c155a
  // c155b
, 8 // c157
: // c158a
  // c158b
Logon // c159
,
    // c160
}
    // c161
, u16 // c163a
  // c163b
Tail
    // c164
@calculatedFrom( // c165
""CRC32""
    // c166
) // c167
, // c168
} // c169
")).
Eval vm_compute in ("<<<M968>>>" ++ check (runes_of_ascii "packet float  { repeat matchKey , char[] // " ++ [128512]%N ++ runes_of_ascii " emoji
repeatCount
`{ , }`
, char[	00] a1 , char[] roots`" ++ [28040; 24687; 31867; 22411]%N ++ runes_of_ascii "` ,@rightPad
    ( '0') repeatCount ,match
MetaDataX as tag { ""`tick`"":
tag , [	""it's"" ,42
] :asx
    // packet A { u8 x, }
    , ""a	b"" :As 65535 : calculatedFrom 007:
stringy , 007: Packet // " ++ [128512]%N ++ runes_of_ascii " emoji
,} ,char[// " ++ [27880; 37322]%N ++ runes_of_ascii "
0]//	t
i8i8
`a\`,
} root packet chars { @calculatedFrom( ""packet""
) // " ++ [27880; 37322]%N ++ runes_of_ascii "
i64_ string_ , match Pad // " ++ [128512]%N ++ runes_of_ascii " emoji
as MetaDataX {
    0123456789  :repeatCount ,	[
""" ++ [128512]%N ++ runes_of_ascii """] :a1  ,[ """ ++ [233]%N ++ runes_of_ascii "t" ++ [233]%N ++ runes_of_ascii """ ,
7
, //	t
""x y""	, 00	]
:
//
// a // b
int, } ,repeat
Foo`say ""hi""`,@lengthOf(	As
) u32 leftPad
    @lengthOf( zchar	)// a // b
,
    // " ++ [128512]%N ++ runes_of_ascii " emoji
    }// c
packet u128	{@calculatedFrom(
""`tick`""
    // packet A { u8 x, }
    ) float Z9_ ``
,string packetx ,
// @lengthOf(
// packet A { u8 x, }
@leftPad ( '\x00'
)
uint8
metadata , @leftPad
()
    uint32 a1 `two words` ,
@tag(
    0123456789
// packet A { u8 x, }
// packet A { u8 x, }
)  repeat zchar[ 42	] pack`two words` , repeat stringy
    `line1
line2`
    , uint8x `" ++ [233]%N ++ runes_of_ascii "`, falsey `say ""hi""` ,
} packet a1{ uint16
float , @lengthOf( string_)	char[ 0123456789 ] BodyLength @lengthOf( charz /// triple
)
    // `tick` ""quote"" 'q'
    `say ""hi""`, @rightPad	( '\x00'
)	Z9_ @lengthOf(zchar
)  , calculatedFrom @lengthOf(pack
)
`tab	here`
    ,
    @lengthOf( MetaDataX)@calculatedFrom( ""abc"" )
@calculatedFrom( ""a\\"" ) match
falsey //
as
body  {// " ++ [27880; 37322]%N ++ runes_of_ascii "
""a\""b"" : o //x
,255:uint8x , [ // `tick` ""quote"" 'q'
65535 ]: BodyLength } , /// triple
char[]
x_y_z
,// trailing space 
@tag(
// trailing space 
/// triple
0
)
int16	x `crlf
line`
,match Foo as zchar {""" ++ [233]%N ++ runes_of_ascii "t" ++ [233]%N ++ runes_of_ascii """	:
u128 , }, @lengthOf(	x_y_z) As @calculatedFrom(""packet""),repeat
Header{string_ `{ , }` , match	chars as
    uint8x {
""it's"" : lengthOf ,[ ""\n""  ,	3 , ""CRC32""
,// a // b
10
    // " ++ [27880; 37322]%N ++ runes_of_ascii "
    , """ ++ [28040; 24687]%N ++ runes_of_ascii """ ]
: falsey } ,
repeat char[] o
`
`
    ,
i32 len@calculatedFrom(""" ++ [233]%N ++ runes_of_ascii "t" ++ [233]%N ++ runes_of_ascii """ ) `" ++ [28040; 24687; 31867; 22411]%N ++ runes_of_ascii "` ,
    } // trailing space 
, // " ++ [27880; 37322]%N ++ runes_of_ascii "
}
")).
Eval vm_compute in ("<<<M948>>>" ++ check (runes_of_ascii "//
root packet
    T
    { match Foo as Packet {
""\n"":
// c
// a // b
roots""abc"": Foo ,3 : packetx,
}, match Z9_ as u8x { 65535 :
tag , }	, Pad{
i16 BodyLength ,
    stringy
    chars, uint8 trueish
    /// triple
    ,
} ,	pack {
    match//	t
asx
as
stringy { 0 :matchKey } // " ++ [128512]%N ++ runes_of_ascii " emoji
,	repeat
char uint8x
, }
// @lengthOf(
//
,
    @calculatedFrom( ""\n"")
    body,
_x , string tag , char[ // packet A { u8 x, }
3 ]rootA`a\`
    // c
    ,
@calculatedFrom(""\n"" )
@lengthOf( uint8x
    ) char[] A , i8
    // @lengthOf(
    string_`{ , }` ,
    // packet A { u8 x, }
    } packet body {
    char[] o	, string options1 ,
repeat // a // b
char[]
    pack, u128{ packetx options1
    ,
repeat
Packet
,repeat // trailing space 
int `` // " ++ [27880; 37322]%N ++ runes_of_ascii "
, u16
Logon	,	} ,  match
    T as x_y_z {
    255 : Header ,
    1 :
    f32a , """ ++ [128512]%N ++ runes_of_ascii """
:	Pad
// a // b
// a // b
""abc"" :
    /// triple
    A } ,	@tag(// " ++ [27880; 37322]%N ++ runes_of_ascii "
00
// " ++ [128512]%N ++ runes_of_ascii " emoji
// @lengthOf(
) int8 i8i8 @calculatedFrom( """ ++ [28040; 24687]%N ++ runes_of_ascii """) `tab	here`, @lengthOf(
    matchKey )
repeat uint16
// a // b
// trailing space 
roots `doc`
    ,f64 a1 ,@lengthOf( metadata
    // " ++ [27880; 37322]%N ++ runes_of_ascii "
    )
    // @lengthOf(
    Foo
@lengthOf(
msg_type )	`" ++ [233]%N ++ runes_of_ascii "` , } packet /// triple
tag{@rightPad
( '0' )char[]
    x
    @calculatedFrom(
    ""a\\"")
    ,
    float  @calculatedFrom( ""\" ++ [233]%N ++ runes_of_ascii """  ) `
`// " ++ [27880; 37322]%N ++ runes_of_ascii "
,
@calculatedFrom(
    ""{,}"" ) repeat zchar[ 00 ]
    i64_  `" ++ [28040; 24687; 31867; 22411]%N ++ runes_of_ascii "`
,
char[ 007
    ] charz ,
    } packet metadata {
    string_ {
    repeat A
    , repeat char[// trailing space 
00
] A// " ++ [128512]%N ++ runes_of_ascii " emoji
, i32 i64_ @lengthOf( body )  `" ++ [233]%N ++ runes_of_ascii "`
    , //x
repeat
    //x
    zchar `say ""hi""` ,} ,
}")).
Eval vm_compute in ("<<<M25>>>" ++ check (runes_of_ascii "root
    packet u128{pack @lengthOf(MetaDataX)	`say ""hi""` ,repeat lengthOf {
    int8 o
    `crlf
line` ,
    } // " ++ [27880; 37322]%N ++ runes_of_ascii "
, @lengthOf( tag
    ) char[
    007
    ] chars @lengthOf(MetaDataX ) , u
    @calculatedFrom( ""\n"" )// `tick` ""quote"" 'q'
, @lengthOf(  Z9_
    ) u32 A
@lengthOf( charz ) ,u16 float@lengthOf(
    As ) ,A u128
// packet A { u8 x, }
// packet A { u8 x, }
`a\` /// triple
, x_y_z@lengthOf(stringy  )
`a\` ,
}
    root packet x_y_z
    {@lengthOf( crc	)  i64 pack // " ++ [27880; 37322]%N ++ runes_of_ascii "
@lengthOf(
    float ) `say ""hi""`
, }MetaData  uint8x{ }
    root packet  trueish {  zchar[ 4294967296  ] float@lengthOf( matchKey
    )/// triple
,@lengthOf( o
    ) repeat float rootA
    , @tag(  7	) int64 // " ++ [128512]%N ++ runes_of_ascii " emoji
falsey@lengthOf( options1 ) ,Logon// @lengthOf(
{ tag
@lengthOf(a1 ) , asx `// not a comment` , float32 zchar
    ,Pad @calculatedFrom( ""`tick`"" )// @lengthOf(
,
    } , // trailing space 
@lengthOf( int
    ) repeat // a // b
rootA// trailing space 
u128 ,
    repeat char[] leftPad , int8 _x // a // b
,
    Packet `` ,
    // " ++ [27880; 37322]%N ++ runes_of_ascii "
    match
len	as uint8x { ""a	b""
:
lengthOf
,""\" ++ [233]%N ++ runes_of_ascii """ :pack
[ // a // b
""x y""  ,""packet""
, """ ++ [128512]%N ++ runes_of_ascii """
    // " ++ [27880; 37322]%N ++ runes_of_ascii "
    ,	""\" ++ [233]%N ++ runes_of_ascii """ , 255 , ""{,}""
    ]:
lengthOf
    , [ ""abc"", 00  ,
    ""a\\"" , ""// no comment""
, 00 , 007, 0 , ""packet""]: Packet  }
    // " ++ [27880; 37322]%N ++ runes_of_ascii "
    , @leftPad()
    u i64_ ,
}
packet trueish { }
")).
Eval vm_compute in ("<<<M463>>>" ++ check (runes_of_ascii "packet
options1
    { /// triple
string
falsey `doc`
,float //
BodyLength ,
    @tag( 65535	) Logon@calculatedFrom( ""a	b"" )
    ,	repeat matchKey _x `u8 x,`, // `tick` ""quote"" 'q'
repeat tag{
    repeat u8
trueish `a\`, char[]
    // a // b
    u8x
    @calculatedFrom( ""it's""), }
,match i64_ as BodyLength//x
{ """ ++ [28040; 24687]%N ++ runes_of_ascii """ :
    T	, [	""packet"" ] // " ++ [128512]%N ++ runes_of_ascii " emoji
: x_y_z ,
    ""a\""b"" :A  , 65535 : asx [//	t
""\n""
,0123456789 ,0  ,  0123456789 ]: charz //
[ ""{,}"" ,  ""a\\"" , // @lengthOf(
255	,
10,  1
    , ""\" ++ [233]%N ++ runes_of_ascii """	,10
]: metadata ,
} , repeat
    string x_y_z
,
//
/// triple
match i8i8
as len
    // @lengthOf(
    {
""\n""
    : u8x , 0123456789
: int ,10 // " ++ [128512]%N ++ runes_of_ascii " emoji
: roots
    , }
,  rootA , @tag(// " ++ [27880; 37322]%N ++ runes_of_ascii "
3)rootA @lengthOf(f32a  ) // c
,
    // trailing space 
    }
packet options1{ @calculatedFrom( """ ++ [128512]%N ++ runes_of_ascii """ ) i8i8 //
@lengthOf( Logon )
,
// @lengthOf(
// `tick` ""quote"" 'q'
float32
    chars`tab	here`
,	@leftPad
( '0' ) @tag(3 ) @calculatedFrom(
    """" // trailing space 
) matchKey @calculatedFrom(// packet A { u8 x, }
""" ++ [233]%N ++ runes_of_ascii "t" ++ [233]%N ++ runes_of_ascii """
    ) , repeat uint16	u  ``
, @rightPad( /// triple
) rootA ,@leftPad
(
    // a // b
    '0'
    )// @lengthOf(
_x
// trailing space 
//	t
Z9_	, char[	0123456789 ]
packetx
`crlf
line`	,}")).
Eval vm_compute in ("<<<M3646>>>" ++ check (runes_of_ascii "packet repeatCount {
    match falsey as string_ {
        65535 : crc,
        [007, 65535, 65535] : i8i8,
    },
    @lengthOf(float)
    T {
        // " ++ [128512]%N ++ runes_of_ascii " emoji
        char[] Packet @lengthOf(trueish),
    },
    uint64 Logon `doc`,
    zchar[0] trueish @calculatedFrom(""// no comment""),
    @lengthOf(a1)
    repeat rootA i64_ `// not a comment`,
    u64 u,
}

packet i64_ {
    @rightPad(' ')
    f64 float,// `tick` ""quote"" 'q'
    match rootA as i8i8 {
        [007, ""\n"", """ ++ [128512]%N ++ runes_of_ascii """, """ ++ [128512]%N ++ runes_of_ascii """] : lengthOf,
    },
    i16 Packet,
    int16 lengthOf @calculatedFrom(""" ++ [28040; 24687]%N ++ runes_of_ascii """) `line1
    line2`,
    @calculatedFrom("""")
    @calculatedFrom(""it's"")
    zchar[007] As,
    char[] i8i8 @lengthOf(zchar),
    u16 packetx @lengthOf(falsey),
    repeat len {
        // c
        u32 lengthOf,
    },
    match MetaDataX as u128 {
        1 : u,
        ""x y"" : u,
        255 : i64_,
        ""x y"" : falsey,
        [1, ""1""] : repeatCount,
        // packet A { u8 x, }
    },
}

options {
    asx = uint8;
    matchKey = true
    i64_ = false
    Logon = char[];
    A = 00
}

packet Packet {
    // packet A { u8 x, }
    uint32 float `it's`,
}")).
Eval vm_compute in ("<<<M4461>>>" ++ check (runes_of_ascii "packet 

// a // b

	leftPad{
	matchKey crc,	@lengthOf( u128	)

    repeat
	char[007	]
	a1
`
` ,	repeat	// " ++ [128512]%N ++ runes_of_ascii " emoji
	Z9_
_x

,

@tag( 
42 
)
@lengthOf(

    body)@lengthOf(uint8x
    )  repeat  As {

matchKey 
,
lengthOf
	@calculatedFrom(
    // packet A { u8 x, }
    ""it's""

    ) 
,

    repeat
zchar[255
	] 
body
,  char[]
	u@lengthOf(	A )

    , }  ,

    @leftPad ('0'  ) string body	// @lengthOf(
  `// not a comment`	,
    } packet
    x_y_z{  }  root  packet

T
{
repeat
	char[

3
] Logon
	    // trailing space 

, 	 //x
	  float
    @lengthOf(
	roots
) `{ , }`
    ,
_x	T// " ++ [128512]%N ++ runes_of_ascii " emoji
    ``  ,
}packet	Pad {

    @calculatedFrom(
""packet"" )

u16 repeatCount	@calculatedFrom(

    """ ++ [233]%N ++ runes_of_ascii "t" ++ [233]%N ++ runes_of_ascii """

    ) `// not a comment`	,
    @tag(
3)
zchar[

    4294967296 
]repeatCount 
, } MetaData body {  // packet A { u8 x, }
u32
matchKey
, T  repeatCount 	 // " ++ [128512]%N ++ runes_of_ascii " emoji
`
`

    ,

    char[ // c
  007  
  // trailing space 
	]

    tag,
	i8i8 // " ++ [128512]%N ++ runes_of_ascii " emoji
  	asx ,

    int  u8x 
,	int32

    Logon`say ""hi""`  // " ++ [128512]%N ++ runes_of_ascii " emoji
    , 
}
")).
Eval vm_compute in ("<<<M3511>>>" ++ check (runes_of_ascii "  options

    { StringPrefixLenType  = u8;
    ArrayPrefixLenType = u8
;  FixedStringPadFromLeft= 
true
	;
    FixedStringPadChar
	= ' ' ;
}	packet	Logout

    { repeat  string
Px
	,
	repeat
string seqNo, InMsgkind64

{uint16  OrderId
, 
char[]
count ,	repeat	i32  venue,

}	, }  packet	Heartbeat

{

float32 tag7
    ,repeat

    InPrice50 
{ repeat char[5
]
lastPx
, InRef42	{
    u8  pad0  ,
},	uint32 Acct ,
repeat
	Logout 
, repeat

    char[
    5]

Qty	, }
    ,repeat
InSeqno30

{ repeat	Logout ,}
	, @leftPad(
	'0'
) char[ 12]Acct ,

char[]
    Side2 , 
repeat
    string
	msgKind  ,

    }
packet
    Ack{
	Heartbeat 
,  char[

8	]  seqNo ,	float64	clOrdID

    , } 
packet

Trade  {char[]  OrderId
	,f64 Side2

    ,
zchar[ 8
]  f1  ,
	string Qty
,
float64
	seqNo
, repeat
Logout
	, }packet Order
{f32
    OrderId 
,repeat

    u8 
x,	Ack
	,zchar[
7
    ]  Note
    ,
}

root packet Logon {
@rightPad (

'\x00'

    )
	char[
9
]

    f1
    ,
    }

")).
Eval vm_compute in ("<<<M4038>>>" ++ check (runes_of_ascii "
packet

stringy  {	@tag( 	 //	t
	  1)
Logon@lengthOf(

    roots 
	// @lengthOf(
    // " ++ [27880; 37322]%N ++ runes_of_ascii "
  )
, @tag(

    4294967296 ) 
repeat
    leftPad  {match	metadata

as // trailing space 
  	u8x 
{
4294967296 :// " ++ [128512]%N ++ runes_of_ascii " emoji

pack ""CRC32"" :	f32a ,	}
	,	} ,
    match Logon
as
float {  [ ""// no comment""  // packet A { u8 x, }
      ] :	roots
    0123456789
:Pad	,
    }
, repeat 
Foo 

//
	// c

  {  matchKey
    {zchar[

4294967296 ]  repeatCount

    `{ , }`
,}	,uint64	int
    @lengthOf(
float

    )

    ,	match // packet A { u8 x, }
		asx 
as
trueish{  ""// no comment""  //	t
    : lengthOf
, 
10
: As 	 // `tick` ""quote"" 'q'

	,
3
    :calculatedFrom
,
[  7
	,
    4294967296 
]

: 
leftPad

    ,	4294967296 :BodyLength 
,
	} ,
} 
, i8 Packet,

@calculatedFrom(
""" ++ [128512]%N ++ runes_of_ascii """ )

Logon o ,
	repeat
	u64
asx
    ,  @calculatedFrom(

""a\""b"" )

repeat
int8

MetaDataX , @calculatedFrom(
    ""abc"" 
) 
uint64 	 // trailing space 
  tag  `line1
line2`
, }
")).
Eval vm_compute in ("<<<M4494>>>" ++ check (runes_of_ascii "
packet  a1
	{  chars
{ len  { Logon len 
,  string
string_ , u8x
    @calculatedFrom(	""a\\""
        // a // b
		// c
)
,	repeat 
float	{
    body int
    `" ++ [233]%N ++ runes_of_ascii "`  ,
},

} 
,

    repeat  As
{repeat i64_ f32a
`{ , }`  ,

A
@calculatedFrom( ""\" ++ [233]%N ++ runes_of_ascii """
    ) , int64 float 
    //	t
	, }, match x	as

    chars	{[
	""" ++ [128512]%N ++ runes_of_ascii """ ,007  ,""x y"" ,00  ,

    ""x y""
	, 10 ] :

string_  10
	: float	,
4294967296 : x_y_z ,
[""" ++ [233]%N ++ runes_of_ascii "t" ++ [233]%N ++ runes_of_ascii """ 	 //	t
	, 10
	,	42
    , """ ++ [28040; 24687]%N ++ runes_of_ascii """
,

0123456789
	,42
	,

10 ]
:
T 00	: leftPad // trailing space 
    , }
    , crc
@lengthOf(
    u128 

    // " ++ [128512]%N ++ runes_of_ascii " emoji
    // trailing space 
    	) 	 //x

, }  ,char[]

packetx

    @calculatedFrom( ""abc"")
    `line1
line2`,int32
    repeatCount  @lengthOf( Foo)
	`it's` 	 //	t

,match  Packet	/// triple
	as
    string_
    {42

/// triple

// trailing space 
:
    f32a ,255:MetaDataX 1
    :
	i8i8 """"
:
a1 ,	//	t

	}
	,	_x

    @lengthOf( chars

), 
}
")).
Eval vm_compute in ("<<<M1042>>>" ++ check (runes_of_ascii "  MetaData
//
// a // b
float {stringy // packet A { u8 x, }
leftPad //
, }
root packet a1 /// triple
{ @lengthOf(	matchKey ) char[] int `
`
    ,char[
42] body `a\` , @leftPad ('0'
    ) T { zchar[
1 ] /// triple
u128
@lengthOf( repeatCount
) `
` , // trailing space 
} , @lengthOf(
msg_type
// `tick` ""quote"" 'q'
// @lengthOf(
)
    repeat uint16 rootA , @rightPad( ) repeat metadata i64_ `two words` , match leftPad as _x
{
// @lengthOf(
/// triple
00
    :charz
    , 7	:  float,// @lengthOf(
""CRC32"" :	float 0123456789  :	rootA } ,  rootA , zchar[	42
// " ++ [128512]%N ++ runes_of_ascii " emoji
// packet A { u8 x, }
]
    pack , @lengthOf( trueish)
    i64 Foo , //x
body
    `" ++ [28040; 24687; 31867; 22411]%N ++ runes_of_ascii "` , }packet T //
{repeat Packet ,
// trailing space 
// `tick` ""quote"" 'q'
char[]// @lengthOf(
x
`crlf
line`
, charz @lengthOf(
    pack //
) ,
char[
    // c
    0 ] As,
    @calculatedFrom( """ ++ [28040; 24687]%N ++ runes_of_ascii """
    )MetaDataX ,}")).
Eval vm_compute in ("<<<M1023>>>" ++ check (runes_of_ascii "packet
matchKey {
} MetaData
    string_{ //	t
pack repeatCount
`{ , }` ,
char[ 7 ] x , i32
crc
, Logon chars , uint32 o , Packet charz
    ,
}MetaData calculatedFrom {	int64 uint8x ,i16
    o `// not a comment`, //x
float float
    , } packet stringy { }packet  len { repeat pack `{ , }` , @rightPad (' '
) match i64_ as/// triple
i64_ // @lengthOf(
{
""1"":
As [4294967296 ] ://
Logon , // `tick` ""quote"" 'q'
0123456789 :options1 , 4294967296
: roots}/// triple
, char[ 3 ] rootA
    @lengthOf( int )
,
    @leftPad
(' ')
// a // b
/// triple
@calculatedFrom(
""abc"" )@leftPad (
) zchar[
    255 ]
    _x@calculatedFrom(""{,}"" )
, chars charz `a\` , @lengthOf(  roots )
// a // b
// a // b
match u8x as
    Z9_
// " ++ [27880; 37322]%N ++ runes_of_ascii "
/// triple
{
    // packet A { u8 x, }
    65535  : a1 , 65535 :x_y_z ""a	b"" :MetaDataX , } , tag
,} 	 ")).
Eval vm_compute in ("<<<M465>>>" ++ check (runes_of_ascii "root
packet rootA { repeat
//x
// c
uint32 charz , }
packet Packet{
falsey
    charz
    `say ""hi""`,
    // packet A { u8 x, }
    @tag( 7) BodyLength@calculatedFrom(""a\""b"" )
`line1
line2`, } root
    packet u //x
{
zchar[ 0 ]msg_type @calculatedFrom(""CRC32"") `tab	here` ,}packet	tag {
@lengthOf(	A)match x //	t
as roots  {
// `tick` ""quote"" 'q'
// c
"""" : tag
, 00 //x
: packetx, 007  :
    body """ ++ [28040; 24687]%N ++ runes_of_ascii """
: trueish , 0
:  lengthOf
,
} , crc ,
string Packet , Pad@calculatedFrom(""a\""b"" )
, repeat Pad
    {
match a1 as trueish
    { 00 :
trueish 7:	calculatedFrom , // c
[	""""
]	: BodyLength
,[7] :BodyLength , 3 :
i64_
0 :Pad
, }	,}
// " ++ [27880; 37322]%N ++ runes_of_ascii "
// a // b
, //	t
string T
`line1
line2` , @rightPad
    ( ' '
) rootA {	string
    x `doc`,char[
    0 ]Packet @calculatedFrom(""abc"" ),
    }
    ,
}")).
Eval vm_compute in ("<<<M479>>>" ++ check (runes_of_ascii "packet // " ++ [128512]%N ++ runes_of_ascii " emoji
BodyLength { zchar[
10 ] x
    @calculatedFrom( """" ) ,  @lengthOf(
    string_
    )metadata
, @lengthOf(	trueish
) repeat
chars { zchar[ 00 ]T @calculatedFrom(
    ""a	b"" ) `crlf
line` ,
char[// @lengthOf(
0
]
chars	, }
    , uint8
    // a // b
    rootA
@lengthOf( int) , @lengthOf( packetx
) char[	007 ]
uint8x @calculatedFrom( ""\" ++ [233]%N ++ runes_of_ascii """
) ,
    u
{ char[] Pad @calculatedFrom(
""\n"" ) , }, char[
    10 ]
pack
@lengthOf(
_x //	t
)`two words`
, char[]
    Logon	@lengthOf(body
    ) , @lengthOf(matchKey )
    chars { uint16  pack ,  char[ 4294967296]
// trailing space 
/// triple
options1@calculatedFrom( ""CRC32"") // packet A { u8 x, }
, u32 i64_
`say ""hi""`, lengthOf `// not a comment`  ,
    } , options1 @lengthOf( x
) , }
")).
Eval vm_compute in ("<<<M3527>>>" ++ check (runes_of_ascii "options {
    StringPrefixLenType = u16;
    ArrayPrefixLenType = u32;
    FixedStringPadFromLeft = false;
    FixedStringPadChar = '0';
}
packet Logout {
    f64 f1,
    i16 Note,
    @rightPad('\x00') char[11] Flags,
}
packet Cancel {
    float64 msgKind,
}
packet Reject {
    InQty43 {
        float32 sym,
        char[10] Tail,
        uint8 venue,
        uint16 f1,
        char[9] Acct,
    },
}
packet Trade {
    char[] x,
    zchar[6] Note,
    repeat Reject,
}
root packet Order {
    Cancel,
    Logout,
    u64 Acct,
    u32 OrderId,
    match OrderId as Body {
        [127, 70] : Reject,
        177 : Trade,
        58 : Logout,
        75 : Cancel,
    },
    u32 Tail @calculatedFrom(""CRC32""),
}
")).
Eval vm_compute in ("<<<M3562>>>" ++ check (runes_of_ascii "// " ++ [27880; 37322]%N ++ runes_of_ascii "
packet leftPad {
    // a // b
    string As `{ , }`,
    char[42] msg_type,
    @lengthOf(i8i8)
    match Foo as matchKey {
        1 : chars,
        65535 : o,
        7 : calculatedFrom,
        [65535, 7, ""a	b""] : int,
        [
            00, 0, 65535, 007, ""x y"",
            """ ++ [128512]%N ++ runes_of_ascii """, ""it's"", """"
        ] : Packet,
        """" : float,
    },
    u64 Logon @calculatedFrom(""" ++ [128512]%N ++ runes_of_ascii """),
    @calculatedFrom(""a	b"")
    pack {
        float32 charz `line1
                line2`,
    },
}

MetaData u128 {
    repeatCount len `" ++ [233]%N ++ runes_of_ascii "`,
    BodyLength charz,
    u8x trueish `a\`,
    Header msg_type `line1
        line2`,
    string stringy,
    char[] u128 `" ++ [233]%N ++ runes_of_ascii "`,
}

options {
}")).
Eval vm_compute in ("<<<M926>>>" ++ check (runes_of_ascii "
packet T {
@calculatedFrom(""\" ++ [233]%N ++ runes_of_ascii """ )
    string// a // b
f32a ,repeat f32
    falsey , /// triple
@leftPad	('0' )
match // packet A { u8 x, }
repeatCount as
repeatCount
    {
    ""a	b"" : body
    , } ,
x_y_z @lengthOf(
trueish) // `tick` ""quote"" 'q'
,f64 crc , @calculatedFrom( //	t
""x y"")@tag( 0 // " ++ [128512]%N ++ runes_of_ascii " emoji
)
@tag( 65535 )
int16 u128 @lengthOf( string_// a // b
)`" ++ [233]%N ++ runes_of_ascii "` , @calculatedFrom(
    ""\n"" ) char[0123456789 ]Foo@calculatedFrom(
""CRC32"" ) ,@calculatedFrom( ""a\\"" )
match
    T
    as msg_type
{
    [ 65535,""x y""
,
3, 255
,
    0	] :
T,[// trailing space 
""CRC32"" , ""1""
    //	t
    , 3 , 10 , 65535 ]: u //	t
, 4294967296:	a1 ,
},}")).
Eval vm_compute in ("<<<M3804>>>" ++ check (runes_of_ascii "options {
    LittleEndian = true;
    FixedStringPadFromLeft = true;
    FixedStringPadChar = '0';
}

packet Trade {
    string clOrdID,
    char[] Px,
    u32 x,
}

packet Reject {
    int32 Side2,
    repeat char[3] clOrdID,
    i32 tag7,
}

packet Leg {
}

root packet Quote {
    string Side2,
    string lastPx,
    InSym58 {
        int16 OrderId,
        Reject,
        i8 Qty,
        i64 venue,
        f32 Note,
    },
    char[] count,
    zchar[9] price,
    u16 Qty,
    match Qty as Body {
        69 : Leg,
        48 : Trade,
        51 : Reject,
    },
    u16 Acct @calculatedFrom(""CRC32""),
}")).
Eval vm_compute in ("<<<M3749>>>" ++ check (runes_of_ascii "packet Z9_ {
    a1,
}

root packet crc {
    /// triple
    // trailing space 
    u32 o @calculatedFrom(""it's""),
    float32 lengthOf,
    zchar[4294967296] repeatCount @lengthOf(MetaDataX) `{ , }`,//
    @rightPad('0')
    body {
        string Packet `tab	here`,
    },
    repeat i8i8 {
        match BodyLength as Foo {
            7 : f32a,
            42 : A,
            ""packet"" : uint8x,
            [""a\\""] : u8x,
            ""it's"" : As,
        },
        repeat zchar[65535] crc,
        char[] chars `a\`,
    },
    char[4294967296] repeatCount `two words`,
}")).
Eval vm_compute in ("<<<M1143>>>" ++ check (runes_of_ascii "// " ++ [128512]%N ++ runes_of_ascii " emoji
packet _x	{
    }  packet Logon{  repeat
int64 uint8x ,
    roots
{zchar[65535 ]
float // @lengthOf(
,i64 MetaDataX
    , int32 charz , uint32 _x `" ++ [28040; 24687; 31867; 22411]%N ++ runes_of_ascii "` , } ,//x
string tag
    @calculatedFrom( ""\" ++ [233]%N ++ runes_of_ascii """ )  ,	repeat char BodyLength , }	packet	zchar
{
@calculatedFrom( ""x y"" ) @tag(1	)
zchar[
    1	] u ,pack {zchar[ 3 ] packetx @lengthOf(Foo )  ,} , match
roots as A  {
    42
:f32a ,}
,
    @lengthOf(leftPad // packet A { u8 x, }
)
@leftPad ( // @lengthOf(
'0' )@calculatedFrom( """"
    // packet A { u8 x, }
    ) metadata , }")).
Eval vm_compute in ("<<<M1273>>>" ++ check (runes_of_ascii "MetaData
lengthOf
{
// " ++ [27880; 37322]%N ++ runes_of_ascii "
// a // b
zchar[ 4294967296 ]
Pad,	As // " ++ [128512]%N ++ runes_of_ascii " emoji
trueish`" ++ [28040; 24687; 31867; 22411]%N ++ runes_of_ascii "` , u32 calculatedFrom
`it's` ,zchar[// " ++ [128512]%N ++ runes_of_ascii " emoji
255
    ]packetx ,	string
asx , int16 string_ ``
    ,
    } packet	Header { @calculatedFrom(""" ++ [233]%N ++ runes_of_ascii "t" ++ [233]%N ++ runes_of_ascii """) uint8 //	t
lengthOf
,string
    //	t
    int @calculatedFrom(	""x y"") `" ++ [28040; 24687; 31867; 22411]%N ++ runes_of_ascii "` ,match
stringy as tag { [
10 ] :
    trueish //x
10// `tick` ""quote"" 'q'
:  int
    /// triple
    ,
    // @lengthOf(
    ""abc"" : o
}	, @tag(3 )
    zchar[ // `tick` ""quote"" 'q'
255 ] i64_ , }

")).
Eval vm_compute in ("<<<M4360>>>" ++ check (runes_of_ascii "packet crc {
    @rightPad('0')
    int @calculatedFrom(""\n""),
    o,
    Header `say ""hi""`,
    @lengthOf(asx)
    // c
    repeat packetx {
        match uint8x as o {
            65535 : _x,
            // trailing space 
            42 : x,
        },
    },
    repeat x_y_z,
    char[00] crc @lengthOf(Z9_),
    u8x {
        uint32 float `" ++ [28040; 24687; 31867; 22411]%N ++ runes_of_ascii "`,
        string_ `
                `,
        zchar[65535] u,
        falsey @lengthOf(MetaDataX),
    },
    string A `two words`,
}")).
Eval vm_compute in ("<<<M4370>>>" ++ check (runes_of_ascii "packet charz {
    @lengthOf(x_y_z)
    match msg_type as msg_type {
        ""a	b"" : packetx,
    },
    repeat zchar[255] i8i8 `tab	here`,
    char[255] i8i8 @lengthOf(i64_),
}

root packet matchKey {
    zchar[3] body `crlf
    line`,
    @calculatedFrom(""x y"")
    char[00] leftPad `u8 x,`,
}// packet A { u8 x, }

packet u8x {
    @tag(00)
    metadata {
        repeat lengthOf {
            zchar[0] _x @calculatedFrom(""it's"") `say ""hi""`,
        },
    },
}")).
Eval vm_compute in ("<<<M3905>>>" ++ check (runes_of_ascii "options 
{	Foo 
    // " ++ [27880; 37322]%N ++ runes_of_ascii "
	= ' '

    ; 	 //
calculatedFrom
=
'\x00'

; Logon //x

=

    0//

  x

=	'\x00'
    ;  // packet A { u8 x, }
} packet
	_x
    {
    @calculatedFrom(""" ++ [28040; 24687]%N ++ runes_of_ascii """ ) 
repeat int32 
Z9_,  Pad packetx ,	@lengthOf(	u128 )@tag( 1

    ) match msg_type as  x 
{ 
    // @lengthOf(
    	[ """ ++ [233]%N ++ runes_of_ascii "t" ++ [233]%N ++ runes_of_ascii """ 
]

:  x, 
}// " ++ [27880; 37322]%N ++ runes_of_ascii "
    ,
@lengthOf( a1 
	    // " ++ [128512]%N ++ runes_of_ascii " emoji
    )	leftPad
    // a // b
    	//x
    	As
    ,i8i8 _x ,

} // " ++ [128512]%N ++ runes_of_ascii " emoji
 
")).
Eval vm_compute in ("<<<M4285>>>" ++ check (runes_of_ascii "packet MetaDataX {
    @tag(3)
    int16 Pad `line1
        line2`,
    @lengthOf(i8i8)
    match u8x as Packet {
        1 : u128,
        ""`tick`"" : matchKey,
    },
    @lengthOf(packetx)
    zchar[4294967296] Z9_ @calculatedFrom(""abc""),//	t
    @tag(255)
    int64 i64_ @lengthOf(Packet),
    repeat uint8 u128,
    As metadata,
    @lengthOf(asx)
    @lengthOf(A)
    @calculatedFrom(""CRC32"")
    //
    u8 options1 `say ""hi""`,
}")).
Eval vm_compute in ("<<<M414>>>" ++ check (runes_of_ascii "// @lengthOf(
options
{
a1
    // a // b
    =false ;
}root packet options1	{ i64_ @lengthOf( // trailing space 
matchKey) ,  u64
Logon `say ""hi""`  ,
@lengthOf( a1 // packet A { u8 x, }
)	@calculatedFrom(
""\" ++ [233]%N ++ runes_of_ascii """ ) // `tick` ""quote"" 'q'
repeat float32 _x // packet A { u8 x, }
,@calculatedFrom(	""// no comment"" ) @tag( 7	)
@calculatedFrom( ""abc"") int16
    options1 @calculatedFrom( ""CRC32"" ) ,// `tick` ""quote"" 'q'
}")).
Eval vm_compute in ("<<<M756>>>" ++ check (runes_of_ascii "//x
options
{  } packet As{ @leftPad() Packet  `a\`
,// c
}	packet i64_	{
i16 charz
    `tab	here`, @calculatedFrom(
""" ++ [233]%N ++ runes_of_ascii "t" ++ [233]%N ++ runes_of_ascii """ ) @lengthOf(
Packet )
char[ 4294967296 ] msg_type	@lengthOf(
leftPad ) ,  } MetaData o { x falsey ,// packet A { u8 x, }
i16 u8x	`crlf
line`, zchar[4294967296 ] // @lengthOf(
u8x `" ++ [28040; 24687; 31867; 22411]%N ++ runes_of_ascii "` , char[
3 ]Header	, x
//
// @lengthOf(
string_
    // " ++ [27880; 37322]%N ++ runes_of_ascii "
    ,
// c
//	t
} // @lengthOf(")).
Eval vm_compute in ("<<<M1224>>>" ++ check (runes_of_ascii "root packet stringy{ repeat stringy
`
` , @rightPad
(
    '\x00')	repeat A `tab	here`
    ,@tag( 0)
@rightPad
( ) repeat As
u128 `tab	here`	,@calculatedFrom( ""CRC32"" ) string_	{ repeat i8 o  ,
zchar[ 42	]	stringy `doc`
,  char[]
int
    ,match trueish as zchar  { [
//
//	t
""" ++ [233]%N ++ runes_of_ascii "t" ++ [233]%N ++ runes_of_ascii """,
    3] :
asx,}	, } ,
    }
    options { roots =	65535  ;
    } MetaData float {  Foo f32a ,}
")).
Eval vm_compute in ("<<<M544>>>" ++ check (runes_of_ascii "
MetaData msg_type {string u128`` , string uint8x,} options{
//	t
// " ++ [27880; 37322]%N ++ runes_of_ascii "
uint8x =
    // c
    ""packet"";
// `tick` ""quote"" 'q'
// a // b
}MetaData trueish //	t
{MetaDataX int
,
    int msg_type `{ , }` ,Foo lengthOf ,float32 calculatedFrom
    ,
int64 packetx,// " ++ [27880; 37322]%N ++ runes_of_ascii "
uint32 Z9_ , }  MetaData string_
    {
uint32 string_ , }
    packet BodyLength
{	char[ 10] o
, }")).
Eval vm_compute in ("<<<M3850>>>" ++ check (runes_of_ascii "//x
options {
}

packet As {
    @leftPad()
    Packet `a\`,// c
}

packet i64_ {
    i16 charz `tab	here`,
    @calculatedFrom(""" ++ [233]%N ++ runes_of_ascii "t" ++ [233]%N ++ runes_of_ascii """)
    @lengthOf(Packet)
    char[4294967296] msg_type @lengthOf(leftPad),
}

MetaData o {
    x falsey,
    i16 u8x `crlf
    line`,
    zchar[4294967296] u8x `" ++ [28040; 24687; 31867; 22411]%N ++ runes_of_ascii "`,
    char[3] Header,
    x string_,
}// @lengthOf(")).
Eval vm_compute in ("<<<M4154>>>" ++ check (runes_of_ascii "root
    packet Foo // " ++ [128512]%N ++ runes_of_ascii " emoji
    	{} 
options
    {
    // a //# b
	tag  // `tick` ""quote"" 'q'
    = //	t
  """" 
;
    u8x  =

zchar[ 0	]}MetaData
    int

{
	zchar[ 
10
    ]

lengthOf `` ,
i64 u8x `// not a comment` 
, 
MetaDataX

    pack// `tick` ""quote"" 'q'
    `crlf
line` ,
Logon
charz 
`crlf
line`
,
	    // a // b

}

")).
Eval vm_compute in ("<<<M4264>>>" ++ check (runes_of_ascii "options {
    calculatedFrom = '0';
}

root packet metadata {
    i64 float @calculatedFrom(""1""),
    @rightPad()
    Logon u `crlf
    line`,// trailing space 
    falsey Packet `line1
    line2`,
    u32 a1 `tab	here`,
}// " ++ [128512]%N ++ runes_of_ascii " emoji

options {
    lengthOf = '\x00'
    msg_type = uint8;
    repeatCount = 0123456789;
}//x")).
Eval vm_compute in ("<<<M3507>>>" ++ check (runes_of_ascii "
options{

LittleEndian =
true
;

    ArrayPrefixLenType
	=u64
;

FixedStringPadFromLeft  =
    false ;
	}	packet Quote
{  }	root
packet
Order

    {  i64 Side2  , Quote,
u32

Px
, 
match

    Px
    as Body

    {
    [
	119 , 147 ] : 
Quote ,

}, u16

Flags	@calculatedFrom(
""CRC32""
)
    ,
	}")).
Eval vm_compute in ("<<<M1525>>>" ++ check (runes_of_ascii "root packet Foo // " ++ [128512]%N ++ runes_of_ascii " emoji
{ } options {
    // a // b
    tag // `tick` ""quote"" 'q'
= //	t
""""
    ; u8x = zchar[0  ] }
MetaData
    int {zchar[ 10]
lengthOf lengthOf	`` , i64 u8x`// not a comment` ,MetaDataX pack// `tick` ""quote"" 'q'
`crlf
line`
, Logon charz `crlf
line`
    ,
    // a // b
    }
")).
Eval vm_compute in ("<<<M3944>>>" ++ check (runes_of_ascii "options {
    body = 0123456789
}

packet tag {
    o @lengthOf(packetx) `" ++ [28040; 24687; 31867; 22411]%N ++ runes_of_ascii "`,
    repeat options1 {
        float64 o `doc`,
    },
}

root packet float {
    @calculatedFrom(""a	b"")
    //	t
    float32 BodyLength `crlf
    line`,
    repeat f32a Header `say ""hi""`,
    int8 falsey `{ , }`,
}")).
Eval vm_compute in ("<<<M1555>>>" ++ check (runes_of_ascii "root packet Foo // " ++ [128512]%N ++ runes_of_ascii " emoji
{ } options {
    // a // b
    tag // `tick` ""quote"" 'q'
= //	t
""""
    ; u8x = zchar[0  ] }
MetaData
    int {zchar[ 10]
lengthOf	`` , i64 u8x`// not a comment` , ,MetaDataX pack// `tick` ""quote"" 'q'
`crlf
line`
, Logon charz `crlf
line`
    ,
    // a // b
    }
")).
Eval vm_compute in ("<<<M1441>>>" ++ check (runes_of_ascii "root packet Foo // " ++ [128512]%N ++ runes_of_ascii " emoji
{ } options tag
    // a // b
    { // `tick` ""quote"" 'q'
= //	t
""""
    ; u8x = zchar[0  ] }
MetaData
    int {zchar[ 10]
lengthOf	`` , i64 u8x`// not a comment` ,MetaDataX pack// `tick` ""quote"" 'q'
`crlf
line`
, Logon charz `crlf
line`
    ,
    // a // b
    }
")).
Eval vm_compute in ("<<<M1601>>>" ++ check (runes_of_ascii "root packet Foo // " ++ [128512]%N ++ runes_of_ascii " emoji
{ } options {
    // a // b
    tag // `tick` ""quote"" 'q'
= //	t
""""
    ; u8x = zchar[0  ] }
MetaData
    int {zchar[ 10]
lengthOf	`` , i64 u8x`// not a comment` ,MetaDataX pack// `tick` ""quote"" 'q'
`crlf
line`
, Logon charz `crlf
line`
    ,
    // a // b
    =
")).
Eval vm_compute in ("<<<M1413>>>" ++ check (runes_of_ascii "; packet Foo // " ++ [128512]%N ++ runes_of_ascii " emoji
{ } options {
    // a // b
    tag // `tick` ""quote"" 'q'
= //	t
""""
    ; u8x = zchar[0  ] }
MetaData
    int {zchar[ 10]
lengthOf	`` , i64 u8x`// not a comment` ,MetaDataX pack// `tick` ""quote"" 'q'
`crlf
line`
, Logon charz `crlf
line`
    ,
    // a // b
    }
")).
Eval vm_compute in ("<<<M1279>>>" ++ check (runes_of_ascii "root packet packetx
{ char[ 65535] u
    , @lengthOf( MetaDataX
) @lengthOf( rootA ) @lengthOf( u8x
)  zchar[ 3 ]zchar`
` ,
// packet A { u8 x, }
//	t
lengthOf len	, repeat A	{
    // c
    lengthOf @calculatedFrom( ""x y"" ) ,	zchar[
// a // b
// " ++ [27880; 37322]%N ++ runes_of_ascii "
007]zchar @lengthOf( float	) ,} ,}
")).
Eval vm_compute in ("<<<M4390>>>" ++ check (runes_of_ascii "
root	packet
rootA
    { @leftPad  ('\x00' 	 // `tick` ""quote"" 'q'
  ) 
@lengthOf(

    crc)

    @lengthOf(

    string_
    ) uint16
Z9_
    `
`
,
    @lengthOf( 
Z9_	)char[4294967296 
] 
zchar

`say ""hi""` ,
u ,
	match
    int

as stringy{
	3:
    body ,
    }
,}")).
Eval vm_compute in ("<<<M1108>>>" ++ check (runes_of_ascii "MetaData lengthOf
    {
float rootA `
`
,  i16 // " ++ [128512]%N ++ runes_of_ascii " emoji
x	,
float32 msg_type, lengthOf
// a // b
// " ++ [27880; 37322]%N ++ runes_of_ascii "
u8x `" ++ [28040; 24687; 31867; 22411]%N ++ runes_of_ascii "` ,}
    options {  packetx= 3 ;options1=  zchar[255 ]
;  Pad =false
    ; repeatCount =	42 // @lengthOf(
;
    chars
/// triple
// a // b
= ' '; }")).
Eval vm_compute in ("<<<M3422>>>" ++ check (runes_of_ascii "// top
options // c0a
  // c0b
{ // c1a
  // c1b
LittleEndian
    // c2
= true // c4a
  // c4b
; // c5a
  // c5b
} // c6
root // c7
packet
    // c8
P // c9a
  // c9b
{
    // c10
repeat char cs // c13
, // c14a
  // c14b
u8 // c15
x // c16
, // c17
} ")).
Eval vm_compute in ("<<<M481>>>" ++ check (runes_of_ascii "MetaData	a1
    { rootA
i8i8 `crlf
line`
, } options { msg_type
= 65535 Header  =false lengthOf = char[]	} packet stringy
    { repeat chars chars `u8 x,` , }
packet u128 // a // b
{ repeat x
    {  u16 As@calculatedFrom( ""`tick`""
),} ,
}
")).
Eval vm_compute in ("<<<M359>>>" ++ check (runes_of_ascii "
MetaData falsey
{uint64
matchKey
`// not a comment` ,	char Pad
    ,
    int16 Pad
// packet A { u8 x, }
// @lengthOf(
`" ++ [28040; 24687; 31867; 22411]%N ++ runes_of_ascii "`// @lengthOf(
,
    zchar[ 00 ]x_y_z, char[] // packet A { u8 x, }
i64_ , Logon repeatCount `tab	here` ,}")).
Eval vm_compute in ("<<<M2316>>>" ++ check (runes_of_ascii "MetaData Packet { }packet	asx  { @lengthOf( asx) falsey`crlf
line`
,
    }
    packet x	{uint32// @lengthOf(
rootA	,u32 options1 options1 `say ""hi""` , @tag( 7
    )// packet A { u8 x, }
msg_type @lengthOf(
stringy	)	, }

")).
Eval vm_compute in ("<<<M2273>>>" ++ check (runes_of_ascii "MetaData Packet { }packet	asx  { @lengthOf( asx) falsey`crlf
line`
'\x00'
    }
    packet x	{uint32// @lengthOf(
rootA	,u32 options1 `say ""hi""` , @tag( 7
    )// packet A { u8 x, }
msg_type @lengthOf(
stringy	)	, }

")).
Eval vm_compute in ("<<<M2313>>>" ++ check (runes_of_ascii "MetaData Packet { }packet	asx  { @lengthOf( asx) falsey`crlf
line`
,
    }
    packet x	{uint32// @lengthOf(
rootA	,@tag( options1 `say ""hi""` , @tag( 7
    )// packet A { u8 x, }
msg_type @lengthOf(
stringy	)	, }

")).
Eval vm_compute in ("<<<M2227>>>" ++ check (runes_of_ascii "MetaData Packet { packet}	asx  { @lengthOf( asx) falsey`crlf
line`
,
    }
    packet x	{uint32// @lengthOf(
rootA	,u32 options1 `say ""hi""` , @tag( 7
    )// packet A { u8 x, }
msg_type @lengthOf(
stringy	)	, }

")).
Eval vm_compute in ("<<<M2220>>>" ++ check (runes_of_ascii "MetaData Packet  }packet	asx  { @lengthOf( asx) falsey`crlf
line`
,
    }
    packet x	{uint32// @lengthOf(
rootA	,u32 options1 `say ""hi""` , @tag( 7
    )// packet A { u8 x, }
msg_type @lengthOf(
stringy	)	, }

")).
Eval vm_compute in ("<<<M1333>>>" ++ check (runes_of_ascii "options { BodyLength
=' ' zchar = true; calculatedFrom = float64
    T =  ' ' ; // c
}
packet i64_ {
    repeat zchar[
    3
] roots `say ""hi""`
    ,zchar[ 65535 ] Z9_ @lengthOf( msg_type
    ) `two words`, }
")).
Eval vm_compute in ("<<<M2212>>>" ++ check (runes_of_ascii " Packet { }packet	asx  { @lengthOf( asx) falsey`crlf
line`
,
    }
    packet x	{uint32// @lengthOf(
rootA	,u32 options1 `say ""hi""` , @tag( 7
    )// packet A { u8 x, }
msg_type @lengthOf(
stringy	)	, }

")).
Eval vm_compute in ("<<<M637>>>" ++ check (runes_of_ascii "root //
packet A // packet A { u8 x, }
{ @lengthOf( calculatedFrom )
@tag( 65535 ) charz @lengthOf(charz
    )  , } options {
crc
= 65535 }
options
    {leftPad // @lengthOf(
=1
    A =
true
;
}
")).
Eval vm_compute in ("<<<M13>>>" ++ check (runes_of_ascii "packet crc {
@tag(  0123456789// " ++ [128512]%N ++ runes_of_ascii " emoji
) i64 uint8x , }
MetaData i8i8 {
    zchar[
    65535 ] int, }	packet lengthOf  {
// trailing space 
//	t
@leftPad	('0')	falsey int ,	}
// @lengthOf(
")).
Eval vm_compute in ("<<<M928>>>" ++ check (runes_of_ascii "  packet
zchar {	match roots
as stringy{[ //	t
""`tick`"" ]	: calculatedFrom 10 :asx , """ ++ [233]%N ++ runes_of_ascii "t" ++ [233]%N ++ runes_of_ascii """
    :
    // `tick` ""quote"" 'q'
    BodyLength , """ ++ [128512]%N ++ runes_of_ascii """ :options1 , 3:
    repeatCount
    , }
,}")).
Eval vm_compute in ("<<<M3838>>>" ++ check (runes_of_ascii "packet len {
}//	t

root packet Pad {
    char[] Header,
    @lengthOf(falsey)
    // " ++ [128512]%N ++ runes_of_ascii " emoji
    char[] Header,
    len `line1
    line2`,
}

packet asx {
    repeat int16 u,
}")).
Eval vm_compute in ("<<<M4024>>>" ++ check (runes_of_ascii "// @lengthOf(
MetaData pack {
    char[255] options1,
    uint64 lengthOf,
    int32 roots,
}

root packet Packet {
    @calculatedFrom(""{,}"")
    string zchar `" ++ [28040; 24687; 31867; 22411]%N ++ runes_of_ascii "`,
}")).
Eval vm_compute in ("<<<M386>>>" ++ check (runes_of_ascii "packet float
{  zchar[ 65535
]
string_
`doc` , @rightPad (
    '\x00' )
    @calculatedFrom(
    """ ++ [128512]%N ++ runes_of_ascii """ ) i16
    repeatCount , zchar[
    65535
]_x `crlf
line`
,}")).
Eval vm_compute in ("<<<M584>>>" ++ check (runes_of_ascii "
root packet leftPad {
//	t
// c
char[] chars , }root
    packet
// a // b
// `tick` ""quote"" 'q'
stringy
{// " ++ [27880; 37322]%N ++ runes_of_ascii "
char[  42 ] A , } packet Foo{
u128
A ,
}
")).
Eval vm_compute in ("<<<M1164>>>" ++ check (runes_of_ascii "packet metadata
    {
    @tag( 3 ) repeat	Logon ,}
    MetaData crc {
// `tick` ""quote"" 'q'
// `tick` ""quote"" 'q'
}
    root packet
x_y_z
    { }

")).
Eval vm_compute in ("<<<M1105>>>" ++ check (runes_of_ascii "MetaData
chars { char[]body, char[]leftPad// c
`tab	here` ,
    char Packet,f32a
    trueish,
rootA
i64_ ,	} options
{ rootA=
    zchar[ 0
] }")).
Eval vm_compute in ("<<<M825>>>" ++ check (runes_of_ascii "
packet string_ { @calculatedFrom( ""abc"" ) @calculatedFrom(""" ++ [28040; 24687]%N ++ runes_of_ascii """ ) @rightPad (
//	t
// packet A { u8 x, }
'0'
    )crc len `tab	here`
,
}
")).
Eval vm_compute in ("<<<M1013>>>" ++ check (runes_of_ascii "MetaData string_ { char[0123456789 ]
Pad	,u128 // " ++ [27880; 37322]%N ++ runes_of_ascii "
Header`` ,Foo u8x ,	leftPad
    trueish
, char[
    /// triple
    1 ]
i64_,
}
")).
Eval vm_compute in ("<<<M1698>>>" ++ check (runes_of_ascii "root packet /// triple
rootA {	i32
MetaDataX@calculatedFrom( ""CRC32"" ) `line1
line2` , } MetaData BodyLength {
u8 u8
rootA, } // c")).
Eval vm_compute in ("<<<M1729>>>" ++ check (runes_of_ascii "root packet /// triple
rootA {	i32
MetaDataX@calculatedFrom( ""CRC32"" ) `line1
line2` , } MetaData BodyLength {
u8
'rootA, } // c")).
Eval vm_compute in ("<<<M894>>>" ++ check (runes_of_ascii "options
{ As= string u =
    """ ++ [233]%N ++ runes_of_ascii "t" ++ [233]%N ++ runes_of_ascii """
} packet string_	{ @tag( 3) int32 As ,
} root packet stringy { //x
string int,}
options{  }")).
Eval vm_compute in ("<<<M1636>>>" ++ check (runes_of_ascii "root packet /// triple
as {	i32
MetaDataX@calculatedFrom( ""CRC32"" ) `line1
line2` , } MetaData BodyLength {
u8
rootA, } // c")).
Eval vm_compute in ("<<<M1841>>>" ++ check (runes_of_ascii "packet
    Pad // a // b
{ i8i8 @calculatedFrom( ""a	b"") `u8 x,` ,
} options{ float float// " ++ [128512]%N ++ runes_of_ascii " emoji
= f64 i64_
=//	t
00 }
")).
Eval vm_compute in ("<<<M1009>>>" ++ check (runes_of_ascii "options
{
// @lengthOf(
// " ++ [27880; 37322]%N ++ runes_of_ascii "
Logon	= char[007 ] matchKey =char[7 // " ++ [128512]%N ++ runes_of_ascii " emoji
] string_= ""1"" ; msg_type
=
    ""\" ++ [233]%N ++ runes_of_ascii """ ;} 	 ")).
Eval vm_compute in ("<<<M3658>>>" ++ check (runes_of_ascii "packet Logon{ 
@tag(
42)
	@rightPad  (' '
)
    @leftPad  (

    )repeat trueish{
string
    T
,
}
    , }

    // c")).
Eval vm_compute in ("<<<M1807>>>" ++ check (runes_of_ascii "packet
    Pad // a // b
{ i8i8 @calculatedFrom( )""a	b"" `u8 x,` ,
} options{ float// " ++ [128512]%N ++ runes_of_ascii " emoji
= f64 i64_
=//	t
00 }
")).
Eval vm_compute in ("<<<M1894>>>" ++ check (runes_of_ascii "packet
    Pad // a // b
{ i8i8 @calculatedFrom( ""a	b"") `u8 x,` ,
} options{ " ++ [252]%N ++ runes_of_ascii "ber// " ++ [128512]%N ++ runes_of_ascii " emoji
= f64 i64_
=//	t
00 }
")).
Eval vm_compute in ("<<<M3715>>>" ++ check (runes_of_ascii "
options	{

    } packet	u128
	{	repeat	uint8x x	`say ""hi""` , 	 // trailing space 
}

    MetaData crc {
	}

")).
Eval vm_compute in ("<<<M2979>>>" ++ check (runes_of_ascii "packet A {
  match k as n {
    [""a"", ""bb"", ""c c"", ""d"", ""e"", ""f"", ""g"", ""h"", ""i"", ""j"", ""k""] : B
    2 : C
  },
}")).
Eval vm_compute in ("<<<M2377>>>" ++ check (runes_of_ascii "MetaData Packet { }packet	asx  { @lengthOf( asx) falsey`crlf
line`
,
    }
    packet x	{uint32// @lengthO")).
Eval vm_compute in ("<<<M4476>>>" ++ check (runes_of_ascii "

  packet  
  // c
	o 
{
@tag( 42) repeat
x  {char[
0123456789 ]

i64_,}
,  }

options
	{

    }

")).
Eval vm_compute in ("<<<M3349>>>" ++ check (runes_of_ascii "packet calculatedFrom { @tag( 4294967296 ) // c
u msg_type , char[ 3 ] crc @lengthOf( len ) `u8 x,` , }")).
Eval vm_compute in ("<<<M1093>>>" ++ check (runes_of_ascii "MetaData
    f32a  { u8
    roots`doc`  , zchar[ 7 ] uint8x ,
    matchKey
    u128 `tab	here` ,
    }")).
Eval vm_compute in ("<<<M407>>>" ++ check (runes_of_ascii "// `tick` ""quote"" 'q'
packet As { u64 msg_type
,@lengthOf(
trueish  ) lengthOf
    int`a\` , //
}")).
Eval vm_compute in ("<<<M3258>>>" ++ check (runes_of_ascii "packet Logon { @tag( 42 ) @rightPad ( ' ' ) @leftPad ( ) repeat trueish { string T , } , } // c
")).
Eval vm_compute in ("<<<M3231>>>" ++ check (runes_of_ascii "packet Logon { @tag( 42 ) @rightPad (
// c
' ' ) @leftPad ( ) repeat trueish { string T , } , }")).
Eval vm_compute in ("<<<M548>>>" ++ check (runes_of_ascii "packet leftPad { char[] MetaDataX `crlf
line` , f32 pack @calculatedFrom(	""a\\"" ) `" ++ [28040; 24687; 31867; 22411]%N ++ runes_of_ascii "` , }
")).
Eval vm_compute in ("<<<M339>>>" ++ check (runes_of_ascii "MetaData Z9_ {
//	t
// " ++ [27880; 37322]%N ++ runes_of_ascii "
u128 Foo  , lengthOf uint8x
    // " ++ [128512]%N ++ runes_of_ascii " emoji
    `say ""hi""` ,
    }")).
Eval vm_compute in ("<<<M2944>>>" ++ check (runes_of_ascii "packet A {
  match k as n {
    [""a"", 22, ""c c"", 4, ""e"", 66, ""g"", 8] : B
    2 : C
  },
}")).
Eval vm_compute in ("<<<M3171>>>" ++ check (runes_of_ascii "packet A { match k as n // a
 { // b
 1 // c
 : // d
 B // e
 , // f
 } // g
 , // h
 }")).
Eval vm_compute in ("<<<M1988>>>" ++ check (runes_of_ascii "root
packet crc
    { f32a @calculatedFrom( ) """ ++ [233]%N ++ runes_of_ascii "t" ++ [233]%N ++ runes_of_ascii """
    `say ""hi""`, lengthOf `` ,  }")).
Eval vm_compute in ("<<<M908>>>" ++ check (runes_of_ascii "packet T {
    @lengthOf(As )
u8x `tab	here` ,	} MetaData f32a {
uint64 trueish , }")).
Eval vm_compute in ("<<<M2918>>>" ++ check (runes_of_ascii "packet A {
  match k as n {
    [""a"", 22, ""c c"", 4, ""e"", 66] : B
    2 : C
  },
}")).
Eval vm_compute in ("<<<M3322>>>" ++ check (runes_of_ascii "packet o { @tag( 42 ) repeat x { char[ 0123456789 ] i64_ , } // c
, } options { }")).
Eval vm_compute in ("<<<M889>>>" ++ check (runes_of_ascii "options { // c
matchKey= ""a\""b""	; a1
=
uint16
charz
=char[]
a1	=u8; As = 00; }")).
Eval vm_compute in ("<<<M40>>>" ++ check (runes_of_ascii "  root
    packet falsey
{}
/// triple
// " ++ [27880; 37322]%N ++ runes_of_ascii "
options {}
// trailing space 
")).
Eval vm_compute in ("<<<M1302>>>" ++ check (runes_of_ascii "MetaData f32a {
    int64 rootA
`tab	here`, }packet
    msg_type{
} // " ++ [27880; 37322]%N)).
Eval vm_compute in ("<<<M3184>>>" ++ check (runes_of_ascii "packet A {
    match k as n {
        1 : B // c
        , // d
    },
}")).
Eval vm_compute in ("<<<M3393>>>" ++ check (runes_of_ascii "// c
MetaData _x { zchar[ 4294967296 ] lengthOf `// not a comment` , }")).
Eval vm_compute in ("<<<M3458>>>" ++ check (runes_of_ascii "root packet P {
    u16 a,
    u32 Sum @calculatedFrom(""CR\
C32""),
}
")).
Eval vm_compute in ("<<<M930>>>" ++ check (runes_of_ascii "MetaData u8x{  char[ 0123456789 ]T  ,} options
    {roots =
u64 ; }")).
Eval vm_compute in ("<<<M2835>>>" ++ check (runes_of_ascii "string , ( i16 @lengthOf( uint64 : string char[ repeat true zchar[")).
Eval vm_compute in ("<<<M2866>>>" ++ check (runes_of_ascii "packet A {
  match k as n {
    [""a"", ""bb""] : B
    2 : C
  },
}")).
Eval vm_compute in ("<<<M4412>>>" ++ check (runes_of_ascii "

  root  packet

P

    {hdr 
{
u8
a

,
	}	, u8

x

,
}
")).
Eval vm_compute in ("<<<M3700>>>" ++ check (runes_of_ascii "
MetaData

    zchar{  
  // c
    zchar[3
    ]Pad ,  }

")).
Eval vm_compute in ("<<<M4101>>>" ++ check (runes_of_ascii "packet tag {
    @tag(007)
    @tag(007)
    u T `it's`,
}")).
Eval vm_compute in ("<<<M1947>>>" ++ check (runes_of_ascii "
packet	As { @calculatedFrom(//x
""{,}""	" ++ [233]%N ++ runes_of_ascii ")lengthOf , } 	 ")).
Eval vm_compute in ("<<<M277>>>" ++ check (runes_of_ascii "  MetaData/// triple
pack{
i64 Header
, u64
As
,
}
")).
Eval vm_compute in ("<<<M356>>>" ++ check (runes_of_ascii "packet
    x_y_z {
i8 As@calculatedFrom(""a	b""	)  ,}")).
Eval vm_compute in ("<<<M3651>>>" ++ check (runes_of_ascii "root packet

    P	{repeat 
char cs,

u8
	x , } ")).
Eval vm_compute in ("<<<M2400>>>" ++ check (runes_of_ascii "MetaData [
{
i64
chars	, } // `tick` ""quote"" 'q'")).
Eval vm_compute in ("<<<M3012>>>" ++ check (runes_of_ascii "MetaData M {
    u8 x `a
b`,
    T t `a
b`,
}")).
Eval vm_compute in ("<<<M1754>>>" ++ check (runes_of_ascii "options { }{ options  } // `tick` ""quote"" 'q'")).
Eval vm_compute in ("<<<M1155>>>" ++ check (runes_of_ascii "MetaData	u8x {
// a // b
// c
chars crc, }
")).
Eval vm_compute in ("<<<M4429>>>" ++ check (runes_of_ascii "

  // trailing space 
    	options {
	}
")).
Eval vm_compute in ("<<<M1160>>>" ++ check (runes_of_ascii "packet tag
//x
// " ++ [128512]%N ++ runes_of_ascii " emoji
{ }
// a // b
")).
Eval vm_compute in ("<<<M3200>>>" ++ check (runes_of_ascii "MetaData zchar { zchar[ 3 ] // c
Pad , }")).
Eval vm_compute in ("<<<M170>>>" ++ check (runes_of_ascii "options { Foo
    //	t
    = string }
")).
Eval vm_compute in ("<<<M992>>>" ++ check (runes_of_ascii "packet As {	repeat uint64
Foo
    , }")).
Eval vm_compute in ("<<<M3020>>>" ++ check (runes_of_ascii "packet A {
    u8 x `a
    b
  c`,
}")).
Eval vm_compute in ("<<<M2611>>>" ++ check (runes_of_ascii "packet A { match k as { 1 : B }, }")).
Eval vm_compute in ("<<<M1804>>>" ++ check (runes_of_ascii "packet
    Pad // a // b
{ i8i8")).
Eval vm_compute in ("<<<M3044>>>" ++ check (runes_of_ascii "packet A {
    u8 x `tab
	x`,
}")).
Eval vm_compute in ("<<<M3118>>>" ++ check (runes_of_ascii "packet A {
 u8 x `d" ++ [11]%N ++ runes_of_ascii "`, // c" ++ [11]%N ++ runes_of_ascii "
}")).
Eval vm_compute in ("<<<M2059>>>" ++ check (runes_of_ascii "MetaData A match u64 pack, }")).
Eval vm_compute in ("<<<M2771>>>" ++ check (runes_of_ascii "yI^UB""SmPxS\Q^)mT~k`!;LS}q%")).
Eval vm_compute in ("<<<M2774>>>" ++ check (runes_of_ascii "#" ++ [65533; 28; 65533; 65533]%N ++ runes_of_ascii "P9	" ++ [65533; 8; 65533]%N ++ runes_of_ascii "z" ++ [65533; 65533]%N ++ runes_of_ascii "(," ++ [65533; 65533; 65533; 65533]%N ++ runes_of_ascii " " ++ [22; 65533; 65533; 19]%N ++ runes_of_ascii "C")).
Eval vm_compute in ("<<<M3389>>>" ++ check (runes_of_ascii "packet lengthOf { }
// c
")).
Eval vm_compute in ("<<<M3277>>>" ++ check (runes_of_ascii "options { u8x = // c
3 }")).
Eval vm_compute in ("<<<M4299>>>" ++ check (runes_of_ascii "MetaData BodyLength {
}")).
Eval vm_compute in ("<<<M925>>>" ++ check (runes_of_ascii "packet msg_type
{ }
")).
Eval vm_compute in ("<<<M2066>>>" ++ check (runes_of_ascii "MetaData A { u64 , }")).
Eval vm_compute in ("<<<M2796>>>" ++ check (runes_of_ascii ", root as char[ o :")).
Eval vm_compute in ("<<<M3071>>>" ++ check (runes_of_ascii "packet A {
}
// c" ++ [160]%N)).
Eval vm_compute in ("<<<M3617>>>" ++ check (runes_of_ascii "MetaData charz {
}")).
Eval vm_compute in ("<<<M3109>>>" ++ check (runes_of_ascii "packet A {
}// c" ++ [8287]%N)).
Eval vm_compute in ("<<<M1188>>>" ++ check (runes_of_ascii "options {
    }")).
Eval vm_compute in ("<<<M717>>>" ++ check (runes_of_ascii "
options { }
")).
Eval vm_compute in ("<<<M233>>>" ++ check (runes_of_ascii " // a // b")).
Eval vm_compute in ("<<<M2463>>>" ++ check (runes_of_ascii "metadata")).
Eval vm_compute in ("<<<M1789>>>" ++ check (runes_of_ascii "packet")).
Eval vm_compute in ("<<<M2448>>>" ++ check (runes_of_ascii "true1")).
Eval vm_compute in ("<<<M3140>>>" ++ check (runes_of_ascii "// c" ++ [6158]%N)).
Eval vm_compute in ("<<<M1319>>>" ++ check (runes_of_ascii "

")).
Eval vm_compute in ("<<<M2807>>>" ++ check (runes_of_ascii "e-z")).
Eval vm_compute in ("<<<M2503>>>" ++ check (runes_of_ascii """")).
