From FP Require Import Lexer Parser ShowPT Digest Formatter.
From Coq Require Import String List NArith.
Import ListNotations.
Open Scope string_scope.
Set Printing Width 100000000.
Set Printing Depth 100000000.
Definition show_fres (r : fres) : string :=
  match r with
  | FOk s => "OK:" ++ sh_escaped s ""
  | FErr s => "ERR:" ++ sh_escaped s ""
  | FPanic p => "PANIC:" ++ p
  end.
Definition check (rs : list rune) : string := digest (show_fres (format_res rs)).
Definition full (rs : list rune) : string := show_fres (format_res rs).
Eval vm_compute in ("<<<M3587>>>" ++ check (runes_of_ascii "

  options
{ LittleEndian =true
    ; StringPrefixLenType	=u8

; 
ArrayPrefixLenType  =
	u16 ;FixedStringPadChar
=	'0'
    ;
JavaPackage=
	""com.example.msg""

    ; 
GoPackage= 
""msg""
; GoModule

=""example.com/msg""
	; 
}

MetaData
	Meta{ u32 
SeqNum
	`sequence number`
	,char[

    8]
	Symbol	`symbol`
    , zchar[ 
5

    ]
ZSym `z symbol`	,	string
Note ,  Symbol

    AltSymbol 
`alias of symbol` ,
f64

    Price

,

}
    packet Inner	{ u8 a
	, i16	b,	string  c
,	}  packet
Inner2 
{
    u8
a2 , 
char[
    3
]  c2,
	}packet

Logon	{	u8 x
	,string user 
, repeat
	u16 codes  ,}packet
Logout 
{ u16

    reason , 
}packet Empty
	{
}	root
	packet Msg

{

    u8

su8
, 
uint8
    luint8
	,  u16 
su16

, uint16
    luint16 
,
    u32	su32
,	uint32

luint32 , 
u64
su64 , uint64 
luint64
,
	i8	si8

, int8

lint8,
i16 si16 ,  int16

lint16 
,
i32

    si32, int32
lint32, i64 si64
	, int64
    lint64

    ,
f32
    sf32
	,  float32  lfloat32 
,	f64

    sf64
,	float64
    lfloat64,
	char[ 6
]fsplain ,

@leftPad	('0'
	)
char[4
	]
    fs0  ,
    @rightPad 
(	'0'
	)
	char[

5

] 
fs1 ,

    @leftPad  (

    ' '
) 
char[
6] fs2,  @rightPad 
(  ' '
    )

    char[
7]fs3, @leftPad

( '\x00'

) char[8 ]

    fs4  ,@rightPad('\x00'
    ) char[ 
9
    ] 
fs5 ,@leftPad

    (  ) 
char[10
    ]
	fs6

,
@rightPad ( ) char[ 11
]fs7
    ,zchar[
    7

    ]fz

,@leftPad ( '0'

)

zchar[3]fzl0,string 
s1  `doc` 
,
char[]

    s2,
    Inner
,
Sub
{  u8 q
,string w
	,
Deep { u16
	z
    ,repeat
	i32 
zs ,

} 
, }

    ,
repeat
u8 ru8 
,	repeat
u16
	ru16
,repeat  u32	ru32
    ,
	repeat
    u64
	ru64

, repeat

    i8
    ri8
    , 
repeat i16 
ri16 ,	repeat
	i32  ri32	,repeat
	i64	ri64
    ,
repeat 
f32

    rf32
,

repeat	f64
rf64 , repeat

string

rstr
    ,repeat
    char[]

rstr2

    ,
repeat

    char[ 3  ] rfs

, repeat
	zchar[
    3 ]
rfz , 
repeat Inner2

    ,

    repeat
	Grp  {

u8

k, char[  2	]
v,
	}  ,SeqNum  , SeqNum seq2 ,
    repeat SeqNum
    seqs ,	Symbol
    ,
	AltSymbol alt
	,	ZSym

    ,Note

, repeat	Symbol	syms,
	Price
px
,
u16
MsgType ,

    u32 BodyLen
@lengthOf(	Body
    )  ,match MsgType as  Body 
{ 
1 : Logon , [	2 ,  3 ]

    :

Logout ,  7 
:	Logon

    ,9:Empty,

} ,u32
Checksum@calculatedFrom(""CRC32""

)
    ,
	}
")).
Eval vm_compute in ("<<<M4301>>>" ++ check (runes_of_ascii "options {
}

root packet msg_type {
    match u8x as zchar {
        [0, 00] : metadata,
        10 : Z9_,
        ""a\""b"" : chars,
        0 : uint8x,
        // " ++ [27880; 37322]%N ++ runes_of_ascii "
        007 : chars,
    },
    A @lengthOf(Pad),
    @leftPad(' ')
    @leftPad(' ')
    @tag(00)
    int8 Pad @calculatedFrom(""x y""),
}

root packet msg_type {
    i64 uint8x,
    @leftPad('\x00')
    Z9_ @calculatedFrom(""""),
    Pad `two words`,
}

packet f32a {
    zchar[4294967296] u,
    @leftPad('0')
    repeat uint64 zchar `crlf
    line`,
    // 50% %s
    int16 msg_type `100% of %d`,
    @lengthOf(crc)
    calculatedFrom {
        // packet A { u8 x, }
        // " ++ [27880; 37322]%N ++ runes_of_ascii "
        Header {
            matchKey @lengthOf(falsey),
            match int as BodyLength {
                // 50% %s
                7 : packetx,
                """ ++ [28040; 24687]%N ++ runes_of_ascii """ : msg_type,
            },
            x @calculatedFrom(""a\""b""),
            match body as len {
                ""`tick`"" : body,
                """ ++ [128512]%N ++ runes_of_ascii """ : roots,
                // trailing space 
                //
                4294967296 : packetx,
                /// triple
                // @lengthOf(
                ""a\""b"" : matchKey,
            },
        },
    },
    repeat i8i8 body,
    repeat As crc,
    match uint8x as tag {
        [""a\\"", 7, ""x y""] : float,
        ""a	b"" : A,
        ""CRC32"" : rootA,
        [
            ""a\""b"", ""CRC32"", 3, ""it's"", 42,
            65535, """"
        ] : options1,
        [1] : Packet,
    },
    match string_ as u8x {
        0123456789 : zchar,
        //x
    },
    zchar @calculatedFrom("""") `line1
    line2`,
    repeat T {
        metadata @calculatedFrom(""x y""),
        match a1 as metadata {
            4294967296 : options1,
            ""x y"" : i8i8,
        },
        repeat leftPad {
            char[42] float,// a // b
        },
    },
}

options {
    i64_ = true
}")).
Eval vm_compute in ("<<<M3991>>>" ++ check (runes_of_ascii "  packet 	 // `tick` ""quote"" 'q'

  x
{zchar[ 10
]

    leftPad
,
    @leftPad	(
)

char[

10

    ]

    repeatCount `crlf
line`  , @rightPad
    // trailing space 
  // 50% %s
	( ' '

)
@lengthOf(
Header)
@tag( 007 //	t
      )  A

@lengthOf(
rootA  )`doc`

, @tag(

    7

    )
@rightPad( 

//x
		// `tick` ""quote"" 'q'

' '
	)
@leftPad 
( 
)

    match repeatCount
    as
BodyLength

    {

3 :tag

, 65535
:
o 
,

[ ""it's""

    ,
    3 ]
: 
i64_ ,

    00:

    u128 ,""""	: 
Logon
	,

}
	,
string  // packet A { u8 x, }
      pack 

    // trailing space 

,calculatedFrom	asx

// " ++ [128512]%N ++ runes_of_ascii " emoji
  	// `tick` ""quote"" 'q'
  ,}  root

packet
	x_y_z 
{  packetx, 
} packet 
  // " ++ [128512]%N ++ runes_of_ascii " emoji
lengthOf
    {

i32 x	`100% of %d` 
,match u 
      //
    // packet A { u8 x, }
as
    packetx  {[
	//x

	//x
      ""\" ++ [233]%N ++ runes_of_ascii """,  
  // " ++ [27880; 37322]%N ++ runes_of_ascii "
    255,
    // a // b
    // c
    	65535  , 0123456789//	t
      ] : Z9_  ,} 
,
    repeat  char[	007] // c
      packetx	,match
    metadata
	as  repeatCount {[1

    ,10 
]
	:
    // c
/// triple
  x_y_z ,

    7 :  T,} ,
	float trueish

,  T
@lengthOf(
A )
    ,
    match  charz  as 
	    // " ++ [27880; 37322]%N ++ runes_of_ascii "

//x
    uint8x

{
	""" ++ [128512]%N ++ runes_of_ascii """ 
:

BodyLength 
}
	,
repeat

trueish
{	i64_ 
	    /// triple

  {string f32a
	@calculatedFrom( ""`tick`"" )`// not a comment` ,

} 
,
} , }
    root  packet
	float
	{ @calculatedFrom(""x y""	)  match  // " ++ [27880; 37322]%N ++ runes_of_ascii "
Packet as

Foo

    { [
""it's""
	] :

    u  ,	65535 
	// " ++ [27880; 37322]%N ++ runes_of_ascii "

:u128
    ,
    007:  u  ,
[
	00]	//	t

:

calculatedFrom
	, 	 /// triple
	  [

    42
]
    :
tag
},

    }

")).
Eval vm_compute in ("<<<M3868>>>" ++ check (runes_of_ascii "root packet rootA {
    len chars `line1
        line2`,
    @tag(3)
    @calculatedFrom(""1"")
    u128 {
        string matchKey,
    },
    Packet {
        zchar[7] falsey,
    },
    repeat uint32 uint8x,
    repeat msg_type {
        zchar[0123456789] msg_type @lengthOf(roots) `a\`,
        char[0] As,
    },
    f64 body,
    @leftPad(' ')
    @lengthOf(o)
    match x as As {
        10 : packetx,
        """ ++ [128512]%N ++ runes_of_ascii """ : matchKey,
        0 : T,
    },
    @lengthOf(calculatedFrom)
    matchKey {
        repeat char[1] matchKey `two words`,
    },
}

root packet falsey {
    //
    char[007] leftPad `100% of %d`,
    repeat i32 tag ``,
    @calculatedFrom(""a	b"")
    @lengthOf(chars)
    repeat rootA ``,
    @lengthOf(crc)
    repeat Z9_ {
        repeat int16 rootA,
        packetx @lengthOf(string_) `line1
                line2`,
        repeat tag {
            char chars,
            u8 metadata,// c
            float32 float,
            match matchKey as options1 {
                007 : chars,
            },
        },
        char[] float,
    },
    zchar[0] u @lengthOf(stringy) `
        `,
}

packet T {
    lengthOf @lengthOf(chars) `tab	here`,
    x_y_z {
        stringy @calculatedFrom(""CRC32""),
    },
}

packet zchar {
    @lengthOf(As)
    char[] u,
    @calculatedFrom(""{,}"")
    i64 falsey `it's`,
}

packet float {
}")).
Eval vm_compute in ("<<<M3845>>>" ++ check (runes_of_ascii "packet a1 {
    repeat char[007] stringy,
}

packet Foo {
    stringy,
    match _x as o {
        10 : a1,
    },
    @leftPad()
    // 50% %s
    Pad @calculatedFrom(""// no comment""),// 50% %s
    repeat a1 a1 `two words`,
    i32 falsey `two words`,
    @calculatedFrom(""CRC32"")
    x @calculatedFrom(""\" ++ [233]%N ++ runes_of_ascii """) `u8 x,`,
    repeat uint8x {
        u {
            char[] u128 @lengthOf(leftPad) `{ , }`,
            roots,
            repeat u16 metadata,
        },
    },
    zchar[007] BodyLength @calculatedFrom(""a\\""),// " ++ [27880; 37322]%N ++ runes_of_ascii "
    char[] o @lengthOf(f32a),
}

root packet charz {
    @tag(42)
    rootA asx `
        `,
    a1 {
        u32 stringy,
        float @calculatedFrom(""" ++ [233]%N ++ runes_of_ascii "t" ++ [233]%N ++ runes_of_ascii """) `line1
                line2`,
        repeat repeatCount a1,
        repeat msg_type `{ , }`,
    },
    u @calculatedFrom(""CRC32"") `line1
        line2`,
    @lengthOf(f32a)
    match zchar as msg_type {
        [""{,}""] : chars,
        ""packet"" : As,
        [1, ""CRC32"", ""a\""b"", 0] : tag,
    },
    repeat float32 tag `" ++ [233]%N ++ runes_of_ascii "`,
    @tag(10)
    string string_ @calculatedFrom(""x y"") `line1
        line2`,
    @tag(4294967296)
    repeat char o,
    // c
    repeat zchar[42] msg_type `crlf
        line`,
    char[42] BodyLength @calculatedFrom(""a	b""),
}")).
Eval vm_compute in ("<<<M3908>>>" ++ check (runes_of_ascii "
packet x_y_z
{	//x
	  repeat  Foo `crlf
line`  ,int64
f32a

,
match falsey
    as
int 
{ 	 // " ++ [27880; 37322]%N ++ runes_of_ascii "
	[

1
	] 	 // 50% %s
	:
	Logon ,[ ""\n""	,
""// no comment""
	]: repeatCount

,

[""\" ++ [233]%N ++ runes_of_ascii """

    ,""it's""
    ,
3	]
	:	o
	,

    65535:	repeatCount, [""abc"" 
,""abc""
]
: charz

}  , chars

    {  repeat

    char[]i64_  ,
}

    ,
	repeat
i64_
	o`" ++ [233]%N ++ runes_of_ascii "` 

    //x
  ,	match
uint8x
as	// a // b
	_x 
{	""" ++ [233]%N ++ runes_of_ascii "t" ++ [233]%N ++ runes_of_ascii """
    :BodyLength // 50% %s
  ,  ""x y""
:	charz
	, 
[
	007 ]  // 50% %s
:

charz 
,  ""it's""	:  // " ++ [128512]%N ++ runes_of_ascii " emoji
	  MetaDataX 007:

    u128,/// triple
	[  1 ,  // 50% %s
    	""a\\"" ,
	65535 , 	 // 50% %s
42

    , ""a\""b"" ] : 
i8i8, }
    ,//
	@leftPad(
)

    match
repeatCount as
u8x { 
[
""it's"" ]
: 
trueish

, } 
,
@lengthOf(  //	t

  i8i8 ) int8 
	// " ++ [128512]%N ++ runes_of_ascii " emoji

	// " ++ [27880; 37322]%N ++ runes_of_ascii "
  f32a @lengthOf(

Header
    // @lengthOf(
      // `tick` ""quote"" 'q'
    )  `u8 x,`  // " ++ [128512]%N ++ runes_of_ascii " emoji
,@lengthOf(
    lengthOf // `tick` ""quote"" 'q'
	)  /// triple
  @calculatedFrom( 	 // c

  """ ++ [128512]%N ++ runes_of_ascii """ 	 // packet A { u8 x, }
  	)	char[]
    roots

, 
@calculatedFrom(  ""a	b"" )
@lengthOf(
    trueish )//	t

	@calculatedFrom( ""CRC32"" ) repeat

T{
repeat x T	, 
}, 	 //x
}

")).
Eval vm_compute in ("<<<M571>>>" ++ check (runes_of_ascii "root packet A {match rootA as  Packet /// triple
{
[3 , ""// no comment"" ,""" ++ [128512]%N ++ runes_of_ascii """
,""""	,
    """"]: int // 50% %s
, [	0 , /// triple
""1""
, """ ++ [128512]%N ++ runes_of_ascii """,0, ""x y""	, ""it's""
    , 00
,
    ""it's"" ]
    :
    pack , 00 : trueish // c
,
    0123456789 : A , [7 ,""x y"" , ""\" ++ [233]%N ++ runes_of_ascii """ , ""1"" , 0123456789
    ] : Header ,
007 :repeatCount ,} , char[] repeatCount@calculatedFrom(
""{,}"" ) ,// " ++ [128512]%N ++ runes_of_ascii " emoji
float{ match repeatCount as u8x {10:a1 //	t
3	: asx // `tick` ""quote"" 'q'
[""" ++ [28040; 24687]%N ++ runes_of_ascii """
    // `tick` ""quote"" 'q'
    ] :	leftPad
    7:
    asx // a // b
, 007 : x, ""x y"": Logon
    // 50% %s
    , }
,	zchar[
    42 ] repeatCount @calculatedFrom(
""\n""
    )	,
float32 // " ++ [128512]%N ++ runes_of_ascii " emoji
repeatCount `{ , }` , string tag
`
`
, } , x Logon
// trailing space 
//
`
` ,
repeat u128
,@calculatedFrom(  ""a\\""
)
zchar[ 3
    /// triple
    ] Logon
    ,	@tag(
007 )
    Pad`100% of %d` , } packet //	t
chars { @lengthOf(// a // b
lengthOf) @tag( 10 )  repeat	string_ , }	packet Z9_  {
charz , match
    metadata as charz {
7
    :Foo , 42 :
float,""a\""b""
: zchar ,[1,4294967296 ,""it's"" ,1 // trailing space 
]  : crc ,
    }
, }
")).
Eval vm_compute in ("<<<M724>>>" ++ check (runes_of_ascii "packet roots { @rightPad ( '\x00' )	char[]
    u8x	@lengthOf( float )`say ""hi""`
, repeat rootA
{ zchar[
42
] As
`say ""hi""` , } ,} options
    {A = true ; uint8x =  ' '
;
    } packet MetaDataX {
@calculatedFrom( ""it's"" )u64 lengthOf
@calculatedFrom( ""a\\""
    ) `it's`// " ++ [27880; 37322]%N ++ runes_of_ascii "
,string_
    { metadata , float64 len //
`" ++ [28040; 24687; 31867; 22411]%N ++ runes_of_ascii "` ,
    repeat
u `say ""hi""`
, u BodyLength
    , // `tick` ""quote"" 'q'
} ,repeat T, @tag( 0123456789)
    float// " ++ [27880; 37322]%N ++ runes_of_ascii "
T , @tag( 10 )
@tag(
3 )
    @rightPad(
) repeat body {
// c
// c
int32	float@calculatedFrom( ""abc"") , repeat
    uint32 asx
    , repeat asx {
    repeat roots
    { int64 _x
    `100% of %d` ,	len rootA ``
    , }
, repeat zchar[
    42]len, uint8x
i8i8	, f32a  @lengthOf( Logon
// packet A { u8 x, }
// " ++ [27880; 37322]%N ++ runes_of_ascii "
)
,} ,} // packet A { u8 x, }
, repeat
Foo { Header { Header
    x_y_z ,
    /// triple
    zchar
// a // b
// c
x_y_z	, } , } ,// a // b
As{ repeat
u32
Pad `// not a comment` ,
    // a // b
    }
    ,leftPad	@calculatedFrom(""a\\"" ) // c
, } packet body	{ }")).
Eval vm_compute in ("<<<M1028>>>" ++ check (runes_of_ascii "  packet
    repeatCount {	match u
as tag
    { 1 :
x , 7 :
zchar
,	4294967296	:f32a // " ++ [128512]%N ++ runes_of_ascii " emoji
}
, }
packet _x{ float64 falsey ,@tag(
0123456789
)
/// triple
//	t
char[] crc
    ,Logon
    {char[ 007 ]
// trailing space 
//	t
MetaDataX	@calculatedFrom( ""a\""b""
)
`doc`
, },}
    options {} // 50% %s
packet a1/// triple
{ i16 matchKey
@calculatedFrom(
""{,}"" )
, falsey { match
    o as len{ 7:  As , } // a // b
,
    f32a { match i8i8 as roots{ ""{,}"" : msg_type 7
:
string_ 65535 : roots , ""\" ++ [233]%N ++ runes_of_ascii """ : i8i8,
    } ,
x_y_z @calculatedFrom(
""it's""  )`line1
line2`
,
zchar[
1	] chars @lengthOf( o ) ,
    uint8 Pad
    ,} , string
T  , char[ 4294967296 ] Logon@calculatedFrom(""packet""
)`" ++ [28040; 24687; 31867; 22411]%N ++ runes_of_ascii "`
    , }
    , repeat float x_y_z , repeat f64  stringy , @tag(
    3 )
    @leftPad ( ) uint16 string_ @lengthOf( f32a// packet A { u8 x, }
)`{ , }`
    , @rightPad ( '0'
)/// triple
crc
    // `tick` ""quote"" 'q'
    falsey ,
    }
packet
    falsey { }

")).
Eval vm_compute in ("<<<M3503>>>" ++ check (runes_of_ascii "// top
packet // c0
A { u8 a
    // c4
, // c5
} // c6
packet // c7a
  // c7b
B // c8
{ // c9
u16
    // c10
b // c11a
  // c11b
, // c12
} // c13
packet C // c15a
  // c15b
{ u32
    // c17
c , // c19
} // c20a
  // c20b
root // c21a
  // c21b
packet M {
    // c24
u16 // c25a
  // c25b
Kc // c26
,
    // c27
u16 Kb
    // c29
, u16
    // c31
Ka , match // c34a
  // c34b
Kc // c35
as // c36
X // c37
{ // c38
9 : A , 10 // c43a
  // c43b
:
    // c44
B // c45a
  // c45b
,
    // c46
} // c47a
  // c47b
,
    // c48
match // c49
Kb as Y // c52
{ // c53
2 // c54
: // c55
C // c56
, // c57a
  // c57b
1 // c58
: // c59a
  // c59b
A // c60a
  // c60b
, // c61a
  // c61b
} // c62
, match // c64a
  // c64b
Ka
    // c65
as // c66
Z // c67
{ 1 // c69
: // c70a
  // c70b
B // c71a
  // c71b
,
    // c72
} // c73
, // c74a
  // c74b
A , B // c77a
  // c77b
, C
    // c79
, } // c81a
  // c81b
")).
Eval vm_compute in ("<<<M4076>>>" ++ check (runes_of_ascii "packet zchar {
    repeat char[10] repeatCount `line1
    line2`,
    zchar[10] rootA @calculatedFrom(""packet""),
    f32 crc `{ , }`,
    repeat char[255] msg_type,
}

options {
    u8x = ""\n"";
}

packet trueish {
    repeat i64_,
    @calculatedFrom(""// no comment"")
    // `tick` ""quote"" 'q'
    @tag(4294967296)
    repeat matchKey {
        As `
        `,
        u8x `it's`,
        Packet @lengthOf(T) `a\`,
    },// a // b
    lengthOf packetx `" ++ [28040; 24687; 31867; 22411]%N ++ runes_of_ascii "`,
    roots {
        MetaDataX len,
        zchar {
            match Packet as MetaDataX {
                // 50% %s
                // `tick` ""quote"" 'q'
                1 : x_y_z,
                7 : o,
                0123456789 : i64_,
            },
        },// a // b
    },
    @calculatedFrom(""// no comment"")
    repeat int16 charz `line1
    line2`,// c
    @tag(0123456789)
    u `
    `,
}")).
Eval vm_compute in ("<<<M337>>>" ++ check (runes_of_ascii "options{  Foo =true
    ; /// triple
_x //x
=
// 50% %s
// `tick` ""quote"" 'q'
f32 // @lengthOf(
pack
    = ""1""; } packet T
{ @tag( 007
    )
    @lengthOf( Logon ) @lengthOf(packetx )uint64 As`crlf
line` , // packet A { u8 x, }
match u128 as o { """ ++ [233]%N ++ runes_of_ascii "t" ++ [233]%N ++ runes_of_ascii """: int,
} ,T
@calculatedFrom( ""`tick`"" )
// packet A { u8 x, }
// " ++ [128512]%N ++ runes_of_ascii " emoji
, @tag( 65535 ) match u as  body
{ ""\" ++ [233]%N ++ runes_of_ascii """ :
trueish
,
// `tick` ""quote"" 'q'
// @lengthOf(
[
    1 ] : rootA
}	, @lengthOf(
    // c
    zchar ) match // @lengthOf(
BodyLength as	asx {3
:asx // c
, // 50% %s
""a\""b"":
// a // b
//x
f32a , 255
:	f32a ,
    // 50% %s
    [
7 , //	t
0123456789 , ""\n"" // a // b
, 42
    ,
    0
, 0 , 0123456789 ] :
x
,
    42 :matchKey
//
//x
[ ""abc"" ] : pack ,
}
, }
    root packet
charz { @rightPad // a // b
(	)
    // `tick` ""quote"" 'q'
    u , //
}")).
Eval vm_compute in ("<<<M3782>>>" ++ check (runes_of_ascii "
root
packet	options1

    { @lengthOf(	f32a
    )
//
    repeat
    string float

`crlf
line`
	,@lengthOf( msg_type
	)	@calculatedFrom(""{,}""// @lengthOf(
      ) zchar[

3	]
Header	// c
, 	 // a // b
      f64  i64_ `100% of %d`
,
    @lengthOf(

    Z9_ 
)

    match  Header
as
	msg_type { 
""" ++ [233]%N ++ runes_of_ascii "t" ++ [233]%N ++ runes_of_ascii """  :
leftPad,
    }, 
Z9_

{

    match lengthOf

as  x_y_z{ 
[ 
// @lengthOf(
10 ,4294967296	]	/// triple

: 
packetx

""a	b""

:
matchKey	7 :
leftPad,[ ""x y""

    ,

4294967296	// trailing space 
    	, 
1 ,

""a\""b"",
	""a\""b""
	,  // `tick` ""quote"" 'q'
    	""x y"" ]
:	string_
}  ,char BodyLength
	`a\`/// triple

  ,
    }
    , @rightPad ('\x00'
    )
i64
    Pad
	,
    //	t
  // " ++ [27880; 37322]%N ++ runes_of_ascii "
	@rightPad
    ( 
'\x00'	)
	f32a
	@calculatedFrom(
""a	b"" 
    //x
	// a // b
    ) ,
}")).
Eval vm_compute in ("<<<M841>>>" ++ check (runes_of_ascii "
packet u /// triple
{
A , u
repeatCount
`tab	here` ,@lengthOf( //
msg_type)
crc@lengthOf( // @lengthOf(
len
    // c
    )
    , char[] matchKey,  @calculatedFrom( """ ++ [28040; 24687]%N ++ runes_of_ascii """
) repeat
Z9_, zchar[ 65535 ]charz , i16 pack @lengthOf(	charz ) , chars@calculatedFrom(""\n"" //x
) , @rightPad (
'0' )
int16	calculatedFrom`crlf
line` , @tag( 7) int64
    chars
    `doc` // a // b
,
    } packet chars { char[
42]asx @calculatedFrom(  ""packet"" ) , match// trailing space 
roots as
    crc	{ //
0 :
u
    , // c
00
:f32a  ,[
    65535 ,""abc""
] :
// `tick` ""quote"" 'q'
// packet A { u8 x, }
falsey , // " ++ [27880; 37322]%N ++ runes_of_ascii "
""{,}""
//	t
/// triple
:
tag
, },  calculatedFrom i8i8 `two words` ,
    // packet A { u8 x, }
    } options { _x =char[]
    /// triple
    ;	}
")).
Eval vm_compute in ("<<<M3994>>>" ++ check (runes_of_ascii "packet

    Packet  {
matchKey
`tab	here`  ,
	@calculatedFrom(""// no comment""
) options1 
`a\`
    , @tag( 65535
)
    zchar[
	10	]
u128 `it's`

,	@lengthOf( repeatCount

)repeat char[]

    Logon
	,

    len 
      //x
@lengthOf(
leftPad 
)`100% of %d` ,

    @lengthOf(charz 

// a // b
  )
@lengthOf(x_y_z) @leftPad
    (

'\x00' 
)	// c

trueish
@lengthOf( string_

    ) ,  repeat

zchar {	repeat 
char[0
] o 	 // " ++ [27880; 37322]%N ++ runes_of_ascii "

  `100% of %d`
,

    match
Packet  as f32a 
{ 0: 	 /// triple
a1  , 65535 : 
leftPad
    // `tick` ""quote"" 'q'
	}

    ,
match
    rootA
as  stringy  { 
42 	 //
:

    _x ,
} ,repeat

string
    float
,  } , char[ 42

]
charz @calculatedFrom( """ ++ [28040; 24687]%N ++ runes_of_ascii """ 
),
}")).
Eval vm_compute in ("<<<M963>>>" ++ check (runes_of_ascii "
MetaData Packet  {
} packet
    stringy{ zchar[
00 ] tag @lengthOf( u )/// triple
`it's` ,
repeat char[ 255 ]Foo `line1
line2`	,@tag( 0123456789
) a1 @lengthOf(
    Header	) , @rightPad ( '\x00' ) match MetaDataX  as	u128 {// 50% %s
[
    """ ++ [28040; 24687]%N ++ runes_of_ascii """ ]	: calculatedFrom
, 0123456789 :
    _x
    ,
""1"" :
u [
""" ++ [28040; 24687]%N ++ runes_of_ascii """ ,
""`tick`"" ]
//x
// @lengthOf(
:
int,
    ""\n""
: x ,7: asx,} ,As crc`doc`	,@lengthOf(	charz
    // " ++ [128512]%N ++ runes_of_ascii " emoji
    )
    uint8x chars ,
    /// triple
    } options
{
    i64_ = zchar[
007
] ; pack =
42 ; // 50% %s
tag =// " ++ [128512]%N ++ runes_of_ascii " emoji
42
    ;
} options
{ metadata
    // trailing space 
    = zchar[ 65535 ] ; a1 = '0' // 50% %s
; roots = 00 o =	42
    Pad =	false ; }")).
Eval vm_compute in ("<<<M1055>>>" ++ check (runes_of_ascii "MetaData uint8x
    {T
    matchKey ,
uint8 u`u8 x,` ,} MetaData
// c
// trailing space 
o {
    //	t
    i64 Z9_ ,
roots
    packetx, char[] rootA`it's` , calculatedFrom u8x
,
} root packet
u { o
    @lengthOf( i8i8 ) `two words`
// " ++ [128512]%N ++ runes_of_ascii " emoji
// 50% %s
, uint16
stringy, stringy,
} root packet // 50% %s
i8i8 {match
    len as //x
T
{
[ // @lengthOf(
65535
] : Logon , 65535 :
u128
    , ""a	b""
    :options1 , [ ""a	b"" , 4294967296
] :
options1 1 : Foo
, }  , metadata @calculatedFrom(""a\\"" )
    // c
    , uint16
    o `say ""hi""` ,
@rightPad
    (
    '\x00' ) u16 Foo , @calculatedFrom(
""" ++ [28040; 24687]%N ++ runes_of_ascii """ )  uint8x
    , }packet u8x {
u64 a1`line1
line2` ,}")).
Eval vm_compute in ("<<<M4166>>>" ++ check (runes_of_ascii "
// top

  MetaData	// c0

	Pad	// c1
    {// c2
  	x_y_z 	 // c3
	  a1// c4
    	,  // c5
    int8 // c6

  trueish// c7
	`two words` // c8
  ,	// c9
  char[] // c10
		x_y_z  // c11
    `{ , }`// c12
  ,  // c13
	zchar[ // c14
  1// c15
		]  // c16
    pack // c17
	`
`	// c18
  , 	 // c19
      len // c20
    i64_// c21
      ,	// c22

  } 	 // c23
	MetaData  // c24
	crc // c25

{// c26
zchar[// c27
	7 // c28

	] // c29
    	Z9_ // c30
  	, 	 // c31
	char[]// c32
  options1 	 // c33

, // c34

	uint32	// c35

	options1// c36
	, // c37
	  u	// c38
	  MetaDataX  // c39
  , // c40
      }  // c41
 
")).
Eval vm_compute in ("<<<M346>>>" ++ check (runes_of_ascii "packet
    float {
    @tag(7  ) @calculatedFrom(
""a	b"" )	match Foo as zchar { 00	:Logon ,
""`tick`"" /// triple
:Pad,  [ 1,
    """ ++ [233]%N ++ runes_of_ascii "t" ++ [233]%N ++ runes_of_ascii """ ,	""// no comment""
,  ""\" ++ [233]%N ++ runes_of_ascii """ , 007 ] :f32a ,""CRC32"" :i64_ ,}
,
@lengthOf(A
    )// c
char[
0 ]
u128 `u8 x,` ,}
    packet Logon { } root
    packet a1{f64 asx, @leftPad (
) char Pad// c
,@leftPad //	t
()
repeat //	t
msg_type `
`,@lengthOf(
tag )uint64 o @lengthOf(A ), @lengthOf( Logon )
/// triple
//	t
repeat // c
string i8i8 `" ++ [233]%N ++ runes_of_ascii "`,
char[
65535]
float ,	}
options { Header
// packet A { u8 x, }
// c
= false  ; options1
= '0'asx=65535  ;
crc =
'0' ;}
")).
Eval vm_compute in ("<<<M1373>>>" ++ check (runes_of_ascii "root
// trailing space 
//	t
packet
    Logon {
    // @lengthOf(
    @tag( 3)@lengthOf( pack )@lengthOf(
tag
    ) char[] A
    `` ,uint8 roots ,	@rightPad ( '0'
) @lengthOf(  As
)
    // a // b
    @tag( 3 ) repeat asx// @lengthOf(
rootA `crlf
line`
,
repeatCount ,} options
{ rootA	= zchar[ 1];
float
    = false BodyLength = uint64
    packetx //
= false
// a // b
// c
; msg_type
= '0'
;} MetaData calculatedFrom { char[ 3
]// " ++ [27880; 37322]%N ++ runes_of_ascii "
body
, /// triple
char[ 3 ]
    packetx , float64
Foo ,
    float leftPad `100% of %d`
    , int32
MetaDataX`" ++ [28040; 24687; 31867; 22411]%N ++ runes_of_ascii "` //	t
,}")).
Eval vm_compute in ("<<<M469>>>" ++ check (runes_of_ascii "packet
BodyLength { @rightPad (' '
)
@rightPad(  '0' ) char[]
    // `tick` ""quote"" 'q'
    x_y_z @calculatedFrom(
""CRC32"" )
`{ , }` ,	zchar[ 007] o
    //
    `" ++ [28040; 24687; 31867; 22411]%N ++ runes_of_ascii "`,
    u16 Pad
,
    // trailing space 
    }  packet Pad { // `tick` ""quote"" 'q'
uint64 matchKey // a // b
@lengthOf( calculatedFrom
)
    , match body
    as  crc //x
{ 0123456789 :	u8x, [
    // " ++ [128512]%N ++ runes_of_ascii " emoji
    ""`tick`""  ,""\n""
] :
falsey ,
00 // @lengthOf(
: Pad , ""a	b""
:
    u128
[ ""it's""/// triple
,//	t
65535 , ""1"" ,1// 50% %s
]
:	lengthOf  , } //	t
,} /// triple")).
Eval vm_compute in ("<<<M620>>>" ++ check (runes_of_ascii "packet rootA // " ++ [128512]%N ++ runes_of_ascii " emoji
{ }
root
packet body { @lengthOf(
    Pad
    // " ++ [27880; 37322]%N ++ runes_of_ascii "
    ) _x	lengthOf,float64 a1 `` ,@calculatedFrom( // trailing space 
""a	b"" ) char[  3
// @lengthOf(
// " ++ [128512]%N ++ runes_of_ascii " emoji
] body , _x
, repeat falsey x ,packetx
    { u32
string_ @calculatedFrom(	""a	b"" )
,
    } , @rightPad
    ('0' )
    @lengthOf(
Logon )@calculatedFrom( ""// no comment"" ) char[] Packet `// not a comment` , @calculatedFrom(
""a	b"" )
    char[ 10
]string_ @lengthOf(
Pad ) , @lengthOf( i8i8) u64 // trailing space 
options1`two words` , }
")).
Eval vm_compute in ("<<<M292>>>" ++ check (runes_of_ascii "// c
packet T
    { @leftPad(
'\x00' ) string pack @lengthOf( Pad),
    //	t
    repeat	asx metadata ,
match	len as	stringy{ ""CRC32"": uint8x }	,
char[]BodyLength , trueish
@calculatedFrom(""" ++ [233]%N ++ runes_of_ascii "t" ++ [233]%N ++ runes_of_ascii """ )`tab	here` , zchar[ 00]int @lengthOf(  f32a) , // 50% %s
repeat u// " ++ [27880; 37322]%N ++ runes_of_ascii "
_x `
` , repeat a1 { leftPad@lengthOf( roots ) `it's`
    , } ,
    @lengthOf( metadata
    )
    // 50% %s
    @calculatedFrom( ""a\\""
) int64 //x
trueish
`// not a comment`
    ,@tag(
    42	)
a1 Foo,
// " ++ [128512]%N ++ runes_of_ascii " emoji
// @lengthOf(
} //x")).
Eval vm_compute in ("<<<M17>>>" ++ check (runes_of_ascii "packet
    u8x {  leftPad,	repeat MetaDataX `{ , }`, lengthOf@calculatedFrom( """ ++ [128512]%N ++ runes_of_ascii """
)
    ,@calculatedFrom( ""a	b""
) @lengthOf(
/// triple
// c
uint8x	) uint16
    // c
    Packet , match i64_ as  asx
{ ""a\""b""
: len ,	}
,@rightPad( ' ' ) uint64 stringy// @lengthOf(
@lengthOf( a1 )
, // " ++ [27880; 37322]%N ++ runes_of_ascii "
@leftPad(
) u8 stringy ,
    repeat/// triple
f64//
uint8x `line1
line2`, BodyLength
/// triple
// a // b
,
@calculatedFrom( ""// no comment"" )
    i64_ string_ // " ++ [128512]%N ++ runes_of_ascii " emoji
`100% of %d` ,}
")).
Eval vm_compute in ("<<<M4244>>>" ++ check (runes_of_ascii "  packet
    repeatCount {	repeat repeatCount

{
	match

    float as
    charz	{ 007 :
	Packet
	,""" ++ [28040; 24687]%N ++ runes_of_ascii """: u128  ,  ""abc"":  A	,
}	, 
uint8x,  // c
} ,@calculatedFrom(

    ""`tick`""
)
	char[]

float,

    Foo 
T`100% of %d` 
,	roots rootA ,
char rootA
//	t
    	, @tag(	7

    ) 
        //	t
//x
  charz

o `` ,
char[

    007	] msg_type @lengthOf(	x_y_z ) , 	 //x
}

    packet // 50% %s

MetaDataX

{
	i16
_x
@calculatedFrom(""\" ++ [233]%N ++ runes_of_ascii """)
	, } ")).
Eval vm_compute in ("<<<M3708>>>" ++ check (runes_of_ascii "
//	t

  options  
  // c

  // a // b

  { leftPad
    =' '
    ;
// " ++ [27880; 37322]%N ++ runes_of_ascii "
len
= false
    ;
lengthOf=char[ 7
]  ;	// c
  matchKey	=

' '
; roots
    =
false; } // packet A { u8 x, }
      packet Logon
{

} MetaData  zchar 
{ int64 // 50% %s
	zchar,  char[

    4294967296
] zchar
,
chars Foo
	``, 	 // `tick` ""quote"" 'q'

	zchar[
0123456789
]rootA , a1  body , 
    // trailing space 

//x
i16 matchKey 
`100% of %d`	,

    }
")).
Eval vm_compute in ("<<<M4363>>>" ++ check (runes_of_ascii "packet o {
    len `line1
    line2`,
    // " ++ [128512]%N ++ runes_of_ascii " emoji
    // packet A { u8 x, }
    match MetaDataX as MetaDataX {
        ""CRC32"" : matchKey,
    },
}

MetaData crc {
    calculatedFrom metadata,
    int32 msg_type,
}

MetaData len {
    char[0] Pad `u8 x,`,
}

packet MetaDataX {
}

MetaData tag {
    char[3] matchKey,
    Pad BodyLength,
    uint64 leftPad `a\`,
    f64 uint8x `tab	here`,
    crc calculatedFrom `" ++ [233]%N ++ runes_of_ascii "`,
}")).
Eval vm_compute in ("<<<M1287>>>" ++ check (runes_of_ascii "// " ++ [128512]%N ++ runes_of_ascii " emoji
packet
asx { // c
match o as packetx { [ 1
    , 65535 ,
007
    , """ ++ [233]%N ++ runes_of_ascii "t" ++ [233]%N ++ runes_of_ascii """ , ""{,}"" , """ ++ [233]%N ++ runes_of_ascii "t" ++ [233]%N ++ runes_of_ascii """ ] :stringy ""// no comment"" : body , ""\" ++ [233]%N ++ runes_of_ascii """: body
,	""CRC32"" :
    //
    int,  65535
//	t
// `tick` ""quote"" 'q'
: o } , @leftPad (//x
' ' )@calculatedFrom( ""it's"" )	@calculatedFrom(
    ""// no comment""	) repeat
    asx { x , char[
    42 ]
    msg_type , } //	t
,
@lengthOf(As ) T// @lengthOf(
tag ,
    }
")).
Eval vm_compute in ("<<<M3709>>>" ++ check (runes_of_ascii "packet
    falsey { 
    // @lengthOf(

@rightPad
    (
	' ')	int	a1	,
    @calculatedFrom(""packet""	)@lengthOf(
	lengthOf) repeat uint64  Logon 
, char[

3 
]

T  `crlf
line` 

/// triple
    // " ++ [128512]%N ++ runes_of_ascii " emoji
    ,	@rightPad
	() @tag(

255 
) @lengthOf( BodyLength	) repeat	char[
007
]asx

    ,repeat
    _x
Pad
`a\`
, int16 
    //
  //	t
asx``

,

    char uint8x

    `doc`
,  } ")).
Eval vm_compute in ("<<<M1310>>>" ++ check (runes_of_ascii "root
    packet
lengthOf{@tag( 7)// c
Pad @lengthOf( roots )
// packet A { u8 x, }
// @lengthOf(
`line1
line2` , float64 o@lengthOf(asx
), repeat uint8	i8i8
`say ""hi""` , }
packet
    _x{
    @calculatedFrom(	""\n""	) As @calculatedFrom( ""abc""
)
`// not a comment` ,	options1
    @lengthOf(a1 )	,
// trailing space 
// `tick` ""quote"" 'q'
@lengthOf( Z9_ ) //	t
msg_type `` , }
")).
Eval vm_compute in ("<<<M3910>>>" ++ check (runes_of_ascii "options {  StringPrefixLenType
	=

    u32  ;

FixedStringPadFromLeft	=

    false

;  }
	packet
Logout
    {f64 Flags ,
repeat
    InTail1 
{ int32  Flags	, zchar[
	1
]
tag7 
,},
	repeat string
	x,}
    root

packet	Trade	{
    repeat	f32 Acct,

InTail62

    {
    u32  Qty  ,

    zchar[
	1

] x
	,}
	,repeat

string
Side2  ,
u16

    Ref
    ,} ")).
Eval vm_compute in ("<<<M4163>>>" ++ check (runes_of_ascii "
packet
crc
{
    @lengthOf(f32a
    )

    @tag(
	3
)	repeat

uint32
	repeatCount
    ,@tag(

3 )
    msg_type@lengthOf(MetaDataX 
    // a // b
  // packet A { u8 x, }
  ) ,  @leftPad  ( '0'  ) match
roots
as
	i64_
{ 
  //
7  :
    As
    }
	,  }	root
packet
    u128
{	}
packet lengthOf

    {

// @lengthOf(
  //	t
int16  u8x,
    } ")).
Eval vm_compute in ("<<<M3719>>>" ++ check (runes_of_ascii "packet chars {
    @leftPad('0')
    repeat tag a1 `// not a comment`,
    match i8i8 as len {
        007 : zchar,
        [007, ""CRC32""] : _x,
        """ ++ [233]%N ++ runes_of_ascii "t" ++ [233]%N ++ runes_of_ascii """ : A,
    },
    @lengthOf(options1)
    uint8 tag,
    x @lengthOf(i8i8) `" ++ [233]%N ++ runes_of_ascii "`,
    charz u8x,
    @lengthOf(Packet)
    @leftPad(' ')
    uint16 Z9_ @calculatedFrom(""" ++ [233]%N ++ runes_of_ascii "t" ++ [233]%N ++ runes_of_ascii """),
}")).
Eval vm_compute in ("<<<M3792>>>" ++ check (runes_of_ascii "
// trailing space 

	options{trueish 
=
    // `tick` ""quote"" 'q'
  // packet A { u8 x, }
	""it's""
	;  MetaDataX 

    // packet A { u8 x, }
	// " ++ [27880; 37322]%N ++ runes_of_ascii "
	=
	// trailing space 
		// trailing space 
    ""// no comment"" ;  _x

= 
    //x
    //x
false 
A	// " ++ [27880; 37322]%N ++ runes_of_ascii "
      =
""a	b""

    ;  MetaDataX
=0123456789
	}  
      //
")).
Eval vm_compute in ("<<<M252>>>" ++ check (runes_of_ascii "packet _x { repeat string_ {
repeat //	t
zchar[
// 50% %s
// " ++ [27880; 37322]%N ++ runes_of_ascii "
3
// trailing space 
// c
] u `doc` ,
}
    , A@calculatedFrom( ""abc"" ) `u8 x,` , matchKey{
/// triple
// " ++ [128512]%N ++ runes_of_ascii " emoji
repeat string body  ,  zchar[ 4294967296 ]
    // " ++ [128512]%N ++ runes_of_ascii " emoji
    uint8x`u8 x,`
    ,repeat Pad , Z9_ T , //x
} ,
    u8 int,
}
")).
Eval vm_compute in ("<<<M2028>>>" ++ check (runes_of_ascii "packet	packetx { // trailing space 
x_y_z
{
string
charz ,
string x// @lengthOf(
`two words`
    ,  u8x { // `tick` ""quote"" 'q'
charz `100% of %d` // packet A { u8 x, }
,}// " ++ [27880; 37322]%N ++ runes_of_ascii "
,} , }
    // a // b
    packet metadata {  @leftPad ( '0') repeat i32 options1 ,u64 uint8x , @calculatedFrom(
")).
Eval vm_compute in ("<<<M4161>>>" ++ check (runes_of_ascii "packet charz {
    @tag(10)
    calculatedFrom @lengthOf(charz) `100% of %d`,
    A @calculatedFrom(""\n""),
    zchar[7] Header,
    repeat calculatedFrom `it's`,
    repeat options1 chars `" ++ [233]%N ++ runes_of_ascii "`,
    T calculatedFrom `tab	here`,
    repeat uint8 x_y_z `crlf
        line`,
    crc float,
}")).
Eval vm_compute in ("<<<M1954>>>" ++ check (runes_of_ascii "packet	packetx { // trailing space 
x_y_z
{
string
charz ,
string x// @lengthOf(
`two words`
    ,  u8x { // `tick` ""quote"" 'q'
charz `100% of %d` // packet A { u8 x, }
,}// " ++ [27880; 37322]%N ++ runes_of_ascii "
,} , match
    // a // b
    packet metadata {  @leftPad ( '0') repeat i32 options1 ,u64 uint8x , }
")).
Eval vm_compute in ("<<<M1977>>>" ++ check (runes_of_ascii "packet	packetx { // trailing space 
x_y_z
{
string
charz ,
string x// @lengthOf(
`two words`
    ,  u8x { // `tick` ""quote"" 'q'
charz `100% of %d` // packet A { u8 x, }
,}// " ++ [27880; 37322]%N ++ runes_of_ascii "
,} , }
    // a // b
    packet metadata {  @leftPad ( ( '0') repeat i32 options1 ,u64 uint8x , }
")).
Eval vm_compute in ("<<<M1908>>>" ++ check (runes_of_ascii "packet	packetx { // trailing space 
x_y_z
{
string
charz ,
string x// @lengthOf(
`two words`
    ,  { u8x // `tick` ""quote"" 'q'
charz `100% of %d` // packet A { u8 x, }
,}// " ++ [27880; 37322]%N ++ runes_of_ascii "
,} , }
    // a // b
    packet metadata {  @leftPad ( '0') repeat i32 options1 ,u64 uint8x , }
")).
Eval vm_compute in ("<<<M1866>>>" ++ check (runes_of_ascii "packet	packetx { // trailing space 
x_y_z

string
charz ,
string x// @lengthOf(
`two words`
    ,  u8x { // `tick` ""quote"" 'q'
charz `100% of %d` // packet A { u8 x, }
,}// " ++ [27880; 37322]%N ++ runes_of_ascii "
,} , }
    // a // b
    packet metadata {  @leftPad ( '0') repeat i32 options1 ,u64 uint8x , }
")).
Eval vm_compute in ("<<<M1996>>>" ++ check (runes_of_ascii "packet	packetx { // trailing space 
x_y_z
{
string
charz ,
string x// @lengthOf(
`two words`
    ,  u8x { // `tick` ""quote"" 'q'
charz `100% of %d` // packet A { u8 x, }
,}// " ++ [27880; 37322]%N ++ runes_of_ascii "
,} , }
    // a // b
    packet metadata {  @leftPad ( '0') repeat  options1 ,u64 uint8x , }
")).
Eval vm_compute in ("<<<M3720>>>" ++ check (runes_of_ascii "options {
    u128 = u32;
    Z9_ = ""`tick`""
    trueish = ""`tick`"";
    // @lengthOf(
    tag = '0'
}

options {
    metadata = ""a	b"";
    packetx = '\x00'// " ++ [128512]%N ++ runes_of_ascii " emoji
}

options {
    charz = 65535
}

options {
    msg_type = zchar[10];
    asx = false
    tag = char[];
}")).
Eval vm_compute in ("<<<M2110>>>" ++ check (runes_of_ascii "packet// packet A { u8 x, }
repeatCount	{// packet A { u8 x, }
@leftPad ( '\x00'
) repeat u8x MetaDataX `crlf
line`,
    repeat repeat
    char[] MetaDataX
    ,
u64	uint8x@calculatedFrom(""a\""b""
// c
// packet A { u8 x, }
) `tab	here`
,//
}MetaData pack
    {
    }
")).
Eval vm_compute in ("<<<M388>>>" ++ check (runes_of_ascii "root packet tag	{ repeat zchar[
    7 ] tag , @rightPad ( // a // b
'\x00' )
    @tag( 7)
// a // b
//	t
@tag(0123456789 )
    match tag as
i64_ {4294967296 :	packetx 0123456789
:
//x
// " ++ [27880; 37322]%N ++ runes_of_ascii "
u 65535 :
metadata
[ ""a\\"" , """ ++ [128512]%N ++ runes_of_ascii """
]:	stringy}
,	}
// trailing space 
")).
Eval vm_compute in ("<<<M2194>>>" ++ check (runes_of_ascii "packet// packet A { u8 x, }
repeatCount	{// packet A { u8 x, }
@leftPad ( '\x00'
) repeat u8x MetaDataX `crlf
line`,
    repeat
    char[] MetaDat<aX
    ,
u64	uint8x@calculatedFrom(""a\""b""
// c
// packet A { u8 x, }
) `tab	here`
,//
}MetaData pack
    {
    }
")).
Eval vm_compute in ("<<<M2107>>>" ++ check (runes_of_ascii "packet// packet A { u8 x, }
repeatCount	{// packet A { u8 x, }
@leftPad ( '\x00'
) repeat u8x MetaDataX `crlf
line`[
    repeat
    char[] MetaDataX
    ,
u64	uint8x@calculatedFrom(""a\""b""
// c
// packet A { u8 x, }
) `tab	here`
,//
}MetaData pack
    {
    }
")).
Eval vm_compute in ("<<<M4304>>>" ++ check (runes_of_ascii "
packet  Foo
{
@leftPad  (
    '0'
)

    string_ leftPad 
, u { string

Foo  @calculatedFrom(""\n""
)	,	} 
,
}  packet 
// trailing space 

msg_type 
    // c
	  //	t
  	{

u
,
	i16

body

    @calculatedFrom(
	""{,}""// " ++ [128512]%N ++ runes_of_ascii " emoji
    	)
	`tab	here` ,
} ")).
Eval vm_compute in ("<<<M2084>>>" ++ check (runes_of_ascii "packet// packet A { u8 x, }
repeatCount	{// packet A { u8 x, }
@leftPad ( '\x00'
)  u8x MetaDataX `crlf
line`,
    repeat
    char[] MetaDataX
    ,
u64	uint8x@calculatedFrom(""a\""b""
// c
// packet A { u8 x, }
) `tab	here`
,//
}MetaData pack
    {
    }
")).
Eval vm_compute in ("<<<M1456>>>" ++ check (runes_of_ascii "packet calculatedFrom
{ @calculatedFrom( ""a\\"" ) zchar[ 4294967296 int16
calculatedFrom@lengthOf( pack )	`100% of %d` ,char[]body@calculatedFrom( ""// no comment"" )  ,
@tag( 007) //x
int8
leftPad`it's` , repeat pack
    { repeat char[ 3] body
,},
}")).
Eval vm_compute in ("<<<M1584>>>" ++ check (runes_of_ascii "packet calculatedFrom
{ @calculatedFrom( ""a\\"" ) zchar[ 4294967296 ]
calculatedFrom@lengthOf( pack )	`100% of %d` ,char[]body@calculatedFrom( ""// no comment"" )  ,
@tag( 007) //x
int8
leftPad`it's` , repeat pack
    { repeat char[ 3] ] body
,},
}")).
Eval vm_compute in ("<<<M2099>>>" ++ check (runes_of_ascii "packet// packet A { u8 x, }
repeatCount	{// packet A { u8 x, }
@leftPad ( '\x00'
) repeat u8x MetaDataX ,
    repeat
    char[] MetaDataX
    ,
u64	uint8x@calculatedFrom(""a\""b""
// c
// packet A { u8 x, }
) `tab	here`
,//
}MetaData pack
    {
    }
")).
Eval vm_compute in ("<<<M1540>>>" ++ check (runes_of_ascii "packet calculatedFrom
{ @calculatedFrom( ""a\\"" ) zchar[ 4294967296 ]
calculatedFrom@lengthOf( pack )	`100% of %d` ,char[]body@calculatedFrom( ""// no comment"" )  ,
@tag( 007) //x
int8
`it's`leftPad , repeat pack
    { repeat char[ 3] body
,},
}")).
Eval vm_compute in ("<<<M1598>>>" ++ check (runes_of_ascii "packet calculatedFrom
{ @calculatedFrom( ""a\\"" ) zchar[ 4294967296 ]
calculatedFrom@lengthOf( pack )	`100% of %d` ,char[]body@calculatedFrom( ""// no comment"" )  ,
@tag( 007) //x
int8
leftPad`it's` , repeat pack
    { repeat char[ 3] body
,,
}")).
Eval vm_compute in ("<<<M1491>>>" ++ check (runes_of_ascii "packet calculatedFrom
{ @calculatedFrom( ""a\\"" ) zchar[ 4294967296 ]
calculatedFrom@lengthOf( pack )	`100% of %d` ,,body@calculatedFrom( ""// no comment"" )  ,
@tag( 007) //x
int8
leftPad`it's` , repeat pack
    { repeat char[ 3] body
,},
}")).
Eval vm_compute in ("<<<M1380>>>" ++ check (runes_of_ascii "root packet leftPad{ }// `tick` ""quote"" 'q'
packet
o { match u128
    as
    // a // b
    leftPad //
{ 007:i8i8  , [	00
    , // @lengthOf(
""{,}"" , ""// no comment""
// " ++ [27880; 37322]%N ++ runes_of_ascii "
// trailing space 
,
1 ]
    : falsey , } //
,
} packet T
{ }")).
Eval vm_compute in ("<<<M622>>>" ++ check (runes_of_ascii "
packet  Foo{@leftPad( '0')string_ leftPad , u{	string Foo
    @calculatedFrom(
    ""\n"" )
    , } , } packet
    // trailing space 
    msg_type
// c
//	t
{
u
    ,i16
body
@calculatedFrom(""{,}"" // " ++ [128512]%N ++ runes_of_ascii " emoji
)  `tab	here` ,}
")).
Eval vm_compute in ("<<<M4438>>>" ++ check (runes_of_ascii "

  packet falsey
    {
u8x Logon // trailing space 
	,	zchar[  007
] stringy
    @lengthOf(	u
) `u8 x,` ,	@tag(
1	) int16 T @calculatedFrom(
""{,}"" )`tab	here`	,	Pad

msg_type
    // " ++ [128512]%N ++ runes_of_ascii " emoji
  // " ++ [128512]%N ++ runes_of_ascii " emoji
	,
} ")).
Eval vm_compute in ("<<<M127>>>" ++ check (runes_of_ascii "MetaData T { char[]rootA `a\` , string crc
`tab	here`  ,float64 x // packet A { u8 x, }
`" ++ [233]%N ++ runes_of_ascii "`// " ++ [128512]%N ++ runes_of_ascii " emoji
, // trailing space 
int16 charz
// `tick` ""quote"" 'q'
// " ++ [27880; 37322]%N ++ runes_of_ascii "
``, string
uint8x `
` , rootA matchKey,
}
")).
Eval vm_compute in ("<<<M4441>>>" ++ check (runes_of_ascii "packet Packet {
    u64 MetaDataX,
    @lengthOf(u128)
    @calculatedFrom(""" ++ [28040; 24687]%N ++ runes_of_ascii """)
    @tag(1)
    // c
    repeat Z9_ u128,
}

root packet chars {
    @tag(255)
    char[007] chars @lengthOf(i64_),
}")).
Eval vm_compute in ("<<<M1105>>>" ++ check (runes_of_ascii "packet
rootA {
i16
a1  @calculatedFrom( ""a\""b""	) `it's` , @calculatedFrom(	""packet"" ) zchar[ 7 ] repeatCount // c
`
`, @lengthOf( Foo ) int64 A// 50% %s
@lengthOf(charz	)
`two words`  , }
")).
Eval vm_compute in ("<<<M136>>>" ++ check (runes_of_ascii "
root packet falsey { } packet roots
    {
    @calculatedFrom( """ ++ [128512]%N ++ runes_of_ascii """ )
// a // b
// @lengthOf(
@calculatedFrom(
    ""\" ++ [233]%N ++ runes_of_ascii """) @lengthOf( MetaDataX )	metadata ,	}
    MetaData string_ {	}
")).
Eval vm_compute in ("<<<M1935>>>" ++ check (runes_of_ascii "packet	packetx { // trailing space 
x_y_z
{
string
charz ,
string x// @lengthOf(
`two words`
    ,  u8x { // `tick` ""quote"" 'q'
charz `100% of %d` // packet A { u8 x, }
,")).
Eval vm_compute in ("<<<M304>>>" ++ check (runes_of_ascii "MetaData o {
    }MetaData x{ body
    //	t
    Pad
    , char[] Logon , } options
{ msg_type //x
=	string // c
; o= ""it's""
;  packetx= ""it's"" f32a
=
    ""packet"" ;}
")).
Eval vm_compute in ("<<<M743>>>" ++ check (runes_of_ascii "packet
// trailing space 
// @lengthOf(
trueish { @tag( 3
) match
    T	as i64_ {
    ""packet"" :
    // trailing space 
    MetaDataX, }
    // @lengthOf(
    , }
")).
Eval vm_compute in ("<<<M1517>>>" ++ check (runes_of_ascii "packet calculatedFrom
{ @calculatedFrom( ""a\\"" ) zchar[ 4294967296 ]
calculatedFrom@lengthOf( pack )	`100% of %d` ,char[]body@calculatedFrom( ""// no comment"" )")).
Eval vm_compute in ("<<<M2411>>>" ++ check (runes_of_ascii "
packet MetaDataX
{
    @leftPad
( // a // b
'0'
) ) i8 u @lengthOf(
MetaDataX
    ) `say ""hi""` ,	} MetaData BodyLength {
    asx
x_y_z `" ++ [233]%N ++ runes_of_ascii "`
, uint64 u128 , }
")).
Eval vm_compute in ("<<<M1703>>>" ++ check (runes_of_ascii "options { } packet Packet{char[] i64_ ,
@tag(
    255) match
crc as as i8i8{""{,}"" : trueish """" : Pad , ""a\\"" :
Foo ,
    1 :packetx
, """ ++ [128512]%N ++ runes_of_ascii """ : trueish , } , }")).
Eval vm_compute in ("<<<M1713>>>" ++ check (runes_of_ascii "options { } packet Packet{char[] i64_ ,
@tag(
    255) match
crc as i8i8{ {""{,}"" : trueish """" : Pad , ""a\\"" :
Foo ,
    1 :packetx
, """ ++ [128512]%N ++ runes_of_ascii """ : trueish , } , }")).
Eval vm_compute in ("<<<M4374>>>" ++ check (runes_of_ascii "packet T {
    @tag(00)
    f32 metadata @lengthOf(crc) `// not a comment`,
    repeat uint16 As,
    @tag(65535)
    int8 metadata @lengthOf(BodyLength),
}")).
Eval vm_compute in ("<<<M1664>>>" ++ check (runes_of_ascii "options { } packet Packet{i64_ char[] ,
@tag(
    255) match
crc as i8i8{""{,}"" : trueish """" : Pad , ""a\\"" :
Foo ,
    1 :packetx
, """ ++ [128512]%N ++ runes_of_ascii """ : trueish , } , }")).
Eval vm_compute in ("<<<M1814>>>" ++ check (runes_of_ascii "options { } packet Packet{char[] i64_ ,
@tag(
    255) match
crc as i8i8{""{,}"" : trueish """" : Pad , ""a\\"" :
Foo ,
    1 :packetx
, """ ++ [128512]%N ++ runes_of_ascii """ : trueish , , } }")).
Eval vm_compute in ("<<<M1845>>>" ++ check (runes_of_ascii "options { } packet Packet{char[] i64_ ,
@tag(
    255) match
x" ++ [178]%N ++ runes_of_ascii " as i8i8{""{,}"" : trueish """" : Pad , ""a\\"" :
Foo ,
    1 :packetx
, """ ++ [128512]%N ++ runes_of_ascii """ : trueish , } , }")).
Eval vm_compute in ("<<<M1682>>>" ++ check (runes_of_ascii "options { } packet Packet{char[] i64_ ,
@tag(
    ) match
crc as i8i8{""{,}"" : trueish """" : Pad , ""a\\"" :
Foo ,
    1 :packetx
, """ ++ [128512]%N ++ runes_of_ascii """ : trueish , } , }")).
Eval vm_compute in ("<<<M3979>>>" ++ check (runes_of_ascii "MetaData As
    {  roots	tag,
u32
a1``,
crc  packetx 
,
    BodyLength
A

    `crlf
line`

,}

    options {a1
//	t
  // @lengthOf(
  =true } ")).
Eval vm_compute in ("<<<M4492>>>" ++ check (runes_of_ascii "

  MetaData metadata

{  }
	MetaData
    rootA
    { i8 i64_, roots 	 // c

	options1

`a\`,lengthOf Header ,	Z9_	Foo
,
int16 
BodyLength	, }
")).
Eval vm_compute in ("<<<M281>>>" ++ check (runes_of_ascii "// trailing space 
MetaData stringy {}root packet
    // a // b
    rootA
    { match
    lengthOf as Pad { ""it's""
: lengthOf ,
    }
,  }
")).
Eval vm_compute in ("<<<M4475>>>" ++ check (runes_of_ascii "//	t
packet rootA {
    @calculatedFrom(""`tick`"")
    f32a {
        char[] calculatedFrom,
    },
    @tag(4294967296)
    float32 o,
}")).
Eval vm_compute in ("<<<M950>>>" ++ check (runes_of_ascii "packet metadata { int64
    T // " ++ [27880; 37322]%N ++ runes_of_ascii "
,
@tag( 42 // packet A { u8 x, }
)
repeat u64
    BodyLength`say ""hi""` , } packet falsey {
}")).
Eval vm_compute in ("<<<M761>>>" ++ check (runes_of_ascii "
root packet T {
    string zchar , zchar[ 3 ]stringy , // 50% %s
}
packet rootA {u { repeatCount@lengthOf( o ) `" ++ [28040; 24687; 31867; 22411]%N ++ runes_of_ascii "` , } , }")).
Eval vm_compute in ("<<<M3274>>>" ++ check (runes_of_ascii "MetaData metadata { } MetaData rootA { // c
i8 i64_ , roots options1 `a\` , lengthOf Header , Z9_ Foo , int16 BodyLength , }")).
Eval vm_compute in ("<<<M3306>>>" ++ check (runes_of_ascii "MetaData metadata { } MetaData rootA { i8 i64_ , roots options1 `a\` , lengthOf Header , Z9_ Foo , int16 BodyLength , // c
}")).
Eval vm_compute in ("<<<M3095>>>" ++ check (runes_of_ascii "packet A {
    match k as n {
        ""x\
y"" : B,
        [""x\
y"", 1] : C,
        [1,2,3,4,5,""x\
y""] : D,
    },
}")).
Eval vm_compute in ("<<<M1112>>>" ++ check (runes_of_ascii "options
// `tick` ""quote"" 'q'
// a // b
{crc =// trailing space 
""// no comment"" ; }MetaData
o
{i32 zchar `` ,	}
")).
Eval vm_compute in ("<<<M1103>>>" ++ check (runes_of_ascii "MetaData Packet{
    } // trailing space 
root packet x{
@rightPad	( ' ' ) float32 crc `// not a comment` ,}
")).
Eval vm_compute in ("<<<M3345>>>" ++ check (runes_of_ascii "MetaData float { uint8 BodyLength , } MetaData charz { float32 trueish `a\` ,
// c
i16 metadata `say ""hi""` , }")).
Eval vm_compute in ("<<<M1374>>>" ++ check (runes_of_ascii "  MetaData
    x_y_z
{ tag	float // packet A { u8 x, }
`doc` ,i16 _x
    `crlf
line`
,zchar[ 007 ]f32a , }")).
Eval vm_compute in ("<<<M528>>>" ++ check (runes_of_ascii "packet roots { zchar[
00 ] i8i8 , uint8x stringy ,	@lengthOf(	trueish
)options1@lengthOf(
string_)
, }
")).
Eval vm_compute in ("<<<M1756>>>" ++ check (runes_of_ascii "options { } packet Packet{char[] i64_ ,
@tag(
    255) match
crc as i8i8{""{,}"" : trueish """" : Pad ,")).
Eval vm_compute in ("<<<M4382>>>" ++ check (runes_of_ascii "  options
	{// " ++ [27880; 37322]%N ++ runes_of_ascii "

zchar
= 
""a\""b""

    ;
metadata

    =  65535
} options{ i64_
	= 0//x
	;	}")).
Eval vm_compute in ("<<<M1233>>>" ++ check (runes_of_ascii "options
{
    A =""a\\""; }
    MetaData u
{
char[]  Z9_ , asx	f32a // packet A { u8 x, }
, }
")).
Eval vm_compute in ("<<<M2250>>>" ++ check (runes_of_ascii "MetaData _x {string x `// not a comment` , string
i64_ i64_ // trailing space 
`a\` ,
    }
")).
Eval vm_compute in ("<<<M1315>>>" ++ check (runes_of_ascii "// packet A { u8 x, }
MetaData T
    { lengthOf u8x  , string i8i8 `doc`//x
,u32 zchar , }")).
Eval vm_compute in ("<<<M2281>>>" ++ check (runes_of_ascii "MetaData _x {stri""ng x `// not a comment` , string
i64_ // trailing space 
`a\` ,
    }
")).
Eval vm_compute in ("<<<M2957>>>" ++ check (runes_of_ascii "packet A {
  match k as n {
    [""a"", ""bb"", 007, ""d"", ""e"", 66, ""g""] : B
    2 : C
  },
}")).
Eval vm_compute in ("<<<M4150>>>" ++ check (runes_of_ascii "options {
    Foo = u64
    A = """";
    packetx = ""`tick`""
    float = ' '
}/// triple")).
Eval vm_compute in ("<<<M484>>>" ++ check (runes_of_ascii "// c
MetaData float { char[ 7 ] Z9_
`" ++ [28040; 24687; 31867; 22411]%N ++ runes_of_ascii "`, } packet Header// trailing space 
{ }

")).
Eval vm_compute in ("<<<M2937>>>" ++ check (runes_of_ascii "packet A {
  match k as n {
    [1, ""bb"", 007, ""d"", 5, ""f""] : B,
    2 : C
  },
}")).
Eval vm_compute in ("<<<M1026>>>" ++ check (runes_of_ascii "root packet
// 50% %s
//	t
calculatedFrom{
len @calculatedFrom( ""CRC32"" )
, }
")).
Eval vm_compute in ("<<<M2927>>>" ++ check (runes_of_ascii "packet A {
  match k as n {
    [""a"", 22, ""c c"", 4, ""e""] : B
    2 : C
  },
}")).
Eval vm_compute in ("<<<M3378>>>" ++ check (runes_of_ascii "MetaData _x { f64 charz `tab	here` , } // c
options { BodyLength = """ ++ [233]%N ++ runes_of_ascii "t" ++ [233]%N ++ runes_of_ascii """ ; }")).
Eval vm_compute in ("<<<M2843>>>" ++ check (runes_of_ascii "uint64 [ f32 Header = i32 char packet u32 false repeat string @lengthOf( (")).
Eval vm_compute in ("<<<M2867>>>" ++ check (runes_of_ascii "int16 true packet MetaData float32 string MetaData match char[ char f64")).
Eval vm_compute in ("<<<M946>>>" ++ check (runes_of_ascii "
root
packet leftPad/// triple
{
} options { msg_type
    =""" ++ [233]%N ++ runes_of_ascii "t" ++ [233]%N ++ runes_of_ascii """ }

")).
Eval vm_compute in ("<<<M3424>>>" ++ check (runes_of_ascii "packet o { @tag( 4294967296 ) options1 @lengthOf( u8x ) `" ++ [233]%N ++ runes_of_ascii "` , // c
}")).
Eval vm_compute in ("<<<M2894>>>" ++ check (runes_of_ascii "packet A {
  match k as n {
    [1, 22, 007] : B,
    2 : C
  },
}")).
Eval vm_compute in ("<<<M538>>>" ++ check (runes_of_ascii "packet zchar { } // a // b
packet f32a
    { repeat u8x , } 	 ")).
Eval vm_compute in ("<<<M4247>>>" ++ check (runes_of_ascii "packet A
{
match
	k
as
n{
1
:
B // a

// b
2 : C	}

,
	}

")).
Eval vm_compute in ("<<<M1366>>>" ++ check (runes_of_ascii "packet a1{@calculatedFrom( ""\n""
    // " ++ [27880; 37322]%N ++ runes_of_ascii "
    ) o `a\` , }")).
Eval vm_compute in ("<<<M3871>>>" ++ check (runes_of_ascii "
packet

BodyLength
	{

    char[] 
MetaDataX
,  }
")).
Eval vm_compute in ("<<<M1312>>>" ++ check (runes_of_ascii "MetaData  Z9_ {
}
    root	packet
f32a { // " ++ [27880; 37322]%N ++ runes_of_ascii "
} 	 ")).
Eval vm_compute in ("<<<M3070>>>" ++ check (runes_of_ascii "MetaData M {
    u8 x `tab
	x`,
    T t `tab
	x`,
}")).
Eval vm_compute in ("<<<M2339>>>" ++ check (runes_of_ascii "
MetaData Pa" ++ [0]%N ++ runes_of_ascii "d{
u32 rootA `line1
line2` ,
    }
")).
Eval vm_compute in ("<<<M82>>>" ++ check (runes_of_ascii "packet trueish { } options
{_x = true
;
    }

")).
Eval vm_compute in ("<<<M2303>>>" ++ check (runes_of_ascii "
MetaData Pad{
 rootA `line1
line2` ,
    }
")).
Eval vm_compute in ("<<<M2582>>>" ++ check (runes_of_ascii "packet A { repeat x @calculatedFrom(""c""), }")).
Eval vm_compute in ("<<<M3072>>>" ++ check (runes_of_ascii "packet A {
    u8 x `100% of %s %d %v`,
}")).
Eval vm_compute in ("<<<M3246>>>" ++ check (runes_of_ascii "MetaData zchar { zchar[ 3 ] Pad
// c
, }")).
Eval vm_compute in ("<<<M236>>>" ++ check (runes_of_ascii "MetaData packetx { }
    options {  }")).
Eval vm_compute in ("<<<M3071>>>" ++ check (runes_of_ascii "root packet A {
    u8 x `tab
	x`,
}")).
Eval vm_compute in ("<<<M2601>>>" ++ check (runes_of_ascii "packet A { char[3] @lengthOf(y), }")).
Eval vm_compute in ("<<<M3029>>>" ++ check (runes_of_ascii "root packet A {
    u8 x `a
b`,
}")).
Eval vm_compute in ("<<<M3651>>>" ++ check (runes_of_ascii "packet A {
    // a
    u8 x,
}")).
Eval vm_compute in ("<<<M2749>>>" ++ check (runes_of_ascii "KnY/0Q<<XXBbgWb6'QTdP^:-<NA[@")).
Eval vm_compute in ("<<<M2662>>>" ++ check (runes_of_ascii "packet A { } x packet B { }")).
Eval vm_compute in ("<<<M4453>>>" ++ check (runes_of_ascii "  // c" ++ [8239]%N ++ runes_of_ascii "
packet
    A {  } ")).
Eval vm_compute in ("<<<M2683>>>" ++ check (runes_of_ascii "options { a = char[x]; }")).
Eval vm_compute in ("<<<M3950>>>" ++ check (runes_of_ascii "
// c" ++ [12288]%N ++ runes_of_ascii "
	packet
A { } ")).
Eval vm_compute in ("<<<M3965>>>" ++ check (runes_of_ascii "MetaData string_ {
}")).
Eval vm_compute in ("<<<M20>>>" ++ check (runes_of_ascii "MetaData i8i8{	}

")).
Eval vm_compute in ("<<<M3159>>>" ++ check (runes_of_ascii "packet A {
}
// c" ++ [11]%N)).
Eval vm_compute in ("<<<M2677>>>" ++ check (runes_of_ascii "options { a = ; }")).
Eval vm_compute in ("<<<M2673>>>" ++ check (runes_of_ascii "MetaData M M { }")).
Eval vm_compute in ("<<<M2589>>>" ++ check (runes_of_ascii "packet A { x }")).
Eval vm_compute in ("<<<M2851>>>" ++ check (runes_of_ascii "@lengthOf( ]")).
Eval vm_compute in ("<<<M2297>>>" ++ check (runes_of_ascii "
MetaData")).
Eval vm_compute in ("<<<M2456>>>" ++ check (runes_of_ascii "zchar[]")).
Eval vm_compute in ("<<<M2577>>>" ++ check (runes_of_ascii "// " ++ [233]%N ++ runes_of_ascii "
" ++ [21517]%N)).
Eval vm_compute in ("<<<M3118>>>" ++ check (runes_of_ascii "// c" ++ [133]%N)).
Eval vm_compute in ("<<<M2558>>>" ++ check (runes_of_ascii "A1b2")).
Eval vm_compute in ("<<<M2551>>>" ++ check (runes_of_ascii "a-b")).
Eval vm_compute in ("<<<M2574>>>" ++ check (runes_of_ascii "a" ++ [233]%N)).
Eval vm_compute in ("<<<M64>>>" ++ check (@nil rune)).
