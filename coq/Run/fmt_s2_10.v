From FP Require Import Lexer Parser ShowPT Digest Formatter.
From Coq Require Import String List NArith.
Import ListNotations.
Open Scope string_scope.
Set Printing Width 100000000.
Set Printing Depth 100000000.
Definition show_fres (r : fres) : string :=
  match r with
  | FOk s => "OK:" ++ sh_escaped s ""
  | FErr s => "ERR:" ++ sh_escaped s ""
  | FPanic p => "PANIC:" ++ p
  end.
Definition check (rs : list rune) : string := digest (show_fres (format_res rs)).
Definition full (rs : list rune) : string := show_fres (format_res rs).
Eval vm_compute in ("<<<M1447>>>" ++ check (runes_of_ascii "// top
options // c0a
  // c0b
{ LittleEndian // c2a
  // c2b
= // c3a
  // c3b
false // c4
; // c5a
  // c5b
StringPrefixLenType = u16 // c8
; // c9
ArrayPrefixLenType // c10a
  // c10b
=
    // c11
u64 ;
    // c13
FixedStringPadFromLeft // c14a
  // c14b
= true // c16
; // c17a
  // c17b
FixedStringPadChar // c18a
  // c18b
= // c19
' ' ; // c21
} // c22a
  // c22b
packet Logon // c24a
  // c24b
{
    // c25
u16 // c26
Tail ,
    // c28
repeat // c29
string x
    // c31
, // c32
i16 // c33a
  // c33b
count // c34a
  // c34b
, @leftPad
    // c36
( // c37
'0'
    // c38
) // c39a
  // c39b
char[ // c40a
  // c40b
3 ] // c42
Note // c43a
  // c43b
, } packet // c46a
  // c46b
Fill // c47
{ // c48a
  // c48b
}
    // c49
packet // c50
Heartbeat
    // c51
{ // c52a
  // c52b
}
    // c53
packet // c54
Reject // c55a
  // c55b
{ string // c57a
  // c57b
msgKind
    // c58
, // c59a
  // c59b
repeat // c60
Logon // c61a
  // c61b
, // c62a
  // c62b
InFlags25 // c63
{
    // c64
repeat
    // c65
InPrice29 {
    // c67
u8
    // c68
price // c69
, // c70
Logon , // c72a
  // c72b
repeat // c73a
  // c73b
char[ // c74a
  // c74b
1
    // c75
] // c76
Note // c77
, // c78a
  // c78b
} // c79a
  // c79b
,
    // c80
char[] x ,
    // c83
Fill
    // c84
,
    // c85
} ,
    // c87
repeat // c88a
  // c88b
Heartbeat // c89a
  // c89b
,
    // c90
} // c91
root packet Order // c94
{ InNote88 // c96a
  // c96b
{ // c97
repeat
    // c98
i32 Acct , // c101
repeat i16 clOrdID // c104
, // c105a
  // c105b
repeat // c106
Logon , // c108
}
    // c109
, // c110a
  // c110b
u16 // c111
tag7 // c112
, // c113a
  // c113b
match
    // c114
tag7
    // c115
as // c116
Body { // c118a
  // c118b
[
    // c119
14
    // c120
,
    // c121
22 // c122a
  // c122b
] : Logon // c125a
  // c125b
, // c126
55 // c127a
  // c127b
: // c128a
  // c128b
Heartbeat // c129
, // c130
93 // c131a
  // c131b
:
    // c132
Reject , // c134
13 // c135a
  // c135b
: // c136
Fill // c137
, } // c139
, }
    // c141
")).
Eval vm_compute in ("<<<M239>>>" ++ check (runes_of_ascii "packet x_y_z {
packetx { i16 pack `doc` ,
    repeat char[
    255
]leftPad
    ,
} , u8x , match o as roots {
[ // a // b
0123456789 ]
    // packet A { u8 x, }
    : x_y_z [""a\\""
    ] : packetx
    , }
,  repeat charz{	int32 i64_ `{ , }`,
}  ,  }
    packet x_y_z { @calculatedFrom(
""CRC32""
    )
@tag( 00 ) @lengthOf(x ) match As as
stringy
    { 1	: i64_
    ,// " ++ [27880; 37322]%N ++ runes_of_ascii "
[""it's""
,
""1"" ,
""x y"" //
, 4294967296
    ,
""\n"" , ""x y"" ] :
u128 ,00 : calculatedFrom
,	[ // " ++ [128512]%N ++ runes_of_ascii " emoji
4294967296
    , ""// no comment""
    , 42
    ,
3,""{,}""
    // packet A { u8 x, }
    ]  :	charz} ,
@calculatedFrom( ""a\\""
)  Logon A ,chars  @lengthOf(Logon
), @rightPad
('0' )@tag(	0 ) @rightPad  ( '0' ) string Foo // trailing space 
`a\`
    ,
}  packet packetx
{repeat i64_
    {  o @lengthOf(A) ,
    },@tag(
    42
    ) repeat char[]
    crc ,
    @leftPad ( ) u16 roots , falsey @lengthOf( As) , repeat  Foo{ float32 f32a@calculatedFrom( ""`tick`"" )
, len
`
`
// a // b
/// triple
,
    // packet A { u8 x, }
    }, @leftPad
('\x00' )	T@calculatedFrom( ""a	b"" ) `" ++ [28040; 24687; 31867; 22411]%N ++ runes_of_ascii "`,  char[]
// c
// " ++ [128512]%N ++ runes_of_ascii " emoji
trueish `u8 x,` , @lengthOf(falsey
    )
    match
    // " ++ [27880; 37322]%N ++ runes_of_ascii "
    rootA
    as BodyLength { // " ++ [128512]%N ++ runes_of_ascii " emoji
[
""CRC32"" ]: x ,
// @lengthOf(
// c
42
:
// packet A { u8 x, }
// `tick` ""quote"" 'q'
BodyLength , // trailing space 
} ,
    }")).
Eval vm_compute in ("<<<M1955>>>" ++ check (runes_of_ascii "root packet a1 {
    // " ++ [27880; 37322]%N ++ runes_of_ascii "
    repeat leftPad {
        // a // b
        lengthOf,
    },
    @tag(0123456789)
    int64 repeatCount ``,
    match int as len {
        1 : repeatCount,
        """" : lengthOf,
        [
            ""a\""b"", 255, 7, ""it's"", 255,
            00, 7, ""`tick`""
        ] : msg_type,
        42 : body,
    },
    repeat asx {
        charz {
            char[007] f32a,
            // a // b
        },
        match u as Z9_ {
            """ ++ [233]%N ++ runes_of_ascii "t" ++ [233]%N ++ runes_of_ascii """ : float,
            // c
            ""1"" : Pad,
            ["""", 10] : Header,
            [42] : repeatCount,
            00 : T,
        },
    },
    @rightPad(' ')
    falsey,
    @tag(0)
    @calculatedFrom(""1"")
    @leftPad('\x00')
    o,
}

MetaData i64_ {
}

packet x {
    @lengthOf(Header)
    repeat msg_type {
        repeat char[0123456789] u,
        // packet A { u8 x, }
        uint32 BodyLength @lengthOf(_x) `crlf
                line`,
    },
}

MetaData Header {
    Header options1,
    f32a stringy,
    char[] uint8x `a\`,
    char[1] u128,
    i32 Z9_,
    float32 msg_type,
}")).
Eval vm_compute in ("<<<M168>>>" ++ check (runes_of_ascii "packet // trailing space 
crc {	match	trueish
    as pack {[// trailing space 
007
    , ""`tick`""
    , 42 ,3 ,
""x y"" ] :
    // " ++ [128512]%N ++ runes_of_ascii " emoji
    u128
, } , // packet A { u8 x, }
@tag( 255
)
    lengthOf
    // " ++ [128512]%N ++ runes_of_ascii " emoji
    lengthOf , repeat zchar[ 0123456789]
    calculatedFrom`" ++ [233]%N ++ runes_of_ascii "` , // trailing space 
@calculatedFrom(
""" ++ [28040; 24687]%N ++ runes_of_ascii """ ) repeat/// triple
f32a ,repeat char[]
// packet A { u8 x, }
/// triple
msg_type
`u8 x,` ,
    x @calculatedFrom( ""{,}"" ) , f32 uint8x// packet A { u8 x, }
`two words`,
    char[  0 ]
i8i8 , @calculatedFrom(
""1"" ) rootA BodyLength,
repeat string a1 //	t
, } root// " ++ [128512]%N ++ runes_of_ascii " emoji
packet
// c
// " ++ [27880; 37322]%N ++ runes_of_ascii "
metadata
{ @calculatedFrom( ""abc"" ) options1 // trailing space 
Header ,
// @lengthOf(
// " ++ [27880; 37322]%N ++ runes_of_ascii "
}root
packet charz{
repeat stringy ,@tag( 3 // trailing space 
)
    Foo x_y_z`{ , }` ,
    char[
    1]
Logon
@lengthOf( float)
,	int8
    int
    ,
    } //	t
packet Packet { char[] zchar
//x
// " ++ [128512]%N ++ runes_of_ascii " emoji
`
`
    // c
    , }
")).
Eval vm_compute in ("<<<M1553>>>" ++ check (runes_of_ascii "packet options1 {
    repeat matchKey `doc`,
    char[] string_ `
        `,// packet A { u8 x, }
    uint16 T,
    repeatCount _x,
}

packet msg_type {
    @lengthOf(Pad)
    asx @calculatedFrom(""\" ++ [233]%N ++ runes_of_ascii """),
    @tag(4294967296)
    Logon `a\`,
    @tag(0)
    crc @lengthOf(charz) `u8 x,`,
    char[0] f32a,
    u8 A `line1
        line2`,
    Z9_ u `{ , }`,
    repeat uint8x `" ++ [28040; 24687; 31867; 22411]%N ++ runes_of_ascii "`,
    int8 Packet @calculatedFrom(""{,}""),
    // packet A { u8 x, }
}

packet A {
    // trailing space 
    // trailing space 
    @tag(3)
    @tag(1)
    u16 A,
    @tag(1)
    match roots as pack {
        // c
        [""CRC32""] : i8i8,
        ""a\\"" : trueish,
        [""{,}"", """ ++ [28040; 24687]%N ++ runes_of_ascii """] : falsey,
        // `tick` ""quote"" 'q'
    },
    @rightPad(' ')
    int16 Packet `
        `,// `tick` ""quote"" 'q'
    repeat zchar[1] Pad,// a // b
}")).
Eval vm_compute in ("<<<M1122>>>" ++ check (runes_of_ascii "// top
root // c0
packet // c1
msg_type // c2
{ // c3
i64 // c4
options1 // c5
, // c6
@lengthOf( // c7
f32a // c8
) // c9
repeat // c10
uint16 // c11
Foo // c12
, // c13
@calculatedFrom( // c14
""x y"" // c15
) // c16
repeat // c17
int64 // c18
pack // c19
, // c20
@leftPad // c21
( // c22
' ' // c23
) // c24
uint8 // c25
Foo // c26
, // c27
} // c28
packet // c29
rootA // c30
{ // c31
f32a // c32
x // c33
`two words` // c34
, // c35
char // c36
asx // c37
@lengthOf( // c38
falsey // c39
) // c40
`u8 x,` // c41
, // c42
@lengthOf( // c43
i64_ // c44
) // c45
uint16 // c46
chars // c47
, // c48
@tag( // c49
0 // c50
) // c51
string // c52
_x // c53
@calculatedFrom( // c54
""abc"" // c55
) // c56
`// not a comment` // c57
, // c58
} // c59
")).
Eval vm_compute in ("<<<M1410>>>" ++ check (runes_of_ascii "// top
packet // c0
P1 {
    // c2
u8 // c3
a // c4
, // c5
}
    // c6
packet P2 // c8
{ // c9
P1
    // c10
, // c11
} packet // c13
P3
    // c14
{ P2 // c16a
  // c16b
, P1
    // c18
, }
    // c20
packet // c21a
  // c21b
P4
    // c22
{ repeat P3
    // c25
,
    // c26
P2 // c27
, // c28
}
    // c29
root packet P5
    // c32
{ // c33
P4 // c34a
  // c34b
, // c35a
  // c35b
P3 // c36
, // c37
P1 // c38
, u8
    // c40
K , // c42
match K // c44
as
    // c45
Body // c46a
  // c46b
{ // c47
4 : // c49
P4 // c50
, 3
    // c52
:
    // c53
P3 , 2
    // c56
: // c57a
  // c57b
P2
    // c58
, // c59
1
    // c60
: // c61
P1 , } // c64
, // c65
}
    // c66
")).
Eval vm_compute in ("<<<M1768>>>" ++ check (runes_of_ascii "  packet
	BodyLength
	{  repeat  string
As
	`{ , }`
    , @tag(4294967296  )

    match
Pad
as
lengthOf{//	t
	  007 :  // `tick` ""quote"" 'q'
	  i8i8 	 /// triple

,""a\""b""

    : //x
	msg_type
,	}  ,
repeat
uint32
Z9_ ,
@tag(
00	)// `tick` ""quote"" 'q'
    	charz

    , string
	    // trailing space 
i8i8// packet A { u8 x, }
    @lengthOf(
BodyLength ),	@calculatedFrom( ""{,}"") 
// a // b
  @leftPad	// " ++ [27880; 37322]%N ++ runes_of_ascii "
      (
    ) 
leftPad

metadata, 
      //

  // " ++ [128512]%N ++ runes_of_ascii " emoji
	string  i8i8
``	,uint64  trueish
	@calculatedFrom( ""1""
	/// triple
  	// " ++ [27880; 37322]%N ++ runes_of_ascii "
    )  `
` ,  }")).
Eval vm_compute in ("<<<M1383>>>" ++ check (runes_of_ascii "packet A // c1
{ // c2
u8 // c3
a
    // c4
,
    // c5
}
    // c6
packet
    // c7
B { // c9
u16 // c10
b , // c12
}
    // c13
root
    // c14
packet // c15
P { u8 // c18
K1 // c19a
  // c19b
, // c20a
  // c20b
u8 K2 , // c23a
  // c23b
match K1
    // c25
as
    // c26
M1 // c27
{ 1 // c29
: // c30
A // c31
, // c32a
  // c32b
} // c33
, // c34
match // c35
K2 // c36a
  // c36b
as
    // c37
M2 // c38
{ // c39
1 : // c41a
  // c41b
B // c42a
  // c42b
, // c43
} // c44a
  // c44b
, } ")).
Eval vm_compute in ("<<<M163>>>" ++ check (runes_of_ascii "
packet
    float {
    char[ 00 ] u8x ,	}
packet // " ++ [128512]%N ++ runes_of_ascii " emoji
A // @lengthOf(
{ string
i8i8 , A //x
@calculatedFrom(
""a	b"" ) `a\`, @tag( 1 )
    chars	@lengthOf( Pad ) `u8 x,`
    , /// triple
match repeatCount as stringy { 42 :
x
3: // @lengthOf(
tag, [ 00 , 0123456789
] : packetx , [ """ ++ [28040; 24687]%N ++ runes_of_ascii """	, ""packet""
]: string_ , }	,
}options // @lengthOf(
{ i8i8= """ ++ [233]%N ++ runes_of_ascii "t" ++ [233]%N ++ runes_of_ascii """ Foo
    = false
    // packet A { u8 x, }
    ;  Pad =
' '
    ;}")).
Eval vm_compute in ("<<<M1816>>>" ++ check (runes_of_ascii "MetaData
	len /// triple
	  {  //
      f64
    T  `u8 x,`

    ,rootA

stringy
,  zchar

repeatCount`say ""hi""`

    ,MetaDataX	As
,  i8i8
string_
    , x_y_z f32a, 
}
	options 	 // c
	{  Logon 
      //
  =
    string	float	=
string  A  =""abc"" 	 /// triple

;  
      //
	A  =

    ""\" ++ [233]%N ++ runes_of_ascii """ Logon  = 7

}
options
    { }

options	{
packetx

=
	""abc"" 	 // c
	;
x

=true	}

")).
Eval vm_compute in ("<<<M87>>>" ++ check (runes_of_ascii "options {
    x_y_z	= false
;
    stringy =
    """ ++ [233]%N ++ runes_of_ascii "t" ++ [233]%N ++ runes_of_ascii """;
    // trailing space 
    crc =
""" ++ [128512]%N ++ runes_of_ascii """  i8i8=
'0'
    ;
}
    // `tick` ""quote"" 'q'
    packet _x { match u128 as tag { ""CRC32"" :stringy , 3
    //	t
    : repeatCount ,// " ++ [27880; 37322]%N ++ runes_of_ascii "
""\" ++ [233]%N ++ runes_of_ascii """ :	float,	[
"""" ,  """"	, """ ++ [28040; 24687]%N ++ runes_of_ascii """ , ""a\""b"" ]
    : u8x ,""1""
:
    x_y_z
, } , }packet stringy {
}
// " ++ [128512]%N ++ runes_of_ascii " emoji
")).
Eval vm_compute in ("<<<M1476>>>" ++ check (runes_of_ascii "
options{ LittleEndian 
=
    true ;	} packet

    Logon
{ u8 x

,
	}
    packet 
Logout  {u16
    reason
	,}root
	packet Frame { i32 Kind

,
i32 Kind2, match
Kind	as 
Body
    {	1 :Logon 
,[2,3
,4 ]

    :
    Logout

, 100
	:	Logon
	,	} , match	Kind2

    as
	Trailer{ 0
: Logout ,

}

,
	}")).
Eval vm_compute in ("<<<M1675>>>" ++ check (runes_of_ascii "// top
packet A {
    // c2
    u8 a,// c5
}// c6a

// c6b
packet B {
    // c9
    u16 b,// c12a
    // c12b
}

root packet P {
    // c17
    u8 K,// c20
    match K as M {
        // c25
        1 : A,
        1 : B,
        // c33a
        // c33b
    },// c35
}")).
Eval vm_compute in ("<<<M1127>>>" ++ check (runes_of_ascii "packet Logon // c1a
  // c1b
{ // c2a
  // c2b
@tag( 42 // c4
) // c5
@rightPad (
    // c7
' ' ) @leftPad
    // c10
( )
    // c12
repeat // c13
trueish
    // c14
{
    // c15
string
    // c16
T
    // c17
, }
    // c19
,
    // c20
} ")).
Eval vm_compute in ("<<<M1471>>>" ++ check (runes_of_ascii "packet Sub {
    u8 a,
    @calculatedFrom(""CRC16"") i16 SubSum,
}
root packet Frame {
    u16 MsgType,
    u16 BodyLen @lengthOf(Body),
    Sub Body,
    string note,
    @calculatedFrom(""CRC16"") i16 Checksum,
    u8 tail,
}
")).
Eval vm_compute in ("<<<M1559>>>" ++ check (runes_of_ascii "// " ++ [27880; 37322]%N ++ runes_of_ascii "
options {
    msg_type = '0'
}

packet _x {
    // `tick` ""quote"" 'q'
    @tag(00)
    @tag(1)
    char[] a1,
    // packet A { u8 x, }
    /// triple
}

packet float {
}

//	t
// packet A { u8 x, }
MetaData Foo {
}")).
Eval vm_compute in ("<<<M488>>>" ++ check (runes_of_ascii "options
{
matchKey = 42/// triple
x='0' ;
// packet A { u8 x, }
//
charz
=
// packet A { u8 x, }
// trailing space 
true  ; } MetaData BodyLength
{
uint8
pack,1 zchar[ ]float ,  float32 x_y_z `` ,u32
_x,i16 body  , }
")).
Eval vm_compute in ("<<<M463>>>" ++ check (runes_of_ascii "options
{
matchKey = 42/// triple
x='0' ;
// packet A { u8 x, }
//
charz
=
// packet A { u8 x, }
// trailing space 
true  ; } MetaData {
BodyLength
uint8
pack,zchar[ 1]float ,  float32 x_y_z `` ,u32
_x,i16 body  , }
")).
Eval vm_compute in ("<<<M526>>>" ++ check (runes_of_ascii "options
{
matchKey = 42/// triple
x='0' ;
// packet A { u8 x, }
//
charz
=
// packet A { u8 x, }
// trailing space 
true  ; } MetaData BodyLength
{
uint8
pack,zchar[ 1]float ,  float32 x_y_z `` u32
_x,i16 body  , }
")).
Eval vm_compute in ("<<<M486>>>" ++ check (runes_of_ascii "options
{
matchKey = 42/// triple
x='0' ;
// packet A { u8 x, }
//
charz
=
// packet A { u8 x, }
// trailing space 
true  ; } MetaData BodyLength
{
uint8
pack, 1]float ,  float32 x_y_z `` ,u32
_x,i16 body  , }
")).
Eval vm_compute in ("<<<M1342>>>" ++ check (runes_of_ascii "packet Inner { u8 a
    // c4
,
    // c5
}
    // c6
root // c7a
  // c7b
packet // c8a
  // c8b
P // c9a
  // c9b
{
    // c10
repeat Inner items ,
    // c14
u8 // c15
x
    // c16
, // c17
} ")).
Eval vm_compute in ("<<<M1798>>>" ++ check (runes_of_ascii "packet A {
    Inner {
        match k as n {
            [
                1, 22, 007, 4, 5,
                66, 7, 8, 9, 10,
                11
            ] : B,
        },
    },
}")).
Eval vm_compute in ("<<<M703>>>" ++ check (runes_of_ascii "// c
packet i64_ {	char[] calculatedFrom , } packet
trueish  {@calculatedFrom(
""a\\"" o ) { i32 falsey@lengthOf( uint8x ),
} , } // `tick` ""quote"" 'q'
options {// c
Z9_ = ' '//
}
")).
Eval vm_compute in ("<<<M1305>>>" ++ check (runes_of_ascii "// top
MetaData
    // c0
_x
    // c1
{
    // c2
zchar[
    // c3
4294967296
    // c4
]
    // c5
lengthOf
    // c6
`// not a comment`
    // c7
,
    // c8
}
    // c9
")).
Eval vm_compute in ("<<<M1513>>>" ++ check (runes_of_ascii "packet lengthOf {
    @leftPad()
    // a // b
    @tag(7)
    u8 BodyLength,
    char[1] chars `
    `,
    @tag(00)
    char[0] Z9_ @lengthOf(float) `u8 x,`,
}")).
Eval vm_compute in ("<<<M346>>>" ++ check (runes_of_ascii "packet BodyLength {repeat u128 charz ,
i64 i64_
@lengthOf(
asx )
,
repeat
    i64_ { repeat int `u8 x,` , //	t
},repeat float32
pack
`" ++ [233]%N ++ runes_of_ascii "` ,
    }")).
Eval vm_compute in ("<<<M200>>>" ++ check (runes_of_ascii "
root packet	f32a {char[]x_y_z `doc` ,@calculatedFrom(	""CRC32""
) A tag `u8 x,`
,
int , } options { Packet =""1""
    ; } options {  } 	 ")).
Eval vm_compute in ("<<<M198>>>" ++ check (runes_of_ascii "// c
options{
    //
    repeatCount = '0';leftPad =
' ';
// c
/// triple
msg_type
    = char[ 10
]
;}
packet
    Packet {//x
}
")).
Eval vm_compute in ("<<<M1544>>>" ++ check (runes_of_ascii "packet A {
    Inner {
        u8 x `a
        b`,
        Deep {
            u8 y `a
            b`,
        },
    },
}")).
Eval vm_compute in ("<<<M632>>>" ++ check (runes_of_ascii "MetaData
    // trailing space 
    matchKey
{ u64 chars // a // b
,char[] lengthOf `// not a comment`
    , , //	t
}")).
Eval vm_compute in ("<<<M593>>>" ++ check (runes_of_ascii "MetaData
    // trailing space 
    {
matchKey u64 chars // a // b
,char[] lengthOf `// not a comment`
    , //	t
}")).
Eval vm_compute in ("<<<M966>>>" ++ check (runes_of_ascii "packet A {
    match k as n {
        ""x\
y"" : B,
        [""x\
y"", 1] : C,
        [1,2,3,4,5,""x\
y""] : D,
    },
}")).
Eval vm_compute in ("<<<M250>>>" ++ check (runes_of_ascii "
MetaData	Logon {	zchar[ 10 ]float `" ++ [233]%N ++ runes_of_ascii "` , BodyLength Z9_ , float32 o `a\` ,uint64 roots `two words` // " ++ [27880; 37322]%N ++ runes_of_ascii "
,  }
")).
Eval vm_compute in ("<<<M880>>>" ++ check (runes_of_ascii "packet A {
  match k as n {
    [""a"", ""bb"", ""c c"", ""d"", ""e"", ""f"", ""g"", ""h"", ""i"", ""j""] : B
    2 : C
  },
}")).
Eval vm_compute in ("<<<M1258>>>" ++ check (runes_of_ascii "packet calculatedFrom {
// c
@tag( 4294967296 ) u msg_type , char[ 3 ] crc @lengthOf( len ) `u8 x,` , }")).
Eval vm_compute in ("<<<M1521>>>" ++ check (runes_of_ascii "
root packet  x_y_z

{
	    // a // b
	// packet A { u8 x, }
    	repeat
falsey 	 // " ++ [27880; 37322]%N ++ runes_of_ascii "
`" ++ [233]%N ++ runes_of_ascii "`
	,
    } ")).
Eval vm_compute in ("<<<M1685>>>" ++ check (runes_of_ascii "packet	A {  u32 
crc@calculatedFrom(	""x\
y""  ) ,
	@calculatedFrom(

    ""x\
y"")
u8

y  ,
    }
")).
Eval vm_compute in ("<<<M1136>>>" ++ check (runes_of_ascii "packet Logon { @tag( // c
42 ) @rightPad ( ' ' ) @leftPad ( ) repeat trueish { string T , } , }")).
Eval vm_compute in ("<<<M1168>>>" ++ check (runes_of_ascii "packet Logon { @tag( 42 ) @rightPad ( ' ' ) @leftPad ( ) repeat trueish { string T , } // c
, }")).
Eval vm_compute in ("<<<M1502>>>" ++ check (runes_of_ascii "packet o {
    @tag(42)
    repeat x {
        char[0123456789] i64_,
    },
}

options {
}")).
Eval vm_compute in ("<<<M827>>>" ++ check (runes_of_ascii "packet A {
  match k as n {
    [""a"", ""bb"", ""c c"", ""d"", ""e"", ""f""] : B,
    2 : C
  },
}")).
Eval vm_compute in ("<<<M843>>>" ++ check (runes_of_ascii "packet A {
  match k as n {
    [1, ""bb"", 007, ""d"", 5, ""f"", 7] : B
    2 : C
  },
}")).
Eval vm_compute in ("<<<M1219>>>" ++ check (runes_of_ascii "packet o { @tag( 42 )
// c
repeat x { char[ 0123456789 ] i64_ , } , } options { }")).
Eval vm_compute in ("<<<M1875>>>" ++ check (runes_of_ascii "MetaData matchKey {
    u64 chars,
    char[] lengthOf `?// not a comment`,//	t
}")).
Eval vm_compute in ("<<<M1738>>>" ++ check (runes_of_ascii "packet A {
    B b `a
    b`,
    B `a
    b`,
    repeat B bs `a
    b`,
}")).
Eval vm_compute in ("<<<M1802>>>" ++ check (runes_of_ascii "MetaData As
{

}
MetaData asx
	{
char[	007]
    Logon `two words` , }
")).
Eval vm_compute in ("<<<M1992>>>" ++ check (runes_of_ascii "// top
root packet P {
    // c3a
    // c3b
    string s,// c6
}
// c7")).
Eval vm_compute in ("<<<M1518>>>" ++ check (runes_of_ascii "packet A {
    B b `
    `,
    B `
    `,
    repeat B bs `
    `,
}")).
Eval vm_compute in ("<<<M837>>>" ++ check (runes_of_ascii "packet A { Inner { match k as n { [1,22,007,4,5,66] : B, }, }, }")).
Eval vm_compute in ("<<<M811>>>" ++ check (runes_of_ascii "packet A { Inner { match k as n { [1,22,007,4] : B, }, }, }")).
Eval vm_compute in ("<<<M1979>>>" ++ check (runes_of_ascii "
packet o{
    char[
    0123456789
]asx
	`doc`
	, } ")).
Eval vm_compute in ("<<<M340>>>" ++ check (runes_of_ascii "packet int
    { }
    packet u128 {
    }
")).
Eval vm_compute in ("<<<M1111>>>" ++ check (runes_of_ascii "MetaData zchar { zchar[
// c
3 ] Pad , }")).
Eval vm_compute in ("<<<M963>>>" ++ check (runes_of_ascii "root packet A {
    u8 x `tab
	x`,
}")).
Eval vm_compute in ("<<<M1698>>>" ++ check (runes_of_ascii "options {
    // c
    u8x = 3
}")).
Eval vm_compute in ("<<<M1022>>>" ++ check (runes_of_ascii "packet A {
 u8 x `d" ++ [8239]%N ++ runes_of_ascii "`, // c" ++ [8239]%N ++ runes_of_ascii "
}")).
Eval vm_compute in ("<<<M1686>>>" ++ check (runes_of_ascii "  packet 
A {

} 
// c" ++ [8239]%N ++ runes_of_ascii "
 
")).
Eval vm_compute in ("<<<M1299>>>" ++ check (runes_of_ascii "packet lengthOf
// c
{ }")).
Eval vm_compute in ("<<<M757>>>" ++ check (runes_of_ascii "0p7n2r0zu^V9,x""![jU")).
Eval vm_compute in ("<<<M1026>>>" ++ check (runes_of_ascii "// c" ++ [8287]%N ++ runes_of_ascii "
packet A {
}")).
Eval vm_compute in ("<<<M1028>>>" ++ check (runes_of_ascii "packet A {
}// c" ++ [11]%N)).
Eval vm_compute in ("<<<M758>>>" ++ check (runes_of_ascii "char char[")).
Eval vm_compute in ("<<<M725>>>" ++ check (runes_of_ascii "
	 ")).
