From FP Require Import Lexer Parser ShowPT Digest Formatter.
From Coq Require Import String List NArith.
Import ListNotations.
Open Scope string_scope.
Set Printing Width 100000000.
Set Printing Depth 100000000.
Definition show_fres (r : fres) : string :=
  match r with
  | FOk s => "OK:" ++ sh_escaped s ""
  | FErr s => "ERR:" ++ sh_escaped s ""
  | FPanic p => "PANIC:" ++ p
  end.
Definition check (rs : list rune) : string := digest (show_fres (format_res rs)).
Definition full (rs : list rune) : string := show_fres (format_res rs).
Eval vm_compute in ("<<<M3533>>>" ++ check (runes_of_ascii "options { // c1
StringPrefixLenType
    // c2
=
    // c3
u32 // c4a
  // c4b
; // c5
ArrayPrefixLenType // c6a
  // c6b
=
    // c7
u8 // c8
; // c9a
  // c9b
FixedStringPadFromLeft = // c11
false // c12a
  // c12b
;
    // c13
}
    // c14
packet // c15
Logon { // c17
i8 // c18a
  // c18b
venue ,
    // c20
int16 f1
    // c22
,
    // c23
zchar[ // c24
8 // c25a
  // c25b
] // c26a
  // c26b
Acct // c27a
  // c27b
,
    // c28
repeat // c29a
  // c29b
InNote16 { // c31
InQty73 // c32
{ // c33
float32 // c34a
  // c34b
tag7 // c35
, // c36
}
    // c37
, f32 // c39
Acct // c40
, // c41a
  // c41b
zchar[ // c42a
  // c42b
5
    // c43
] sym // c45
, // c46a
  // c46b
} , // c48
uint16 // c49a
  // c49b
Side2 // c50a
  // c50b
, i32 // c52a
  // c52b
lastPx // c53
, } // c55
packet Fill { // c58
repeat // c59
InOrderid15 // c60
{ // c61
zchar[ // c62
8
    // c63
] sym
    // c65
, // c66a
  // c66b
repeat // c67a
  // c67b
char[ // c68
2 // c69
]
    // c70
OrderId ,
    // c72
repeat Logon
    // c74
, // c75
InQty82 // c76
{ // c77a
  // c77b
char[] // c78
Tail // c79
, repeat // c81
Logon // c82
,
    // c83
float64 price , // c86
f64 Side2
    // c88
, // c89
}
    // c90
, char[ // c92
12 // c93a
  // c93b
] // c94
venue
    // c95
, // c96
char[ // c97a
  // c97b
4 // c98a
  // c98b
] Px // c100
, } , // c103
@rightPad
    // c104
( // c105
'0'
    // c106
)
    // c107
char[ // c108a
  // c108b
2 ]
    // c110
venue
    // c111
,
    // c112
InPrice99
    // c113
{ InAcct72
    // c115
{ u8 // c117a
  // c117b
pad0 , } // c120a
  // c120b
,
    // c121
u32
    // c122
OrderId ,
    // c124
Logon // c125
, // c126a
  // c126b
} // c127
, // c128
} // c129a
  // c129b
root
    // c130
packet // c131
Reject // c132
{ // c133a
  // c133b
zchar[
    // c134
9 // c135
] msgKind
    // c137
, // c138a
  // c138b
u32 // c139a
  // c139b
venue , // c141a
  // c141b
u16 // c142
seqNo // c143a
  // c143b
@lengthOf(
    // c144
Body // c145a
  // c145b
) // c146
, // c147
match // c148
venue as Body // c151
{ // c152
57 // c153
: // c154a
  // c154b
Fill
    // c155
,
    // c156
8 : Logon // c159
, }
    // c161
,
    // c162
u16
    // c163
Tail // c164
@calculatedFrom(
    // c165
""CRC32""
    // c166
) , } ")).
Eval vm_compute in ("<<<M975>>>" ++ check (runes_of_ascii "MetaData BodyLength
    { zchar[ 42 // trailing space 
] falsey
    ,
x_y_z trueish `{ , }` , options1 Header
    `
` , uint8
    Header `tab	here` ,
uint8
    // packet A { u8 x, }
    zchar
    ,
float64 len
, } packet//x
chars {  zchar[ 00 ]
    options1 ,	zchar[ // c
7 ] Header , @tag( 0	)char[] MetaDataX `line1
line2`
,	repeat
metadata{ i64
// packet A { u8 x, }
// @lengthOf(
MetaDataX , int8 o ,leftPad Pad ,
string	Z9_ `u8 x,`
, } , @leftPad
    ( '0' ) u64 calculatedFrom
// trailing space 
// c
@calculatedFrom(
""a\""b"" )  , @lengthOf( leftPad
    ) repeat Foo `line1
line2`,}
    packet options1
//x
//	t
{ @tag(00	)body
asx,
// a // b
// " ++ [128512]%N ++ runes_of_ascii " emoji
repeat MetaDataX{ repeat i64
    u8x `" ++ [233]%N ++ runes_of_ascii "`, } , pack @calculatedFrom( ""CRC32"" ) `
`
,  repeat Pad { Foo{
    repeat i8i8, MetaDataX ,
    // @lengthOf(
    lengthOf @calculatedFrom(""abc"" )`// not a comment`	, /// triple
}	,}  , float64 string_ @calculatedFrom( //
""it's""	)
`u8 x,` ,
    i8  Z9_
@lengthOf(_x ),
BodyLength matchKey `tab	here`, uint64
    // " ++ [128512]%N ++ runes_of_ascii " emoji
    As  @calculatedFrom( ""// no comment"" ) ,  } packet leftPad { match packetx as// trailing space 
Foo
{ [ ""x y"" ,
    3]
    // " ++ [128512]%N ++ runes_of_ascii " emoji
    : As ,
00:
    leftPad
// a // b
//	t
, [""\n"" , """"
    ] : MetaDataX	,
00
    : x
"""" : int
    , }, i32
    // " ++ [27880; 37322]%N ++ runes_of_ascii "
    Foo,repeat string
roots  , repeat body chars `" ++ [28040; 24687; 31867; 22411]%N ++ runes_of_ascii "`,
int `" ++ [233]%N ++ runes_of_ascii "`
    , @rightPad (
' ' ) string BodyLength, @lengthOf(lengthOf // " ++ [128512]%N ++ runes_of_ascii " emoji
)
    char uint8x `line1
line2` , zchar[
00 ]
    repeatCount	@calculatedFrom( """ ++ [28040; 24687]%N ++ runes_of_ascii """ )
, @calculatedFrom( ""a	b"") falsey
    //x
    @calculatedFrom( ""1"" )
    `crlf
line` , } //x
packet Header { // trailing space 
@calculatedFrom(
""" ++ [28040; 24687]%N ++ runes_of_ascii """ ) int64 u	`crlf
line`,
@calculatedFrom(
""CRC32"" ) // packet A { u8 x, }
int64 uint8x,
char[255
] Foo `
`
    ,}
")).
Eval vm_compute in ("<<<M622>>>" ++ check (runes_of_ascii "
packet
    Logon {
@tag( 007 )  packetx {
    charz
    @calculatedFrom( ""\n"") , } , } packet u128
    { @calculatedFrom( ""1""
//x
// packet A { u8 x, }
)_x@calculatedFrom( """" ) ,} options { matchKey= 0123456789 ; len = ""1"" ;//x
Z9_= 255  Packet= '\x00' // `tick` ""quote"" 'q'
}	root packet// packet A { u8 x, }
Z9_ {
@calculatedFrom(
//
// trailing space 
""" ++ [233]%N ++ runes_of_ascii "t" ++ [233]%N ++ runes_of_ascii """ ) char[ 00 ]x_y_z @lengthOf( T )// c
,As @lengthOf(
    asx ) `tab	here` , x matchKey `{ , }`	, @leftPad ( )  @rightPad
    () @lengthOf(a1 )float
@lengthOf( o )`doc`
, } root packet int
// `tick` ""quote"" 'q'
// c
{@lengthOf(BodyLength ) repeat //
zchar[
42]
u8x
    `tab	here`
,
@leftPad  (
    ' ' ) @calculatedFrom(""a\\"") repeat  char[
    007
// a // b
//	t
] matchKey `tab	here` , Header @lengthOf( A ), repeat roots { repeat u
    // @lengthOf(
    { match calculatedFrom as o {
    255
:metadata } , match
BodyLength as o {""a	b"" :lengthOf // @lengthOf(
, },string	uint8x , // c
char[]
    lengthOf// " ++ [27880; 37322]%N ++ runes_of_ascii "
,}
    , match asx as
    pack {
    00
:metadata
// `tick` ""quote"" 'q'
// @lengthOf(
,
[""1"", ""abc"" , """ ++ [28040; 24687]%N ++ runes_of_ascii """
    ,255
    ,	4294967296 , 65535,
255, // a // b
255  ]: //x
o ,
[ 00
    ,""it's""	, 3
/// triple
// c
,""" ++ [128512]%N ++ runes_of_ascii """ // " ++ [27880; 37322]%N ++ runes_of_ascii "
]:calculatedFrom , [
00,
""{,}""
    ] : matchKey ,	""abc""
// trailing space 
//x
: // @lengthOf(
u ""x y"" : i8i8 // " ++ [27880; 37322]%N ++ runes_of_ascii "
, }, }, crc @lengthOf(
leftPad ) `{ , }` , stringy @calculatedFrom( ""x y"" ) `// not a comment` , uint16 calculatedFrom , }
")).
Eval vm_compute in ("<<<M3720>>>" ++ check (runes_of_ascii "
packet crc{ //x
	u16	// " ++ [128512]%N ++ runes_of_ascii " emoji

  charz ,
    @leftPad  ( ' ' ) match

    rootA

as// packet A { u8 x, }
BodyLength {

""`tick`""
:

    u,

    } ,  @tag(

1

    )	Logon`" ++ [233]%N ++ runes_of_ascii "`  , uint16
metadata
	`// not a comment` ,	//
      @rightPad	( )
    char[00
	]body 
    // @lengthOf(

// trailing space 
    ,BodyLength

    { match
f32a
    as 	 // packet A { u8 x, }
    calculatedFrom 
    // a // b
	// " ++ [128512]%N ++ runes_of_ascii " emoji
  {
	255 :  len
, 65535 : i8i8
// " ++ [128512]%N ++ runes_of_ascii " emoji
	// " ++ [27880; 37322]%N ++ runes_of_ascii "
    007
    :uint8x ,
	}
	    //
		,	repeat
	repeatCount
    // @lengthOf(
	/// triple
    { repeat 
char[
	1 ]  string_ , repeat string 
roots
,
falsey  len//x
    	`
` 
, repeat
    i64 
calculatedFrom,

}

,
u16//
leftPad@calculatedFrom(
""x y"" //	t
    )  `// not a comment`, } 	 // `tick` ""quote"" 'q'
      ,
repeat zchar{	f32
	packetx	@lengthOf( 
asx
)	, a1 stringy

    ,
string_ BodyLength 
// packet A { u8 x, }
		`" ++ [233]%N ++ runes_of_ascii "`, }

    ,

    @rightPad
(

'0'

    )

repeat

    o
{	repeat
float	f32a
    ,
char
packetx
    ,	char[]
stringy	// " ++ [27880; 37322]%N ++ runes_of_ascii "
,
	}
,
	}	root packet
	float  // trailing space 
{ uint16
body
	@lengthOf(body  )	,	match

a1 
as

    Header

{ ""1""
	:
	Z9_ ,	}
    ,
}

    options  {	MetaDataX=
	255

    ; charz

= '0'

;
matchKey =
	""`tick`"" ;
	rootA

    = //x
  '0'
	; }
")).
Eval vm_compute in ("<<<M577>>>" ++ check (runes_of_ascii "
packet	matchKey
// @lengthOf(
// " ++ [128512]%N ++ runes_of_ascii " emoji
{ string stringy `tab	here`,} root packet
Z9_{@lengthOf( /// triple
o ) @calculatedFrom( """ ++ [128512]%N ++ runes_of_ascii """ )@lengthOf( matchKey // packet A { u8 x, }
)
u{ string
    //	t
    msg_type
    , pack{ uint64 As@lengthOf(
u128 ), // `tick` ""quote"" 'q'
repeat i64_ `crlf
line`
    , }
, } ,
@lengthOf(
    len ) match rootA as
stringy	{
[
    65535
    ,
65535 ,	""`tick`""
    , ""a\""b"" ,65535
,
// `tick` ""quote"" 'q'
// a // b
""abc"",  10] //x
:options1
, ""1"" :
a1
    // trailing space 
    , 255	: As
, """"
:
metadata ,4294967296: // @lengthOf(
body
, } ,  repeat // " ++ [27880; 37322]%N ++ runes_of_ascii "
u8x , @lengthOf( asx )@tag( 10 )@calculatedFrom( ""\n"" )match Logon as options1 { ""CRC32"":
    // c
    charz ,[
""\n"" ,
10 ,  65535 , """ ++ [233]%N ++ runes_of_ascii "t" ++ [233]%N ++ runes_of_ascii """] :
    As // " ++ [128512]%N ++ runes_of_ascii " emoji
,// packet A { u8 x, }
[ 4294967296 ] :repeatCount
    , },
    @tag(
007 ) @leftPad ('0' ) @leftPad(' ')i16 u128 @calculatedFrom( ""packet"" )
    ,  @leftPad
(// " ++ [27880; 37322]%N ++ runes_of_ascii "
)x @calculatedFrom(""\n""
    )
`a\` ,
repeat zchar{ zchar[ 007]Foo
    ,
}
,@tag( // `tick` ""quote"" 'q'
42 ) match
    chars as metadata { [""{,}"" ] : calculatedFrom ,0 :
    x
, 4294967296 :leftPad
    , [//	t
42 ] :	trueish// packet A { u8 x, }
}, } options{  }")).
Eval vm_compute in ("<<<M3886>>>" ++ check (runes_of_ascii "MetaData
// " ++ [128512]%N ++ runes_of_ascii " emoji
	// trailing space 

o 
{ 
char[	255
] 	 // @lengthOf(
BodyLength, }packet 
crc{@tag(

7
	)calculatedFrom @lengthOf( Header
	) , len
{ float	{ i32
T  ,stringy	string_
    // c

,char[	// " ++ [27880; 37322]%N ++ runes_of_ascii "
      65535
]

Packet @lengthOf( a1
)
``
,falsey{

    u16 Logon	`{ , }`
, 
}
,
} 
,
repeat 	 /// triple
	falsey
,repeat u8 Logon,

} 
,  zchar[	65535  ] lengthOf 
@lengthOf( asx )
`line1
line2`
    ,@rightPad (

    '0') 
int16 f32a ,

@rightPad	( 	 // packet A { u8 x, }
    '\x00' 
)
	char[] len 
	    // packet A { u8 x, }
  	`" ++ [28040; 24687; 31867; 22411]%N ++ runes_of_ascii "` , match string_ 
as  string_ 
  /// triple
    {  [
""a\\""
, 10
	,

    007, 	 //	t
	  0123456789
    ]	: As ,
[ 
""`tick`""
]	:	//
metadata , ""\n"" :falsey  ,  // `tick` ""quote"" 'q'
	[
3

,  // " ++ [27880; 37322]%N ++ runes_of_ascii "
	""" ++ [233]%N ++ runes_of_ascii "t" ++ [233]%N ++ runes_of_ascii """
	, 	 //	t
  ""CRC32"" ]:
lengthOf	, 00 :
x_y_z
    ,

}, packetx

    {
    repeat
    a1 `it's` 	 // packet A { u8 x, }

	, stringy

    `{ , }` ,	match	T as
    MetaDataX // @lengthOf(
  	{  ""CRC32""  :
lengthOf
}
    ,
	}

    ,  }  MetaData	tag	{ 	 //x
	}	packet 
Z9_ {

i16  rootA 
	// packet A { u8 x, }

// @lengthOf(

`
`  // " ++ [27880; 37322]%N ++ runes_of_ascii "

	,//	t
      }")).
Eval vm_compute in ("<<<M4194>>>" ++ check (runes_of_ascii "  MetaData As
{ u  //
	matchKey
	,char[]
T

, char[] Foo 	 // @lengthOf(
	`{ , }`	,
}
	root
	packet

    T	{ @lengthOf( tag
    ) 
@tag(0123456789

    )
    match
	repeatCount

    as
    BodyLength{	""" ++ [233]%N ++ runes_of_ascii "t" ++ [233]%N ++ runes_of_ascii """
    :o 
, 65535

    :
    float
,""a	b""

    :
	_x

    , [
	""x y"" ,65535 
    // packet A { u8 x, }
  //x
	] 
:string_ , }
,  }
	root 
packet

    _x {

match
	msg_type  
  // trailing space 
    as f32a{ 
""\" ++ [233]%N ++ runes_of_ascii """
    :Header
3 :
repeatCount
[
    7	,	""a	b""
    ]:
_x 
,
""it's""
    :

    stringy
    10:
    //	t

/// triple
	  As
, ""it's""
: lengthOf }
	, @calculatedFrom(
	""packet"") int64  // `tick` ""quote"" 'q'
      falsey
, @leftPad// packet A { u8 x, }
( 
) 
    //	t
  //

char[
1 ]

len// @lengthOf(

@lengthOf(	Foo )
, 
chars T, zchar[ 
007

    ]options1 , 
match

f32a
    as asx 
{ [ ""1""

    ]
: 
matchKey
,
""" ++ [28040; 24687]%N ++ runes_of_ascii """
	: As
, 
	// c
4294967296
	: 
options1  , }
	,
	} MetaData
	o 
{ zchar[ 42
] 
repeatCount

, packetx

    falsey,	Packet 
options1

`{ , }`

,
}options {	falsey=	""a\\""}// " ++ [128512]%N ++ runes_of_ascii " emoji
 
")).
Eval vm_compute in ("<<<M3209>>>" ++ check (runes_of_ascii "// top
root
    // c0
packet
    // c1
msg_type
    // c2
{
    // c3
i64
    // c4
options1
    // c5
,
    // c6
@lengthOf(
    // c7
f32a
    // c8
)
    // c9
repeat
    // c10
uint16
    // c11
Foo
    // c12
,
    // c13
@calculatedFrom(
    // c14
""x y""
    // c15
)
    // c16
repeat
    // c17
int64
    // c18
pack
    // c19
,
    // c20
@leftPad
    // c21
(
    // c22
' '
    // c23
)
    // c24
uint8
    // c25
Foo
    // c26
,
    // c27
}
    // c28
packet
    // c29
rootA
    // c30
{
    // c31
f32a
    // c32
x
    // c33
`two words`
    // c34
,
    // c35
char
    // c36
asx
    // c37
@lengthOf(
    // c38
falsey
    // c39
)
    // c40
`u8 x,`
    // c41
,
    // c42
@lengthOf(
    // c43
i64_
    // c44
)
    // c45
uint16
    // c46
chars
    // c47
,
    // c48
@tag(
    // c49
0
    // c50
)
    // c51
string
    // c52
_x
    // c53
@calculatedFrom(
    // c54
""abc""
    // c55
)
    // c56
`// not a comment`
    // c57
,
    // c58
}
    // c59
")).
Eval vm_compute in ("<<<M3823>>>" ++ check (runes_of_ascii "
root packet
body
    {
	@tag(

255 ) chars 
calculatedFrom

,

    //	t
    @rightPad
	(	'0'

    ) @calculatedFrom(
""a	b"" 	 // " ++ [128512]%N ++ runes_of_ascii " emoji
    ) @rightPad
(
) stringy@calculatedFrom(
    ""it's""

    )  // " ++ [128512]%N ++ runes_of_ascii " emoji
  , repeat
	string 
trueish/// triple
,

@calculatedFrom(
    // `tick` ""quote"" 'q'
	""""
) asx @lengthOf(
options1
)  `doc`

    , u32	Logon
,
float64	// packet A { u8 x, }
    i64_
	@lengthOf(
    metadata

    ),

@calculatedFrom(
    ""`tick`""  )
	chars
    @lengthOf(
	len  )  `line1
line2`
	, f32a 
  /// triple
    	{
match 
trueish  as roots
    { ""1"" :
body ""// no comment""

    : 
Packet

,

[42
,
	""it's"" , 0

, 	 // " ++ [128512]%N ++ runes_of_ascii " emoji

""it's""  ]
:

    charz  ,  ""a\""b""
:  stringy, 

    // a // b
  	//x
  }

    ,

    } 
,uint8x
{
    zchar[ 10 
] As, }  // trailing space 
      ,	@tag(  0123456789
	)
	@rightPad
	( 
'0'  ) @calculatedFrom( """"
)asx 
@lengthOf(	trueish)
, 
}	root packet	trueish
    {
	}")).
Eval vm_compute in ("<<<M1132>>>" ++ check (runes_of_ascii "packet charz { zchar @lengthOf( body) , string
    BodyLength``
,
    float
`" ++ [233]%N ++ runes_of_ascii "` , @lengthOf( len ) @tag(
    255
)@calculatedFrom(	""{,}"" )a1 int `two words` //x
,
char[3 ] float @calculatedFrom( ""CRC32"" )  , repeat int32 stringy
, //
@tag( 3 )  @tag( 3
    ) a1
{ match chars as //x
roots {
""it's""  : o
    ""CRC32"" : stringy ,	0123456789 :Pad ,[
""a	b"" , """ ++ [128512]%N ++ runes_of_ascii """ ] :
body // c
, }, char[ /// triple
42	] u8x ,char[ 255
// " ++ [27880; 37322]%N ++ runes_of_ascii "
//	t
]
x_y_z
@calculatedFrom( ""packet""
    )
    ,
    match body
as BodyLength
    { 10
: zchar,007 :uint8x
, ""a\""b"" :
Header,
""x y"" :chars	007 : f32a //	t
,} ,
} , match
    T	as // trailing space 
stringy{
10 :float ,
    // trailing space 
    0
: string_ 10 : crc,
7 : chars ,7  : body ,	}
, repeat crc
`
` , } MetaData roots {	char[]  string_  `{ , }`,} root packet As {
    @rightPad	( ' ' ) i64 leftPad @calculatedFrom(  ""abc"" )	`doc` , char[]options1 ,}
")).
Eval vm_compute in ("<<<M4332>>>" ++ check (runes_of_ascii "options {
    o = '\x00';
}

packet tag {
    int16 falsey `two words`,
    /// triple
    T,
}

packet asx {
    match T as falsey {
        7 : x,
    },
    zchar[4294967296] matchKey @calculatedFrom(""`tick`"") `" ++ [233]%N ++ runes_of_ascii "`,
    @lengthOf(calculatedFrom)
    // " ++ [128512]%N ++ runes_of_ascii " emoji
    crc {
        repeat A {
            msg_type,
            repeat char[] zchar `{ , }`,
            u16 pack,// " ++ [128512]%N ++ runes_of_ascii " emoji
            u8 metadata @lengthOf(leftPad) `" ++ [28040; 24687; 31867; 22411]%N ++ runes_of_ascii "`,
        },
    },
    msg_type {
        repeat Foo {
            match Foo as Pad {
                [65535] : charz,
                [""`tick`""] : o,
                255 : pack,
            },
            char[] packetx,
            zchar[7] i8i8,
        },//	t
    },
    i8 chars,
}

root packet metadata {
    match uint8x as u8x {
        65535 : x_y_z,
    },
}

MetaData leftPad {
    i32 u128,
}// " ++ [27880; 37322]%N)).
Eval vm_compute in ("<<<M4442>>>" ++ check (runes_of_ascii "packet BodyLength {
    @calculatedFrom(""1"")
    @tag(10)
    @lengthOf(Pad)
    char[0123456789] asx `" ++ [233]%N ++ runes_of_ascii "`,
    char[] msg_type @calculatedFrom(""""),
    @tag(4294967296)
    repeat a1 {
        char[007] Logon `crlf
        line`,
        // a // b
        u32 trueish `u8 x,`,
        match Z9_ as body {
            ""1"" : Packet,
            0 : x,
        },
        int16 options1 `" ++ [233]%N ++ runes_of_ascii "`,
    },
}

options {
    rootA = true;// @lengthOf(
    uint8x = ' '
    matchKey = char[];
    stringy = ' '
    options1 = 4294967296
}

options {
    stringy = true
    chars = ' '
}

packet T {
    string Pad @calculatedFrom(""\" ++ [233]%N ++ runes_of_ascii """),//	t
    repeat MetaDataX {
        repeat u32 body `line1
        line2`,
        string crc @lengthOf(As) `" ++ [28040; 24687; 31867; 22411]%N ++ runes_of_ascii "`,
    },/// triple
    repeat float32 Header `a\`,
    float `a\`,
}")).
Eval vm_compute in ("<<<M85>>>" ++ check (runes_of_ascii "packet chars
{}// c
packet
len
{
    repeat char[] Foo
, @rightPad ('0' ) zchar[ 007 ]/// triple
a1`say ""hi""` , repeat BodyLength  leftPad ,}
root	packet u8x { f64 lengthOf
    @calculatedFrom(
""CRC32""	)
    ,
    string
zchar @lengthOf( int)
    `crlf
line` , int calculatedFrom , @lengthOf(As ) match falsey as asx {
65535: _x
    [ 1 ] :
    u 007:	uint8x
00:	f32a
, """ ++ [233]%N ++ runes_of_ascii "t" ++ [233]%N ++ runes_of_ascii """ :	Packet ,[ 42 ,""a\""b"" ] : len
    //x
    , } , @lengthOf(stringy
    // " ++ [128512]%N ++ runes_of_ascii " emoji
    )@calculatedFrom(  ""1"" )repeat A { char[]lengthOf  `it's` , }
, _x `" ++ [28040; 24687; 31867; 22411]%N ++ runes_of_ascii "` ,
    @leftPad ('0'
    ) match Foo as
crc {10 :
    trueish
// " ++ [27880; 37322]%N ++ runes_of_ascii "
//
, 42
:// " ++ [128512]%N ++ runes_of_ascii " emoji
Pad
, [4294967296
,  ""// no comment"" , ""{,}"" ]:
float
    ,  } , @lengthOf( u8x ) a1
// c
// trailing space 
@calculatedFrom( ""\" ++ [233]%N ++ runes_of_ascii """ ) // c
,} 	 ")).
Eval vm_compute in ("<<<M3602>>>" ++ check (runes_of_ascii "MetaData Logon {
    int x `u8 x,`,
    i16 calculatedFrom `say ""hi""`,
    trueish x_y_z `// not a comment`,
}

options {
    len = true;
}

packet crc {
    @lengthOf(matchKey)
    repeat body {
        uint64 chars,
        match Packet as float {
            ""// no comment"" : calculatedFrom,
        },
        u64 body,
        i8i8 lengthOf `doc`,
    },
    repeat o,
    match f32a as int {
        255 : u8x,
        ""x y"" : As,
        ""\" ++ [233]%N ++ runes_of_ascii """ : _x,
        0 : _x,
        ""1"" : uint8x,
    },
    match falsey as float {
        [""`tick`""] : string_,
        10 : u8x,
        """" : crc,
        /// triple
        0 : rootA,
        ""abc"" : i64_,
    },
    @rightPad(' ')
    repeat float32 o `// not a comment`,
    o As `a\`,
}")).
Eval vm_compute in ("<<<M4041>>>" ++ check (runes_of_ascii "
//x

packet Packet  {	}	// " ++ [128512]%N ++ runes_of_ascii " emoji
  packet
A {	@calculatedFrom(  ""a	b""

)  @tag( 
      // `tick` ""quote"" 'q'

00

    )
char[ 4294967296]

    u128	`` ,
	}  options
{
	lengthOf
	=

""" ++ [233]%N ++ runes_of_ascii "t" ++ [233]%N ++ runes_of_ascii """ 
;crc

    =	""CRC32"" ;
} packet

    crc

{ @tag(	255

    )
@rightPad
(  )	repeat 
        //
      Pad

,

zchar[ 3
	] charz
@lengthOf( zchar )`say ""hi""`, 
repeat 
Header
    string_``  // @lengthOf(
,len @calculatedFrom(
""`tick`""

) 
, 
@tag(

    65535
)
    match
chars
	as
msg_type{ 4294967296 :

    roots
, 
""" ++ [233]%N ++ runes_of_ascii "t" ++ [233]%N ++ runes_of_ascii """ :_x
    ,	""CRC32"" : leftPad,// packet A { u8 x, }
    42	: MetaDataX

, 
    // a // b
	// c
[
    ""a	b""]
: i64_/// triple
""`tick`"" :

MetaDataX ,
}	,
    }
")).
Eval vm_compute in ("<<<M193>>>" ++ check (runes_of_ascii "options {
// c
//x
u128 = true ; Header // trailing space 
= ""packet""
    stringy =""CRC32"" A =
    '0' ;} packet calculatedFrom  { repeat
u128
    Logon ,
// packet A { u8 x, }
// " ++ [128512]%N ++ runes_of_ascii " emoji
}
packet body { @calculatedFrom( ""\" ++ [233]%N ++ runes_of_ascii """
)
    metadata
`a\`  ,
// c
// c
stringy{
    //	t
    uint8 A `tab	here` , repeat
    u
    // `tick` ""quote"" 'q'
    As
, /// triple
zchar[
65535]x_y_z@lengthOf(
crc ) //
, }  , @calculatedFrom(
    ""{,}"" )len /// triple
@lengthOf(	roots ) ,char[  7 ]BodyLength`{ , }` ,
    // c
    int64
    _x , @calculatedFrom(""it's""// " ++ [27880; 37322]%N ++ runes_of_ascii "
) match
pack as As { ""CRC32"": o
    ,
    } , zchar[ 4294967296]i64_@calculatedFrom( ""// no comment"" ) ,
}
")).
Eval vm_compute in ("<<<M523>>>" ++ check (runes_of_ascii "packet zchar{
    i32 zchar @calculatedFrom( ""abc"") `a\` // c
,Pad Logon `tab	here`
// c
// a // b
,
// a // b
/// triple
@tag(
    /// triple
    0 ) Packet{
x_y_z
matchKey,
float64 Logon
@lengthOf( uint8x ) , } // c
,
packetx i64_ `" ++ [28040; 24687; 31867; 22411]%N ++ runes_of_ascii "` ,
    repeat char[] As	`two words`, } MetaData packetx{ options1 Z9_
`crlf
line` , char[] pack
//
// `tick` ""quote"" 'q'
,	string
charz
    `// not a comment`,
    /// triple
    char[]
string_
, // a // b
asx int //	t
`u8 x,` ,	} options
{
rootA =""a\\""
leftPad = ' ' ;
    leftPad= '\x00' ; }MetaData i8i8 { charz // trailing space 
zchar , string
    chars // c
, int8 repeatCount`it's` , }
")).
Eval vm_compute in ("<<<M1154>>>" ++ check (runes_of_ascii "// " ++ [27880; 37322]%N ++ runes_of_ascii "
packet
leftPad { // a // b
string As `{ , }`, char[
42 ] msg_type , @lengthOf( i8i8 ) match
Foo as matchKey //	t
{
1  :chars ,
65535 : o 7 :
    calculatedFrom , [65535,  7 , ""a	b""
    ] :int
, [
00 ,
0 , ""x y"" ,
    65535//	t
, """ ++ [128512]%N ++ runes_of_ascii """  ,007,
""it's"",
    """" ]
    :
Packet
, """" :	float ,}	,
u64 Logon
@calculatedFrom( """ ++ [128512]%N ++ runes_of_ascii """), @calculatedFrom(
""a	b"" ) pack {float32 charz
    `line1
line2` // `tick` ""quote"" 'q'
, } ,
} MetaData u128
    {	repeatCount
    len
`" ++ [233]%N ++ runes_of_ascii "`
, BodyLength//x
charz
, u8x trueish  `a\` ,Header msg_type
`line1
line2` ,
    string  stringy , // " ++ [128512]%N ++ runes_of_ascii " emoji
char[] u128
    `" ++ [233]%N ++ runes_of_ascii "`, }options { }")).
Eval vm_compute in ("<<<M1053>>>" ++ check (runes_of_ascii "//	t
packet len {repeat
Logon
    { i16 leftPad, }
    ,
@calculatedFrom( ""a\""b"" ) repeat/// triple
u16
// trailing space 
//x
u,
@calculatedFrom(
    // a // b
    ""abc""
)
Header `two words` , u8	pack@calculatedFrom(""" ++ [233]%N ++ runes_of_ascii "t" ++ [233]%N ++ runes_of_ascii """
    // " ++ [128512]%N ++ runes_of_ascii " emoji
    )  , } // @lengthOf(
packet string_
{ stringy @calculatedFrom( // " ++ [128512]%N ++ runes_of_ascii " emoji
""it's"" )
    ,	}packet
chars
{
    // `tick` ""quote"" 'q'
    match
matchKey as _x
{
    ""abc"" :
Packet// " ++ [128512]%N ++ runes_of_ascii " emoji
} , // @lengthOf(
char Foo `doc` ,match
    charz as
    Foo
    {[ 1  , ""\" ++ [233]%N ++ runes_of_ascii """ ]	: Logon ,}	,@lengthOf(
pack)/// triple
Packet ,	} // a // b")).
Eval vm_compute in ("<<<M3775>>>" ++ check (runes_of_ascii "//	t
packet len {
    repeat Logon {
        i16 leftPad,
    },
    @calculatedFrom(""a\""b"")
    repeat u16 u,
    @calculatedFrom(""abc"")
    Header `two words`,
    u8 pack @calculatedFrom(""" ++ [233]%N ++ runes_of_ascii "t" ++ [233]%N ++ runes_of_ascii """),
}// @lengthOf(

packet string_ {
    stringy @calculatedFrom(""it's""),
}

packet chars {
    // `tick` ""quote"" 'q'
    match matchKey as _x {
        ""abc"" : Packet,
        // " ++ [128512]%N ++ runes_of_ascii " emoji
    },// @lengthOf(
    char Foo `doc`,
    match charz as Foo {
        [1, ""\" ++ [233]%N ++ runes_of_ascii """] : Logon,
    },
    @lengthOf(pack)
    /// triple
    Packet,
}// a // b")).
Eval vm_compute in ("<<<M1181>>>" ++ check (runes_of_ascii "  options
{	Z9_ = ""// no comment"" Foo
= ""\n""
    // c
    i64_
    = false _x = """ ++ [128512]%N ++ runes_of_ascii """ ; }packet pack { zchar[4294967296 ] float@lengthOf(repeatCount ) , match //x
Header as len{ [""`tick`"" ] :charz ""it's"": MetaDataX ""it's"" : string_,[	""a	b"" , ""\n"",	1 ]
    : zchar} , } packet uint8x // trailing space 
{ @tag(
007)repeat
    calculatedFrom  `two words`// c
,} packet uint8x {
i16
    trueish @lengthOf( Z9_) // " ++ [27880; 37322]%N ++ runes_of_ascii "
, @calculatedFrom(""a\""b""
    )@lengthOf(u8x ) roots , uint64 chars@lengthOf(tag )//
`` , }
")).
Eval vm_compute in ("<<<M3586>>>" ++ check (runes_of_ascii "
// top
		packet 	 // c0a
	// c0b
B	// c1
      {  // c2a
  // c2b
  u8 	 // c3
		a  // c4a
  // c4b
	,
    // c5
}	// c6

  root
    packet
P 	 // c9
    {  u8 	 // c11
	K // c12a
  // c12b
	,	// c13
    match 
// c14
  K  
  // c15
    as

Body 	 // c17a
	  // c17b
  { 
// c18
	1 
    // c19
  :B  // c21
  	,}
    // c23
		,  u16 // c25
	  L	@lengthOf(	// c27a
      // c27b
      Body  // c28a

  // c28b
	)	// c29
  ,  // c30a
	// c30b
	}	// c31a
	// c31b
")).
Eval vm_compute in ("<<<M4340>>>" ++ check (runes_of_ascii "root packet i64_ {
    packetx {
        string zchar @calculatedFrom(""`tick`"") `
                `,
        zchar[1] metadata `doc`,
        Foo @calculatedFrom(""CRC32""),
    },
    char[] roots `crlf
        line`,
    @calculatedFrom(""it's"")
    char rootA,
    @tag(7)
    charz o `it's`,// a // b
    char[007] msg_type @lengthOf(x_y_z),
    repeat zchar[007] repeatCount `say ""hi""`,
    match i64_ as rootA {
        [""abc""] : T,
    },
    repeat chars,
}")).
Eval vm_compute in ("<<<M1355>>>" ++ check (runes_of_ascii "
MetaData asx// @lengthOf(
{
// " ++ [27880; 37322]%N ++ runes_of_ascii "
// `tick` ""quote"" 'q'
string roots
    `line1
line2` ,}
    // `tick` ""quote"" 'q'
    packet a1  {  repeat x
`" ++ [28040; 24687; 31867; 22411]%N ++ runes_of_ascii "`,}
    MetaData pack {int rootA	`" ++ [233]%N ++ runes_of_ascii "`	,
repeatCount
    i8i8 , char[]
    a1
    , int16/// triple
zchar // a // b
, int32
    falsey ,/// triple
a1
    matchKey `it's` , }
MetaData  u128 { int8 A
`" ++ [28040; 24687; 31867; 22411]%N ++ runes_of_ascii "`
,
} options{ rootA =	uint8	; u8x	=
'0'
    //
    ;o
= int32  ; MetaDataX = """ ++ [128512]%N ++ runes_of_ascii """ ; Pad = true }
")).
Eval vm_compute in ("<<<M439>>>" ++ check (runes_of_ascii "MetaData
/// triple
//	t
matchKey {
    MetaDataX
trueish `say ""hi""` , char[] stringy `u8 x,` ,
}
    /// triple
    packet
zchar {
u64 a1
,
@leftPad  (
    )match zchar as MetaDataX//
{
//
// `tick` ""quote"" 'q'
""a\\"" : x_y_z} , @leftPad ('\x00'
)
match lengthOf as _x
    // " ++ [27880; 37322]%N ++ runes_of_ascii "
    {
7:  leftPad , } ,//
@calculatedFrom(""" ++ [28040; 24687]%N ++ runes_of_ascii """ )	@lengthOf(
crc
)
//x
//
match BodyLength as calculatedFrom  {
255: x_y_z ""// no comment""
:T }, }
")).
Eval vm_compute in ("<<<M595>>>" ++ check (runes_of_ascii "root packet
    body { // `tick` ""quote"" 'q'
x_y_z @calculatedFrom(
""\" ++ [233]%N ++ runes_of_ascii """  ) `" ++ [233]%N ++ runes_of_ascii "` ,
@lengthOf( stringy ) asx `crlf
line` , @calculatedFrom(""{,}"")	float { repeat chars `doc` ,
} , }root
    // packet A { u8 x, }
    packet trueish // " ++ [27880; 37322]%N ++ runes_of_ascii "
{ uint8x `tab	here`
    , @calculatedFrom(
    ""it's"" )
    u16 trueish `{ , }`
, @lengthOf( // " ++ [128512]%N ++ runes_of_ascii " emoji
stringy )
i8i8{ u16 MetaDataX``, string matchKey ,
    //	t
    }  ,}
")).
Eval vm_compute in ("<<<M3938>>>" ++ check (runes_of_ascii "options {
    chars = '\x00'
    metadata = true;
    x_y_z = string;
    // trailing space 
}

packet Logon {
    repeat char[10] packetx `" ++ [28040; 24687; 31867; 22411]%N ++ runes_of_ascii "`,
}

options {
    stringy = 4294967296
    As = ""x y"";
    f32a = ' ';
}

packet chars {
    @calculatedFrom(""x y"")
    packetx @calculatedFrom(""" ++ [128512]%N ++ runes_of_ascii """),
    i8i8 @lengthOf(u),
    @rightPad(' ')
    @lengthOf(msg_type)
    @lengthOf(Z9_)
    T stringy,
}")).
Eval vm_compute in ("<<<M1224>>>" ++ check (runes_of_ascii "root packet stringy{ repeat stringy
`
` , @rightPad
(
    '\x00')	repeat A `tab	here`
    ,@tag( 0)
@rightPad
( ) repeat As
u128 `tab	here`	,@calculatedFrom( ""CRC32"" ) string_	{ repeat i8 o  ,
zchar[ 42	]	stringy `doc`
,  char[]
int
    ,match trueish as zchar  { [
//
//	t
""" ++ [233]%N ++ runes_of_ascii "t" ++ [233]%N ++ runes_of_ascii """,
    3] :
asx,}	, } ,
    }
    options { roots =	65535  ;
    } MetaData float {  Foo f32a ,}
")).
Eval vm_compute in ("<<<M347>>>" ++ check (runes_of_ascii "MetaData packetx {
// `tick` ""quote"" 'q'
// `tick` ""quote"" 'q'
float64 _x , msg_type calculatedFrom // a // b
`say ""hi""`  , metadata Foo `a\` ,falsey asx `two words` , char[	4294967296 ]calculatedFrom ,
int32 options1 , }options {
crc
    =
    '\x00' ;
charz = ""it's"" ; BodyLength =
    ""\" ++ [233]%N ++ runes_of_ascii """ body =//
int8
    ; }
MetaData len{
    char[ 42 ] Logon`tab	here`,	}")).
Eval vm_compute in ("<<<M1157>>>" ++ check (runes_of_ascii "MetaData
rootA
{ }
// a // b
// c
root
    packet i8i8 { roots	@lengthOf(
    // trailing space 
    metadata )
`a\` , @leftPad( ) @calculatedFrom( """ ++ [233]%N ++ runes_of_ascii "t" ++ [233]%N ++ runes_of_ascii """ ) @rightPad (
) repeat	Packet// " ++ [27880; 37322]%N ++ runes_of_ascii "
, @lengthOf(
falsey) f64 x
    , len @calculatedFrom( ""// no comment"" ) ,	@leftPad (  )
    Pad { int64
    stringy // a // b
``, i8 charz, Header x  , }	, }
")).
Eval vm_compute in ("<<<M45>>>" ++ check (runes_of_ascii "
packet stringy
{	falsey @lengthOf( MetaDataX )`crlf
line`
,match tag as uint8x{
""a\""b"" : charz
    , 00 :
    repeatCount , 10
: Header
    ""a	b""
    /// triple
    : Pad
,65535
    :
metadata
    ,
},
    @calculatedFrom( ""a\""b""
    )
    //x
    char[
    255 ]falsey , x_y_z
@calculatedFrom(  ""packet"")
    `tab	here` , }
")).
Eval vm_compute in ("<<<M4289>>>" ++ check (runes_of_ascii "

  packet
calculatedFrom	{ Logon o,
	}	// packet A { u8 x, }
	MetaData
As 
    // a // b
  // " ++ [27880; 37322]%N ++ runes_of_ascii "
{uint32 repeatCount `{ , }`  ,zchar[

/// triple
    00

]
    T `say ""hi""` ,	zchar[ 1 
] float `two words`
, char[
42	]

    stringy
`// not a comment`
	, zchar[  007]
	chars	`tab	here`

,

    int16 
stringy, 
}

")).
Eval vm_compute in ("<<<M4333>>>" ++ check (runes_of_ascii "root
	packet

    Foo// " ++ [128512]%N ++ runes_of_ascii " emoji
    {
    }
options	{ 
  // a // b
  tag  // `tick` ""quote"" 'q'
    =//	t
""""
    ;
u8x  =	zchar[  0

    ] }MetaData

int

    {
zchar[	10 ]lengthOf
	``
,i64 u8x,  MetaDataX 
pack// `tick` ""quote"" 'q'
`crlf
line` ,Logon charz
	`crlf
line`

, 
    // a // b
    	}
")).
Eval vm_compute in ("<<<M1585>>>" ++ check (runes_of_ascii "root packet Foo // " ++ [128512]%N ++ runes_of_ascii " emoji
{ } options {
    // a // b
    tag // `tick` ""quote"" 'q'
= //	t
""""
    ; u8x = zchar[0  ] }
MetaData
    int {zchar[ 10]
lengthOf	`` , i64 u8x`// not a comment` ,MetaDataX pack// `tick` ""quote"" 'q'
`crlf
line`
, Logon charz charz `crlf
line`
    ,
    // a // b
    }
")).
Eval vm_compute in ("<<<M4061>>>" ++ check (runes_of_ascii "root packet string_ {
    zchar[1] stringy @lengthOf(charz) `u8 x,`,
    repeat falsey {
        i8 u128 @lengthOf(u128) `line1
        line2`,
        float @calculatedFrom(""a	b""),
        chars,
        char[0] Header,
    },
    i8i8 `// not a comment`,//
}

packet T {
    repeat lengthOf,
}")).
Eval vm_compute in ("<<<M1501>>>" ++ check (runes_of_ascii "root packet Foo // " ++ [128512]%N ++ runes_of_ascii " emoji
{ } options {
    // a // b
    tag // `tick` ""quote"" 'q'
= //	t
""""
    ; u8x = zchar[0  ] }
MetaData
    { int zchar[ 10]
lengthOf	`` , i64 u8x`// not a comment` ,MetaDataX pack// `tick` ""quote"" 'q'
`crlf
line`
, Logon charz `crlf
line`
    ,
    // a // b
    }
")).
Eval vm_compute in ("<<<M1516>>>" ++ check (runes_of_ascii "root packet Foo // " ++ [128512]%N ++ runes_of_ascii " emoji
{ } options {
    // a // b
    tag // `tick` ""quote"" 'q'
= //	t
""""
    ; u8x = zchar[0  ] }
MetaData
    int {zchar[ ]10
lengthOf	`` , i64 u8x`// not a comment` ,MetaDataX pack// `tick` ""quote"" 'q'
`crlf
line`
, Logon charz `crlf
line`
    ,
    // a // b
    }
")).
Eval vm_compute in ("<<<M1504>>>" ++ check (runes_of_ascii "root packet Foo // " ++ [128512]%N ++ runes_of_ascii " emoji
{ } options {
    // a // b
    tag // `tick` ""quote"" 'q'
= //	t
""""
    ; u8x = zchar[0  ] }
MetaData
    int zchar[ 10]
lengthOf	`` , i64 u8x`// not a comment` ,MetaDataX pack// `tick` ""quote"" 'q'
`crlf
line`
, Logon charz `crlf
line`
    ,
    // a // b
    }
")).
Eval vm_compute in ("<<<M1410>>>" ++ check (runes_of_ascii " packet Foo // " ++ [128512]%N ++ runes_of_ascii " emoji
{ } options {
    // a // b
    tag // `tick` ""quote"" 'q'
= //	t
""""
    ; u8x = zchar[0  ] }
MetaData
    int {zchar[ 10]
lengthOf	`` , i64 u8x`// not a comment` ,MetaDataX pack// `tick` ""quote"" 'q'
`crlf
line`
, Logon charz `crlf
line`
    ,
    // a // b
    }
")).
Eval vm_compute in ("<<<M1559>>>" ++ check (runes_of_ascii "root packet Foo // " ++ [128512]%N ++ runes_of_ascii " emoji
{ } options {
    // a // b
    tag // `tick` ""quote"" 'q'
= //	t
""""
    ; u8x = zchar[0  ] }
MetaData
    int {zchar[ 10]
lengthOf	`` , i64 u8x`// not a comment` , pack// `tick` ""quote"" 'q'
`crlf
line`
, Logon charz `crlf
line`
    ,
    // a // b
    }
")).
Eval vm_compute in ("<<<M4123>>>" ++ check (runes_of_ascii "packet stringy {
    @lengthOf(Packet)
    lengthOf @calculatedFrom(""it's""),
}

MetaData x_y_z {
    asx rootA `it's`,
    float32 trueish,
    o Packet,
}

options {
    leftPad = true;
    len = 7;
    Pad = 42;
    chars = 65535;
    A = 4294967296
}

MetaData int {
}")).
Eval vm_compute in ("<<<M274>>>" ++ check (runes_of_ascii "packet falsey
    { //	t
_x { T@calculatedFrom(
""" ++ [28040; 24687]%N ++ runes_of_ascii """
),int64 roots , match
    float as a1 { 1//	t
:falsey  , [
    // c
    ""CRC32""  ,""a\""b"" ,
    255 , 65535 , 42	,0123456789]
:
pack
, }, } , pack
    { falsey//x
, } , packetx // packet A { u8 x, }
, }
")).
Eval vm_compute in ("<<<M4184>>>" ++ check (runes_of_ascii "packet

    zchar

    // @lengthOf(
  {
    @tag(

    255
)	match
	u128  as
	roots  {
0123456789

://x
u }
,zchar[ 
4294967296	]
    charz // " ++ [128512]%N ++ runes_of_ascii " emoji

  `tab	here`, 	 // " ++ [27880; 37322]%N ++ runes_of_ascii "
match uint8x

    as 
leftPad{

10
:

    _x  //x
  	,
    }

,	}")).
Eval vm_compute in ("<<<M82>>>" ++ check (runes_of_ascii "packet
x { char matchKey
    @lengthOf( x_y_z ) //
, }packet	trueish  {
    @tag( 255
    )
char calculatedFrom @lengthOf( Header ) , }
    MetaData options1
    // trailing space 
    { }
packet MetaDataX {
    }
    packet trueish{	}")).
Eval vm_compute in ("<<<M3334>>>" ++ check (runes_of_ascii "// top
packet // c0
calculatedFrom // c1
{ // c2
@tag( // c3
4294967296 // c4
) // c5
u // c6
msg_type // c7
, // c8
char[ // c9
3 // c10
] // c11
crc // c12
@lengthOf( // c13
len // c14
) // c15
`u8 x,` // c16
, // c17
} // c18
")).
Eval vm_compute in ("<<<M1246>>>" ++ check (runes_of_ascii "root
    //
    packet Foo {float32 Logon `doc` , } MetaData x_y_z
    // `tick` ""quote"" 'q'
    { Header
Z9_ `line1
line2`  , o crc ,// " ++ [27880; 37322]%N ++ runes_of_ascii "
string //x
Header , _x packetx`say ""hi""`,} packet stringy {
uint8 i64_ ,
    }

")).
Eval vm_compute in ("<<<M2382>>>" ++ check (runes_of_ascii "MetaData Packet { }packet	asx  { @lengthOf( asx) falsey`crlf
line`
,
    }
    pac'1'ket x	{uint32// @lengthOf(
rootA	,u32 options1 `say ""hi""` , @tag( 7
    )// packet A { u8 x, }
msg_type @lengthOf(
stringy	)	, }

")).
Eval vm_compute in ("<<<M2380>>>" ++ check (runes_of_ascii "MetaData Packet { }packet	asx  { @lengthOf( asx) falsey`crlf
line`
,
    }
    packet x	{uint32// @lengthOf(
rootA	,u32 options1 `say ""hi""` `, @tag( 7
    )// packet A { u8 x, }
msg_type @lengthOf(
stringy	)	, }

")).
Eval vm_compute in ("<<<M2317>>>" ++ check (runes_of_ascii "MetaData Packet { }packet	asx  { @lengthOf( asx) falsey`crlf
line`
,
    }
    packet x	{uint32// @lengthOf(
rootA	,u32 `say ""hi""` options1 , @tag( 7
    )// packet A { u8 x, }
msg_type @lengthOf(
stringy	)	, }

")).
Eval vm_compute in ("<<<M2370>>>" ++ check (runes_of_ascii "MetaData Packet { }packet	asx  { @lengthOf( asx) falsey`crlf
line`
,
    }
    packet x	{uint32// @lengthOf(
rootA	,u32 options1 `say ""hi""` , @tag( 7
    )// packet A { u8 x, }
msg_type @lengthOf(
stringy	)	, 

")).
Eval vm_compute in ("<<<M2295>>>" ++ check (runes_of_ascii "MetaData Packet { }packet	asx  { @lengthOf( asx) falsey`crlf
line`
,
    }
    packet x	{// @lengthOf(
rootA	,u32 options1 `say ""hi""` , @tag( 7
    )// packet A { u8 x, }
msg_type @lengthOf(
stringy	)	, }

")).
Eval vm_compute in ("<<<M221>>>" ++ check (runes_of_ascii "options{ len = // " ++ [27880; 37322]%N ++ runes_of_ascii "
true
    ;
MetaDataX = zchar[ 00//
] lengthOf =  '0'; Pad	=""packet""  ; x_y_z
    // a // b
    = ""a\""b""; } packet calculatedFrom{
repeat
matchKey // packet A { u8 x, }
Foo
,
    }
")).
Eval vm_compute in ("<<<M3428>>>" ++ check (runes_of_ascii "packet Inner { u8 a
    // c4
,
    // c5
}
    // c6
root // c7a
  // c7b
packet // c8a
  // c8b
P // c9a
  // c9b
{
    // c10
repeat Inner items ,
    // c14
u8 // c15
x
    // c16
, // c17
} ")).
Eval vm_compute in ("<<<M1286>>>" ++ check (runes_of_ascii "root packet
BodyLength { } options
    { A = true ;
    //	t
    Packet =
    i32 A =//x
char[] }
    packet
    Z9_ { }
root packet f32a
{
    //x
    chars
    // a // b
    float ,	}
")).
Eval vm_compute in ("<<<M911>>>" ++ check (runes_of_ascii "MetaData leftPad	{ char[] x_y_z `say ""hi""` , }  options { string_
    // " ++ [128512]%N ++ runes_of_ascii " emoji
    = ""CRC32""
} options {_x = ""1"" ;Header= f64; }packet lengthOf
{ }	packet x_y_z
{
//x
// " ++ [27880; 37322]%N ++ runes_of_ascii "
} //")).
Eval vm_compute in ("<<<M605>>>" ++ check (runes_of_ascii "packet lengthOf { @leftPad
('\x00'
    ) char[
4294967296]f32a , repeat char[] zchar ,
_x,// " ++ [27880; 37322]%N ++ runes_of_ascii "
leftPad zchar ,	A,	char[
// `tick` ""quote"" 'q'
// a // b
3]
u ,T `it's`	,}")).
Eval vm_compute in ("<<<M370>>>" ++ check (runes_of_ascii "packet
    rootA // packet A { u8 x, }
{ tag
`u8 x,`
, char[]	o	,
    i8i8	@lengthOf(
    // @lengthOf(
    stringy ) `// not a comment`
    ,
    // " ++ [128512]%N ++ runes_of_ascii " emoji
    }
")).
Eval vm_compute in ("<<<M602>>>" ++ check (runes_of_ascii "MetaData len{ uint16
    packetx
,
i64 Header , f64 x_y_z`two words`, // c
MetaDataX
Packet ,
trueish int ,int32
    trueish ,
    // " ++ [27880; 37322]%N ++ runes_of_ascii "
    }
packet u8x {}
")).
Eval vm_compute in ("<<<M1144>>>" ++ check (runes_of_ascii "packet f32a {
@calculatedFrom(	""\" ++ [233]%N ++ runes_of_ascii """ )@calculatedFrom(""" ++ [128512]%N ++ runes_of_ascii """ )
@lengthOf( int ) u8x @calculatedFrom( ""\" ++ [233]%N ++ runes_of_ascii """),
float32
    leftPad`doc` ,
crc MetaDataX `" ++ [233]%N ++ runes_of_ascii "`, }")).
Eval vm_compute in ("<<<M4109>>>" ++ check (runes_of_ascii "root packet stringy {
    @tag(7)
    @tag(1)
    @rightPad('\x00')
    Foo x `crlf
        line`,
    @calculatedFrom(""a	b"")
    roots `it's`,
}")).
Eval vm_compute in ("<<<M877>>>" ++ check (runes_of_ascii "MetaData float {i64_ Z9_`tab	here` ,
    pack// " ++ [27880; 37322]%N ++ runes_of_ascii "
falsey, uint8x float ,// c
zchar[ 4294967296
] x_y_z , int16 chars`" ++ [233]%N ++ runes_of_ascii "`,
x_y_z stringy , }")).
Eval vm_compute in ("<<<M3419>>>" ++ check (runes_of_ascii "// top
root // c0
packet P
    // c2
{ // c3
repeat
    // c4
char cs
    // c6
, u8 x // c9a
  // c9b
, // c10a
  // c10b
}
    // c11
")).
Eval vm_compute in ("<<<M4364>>>" ++ check (runes_of_ascii "
MetaData
	u128
	{  char[ 255

]
	_x
	`{ , }`
, string leftPad

,u8 A
    ,	zchar[ 0123456789 ] Foo

    , char[] 
As `{ , }` ,}
")).
Eval vm_compute in ("<<<M1713>>>" ++ check (runes_of_ascii "root packet /// triple
rootA {	i32
MetaDataX@calculatedFrom( ""CRC32"" ) `line1
line2` , } MetaData BodyLength {
u8
rootA, } } // c")).
Eval vm_compute in ("<<<M1684>>>" ++ check (runes_of_ascii "root packet /// triple
rootA {	i32
MetaDataX@calculatedFrom( ""CRC32"" ) `line1
line2` , } BodyLength MetaData {
u8
rootA, } // c")).
Eval vm_compute in ("<<<M4252>>>" ++ check (runes_of_ascii "options { BodyLength
=
    '\x00' }
	options
{ }options{  Pad =

""\" ++ [233]%N ++ runes_of_ascii """msg_type 
= uint32

    ;
	a1 ='0'Foo
	=' '
;

    }
")).
Eval vm_compute in ("<<<M392>>>" ++ check (runes_of_ascii "root packet
roots {
    BodyLength asx
    ,a1//
,@tag(7
    )zchar[
42 ]
BodyLength , // " ++ [27880; 37322]%N ++ runes_of_ascii "
x_y_z `u8 x,`
,f64 packetx ,}")).
Eval vm_compute in ("<<<M1737>>>" ++ check (runes_of_ascii "root packet /// triple
rootA {	i32
MetaDataX@calculatedFrom( ""CRC32"" ) `line1
line2` , } MetaData a" ++ [769]%N ++ runes_of_ascii "b {
u8
rootA, } // c")).
Eval vm_compute in ("<<<M1791>>>" ++ check (runes_of_ascii "packet
    Pad // a // b
{ { i8i8 @calculatedFrom( ""a	b"") `u8 x,` ,
} options{ float// " ++ [128512]%N ++ runes_of_ascii " emoji
= f64 i64_
=//	t
00 }
")).
Eval vm_compute in ("<<<M2314>>>" ++ check (runes_of_ascii "MetaData Packet { }packet	asx  { @lengthOf( asx) falsey`crlf
line`
,
    }
    packet x	{uint32// @lengthOf(
rootA	,")).
Eval vm_compute in ("<<<M1862>>>" ++ check (runes_of_ascii "packet
    Pad // a // b
{ i8i8 @calculatedFrom( ""a	b"") `u8 x,` ,
} options{ float// " ++ [128512]%N ++ runes_of_ascii " emoji
= f64 i64_
00//	t
= }
")).
Eval vm_compute in ("<<<M1667>>>" ++ check (runes_of_ascii "root packet /// triple
rootA {	i32
MetaDataX@calculatedFrom( ""CRC32"" )  , } MetaData BodyLength {
u8
rootA, } // c")).
Eval vm_compute in ("<<<M1652>>>" ++ check (runes_of_ascii "root packet /// triple
rootA {	i32
MetaDataX ""CRC32"" ) `line1
line2` , } MetaData BodyLength {
u8
rootA, } // c")).
Eval vm_compute in ("<<<M3588>>>" ++ check (runes_of_ascii "MetaData 
        // a // b
//	t
    rootA
    {  }
	options	//
{
	tag // `tick` ""quote"" 'q'

  =
    3 ;
}")).
Eval vm_compute in ("<<<M1194>>>" ++ check (runes_of_ascii "//	t
options
    { // c
}MetaData asx
{float64 x_y_z
,
}  options	{// packet A { u8 x, }
stringy = '0' ;
}")).
Eval vm_compute in ("<<<M4036>>>" ++ check (runes_of_ascii "options {
    // c
    matchKey = ""a\""b"";
    a1 = uint16
    charz = char[]
    a1 = u8;
    As = 00;
}")).
Eval vm_compute in ("<<<M3359>>>" ++ check (runes_of_ascii "packet calculatedFrom { @tag( 4294967296 ) u msg_type , char[ 3 // c
] crc @lengthOf( len ) `u8 x,` , }")).
Eval vm_compute in ("<<<M1800>>>" ++ check (runes_of_ascii "packet
    Pad // a // b
{ i8i8  ""a	b"") `u8 x,` ,
} options{ float// " ++ [128512]%N ++ runes_of_ascii " emoji
= f64 i64_
=//	t
00 }
")).
Eval vm_compute in ("<<<M2984>>>" ++ check (runes_of_ascii "packet A {
  match k as n {
    [1, 22, ""c c"", 4, 5, ""f"", 7, 8, ""i"", 10, 11] : B,
    2 : C
  },
}")).
Eval vm_compute in ("<<<M6>>>" ++ check (runes_of_ascii "MetaData metadata{
leftPad i64_ ,
    // " ++ [128512]%N ++ runes_of_ascii " emoji
    u8
    stringy `
` , char[] trueish , }
")).
Eval vm_compute in ("<<<M3235>>>" ++ check (runes_of_ascii "packet Logon { @tag( 42 ) @rightPad ( ' ' )
// c
@leftPad ( ) repeat trueish { string T , } , }")).
Eval vm_compute in ("<<<M2035>>>" ++ check (runes_of_ascii "root
packet crc
    { f32a @c@lengthOfalculatedFrom( """ ++ [233]%N ++ runes_of_ascii "t" ++ [233]%N ++ runes_of_ascii """ )
    `say ""hi""`, lengthOf `` ,  }")).
Eval vm_compute in ("<<<M339>>>" ++ check (runes_of_ascii "MetaData Z9_ {
//	t
// " ++ [27880; 37322]%N ++ runes_of_ascii "
u128 Foo  , lengthOf uint8x
    // " ++ [128512]%N ++ runes_of_ascii " emoji
    `say ""hi""` ,
    }")).
Eval vm_compute in ("<<<M2934>>>" ++ check (runes_of_ascii "packet A {
  match k as n {
    [""a"", ""bb"", 007, ""d"", ""e"", 66, ""g""] : B,
    2 : C
  },
}")).
Eval vm_compute in ("<<<M2769>>>" ++ check (runes_of_ascii "`// not a comment` { lengthOf float64 f64 false int32 repeat char[] match u64 @rightPad")).
Eval vm_compute in ("<<<M3580>>>" ++ check (runes_of_ascii "packet A {
    Inner {
        match k as n {
            [1] : B,
        },
    },
}")).
Eval vm_compute in ("<<<M1409>>>" ++ check (runes_of_ascii "root packet SimpleMessage {
	uint16 MsgType `" ++ [28040; 24687; 31867; 22411]%N ++ runes_of_ascii "`,
	string JsonBody `Json" ++ [23383; 31526; 20018; 28040; 24687; 20307]%N ++ runes_of_ascii "`,
}")).
Eval vm_compute in ("<<<M177>>>" ++ check (runes_of_ascii "MetaData Header
{ trueish u8x , zchar[ 42 ] Packet
    , char asx	,// @lengthOf(
}")).
Eval vm_compute in ("<<<M3302>>>" ++ check (runes_of_ascii "packet o { @tag( 42 // c
) repeat x { char[ 0123456789 ] i64_ , } , } options { }")).
Eval vm_compute in ("<<<M3948>>>" ++ check (runes_of_ascii "packet A {
    match k as n {
        [1, 22, ""c c""] : B,
        2 : C,
    },
}")).
Eval vm_compute in ("<<<M3427>>>" ++ check (runes_of_ascii "packet Inner {
    u8 a,
}
root packet P {
    repeat Inner items,
    u8 x,
}
")).
Eval vm_compute in ("<<<M201>>>" ++ check (runes_of_ascii "packet A { Logon {
    repeat  char[ 42 ]falsey `a\`  ,repeat int32 T , } ,}")).
Eval vm_compute in ("<<<M2172>>>" ++ check (runes_of_ascii "root
    // `tick` ""quote"" 'q'
    packet As { trueish trueish Packet , }
")).
Eval vm_compute in ("<<<M3045>>>" ++ check (runes_of_ascii "packet A {
    B b `tab
	x`,
    B `tab
	x`,
    repeat B bs `tab
	x`,
}")).
Eval vm_compute in ("<<<M3393>>>" ++ check (runes_of_ascii "// c
MetaData _x { zchar[ 4294967296 ] lengthOf `// not a comment` , }")).
Eval vm_compute in ("<<<M2883>>>" ++ check (runes_of_ascii "packet A {
  match k as n {
    [""a"", ""bb"", 007] : B
    2 : C
  },
}")).
Eval vm_compute in ("<<<M4348>>>" ++ check (runes_of_ascii "  root 
    // `tick` ""quote"" 'q'
	packet As

{ 
Packet

    ,}
")).
Eval vm_compute in ("<<<M2835>>>" ++ check (runes_of_ascii "string , ( i16 @lengthOf( uint64 : string char[ repeat true zchar[")).
Eval vm_compute in ("<<<M2813>>>" ++ check (runes_of_ascii "msg_type ""// no comment"" u8 char[ ] string u64 f64 true } char[]")).
Eval vm_compute in ("<<<M4051>>>" ++ check (runes_of_ascii "

  // trailing space 
  packet chars	{string

    len
, }")).
Eval vm_compute in ("<<<M366>>>" ++ check (runes_of_ascii "
packet Logon{ match
    float as trueish { 3 : int } , }

")).
Eval vm_compute in ("<<<M744>>>" ++ check (runes_of_ascii "packet msg_type
    { zchar[00 ]
    _x
, } // @lengthOf(")).
Eval vm_compute in ("<<<M1948>>>" ++ check (runes_of_ascii "
packet	As { @calculatedFrom(//x
""{,}""	)lengthO" ++ [0]%N ++ runes_of_ascii "f , } 	 ")).
Eval vm_compute in ("<<<M2180>>>" ++ check (runes_of_ascii "root
    // `tick` ""quote"" 'q'
    packet As { trueish")).
Eval vm_compute in ("<<<M1918>>>" ++ check (runes_of_ascii "
packet	As { @calculatedFrom(//x
:	)lengthOf , } 	 ")).
Eval vm_compute in ("<<<M520>>>" ++ check (runes_of_ascii "MetaData	float
{
    //
    i8
T, } // @lengthOf(")).
Eval vm_compute in ("<<<M3158>>>" ++ check (runes_of_ascii "packet A {} packet B {} MetaData M {} options {}")).
Eval vm_compute in ("<<<M3901>>>" ++ check (runes_of_ascii "
MetaData
    M  {}  // c
MetaData N {
	}	// d
")).
Eval vm_compute in ("<<<M1758>>>" ++ check (runes_of_ascii "options { }options }  { // `tick` ""quote"" 'q'")).
Eval vm_compute in ("<<<M734>>>" ++ check (runes_of_ascii "//x
MetaData u{
    //
    int64 x_y_z , }
")).
Eval vm_compute in ("<<<M3959>>>" ++ check (runes_of_ascii "
options

    {
u8x =  3 

    // c
	}
")).
Eval vm_compute in ("<<<M1755>>>" ++ check (runes_of_ascii "options { }as {  } // `tick` ""quote"" 'q'")).
Eval vm_compute in ("<<<M3202>>>" ++ check (runes_of_ascii "MetaData zchar { zchar[ 3 ] Pad // c
, }")).
Eval vm_compute in ("<<<M1102>>>" ++ check (runes_of_ascii "options {int =//x
""\" ++ [233]%N ++ runes_of_ascii """ // " ++ [128512]%N ++ runes_of_ascii " emoji
} //")).
Eval vm_compute in ("<<<M992>>>" ++ check (runes_of_ascii "packet As {	repeat uint64
Foo
    , }")).
Eval vm_compute in ("<<<M3153>>>" ++ check (runes_of_ascii "options { a = 1 // c b = 2; // d}")).
Eval vm_compute in ("<<<M3013>>>" ++ check (runes_of_ascii "root packet A {
    u8 x `a
b`,
}")).
Eval vm_compute in ("<<<M2838>>>" ++ check (runes_of_ascii "mHV)h@t@{RF2uS0T]{?I<`nQp>O|RT0-")).
Eval vm_compute in ("<<<M1368>>>" ++ check (runes_of_ascii "// trailing space 
options {
}")).
Eval vm_compute in ("<<<M4393>>>" ++ check (runes_of_ascii "packet

chars{ repeat
pack ,}
")).
Eval vm_compute in ("<<<M2795>>>" ++ check (runes_of_ascii "<|FXC|?SbA8$TVGm\{-S%&F;R{X5")).
Eval vm_compute in ("<<<M4204>>>" ++ check (runes_of_ascii "packet A

    {  }// c" ++ [12]%N ++ runes_of_ascii "
")).
Eval vm_compute in ("<<<M642>>>" ++ check (runes_of_ascii "packet u{
    } // a // b")).
Eval vm_compute in ("<<<M746>>>" ++ check (runes_of_ascii "// a // b
 // @lengthOf(")).
Eval vm_compute in ("<<<M3383>>>" ++ check (runes_of_ascii "packet
// c
lengthOf { }")).
Eval vm_compute in ("<<<M4368>>>" ++ check (runes_of_ascii "packet lengthOf {
}// c")).
Eval vm_compute in ("<<<M2050>>>" ++ check (runes_of_ascii "@tag( A { u64 pack, }")).
Eval vm_compute in ("<<<M2664>>>" ++ check (runes_of_ascii "options { a = [1]; }")).
Eval vm_compute in ("<<<M3147>>>" ++ check (runes_of_ascii "// c x
packet A {
}")).
Eval vm_compute in ("<<<M3067>>>" ++ check (runes_of_ascii "// c" ++ [12288]%N ++ runes_of_ascii "
packet A {
}")).
Eval vm_compute in ("<<<M3168>>>" ++ check (runes_of_ascii "packet A { // a
 }")).
Eval vm_compute in ("<<<M3109>>>" ++ check (runes_of_ascii "packet A {
}// c" ++ [8287]%N)).
Eval vm_compute in ("<<<M1428>>>" ++ check (runes_of_ascii "root packet Foo")).
Eval vm_compute in ("<<<M2707>>>" ++ check ([65533; 65533; 65533; 65533; 65533; 18; 7; 65533]%N ++ runes_of_ascii "p" ++ [65533]%N ++ runes_of_ascii "e~" ++ [65533]%N)).
Eval vm_compute in ("<<<M1909>>>" ++ check (runes_of_ascii "
packet	As")).
Eval vm_compute in ("<<<M2843>>>" ++ check (runes_of_ascii "] repeat")).
Eval vm_compute in ("<<<M2470>>>" ++ check (runes_of_ascii "'\x00'")).
Eval vm_compute in ("<<<M2672>>>" ++ check (runes_of_ascii "u8 x,")).
Eval vm_compute in ("<<<M2446>>>" ++ check (runes_of_ascii "true")).
Eval vm_compute in ("<<<M2499>>>" ++ check (runes_of_ascii "//")).
Eval vm_compute in ("<<<M2504>>>" ++ check (runes_of_ascii """""")).
Eval vm_compute in ("<<<M2684>>>" ++ check ([65279]%N)).
