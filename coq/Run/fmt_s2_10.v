From FP Require Import Lexer Parser ShowPT Digest Formatter.
From Coq Require Import String List NArith.
Import ListNotations.
Open Scope string_scope.
Set Printing Width 100000000.
Set Printing Depth 100000000.
Definition show_fres (r : fres) : string :=
  match r with
  | FOk s => "OK:" ++ sh_escaped s ""
  | FErr s => "ERR:" ++ sh_escaped s ""
  | FPanic p => "PANIC:" ++ p
  end.
Definition check (rs : list rune) : string := digest (show_fres (format_res rs)).
Definition full (rs : list rune) : string := show_fres (format_res rs).
Eval vm_compute in ("<<<M4382>>>" ++ check (runes_of_ascii "packet
	float  {
repeat

matchKey, char[] 	 // " ++ [128512]%N ++ runes_of_ascii " emoji
      repeatCount

    `{ , }`
    , char[
00]  a1 , char[]roots
`" ++ [28040; 24687; 31867; 22411]%N ++ runes_of_ascii "`,@rightPad
(
'0'  )	repeatCount
    ,	match

    MetaDataX
as
	tag{

    ""`tick`""  :  tag  ,  [

""it's""	,	42] 
:
	asx 

// packet A { u8 x, }
  ,

    ""a	b""	:

    As 
65535
: calculatedFrom
	007:

    stringy ,007
	:	Packet // " ++ [128512]%N ++ runes_of_ascii " emoji
    , 
}
	,
char[  // " ++ [27880; 37322]%N ++ runes_of_ascii "

	0  ] //	t
    i8i8`a\`  , 
}
root packet chars 
{ @calculatedFrom(
""packet"") 	 // " ++ [27880; 37322]%N ++ runes_of_ascii "
i64_  string_
    ,
    match  Pad  // " ++ [128512]%N ++ runes_of_ascii " emoji
    	as MetaDataX
    {0123456789

:
repeatCount

    , [	""" ++ [128512]%N ++ runes_of_ascii """  ]:

    a1
,
[	""" ++ [233]%N ++ runes_of_ascii "t" ++ [233]%N ++ runes_of_ascii """
    , 
7 
,  //	t
""x y""

    ,00] : 
//

	// a // b
  int ,

    } , repeat  Foo
`say ""hi""`
	, @lengthOf(  As) u32 leftPad
@lengthOf(

zchar)  // a // b
    	, 
  // " ++ [128512]%N ++ runes_of_ascii " emoji
    	} // c
packet

    u128{	@calculatedFrom(	""`tick`""
    // packet A { u8 x, }
) 
float Z9_	``

,string packetx, 
    // @lengthOf(

	// packet A { u8 x, }

  @leftPad (  '\x00')
uint8
    metadata
,@leftPad

(
	)uint32 a1
`two words`
, 
@tag(
	0123456789  
  // packet A { u8 x, }
// packet A { u8 x, }
  	)
repeat	zchar[

    42

]  pack `two words`

,repeat

stringy	`line1
line2` ,
	uint8x`" ++ [233]%N ++ runes_of_ascii "`

    ,

falsey `say ""hi""`
    , } packet

    a1

{
uint16 float
,@lengthOf(
	string_
) char[
0123456789

    ]

BodyLength	@lengthOf(
	charz  /// triple
) 
      // `tick` ""quote"" 'q'
    `say ""hi""` , @rightPad (
'\x00'

    )
Z9_
@lengthOf( zchar
)
    ,

calculatedFrom@lengthOf(	pack

) `tab	here`
,
@lengthOf(

    MetaDataX)
	@calculatedFrom(
""abc"" )
@calculatedFrom(""a\\""
	)	match

falsey //
	as
    body	{ 	 // " ++ [27880; 37322]%N ++ runes_of_ascii "
	""a\""b"":	o	//x
	,
	255 :
uint8x	,[	// `tick` ""quote"" 'q'
    65535
] :BodyLength	}
	,/// triple
	char[]
    x_y_z 
, 	 // trailing space 
	@tag(  
  // trailing space 

  /// triple
0  )
    int16  x `crlf
line`

    ,
match

Foo as
zchar 
{

""" ++ [233]%N ++ runes_of_ascii "t" ++ [233]%N ++ runes_of_ascii """ :
u128 ,

    }
    , 
@lengthOf( x_y_z
    )

    As	@calculatedFrom( ""packet""
    ) 
, repeat

    Header
{	string_

    `{ , }` 
,
	match

chars
    as
    uint8x

{
	""it's"" : lengthOf	, [ ""\n"" , 3,
""CRC32""
    ,// a // b
  10 
        // " ++ [27880; 37322]%N ++ runes_of_ascii "
,
""" ++ [28040; 24687]%N ++ runes_of_ascii """
	]:
falsey }
,
	repeat
	char[]	o 
`
`

,
i32	len
    @calculatedFrom(
""" ++ [233]%N ++ runes_of_ascii "t" ++ [233]%N ++ runes_of_ascii """  ) `" ++ [28040; 24687; 31867; 22411]%N ++ runes_of_ascii "`	,
}  // trailing space 

	,// " ++ [27880; 37322]%N ++ runes_of_ascii "
}
")).
Eval vm_compute in ("<<<M1238>>>" ++ check (runes_of_ascii "// " ++ [27880; 37322]%N ++ runes_of_ascii "
packet A	{@calculatedFrom(
    ""a	b"" ) u128 @lengthOf( asx /// triple
)
    `doc` , // `tick` ""quote"" 'q'
charz
    @lengthOf( repeatCount  ), i8 metadata @lengthOf( body )
    `{ , }` ,
@tag(
    // `tick` ""quote"" 'q'
    0123456789
    ) repeat
x_y_z lengthOf
, @calculatedFrom(""{,}"" ) options1 { match metadata
as chars  {""// no comment"": matchKey ,} , } , Z9_
// trailing space 
// @lengthOf(
`` , repeat i64_``,  @tag( 42) uint8	chars @calculatedFrom(""abc"" ) , }MetaData charz
{ char[]Packet
, i64 string_
    `{ , }` , // " ++ [128512]%N ++ runes_of_ascii " emoji
int64 a1`tab	here`, }
packet
    matchKey//	t
{
    repeat x {string
    // c
    Logon`doc`
    , } ,repeat
u32// trailing space 
chars
    ,@calculatedFrom( // c
""`tick`"") o falsey `say ""hi""` ,zchar[	007  ]string_ @lengthOf(Header ) `line1
line2`
    // trailing space 
    ,match  x as uint8x {1 //
:a1  ,  [ ""a	b"" , 42 ,
65535 ]
: T ,
""" ++ [28040; 24687]%N ++ runes_of_ascii """ : metadata
// packet A { u8 x, }
// c
, }
    , match Z9_
as	msg_type // a // b
{ 65535: //	t
u ,[
// " ++ [128512]%N ++ runes_of_ascii " emoji
// c
7 ,
    7// trailing space 
, 42
,""" ++ [28040; 24687]%N ++ runes_of_ascii """ ]
    :
asx ,""" ++ [233]%N ++ runes_of_ascii "t" ++ [233]%N ++ runes_of_ascii """ : _x,[
// `tick` ""quote"" 'q'
// " ++ [27880; 37322]%N ++ runes_of_ascii "
255 ] : metadata , }// `tick` ""quote"" 'q'
, float32 len	, repeat
    len , @tag( 007
    ) repeat f64
pack
    // trailing space 
    ,
} packet stringy
    {
// trailing space 
// packet A { u8 x, }
@lengthOf(As
    ) @calculatedFrom(  ""\" ++ [233]%N ++ runes_of_ascii """ )@tag(
7 ) u8 x_y_z@lengthOf( pack
) `crlf
line` ,
uint8 chars `doc`
,
@calculatedFrom(""CRC32""	)
@leftPad ( '0'	)
    // @lengthOf(
    @lengthOf(  leftPad ) match packetx
// @lengthOf(
// " ++ [128512]%N ++ runes_of_ascii " emoji
as
float	{[ ""// no comment"" ,
007 ] :msg_type
    , //	t
1 // packet A { u8 x, }
:
    rootA
, 7 : lengthOf // " ++ [128512]%N ++ runes_of_ascii " emoji
,	[ // a // b
""" ++ [128512]%N ++ runes_of_ascii """ ] :
x , [ //
42  , // `tick` ""quote"" 'q'
65535 ]:// " ++ [27880; 37322]%N ++ runes_of_ascii "
falsey ,// " ++ [27880; 37322]%N ++ runes_of_ascii "
}
//	t
// packet A { u8 x, }
, char[1 ] lengthOf @lengthOf(metadata	),u8 crc @calculatedFrom(
""" ++ [128512]%N ++ runes_of_ascii """
) `say ""hi""` , }
")).
Eval vm_compute in ("<<<M1006>>>" ++ check (runes_of_ascii "root packet len
    { @lengthOf(
// " ++ [128512]%N ++ runes_of_ascii " emoji
//	t
A ) repeat u64 packetx
,@calculatedFrom( ""a	b"" ) repeat charz { BodyLength calculatedFrom,
    leftPad // " ++ [128512]%N ++ runes_of_ascii " emoji
`it's` ,
int32 // `tick` ""quote"" 'q'
msg_type// " ++ [27880; 37322]%N ++ runes_of_ascii "
, float64 i64_ , } ,
    // c
    string
    MetaDataX
@lengthOf(roots )
, @lengthOf( len )
@lengthOf( Logon )
// " ++ [128512]%N ++ runes_of_ascii " emoji
// @lengthOf(
calculatedFrom @calculatedFrom( ""// no comment"" ) , zchar[3
// a // b
//	t
] MetaDataX@calculatedFrom( ""it's""
    ) `a\`
,@leftPad//
('0' )match//
Foo as
As { [ ""{,}"" , 255
] : metadata , ""{,}"":
Header,
    // trailing space 
    [""\n"" ] : stringy , ""a	b"" : x ,} // `tick` ""quote"" 'q'
, @tag( 0123456789
    // packet A { u8 x, }
    ) Foo  {	char[ 0 ]// @lengthOf(
rootA
, },
    // packet A { u8 x, }
    i64_
leftPad
`a\` ,string A , match BodyLength as float  {
7 : MetaDataX , 007:
    int,  }
,
    } MetaData
    crc{ u8 o `crlf
line` ,	} // " ++ [128512]%N ++ runes_of_ascii " emoji
packet crc
{repeat
    uint32 Foo`a\` , /// triple
a1 ,
@rightPad (' '
    )repeat roots
    ,
@calculatedFrom(
    """ ++ [233]%N ++ runes_of_ascii "t" ++ [233]%N ++ runes_of_ascii """ )  @rightPad ( ) BodyLength ,  repeat x_y_z ``,@rightPad ( ) repeat string pack  `
` , @calculatedFrom( """ ++ [128512]%N ++ runes_of_ascii """ )
    int64 Foo//x
,
char[ 65535 ] Foo // trailing space 
@lengthOf( BodyLength )
, @lengthOf(charz) //
trueish // trailing space 
charz
, } packet msg_type
    {u32
Foo `line1
line2` , T
{
pack ,  char[]
    int , zchar[ 1 ]
    _x @lengthOf( Pad) `it's` , }  ,
msg_type ,
    falsey lengthOf ,
    char[
    4294967296 ]
string_
@lengthOf(Pad) , @calculatedFrom( ""\n"" ) //
o @lengthOf( options1	) , }
    // c
    packet u	{
}
")).
Eval vm_compute in ("<<<M484>>>" ++ check (runes_of_ascii "packet stringy
//	t
/// triple
{ @tag(0123456789 )
match matchKey as
    // @lengthOf(
    i64_ { 7// a // b
:
    // " ++ [27880; 37322]%N ++ runes_of_ascii "
    Header
    [ /// triple
""a\""b"", 65535 ]:  stringy ,  ""abc"": // a // b
options1 ,0123456789 :
u ,
""1"" :lengthOf , }
    ,repeat uint64 uint8x	`two words`
, @rightPad ( ) @rightPad ('0' )repeat As
body`doc`
    //
    ,repeat // @lengthOf(
zchar {len, }  , @calculatedFrom(
    ""abc"" )	@calculatedFrom( ""1""
)@rightPad (
    '0') char[]
    zchar @lengthOf(
u ) `line1
line2`
, Header @calculatedFrom(
// c
// packet A { u8 x, }
""CRC32"" )
`{ , }`,
u64 A `tab	here`
,@leftPad ( ) @tag( 10) @tag( 4294967296)
o `doc` , uint8	a1
    /// triple
    , repeat f64 leftPad ,
} MetaData _x
{ rootA float
    `tab	here` , tag
    o`crlf
line`
,} packet Pad {
    match MetaDataX as
A { [
    4294967296 // a // b
, 42 ,""`tick`"" ,0
    ,10	,  1
, 10
, 3 ]
    :
// packet A { u8 x, }
// @lengthOf(
A  ,""packet"" : Packet }
    //x
    , @calculatedFrom( ""CRC32"" ) // @lengthOf(
crc // a // b
@lengthOf(// packet A { u8 x, }
leftPad )`say ""hi""` , BodyLength options1 `say ""hi""`
,
    repeat len
    // " ++ [128512]%N ++ runes_of_ascii " emoji
    {
    // a // b
    char[]
Header
    // `tick` ""quote"" 'q'
    ,
i16 rootA , string
uint8x @lengthOf( Header  )
`it's` , repeat u16 x_y_z`
`, } ,	} packet As { x MetaDataX ,
}
")).
Eval vm_compute in ("<<<M3710>>>" ++ check (runes_of_ascii "packet stringy {
    @tag(0123456789)
    match matchKey as i64_ {
        7 : Header,
        [65535, ""a\""b""] : stringy,
        ""abc"" : options1,
        0123456789 : u,
        ""1"" : lengthOf,
    },
    repeat uint64 uint8x `two words`,
    @rightPad()
    @rightPad('0')
    repeat As body `doc`,
    repeat zchar {
        len,
    },
    @calculatedFrom(""abc"")
    @calculatedFrom(""1"")
    @rightPad('0')
    char[] zchar @lengthOf(u) `line1
    line2`,
    Header @calculatedFrom(""CRC32"") `{ , }`,
    u64 A `tab	here`,
    @leftPad()
    @tag(10)
    @tag(4294967296)
    o `doc`,
    uint8 a1,
    repeat f64 leftPad,
}

MetaData _x {
    rootA float `tab	here`,
    tag o `crlf
    line`,
}

packet Pad {
    match MetaDataX as A {
        [
            4294967296, 42, 0, 10, 1,
            10, 3, ""`tick`""
        ] : A,
        ""packet"" : Packet,
    },
    @calculatedFrom(""CRC32"")
    // @lengthOf(
    crc @lengthOf(leftPad) `say ""hi""`,
    BodyLength options1 `say ""hi""`,
    repeat len {
        // a // b
        char[] Header,
        i16 rootA,
        string uint8x @lengthOf(Header) `it's`,
        repeat u16 x_y_z `
        `,
    },
}

packet As {
    x MetaDataX,
}")).
Eval vm_compute in ("<<<M4214>>>" ++ check (runes_of_ascii "MetaData falsey {
    i8 Logon,
    len metadata `doc`,
}

MetaData Foo {
    char[65535] calculatedFrom `
    `,
    matchKey zchar,
    u stringy `
    `,
    MetaDataX u `say ""hi""`,
}

packet msg_type {
    @lengthOf(Z9_)
    @lengthOf(x)
    @tag(0)
    calculatedFrom {
        msg_type @calculatedFrom(""CRC32"") `say ""hi""`,
        repeat matchKey {
            repeat T {
                char[1] T,
                repeatCount `line1
                line2`,
                match int as x {
                    ""packet"" : options1,
                    00 : calculatedFrom,
                    00 : falsey,
                },
            },
            char[] uint8x,
            match Packet as falsey {
                7 : f32a,
                // a // b
                10 : u,
                1 : Header,
                [0, ""packet"", ""a	b""] : o,
                0123456789 : chars,
            },
            zchar[65535] Foo,
        },
    },
}// packet A { u8 x, }

root packet u {
    @tag(007)
    i32 stringy @lengthOf(a1) `{ , }`,
}

MetaData string_ {
    uint64 chars `crlf
    line`,
    char[3] u8x `a\`,
}")).
Eval vm_compute in ("<<<M4192>>>" ++ check (runes_of_ascii "options {
    u = ""a\""b"";
    Z9_ = ""// no comment"";
    tag = 7
}

root packet As {
}

packet Header {
    @lengthOf(Foo)
    rootA @calculatedFrom(""\" ++ [233]%N ++ runes_of_ascii """),
    @calculatedFrom(""CRC32"")
    float64 crc,
    repeat char[007] Logon,//
    @tag(7)
    @calculatedFrom(""{,}"")
    @lengthOf(stringy)
    match A as f32a {
        // `tick` ""quote"" 'q'
        [
            1, 007, ""a\\"", ""CRC32"", ""a	b"",
            ""\" ++ [233]%N ++ runes_of_ascii """
        ] : trueish,
        4294967296 : u8x,
    },
    @tag(255)
    @lengthOf(u8x)
    @calculatedFrom(""x y"")
    pack {
        uint16 uint8x,
    },
    match leftPad as asx {
        ""{,}"" : T,
        007 : _x,
        1 : options1,
        [42, 007] : calculatedFrom,
        """ ++ [233]%N ++ runes_of_ascii "t" ++ [233]%N ++ runes_of_ascii """ : lengthOf,
    },
    u8x {
        int64 charz `line1
                line2`,
    },
    repeat Header BodyLength `
        `,
    @rightPad('\x00')
    @lengthOf(tag)
    match o as uint8x {
        [255] : _x,
        1 : matchKey,
        // " ++ [128512]%N ++ runes_of_ascii " emoji
        //x
        65535 : tag,
        0123456789 : zchar,
        ""a\\"" : metadata,
    },
}")).
Eval vm_compute in ("<<<M4198>>>" ++ check (runes_of_ascii "options {
    StringPrefixLenType = u8;
    ArrayPrefixLenType = u8;
    FixedStringPadFromLeft = true;
    FixedStringPadChar = ' ';
}

packet Logout {
    repeat string Px,
    repeat string seqNo,
    InMsgkind64 {
        uint16 OrderId,
        char[] count,
        repeat i32 venue,
    },
}

packet Heartbeat {
    float32 tag7,
    repeat InPrice50 {
        repeat char[5] lastPx,
        InRef42 {
            u8 pad0,
        },
        uint32 Acct,
        repeat Logout,
        repeat char[5] Qty,
    },
    repeat InSeqno30 {
        repeat Logout,
    },
    @leftPad('0')
    char[12] Acct,
    char[] Side2,
    repeat string msgKind,
}

packet Ack {
    Heartbeat,
    char[8] seqNo,
    float64 clOrdID,
}

packet Trade {
    char[] OrderId,
    f64 Side2,
    zchar[8] f1,
    string Qty,
    float64 seqNo,
    repeat Logout,
}

packet Order {
    f32 OrderId,
    repeat u8 x,
    Ack,
    zchar[7] Note,
}

root packet Logon {
    @rightPad('\x00')
    char[9] f1,
}")).
Eval vm_compute in ("<<<M1196>>>" ++ check (runes_of_ascii "options	{metadata=  char[]
; asx  =
    ""// no comment""crc
    = """ ++ [128512]%N ++ runes_of_ascii """ ;
    }
packet int { char[ 1 ] BodyLength // packet A { u8 x, }
,  u8x `say ""hi""` ,  Pad
, @rightPad
(  '\x00'	) trueish @calculatedFrom( """ ++ [233]%N ++ runes_of_ascii "t" ++ [233]%N ++ runes_of_ascii """ ) `// not a comment`
    ,	repeat body /// triple
, @lengthOf(
Z9_) match
    Header as repeatCount
{
255 :
_x ,
[ 65535, ""a\""b"" ,
    7,// trailing space 
65535  , 10,
""a\""b""
    , 007, // " ++ [27880; 37322]%N ++ runes_of_ascii "
""x y""
] : MetaDataX
    4294967296
:
    msg_type	""{,}""
    : f32a , ""`tick`"" :
asx //	t
, 007
    : A,} // packet A { u8 x, }
,  @calculatedFrom(""1"" ) repeat string// packet A { u8 x, }
crc ,match rootA as
MetaDataX { ""1""	:
MetaDataX , 7 // c
:trueish ,007 : stringy  , 007
    : i64_ } ,@rightPad
( '\x00'// a // b
)
a1
    `u8 x,`
// c
// a // b
, }
packet	int { repeat i64_
    // c
    { chars
repeatCount
    , } , } root packet
//
// c
x_y_z {} MetaData  i64_  { // `tick` ""quote"" 'q'
zchar[ /// triple
7 ] uint8x , // " ++ [128512]%N ++ runes_of_ascii " emoji
}
")).
Eval vm_compute in ("<<<M576>>>" ++ check (runes_of_ascii "
root
    packet
    //	t
    len{roots@calculatedFrom( ""\n"" ) , } root packet u { @lengthOf( i8i8
) float64 Header@calculatedFrom(
    ""1""
)
`a\`  ,
lengthOf { stringy @lengthOf( BodyLength
)
, float64 BodyLength // trailing space 
`tab	here`
,/// triple
int16 a1@calculatedFrom( ""{,}""
) `{ , }`, BodyLength ,
} ,
@tag(1	)  @rightPad	( ) @rightPad
(
'0' ) // @lengthOf(
packetx
@calculatedFrom( ""\n"") ,// @lengthOf(
@lengthOf( Pad ) zchar[ 65535
// packet A { u8 x, }
// trailing space 
]
    // trailing space 
    lengthOf , char[// " ++ [27880; 37322]%N ++ runes_of_ascii "
007]	string_ `// not a comment`	, @rightPad ( )
    repeat //	t
string falsey , @tag( 4294967296)
    //x
    char Foo `
`,  match	options1	as body {65535 :	o
4294967296 :
tag, ""x y"": trueish
    // packet A { u8 x, }
    , ""packet""
    :
As , [ 0123456789]: rootA ,
""x y"":
uint8x ,} ,
} MetaData x { metadata
zchar`" ++ [28040; 24687; 31867; 22411]%N ++ runes_of_ascii "` , } options { Foo = char[ 255 ] ;
}")).
Eval vm_compute in ("<<<M4462>>>" ++ check (runes_of_ascii "root packet len {
    roots @calculatedFrom(""\n""),
}

root packet u {
    @lengthOf(i8i8)
    float64 Header @calculatedFrom(""1"") `a\`,
    lengthOf {
        stringy @lengthOf(BodyLength),
        float64 BodyLength `tab	here`,/// triple
        int16 a1 @calculatedFrom(""{,}"") `{ , }`,
        BodyLength,
    },
    @tag(1)
    @rightPad()
    @rightPad('0')
    // @lengthOf(
    packetx @calculatedFrom(""\n""),// @lengthOf(
    @lengthOf(Pad)
    zchar[65535] lengthOf,
    char[007] string_ `// not a comment`,
    @rightPad()
    repeat string falsey,
    @tag(4294967296)
    //x
    char Foo `
    `,
    match options1 as body {
        65535 : o,
        4294967296 : tag,
        ""x y"" : trueish,
        ""packet"" : As,
        [0123456789] : rootA,
        ""x y"" : uint8x,
    },
}

MetaData x {
    metadata zchar `" ++ [28040; 24687; 31867; 22411]%N ++ runes_of_ascii "`,
}

options {
    Foo = char[255];
}")).
Eval vm_compute in ("<<<M3907>>>" ++ check (runes_of_ascii "packet chars {
    @lengthOf(zchar)
    @tag(42)
    match roots as As {
        255 : x,
        0123456789 : charz,
        3 : T,
    },
    match body as Logon {
        ""packet"" : metadata,
    },
    match As as i64_ {
        7 : metadata,
        00 : i64_,
        [""a\""b"", ""\n"", """ ++ [28040; 24687]%N ++ runes_of_ascii """] : falsey,
        ""abc"" : i8i8,
        7 : u128,
    },//
    BodyLength @lengthOf(stringy) `// not a comment`,
    repeat f64 BodyLength,
    int64 Z9_,
    @calculatedFrom(""// no comment"")
    @leftPad('0')
    @tag(3)
    repeat char[007] chars,
    f64 x_y_z,
    stringy `u8 x,`,
    @lengthOf(i8i8)
    // trailing space 
    roots rootA,
}

options {
    matchKey = float32;
    Z9_ = u8
    f32a = true
}

root packet u128 {
    @rightPad('\x00')
    Pad falsey `// not a comment`,//x
    int32 Z9_ @lengthOf(falsey),
}")).
Eval vm_compute in ("<<<M514>>>" ++ check (runes_of_ascii "root packet As { @tag(
    4294967296 )
packetx // packet A { u8 x, }
, @calculatedFrom(
""" ++ [128512]%N ++ runes_of_ascii """ )i32 crc // " ++ [128512]%N ++ runes_of_ascii " emoji
, @lengthOf( x_y_z )@lengthOf(
    // a // b
    body
// a // b
// c
) BodyLength {
match repeatCount
    as int
    { ""\" ++ [233]%N ++ runes_of_ascii """:body , // packet A { u8 x, }
""// no comment""  : falsey
,""abc"" :
tag ""a	b"":zchar,
    // trailing space 
    007 : Packet ,}	, // " ++ [128512]%N ++ runes_of_ascii " emoji
} , repeat falsey trueish
    ,
@leftPad(
    ' '
)
@lengthOf(// packet A { u8 x, }
Logon )
@leftPad ( )int@lengthOf( u8x ), zchar[
// " ++ [27880; 37322]%N ++ runes_of_ascii "
// packet A { u8 x, }
007 ]falsey ,
    @rightPad
() float @lengthOf( Logon ) , @rightPad( '\x00' ) @calculatedFrom( /// triple
""a	b"" )Z9_ u8x, @tag( 3 ) string_ u128, }options  {
u128 = ""it's"" ;
metadata =  ""abc""string_
    =
    true	;f32a= // c
true }
packet i8i8{
}
")).
Eval vm_compute in ("<<<M678>>>" ++ check (runes_of_ascii "packet
    msg_type {  @rightPad
( '\x00')	calculatedFrom
chars,
} packet
// " ++ [128512]%N ++ runes_of_ascii " emoji
// " ++ [27880; 37322]%N ++ runes_of_ascii "
string_ { }
MetaData o{ zchar[ 65535
] a1
, } root
packet Foo {	f32a{ // " ++ [128512]%N ++ runes_of_ascii " emoji
match len
as
Packet { [ 3
    ] : body ,
7: o  [ 00 ,
    0 ,""x y"" // trailing space 
,
    // trailing space 
    42 ]: u , """ ++ [28040; 24687]%N ++ runes_of_ascii """
: Pad , }, i64
A, string u8x, match stringy as As {65535 : i8i8 // " ++ [27880; 37322]%N ++ runes_of_ascii "
, //x
""CRC32"":u8x [ ""a\""b""
    ,// @lengthOf(
7 , ""\n""
    , ""{,}"" , 0
,
// `tick` ""quote"" 'q'
// a // b
42, ""a\""b"" ]
: MetaDataX // trailing space 
,[ ""abc""] :
    falsey
, // @lengthOf(
[ ""`tick`"" ]
: calculatedFrom //
, }
,
    } //x
, } // " ++ [128512]%N ++ runes_of_ascii " emoji
options
{body = ""CRC32""
    ; body =
""a\""b""	u128
= true ;
    BodyLength  = // " ++ [128512]%N ++ runes_of_ascii " emoji
10;
leftPad=
false ;}

")).
Eval vm_compute in ("<<<M4286>>>" ++ check (runes_of_ascii "MetaData rootA{  u64 trueish

    , metadata	calculatedFrom// @lengthOf(
		, 

// " ++ [128512]%N ++ runes_of_ascii " emoji
  // `tick` ""quote"" 'q'
    	u8 u128
, chars pack

,
    zchar lengthOf `line1
line2`  , }
root packet//	t
    len 
{@lengthOf( 
trueish
    )
i8	Z9_ `" ++ [28040; 24687; 31867; 22411]%N ++ runes_of_ascii "`  , @leftPad

    (

)  match 
zchar  // " ++ [27880; 37322]%N ++ runes_of_ascii "
    as
trueish 
{00  :
As  , """ ++ [128512]%N ++ runes_of_ascii """ 
:
    o , [  42

    ]	:	a1 
    // `tick` ""quote"" 'q'

  // `tick` ""quote"" 'q'
  ,10 	 // trailing space 
    :
len 
}

,
repeat
	As,
	@leftPad	(

    '0' 
) int32 calculatedFrom ,
repeat
    Header	,  @rightPad
    //

// " ++ [27880; 37322]%N ++ runes_of_ascii "
	( ' '

    ) 	 // packet A { u8 x, }
  	calculatedFrom 
repeatCount, msg_type

    @lengthOf(	// c
	T
),
    }packet

    calculatedFrom {
}
")).
Eval vm_compute in ("<<<M3614>>>" ++ check (runes_of_ascii "
packet 
falsey { @leftPad

(  ) zchar[ 1
]
f32a 
,	_x  // a // b

{int32 u128 ,	rootA
    ,
    } 
,	@rightPad 
(  '\x00'	)
	// " ++ [27880; 37322]%N ++ runes_of_ascii "
  char
matchKey
,	@lengthOf( As	)
match

pack
    as

    BodyLength
    { ""1"" : 
tag ,  [ 
65535
    ] :
msg_type 
,

[ ""`tick`""

]
	:	falsey,  ""// no comment"" :  u128

    ,
    } ,	// " ++ [128512]%N ++ runes_of_ascii " emoji
	match

    len

as	Z9_
    {  [
    ""a	b""
	,

    10  ]
	:
	Foo 
, 255

:  int
,0123456789	:  tag,
1 
    /// triple
	:metadata,[

00 ,4294967296,""" ++ [28040; 24687]%N ++ runes_of_ascii """ ]
:	//	t
roots , [  42 
,

    4294967296
,10
    , 00, 
4294967296	]
:int
,
},
    @calculatedFrom(
	""{,}""
)

repeat
_x 	 // c
		{tag 	 // a // b
	`doc`

,
    } 
, } ")).
Eval vm_compute in ("<<<M1261>>>" ++ check (runes_of_ascii "MetaData o  {
    } packet leftPad{ charz
{ match u as repeatCount{[
    1]
:	x_y_z , 00
: matchKey// c
[""\" ++ [233]%N ++ runes_of_ascii """ , 7 ,""abc"" ,""`tick`"" ]
: MetaDataX
    // packet A { u8 x, }
    ,
    65535:
    o , ""abc""
: matchKey ,
} , } ,
    // trailing space 
    len
`say ""hi""` , // @lengthOf(
@rightPad (
    ' ' ) char[	00] Pad , }packet Pad{
@leftPad ( // @lengthOf(
'\x00' )u128@calculatedFrom( ""a\\"" ) , @rightPad	('\x00'
    )@rightPad
( )
    @calculatedFrom( ""a\""b"" )
    // trailing space 
    Z9_ metadata``
    , @calculatedFrom(
""x y""  ) tag @lengthOf(matchKey) , repeat zchar //
{
    uint8x u, } ,
    // `tick` ""quote"" 'q'
    }")).
Eval vm_compute in ("<<<M3531>>>" ++ check (runes_of_ascii "options {
    LittleEndian = true;
    FixedStringPadFromLeft = true;
    FixedStringPadChar = '0';
}
packet Trade {
    string clOrdID,
    char[] Px,
    u32 x,
}
packet Reject {
    int32 Side2,
    repeat char[3] clOrdID,
    i32 tag7,
}
packet Leg {
}
root packet Quote {
    string Side2,
    string lastPx,
    InSym58 {
        int16 OrderId,
        Reject,
        i8 Qty,
        i64 venue,
        f32 Note,
    },
    char[] count,
    zchar[9] price,
    u16 Qty,
    match Qty as Body {
        69 : Leg,
        48 : Trade,
        51 : Reject,
    },
    u16 Acct @calculatedFrom(""CRC32""),
}
")).
Eval vm_compute in ("<<<M1384>>>" ++ check (runes_of_ascii "MetaData u8x {  _x Foo `say ""hi""`
, }MetaData x_y_z { char rootA ,
    }
    options {
    f32a	= true} packet lengthOf {
    zchar[
    // `tick` ""quote"" 'q'
    255 ]  trueish@calculatedFrom(	""" ++ [233]%N ++ runes_of_ascii "t" ++ [233]%N ++ runes_of_ascii """	) ,@lengthOf( len) zchar[
007  ] // packet A { u8 x, }
roots @lengthOf( o)
// @lengthOf(
// `tick` ""quote"" 'q'
, char[
7 ] o, Pad`
`
, char[ 42
]
f32a//
@lengthOf( crc) , @lengthOf(
// `tick` ""quote"" 'q'
// @lengthOf(
lengthOf//
) @calculatedFrom(
""CRC32"" )@leftPad	( '0' )
//	t
// " ++ [27880; 37322]%N ++ runes_of_ascii "
repeat
crc Foo
, asx @lengthOf( trueish ) `a\`	,	@lengthOf( o ) string crc `it's` , }
")).
Eval vm_compute in ("<<<M4277>>>" ++ check (runes_of_ascii "options {
}

MetaData falsey {
    rootA calculatedFrom,
    float32 a1 `u8 x,`,
}

packet MetaDataX {
    repeat roots Z9_,
    int16 lengthOf `" ++ [233]%N ++ runes_of_ascii "`,
    string MetaDataX,
    @lengthOf(rootA)
    repeat options1 {
        Pad o `
        `,// c
    },
    @tag(0)
    @leftPad('\x00')
    char As,
    uint16 i64_ @lengthOf(i64_) `line1
    line2`,
    @lengthOf(uint8x)
    Packet {
        int32 As,
        u64 falsey,
        repeat matchKey {
            int i64_,
        },
    },
    @tag(3)
    char[] options1 @lengthOf(Header),
}")).
Eval vm_compute in ("<<<M649>>>" ++ check (runes_of_ascii "options //	t
{ // " ++ [128512]%N ++ runes_of_ascii " emoji
Logon =
' '; }	packet
x_y_z {
// a // b
// `tick` ""quote"" 'q'
@lengthOf( calculatedFrom )//
match asx as len{ [""\" ++ [233]%N ++ runes_of_ascii """, 255
    , ""x y""
    , 7	,
""" ++ [233]%N ++ runes_of_ascii "t" ++ [233]%N ++ runes_of_ascii """  , ""\" ++ [233]%N ++ runes_of_ascii """ ]:	tag, ""packet"" : o
[ 7 , """ ++ [28040; 24687]%N ++ runes_of_ascii """  , """ ++ [28040; 24687]%N ++ runes_of_ascii """
,
    /// triple
    ""CRC32"" ]	: _x,
/// triple
// @lengthOf(
[3 // " ++ [128512]%N ++ runes_of_ascii " emoji
, 007// a // b
, ""packet"" , // " ++ [27880; 37322]%N ++ runes_of_ascii "
"""" ,
""CRC32"",0123456789
    //
    ] : lengthOf
    // " ++ [27880; 37322]%N ++ runes_of_ascii "
    , 7 : crc // @lengthOf(
, 42	://
zchar,  },int, } MetaData A {
    BodyLength Foo `// not a comment` ,}
")).
Eval vm_compute in ("<<<M84>>>" ++ check (runes_of_ascii "MetaData
    /// triple
    Logon
{zchar[
    3 ] a1
    `" ++ [28040; 24687; 31867; 22411]%N ++ runes_of_ascii "`
    , char[ 007 ]
MetaDataX `a\` ,
}  root packet
    pack { }
packet
    // trailing space 
    i64_
{  @lengthOf(chars
)
    len	{ uint8 rootA`doc` ,
string_ `crlf
line` //x
, //	t
match charz as
Foo
{
    42 : options1 , [255
    ]:charz
    } , }, roots repeatCount
    `two words` /// triple
,
    //	t
    string Logon @calculatedFrom( ""a\""b"") , @calculatedFrom(// `tick` ""quote"" 'q'
""a\\""	) Z9_
    ,
} //x")).
Eval vm_compute in ("<<<M857>>>" ++ check (runes_of_ascii "packet
    charz// `tick` ""quote"" 'q'
{
@rightPad
    ( '0' ) match leftPad as stringy
{	007
//	t
// " ++ [128512]%N ++ runes_of_ascii " emoji
:
    a1 [ 42 , ""{,}"",""`tick`"" ,
    10
//	t
/// triple
]
    :rootA , ""a	b"" :  Logon},// @lengthOf(
} packet/// triple
float  {	repeat pack { zchar[ 255
    // `tick` ""quote"" 'q'
    ]// `tick` ""quote"" 'q'
repeatCount @lengthOf( uint8x ) `u8 x,` , }
    ,
    // " ++ [27880; 37322]%N ++ runes_of_ascii "
    charz
@lengthOf(
    _x )
`it's` ,// @lengthOf(
} root packet  rootA
    { //
}
")).
Eval vm_compute in ("<<<M636>>>" ++ check (runes_of_ascii "options { }// " ++ [27880; 37322]%N ++ runes_of_ascii "
root
    packet leftPad {match T as u8x{ // trailing space 
4294967296
// packet A { u8 x, }
//x
: Logon, ""1"" :i8i8 ,
0123456789 : tag, ""a\""b"" // @lengthOf(
: //x
options1 , 4294967296  : T
    }
    , repeat matchKey {
repeat string rootA ,  repeat
    // @lengthOf(
    int64
    zchar `
` , } , i32 x_y_z ,
zchar[ 007 ] packetx `it's`,
// a // b
// `tick` ""quote"" 'q'
repeat
    // " ++ [128512]%N ++ runes_of_ascii " emoji
    zchar[	255 ] falsey , } // " ++ [27880; 37322]%N)).
Eval vm_compute in ("<<<M3636>>>" ++ check (runes_of_ascii "packet u {
    @calculatedFrom("""")
    float64 i8i8,
    @tag(42)
    @lengthOf(Z9_)
    @tag(00)
    Logon metadata,
    float64 packetx,// c
    char[] trueish @calculatedFrom(""// no comment"") `" ++ [28040; 24687; 31867; 22411]%N ++ runes_of_ascii "`,
    leftPad,
    repeat i32 x,
    @calculatedFrom(""" ++ [233]%N ++ runes_of_ascii "t" ++ [233]%N ++ runes_of_ascii """)
    u16 As,
    repeat char[] Header,
    match T as falsey {
        10 : string_,
    },
}

packet A {
    zchar[42] rootA,
    f32 pack @lengthOf(zchar),// @lengthOf(
}")).
Eval vm_compute in ("<<<M3894>>>" ++ check (runes_of_ascii "MetaData
    o	// a // b

{u32 
string_

, char[]
a1
    `crlf
line`

    ,

int8 options1 , }
    packet

    Foo
    {  @lengthOf( matchKey	)
	f32 f32a
    ,	@tag(
	0 ) // @lengthOf(
match

    MetaDataX
    as

    trueish
    { //	t
255  :
T	, 4294967296:	pack
// a // b
      , 3

    :

    falsey ,
""1""

:uint8x ,

    7 :
u128 4294967296
	: 
      // " ++ [27880; 37322]%N ++ runes_of_ascii "
	MetaDataX,
}  , i32  //
	roots, }")).
Eval vm_compute in ("<<<M4280>>>" ++ check (runes_of_ascii "options { }  //	t
options 
{  MetaDataX

=""""  ;
	int//x
  	=
    true ;	int=""abc""
	; // @lengthOf(
	repeatCount

=  true
    T
	=  ""a\\"" 
; } MetaData

len

    {
A
int

, string
    T
    `tab	here`	,repeatCount lengthOf
`it's`
    ,	Pad	Pad
,}
	MetaData MetaDataX

    /// triple
    // " ++ [27880; 37322]%N ++ runes_of_ascii "
    {
    //	t
	  // trailing space 
  uint8	matchKey	`" ++ [233]%N ++ runes_of_ascii "`

, repeatCount crc

    ,  char[]As
,}
")).
Eval vm_compute in ("<<<M3781>>>" ++ check (runes_of_ascii "options {
}

packet chars {
    @tag(255)
    // `tick` ""quote"" 'q'
    i8 crc @calculatedFrom(""\n"") `crlf
    line`,
    @rightPad(' ')
    repeatCount @lengthOf(zchar),
    leftPad {
        char[] a1,
        match trueish as Z9_ {
            ""a\\"" : Foo,
            ""a\""b"" : chars,
        },
        zchar[42] asx `a\`,
    },
    @lengthOf(T)
    calculatedFrom int,
}")).
Eval vm_compute in ("<<<M431>>>" ++ check (runes_of_ascii "packet roots{char[  007 ]
len ,  repeat char[]
// c
/// triple
Pad
    `" ++ [233]%N ++ runes_of_ascii "` , //x
repeat rootA {
match roots as falsey{
    ""a	b""  : f32a ,}	,string chars
    ,
match rootA as lengthOf{ 10 // " ++ [27880; 37322]%N ++ runes_of_ascii "
: Foo ,  ""abc"" : A ,
    65535:u8x ,
    [ 255
,
""CRC32""
] :
len } //x
, }
// " ++ [27880; 37322]%N ++ runes_of_ascii "
// @lengthOf(
,} MetaData calculatedFrom
    /// triple
    {matchKey zchar`a\`,
}
")).
Eval vm_compute in ("<<<M320>>>" ++ check (runes_of_ascii "packet Pad { int16 charz `` ,
    @calculatedFrom(""a\""b"" // `tick` ""quote"" 'q'
)
    @tag(	1  )
    zchar[ //	t
4294967296
    // packet A { u8 x, }
    ] A, @rightPad () chars , // " ++ [27880; 37322]%N ++ runes_of_ascii "
uint8x { zchar[
0  ] // @lengthOf(
zchar // " ++ [27880; 37322]%N ++ runes_of_ascii "
`tab	here`
, msg_type f32a ,u8 roots@calculatedFrom(""x y""  ) `crlf
line`, /// triple
As rootA
// " ++ [27880; 37322]%N ++ runes_of_ascii "
//
, } , }
")).
Eval vm_compute in ("<<<M1398>>>" ++ check (runes_of_ascii "
packet i8i8 // " ++ [27880; 37322]%N ++ runes_of_ascii "
{@calculatedFrom(
    """ ++ [233]%N ++ runes_of_ascii "t" ++ [233]%N ++ runes_of_ascii """) @calculatedFrom(	""" ++ [28040; 24687]%N ++ runes_of_ascii """ )
repeat
    leftPad {  uint64 A	@lengthOf( pack ) , As@calculatedFrom(""\n"" ) `it's` , i64_ @calculatedFrom( """ ++ [233]%N ++ runes_of_ascii "t" ++ [233]%N ++ runes_of_ascii """
    ) , u64 u ,
    } , repeat u8
/// triple
// a // b
Logon `u8 x,` , options1
    @calculatedFrom("""" ),
    repeat string packetx `{ , }` , //
}
")).
Eval vm_compute in ("<<<M1082>>>" ++ check (runes_of_ascii "  options{ } options	{ x
=true }
    MetaData uint8x
{ i8i8 u8x `tab	here` , char[
0123456789
    ] calculatedFrom  `` , float64 uint8x
    , charz
    options1
,} options { i8i8 = char[	007 ]
// " ++ [27880; 37322]%N ++ runes_of_ascii "
// " ++ [27880; 37322]%N ++ runes_of_ascii "
;
    } options
    { options1 ='\x00'; // packet A { u8 x, }
zchar= '\x00' //
string_ //x
=//
""" ++ [128512]%N ++ runes_of_ascii """
;
body='0' } 	 ")).
Eval vm_compute in ("<<<M4068>>>" ++ check (runes_of_ascii "options {
    i64_ = ""it's"";
    Foo = ""\n"";
    x_y_z = '\x00';
    len = '0'
}

root packet Packet {
    @tag(0)
    match crc as A {
        [
            255, ""`tick`"", ""`tick`"", ""packet"", ""CRC32"",
            ""\n"", ""a\\""
        ] : T,
        // c
    },
    repeat float64 x,
    zchar[00] chars,
}//	t")).
Eval vm_compute in ("<<<M4393>>>" ++ check (runes_of_ascii "  // packet A { u8 x, }
    	packet string_
{ char[

4294967296
] charz 
,}

    packet _x //x
{
}
packet	As  { // @lengthOf(
}root
	packet string_
{
i64
u128 
,  // `tick` ""quote"" 'q'
    	} 
root // packet A { u8 x, }
    packet
Foo

{
    match	// " ++ [128512]%N ++ runes_of_ascii " emoji

	A
    as 
Pad { 1

:
u128 } ,	} ")).
Eval vm_compute in ("<<<M1442>>>" ++ check (runes_of_ascii "root packet Foo // " ++ [128512]%N ++ runes_of_ascii " emoji
{ } options char
    // a // b
    tag // `tick` ""quote"" 'q'
= //	t
""""
    ; u8x = zchar[0  ] }
MetaData
    int {zchar[ 10]
lengthOf	`` , i64 u8x`// not a comment` ,MetaDataX pack// `tick` ""quote"" 'q'
`crlf
line`
, Logon charz `crlf
line`
    ,
    // a // b
    }
")).
Eval vm_compute in ("<<<M1597>>>" ++ check (runes_of_ascii "root packet Foo // " ++ [128512]%N ++ runes_of_ascii " emoji
{ } options {
    // a // b
    tag // `tick` ""quote"" 'q'
= //	t
""""
    ; u8x = zchar[0  ] }
MetaData
    int {zchar[ 10]
lengthOf	`` , i64 u8x`// not a comment` ,MetaDataX pack// `tick` ""quote"" 'q'
`crlf
line`
, Logon charz `crlf
line`
    u64
    // a // b
    }
")).
Eval vm_compute in ("<<<M1452>>>" ++ check (runes_of_ascii "root packet Foo // " ++ [128512]%N ++ runes_of_ascii " emoji
{ } options {
    // a // b
    tag // `tick` ""quote"" 'q'
} //	t
""""
    ; u8x = zchar[0  ] }
MetaData
    int {zchar[ 10]
lengthOf	`` , i64 u8x`// not a comment` ,MetaDataX pack// `tick` ""quote"" 'q'
`crlf
line`
, Logon charz `crlf
line`
    ,
    // a // b
    }
")).
Eval vm_compute in ("<<<M1270>>>" ++ check (runes_of_ascii "root
    // trailing space 
    packet
//	t
//
trueish { @tag(
0)
@lengthOf( float) @lengthOf(
trueish) repeat uint8 Logon
    `line1
line2`
,  char[]
body @lengthOf(A )
`
`,
// " ++ [128512]%N ++ runes_of_ascii " emoji
// c
repeat
    // packet A { u8 x, }
    char[ 00
    ]MetaDataX , @leftPad (  ) repeat int8 pack
,}
")).
Eval vm_compute in ("<<<M1464>>>" ++ check (runes_of_ascii "root packet Foo // " ++ [128512]%N ++ runes_of_ascii " emoji
{ } options {
    // a // b
    tag // `tick` ""quote"" 'q'
= //	t
""""
    ;  = zchar[0  ] }
MetaData
    int {zchar[ 10]
lengthOf	`` , i64 u8x`// not a comment` ,MetaDataX pack// `tick` ""quote"" 'q'
`crlf
line`
, Logon charz `crlf
line`
    ,
    // a // b
    }
")).
Eval vm_compute in ("<<<M1494>>>" ++ check (runes_of_ascii "root packet Foo // " ++ [128512]%N ++ runes_of_ascii " emoji
{ } options {
    // a // b
    tag // `tick` ""quote"" 'q'
= //	t
""""
    ; u8x = zchar[0  ] }

    int {zchar[ 10]
lengthOf	`` , i64 u8x`// not a comment` ,MetaDataX pack// `tick` ""quote"" 'q'
`crlf
line`
, Logon charz `crlf
line`
    ,
    // a // b
    }
")).
Eval vm_compute in ("<<<M1128>>>" ++ check (runes_of_ascii "//x
MetaData
    // packet A { u8 x, }
    rootA{
    //	t
    zchar[ 42 ]
    msg_type
    //
    ,matchKey
    trueish , // c
}  packet charz{ @leftPad
    ('0')
    metadata packetx  ,
    } MetaData	f32a { zchar[
    007]
    // a // b
    rootA,u32 calculatedFrom , }")).
Eval vm_compute in ("<<<M1070>>>" ++ check (runes_of_ascii "// packet A { u8 x, }
packet string_ {
char[4294967296 ]charz , } packet _x//x
{ }
packet As
    { // @lengthOf(
} root
    packet
string_
{ i64
u128 ,// `tick` ""quote"" 'q'
} root // packet A { u8 x, }
packet
Foo {match // " ++ [128512]%N ++ runes_of_ascii " emoji
A as Pad{ 1 :	u128 } , }
")).
Eval vm_compute in ("<<<M1385>>>" ++ check (runes_of_ascii "packet
    metadata  { @rightPad
    //x
    ( '\x00'
    // c
    )
@rightPad
    ( '\x00'  ) char[] _x @calculatedFrom( ""a\\""	) ,repeat int64
    roots , repeat // trailing space 
zchar[ 007 // c
] i64_,
match	A
    as o{
""1""	: Foo ,
    } , //x
}")).
Eval vm_compute in ("<<<M1583>>>" ++ check (runes_of_ascii "root packet Foo // " ++ [128512]%N ++ runes_of_ascii " emoji
{ } options {
    // a // b
    tag // `tick` ""quote"" 'q'
= //	t
""""
    ; u8x = zchar[0  ] }
MetaData
    int {zchar[ 10]
lengthOf	`` , i64 u8x`// not a comment` ,MetaDataX pack// `tick` ""quote"" 'q'
`crlf
line`
,")).
Eval vm_compute in ("<<<M286>>>" ++ check (runes_of_ascii "options{
} options {
    } root packet uint8x { @leftPad ('\x00'
    )
    match uint8x as	pack {[ ""\n"" ,
""a	b""
    ,
10,
    // " ++ [27880; 37322]%N ++ runes_of_ascii "
    255 ,
// " ++ [27880; 37322]%N ++ runes_of_ascii "
//	t
""a	b"" , //x
"""" ] // " ++ [27880; 37322]%N ++ runes_of_ascii "
:
    repeatCount
    , // c
}
    ,// " ++ [128512]%N ++ runes_of_ascii " emoji
} 	 ")).
Eval vm_compute in ("<<<M3970>>>" ++ check (runes_of_ascii "packet BodyLength {
    //	t
    x f32a `line1
        line2`,
    @calculatedFrom(""a\\"")
    @lengthOf(repeatCount)
    i8 Header `{ , }`,
    float64 leftPad @calculatedFrom(""\" ++ [233]%N ++ runes_of_ascii """),
    @calculatedFrom(""1"")
    uint64 o,
}")).
Eval vm_compute in ("<<<M3936>>>" ++ check (runes_of_ascii "options {
    matchKey = 007;
    pack = false;// `tick` ""quote"" 'q'
    float = int8
    options1 = char[]
    x_y_z = """";
}

options {
    Header = float64;
    pack = float32;
    string_ = char[42]
    Logon = 00;
}")).
Eval vm_compute in ("<<<M2341>>>" ++ check (runes_of_ascii "MetaData Packet { }packet	asx  { @lengthOf( asx) falsey`crlf
line`
,
    }
    packet x	{uint32// @lengthOf(
rootA	,u32 options1 `say ""hi""` , @tag( 7
    ) )// packet A { u8 x, }
msg_type @lengthOf(
stringy	)	, }

")).
Eval vm_compute in ("<<<M2242>>>" ++ check (runes_of_ascii "MetaData Packet { }packet	asx  @lengthOf( { asx) falsey`crlf
line`
,
    }
    packet x	{uint32// @lengthOf(
rootA	,u32 options1 `say ""hi""` , @tag( 7
    )// packet A { u8 x, }
msg_type @lengthOf(
stringy	)	, }

")).
Eval vm_compute in ("<<<M2240>>>" ++ check (runes_of_ascii "MetaData Packet { }packet	asx   @lengthOf( asx) falsey`crlf
line`
,
    }
    packet x	{uint32// @lengthOf(
rootA	,u32 options1 `say ""hi""` , @tag( 7
    )// packet A { u8 x, }
msg_type @lengthOf(
stringy	)	, }

")).
Eval vm_compute in ("<<<M2373>>>" ++ check (runes_of_ascii "MetaData Packet { }packet	asx  { @lengthOf( asx) falsey`crlf
line`
,
    }
    packet x	{uint32// @lengthOf(
rootA	,u32 options1 `say ""hi""` , @tag( 7
    )// packet A { u8 x, }
msg_type @lengthOf(
stringy	)	,")).
Eval vm_compute in ("<<<M2345>>>" ++ check (runes_of_ascii "MetaData Packet { }packet	asx  { @lengthOf( asx) falsey`crlf
line`
,
    }
    packet x	{uint32// @lengthOf(
rootA	,u32 options1 `say ""hi""` , @tag( 7
    )// packet A { u8 x, }
 @lengthOf(
stringy	)	, }

")).
Eval vm_compute in ("<<<M4329>>>" ++ check (runes_of_ascii "// c

	options {

lengthOf

=
	false Logon
=

false
	;
} MetaData lengthOf{ 	 // " ++ [128512]%N ++ runes_of_ascii " emoji
	  float32
i8i8
,} root 	 // `tick` ""quote"" 'q'

packet 
roots

{ zchar[	7
]f32a
	// trailing space 
	,}
")).
Eval vm_compute in ("<<<M4498>>>" ++ check (runes_of_ascii "options {
    Z9_ = ""\n"";
    calculatedFrom = ""packet"";
    zchar = ' ';
}

MetaData asx {
    repeatCount uint8x `two words`,
    a1 A `u8 x,`,
    Packet Z9_ `crlf
    line`,
}

options {
}")).
Eval vm_compute in ("<<<M3675>>>" ++ check (runes_of_ascii "root packet i64_ {
    @calculatedFrom(""\n"")
    repeat uint32 BodyLength,
    @leftPad(' ')
    i32 falsey @lengthOf(i64_) `line1
    line2`,
    @rightPad()
    repeat int64 int `" ++ [233]%N ++ runes_of_ascii "`,
}")).
Eval vm_compute in ("<<<M1098>>>" ++ check (runes_of_ascii "packet falsey {
    @leftPad () // packet A { u8 x, }
zchar[ 007
    ] i8i8 @calculatedFrom( """ ++ [28040; 24687]%N ++ runes_of_ascii """),a1 {float32
Foo @lengthOf( u8x
) ,
},chars , repeat char[] roots `" ++ [28040; 24687; 31867; 22411]%N ++ runes_of_ascii "` ,}
")).
Eval vm_compute in ("<<<M804>>>" ++ check (runes_of_ascii "options
{ calculatedFrom=
    // packet A { u8 x, }
    """ ++ [28040; 24687]%N ++ runes_of_ascii """ ;
    u = false BodyLength=
    // `tick` ""quote"" 'q'
    65535
; msg_type  = 0
    lengthOf= true
    ;}
")).
Eval vm_compute in ("<<<M4479>>>" ++ check (runes_of_ascii "
packet

A	{

match

    k  as n
	{

    [1 
, 22
    ,
007
    ,4
    , 
5 , 66
	, 
7,

    8	,

9, 
10

    , 11

,

12 ]: B  2

    :
    C } , 
}

")).
Eval vm_compute in ("<<<M3972>>>" ++ check (runes_of_ascii "packet A {
    Inner {
        match k as n {
            [
                1, 22, 007, 4, 5,
                66, 7
            ] : B,
        },
    },
}")).
Eval vm_compute in ("<<<M3703>>>" ++ check (runes_of_ascii "  packet

    A{
	match
k
    as
	n{ 
[ ""a""

    , 22
	, 
""c c"",4,
    ""e""

, 66,
""g"" 
,
8 ,

    ""i"" , 10	, ""k"" ]  :B	2
: C

    }

, }
")).
Eval vm_compute in ("<<<M3910>>>" ++ check (runes_of_ascii "packet A {
    Inner {
        u8 x `a
        
        b`,
        Deep {
            u8 y `a
            
            b`,
        },
    },
}")).
Eval vm_compute in ("<<<M1683>>>" ++ check (runes_of_ascii "root packet /// triple
rootA {	i32
MetaDataX@calculatedFrom( ""CRC32"" ) `line1
line2` , } MetaData MetaData BodyLength {
u8
rootA, } // c")).
Eval vm_compute in ("<<<M1801>>>" ++ check (runes_of_ascii "packet
    Pad // a // b
{ i8i8 @calculatedFrom( @calculatedFrom( ""a	b"") `u8 x,` ,
} options{ float// " ++ [128512]%N ++ runes_of_ascii " emoji
= f64 i64_
=//	t
00 }
")).
Eval vm_compute in ("<<<M1725>>>" ++ check (runes_of_ascii "'' root packet /// triple
rootA {	i32
MetaDataX@calculatedFrom( ""CRC32"" ) `line1
line2` , } MetaData BodyLength {
u8
rootA, } // c")).
Eval vm_compute in ("<<<M3701>>>" ++ check (runes_of_ascii "

  packet calculatedFrom{	// c
    	@tag( 
4294967296
)u	msg_type  , 
char[

3 ]
	crc

    @lengthOf( len
    ) `u8 x,` ,  }
")).
Eval vm_compute in ("<<<M1672>>>" ++ check (runes_of_ascii "root packet /// triple
rootA {	i32
MetaDataX@calculatedFrom( ""CRC32"" ) `line1
line2`  } MetaData BodyLength {
u8
rootA, } // c")).
Eval vm_compute in ("<<<M1716>>>" ++ check (runes_of_ascii "root packet /// triple
rootA {	i32
MetaDataX@calculatedFrom( ""CRC32"" ) `line1
line2` , } MetaData BodyLength {
u8
rootA, } /")).
Eval vm_compute in ("<<<M4281>>>" ++ check (runes_of_ascii "
packet	calculatedFrom	{ 
@tag(
4294967296)  u

    msg_type ,
        // c
		char[3] crc 
@lengthOf(	len
)`u8 x,` 
, 
}")).
Eval vm_compute in ("<<<M1711>>>" ++ check (runes_of_ascii "root packet /// triple
rootA {	i32
MetaDataX@calculatedFrom( ""CRC32"" ) `line1
line2` , } MetaData BodyLength {
u8
rootA")).
Eval vm_compute in ("<<<M4168>>>" ++ check (runes_of_ascii "
packet
calculatedFrom {	@tag(
	4294967296 

// c
      )
	u	msg_type

,
	char[ 3] 
crc

@lengthOf(len  )	`u8 x,`
,}

")).
Eval vm_compute in ("<<<M1817>>>" ++ check (runes_of_ascii "packet
    Pad // a // b
{ i8i8 @calculatedFrom( ""a	b"") , `u8 x,`
} options{ float// " ++ [128512]%N ++ runes_of_ascii " emoji
= f64 i64_
=//	t
00 }
")).
Eval vm_compute in ("<<<M3460>>>" ++ check (runes_of_ascii "// top
root
    // c0
packet // c1a
  // c1b
P // c2a
  // c2b
{ // c3a
  // c3b
string // c4
s , // c6
}
    // c7
")).
Eval vm_compute in ("<<<M4307>>>" ++ check (runes_of_ascii "packet

Logon {	@tag( 42

    ) @rightPad  ( ' ' 	 // c
	)
@leftPad
()  repeat
    trueish
{
string T
,	}
, 
}
")).
Eval vm_compute in ("<<<M3951>>>" ++ check (runes_of_ascii "packet A {
    B b `a
        b
      c`,
    B `a
        b
      c`,
    repeat B bs `a
        b
      c`,
}")).
Eval vm_compute in ("<<<M3416>>>" ++ check (runes_of_ascii "// top
root
    // c0
packet P {
    // c3
char // c4
c // c5
,
    // c6
u8 // c7
x // c8
, // c9
} // c10
")).
Eval vm_compute in ("<<<M1473>>>" ++ check (runes_of_ascii "root packet Foo // " ++ [128512]%N ++ runes_of_ascii " emoji
{ } options {
    // a // b
    tag // `tick` ""quote"" 'q'
= //	t
""""
    ; u8x")).
Eval vm_compute in ("<<<M3352>>>" ++ check (runes_of_ascii "packet calculatedFrom { @tag( 4294967296 ) u
// c
msg_type , char[ 3 ] crc @lengthOf( len ) `u8 x,` , }")).
Eval vm_compute in ("<<<M2973>>>" ++ check (runes_of_ascii "packet A {
  match k as n {
    [""a"", ""bb"", 007, ""d"", ""e"", 66, ""g"", ""h"", 9, ""j""] : B,
    2 : C
  },
}")).
Eval vm_compute in ("<<<M1125>>>" ++ check (runes_of_ascii "
packet	crc{
    match // trailing space 
x_y_z
    as Z9_{ [ 00 ]:asx }, } root packet x_y_z {}
")).
Eval vm_compute in ("<<<M4070>>>" ++ check (runes_of_ascii "packet B {
    u8 a,
    string s,
}

root packet P {
    u16 L @lengthOf(B),
    B,
    u8 t,
}")).
Eval vm_compute in ("<<<M3234>>>" ++ check (runes_of_ascii "packet Logon { @tag( 42 ) @rightPad ( ' ' ) // c
@leftPad ( ) repeat trueish { string T , } , }")).
Eval vm_compute in ("<<<M1463>>>" ++ check (runes_of_ascii "root packet Foo // " ++ [128512]%N ++ runes_of_ascii " emoji
{ } options {
    // a // b
    tag // `tick` ""quote"" 'q'
= //	t
""""")).
Eval vm_compute in ("<<<M2299>>>" ++ check (runes_of_ascii "MetaData Packet { }packet	asx  { @lengthOf( asx) falsey`crlf
line`
,
    }
    packet x	{")).
Eval vm_compute in ("<<<M3429>>>" ++ check (runes_of_ascii "packet

    Inner {  u8 a
    , }root
packet  P

{repeat 
Inner

items
    ,
u8 x , } ")).
Eval vm_compute in ("<<<M4351>>>" ++ check (runes_of_ascii "MetaData metadata {
    leftPad i64_,
    u8 stringy `
        `,
    char[] trueish,
}")).
Eval vm_compute in ("<<<M1999>>>" ++ check (runes_of_ascii "root
packet crc
    { f32a @calculatedFrom( """ ++ [233]%N ++ runes_of_ascii "t" ++ [233]%N ++ runes_of_ascii """ )
    BodyLength, lengthOf `` ,  }")).
Eval vm_compute in ("<<<M1605>>>" ++ check (runes_of_ascii "root packet Foo // " ++ [128512]%N ++ runes_of_ascii " emoji
{ } options {
    // a // b
    tag // `tick` ""quote"" 'q")).
Eval vm_compute in ("<<<M3292>>>" ++ check (runes_of_ascii "// c
packet o { @tag( 42 ) repeat x { char[ 0123456789 ] i64_ , } , } options { }")).
Eval vm_compute in ("<<<M3325>>>" ++ check (runes_of_ascii "packet o { @tag( 42 ) repeat x { char[ 0123456789 ] i64_ , } ,
// c
} options { }")).
Eval vm_compute in ("<<<M1340>>>" ++ check (runes_of_ascii "//x
packet calculatedFrom
{ match trueish as int  { ""it's""
: float	,}
,
    }
")).
Eval vm_compute in ("<<<M859>>>" ++ check (runes_of_ascii "
options // `tick` ""quote"" 'q'
{ Packet =
'0' ;
// " ++ [27880; 37322]%N ++ runes_of_ascii "
// " ++ [27880; 37322]%N ++ runes_of_ascii "
x	=
    42 ; }
")).
Eval vm_compute in ("<<<M2757>>>" ++ check (runes_of_ascii "char @lengthOf( @lengthOf( false string = ( '0' i32 : float32 i64 u64 true")).
Eval vm_compute in ("<<<M263>>>" ++ check (runes_of_ascii "packet zchar
{
    roots
{ i64 f32a
    `" ++ [28040; 24687; 31867; 22411]%N ++ runes_of_ascii "`	, float32 zchar , }
, }")).
Eval vm_compute in ("<<<M3397>>>" ++ check (runes_of_ascii "MetaData _x // c
{ zchar[ 4294967296 ] lengthOf `// not a comment` , }")).
Eval vm_compute in ("<<<M4033>>>" ++ check (runes_of_ascii "
packet
//x
	MetaDataX
    {

repeat
rootA 
`two words`//x
, //
  }")).
Eval vm_compute in ("<<<M2156>>>" ++ check (runes_of_ascii "false
    // `tick` ""quote"" 'q'
    packet As { trueish Packet , }
")).
Eval vm_compute in ("<<<M3009>>>" ++ check (runes_of_ascii "packet A {
    B b `a
b`,
    B `a
b`,
    repeat B bs `a
b`,
}")).
Eval vm_compute in ("<<<M3858>>>" ++ check (runes_of_ascii "  options
    {leftPad
	= ""it's"" u8x=
	1

tag
    =
true
    }

")).
Eval vm_compute in ("<<<M546>>>" ++ check (runes_of_ascii "options
// c
// a // b
{
packetx=
    1 ;
    body =char[] }")).
Eval vm_compute in ("<<<M4417>>>" ++ check (runes_of_ascii "  options

    {
}
	options {
} // `tick` ""quote"" '<q'
")).
Eval vm_compute in ("<<<M744>>>" ++ check (runes_of_ascii "packet msg_type
    { zchar[00 ]
    _x
, } // @lengthOf(")).
Eval vm_compute in ("<<<M1952>>>" ++ check (runes_of_ascii "
packet	As { @calculatedFrom(//x
""{,}""	)lengthOf" ++ [0]%N ++ runes_of_ascii " , } 	 ")).
Eval vm_compute in ("<<<M1930>>>" ++ check (runes_of_ascii "
packet	As { @calculatedFrom(//x
""{,}""	)lengthOf  } 	 ")).
Eval vm_compute in ("<<<M529>>>" ++ check (runes_of_ascii "options{
BodyLength =	""" ++ [128512]%N ++ runes_of_ascii """// `tick` ""quote"" 'q'
; }
")).
Eval vm_compute in ("<<<M399>>>" ++ check (runes_of_ascii "
packet Pad
{ uint8 rootA`` ,
} packet Foo  { }
")).
Eval vm_compute in ("<<<M2418>>>" ++ check (runes_of_ascii "MetaData A
)
i64
chars	, } // `tick` ""quote"" 'q'")).
Eval vm_compute in ("<<<M3943>>>" ++ check (runes_of_ascii "options {
}

options {
}// `tick` ""quo''te"" 'q'")).
Eval vm_compute in ("<<<M2608>>>" ++ check (runes_of_ascii "packet A { match k as n { [1,""a"",2] : B, }, }")).
Eval vm_compute in ("<<<M2254>>>" ++ check (runes_of_ascii "MetaData Packet { }packet	asx  { @lengthOf(")).
Eval vm_compute in ("<<<M404>>>" ++ check (runes_of_ascii "options
{
    stringy
=
true
    ;  } //")).
Eval vm_compute in ("<<<M1929>>>" ++ check (runes_of_ascii "
packet	As { @calculatedFrom(//x
""{,}""	)")).
Eval vm_compute in ("<<<M3203>>>" ++ check (runes_of_ascii "MetaData zchar { zchar[ 3 ] Pad
// c
, }")).
Eval vm_compute in ("<<<M1102>>>" ++ check (runes_of_ascii "options {int =//x
""\" ++ [233]%N ++ runes_of_ascii """ // " ++ [128512]%N ++ runes_of_ascii " emoji
} //")).
Eval vm_compute in ("<<<M2109>>>" ++ check (runes_of_ascii "MetaData x
// " ++ [128512]%N ++ runes_of_ascii " emoji
i16 stringy , }")).
Eval vm_compute in ("<<<M3166>>>" ++ check (runes_of_ascii "options { a = 1; // a
 b = 2 // b
 }")).
Eval vm_compute in ("<<<M2739>>>" ++ check ([65533; 65533]%N ++ runes_of_ascii "]" ++ [37017; 21]%N ++ runes_of_ascii "&`+" ++ [65533; 65533; 65533]%N ++ runes_of_ascii "lT4" ++ [65533]%N ++ runes_of_ascii "L" ++ [5; 14; 18; 65533; 65533; 17]%N ++ runes_of_ascii """5" ++ [65533]%N ++ runes_of_ascii ":Y" ++ [65533; 65533]%N ++ runes_of_ascii "xTV" ++ [65533; 65533]%N)).
Eval vm_compute in ("<<<M2584>>>" ++ check (runes_of_ascii "packet A { x @lengthOf(y) `d`, }")).
Eval vm_compute in ("<<<M78>>>" ++ check (runes_of_ascii "options { zchar=
    false ; }")).
Eval vm_compute in ("<<<M3138>>>" ++ check (runes_of_ascii "packet A {
 u8 x `d" ++ [65279]%N ++ runes_of_ascii "`, // c" ++ [65279]%N ++ runes_of_ascii "
}")).
Eval vm_compute in ("<<<M2583>>>" ++ check (runes_of_ascii "packet A { x @lengthOf(y), }")).
Eval vm_compute in ("<<<M3032>>>" ++ check (runes_of_ascii "packet A {
    u8 x `x
`,
}")).
Eval vm_compute in ("<<<M4318>>>" ++ check (runes_of_ascii "// " ++ [128512]%N ++ runes_of_ascii " emoji
packet f32a {
}")).
Eval vm_compute in ("<<<M114>>>" ++ check (runes_of_ascii "//	t
packet
Logon { } 	 ")).
Eval vm_compute in ("<<<M3280>>>" ++ check (runes_of_ascii "options { u8x = 3
// c
}")).
Eval vm_compute in ("<<<M227>>>" ++ check (runes_of_ascii " // packet A { u8 x, }")).
Eval vm_compute in ("<<<M1607>>>" ++ check (runes_of_ascii "root packet Foo // " ++ [65533; 65533]%N)).
Eval vm_compute in ("<<<M2663>>>" ++ check (runes_of_ascii "options { a = `d`; }")).
Eval vm_compute in ("<<<M3127>>>" ++ check (runes_of_ascii "// c 	
packet A {
}")).
Eval vm_compute in ("<<<M3077>>>" ++ check (runes_of_ascii "// c" ++ [133]%N ++ runes_of_ascii "
packet A {
}")).
Eval vm_compute in ("<<<M1063>>>" ++ check (runes_of_ascii "packet x_y_z {
}
")).
Eval vm_compute in ("<<<M3129>>>" ++ check (runes_of_ascii "packet A {
}// c" ++ [8203]%N)).
Eval vm_compute in ("<<<M2025>>>" ++ check (runes_of_ascii "root
packet cr")).
Eval vm_compute in ("<<<M2668>>>" ++ check (runes_of_ascii "options A { }")).
Eval vm_compute in ("<<<M1052>>>" ++ check (runes_of_ascii "options {}")).
Eval vm_compute in ("<<<M2502>>>" ++ check (runes_of_ascii "// ab
c")).
Eval vm_compute in ("<<<M2432>>>" ++ check (runes_of_ascii "zchar[")).
Eval vm_compute in ("<<<M2464>>>" ++ check (runes_of_ascii "match")).
Eval vm_compute in ("<<<M643>>>" ++ check (runes_of_ascii "  

")).
Eval vm_compute in ("<<<M2437>>>" ++ check (runes_of_ascii "u80")).
Eval vm_compute in ("<<<M2133>>>" ++ check (runes_of_ascii "Me")).
Eval vm_compute in ("<<<M2551>>>" ++ check ([233]%N)).
