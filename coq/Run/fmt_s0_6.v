From FP Require Import Lexer Parser ShowPT Digest Formatter.
From Coq Require Import String List NArith.
Import ListNotations.
Open Scope string_scope.
Set Printing Width 100000000.
Set Printing Depth 100000000.
Definition show_fres (r : fres) : string :=
  match r with
  | FOk s => "OK:" ++ sh_escaped s ""
  | FErr s => "ERR:" ++ sh_escaped s ""
  | FPanic p => "PANIC:" ++ p
  end.
Definition check (rs : list rune) : string := digest (show_fres (format_res rs)).
Definition full (rs : list rune) : string := show_fres (format_res rs).
Eval vm_compute in ("<<<M1732>>>" ++ check (runes_of_ascii "packet Z9_ {
    @calculatedFrom(""1"")
    match body as u8x {
        [7] : u,
        [
            7, 00, 00, ""a\""b"", """",
            ""\n""
        ] : charz,
        1 : Packet,
        """ ++ [28040; 24687]%N ++ runes_of_ascii """ : f32a,
        00 : len,
    },
    @lengthOf(calculatedFrom)
    MetaDataX,
    Packet @lengthOf(int),
    repeat char[7] calculatedFrom,
    @calculatedFrom(""a\\"")
    zchar[255] f32a @calculatedFrom(""" ++ [233]%N ++ runes_of_ascii "t" ++ [233]%N ++ runes_of_ascii """),
    @calculatedFrom(""a\""b"")
    char[7] i8i8 @calculatedFrom(""a\\"") `crlf
    line`,
    zchar[0123456789] x `line1
    line2`,
    @leftPad()
    repeat u64 stringy,
    @lengthOf(x)
    repeat body {
        //	t
        Z9_ {
            repeat asx,
            repeat crc i64_,
            repeat rootA {
                repeat rootA MetaDataX `line1
                line2`,
                match i64_ as calculatedFrom {
                    7 : x,
                    [7] : stringy,
                    ""1"" : i8i8,
                    [
                        42, 10, 255, 0, 10,
                        ""1"", """ ++ [233]%N ++ runes_of_ascii "t" ++ [233]%N ++ runes_of_ascii """
                    ] : u,
                    ""x y"" : i8i8,
                },
                uint64 _x `
                `,
                char[0] i64_ @calculatedFrom(""CRC32""),
            },
            x_y_z {
                char[] T,
            },
        },
        repeat u64 Foo `a\`,
        uint8 uint8x,
        match roots as chars {
            1 : _x,
            ""a\""b"" : uint8x,
            42 : metadata,
            // `tick` ""quote"" 'q'
            [255, ""\n""] : zchar,
            [3, 4294967296, 0123456789, """ ++ [233]%N ++ runes_of_ascii "t" ++ [233]%N ++ runes_of_ascii """, ""x y""] : metadata,
            [""it's"", ""// no comment""] : Z9_,
        },
    },
}// a // b

MetaData rootA {
    char[4294967296] msg_type,
    char[] u128,
    uint64 a1,
    int8 crc,
    Pad msg_type `doc`,
}

//	t
/// triple
packet x_y_z {
    @lengthOf(crc)
    match packetx as f32a {
        0123456789 : A,
        00 : u,
        // @lengthOf(
    },
}")).
Eval vm_compute in ("<<<M1892>>>" ++ check (runes_of_ascii "root
packet metadata
{
@lengthOf( options1  ) int32	zchar	@calculatedFrom(
""// no comment"" )`
`  ,

repeat

    calculatedFrom 
`it's`
,	//
match
BodyLength

    as
lengthOf

{  3/// triple
  :  leftPad ,
	}
	,repeat
	u128

,  char[ 10

    ] 
chars, // @lengthOf(

  falsey @calculatedFrom(  ""x y""

    ) 	 // c
    `{ , }` ,  @tag(
42

    )
    float64
    i64_

// packet A { u8 x, }
	,
	u8x

@calculatedFrom(

""{,}"" )

`two words` 

    //	t
    	// trailing space 
  ,	@lengthOf(
T
)	char[

    255

] pack 
`it's`, 
match	MetaDataX
    as
	i64_

    { 
    //
""" ++ [28040; 24687]%N ++ runes_of_ascii """	// @lengthOf(
		:  Header,
0 

    //
	:x_y_z
	3
: // `tick` ""quote"" 'q'

  int

    ""abc""

    // @lengthOf(
	: u8x
	,}, } packet i64_{

    @rightPad 
()	/// triple
	pack 
{match
    MetaDataX
as 
trueish
{ 1  // @lengthOf(
: len
	00: falsey // packet A { u8 x, }
,
    """" : 
x  ,
}	,
} ,@tag( 1)

char[]

    int

    @lengthOf( metadata

)// packet A { u8 x, }
    ,
a1 @lengthOf(calculatedFrom

)
,
    @tag(7
    )
tag
	@lengthOf( u) , 
BodyLength	/// triple
	@calculatedFrom(  ""it's""  )	`say ""hi""`

,  string

msg_type

,  }

    MetaData

Logon	{
BodyLength
	_x
`it's`
	,
    int32 
body

    , 
    // trailing space 

} root packet 
body
	{  }

")).
Eval vm_compute in ("<<<M1866>>>" ++ check (runes_of_ascii "

  options { matchKey

=

    ""x y"" 
; MetaDataX

=
	'0'

    ;  }  packet	// c

msg_type 
{
@rightPad(

    ' ' )repeat  u128 body  ,match
    body as /// triple
    	pack {  [	""\" ++ [233]%N ++ runes_of_ascii """,

""1""] 
:

BodyLength 
,

[
255 ,""a	b""
    , ""a\\""

, ""{,}""
    ,
    007 ,
	007 ,  0123456789

    ]:
    options1 
,} 
, @leftPad (
	)
@lengthOf( charz
) @tag( 42

    )	o

    {i32

    msg_type

@lengthOf( A) // " ++ [27880; 37322]%N ++ runes_of_ascii "
    	`doc`
,
	zchar[ 1
] 
charz,	// c
  i8	packetx
`{ , }`,

    msg_type
    `crlf
line`

    ,	}
, @calculatedFrom( ""\" ++ [233]%N ++ runes_of_ascii """
)	Z9_

@calculatedFrom( """ ++ [128512]%N ++ runes_of_ascii """ 
) `tab	here`
    ,
repeat
    char[]

Foo,

repeat

    zchar[

    0123456789]u128  , }packet f32a  { 
f32a

    @lengthOf(matchKey)	//x
    	,
	@rightPad (
	' ' // " ++ [27880; 37322]%N ++ runes_of_ascii "
	  ) 
@lengthOf(chars	)
_x Foo `` , 
match
    body  // c

	as
	body{[

4294967296,
    ""packet"" 
,3 
,  """ ++ [128512]%N ++ runes_of_ascii """ ,0123456789

    ] :
T  [
""a\\""
    ]	// `tick` ""quote"" 'q'

:
    T 
,
	""\n"":

u8x

, 
} 
  //	t
    	//x
    ,
}//x

	root

packet
lengthOf  { }
")).
Eval vm_compute in ("<<<M176>>>" ++ check (runes_of_ascii "
packet i8i8 { @tag( 0 ) int32
leftPad `it's`
, repeat char[]Header`crlf
line`
, @calculatedFrom( ""\" ++ [233]%N ++ runes_of_ascii """ )/// triple
repeat
    uint8 float , @rightPad
('\x00' ) char[] zchar@lengthOf(
// a // b
//x
leftPad )
`
` , Z9_ ,
@lengthOf(
x ) match As as
    tag {	""a	b""  :
string_ [
10 , 7 , ""1"" , 255
,
3
    , 42 ,
    //
    0123456789, """ ++ [128512]%N ++ runes_of_ascii """ ] :x_y_z ,""CRC32""
: Z9_  , 00
    // c
    : Logon
    ,
} , @tag(007) o {
    char
    Packet
@lengthOf(
    //	t
    repeatCount
) , } , @lengthOf(
// " ++ [27880; 37322]%N ++ runes_of_ascii "
/// triple
pack
) float64 rootA `two words`
    ,	repeat char[] BodyLength ,}
packet Z9_{ match
    // packet A { u8 x, }
    As
as
    a1{ //
0: trueish // `tick` ""quote"" 'q'
,} ,
/// triple
// " ++ [27880; 37322]%N ++ runes_of_ascii "
} root packet u8x {
/// triple
// " ++ [128512]%N ++ runes_of_ascii " emoji
repeat
string Logon `tab	here` , // " ++ [128512]%N ++ runes_of_ascii " emoji
}	options { _x
=
    ""packet""
;f32a =007 } packet i8i8 {@calculatedFrom( ""CRC32"" )
A @lengthOf(
a1
)
, } 	 ")).
Eval vm_compute in ("<<<M1605>>>" ++ check (runes_of_ascii "// top
options {
    // c1a
    // c1b
    StringPrefixLenType = u8;
    // c5
    ArrayPrefixLenType = u8;// c9
    FixedStringPadFromLeft = false;// c13
    FixedStringPadChar = ' ';// c17a
}

packet Ack {
    // c21a
    // c21b
    char[] tag7,// c24a
}

packet Reject {
    InSym61 {
        // c30
        repeat Ack,// c33a
        // c33b
        zchar[4] f1,
    },// c40
}

// c41
packet Logout {
    // c44
    char[4] clOrdID,// c49
}// c50

root packet Cancel {
    @leftPad(' ')
    // c58
    char[10] price,
    u8 x,// c66a
    // c66b
    u32 venue @lengthOf(Body),// c72a
    // c72b
    match x as Body {
        [92, 175] : Logout,
        // c85
        26 : Reject,
        // c89a
        // c89b
        144 : Ack,
        // c93
    },// c95
    u16 count @calculatedFrom(""CRC32""),// c101
}// c102a")).
Eval vm_compute in ("<<<M1698>>>" ++ check (runes_of_ascii "// packet A { u8 x, }
root packet leftPad {
    @calculatedFrom(""`tick`"")
    @rightPad()
    // " ++ [128512]%N ++ runes_of_ascii " emoji
    string_ @lengthOf(tag) `a\`,
    i64 T `" ++ [233]%N ++ runes_of_ascii "`,//	t
}

packet Pad {
    @lengthOf(float)
    char[] x @calculatedFrom(""a\""b""),// trailing space 
    @tag(0)
    // " ++ [27880; 37322]%N ++ runes_of_ascii "
    repeatCount,
    repeat rootA {
        _x,
        zchar[3] roots `crlf
                line`,
    },
    /// triple
    // a // b
    match metadata as BodyLength {
        [
            10, 10, 4294967296, ""a\""b"", """",
            ""\n"", ""a\\""
        ] : u,
    },
    repeat i64_ Packet `" ++ [28040; 24687; 31867; 22411]%N ++ runes_of_ascii "`,
    @tag(65535)
    char[] float `it's`,
    char[7] x @calculatedFrom(""{,}""),
}

MetaData leftPad {
    body rootA `crlf
        line`,
    int64 msg_type `doc`,
}")).
Eval vm_compute in ("<<<M117>>>" ++ check (runes_of_ascii "// a // b
packet	u128  {
    repeat chars	{i64 u8x
`
`// a // b
, // c
_x
@lengthOf(  falsey
    )
,
    Logon
`" ++ [28040; 24687; 31867; 22411]%N ++ runes_of_ascii "` ,repeat char[]
trueish `tab	here` ,}
    , } root packet T { match Packet
as
trueish {
""packet"" : charz
    ,
    [4294967296 , ""1"" ] : A , 7 : x
    // " ++ [27880; 37322]%N ++ runes_of_ascii "
    , [
    // a // b
    7 ,""a	b""
    ]
:	u128 255 :
As
    3:
Packet,} ,
//	t
// trailing space 
pack
`a\` , @calculatedFrom( """ ++ [233]%N ++ runes_of_ascii "t" ++ [233]%N ++ runes_of_ascii """ //	t
)
    rootA matchKey  ,
char[ 65535]/// triple
leftPad @lengthOf( roots
    //
    ) , repeat MetaDataX { u64
    a1 @calculatedFrom(""x y"" ) `doc`  ,//	t
uint8 falsey
,
match BodyLength as A
{  [ ""\" ++ [233]%N ++ runes_of_ascii """,255 ,"""" ,
    ""it's"" ] :	Foo ,
3 : u128}	, } ,	}
")).
Eval vm_compute in ("<<<M1335>>>" ++ check (runes_of_ascii "
options {

LittleEndian = 
false

;
ArrayPrefixLenType

= 
u8
    ; FixedStringPadFromLeft
    =true;
    FixedStringPadChar

    = '0'  ; } packet
Heartbeat
    { string lastPx	,
    uint8  Qty

    ,
    i64
Acct  , char[ 4] Ref ,

    }packet Fill{
uint8
Ref
,
Heartbeat
,
f32
    OrderId 
,
	repeat f32 x

,}
	root packet	Order  {

    zchar[
2

]
OrderId ,zchar[ 2
]
Acct ,
	zchar[
1 ]

Note
    ,	zchar[
9  ]	Qty
    , string	price

    , string
    tag7 , u32

    x  ,	match x
as
Body
	{
    123	:Fill
    , 112
:

    Heartbeat
,
}
,u32
seqNo@calculatedFrom(  ""CRC32"" )	, } ")).
Eval vm_compute in ("<<<M327>>>" ++ check (runes_of_ascii "root packet asx
    { tag body `u8 x,` , }
packet string_ {
    @lengthOf(
len // a // b
)repeat	zchar[ 42 ] u8x,zchar[ 0 ] asx
    , } packet
// " ++ [128512]%N ++ runes_of_ascii " emoji
// " ++ [27880; 37322]%N ++ runes_of_ascii "
int {repeat crc
    { zchar float , match
    i8i8 as rootA//x
{ 255 : lengthOf , 1 :lengthOf
,3
    :
roots , 3 : uint8x ,0
    :As , ""`tick`"" :	repeatCount , }  , repeat
/// triple
//
char[]
falsey ,
    u64 lengthOf ,} , @lengthOf( crc ) lengthOf i64_ , leftPad
`crlf
line`, }
    root	packet zchar{ f32 _x @calculatedFrom( ""a\\"" ), }	MetaData chars // trailing space 
{//
}")).
Eval vm_compute in ("<<<M328>>>" ++ check (runes_of_ascii "
packet
Logon { repeatCount { BodyLength
    `crlf
line`, }
    , zchar a1 `u8 x,`  ,
match Foo as Foo { ""\n"" :i8i8,[
""abc""
    , // trailing space 
""CRC32"" ]
/// triple
// " ++ [128512]%N ++ runes_of_ascii " emoji
: // @lengthOf(
crc
    [ 3 ,
//
// " ++ [128512]%N ++ runes_of_ascii " emoji
""x y"", 42 , ""`tick`""
, 1 , ""a\""b"",
    ""CRC32"" , 255 ]:repeatCount , [// " ++ [128512]%N ++ runes_of_ascii " emoji
1
// a // b
// " ++ [27880; 37322]%N ++ runes_of_ascii "
,007 ,
""\n"",007 , 7 , ""// no comment"" ,
255 ] :
    uint8x 00
: f32a , } ,
    // a // b
    uint16 Pad @lengthOf( uint8x)// packet A { u8 x, }
`doc`  ,
}")).
Eval vm_compute in ("<<<M1113>>>" ++ check (runes_of_ascii "// top
packet // c0
float // c1
{ // c2
@rightPad // c3
( // c4
) // c5
rootA // c6
@lengthOf( // c7
trueish // c8
) // c9
, // c10
stringy // c11
@lengthOf( // c12
matchKey // c13
) // c14
, // c15
char[ // c16
4294967296 // c17
] // c18
pack // c19
@lengthOf( // c20
uint8x // c21
) // c22
, // c23
} // c24
root // c25
packet // c26
trueish // c27
{ // c28
repeat // c29
uint64 // c30
u128 // c31
`line1
line2` // c32
, // c33
} // c34
")).
Eval vm_compute in ("<<<M303>>>" ++ check (runes_of_ascii "  packet
    tag{ } packet
    //
    packetx { @calculatedFrom( ""x y""
    )@tag(
    42 )
@lengthOf(
    As  ) char a1`two words` ,
    @leftPad
(
    '\x00' )
    @tag(10)
@lengthOf( u)
    char[] falsey // " ++ [128512]%N ++ runes_of_ascii " emoji
,
    // " ++ [27880; 37322]%N ++ runes_of_ascii "
    }//
MetaData
f32a {
    string u128 , roots
    stringy , Header body,
    float options1
    //	t
    `it's`
    ,	i8i8 options1
`" ++ [28040; 24687; 31867; 22411]%N ++ runes_of_ascii "`
    ,
}")).
Eval vm_compute in ("<<<M248>>>" ++ check (runes_of_ascii "packet a1
    { char[]	charz @calculatedFrom(
    //x
    """ ++ [28040; 24687]%N ++ runes_of_ascii """)
,
    uint8x`crlf
line`
    , uint64 T  `line1
line2` ,
    @leftPad (
'0')
// a // b
/// triple
@calculatedFrom( ""abc"" )
@tag( 3 ) match
int // a // b
as len
{ 0	:  chars, [ 10, ""a\\"",
1 ,0 ,10 , 0
    ] : body, 007 :
    // a // b
    rootA // a // b
, } , falsey options1 , }
")).
Eval vm_compute in ("<<<M79>>>" ++ check (runes_of_ascii "packet	Pad //
{ u32 i64_
@lengthOf(u8x) `tab	here` , T,
@tag(
1) @calculatedFrom(	""CRC32""
)
    @leftPad ()
    match stringy as lengthOf	{[ 255  ,	7
    ,
""CRC32""
,""a	b"" , """ ++ [233]%N ++ runes_of_ascii "t" ++ [233]%N ++ runes_of_ascii """ ,// c
""a\""b""
    , ""\n"" ]: falsey  , /// triple
} ,string i8i8// trailing space 
@calculatedFrom( """ ++ [128512]%N ++ runes_of_ascii """
    ) ,packetx, } // c")).
Eval vm_compute in ("<<<M1437>>>" ++ check (runes_of_ascii "MetaData T {
    uint8 float,
    repeatCount x,
    char[10] asx,
    char[00] metadata `" ++ [233]%N ++ runes_of_ascii "`,
    u8x asx,
}

MetaData trueish {
    charz string_ `crlf
        line`,
    zchar[42] _x,
}

packet o {
    char[] u8x @calculatedFrom(""abc""),
}

options {
    x = 255;
    u = '0'
}")).
Eval vm_compute in ("<<<M242>>>" ++ check (runes_of_ascii "packet len{} options	{ Z9_ =  4294967296;
_x =// a // b
0
    f32a = zchar[42	] ; } root packet
    // @lengthOf(
    BodyLength // trailing space 
{ }options {
string_ =u32	;	charz =
/// triple
// packet A { u8 x, }
string
; } packet len { }")).
Eval vm_compute in ("<<<M21>>>" ++ check (runes_of_ascii "packet  Logon //	t
{pack	_x
    ,
Z9_ i8i8  `" ++ [28040; 24687; 31867; 22411]%N ++ runes_of_ascii "`	, } options
    { tag	= 4294967296 ; As = string
    ; rootA = true ; }root packet f32a { //x
@leftPad
// " ++ [27880; 37322]%N ++ runes_of_ascii "
// c
(' ') repeat _x`" ++ [233]%N ++ runes_of_ascii "`	, @rightPad ( )i8i8 len,}

")).
Eval vm_compute in ("<<<M1826>>>" ++ check (runes_of_ascii "

  packet
// `tick` ""quote"" 'q'
    	_x  {	//
		repeat  zchar[
    1 ]metadata	,	@leftPad
(' '	)	@lengthOf( T)@lengthOf(  Z9_  ) char[] As // @lengthOf(

	,
	string 
f32a	,
    } ")).
Eval vm_compute in ("<<<M152>>>" ++ check (runes_of_ascii "packet T {
int u ,
@calculatedFrom( ""\" ++ [233]%N ++ runes_of_ascii """ ) // `tick` ""quote"" 'q'
repeat// @lengthOf(
string	x_y_z// a // b
,
uint32// `tick` ""quote"" 'q'
int `crlf
line` , }
")).
Eval vm_compute in ("<<<M521>>>" ++ check (runes_of_ascii "packet uint8x
{ match pack
    as msg_type	{
    0123456789 :	float
}
,
} packet //	t
a1
    { } options {packetx
    = '\x00'	; u128= ""a	b"" ""a	b""  ; }
")).
Eval vm_compute in ("<<<M426>>>" ++ check (runes_of_ascii "packet uint8x
{ match pack
    as msg_type	{ {
    0123456789 :	float
}
,
} packet //	t
a1
    { } options {packetx
    = '\x00'	; u128= ""a	b""  ; }
")).
Eval vm_compute in ("<<<M1299>>>" ++ check (runes_of_ascii "packet A {
    u8 a,
}
packet B {
    u16 b,
}
root packet P {
    u8 K,
    match K as M {
        [1, 2] : A,
        3 : B,
        7 : A,
    },
}
")).
Eval vm_compute in ("<<<M512>>>" ++ check (runes_of_ascii "packet uint8x
{ match pack
    as msg_type	{
    0123456789 :	float
}
,
} packet //	t
a1
    { } options {packetx
    = '\x00'	; =u128 ""a	b""  ; }
")).
Eval vm_compute in ("<<<M465>>>" ++ check (runes_of_ascii "packet uint8x
{ match pack
    as msg_type	{
    0123456789 :	float
}
,
} packet //	t

    { } options {packetx
    = '\x00'	; u128= ""a	b""  ; }
")).
Eval vm_compute in ("<<<M687>>>" ++ check (runes_of_ascii "// @lengthOf(
packet i8i8 { u128 o , , }
options { MetaDataX = true;
    BodyLength =""packet"" x_y_z= 007
crc //x
= ""abc"" ;
    msg_type =
i16 }")).
Eval vm_compute in ("<<<M685>>>" ++ check (runes_of_ascii "// @lengthOf(
packet i8i8 { u128 o , }
options { MetaDataX = true;
    BodyLength =""packet"" x_y_z= 007
crc //x
= ""abc"" ;
    = msg_type
i16 }")).
Eval vm_compute in ("<<<M650>>>" ++ check (runes_of_ascii "// @lengthOf(
packet i8i8 { u128 o , }
options { MetaDataX = true;
    BodyLength =""packet"" x_y_z= 007
crc //x
=  ;
    msg_type =
i16 }")).
Eval vm_compute in ("<<<M719>>>" ++ check (runes_of_ascii "// @lengthOf(
packet i8i8 { u128 o , }
options { MetaDataX = true;
     =""packet"" x_y_z= 007
crc //x
= ""abc"" ;
    msg_type =
i16 }")).
Eval vm_compute in ("<<<M343>>>" ++ check (runes_of_ascii "packet Header { repeat char[  0123456789 ]BodyLength`" ++ [28040; 24687; 31867; 22411]%N ++ runes_of_ascii "`/// triple
, zchar[ 3
    ] chars
    ,// trailing space 
A, } //")).
Eval vm_compute in ("<<<M1153>>>" ++ check (runes_of_ascii "MetaData leftPad { chars MetaDataX , // c
} packet repeatCount { char[ 255 ] uint8x `" ++ [233]%N ++ runes_of_ascii "` , } MetaData pack { As Foo , }")).
Eval vm_compute in ("<<<M1185>>>" ++ check (runes_of_ascii "MetaData leftPad { chars MetaDataX , } packet repeatCount { char[ 255 ] uint8x `" ++ [233]%N ++ runes_of_ascii "` , } MetaData pack { As Foo // c
, }")).
Eval vm_compute in ("<<<M136>>>" ++ check (runes_of_ascii "// a // b
options { // " ++ [128512]%N ++ runes_of_ascii " emoji
calculatedFrom=
'\x00'	; BodyLength = true ;asx // packet A { u8 x, }
= true }")).
Eval vm_compute in ("<<<M1385>>>" ++ check (runes_of_ascii "// top
packet orderItem {
    u8 a,// c5a
}

// c6
root packet newOrder {
    orderItem,
    u8 x,
}// c16")).
Eval vm_compute in ("<<<M895>>>" ++ check (runes_of_ascii "packet A {
  match k as n {
    [1, ""bb"", 007, ""d"", 5, ""f"", 7, ""h"", 9, ""j"", 11] : B,
    2 : C
  },
}")).
Eval vm_compute in ("<<<M900>>>" ++ check (runes_of_ascii "packet A {
  match k as n {
    [1, 22, ""c c"", 4, 5, ""f"", 7, 8, ""i"", 10, 11] : B
    2 : C
  },
}")).
Eval vm_compute in ("<<<M863>>>" ++ check (runes_of_ascii "packet A {
  match k as n {
    [""a"", ""bb"", 007, ""d"", ""e"", 66, ""g"", ""h""] : B
    2 : C
  },
}")).
Eval vm_compute in ("<<<M842>>>" ++ check (runes_of_ascii "packet A {
  match k as n {
    [""a"", ""bb"", ""c c"", ""d"", ""e"", ""f"", ""g""] : B
    2 : C
  },
}")).
Eval vm_compute in ("<<<M856>>>" ++ check (runes_of_ascii "packet A {
  match k as n {
    [1, ""bb"", 007, ""d"", 5, ""f"", 7, ""h""] : B,
    2 : C
  },
}")).
Eval vm_compute in ("<<<M557>>>" ++ check (runes_of_ascii "
packet
     {match u128 as lengthOf
{
//	t
// `tick` ""quote"" 'q'
255 : x ,
    } ,	}")).
Eval vm_compute in ("<<<M553>>>" ++ check (runes_of_ascii "

    asx {match u128 as lengthOf
{
//	t
// `tick` ""quote"" 'q'
255 : x ,
    } ,	}")).
Eval vm_compute in ("<<<M824>>>" ++ check (runes_of_ascii "packet A {
  match k as n {
    [""a"", ""bb"", 007, ""d"", ""e""] : B
    2 : C
  },
}")).
Eval vm_compute in ("<<<M464>>>" ++ check (runes_of_ascii "packet uint8x
{ match pack
    as msg_type	{
    0123456789 :	float
}
,
}")).
Eval vm_compute in ("<<<M960>>>" ++ check (runes_of_ascii "packet A {
    B b `tab
	x`,
    B `tab
	x`,
    repeat B bs `tab
	x`,
}")).
Eval vm_compute in ("<<<M1904>>>" ++ check (runes_of_ascii "
MetaData  M{ 
u8	x
`a
    b
  c` , T
	t

    `a
    b
  c`,

}

")).
Eval vm_compute in ("<<<M784>>>" ++ check (runes_of_ascii "packet A {
  match k as n {
    [""a"", 22] : B,
    2 : C
  },
}")).
Eval vm_compute in ("<<<M775>>>" ++ check (runes_of_ascii "packet A {
  match k as n {
    [""a""] : B,
    2 : C
  },
}")).
Eval vm_compute in ("<<<M1242>>>" ++ check (runes_of_ascii "root packet
    P {

    char
	c
    , u8  x 
,

}
")).
Eval vm_compute in ("<<<M181>>>" ++ check (runes_of_ascii "options{ packetx=// " ++ [27880; 37322]%N ++ runes_of_ascii "
string Logon // " ++ [27880; 37322]%N ++ runes_of_ascii "
=  int8}")).
Eval vm_compute in ("<<<M755>>>" ++ check (runes_of_ascii "string i8 ) } u8 [ uint32 ] } = uint8 '\x00'")).
Eval vm_compute in ("<<<M1711>>>" ++ check (runes_of_ascii "
options
{
	int	=
char[]
;
}
    //
")).
Eval vm_compute in ("<<<M1387>>>" ++ check (runes_of_ascii "packet A {
    u8 x `tab
    	x`,
}")).
Eval vm_compute in ("<<<M766>>>" ++ check (runes_of_ascii "Dr1UAAa-*U|u3S?xE-Vr&9^'H>gI<.E")).
Eval vm_compute in ("<<<M1584>>>" ++ check (runes_of_ascii "  // c" ++ [133]%N ++ runes_of_ascii "
    	packet A
    {} ")).
Eval vm_compute in ("<<<M1706>>>" ++ check (runes_of_ascii "MetaData	// c
  u	{ 
} ")).
Eval vm_compute in ("<<<M1069>>>" ++ check (runes_of_ascii "// a// bpacket A {}")).
Eval vm_compute in ("<<<M1133>>>" ++ check (runes_of_ascii "MetaData u
// c
{ }")).
Eval vm_compute in ("<<<M1031>>>" ++ check (runes_of_ascii "packet A {
}
// c" ++ [11]%N)).
Eval vm_compute in ("<<<M1014>>>" ++ check (runes_of_ascii "packet A {
}// c" ++ [8233]%N)).
Eval vm_compute in ("<<<M626>>>" ++ check (runes_of_ascii "
packet
    as")).
Eval vm_compute in ("<<<M1060>>>" ++ check (runes_of_ascii "// c x")).
Eval vm_compute in ("<<<M746>>>" ++ check (runes_of_ascii "UXk")).
