From FP Require Import Lexer Parser ShowPT Digest Formatter.
From Coq Require Import String List NArith.
Import ListNotations.
Open Scope string_scope.
Set Printing Width 100000000.
Set Printing Depth 100000000.
Definition show_fres (r : fres) : string :=
  match r with
  | FOk s => "OK:" ++ sh_escaped s ""
  | FErr s => "ERR:" ++ sh_escaped s ""
  | FPanic p => "PANIC:" ++ p
  end.
Definition check (rs : list rune) : string := digest (show_fres (format_res rs)).
Definition full (rs : list rune) : string := show_fres (format_res rs).
Eval vm_compute in ("<<<M360>>>" ++ check (runes_of_ascii "options
{ MetaDataX =
// packet A { u8 x, }
// `tick` ""quote"" 'q'
true	}  root
// `tick` ""quote"" 'q'
/// triple
packet
u8x{ repeat
    uint16 u8x `" ++ [28040; 24687; 31867; 22411]%N ++ runes_of_ascii "` , @tag( //
42
// " ++ [128512]%N ++ runes_of_ascii " emoji
/// triple
) char[ /// triple
7 ]
    trueish @lengthOf(
    // " ++ [27880; 37322]%N ++ runes_of_ascii "
    Pad
    ), tag @lengthOf(A)`say ""hi""` , float rootA
, // " ++ [27880; 37322]%N ++ runes_of_ascii "
Foo , repeat uint32 calculatedFrom
, }
root packet u128 { repeat
Packet metadata, repeat
    zchar[
    0123456789 ] len
`u8 x,` ,
f32 BodyLength @lengthOf( Z9_ ) `it's` ,
match crc as Packet { 0
//x
//x
:
    i64_ , [ 255]
:rootA ,
    [""a	b""	,
    ""\" ++ [233]%N ++ runes_of_ascii """
    , ""\" ++ [233]%N ++ runes_of_ascii """	,// `tick` ""quote"" 'q'
0 /// triple
, 4294967296
] :
i8i8 , } , @tag( 1  )@calculatedFrom(	""\" ++ [233]%N ++ runes_of_ascii """
    )string f32a@calculatedFrom( ""abc"")  , repeat As{ matchKey
    {crc
    /// triple
    @calculatedFrom(
    ""// no comment"" //x
),
} ,lengthOf//
`crlf
line`
    // packet A { u8 x, }
    ,
// a // b
// a // b
T //
Pad `a\` , repeat i8i8 charz ,// a // b
}  , }
    packet	packetx{ @lengthOf( Packet
    )
repeat
    uint8x
//
// " ++ [128512]%N ++ runes_of_ascii " emoji
`line1
line2` ,@tag( 0123456789 ) string BodyLength @calculatedFrom(  """ ++ [28040; 24687]%N ++ runes_of_ascii """) ,// trailing space 
zchar[42
]
MetaDataX
    //
    , char
    A @lengthOf(
    /// triple
    tag ) `two words`, @tag(
    10 ) @calculatedFrom(""" ++ [28040; 24687]%N ++ runes_of_ascii """
// `tick` ""quote"" 'q'
//x
)
@calculatedFrom(
    ""x y"" ) char[ 7 ] repeatCount @calculatedFrom(
""// no comment""
    )	,@calculatedFrom(
""it's"" )	char[	65535 ]
packetx`// not a comment` ,
@leftPad //	t
( ' ' ) match  tag as packetx
{ 00 : int ,
    } , @tag( 7
//
// " ++ [128512]%N ++ runes_of_ascii " emoji
)@lengthOf(
    // @lengthOf(
    float
    ) @tag(  0123456789	) Z9_ , @tag( // c
00 )tag { uint16
MetaDataX
    ,
    u tag	`tab	here`,float64 Packet @calculatedFrom( ""{,}"" )	, x_y_z u128 ,
} , char[] msg_type @lengthOf( calculatedFrom ) `line1
line2`
    , } MetaData // " ++ [27880; 37322]%N ++ runes_of_ascii "
float{
    uint32
crc, charz msg_type , u128 crc , string stringy
`" ++ [233]%N ++ runes_of_ascii "`, }")).
Eval vm_compute in ("<<<M1499>>>" ++ check (runes_of_ascii "// a // b
packet

stringy{string
zchar	,

    repeat
	T

,

    match u
	as	charz
    {
	007 
    //x
    : 
    //	t
	// @lengthOf(
    float// trailing space 

,
	""\" ++ [233]%N ++ runes_of_ascii """:Logon  ""a	b""
: 
	    //	t
//	t

  pack  ,

    }
    ,
    match	uint8x
as 
    // " ++ [27880; 37322]%N ++ runes_of_ascii "
	roots
	{

1 
  // `tick` ""quote"" 'q'
: 
len

,}
	    //x
    	// " ++ [27880; 37322]%N ++ runes_of_ascii "
, } packet  zchar {
roots
options1
//x
    `// not a comment`,

    int64
	As ,i16	float 
@lengthOf(	falsey

    // " ++ [27880; 37322]%N ++ runes_of_ascii "
    	)

`a\`,  int64
msg_type
`tab	here`, @tag( 0
// `tick` ""quote"" 'q'
) repeat uint8x
, @lengthOf( 
x
	)  repeat  metadata

    ,
	zchar[

0  ] int 
,uint64 
zchar,

    zchar[7// " ++ [27880; 37322]%N ++ runes_of_ascii "
    	]  msg_type

    ,  @calculatedFrom( 
/// triple
  // " ++ [27880; 37322]%N ++ runes_of_ascii "

""" ++ [28040; 24687]%N ++ runes_of_ascii """ 
)
	crc , } root 
packet 
zchar 
{	repeat leftPad  ,}packet
	A {@lengthOf(string_

)
    x
	@lengthOf(	options1 )`two words`, 
string	len ,
	}
packet 
falsey{ i64_
    @calculatedFrom( ""{,}""
)

    ,

repeat  string  chars ,
	zchar[

    7]

    calculatedFrom, 
Header  {	char

    u `two words`
,
repeat
char[]// c
  	tag `say ""hi""` ,	Z9_@lengthOf(T )  `line1
line2` ,} ,
    msg_type
	@calculatedFrom( ""// no comment""

)

,

    @rightPad	( 	 // packet A { u8 x, }
		'\x00')

@lengthOf(asx
)
    falsey ,
    }  // packet A { u8 x, }")).
Eval vm_compute in ("<<<M8>>>" ++ check (runes_of_ascii "// @lengthOf(
packet Pad { zchar[
    0 ]Header @calculatedFrom(
""a	b"" ) // " ++ [27880; 37322]%N ++ runes_of_ascii "
`say ""hi""` , @calculatedFrom(
    ""a\""b"" // a // b
)  body @lengthOf( body// `tick` ""quote"" 'q'
)`say ""hi""` , u16 stringy@lengthOf(
    // trailing space 
    trueish ) , @lengthOf( rootA) f64 Foo `say ""hi""` // c
,u16 Z9_ , x_y_z , }
    MetaData metadata { uint64 x , trueish chars//
,
    asx lengthOf `u8 x,`  ,
} options { body // a // b
=	""packet"" } root
    packet MetaDataX {zchar[
42	]
a1
,Packet x_y_z // " ++ [27880; 37322]%N ++ runes_of_ascii "
, u8 Foo
    `u8 x,` , u64
//	t
/// triple
tag, @tag( 1 //x
)  string x_y_z @calculatedFrom( ""x y"" ) ,f32 Logon	, _x ,charz // a // b
{
    rootA metadata `crlf
line`
    , Header @calculatedFrom( ""\" ++ [233]%N ++ runes_of_ascii """ ) `` ,
i64_`line1
line2`
    // @lengthOf(
    , } ,@lengthOf(
a1// `tick` ""quote"" 'q'
) string
As	`doc`
    , @tag(
1 ) match As
    as	trueish
    //	t
    {
    [ ""`tick`""
    // trailing space 
    ] :charz,  ""packet"": asx , 42  :
packetx, [ ""a\\"" ] :
u }
,
}
/// triple
")).
Eval vm_compute in ("<<<M221>>>" ++ check (runes_of_ascii "packet u128
{ @rightPad (
' ' )
i64_ { Logon ,char[ 4294967296
    // @lengthOf(
    ] MetaDataX@calculatedFrom( """ ++ [28040; 24687]%N ++ runes_of_ascii """ ) , } // " ++ [27880; 37322]%N ++ runes_of_ascii "
,	rootA{ zchar[
    // " ++ [128512]%N ++ runes_of_ascii " emoji
    1 // a // b
]rootA ,
asx { rootA @calculatedFrom( ""abc""  ), repeat uint16 x_y_z
,
    // packet A { u8 x, }
    zchar[
42
    ] stringy ,body , }, }, @leftPad
( '\x00' ) char[ 3]Z9_ @lengthOf(  roots )
    // trailing space 
    `" ++ [233]%N ++ runes_of_ascii "`	, @lengthOf( charz	) @leftPad ( '0')@calculatedFrom(  ""a\""b"" )
    zchar[//	t
7 ]
    // @lengthOf(
    a1 @calculatedFrom( ""\" ++ [233]%N ++ runes_of_ascii """
) //
`// not a comment` ,
@lengthOf( lengthOf ) repeat
i16
chars
,int
{
    //	t
    zchar[
    1 ] calculatedFrom`line1
line2`,Packet `" ++ [28040; 24687; 31867; 22411]%N ++ runes_of_ascii "` , } ,// " ++ [128512]%N ++ runes_of_ascii " emoji
@rightPad ( '\x00'  )
    zchar[255 // `tick` ""quote"" 'q'
]
    repeatCount @calculatedFrom(""\" ++ [233]%N ++ runes_of_ascii """ ) , repeat
    char[] Pad
`a\` ,  @lengthOf( pack )	i8 int , }")).
Eval vm_compute in ("<<<M209>>>" ++ check (runes_of_ascii "packet calculatedFrom { // a // b
string charz
`two words`
//	t
//x
, } packet stringy {
@lengthOf(msg_type
)	crc
    // " ++ [128512]%N ++ runes_of_ascii " emoji
    , @leftPad
(	'0')crc @lengthOf(
u128 //	t
) ,@leftPad(
    ' '
)match
x_y_z as
rootA { [// @lengthOf(
3 ,255 ] : int
    ""1"": o ,// a // b
10:tag
, // c
10// " ++ [128512]%N ++ runes_of_ascii " emoji
: Header
    ,3 :
a1,""" ++ [128512]%N ++ runes_of_ascii """ :
packetx
    , }
// packet A { u8 x, }
// packet A { u8 x, }
, match
// " ++ [27880; 37322]%N ++ runes_of_ascii "
// a // b
o as x//x
{  ""a	b"" : u8x ,} ,  @rightPad () repeat
u packetx
,
    T // " ++ [27880; 37322]%N ++ runes_of_ascii "
,repeat
Logon ,	T{repeat
x_y_z , // a // b
i8 crc
`two words` ,
char[] calculatedFrom
    @calculatedFrom(""x y""
) , } , roots calculatedFrom,
@lengthOf(
asx)  repeat x_y_z{ T
matchKey, } , }
options { float
=char[1 ]
    ;
    msg_type // c
=i8 x =
//
// `tick` ""quote"" 'q'
zchar[ 7] ; f32a =""\n""}
")).
Eval vm_compute in ("<<<M369>>>" ++ check (runes_of_ascii "root
packet leftPad { @calculatedFrom( """ ++ [128512]%N ++ runes_of_ascii """) int64 len
`{ , }` , } packet
    u128
    { zchar[ 65535 ] chars @calculatedFrom( ""\" ++ [233]%N ++ runes_of_ascii """
    ), @lengthOf(  int
// packet A { u8 x, }
// @lengthOf(
) i64_ , crc { match	Z9_ as Logon
    {
10 : int ,
[ 0 ]
: u8x ,
// trailing space 
//x
42 :
    trueish , [ ""\" ++ [233]%N ++ runes_of_ascii """ , 4294967296
    ]
:Z9_
    ""\n""	: u128 ,	} ,
    repeat string_ uint8x, i8i8 , match u as body
{ 4294967296:
// " ++ [27880; 37322]%N ++ runes_of_ascii "
/// triple
Z9_, 10
:	Z9_,
[ """ ++ [128512]%N ++ runes_of_ascii """
    ,
    ""x y"" ]
: pack ,
    } , }
, @tag( // " ++ [128512]%N ++ runes_of_ascii " emoji
0123456789 )
    @lengthOf( calculatedFrom) @leftPad ( '\x00' // c
) zchar[ 3 ]
    T ,
match A  as
    leftPad{ [ """ ++ [28040; 24687]%N ++ runes_of_ascii """ ] :i64_""// no comment"" :
    string_
    ,
} , } // trailing space ")).
Eval vm_compute in ("<<<M1521>>>" ++ check (runes_of_ascii "packet stringy {
    repeat T {
        u64 lengthOf `tab	here`,
        repeat _x {
            match calculatedFrom as Header {
                [""" ++ [233]%N ++ runes_of_ascii "t" ++ [233]%N ++ runes_of_ascii """] : _x,
                // @lengthOf(
                [""packet""] : MetaDataX,
                255 : u128,
                42 : A,
                ""// no comment"" : body,
            },
            repeat crc Foo,
            charz,
        },
        zchar[1] i8i8 @calculatedFrom(""x y""),
        uint8x Pad `line1
        line2`,
    },
    @lengthOf(u)
    char[4294967296] crc,
    @tag(007)
    repeatCount,
    repeat char[] Header,
    @rightPad()
    char[] string_ `a\`,
}")).
Eval vm_compute in ("<<<M113>>>" ++ check (runes_of_ascii "options	{
As
= // packet A { u8 x, }
' '}MetaData o{} root packet pack
{ } packet tag // " ++ [128512]%N ++ runes_of_ascii " emoji
{ match falsey as
BodyLength	{ 4294967296
:
    lengthOf
// c
// " ++ [27880; 37322]%N ++ runes_of_ascii "
,[ ""x y""
,""a\\""
    ]
    : rootA , [
42 , ""a	b"" ,
    ""CRC32"" , 65535 ,""abc"" , 007 ]
:
u8x	""x y"" : A ,
    /// triple
    65535 :  i64_,
    0123456789 :
    Packet }
    , @lengthOf(  msg_type)	pack msg_type,
    @tag( 0 )@lengthOf( Packet
)/// triple
@tag(
3 )
//	t
// " ++ [128512]%N ++ runes_of_ascii " emoji
Foo , repeat float64 zchar, @calculatedFrom(
""a\""b""
) @lengthOf(A )@lengthOf( roots
) options1 @lengthOf(
Z9_ ),char[] T ,  }")).
Eval vm_compute in ("<<<M40>>>" ++ check (runes_of_ascii "packet stringy
//	t
//
{ repeat T// trailing space 
{ u64 lengthOf
`tab	here`  ,
repeat
_x { match calculatedFrom as Header { [""" ++ [233]%N ++ runes_of_ascii "t" ++ [233]%N ++ runes_of_ascii """
    ] : _x  ,// @lengthOf(
[""packet"" ] :
MetaDataX , 255 : u128,42 :
A
""// no comment"" : body
    , }
, repeat crc Foo, charz
    ,
}	,zchar[ 1
    ]i8i8@calculatedFrom( ""x y"" ),  uint8x
    // " ++ [27880; 37322]%N ++ runes_of_ascii "
    Pad
`line1
line2` , } ,
@lengthOf( u )
char[ //x
4294967296 ]crc, @tag(  007 //x
)repeatCount ,
repeat
    //x
    char[] Header, @rightPad ( )char[] string_ `a\` ,
    }
")).
Eval vm_compute in ("<<<M1703>>>" ++ check (runes_of_ascii "MetaData falsey {
}

root packet o {
    @tag(3)
    @calculatedFrom("""")
    @lengthOf(pack)
    char[65535] falsey @lengthOf(falsey),
}

root packet roots {
    @lengthOf(chars)
    match Logon as chars {
        ""`tick`"" : charz,
        // packet A { u8 x, }
        ""a\\"" : Z9_,
        007 : trueish,
        ""CRC32"" : msg_type,
        [
            3, 3, 00, 4294967296, 0,
            7, ""x y"", ""\" ++ [233]%N ++ runes_of_ascii """
        ] : metadata,
        ""a	b"" : crc,
    },
}")).
Eval vm_compute in ("<<<M1631>>>" ++ check (runes_of_ascii "packet Frame {
    u8 HK,
    u8 BK,
    u8 TK,
    match HK as Hdr {
        1 : HdrA,
        2 : HdrB,
    },
    match BK as Body {
        1 : BodyA,
        2 : BodyB,
    },
    match TK as Trl {
        1 : TrlA,
    },
}

packet HdrA {
    u8 a,
}

packet HdrB {
    u16 b,
}

packet BodyA {
    u32 c,
}

packet BodyB {
    u64 d,
}

packet TrlA {
    u8 e,
}

root packet Msg {
    Frame,
    u8 x,
}")).
Eval vm_compute in ("<<<M1259>>>" ++ check (runes_of_ascii "// top
packet // c0
B // c1a
  // c1b
{ // c2
u8 // c3a
  // c3b
a // c4
, } // c6
root // c7a
  // c7b
packet // c8a
  // c8b
P { // c10
u8
    // c11
K , // c13
u8 // c14a
  // c14b
L // c15a
  // c15b
@lengthOf( // c16a
  // c16b
Body )
    // c18
, match // c20
K as // c22a
  // c22b
Body
    // c23
{ 1 :
    // c26
B // c27
, }
    // c29
,
    // c30
}
    // c31
")).
Eval vm_compute in ("<<<M1668>>>" ++ check (runes_of_ascii "  root
    packet o
{ }

MetaData

uint8x
{int64 rootA,  }  MetaData
As {i32 	 // packet A { u8 x, }
	chars

, }
	packet Z9_ 	 // trailing space 
	{ @leftPad

    (

)	char[]

x_y_z ,
	}  packet tag { @leftPad
	(

// " ++ [128512]%N ++ runes_of_ascii " emoji
    // " ++ [27880; 37322]%N ++ runes_of_ascii "
  	' ')zchar[
0// `tick` ""quote"" 'q'
  	]rootA
@calculatedFrom( 
""a\\""

    )
`tab	here`

    ,
}
")).
Eval vm_compute in ("<<<M1191>>>" ++ check (runes_of_ascii "// top
MetaData // c0
uint8x // c1
{ // c2
char[] // c3
f32a // c4
`// not a comment` // c5
, // c6
float32 // c7
roots // c8
, // c9
char[ // c10
7 // c11
] // c12
u8x // c13
, // c14
zchar[ // c15
10 // c16
] // c17
f32a // c18
, // c19
u64 // c20
pack // c21
, // c22
u16 // c23
pack // c24
, // c25
} // c26
")).
Eval vm_compute in ("<<<M1525>>>" ++ check (runes_of_ascii "MetaData T {
    uint8 float,
    repeatCount x,
    char[10] asx,
    char[00] metadata `" ++ [233]%N ++ runes_of_ascii "`,
    u8x asx,
}

MetaData trueish {
    charz string_ `crlf
    line`,
    zchar[42] _x,
}

packet o {
    char[] u8x @calculatedFrom(""abc""),
}

options {
    x = 255;
    u = '0'
}")).
Eval vm_compute in ("<<<M1590>>>" ++ check (runes_of_ascii "root packet i8i8 {
    @tag(4294967296)
    // packet A { u8 x, }
    Header calculatedFrom `
        `,
    @tag(4294967296)
    @rightPad(' ')
    @lengthOf(float)
    options1 zchar `" ++ [233]%N ++ runes_of_ascii "`,
}

root packet x {
    repeat zchar[10] x `u8 x,`,
}")).
Eval vm_compute in ("<<<M273>>>" ++ check (runes_of_ascii "root packet string_ { @leftPad (
    ' ' )  chars { repeat
zchar[ 0
]  tag ,string falsey,// " ++ [128512]%N ++ runes_of_ascii " emoji
repeat  char[ 007] body  `two words`
    , } , @calculatedFrom(
""// no comment"" ) Foo T
    , // " ++ [128512]%N ++ runes_of_ascii " emoji
}
")).
Eval vm_compute in ("<<<M1586>>>" ++ check (runes_of_ascii "packet u128 {
    u8 a,
}

root packet Msg {
    u8 k,
    u24 {
        u8 Hi,
        u16 Lo,
    },
    repeat i24 {
        u32 q,
    },
    u128,
    u16 float32x,
    string s,
}")).
Eval vm_compute in ("<<<M1856>>>" ++ check (runes_of_ascii "  MetaData leftPad {

chars	MetaDataX

    ,

    }  packet	repeatCount{char[

    255
	]

    uint8x `" ++ [233]%N ++ runes_of_ascii "`, }

MetaData
	pack
	{
As
    Foo , 
        // c
}

")).
Eval vm_compute in ("<<<M418>>>" ++ check (runes_of_ascii "packet uint8x
{ match pack
    @rightPad msg_type	{
    0123456789 :	float
}
,
} packet //	t
a1
    { } options {packetx
    = '\x00'	; u128= ""a	b""  ; }
")).
Eval vm_compute in ("<<<M1272>>>" ++ check (runes_of_ascii "
options{
LittleEndian=

true; } packet
	B	{
u8 a

    ,
string  s, 
}	root

packet

P

{ u16
    L
    @lengthOf(

    B
)
,
B,
    u8
t ,  }")).
Eval vm_compute in ("<<<M545>>>" ++ check (runes_of_ascii "packet uint8x
{ match' pack
    as msg_type	{
    0123456789 :	float
}
,
} packet //	t
a1
    { } options {packetx
    = '\x00'	; u128= ""a	b""  ; }
")).
Eval vm_compute in ("<<<M498>>>" ++ check (runes_of_ascii "packet uint8x
{ match pack
    as msg_type	{
    0123456789 :	float
}
,
} packet //	t
a1
    { } options {packetx
    ; '\x00'	; u128= ""a	b""  ; }
")).
Eval vm_compute in ("<<<M415>>>" ++ check (runes_of_ascii "packet uint8x
{ match pack
     msg_type	{
    0123456789 :	float
}
,
} packet //	t
a1
    { } options {packetx
    = '\x00'	; u128= ""a	b""  ; }
")).
Eval vm_compute in ("<<<M678>>>" ++ check (runes_of_ascii "// @lengthOf(
packet i8i8 { u128 o , }
options { MetaDataX = true;
    BodyLength =""packet"" x_y_z= 007
crc //x
= ""abc"" ;
    < msg_type =
i16 }")).
Eval vm_compute in ("<<<M685>>>" ++ check (runes_of_ascii "// @lengthOf(
packet i8i8 { u128 o , }
options { MetaDataX = true;
    BodyLength =""packet"" x_y_z= 007
crc //x
= ""abc"" ;
    = msg_type
i16 }")).
Eval vm_compute in ("<<<M1606>>>" ++ check (runes_of_ascii "packet
	A {  match k	as

    n 
{ 
[ 1
    ,
22 
,""c c""
	,4
,5 ,	""f""  ,7

    ,	8 
,

""i"", 10,

    11  ]  :	B,
2 
: C  },
    }
")).
Eval vm_compute in ("<<<M37>>>" ++ check (runes_of_ascii "//
root /// triple
packet // trailing space 
pack {
@leftPad(
    ' ' )
    repeat trueish zchar ,	} root
    packet // " ++ [27880; 37322]%N ++ runes_of_ascii "
Header { }")).
Eval vm_compute in ("<<<M1593>>>" ++ check (runes_of_ascii "// c
MetaData leftPad {
    chars MetaDataX,
}

packet repeatCount {
    char[255] uint8x `" ++ [233]%N ++ runes_of_ascii "`,
}

MetaData pack {
    As Foo,
}")).
Eval vm_compute in ("<<<M1190>>>" ++ check (runes_of_ascii "MetaData leftPad { chars MetaDataX , } packet repeatCount { char[ 255 ] uint8x `" ++ [233]%N ++ runes_of_ascii "` , } MetaData pack { As Foo , }
// c
")).
Eval vm_compute in ("<<<M1168>>>" ++ check (runes_of_ascii "MetaData leftPad { chars MetaDataX , } packet repeatCount { char[ 255 ]
// c
uint8x `" ++ [233]%N ++ runes_of_ascii "` , } MetaData pack { As Foo , }")).
Eval vm_compute in ("<<<M967>>>" ++ check (runes_of_ascii "packet A {
    match k as n {
        ""x\
y"" : B,
        [""x\
y"", 1] : C,
        [1,2,3,4,5,""x\
y""] : D,
    },
}")).
Eval vm_compute in ("<<<M1418>>>" ++ check (runes_of_ascii "options

    {

    FixedStringPadFromLeft =true
; } root
    packet
    P
	{ char[
	4

    ]z

,  }
")).
Eval vm_compute in ("<<<M944>>>" ++ check (runes_of_ascii "packet A {
    Inner {
        u8 x `a

b`,
        Deep {
            u8 y `a

b`,
        },
    },
}")).
Eval vm_compute in ("<<<M885>>>" ++ check (runes_of_ascii "packet A {
  match k as n {
    [""a"", 22, ""c c"", 4, ""e"", 66, ""g"", 8, ""i"", 10] : B
    2 : C
  },
}")).
Eval vm_compute in ("<<<M605>>>" ++ check (runes_of_ascii "
packet
    asx {match u128 as lengthOf
{
//	t
// `tick` ""quote"" 'q'
255 : repeat ,
    } ,	}")).
Eval vm_compute in ("<<<M563>>>" ++ check (runes_of_ascii "
packet
    asx { {match u128 as lengthOf
{
//	t
// `tick` ""quote"" 'q'
255 : x ,
    } ,	}")).
Eval vm_compute in ("<<<M1530>>>" ++ check (runes_of_ascii "packet A {
    match k as n {
        [""a"", ""bb"", ""c c"", ""d""] : B,
        2 : C,
    },
}")).
Eval vm_compute in ("<<<M617>>>" ++ check (runes_of_ascii "
packet
    asx {match u128 as lengthOf
{
//	t
// `tick` ""quote"" 'q'
255 : x ,
    } 	}")).
Eval vm_compute in ("<<<M1275>>>" ++ check (runes_of_ascii "

  options{ FixedStringPadFromLeft
= 
true 
; }root 
packet  P {char[
    4 ]
z,
	}")).
Eval vm_compute in ("<<<M830>>>" ++ check (runes_of_ascii "packet A {
  match k as n {
    [1, ""bb"", 007, ""d"", 5, ""f""] : B,
    2 : C
  },
}")).
Eval vm_compute in ("<<<M1251>>>" ++ check (runes_of_ascii "packet
Inner
	{u8	a 
,
} root
	packet 
P
{ Inner	ref_obj,  u8	x
,

    }

")).
Eval vm_compute in ("<<<M601>>>" ++ check (runes_of_ascii "
packet
    asx {match u128 as lengthOf
{
//	t
// `tick` ""quote"" 'q'
255")).
Eval vm_compute in ("<<<M1422>>>" ++ check (runes_of_ascii "packet	A
    {match

    k
as	n {	[  ""a""]  :	B ,
2  : C}
    ,

} ")).
Eval vm_compute in ("<<<M1127>>>" ++ check (runes_of_ascii "// top
MetaData
    // c0
u
    // c1
{ // c2a
  // c2b
} // c3
")).
Eval vm_compute in ("<<<M954>>>" ++ check (runes_of_ascii "packet A {
    B b `
x`,
    B `
x`,
    repeat B bs `
x`,
}")).
Eval vm_compute in ("<<<M1408>>>" ++ check (runes_of_ascii "
root 
packet

    A	{	u8

    x `a
    b
  c` ,}

")).
Eval vm_compute in ("<<<M1208>>>" ++ check (runes_of_ascii "packet body { i32 f32a
// c
`{ , }` , } options { }")).
Eval vm_compute in ("<<<M945>>>" ++ check (runes_of_ascii "MetaData M {
    u8 x `a

b`,
    T t `a

b`,
}")).
Eval vm_compute in ("<<<M1573>>>" ++ check (runes_of_ascii "root packet A {
    u8 x `a
        b`,
}")).
Eval vm_compute in ("<<<M935>>>" ++ check (runes_of_ascii "packet A {
    u8 x `a
    b
  c`,
}")).
Eval vm_compute in ("<<<M922>>>" ++ check (runes_of_ascii "root packet A {
    u8 x `a
b`,
}")).
Eval vm_compute in ("<<<M586>>>" ++ check (runes_of_ascii "
packet
    asx {match u128 as")).
Eval vm_compute in ("<<<M757>>>" ++ check (runes_of_ascii "z>" ++ [65533]%N ++ runes_of_ascii "*" ++ [65533]%N ++ runes_of_ascii "7" ++ [65533; 65533; 65533; 65533]%N ++ runes_of_ascii "+" ++ [65533]%N ++ runes_of_ascii "~" ++ [65533; 0; 65533; 65533]%N ++ runes_of_ascii "c" ++ [1171]%N ++ runes_of_ascii "n" ++ [65533; 65533; 65533; 12; 65533]%N ++ runes_of_ascii "E>K")).
Eval vm_compute in ("<<<M1669>>>" ++ check (runes_of_ascii "MetaData
	u
{

} 
  // c")).
Eval vm_compute in ("<<<M1106>>>" ++ check (runes_of_ascii "MetaData
// c
tag { }")).
Eval vm_compute in ("<<<M95>>>" ++ check (runes_of_ascii "
packet  Logon {}
")).
Eval vm_compute in ("<<<M1046>>>" ++ check (runes_of_ascii "packet A {
}
// c" ++ [8203]%N)).
Eval vm_compute in ("<<<M1049>>>" ++ check (runes_of_ascii "packet A {
}// c" ++ [65279]%N)).
Eval vm_compute in ("<<<M319>>>" ++ check (runes_of_ascii "packet o
{
}
")).
Eval vm_compute in ("<<<M990>>>" ++ check (runes_of_ascii "// c" ++ [133]%N)).
Eval vm_compute in ("<<<M725>>>" ++ check (runes_of_ascii " ")).
