From FP Require Import Lexer Parser ShowPT Digest Formatter.
From Coq Require Import String List NArith.
Import ListNotations.
Open Scope string_scope.
Set Printing Width 100000000.
Set Printing Depth 100000000.
Definition show_fres (r : fres) : string :=
  match r with
  | FOk s => "OK:" ++ sh_escaped s ""
  | FErr s => "ERR:" ++ sh_escaped s ""
  | FPanic p => "PANIC:" ++ p
  end.
Definition check (rs : list rune) : string := digest (show_fres (format_res rs)).
Definition full (rs : list rune) : string := show_fres (format_res rs).
Eval vm_compute in ("<<<M1829>>>" ++ check (runes_of_ascii "packet Z9_ {
    @calculatedFrom(""1"")
    match body as u8x {
        [7] : u,
        [
            7, 00, ""a\""b"", """", ""\n"",
            00
        ] : charz,
        1 : Packet,
        """ ++ [28040; 24687]%N ++ runes_of_ascii """ : f32a,
        00 : len,
    },
    @lengthOf(calculatedFrom)
    MetaDataX,
    Packet @lengthOf(int),
    repeat char[7] calculatedFrom,
    @calculatedFrom(""a\\"")
    zchar[255] f32a @calculatedFrom(""" ++ [233]%N ++ runes_of_ascii "t" ++ [233]%N ++ runes_of_ascii """),
    @calculatedFrom(""a\""b"")
    char[7] i8i8 @calculatedFrom(""a\\"") `crlf
    line`,
    zchar[0123456789] x `line1
    line2`,
    @leftPad()
    repeat u64 stringy,
    @lengthOf(x)
    repeat body {
        //	t
        Z9_ {
            repeat asx,
            repeat crc i64_,
            repeat rootA {
                repeat rootA MetaDataX `line1
                line2`,
                match i64_ as calculatedFrom {
                    7 : x,
                    [7] : stringy,
                    ""1"" : i8i8,
                    [
                        ""1"", 42, """ ++ [233]%N ++ runes_of_ascii "t" ++ [233]%N ++ runes_of_ascii """, 10, 255,
                        0, 10
                    ] : u,
                    ""x y"" : i8i8,
                },
                uint64 _x `
                `,
                char[0] i64_ @calculatedFrom(""CRC32""),
            },
            x_y_z {
                char[] T,
            },
        },
        repeat u64 Foo `a\`,
        uint8 uint8x,
        match roots as chars {
            1 : _x,
            ""a\""b"" : uint8x,
            42 : metadata,
            // `tick` ""quote"" 'q'
            [""\n"", 255] : zchar,
            [
                """ ++ [233]%N ++ runes_of_ascii "t" ++ [233]%N ++ runes_of_ascii """, 3, 4294967296,
                0123456789, ""x y""
            ] : metadata,
            [""it's"", ""// no comment""] : Z9_,
        },
    },
}// a // b

MetaData rootA {
    char[4294967296] msg_type,// @lengthOf(
    char[] u128,
    uint64 a1,
    int8 crc,
    Pad msg_type `doc`,
}

//	t
/// triple
packet x_y_z {
    @lengthOf(crc)
    match packetx as f32a {
        0123456789 : A,
        00 : u,
        // @lengthOf(
    },
}")).
Eval vm_compute in ("<<<M1457>>>" ++ check (runes_of_ascii "
options
{  StringPrefixLenType  =
u16;

    ArrayPrefixLenType  = u16 ;
}
packet 
SampleBinary {

    uint16 MsgType 
`" ++ [28040; 24687; 31867; 22411]%N ++ runes_of_ascii "` , u16
	BodyLenght @lengthOf(

Body

    ) 
`" ++ [28040; 24687; 20307; 38271; 24230]%N ++ runes_of_ascii "`
, match	MsgType

    as	Body
{

    1 : Logon  , 2 
:	Logout 
, 3 
:  Heartbeat
	,4 :
RiskControlRequest  , 5

    : RiskControlResponse ,
}	,	@calculatedFrom(
	""CRC32""

    )

u32  Ckecksum `" ++ [26657; 39564; 21644]%N ++ runes_of_ascii "`, }

packet
	Logon{
    @leftPad(

    '0'	)
char[10  ] UserName	`" ++ [29992; 25143; 21517]%N ++ runes_of_ascii "`
,
string

    Password 
`" ++ [23494; 30721]%N ++ runes_of_ascii "`
	,

    uint64
	ClientId

`" ++ [23458; 25143; 31471]%N ++ runes_of_ascii "ID`
,u16

HeartbeatInterval

`" ++ [24515; 36339; 38388; 38548]%N ++ runes_of_ascii "`

,

    }

packet 
Logout
    {

@rightPad(	'0'  )char[10
    ]
UserName `" ++ [29992; 25143; 21517]%N ++ runes_of_ascii "`, 
uint64 ClientId`" ++ [23458; 25143; 31471]%N ++ runes_of_ascii "ID` 
, }

packet
    Heartbeat
	{}
packet

RiskControlRequest
{string
    UniqueOrderId `" ++ [21807; 19968; 35746; 21333; 21495]%N ++ runes_of_ascii "` ,char[16
]
	ClOrdID
	`" ++ [23458; 25143; 35746; 21333; 21495]%N ++ runes_of_ascii "` 
, char[

3 
]MarketID `" ++ [24066; 22330]%N ++ runes_of_ascii "id`

    , char[ 12
]  SecurityID 
`" ++ [35777; 21048; 20195; 30721]%N ++ runes_of_ascii "`

,  char Side
    `" ++ [20080; 21334; 26041; 21521]%N ++ runes_of_ascii "` ,

    char  OrderType
	`" ++ [35746; 21333; 31867; 22411]%N ++ runes_of_ascii "` 
, u64  Price `" ++ [20215; 26684]%N ++ runes_of_ascii "`,	u32

    Qty	`" ++ [25968; 37327]%N ++ runes_of_ascii "`
,
repeat	string
ExtraInfo`" ++ [38468; 21152; 20449; 24687]%N ++ runes_of_ascii "` 
,  repeat

SubOrder { char[

    16 ]  ClOrdID`" ++ [23376; 35746; 21333; 21495]%N ++ runes_of_ascii "`
,

u64

    Price`" ++ [23376; 35746; 21333; 20215; 26684]%N ++ runes_of_ascii "`

    ,

    u32	Qty `" ++ [23376; 35746; 21333; 25968; 37327]%N ++ runes_of_ascii "` , } 
,}packet 
RiskControlResponse
	{
    string UniqueOrderId `" ++ [21807; 19968; 35746; 21333; 21495]%N ++ runes_of_ascii "`
,i32

    Status`" ++ [29366; 24577]%N ++ runes_of_ascii "`,
	string	Msg
	`" ++ [32467; 26524; 20449; 24687]%N ++ runes_of_ascii "`

    ,	repeat

Detail, } packet 
Detail{

string
	RuleName 
`" ++ [35268; 21017; 21517; 31216]%N ++ runes_of_ascii "` ,
u16
Code 
`" ++ [21407; 22240; 20195; 30721]%N ++ runes_of_ascii "`
    ,

}")).
Eval vm_compute in ("<<<M231>>>" ++ check (runes_of_ascii "root packet
    metadata {  @lengthOf(
options1
) int32 zchar @calculatedFrom(""// no comment"" ) `
` , repeat calculatedFrom `it's`, //
match
    BodyLength as lengthOf
{ 3 /// triple
:	leftPad , }, repeat
u128, char[ 10
] chars  ,// @lengthOf(
falsey
@calculatedFrom( ""x y"") // c
`{ , }` ,	@tag(42
)	float64
    i64_
    // packet A { u8 x, }
    , u8x@calculatedFrom(  ""{,}"" ) `two words`
//	t
// trailing space 
, @lengthOf(T)
char[	255]  pack `it's`
,match MetaDataX
as i64_{
    //
    """ ++ [28040; 24687]%N ++ runes_of_ascii """ // @lengthOf(
:Header , 0
    //
    : x_y_z 3 : // `tick` ""quote"" 'q'
int""abc""
    // @lengthOf(
    : u8x ,
    } , } packet i64_
{@rightPad ( ) /// triple
pack {
match MetaDataX
    as trueish { 1 // @lengthOf(
:
    len
00	: falsey // packet A { u8 x, }
,"""" :
x ,
}, } , @tag(1) char[]int @lengthOf(	metadata
) // packet A { u8 x, }
, a1 @lengthOf( calculatedFrom ) ,
    @tag( 7
    )tag@lengthOf(u ) , BodyLength /// triple
@calculatedFrom( ""it's""
) `say ""hi""` ,string
msg_type ,
    }
    MetaData
    Logon { BodyLength
_x `it's` , int32 body ,
    // trailing space 
    } root	packet body{  }
")).
Eval vm_compute in ("<<<M1924>>>" ++ check (runes_of_ascii "// top
options {
    // c1a
    // c1b
    LittleEndian = false;
    ArrayPrefixLenType = u8;// c9
    FixedStringPadFromLeft = true;// c13
    FixedStringPadChar = '0';
    // c17
}// c18

packet Heartbeat {
    // c21
    string lastPx,
    uint8 Qty,
    // c27
    i64 Acct,
    // c30
    char[4] Ref,// c35
}

packet Fill {
    // c39
    uint8 Ref,
    Heartbeat,// c44a
    // c44b
    f32 OrderId,// c47
    repeat f32 x,// c51a
    // c51b
}

root packet Order {
    // c56a
    // c56b
    zchar[2] OrderId,
    // c61
    zchar[2] Acct,
    // c66
    zchar[1] Note,
    // c71
    zchar[9] Qty,// c76a
    // c76b
    string price,// c79
    string tag7,// c82a
    // c82b
    u32 x,// c85a
    // c85b
    match x as Body {
        // c90
        123 : Fill,
        // c94a
        // c94b
        112 : Heartbeat,
        // c98
    },// c100
    u32 seqNo @calculatedFrom(""CRC32""),
    // c106
}// c107")).
Eval vm_compute in ("<<<M104>>>" ++ check (runes_of_ascii "options{  matchKey = ""x y""
    ;	MetaDataX
= '0'
;
} packet // c
msg_type { @rightPad ( ' '  )repeat u128 body	, match body	as /// triple
pack{ [ ""\" ++ [233]%N ++ runes_of_ascii """ , ""1"" ]: BodyLength
, [ 255
, ""a	b"" , ""a\\"" , ""{,}""
,  007 , 007 ,
    0123456789
] : options1	,	} ,@leftPad
()@lengthOf(charz	)
@tag(	42
) o{	i32 msg_type @lengthOf( A )// " ++ [27880; 37322]%N ++ runes_of_ascii "
`doc` ,zchar[ 1] charz  , // c
i8 packetx`{ , }`,
msg_type `crlf
line`
    , }	,
@calculatedFrom( ""\" ++ [233]%N ++ runes_of_ascii """ ) Z9_ @calculatedFrom(
""" ++ [128512]%N ++ runes_of_ascii """ )`tab	here` ,
repeat char[] Foo ,
repeat zchar[ 0123456789]	u128
, }	packet f32a{
    f32a @lengthOf( matchKey )//x
, @rightPad (
    ' ' // " ++ [27880; 37322]%N ++ runes_of_ascii "
)@lengthOf( chars ) _x Foo  `` ,  match
    body // c
as
    body
    {	[4294967296
    , ""packet"", 3 , """ ++ [128512]%N ++ runes_of_ascii """
,
0123456789  ]
: T [ ""a\\"" ]// `tick` ""quote"" 'q'
: T
, ""\n""
:
u8x , }
//	t
//x
,} //x
root packet lengthOf
{ }
")).
Eval vm_compute in ("<<<M1775>>>" ++ check (runes_of_ascii "  //x
packet

    x
    {	@lengthOf(
string_

)

// `tick` ""quote"" 'q'
    // trailing space 
msg_type{ int// a // b

@lengthOf(

    chars  )

    //x
		// " ++ [27880; 37322]%N ++ runes_of_ascii "
	`" ++ [28040; 24687; 31867; 22411]%N ++ runes_of_ascii "` ,
int
    `a\`

    ,}
    , 
uint32 
chars 
@calculatedFrom( ""`tick`""	) 
`
` ,@lengthOf( 
packetx 	 // trailing space 
	)
	match 
metadata 
as
    x_y_z {
65535:
x ,007
	    // `tick` ""quote"" 'q'

  // " ++ [128512]%N ++ runes_of_ascii " emoji

: 
u
    [7	, ""// no comment""

    , """ ++ [28040; 24687]%N ++ runes_of_ascii """
	]

: x""a\\""
	:MetaDataX 
,

0123456789 : lengthOf 10
: 
//

  // `tick` ""quote"" 'q'
      float

} ,  u16 Logon
    @calculatedFrom(
    ""x y""	)
    `tab	here` 
	    //	t

//

,	@lengthOf(

    Foo)zchar	/// triple

	, }
	packet
	tag
{ }	root packet
    x_y_z
{
}	MetaData
int

    {
	string

A
	`" ++ [233]%N ++ runes_of_ascii "` ,}
")).
Eval vm_compute in ("<<<M1315>>>" ++ check (runes_of_ascii "// top
packet // c0
MDSnapshotZZ // c1a
  // c1b
{ // c2
u8 a // c4
, // c5a
  // c5b
} // c6
packet OrderACK // c8
{ // c9a
  // c9b
u16 b // c11
,
    // c12
} // c13a
  // c13b
packet
    // c14
HTTPServerInfo
    // c15
{ // c16
string s
    // c18
,
    // c19
}
    // c20
root // c21a
  // c21b
packet // c22
FIXMsg // c23
{ u8 // c25a
  // c25b
KType // c26a
  // c26b
, // c27a
  // c27b
MDSnapshotZZ
    // c28
, // c29a
  // c29b
repeat
    // c30
OrderACK , // c32a
  // c32b
match // c33
KType as // c35a
  // c35b
Body // c36
{
    // c37
1 :
    // c39
HTTPServerInfo , 2 // c42
:
    // c43
OrderACK
    // c44
, } // c46a
  // c46b
,
    // c47
} // c48a
  // c48b
")).
Eval vm_compute in ("<<<M206>>>" ++ check (runes_of_ascii "//x
root
    // " ++ [128512]%N ++ runes_of_ascii " emoji
    packet
// `tick` ""quote"" 'q'
/// triple
float{options1 A
,@tag(
42 )
    u8x{ tag //x
@calculatedFrom(	""\" ++ [233]%N ++ runes_of_ascii """) // packet A { u8 x, }
`tab	here` ,
    }
    , int16 asx ,
    @lengthOf( o
    )
@rightPad( ) repeat int
/// triple
/// triple
Logon,@calculatedFrom(""// no comment"" )  @leftPad('\x00')
    @rightPad('0'	)	zchar[ 65535 //x
] o `
`
    ,
    repeat As{ //x
repeat uint16 o ,repeat
char[ // trailing space 
1
    ]o ,
u128
metadata	, repeat char[7	] Header ,
    } , @tag( 0123456789
    ) a1 tag
    , float32 asx ,
    repeat // packet A { u8 x, }
len
``
    ,}
")).
Eval vm_compute in ("<<<M327>>>" ++ check (runes_of_ascii "root packet asx
    { tag body `u8 x,` , }
packet string_ {
    @lengthOf(
len // a // b
)repeat	zchar[ 42 ] u8x,zchar[ 0 ] asx
    , } packet
// " ++ [128512]%N ++ runes_of_ascii " emoji
// " ++ [27880; 37322]%N ++ runes_of_ascii "
int {repeat crc
    { zchar float , match
    i8i8 as rootA//x
{ 255 : lengthOf , 1 :lengthOf
,3
    :
roots , 3 : uint8x ,0
    :As , ""`tick`"" :	repeatCount , }  , repeat
/// triple
//
char[]
falsey ,
    u64 lengthOf ,} , @lengthOf( crc ) lengthOf i64_ , leftPad
`crlf
line`, }
    root	packet zchar{ f32 _x @calculatedFrom( ""a\\"" ), }	MetaData chars // trailing space 
{//
}")).
Eval vm_compute in ("<<<M1346>>>" ++ check (runes_of_ascii "options {
    ArrayPrefixLenType = u64;
    FixedStringPadFromLeft = true;
    FixedStringPadChar = '0';
}
packet Quote {
}
packet Ack {
    repeat InNote66 {
        u8 pad0,
    },
}
packet Reject {
}
root packet Order {
    Quote,
    repeat Reject,
    string venue,
    string seqNo,
    uint32 Ref,
    u16 lastPx,
    u32 clOrdID @lengthOf(Body),
    match lastPx as Body {
        190 : Reject,
        186 : Quote,
        22 : Ack,
    },
    u16 Flags @calculatedFrom(""CRC32""),
}
")).
Eval vm_compute in ("<<<M180>>>" ++ check (runes_of_ascii "options
    // @lengthOf(
    {}
packet charz { @rightPad (  ' ') @calculatedFrom(
    ""a\\"" ) repeat int	crc `two words` , string stringy
    @calculatedFrom( ""a	b""
    // " ++ [128512]%N ++ runes_of_ascii " emoji
    )`// not a comment`	,//
char i8i8,
}  MetaData	crc {// `tick` ""quote"" 'q'
crc i64_`{ , }`
,
    // `tick` ""quote"" 'q'
    i32// c
u128 ,// packet A { u8 x, }
BodyLength Header
    ,char[ 0123456789]
/// triple
//
Packet `u8 x,`
, uint8 repeatCount , //	t
}")).
Eval vm_compute in ("<<<M306>>>" ++ check (runes_of_ascii "packet rootA { @tag(0123456789 ) options1 {int32 uint8x
    `u8 x,`
    , u8x
//x
// packet A { u8 x, }
{
    match Header as
    metadata {[	10 ]
: pack } ,
    } , f64 // `tick` ""quote"" 'q'
chars , }
, @lengthOf( body ) u64
// @lengthOf(
//
Z9_ , }
MetaData repeatCount
    {zchar[10 ] string_ , f64 A
, u32 BodyLength , zchar[ 00 ] uint8x ,
    trueish
leftPad,char[ 65535  ] rootA	, }
//	t
")).
Eval vm_compute in ("<<<M1556>>>" ++ check (runes_of_ascii "packet T {
    @tag(00)
    repeat char[] charz `
    `,
    char[0123456789] BodyLength @lengthOf(Z9_) `u8 x,`,
}

MetaData crc {
    float64 int `" ++ [28040; 24687; 31867; 22411]%N ++ runes_of_ascii "`,
    As Logon ``,// `tick` ""quote"" 'q'
    uint8 u,
    u32 stringy `
    `,
    // a // b
    //	t
    uint64 uint8x,
    asx calculatedFrom,//x
}

MetaData chars {
    char[1] chars,
}// trailing space ")).
Eval vm_compute in ("<<<M240>>>" ++ check (runes_of_ascii "
packet BodyLength { repeatCount // packet A { u8 x, }
`// not a comment`
,
@lengthOf( lengthOf	)  @tag( 65535
    )@rightPad (
// @lengthOf(
//	t
'0' )/// triple
u8 Logon , } packet chars { o msg_type , @tag( 10)zchar[ 65535
] f32a
,repeat char[]
i64_
`
` ,} root packet f32a { @tag( 255 )repeat u8 stringy, }
")).
Eval vm_compute in ("<<<M1138>>>" ++ check (runes_of_ascii "// top
MetaData // c0
leftPad // c1
{ // c2
chars // c3
MetaDataX // c4
, // c5
} // c6
packet // c7
repeatCount // c8
{ // c9
char[ // c10
255 // c11
] // c12
uint8x // c13
`" ++ [233]%N ++ runes_of_ascii "` // c14
, // c15
} // c16
MetaData // c17
pack // c18
{ // c19
As // c20
Foo // c21
, // c22
} // c23
")).
Eval vm_compute in ("<<<M1253>>>" ++ check (runes_of_ascii "// top
packet // c0
Inner // c1
{ // c2
u8 // c3a
  // c3b
a // c4
,
    // c5
} // c6
root // c7
packet // c8a
  // c8b
P // c9
{ // c10a
  // c10b
repeat // c11a
  // c11b
Inner items // c13
, // c14
u8
    // c15
x , // c17a
  // c17b
} // c18
")).
Eval vm_compute in ("<<<M351>>>" ++ check (runes_of_ascii "MetaData leftPad// packet A { u8 x, }
{ string u128 `say ""hi""` //
, // c
A packetx
    //	t
    , char[
//
// packet A { u8 x, }
42
]
leftPad
    `tab	here` // trailing space 
,i16 crc ,
string uint8x // a // b
,
}")).
Eval vm_compute in ("<<<M1311>>>" ++ check (runes_of_ascii "options {
    FixedStringPadChar = '0';
}
packet Q {
    zchar[4] z,
    @rightPad('\x00') char[3] n,
    char[5] d,
}
root packet R {
    Q,
    zchar[8] top,
    repeat zchar[2] zs,
}
")).
Eval vm_compute in ("<<<M1441>>>" ++ check (runes_of_ascii "// top
packet Inner {
    // c2a
    // c2b
    u8 a,
}

// c6
root packet P {
    // c10
    Inner ref_obj,// c13a
    // c13b
    u8 x,
    // c16
}// c17a
// c17b")).
Eval vm_compute in ("<<<M396>>>" ++ check (runes_of_ascii "packet uint8x uint8x
{ match pack
    as msg_type	{
    0123456789 :	float
}
,
} packet //	t
a1
    { } options {packetx
    = '\x00'	; u128= ""a	b""  ; }
")).
Eval vm_compute in ("<<<M466>>>" ++ check (runes_of_ascii "packet uint8x
{ match pack
    as msg_type	{
    0123456789 :	float
}
,
} packet //	t
a1 a1
    { } options {packetx
    = '\x00'	; u128= ""a	b""  ; }
")).
Eval vm_compute in ("<<<M1596>>>" ++ check (runes_of_ascii "packet A {
    u8 a,
}

packet B {
    u16 b,
}

root packet P {
    u8 K,
    match K as M {
        [1, 2] : A,
        3 : B,
        7 : A,
    },
}")).
Eval vm_compute in ("<<<M467>>>" ++ check (runes_of_ascii "packet uint8x
{ match pack
    as msg_type	{
    0123456789 :	float
}
,
} packet //	t
{
    a1 } options {packetx
    = '\x00'	; u128= ""a	b""  ; }
")).
Eval vm_compute in ("<<<M505>>>" ++ check (runes_of_ascii "packet uint8x
{ match pack
    as msg_type	{
    0123456789 :	float
}
,
} packet //	t
a1
    { } options {packetx
    = '\x00'	 u128= ""a	b""  ; }
")).
Eval vm_compute in ("<<<M405>>>" ++ check (runes_of_ascii "packet uint8x
{  pack
    as msg_type	{
    0123456789 :	float
}
,
} packet //	t
a1
    { } options {packetx
    = '\x00'	; u128= ""a	b""  ; }
")).
Eval vm_compute in ("<<<M490>>>" ++ check (runes_of_ascii "packet uint8x
{ match pack
    as msg_type	{
    0123456789 :	float
}
,
} packet //	t
a1
    { } options {
    = '\x00'	; u128= ""a	b""  ; }
")).
Eval vm_compute in ("<<<M71>>>" ++ check (runes_of_ascii "root packet MetaDataX
{repeat u8x len `" ++ [28040; 24687; 31867; 22411]%N ++ runes_of_ascii "`,
As { u8x
, } , int f32a
`" ++ [233]%N ++ runes_of_ascii "`, @lengthOf( float ) Z9_
// @lengthOf(
// trailing space 
`a\` , }")).
Eval vm_compute in ("<<<M1454>>>" ++ check (runes_of_ascii "packet A {
    match k as n {
        [
            ""a"", ""bb"", ""c c"", ""d"", ""e"",
            ""f""
        ] : B,
        2 : C,
    },
}")).
Eval vm_compute in ("<<<M259>>>" ++ check (runes_of_ascii "  MetaData repeatCount // c
{char[
42 // " ++ [27880; 37322]%N ++ runes_of_ascii "
]
    // " ++ [128512]%N ++ runes_of_ascii " emoji
    MetaDataX ,
    // @lengthOf(
    zchar[
// " ++ [27880; 37322]%N ++ runes_of_ascii "
//x
0] asx , }
")).
Eval vm_compute in ("<<<M171>>>" ++ check (runes_of_ascii "options { Pad=	'\x00' ; u
= false  repeatCount
    = false ;// trailing space 
T
=// a // b
""CRC32"" ;
    a1 = ""it's""}
")).
Eval vm_compute in ("<<<M1167>>>" ++ check (runes_of_ascii "MetaData leftPad { chars MetaDataX , } packet repeatCount { char[ 255 ] // c
uint8x `" ++ [233]%N ++ runes_of_ascii "` , } MetaData pack { As Foo , }")).
Eval vm_compute in ("<<<M1437>>>" ++ check (runes_of_ascii "packet A {
    Inner {
        u8 x `
        `,
        Deep {
            u8 y `
            `,
        },
    },
}")).
Eval vm_compute in ("<<<M494>>>" ++ check (runes_of_ascii "packet uint8x
{ match pack
    as msg_type	{
    0123456789 :	float
}
,
} packet //	t
a1
    { } options {")).
Eval vm_compute in ("<<<M1285>>>" ++ check (runes_of_ascii "// top
root
    // c0
packet // c1a
  // c1b
P
    // c2
{ // c3
string s // c5a
  // c5b
,
    // c6
} ")).
Eval vm_compute in ("<<<M1431>>>" ++ check (runes_of_ascii "MetaData chars {
    x_y_z x `line1
    line2`,
    _x A `// not a comment`,
}// `tick` ""quote"" 'q'")).
Eval vm_compute in ("<<<M871>>>" ++ check (runes_of_ascii "packet A {
  match k as n {
    [""a"", 22, ""c c"", 4, ""e"", 66, ""g"", 8, ""i""] : B,
    2 : C
  },
}")).
Eval vm_compute in ("<<<M474>>>" ++ check (runes_of_ascii "packet uint8x
{ match pack
    as msg_type	{
    0123456789 :	float
}
,
} packet //	t
a1")).
Eval vm_compute in ("<<<M1865>>>" ++ check (runes_of_ascii "packet A {
    B b `a
    
    b`,
    B `a
    
    b`,
    repeat B bs `a
    
    b`,
}")).
Eval vm_compute in ("<<<M857>>>" ++ check (runes_of_ascii "packet A {
  match k as n {
    [1, ""bb"", 007, ""d"", 5, ""f"", 7, ""h""] : B
    2 : C
  },
}")).
Eval vm_compute in ("<<<M390>>>" ++ check (runes_of_ascii "root packet SimpleMessage {
	uint16 MsgType `" ++ [28040; 24687; 31867; 22411]%N ++ runes_of_ascii "`,
	string JsonBody `Json" ++ [23383; 31526; 20018; 28040; 24687; 20307]%N ++ runes_of_ascii "`,
}")).
Eval vm_compute in ("<<<M1292>>>" ++ check (runes_of_ascii "

  root
    packet

P

    {
	u8
	s_u8,  repeat  u8 r_u8  , u16
    b_len, }

")).
Eval vm_compute in ("<<<M803>>>" ++ check (runes_of_ascii "packet A {
  match k as n {
    [""a"", ""bb"", ""c c"", ""d""] : B
    2 : C
  },
}")).
Eval vm_compute in ("<<<M805>>>" ++ check (runes_of_ascii "packet A {
  match k as n {
    [1, ""bb"", 007, ""d""] : B
    2 : C
  },
}")).
Eval vm_compute in ("<<<M864>>>" ++ check (runes_of_ascii "packet A { Inner { match k as n { [1,22,007,4,5,66,7,8] : B, }, }, }")).
Eval vm_compute in ("<<<M534>>>" ++ check (runes_of_ascii "packet uint8x
{ match pack
    as msg_type	{
    0123456789 :	")).
Eval vm_compute in ("<<<M1287>>>" ++ check (runes_of_ascii "root packet P {
    repeat string ss,
    repeat u16 ns,
}
")).
Eval vm_compute in ("<<<M1245>>>" ++ check (runes_of_ascii "root
    packet	P
{repeat

char 
cs  ,u8

    x ,} ")).
Eval vm_compute in ("<<<M1214>>>" ++ check (runes_of_ascii "packet body { i32 f32a `{ , }` , }
// c
options { }")).
Eval vm_compute in ("<<<M1555>>>" ++ check (runes_of_ascii "  root packet 
P

{char

    c 
,
	u8 x
,

}
")).
Eval vm_compute in ("<<<M965>>>" ++ check (runes_of_ascii "options {
    a = ""x\
y"";
    b = ""x\
y""
}")).
Eval vm_compute in ("<<<M708>>>" ++ check (runes_of_ascii "// @lengthOf(
packet i8i8 { u128 o ,")).
Eval vm_compute in ("<<<M958>>>" ++ check (runes_of_ascii "root packet A {
    u8 x `
x`,
}")).
Eval vm_compute in ("<<<M1003>>>" ++ check (runes_of_ascii "packet A {
 u8 x `d" ++ [8192]%N ++ runes_of_ascii "`, // c" ++ [8192]%N ++ runes_of_ascii "
}")).
Eval vm_compute in ("<<<M953>>>" ++ check (runes_of_ascii "packet A {
    u8 x `
x`,
}")).
Eval vm_compute in ("<<<M1104>>>" ++ check (runes_of_ascii "
// c
MetaData tag { }")).
Eval vm_compute in ("<<<M211>>>" ++ check (runes_of_ascii "MetaData
roots {
}

")).
Eval vm_compute in ("<<<M976>>>" ++ check (runes_of_ascii "packet A {
}
// c ")).
Eval vm_compute in ("<<<M1057>>>" ++ check (runes_of_ascii "// c" ++ [6158]%N ++ runes_of_ascii "
packet A {
}")).
Eval vm_compute in ("<<<M1228>>>" ++ check (runes_of_ascii "packet x // c
{ }")).
Eval vm_compute in ("<<<M3>>>" ++ check (runes_of_ascii "options {}

")).
Eval vm_compute in ("<<<M1015>>>" ++ check (runes_of_ascii "// c" ++ [8233]%N)).
Eval vm_compute in ("<<<M72>>>" ++ check (@nil rune)).
