From FP Require Import Lexer Parser ShowPT Digest Formatter.
From Coq Require Import String List NArith.
Import ListNotations.
Open Scope string_scope.
Set Printing Width 100000000.
Set Printing Depth 100000000.
Definition show_fres (r : fres) : string :=
  match r with
  | FOk s => "OK:" ++ sh_escaped s ""
  | FErr s => "ERR:" ++ sh_escaped s ""
  | FPanic p => "PANIC:" ++ p
  end.
Definition check (rs : list rune) : string := digest (show_fres (format_res rs)).
Definition full (rs : list rune) : string := show_fres (format_res rs).
Eval vm_compute in ("<<<M1562>>>" ++ check (runes_of_ascii "
packet Z9_	//x
    {@calculatedFrom(
	""1"" ) match 
body
	as
u8x

    {[7
	] :
u
,	[ 7,
    00 
, ""a\""b""
,""""
,

    ""\n"" 
, 00

]

    :
charz , 1

    :	// c
    	Packet ,""" ++ [28040; 24687]%N ++ runes_of_ascii """ :
    f32a
    ,  00 :	// trailing space 
    len
	}	,

    @lengthOf(  calculatedFrom

) MetaDataX

    ,

Packet @lengthOf(

    int )
    ,  repeat 	 // `tick` ""quote"" 'q'
char[	7 
]
calculatedFrom,
@calculatedFrom(
""a\\""
	)
	zchar[ 	 //
	255 // " ++ [128512]%N ++ runes_of_ascii " emoji
	]f32a@calculatedFrom(
    """ ++ [233]%N ++ runes_of_ascii "t" ++ [233]%N ++ runes_of_ascii """  ) 
,
@calculatedFrom(
""a\""b"" // packet A { u8 x, }
)char[
	7 

    //	t
    ]

    i8i8
	@calculatedFrom(

    ""a\\""
    )

    `crlf
line`
,

zchar[ 0123456789
    ]

    x  `line1
line2`

    ,@leftPad

( 
)
repeat
u64
stringy
,
	@lengthOf(	x )
repeat  body {//	t
  Z9_ {
repeat	asx  , repeat 
crc
    i64_// " ++ [27880; 37322]%N ++ runes_of_ascii "
    ,

repeat rootA
{  repeat rootA MetaDataX
    `line1
line2`
        // `tick` ""quote"" 'q'
	,
match
i64_ 
as 
calculatedFrom	{

7 : x
[	7]
:stringy	,

    ""1"" 
: i8i8,

[ ""1"" ,
42
    ,
        // trailing space 
/// triple
		""" ++ [233]%N ++ runes_of_ascii "t" ++ [233]%N ++ runes_of_ascii """	, 
10 ,

255
	,	0 
,

10 
]
    : u ,

""x y"" 
:

    i8i8 } 

// `tick` ""quote"" 'q'

//x
,
uint64
	_x
`
` , 
char[

0

]
	i64_

@calculatedFrom( ""CRC32"" )
    ,
	},

x_y_z{	char[]T 
	// a // b
  	// @lengthOf(
    ,
}

, }
	,  repeat
	u64

Foo	`a\`, 
uint8

    uint8x

,  match 

    //	t

  // trailing space 
	roots
	as chars
{

1	: _x
""a\""b""
    :

uint8x
    , 
42:metadata// " ++ [128512]%N ++ runes_of_ascii " emoji
	,// `tick` ""quote"" 'q'

[// @lengthOf(
  	""\n""	,
    255
    ] :
zchar [
""" ++ [233]%N ++ runes_of_ascii "t" ++ [233]%N ++ runes_of_ascii """
,
3  ,

4294967296
,  // trailing space 

  0123456789 ,

""x y""
]

: metadata
    [ // c

	""it's""
, ""// no comment"" ]: 
Z9_,
}

,
} , }	// a // b

MetaData
rootA
{ char[	4294967296  ]	msg_type

,// @lengthOf(

	char[]u128
	,uint64 a1
    ,int8 
crc ,	Pad

msg_type `doc` 
,
	} 
    //	t

/// triple
    packet x_y_z	{  @lengthOf(crc  ) match packetx
as
    f32a

{ 0123456789
    : A
	,  00 :

    u  // @lengthOf(
	} 
, }

")).
Eval vm_compute in ("<<<M1863>>>" ++ check (runes_of_ascii "MetaData Pad {
    char[] Packet,
    f32a i64_ `tab	here`,
}

root packet As {
    @calculatedFrom(""CRC32"")
    @calculatedFrom(""1"")
    @calculatedFrom(""// no comment"")
    As As `say ""hi""`,
    Foo msg_type,
    calculatedFrom @calculatedFrom(""\n""),
    zchar {
        zchar[7] charz @calculatedFrom(""x y""),
        Z9_ `{ , }`,
        repeat int {
            zchar[3] i8i8 @lengthOf(chars),
            match zchar as o {
                1 : u128,
                0 : stringy,
                42 : charz,
                ""x y"" : a1,
                3 : Header,
                4294967296 : o,
            },
            repeat Header `two words`,
            match u8x as u8x {
                [10] : pack,
                1 : BodyLength,
                //
                // " ++ [27880; 37322]%N ++ runes_of_ascii "
                0 : MetaDataX,
                42 : calculatedFrom,
            },
        },
    },// " ++ [27880; 37322]%N ++ runes_of_ascii "
}

// `tick` ""quote"" 'q'
/// triple
packet i64_ {
}

root packet x {
    Header {
        char[0] _x `// not a comment`,
    },
    @lengthOf(A)
    uint32 f32a @calculatedFrom(""abc""),
    repeat i16 trueish `u8 x,`,
    @rightPad(' ')
    @calculatedFrom(""a\\"")
    float,
    repeat char[7] zchar,
    @tag(10)
    repeat a1 falsey `say ""hi""`,
    @lengthOf(len)
    repeat zchar[00] uint8x,
}

MetaData metadata {
    u8 body,
}")).
Eval vm_compute in ("<<<M231>>>" ++ check (runes_of_ascii "root packet
    metadata {  @lengthOf(
options1
) int32 zchar @calculatedFrom(""// no comment"" ) `
` , repeat calculatedFrom `it's`, //
match
    BodyLength as lengthOf
{ 3 /// triple
:	leftPad , }, repeat
u128, char[ 10
] chars  ,// @lengthOf(
falsey
@calculatedFrom( ""x y"") // c
`{ , }` ,	@tag(42
)	float64
    i64_
    // packet A { u8 x, }
    , u8x@calculatedFrom(  ""{,}"" ) `two words`
//	t
// trailing space 
, @lengthOf(T)
char[	255]  pack `it's`
,match MetaDataX
as i64_{
    //
    """ ++ [28040; 24687]%N ++ runes_of_ascii """ // @lengthOf(
:Header , 0
    //
    : x_y_z 3 : // `tick` ""quote"" 'q'
int""abc""
    // @lengthOf(
    : u8x ,
    } , } packet i64_
{@rightPad ( ) /// triple
pack {
match MetaDataX
    as trueish { 1 // @lengthOf(
:
    len
00	: falsey // packet A { u8 x, }
,"""" :
x ,
}, } , @tag(1) char[]int @lengthOf(	metadata
) // packet A { u8 x, }
, a1 @lengthOf( calculatedFrom ) ,
    @tag( 7
    )tag@lengthOf(u ) , BodyLength /// triple
@calculatedFrom( ""it's""
) `say ""hi""` ,string
msg_type ,
    }
    MetaData
    Logon { BodyLength
_x `it's` , int32 body ,
    // trailing space 
    } root	packet body{  }
")).
Eval vm_compute in ("<<<M1829>>>" ++ check (runes_of_ascii "// top
options {
    // c1a
    // c1b
    LittleEndian = false;
    ArrayPrefixLenType = u8;// c9
    FixedStringPadFromLeft = true;// c13
    FixedStringPadChar = '0';
    // c17
}// c18

packet Heartbeat {
    // c21
    string lastPx,
    uint8 Qty,
    // c27
    i64 Acct,
    // c30
    char[4] Ref,// c35
}

packet Fill {
    // c39
    uint8 Ref,
    Heartbeat,// c44a
    // c44b
    f32 OrderId,// c47
    repeat f32 x,// c51a
    // c51b
}

root packet Order {
    // c56a
    // c56b
    zchar[2] OrderId,
    // c61
    zchar[2] Acct,
    // c66
    zchar[1] Note,
    // c71
    zchar[9] Qty,// c76a
    // c76b
    string price,// c79
    string tag7,// c82a
    // c82b
    u32 x,// c85a
    // c85b
    match x as Body {
        // c90
        123 : Fill,
        // c94a
        // c94b
        112 : Heartbeat,
        // c98
    },// c100
    u32 seqNo @calculatedFrom(""CRC32""),
    // c106
}// c107")).
Eval vm_compute in ("<<<M188>>>" ++ check (runes_of_ascii "// packet A { u8 x, }
root
    packet
    leftPad { @calculatedFrom(
    //x
    ""`tick`"" )	@rightPad( )
    // " ++ [128512]%N ++ runes_of_ascii " emoji
    string_
// `tick` ""quote"" 'q'
// a // b
@lengthOf(	tag
    ) `a\` ,i64 T
    `" ++ [233]%N ++ runes_of_ascii "`,//	t
}
packet
Pad// @lengthOf(
{ @lengthOf(	float ) char[] x@calculatedFrom(
    ""a\""b"")
    , // trailing space 
@tag(
    0// " ++ [128512]%N ++ runes_of_ascii " emoji
) // " ++ [27880; 37322]%N ++ runes_of_ascii "
repeatCount// packet A { u8 x, }
,
repeat rootA{
_x
    ,zchar[3 ]roots
    /// triple
    `crlf
line` ,
}
,
/// triple
// a // b
match
    metadata as BodyLength
    { [
    // c
    10 , 10 , ""a\""b"", """"	, ""\n""
,  ""a\\"" , 4294967296]  :
    u
, }
, repeat	i64_ Packet `" ++ [28040; 24687; 31867; 22411]%N ++ runes_of_ascii "`
,@tag( // packet A { u8 x, }
65535)
    char[] float`it's`
, char[7 ]
    x @calculatedFrom( ""{,}"" ),
    }MetaData leftPad// a // b
{ body rootA
`crlf
line`
, int64
msg_type
`doc`
    , // @lengthOf(
}
")).
Eval vm_compute in ("<<<M1124>>>" ++ check (runes_of_ascii "// top
options
    // c0
{ // c1
uint8x // c2a
  // c2b
= 007 // c4a
  // c4b
; lengthOf
    // c6
= i8 ; // c9a
  // c9b
} packet i64_
    // c12
{ // c13
@calculatedFrom( // c14
""1""
    // c15
) // c16
@tag( // c17
3 )
    // c19
@lengthOf(
    // c20
rootA ) // c22
repeat // c23
int8 // c24a
  // c24b
Packet // c25a
  // c25b
`u8 x,` // c26
, // c27
} // c28a
  // c28b
root
    // c29
packet // c30a
  // c30b
stringy
    // c31
{ // c32a
  // c32b
@rightPad ( ' ' // c35
) // c36
repeat // c37a
  // c37b
char[ // c38
10 // c39
] repeatCount // c41a
  // c41b
, // c42
@tag( // c43a
  // c43b
255
    // c44
) // c45
float64
    // c46
msg_type
    // c47
@calculatedFrom( ""packet""
    // c49
) // c50a
  // c50b
, // c51a
  // c51b
} // c52
")).
Eval vm_compute in ("<<<M117>>>" ++ check (runes_of_ascii "// a // b
packet	u128  {
    repeat chars	{i64 u8x
`
`// a // b
, // c
_x
@lengthOf(  falsey
    )
,
    Logon
`" ++ [28040; 24687; 31867; 22411]%N ++ runes_of_ascii "` ,repeat char[]
trueish `tab	here` ,}
    , } root packet T { match Packet
as
trueish {
""packet"" : charz
    ,
    [4294967296 , ""1"" ] : A , 7 : x
    // " ++ [27880; 37322]%N ++ runes_of_ascii "
    , [
    // a // b
    7 ,""a	b""
    ]
:	u128 255 :
As
    3:
Packet,} ,
//	t
// trailing space 
pack
`a\` , @calculatedFrom( """ ++ [233]%N ++ runes_of_ascii "t" ++ [233]%N ++ runes_of_ascii """ //	t
)
    rootA matchKey  ,
char[ 65535]/// triple
leftPad @lengthOf( roots
    //
    ) , repeat MetaDataX { u64
    a1 @calculatedFrom(""x y"" ) `doc`  ,//	t
uint8 falsey
,
match BodyLength as A
{  [ ""\" ++ [233]%N ++ runes_of_ascii """,255 ,"""" ,
    ""it's"" ] :	Foo ,
3 : u128}	, } ,	}
")).
Eval vm_compute in ("<<<M1344>>>" ++ check (runes_of_ascii "options { 
LittleEndian 
=
false;
    ArrayPrefixLenType=  u8 ;

    FixedStringPadFromLeft
	= true

;
    FixedStringPadChar
= '0'; } packet Heartbeat{

string

    lastPx
,  uint8
Qty ,i64
Acct , 
char[
4
]
    Ref,

    }  packet Fill	{

    uint8
Ref ,

Heartbeat	,
	f32 OrderId

, repeat
	f32
x , 
}
root packet

Order {zchar[	2
    ]  OrderId ,
    zchar[
2
    ] Acct
,zchar[ 
1
]Note,
zchar[ 9]

    Qty
,
string  price 
,	string tag7

    ,u32
x ,match 
x as

    Body	{
123
:	Fill 
,

112:

    Heartbeat,
}

    ,

u32 seqNo@calculatedFrom(
	""CRC32"")
	,	}
")).
Eval vm_compute in ("<<<M66>>>" ++ check (runes_of_ascii "packet	int {// @lengthOf(
repeat
string
    BodyLength
    `a\`
    , } packet repeatCount { @lengthOf( x_y_z ) crc ,
    match Packet as
Z9_{""// no comment"" :MetaDataX ,
//	t
// a // b
[  00, 7]: chars ,""CRC32""
    : zchar 42: stringy //	t
, [ ""a\""b"",""1""// a // b
] : u ,
},
@rightPad
( ' ' )
@lengthOf( i64_//x
)
    repeat
f64
x `two words`
    , @calculatedFrom(""`tick`""	) int64 falsey @lengthOf(//x
u128 ) , charz
    {
    //x
    char[]
    T
// c
// " ++ [27880; 37322]%N ++ runes_of_ascii "
`a\` ,
}
,@lengthOf(
    u8x)string_, repeat
// " ++ [128512]%N ++ runes_of_ascii " emoji
//	t
x
    , }
")).
Eval vm_compute in ("<<<M1668>>>" ++ check (runes_of_ascii "packet tag {
    string matchKey `line1
        line2`,
    @tag(0)
    // c
    @calculatedFrom(""1"")
    @calculatedFrom(""a\""b"")
    float64 matchKey,
}

options {
    crc = true
    msg_type = true;
}

packet o {
    match roots as calculatedFrom {
        ""// no comment"" : msg_type,
        ""{,}"" : u128,
        [65535, 0123456789] : body,
        // " ++ [128512]%N ++ runes_of_ascii " emoji
    },
    @rightPad(' ')
    repeat string_ i64_,
    @lengthOf(lengthOf)
    @tag(255)
    @tag(00)
    char[] stringy,
}")).
Eval vm_compute in ("<<<M1874>>>" ++ check (runes_of_ascii "options {
    rootA = 4294967296;
    falsey = ""a\""b"";
    As = """";
    packetx = ""packet""
    i8i8 = true;
}// `tick` ""quote"" 'q'

packet x {
    repeat zchar rootA,
    char[] pack `// not a comment`,
    @tag(00)
    @tag(0123456789)
    u @calculatedFrom(""packet"") `u8 x,`,
    Header {
        zchar[00] body,
        a1 @calculatedFrom(""it's"") `" ++ [233]%N ++ runes_of_ascii "`,
    },
}// " ++ [27880; 37322]%N ++ runes_of_ascii "

MetaData A {
    zchar matchKey ``,
    int64 metadata,
    char[] _x,
}")).
Eval vm_compute in ("<<<M1757>>>" ++ check (runes_of_ascii "options {
    LittleEndian = false;
    StringPrefixLenType = u8;
    ArrayPrefixLenType = u64;
    FixedStringPadFromLeft = false;
    FixedStringPadChar = ' ';
}

packet Reject {
    repeat char[4] seqNo,
    string Px,
}

root packet Trade {
    @rightPad('0')
    char[2] msgKind,
    repeat f64 price,
    InAcct79 {
        repeat Reject,
        zchar[7] OrderId,
    },
    Reject,
}")).
Eval vm_compute in ("<<<M299>>>" ++ check (runes_of_ascii "// packet A { u8 x, }
MetaData roots{ char[ 00]lengthOf
``  , As stringy, x	calculatedFrom ,} packet i8i8	{
crc `crlf
line` , @rightPad// a // b
( )zchar[ 42] falsey // trailing space 
,
    /// triple
    @tag( 42 ) u32	leftPad  , @tag( 42 ) a1@lengthOf( Z9_ ) , match leftPad as crc{ [""a\""b"" , 1
, 255
]:	trueish ,3
: float ,
0 :lengthOf
    ,
} ,}")).
Eval vm_compute in ("<<<M79>>>" ++ check (runes_of_ascii "packet	Pad //
{ u32 i64_
@lengthOf(u8x) `tab	here` , T,
@tag(
1) @calculatedFrom(	""CRC32""
)
    @leftPad ()
    match stringy as lengthOf	{[ 255  ,	7
    ,
""CRC32""
,""a	b"" , """ ++ [233]%N ++ runes_of_ascii "t" ++ [233]%N ++ runes_of_ascii """ ,// c
""a\""b""
    , ""\n"" ]: falsey  , /// triple
} ,string i8i8// trailing space 
@calculatedFrom( """ ++ [128512]%N ++ runes_of_ascii """
    ) ,packetx, } // c")).
Eval vm_compute in ("<<<M1946>>>" ++ check (runes_of_ascii "options {
    A = i16;
}

/// triple
root packet rootA {
    @tag(7)
    int16 pack,
    Logon @calculatedFrom(""a\""b"") `{ , }`,
    @rightPad('\x00')
    //
    //
    char[7] options1 `tab	here`,
    @calculatedFrom(""" ++ [233]%N ++ runes_of_ascii "t" ++ [233]%N ++ runes_of_ascii """)
    int @lengthOf(Packet) `crlf
        line`,
}")).
Eval vm_compute in ("<<<M1864>>>" ++ check (runes_of_ascii "packet Header {
    @calculatedFrom(""a	b"")
    char[255] falsey `tab	here`,
    int8 u `doc`,
    float32 lengthOf @calculatedFrom(""a	b""),
    @rightPad(' ')
    @tag(3)
    float64 asx,
    int8 metadata @lengthOf(zchar),
    Pad f32a,
}")).
Eval vm_compute in ("<<<M18>>>" ++ check (runes_of_ascii "packet roots
// a // b
// " ++ [128512]%N ++ runes_of_ascii " emoji
{ // " ++ [27880; 37322]%N ++ runes_of_ascii "
@tag(0
)
    repeat // `tick` ""quote"" 'q'
zchar[
/// triple
//x
0
]x , } options { As =""\" ++ [233]%N ++ runes_of_ascii """ ;pack = ' ' ; int = // `tick` ""quote"" 'q'
'\x00' ; options1 =
""`tick`"" ; }")).
Eval vm_compute in ("<<<M121>>>" ++ check (runes_of_ascii "packet u128 { @calculatedFrom(  ""a	b"" ) // packet A { u8 x, }
@leftPad( ' '
) //	t
@lengthOf(
Header // packet A { u8 x, }
) char[10
    ] crc@lengthOf(
len ) , } MetaData i8i8 { }
")).
Eval vm_compute in ("<<<M152>>>" ++ check (runes_of_ascii "packet T {
int u ,
@calculatedFrom( ""\" ++ [233]%N ++ runes_of_ascii """ ) // `tick` ""quote"" 'q'
repeat// @lengthOf(
string	x_y_z// a // b
,
uint32// `tick` ""quote"" 'q'
int `crlf
line` , }
")).
Eval vm_compute in ("<<<M521>>>" ++ check (runes_of_ascii "packet uint8x
{ match pack
    as msg_type	{
    0123456789 :	float
}
,
} packet //	t
a1
    { } options {packetx
    = '\x00'	; u128= ""a	b"" ""a	b""  ; }
")).
Eval vm_compute in ("<<<M426>>>" ++ check (runes_of_ascii "packet uint8x
{ match pack
    as msg_type	{ {
    0123456789 :	float
}
,
} packet //	t
a1
    { } options {packetx
    = '\x00'	; u128= ""a	b""  ; }
")).
Eval vm_compute in ("<<<M1299>>>" ++ check (runes_of_ascii "packet A {
    u8 a,
}
packet B {
    u16 b,
}
root packet P {
    u8 K,
    match K as M {
        [1, 2] : A,
        3 : B,
        7 : A,
    },
}
")).
Eval vm_compute in ("<<<M517>>>" ++ check (runes_of_ascii "packet uint8x
{ match pack
    as msg_type	{
    0123456789 :	float
}
,
} packet //	t
a1
    { } options {packetx
    = '\x00'	; u128""a	b"" =  ; }
")).
Eval vm_compute in ("<<<M666>>>" ++ check (runes_of_ascii "// @lengthOf(
packet i8i8 { u128 u128 o , }
options { MetaDataX = true;
    BodyLength =""packet"" x_y_z= 007
crc //x
= ""abc"" ;
    msg_type =
i16 }")).
Eval vm_compute in ("<<<M691>>>" ++ check (runes_of_ascii "// @lengthOf(
packet i8i8 { u128 o , }
options f64 MetaDataX = true;
    BodyLength =""packet"" x_y_z= 007
crc //x
= ""abc"" ;
    msg_type =
i16 }")).
Eval vm_compute in ("<<<M707>>>" ++ check (runes_of_ascii "// @lengthOf(
packet i8i8 { u128 o , }
options { MetaDataX = true;
    BodyLength =MetaData x_y_z= 007
crc //x
= ""abc"" ;
    msg_type =
i16 }")).
Eval vm_compute in ("<<<M1772>>>" ++ check (runes_of_ascii "packet A {
    match k as n {
        [
            1, ""bb"", 007, ""d"", 5,
            ""f"", 7, ""h"", 9
        ] : B,
        2 : C,
    },
}")).
Eval vm_compute in ("<<<M1490>>>" ++ check (runes_of_ascii "
options {  LittleEndian  =
true ;
}
	root
packet P

    {

    u16 
a ,

    u32
    Sum
@calculatedFrom(
""CR\
C32"" 
)
,  }
")).
Eval vm_compute in ("<<<M223>>>" ++ check (runes_of_ascii "packet  u { repeat
    // " ++ [128512]%N ++ runes_of_ascii " emoji
    A , @lengthOf( lengthOf
)
    repeat
    i64
i64_
, //
zchar[
3// a // b
] body , }
")).
Eval vm_compute in ("<<<M970>>>" ++ check (runes_of_ascii "packet A {
    match k as n {
        ""x\
y"" : B,
        [""x\
y"", 1] : C,
        [1,2,3,4,5,""x\
y""] : D,
    },
}")).
Eval vm_compute in ("<<<M1173>>>" ++ check (runes_of_ascii "MetaData leftPad { chars MetaDataX , } packet repeatCount { char[ 255 ] uint8x `" ++ [233]%N ++ runes_of_ascii "` , // c
} MetaData pack { As Foo , }")).
Eval vm_compute in ("<<<M1319>>>" ++ check (runes_of_ascii "
packet FooBar  {  u8
	a , }
    packet  foo_bar

    {  u16 
b

    , } root
	packet R{FooBar , foo_bar
,	}
")).
Eval vm_compute in ("<<<M489>>>" ++ check (runes_of_ascii "packet uint8x
{ match pack
    as msg_type	{
    0123456789 :	float
}
,
} packet //	t
a1
    { } options")).
Eval vm_compute in ("<<<M683>>>" ++ check (runes_of_ascii "// @lengthOf(
packet i8i8 { u128 o , }
options { MetaDataX = true;
    BodyLength =""packet"" x_y_z= 007")).
Eval vm_compute in ("<<<M479>>>" ++ check (runes_of_ascii "packet uint8x
{ match pack
    as msg_type	{
    0123456789 :	float
}
,
} packet //	t
a1
    {")).
Eval vm_compute in ("<<<M872>>>" ++ check (runes_of_ascii "packet A {
  match k as n {
    [""a"", 22, ""c c"", 4, ""e"", 66, ""g"", 8, ""i""] : B
    2 : C
  },
}")).
Eval vm_compute in ("<<<M613>>>" ++ check (runes_of_ascii "
packet
    asx {match u128 as lengthOf
{
//	t
// `tick` ""quote"" 'q'
255 : x ,
    } } ,	}")).
Eval vm_compute in ("<<<M584>>>" ++ check (runes_of_ascii "
packet
    asx {match u128 as {
lengthOf
//	t
// `tick` ""quote"" 'q'
255 : x ,
    } ,	}")).
Eval vm_compute in ("<<<M845>>>" ++ check (runes_of_ascii "packet A {
  match k as n {
    [""a"", 22, ""c c"", 4, ""e"", 66, ""g""] : B,
    2 : C
  },
}")).
Eval vm_compute in ("<<<M1439>>>" ++ check (runes_of_ascii "// top
root packet P {
    // c3
    char c,// c6a
    // c6b
    u8 x,// c9
}// c10")).
Eval vm_compute in ("<<<M1094>>>" ++ check (runes_of_ascii "packet A { u16 // a
 len // b
 @lengthOf( // c
 body // d
 ) // e
 `d` // f
 , }")).
Eval vm_compute in ("<<<M1939>>>" ++ check (runes_of_ascii "  root
	packet

P{ 
u8

    s_u8 
, 
repeat
    u8

r_u8
,	u16

b_len
	,} ")).
Eval vm_compute in ("<<<M1630>>>" ++ check (runes_of_ascii "packet A {
    B b `x
    `,
    B `x
    `,
    repeat B bs `x
    `,
}")).
Eval vm_compute in ("<<<M768>>>" ++ check (runes_of_ascii "char = char[] options char[] ] uint64 metadata match 1 zchar[ int16")).
Eval vm_compute in ("<<<M444>>>" ++ check (runes_of_ascii "packet uint8x
{ match pack
    as msg_type	{
    0123456789 :")).
Eval vm_compute in ("<<<M776>>>" ++ check (runes_of_ascii "packet A {
  match k as n {
    [""a""] : B
    2 : C
  },
}")).
Eval vm_compute in ("<<<M786>>>" ++ check (runes_of_ascii "packet A { Inner { match k as n { [1,22] : B, }, }, }")).
Eval vm_compute in ("<<<M1218>>>" ++ check (runes_of_ascii "packet body { i32 f32a `{ , }` , } options {
// c
}")).
Eval vm_compute in ("<<<M693>>>" ++ check (runes_of_ascii "// @lengthOf(
packet i8i8 { u128 o , }
options")).
Eval vm_compute in ("<<<M1223>>>" ++ check (runes_of_ascii "// top
packet // c0
x { // c2
}
    // c3
")).
Eval vm_compute in ("<<<M708>>>" ++ check (runes_of_ascii "// @lengthOf(
packet i8i8 { u128 o ,")).
Eval vm_compute in ("<<<M1043>>>" ++ check (runes_of_ascii "packet A {
 u8 x `d 	`, // c 	
}")).
Eval vm_compute in ("<<<M1018>>>" ++ check (runes_of_ascii "packet A {
 u8 x `d" ++ [8233]%N ++ runes_of_ascii "`, // c" ++ [8233]%N ++ runes_of_ascii "
}")).
Eval vm_compute in ("<<<M947>>>" ++ check (runes_of_ascii "packet A {
    u8 x `x
`,
}")).
Eval vm_compute in ("<<<M1111>>>" ++ check (runes_of_ascii "MetaData tag { } // c
")).
Eval vm_compute in ("<<<M1136>>>" ++ check (runes_of_ascii "MetaData u { } // c
")).
Eval vm_compute in ("<<<M987>>>" ++ check (runes_of_ascii "// c" ++ [160]%N ++ runes_of_ascii "
packet A {
}")).
Eval vm_compute in ("<<<M1232>>>" ++ check (runes_of_ascii "packet x { } // c
")).
Eval vm_compute in ("<<<M1391>>>" ++ check (runes_of_ascii "packet x {
}
// c")).
Eval vm_compute in ("<<<M1895>>>" ++ check (runes_of_ascii "// @lengthOf(")).
Eval vm_compute in ("<<<M1010>>>" ++ check (runes_of_ascii "// c" ++ [8232]%N)).
Eval vm_compute in ("<<<M735>>>" ++ check ([0]%N)).
