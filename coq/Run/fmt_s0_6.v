From FP Require Import Lexer Parser ShowPT Digest Formatter.
From Coq Require Import String List NArith.
Import ListNotations.
Open Scope string_scope.
Set Printing Width 100000000.
Set Printing Depth 100000000.
Definition show_fres (r : fres) : string :=
  match r with
  | FOk s => "OK:" ++ sh_escaped s ""
  | FErr s => "ERR:" ++ sh_escaped s ""
  | FPanic p => "PANIC:" ++ p
  end.
Definition check (rs : list rune) : string := digest (show_fres (format_res rs)).
Definition full (rs : list rune) : string := show_fres (format_res rs).
Eval vm_compute in ("<<<M1360>>>" ++ check (runes_of_ascii "options { // c1
FixedStringPadFromLeft // c2a
  // c2b
= true // c4
; FixedStringPadChar // c6
= // c7
'0' ; // c9a
  // c9b
} // c10
packet
    // c11
Leg { repeat // c14
InSym93 // c15
{ zchar[
    // c17
3 // c18a
  // c18b
] // c19
Acct
    // c20
, // c21a
  // c21b
string // c22a
  // c22b
Side2 , // c24a
  // c24b
i32 // c25
Flags ,
    // c27
f32 // c28
Note , i32 // c31a
  // c31b
msgKind
    // c32
, } // c34
, // c35
f64
    // c36
Note ,
    // c38
uint16 Px // c40a
  // c40b
, // c41
} packet // c43a
  // c43b
Quote // c44
{ zchar[ // c46
2 // c47a
  // c47b
] OrderId // c49a
  // c49b
,
    // c50
}
    // c51
packet Ack
    // c53
{ // c54
repeat // c55a
  // c55b
string // c56
lastPx , zchar[ 4 // c60
] price , // c63
uint32 // c64
OrderId , Quote // c67a
  // c67b
, int8
    // c69
Acct
    // c70
, } packet
    // c73
Fill
    // c74
{
    // c75
repeat
    // c76
Leg
    // c77
, // c78a
  // c78b
@rightPad
    // c79
(
    // c80
'0'
    // c81
) // c82a
  // c82b
char[ 11 ] // c85
Note
    // c86
,
    // c87
f64
    // c88
Px // c89
, // c90
@rightPad
    // c91
( '\x00' // c93a
  // c93b
)
    // c94
char[
    // c95
5 // c96
] // c97
Flags , zchar[
    // c100
9
    // c101
] // c102a
  // c102b
x // c103
, // c104
string msgKind , // c107
}
    // c108
root packet
    // c110
Order // c111
{ Leg , // c114
repeat Ack , // c117
@rightPad (
    // c119
'\x00' )
    // c121
char[ // c122
3 // c123a
  // c123b
]
    // c124
Side2 // c125a
  // c125b
, // c126a
  // c126b
repeat // c127a
  // c127b
char[
    // c128
1 ] // c130
seqNo // c131
, u16 // c133
clOrdID // c134a
  // c134b
, match
    // c136
clOrdID
    // c137
as // c138
Body { // c140
198 // c141
:
    // c142
Leg
    // c143
, 23 // c145a
  // c145b
: // c146a
  // c146b
Quote // c147a
  // c147b
, // c148a
  // c148b
13 // c149a
  // c149b
:
    // c150
Ack // c151a
  // c151b
, 159 // c153a
  // c153b
: Fill // c155
, // c156
} // c157a
  // c157b
, u32 venue @calculatedFrom( ""CRC32"" ) // c163a
  // c163b
, // c164
} // c165a
  // c165b
")).
Eval vm_compute in ("<<<M383>>>" ++ check (runes_of_ascii "options {
	StringPrefixLenType = u16;
	ArrayPrefixLenType = u16;
}

packet SampleBinary {
    uint16 MsgType `" ++ [28040; 24687; 31867; 22411]%N ++ runes_of_ascii "`,
    u16 BodyLenght @lengthOf(Body) `" ++ [28040; 24687; 20307; 38271; 24230]%N ++ runes_of_ascii "`,
    match MsgType as Body {
        1 : Logon,
        2 : Logout,
        3 : Heartbeat,
        4 : RiskControlRequest,
        5 : RiskControlResponse,
    },
        @calculatedFrom(""CRC32"")
    u32 Ckecksum `" ++ [26657; 39564; 21644]%N ++ runes_of_ascii "`,
}

packet Logon {
     @leftPad('0')
    char[10] UserName `" ++ [29992; 25143; 21517]%N ++ runes_of_ascii "`,
    string Password `" ++ [23494; 30721]%N ++ runes_of_ascii "`,
    uint64 ClientId `" ++ [23458; 25143; 31471]%N ++ runes_of_ascii "ID`,
    u16 HeartbeatInterval `" ++ [24515; 36339; 38388; 38548]%N ++ runes_of_ascii "`,
}

packet Logout {
      @rightPad('0')
    char[10] UserName `" ++ [29992; 25143; 21517]%N ++ runes_of_ascii "`,
    uint64 ClientId `" ++ [23458; 25143; 31471]%N ++ runes_of_ascii "ID`,
}

packet Heartbeat {
}

packet RiskControlRequest {
    string UniqueOrderId `" ++ [21807; 19968; 35746; 21333; 21495]%N ++ runes_of_ascii "`,
    char[16] ClOrdID `" ++ [23458; 25143; 35746; 21333; 21495]%N ++ runes_of_ascii "`,
    char[3] MarketID `" ++ [24066; 22330]%N ++ runes_of_ascii "id`,
    char[12] SecurityID `" ++ [35777; 21048; 20195; 30721]%N ++ runes_of_ascii "`,
    char Side `" ++ [20080; 21334; 26041; 21521]%N ++ runes_of_ascii "`,
    char OrderType `" ++ [35746; 21333; 31867; 22411]%N ++ runes_of_ascii "`,
    u64 Price `" ++ [20215; 26684]%N ++ runes_of_ascii "`,
    u32 Qty `" ++ [25968; 37327]%N ++ runes_of_ascii "`,
    repeat string ExtraInfo `" ++ [38468; 21152; 20449; 24687]%N ++ runes_of_ascii "`,
    repeat SubOrder {
    		char[16] ClOrdID `" ++ [23376; 35746; 21333; 21495]%N ++ runes_of_ascii "`,
    		u64 Price `" ++ [23376; 35746; 21333; 20215; 26684]%N ++ runes_of_ascii "`,
    		u32 Qty `" ++ [23376; 35746; 21333; 25968; 37327]%N ++ runes_of_ascii "`,
    	},
}

packet RiskControlResponse {
    string UniqueOrderId `" ++ [21807; 19968; 35746; 21333; 21495]%N ++ runes_of_ascii "`,
    i32 Status `" ++ [29366; 24577]%N ++ runes_of_ascii "`,
    string Msg `" ++ [32467; 26524; 20449; 24687]%N ++ runes_of_ascii "`,
    repeat Detail,
}

packet Detail {
    string RuleName `" ++ [35268; 21017; 21517; 31216]%N ++ runes_of_ascii "`,
    u16 Code `" ++ [21407; 22240; 20195; 30721]%N ++ runes_of_ascii "`,
}")).
Eval vm_compute in ("<<<M1566>>>" ++ check (runes_of_ascii "
root
	packet
    i64_  {
    trueish
    ,

    @calculatedFrom( ""abc""
	)  @tag(
7

    )
    // c
	  int16
	asx , @calculatedFrom( ""a\\""
)float32

crc
@lengthOf(

    Foo)
	, 
@tag( // `tick` ""quote"" 'q'
	42 // c
	)zchar[
    // c
    	// packet A { u8 x, }

	7

]asx
    @lengthOf(
    calculatedFrom  )

`// not a comment` , //
  repeat	zchar[
1
]	// a // b
	As , 
chars
`two words`,

    @calculatedFrom(  ""1"" )
	@tag( 
  // `tick` ""quote"" 'q'
0123456789

    )	@leftPad
(
'0' )
	repeat
char[]
BodyLength
`tab	here` ,
} MetaData u128 // packet A { u8 x, }

  {
	u16

i64_  ,
float32 asx//

`two words` 
, 	 //
      i64
    leftPad

, 
zchar[
00 // `tick` ""quote"" 'q'
    ]
_x,  //
}
    MetaData
    chars 
	//
	{Foo crc 
`say ""hi""` 
,	uint8
    u

`two words`

    ,// " ++ [128512]%N ++ runes_of_ascii " emoji
  f32
    pack
`crlf
line`
	, string

_x

`" ++ [233]%N ++ runes_of_ascii "`

,  }

packet

    x_y_z

{

} options  {

    calculatedFrom = ""CRC32""
crc
	=  uint16 ;	u  =
false Foo  =char

    }// " ++ [128512]%N ++ runes_of_ascii " emoji
")).
Eval vm_compute in ("<<<M1361>>>" ++ check (runes_of_ascii "options

{  FixedStringPadFromLeft
= true
	;
FixedStringPadChar = '0' ;}packet

Leg{ repeat InSym93
	{

zchar[
3
]
	Acct,
string
Side2 , i32 Flags
    ,f32
	Note ,i32 msgKind ,

    }	, f64
Note	, uint16	Px

    , }
packet
	Quote {zchar[2] 
OrderId	, 
}
	packet Ack{ repeat	string
lastPx 
, 
zchar[4 
]price , uint32 OrderId
	,	Quote,

    int8

    Acct

    ,

} packet	Fill

    {repeat
    Leg
    ,

    @rightPad

    (
	'0' 
)	char[

11 ]	Note , 
f64  Px ,

@rightPad  (	'\x00'

    )	char[  5
] Flags 
, 
zchar[
9]
x

    ,string 
msgKind ,
} root
    packet Order	{	Leg , repeat Ack 
,
@rightPad (
    '\x00')
char[
3  ] Side2,

    repeat
    char[ 
1
]

    seqNo

,	u16

    clOrdID
    ,
match
    clOrdID

as Body
	{ 198 
: Leg,

    23
:
	Quote
	, 13 
:
Ack ,159
:
	Fill
,
	}	,	u32	venue

@calculatedFrom( 
""CRC32"" 
)
    ,

}")).
Eval vm_compute in ("<<<M1443>>>" ++ check (runes_of_ascii "

  root
packet  lengthOf {  // a // b
match  i64_ 
as

options1
    { 
""// no comment""	: 
	// packet A { u8 x, }
		f32a

// @lengthOf(
	,
	65535
    :	falsey

,
}
,
@tag(

0 )
char[]body
@lengthOf(

lengthOf 
)
	,u64	string_
`it's`	, @lengthOf( string_  // packet A { u8 x, }
)
	crc{	repeat zchar[
	3
	]
	u , 
pack // packet A { u8 x, }
  `a\`// trailing space 
    	, char[]
	crc ``, } 	 //x

, int16 // packet A { u8 x, }
  metadata  `line1
line2`
,

    } root  packet	//	t
leftPad  {	repeat
zchar[	4294967296  //x

] 
MetaDataX 
,

@tag( 
10 // `tick` ""quote"" 'q'
  	)
match  tag 
as
	falsey
{ 7 :

BodyLength  ,  0

:i64_	,  } , 
repeat char[ 255 
    // @lengthOf(
]
A
, char[

    7]
	trueish

    @calculatedFrom(
	""a\\"" ) `two words`  
      // " ++ [128512]%N ++ runes_of_ascii " emoji
  	//	t
,
i16 Logon  ,	}")).
Eval vm_compute in ("<<<M1436>>>" ++ check (runes_of_ascii "root packet asx {
    // `tick` ""quote"" 'q'
    f32a,
    @calculatedFrom(""abc"")
    zchar[65535] metadata `
        `,
    @calculatedFrom(""CRC32"")
    Header `doc`,
    match f32a as msg_type {
        [""\n""] : charz,
        // @lengthOf(
        0123456789 : pack,
        //x
        [
            4294967296, ""packet"", """", ""`tick`"", ""CRC32"",
            ""\n"", ""it's"", ""it's""
        ] : charz,
        42 : leftPad,
        [
            255, 7, ""packet"", ""{,}"", ""\" ++ [233]%N ++ runes_of_ascii """,
            ""1"", ""1""
        ] : msg_type,
        [""" ++ [128512]%N ++ runes_of_ascii """] : i64_,
    },
}

packet body {
}

root packet i64_ {
    uint16 Header @calculatedFrom(""" ++ [233]%N ++ runes_of_ascii "t" ++ [233]%N ++ runes_of_ascii """) ``,
    float64 string_ @calculatedFrom(""`tick`""),
    repeat zchar[1] packetx `it's`,
}//	t")).
Eval vm_compute in ("<<<M1122>>>" ++ check (runes_of_ascii "// top
options // c0
{ // c1
uint8x // c2
= // c3
007 // c4
; // c5
lengthOf // c6
= // c7
i8 // c8
; // c9
} // c10
packet // c11
i64_ // c12
{ // c13
@calculatedFrom( // c14
""1"" // c15
) // c16
@tag( // c17
3 // c18
) // c19
@lengthOf( // c20
rootA // c21
) // c22
repeat // c23
int8 // c24
Packet // c25
`u8 x,` // c26
, // c27
} // c28
root // c29
packet // c30
stringy // c31
{ // c32
@rightPad // c33
( // c34
' ' // c35
) // c36
repeat // c37
char[ // c38
10 // c39
] // c40
repeatCount // c41
, // c42
@tag( // c43
255 // c44
) // c45
float64 // c46
msg_type // c47
@calculatedFrom( // c48
""packet"" // c49
) // c50
, // c51
} // c52
")).
Eval vm_compute in ("<<<M113>>>" ++ check (runes_of_ascii "options	{
As
= // packet A { u8 x, }
' '}MetaData o{} root packet pack
{ } packet tag // " ++ [128512]%N ++ runes_of_ascii " emoji
{ match falsey as
BodyLength	{ 4294967296
:
    lengthOf
// c
// " ++ [27880; 37322]%N ++ runes_of_ascii "
,[ ""x y""
,""a\\""
    ]
    : rootA , [
42 , ""a	b"" ,
    ""CRC32"" , 65535 ,""abc"" , 007 ]
:
u8x	""x y"" : A ,
    /// triple
    65535 :  i64_,
    0123456789 :
    Packet }
    , @lengthOf(  msg_type)	pack msg_type,
    @tag( 0 )@lengthOf( Packet
)/// triple
@tag(
3 )
//	t
// " ++ [128512]%N ++ runes_of_ascii " emoji
Foo , repeat float64 zchar, @calculatedFrom(
""a\""b""
) @lengthOf(A )@lengthOf( roots
) options1 @lengthOf(
Z9_ ),char[] T ,  }")).
Eval vm_compute in ("<<<M1925>>>" ++ check (runes_of_ascii "packet pack {
    u8 x,
    char[255] trueish @calculatedFrom(""// no comment"") `tab	here`,
    @lengthOf(asx)
    repeat zchar[0] stringy `
        `,
    @leftPad('0')
    @calculatedFrom(""abc"")
    @calculatedFrom(""it's"")
    char[] packetx @calculatedFrom(""a	b"") `doc`,
    repeat string len `two words`,
    uint16 matchKey @lengthOf(asx),
    zchar[0] x `it's`,
}

packet packetx {
    body,
    string trueish `" ++ [233]%N ++ runes_of_ascii "`,
    @tag(255)
    @tag(3)
    @calculatedFrom(""\n"")
    repeat f64 roots `" ++ [233]%N ++ runes_of_ascii "`,/// triple
}")).
Eval vm_compute in ("<<<M138>>>" ++ check (runes_of_ascii "packet Header{ char[	10
] A`it's` , @calculatedFrom(	""" ++ [28040; 24687]%N ++ runes_of_ascii """)calculatedFrom // a // b
@lengthOf( zchar ) `tab	here` ,  u32	BodyLength,
@lengthOf(
    stringy  ) //
@rightPad (
    ' ') @tag(
0123456789 )
body{ match i8i8 as
Foo
{ [ 7 ,	""CRC32"" ] : options1 ,[""a\""b"" , """ ++ [128512]%N ++ runes_of_ascii """ ,
    ""it's""
    , ""a	b"" ,
""// no comment"" , ""it's"" , 7,""abc""  ] :
As  ,
1 :
_x
// " ++ [128512]%N ++ runes_of_ascii " emoji
//
} , repeat  uint8x{crc
@calculatedFrom( ""a\\""
), } ,
    repeat  i8 tag ,// " ++ [128512]%N ++ runes_of_ascii " emoji
}
, }

")).
Eval vm_compute in ("<<<M1631>>>" ++ check (runes_of_ascii "root packet Logon {
    @calculatedFrom("""")
    @lengthOf(int)
    @tag(3)
    match _x as i64_ {
        10 : asx,
        // `tick` ""quote"" 'q'
        /// triple
        """ ++ [128512]%N ++ runes_of_ascii """ : crc,
        [0, 007] : float,
    },
    repeat uint16 leftPad,
}

// " ++ [27880; 37322]%N ++ runes_of_ascii "
packet charz {
}

MetaData int {
    zchar[4294967296] matchKey,
    asx rootA `doc`,
    Foo string_ `// not a comment`,
    char[] u8x,
    roots float,
}")).
Eval vm_compute in ("<<<M1139>>>" ++ check (runes_of_ascii "// top
MetaData
    // c0
leftPad
    // c1
{
    // c2
chars
    // c3
MetaDataX
    // c4
,
    // c5
}
    // c6
packet
    // c7
repeatCount
    // c8
{
    // c9
char[
    // c10
255
    // c11
]
    // c12
uint8x
    // c13
`" ++ [233]%N ++ runes_of_ascii "`
    // c14
,
    // c15
}
    // c16
MetaData
    // c17
pack
    // c18
{
    // c19
As
    // c20
Foo
    // c21
,
    // c22
}
    // c23
")).
Eval vm_compute in ("<<<M77>>>" ++ check (runes_of_ascii "
packet	float { char[ 42] int`say ""hi""` , @tag( 255// packet A { u8 x, }
) match// a // b
stringy  as
    x { [ 00 ,42
]: i64_ 42 : matchKey , [ ""1"" , 1
, 42
    ,
""" ++ [28040; 24687]%N ++ runes_of_ascii """ , ""abc"" ,
// a // b
//x
1 // trailing space 
]
: //
roots
,
    65535
: trueish ,	} ,@calculatedFrom( ""{,}"" )body @calculatedFrom(""" ++ [28040; 24687]%N ++ runes_of_ascii """ ) , zchar[
    007 ] lengthOf, }
")).
Eval vm_compute in ("<<<M1832>>>" ++ check (runes_of_ascii "packet
A

    {	u8

a , 
} packet  B  {u16

    b 
,	}
	packet

    C
{
    u32
	c, } root packet
M	{u16
	Kc  ,

u16
	Kb ,

    u16 Ka
    ,match
    Kc

as X {
9 :

    A  , 
10 
:
    B,}

    ,
match Kb
	as
	Y
{ 
2	:C  , 
1  :A ,
    }
, match Ka as Z

{
	1:B ,
	},
A
	, B ,C

    ,
}
")).
Eval vm_compute in ("<<<M1463>>>" ++ check (runes_of_ascii "

  packet trueish{ @leftPad	(	// @lengthOf(
	'0'	)@tag(

3 /// triple
	)
@tag(

    7
)

    repeat

//x
// @lengthOf(
  matchKey  { u32
u

    ,
	},
    @lengthOf( chars
)
@calculatedFrom( 
""a	b""
) 
@tag(
	0123456789 )	zchar[ 255	]Pad 
, }	root packet

u 
{
    }")).
Eval vm_compute in ("<<<M361>>>" ++ check (runes_of_ascii "MetaData BodyLength { uint16 leftPad `" ++ [233]%N ++ runes_of_ascii "` // a // b
, uint8x asx,
    len lengthOf `// not a comment` ,
string uint8x `doc`
, }options {i8i8 = 0
lengthOf =
    0123456789 ; } packet uint8x { @lengthOf(
pack ) float64
u8x@lengthOf(asx //x
)
, }
")).
Eval vm_compute in ("<<<M358>>>" ++ check (runes_of_ascii "
packet matchKey	{ // @lengthOf(
@lengthOf(
a1 ) string_
T`" ++ [28040; 24687; 31867; 22411]%N ++ runes_of_ascii "`, //
} packet body {f32 _x  , packetx @lengthOf(
options1 ) // packet A { u8 x, }
`` , @leftPad ( ' ') i16 crc ,@calculatedFrom(
""" ++ [128512]%N ++ runes_of_ascii """
)	Pad
, } //")).
Eval vm_compute in ("<<<M1626>>>" ++ check (runes_of_ascii "packet T

    {	int	u

    ,

@calculatedFrom( 
""\" ++ [233]%N ++ runes_of_ascii """)// `tick` ""quote"" 'q'
  repeat// @lengthOf(
	string  x_y_z	// a // b

,
uint32  // `tick` ""quote"" 'q'
int`crlf
line`	,}
")).
Eval vm_compute in ("<<<M1846>>>" ++ check (runes_of_ascii "packet A {
    match k as n {
        [
            1, 22, 4, 5, 7,
            8, 10, 11, ""c c"", ""f"",
            ""i"", ""l""
        ] : B,
        2 : C,
    },
}")).
Eval vm_compute in ("<<<M521>>>" ++ check (runes_of_ascii "packet uint8x
{ match pack
    as msg_type	{
    0123456789 :	float
}
,
} packet //	t
a1
    { } options {packetx
    = '\x00'	; u128= ""a	b"" ""a	b""  ; }
")).
Eval vm_compute in ("<<<M150>>>" ++ check (runes_of_ascii "packet
    //	t
    Logon {
metadata
@calculatedFrom( ""a\\"" ) , @tag( 42 ) // " ++ [128512]%N ++ runes_of_ascii " emoji
@tag(	65535 )
repeat u16 o `line1
line2` ,
} packet float { }

")).
Eval vm_compute in ("<<<M539>>>" ++ check (runes_of_ascii "packet uint8x
{ match pack
    as msg_type	{
    0123456789 :	float
}
,
} p" ++ [8232]%N ++ runes_of_ascii "acket //	t
a1
    { } options {packetx
    = '\x00'	; u128= ""a	b""  ; }
")).
Eval vm_compute in ("<<<M497>>>" ++ check (runes_of_ascii "packet uint8x
{ match pack
    as msg_type	{
    0123456789 :	float
}
,
} packet //	t
a1
    { } options {packetx
    '\x00' =	; u128= ""a	b""  ; }
")).
Eval vm_compute in ("<<<M272>>>" ++ check (runes_of_ascii "packet _x	{ } packet BodyLength { int64
Packet
@lengthOf( float ),
options1 /// triple
{rootA x	, u8
Packet @calculatedFrom( """ ++ [28040; 24687]%N ++ runes_of_ascii """) `it's`  ,
} , }")).
Eval vm_compute in ("<<<M661>>>" ++ check (runes_of_ascii "// @lengthOf(
packet i8i8 { u128 o o , }
options { MetaDataX = true;
    BodyLength =""packet"" x_y_z= 007
crc //x
= ""abc"" ;
    msg_type =
i16 }")).
Eval vm_compute in ("<<<M529>>>" ++ check (runes_of_ascii "packet uint8x
{ match pack
    as msg_type	{
    0123456789 :	float
}
,
} packet //	t
a1
    { } options {packetx
    = '\x00'	; u128= ""a	b""")).
Eval vm_compute in ("<<<M688>>>" ++ check (runes_of_ascii "// @lengthOf(
packet i8i8 { u128 o , }
options { MetaDataX = true;
    BodyLength =""packet"" x_y_z= 007
crc //x
= ""abc"" ;
    msg_type =
i16")).
Eval vm_compute in ("<<<M1900>>>" ++ check (runes_of_ascii "packet A {
    match k as n {
        [
            1, 22, 007, 4, 5,
            66, 7, 8, 9, 10
        ] : B,
        2 : C,
    },
}")).
Eval vm_compute in ("<<<M1896>>>" ++ check (runes_of_ascii "// c
MetaData leftPad {
    chars MetaDataX,
}

packet repeatCount {
    char[255] uint8x `" ++ [233]%N ++ runes_of_ascii "`,
}

MetaData pack {
    As Foo,
}")).
Eval vm_compute in ("<<<M1190>>>" ++ check (runes_of_ascii "MetaData leftPad { chars MetaDataX , } packet repeatCount { char[ 255 ] uint8x `" ++ [233]%N ++ runes_of_ascii "` , } MetaData pack { As Foo , }
// c
")).
Eval vm_compute in ("<<<M1169>>>" ++ check (runes_of_ascii "MetaData leftPad { chars MetaDataX , } packet repeatCount { char[ 255 ] uint8x // c
`" ++ [233]%N ++ runes_of_ascii "` , } MetaData pack { As Foo , }")).
Eval vm_compute in ("<<<M967>>>" ++ check (runes_of_ascii "packet A {
    match k as n {
        ""x\
y"" : B,
        [""x\
y"", 1] : C,
        [1,2,3,4,5,""x\
y""] : D,
    },
}")).
Eval vm_compute in ("<<<M962>>>" ++ check (runes_of_ascii "packet A {
    Inner {
        u8 x `tab
	x`,
        Deep {
            u8 y `tab
	x`,
        },
    },
}")).
Eval vm_compute in ("<<<M353>>>" ++ check (runes_of_ascii "options { _x
    =
    ""`tick`""	;matchKey=
""it's""
;	options1
    = u16 ; stringy= true
    // c
    }
")).
Eval vm_compute in ("<<<M875>>>" ++ check (runes_of_ascii "packet A {
  match k as n {
    [""a"", ""bb"", 007, ""d"", ""e"", 66, ""g"", ""h"", 9] : B,
    2 : C
  },
}")).
Eval vm_compute in ("<<<M389>>>" ++ check (runes_of_ascii "root packet SimpleMessage {
    uint16 MsgType `" ++ [28040; 24687; 31867; 22411]%N ++ runes_of_ascii "`,
    string JsonBody `Json" ++ [23383; 31526; 20018; 28040; 24687; 20307]%N ++ runes_of_ascii "`,
}")).
Eval vm_compute in ("<<<M639>>>" ++ check (runes_of_ascii "
packet
    asx {match u128 as lengthOf
{
//	t
// `tick` ""quote"" 'q'
255 : x ,
    } ,	"" }")).
Eval vm_compute in ("<<<M599>>>" ++ check (runes_of_ascii "
packet
    asx {match u128 as lengthOf
{
//	t
// `tick` ""quote"" 'q'
255 x : ,
    } ,	}")).
Eval vm_compute in ("<<<M1307>>>" ++ check (runes_of_ascii "  packet
orderItem 
{
	u8
    a
    , 
}root
packet
newOrder{ orderItem	, 
u8
x
	,
}")).
Eval vm_compute in ("<<<M1302>>>" ++ check (runes_of_ascii "packet order_item {
    u8 a,
}
root packet new_order {
    order_item,
    u8 x,
}
")).
Eval vm_compute in ("<<<M1771>>>" ++ check (runes_of_ascii "options {
    FixedStringPadFromLeft = true;
}

root packet P {
    char[4] z,
}")).
Eval vm_compute in ("<<<M1545>>>" ++ check (runes_of_ascii "

  packet

    body {

    i32
    f32a`{ , }`,
    } options// c
  { }")).
Eval vm_compute in ("<<<M807>>>" ++ check (runes_of_ascii "packet A {
  match k as n {
    [""a"", 22, ""c c"", 4] : B
    2 : C
  },
}")).
Eval vm_compute in ("<<<M1441>>>" ++ check (runes_of_ascii "

  //	t
  options  {
	roots	=	""\n""
;
o
//
  = '0' ;tag= true }
")).
Eval vm_compute in ("<<<M534>>>" ++ check (runes_of_ascii "packet uint8x
{ match pack
    as msg_type	{
    0123456789 :	")).
Eval vm_compute in ("<<<M1462>>>" ++ check (runes_of_ascii "packet msg_type {
    repeat zchar[007] Logon `two words`,
}")).
Eval vm_compute in ("<<<M148>>>" ++ check (runes_of_ascii "options
{
    a1	=""packet""// a // b
; } // @lengthOf(")).
Eval vm_compute in ("<<<M1211>>>" ++ check (runes_of_ascii "packet body { i32 f32a `{ , }` , // c
} options { }")).
Eval vm_compute in ("<<<M1437>>>" ++ check (runes_of_ascii "  MetaData
	lengthOf	{ Header
o 
`doc` 
,
	}
")).
Eval vm_compute in ("<<<M1223>>>" ++ check (runes_of_ascii "// top
packet // c0
x { // c2
}
    // c3
")).
Eval vm_compute in ("<<<M1068>>>" ++ check (runes_of_ascii "options { a = 1 // c b = 2; // d}")).
Eval vm_compute in ("<<<M1837>>>" ++ check (runes_of_ascii "MetaData M {
}

// c
options {
}")).
Eval vm_compute in ("<<<M1542>>>" ++ check (runes_of_ascii "MetaData tag
{
}
	    // c
")).
Eval vm_compute in ("<<<M217>>>" ++ check (runes_of_ascii "root	packet falsey
{
}
")).
Eval vm_compute in ("<<<M1793>>>" ++ check (runes_of_ascii "// a
// b
packet A {
}")).
Eval vm_compute in ("<<<M244>>>" ++ check (runes_of_ascii "MetaData u128{} //x")).
Eval vm_compute in ("<<<M1012>>>" ++ check (runes_of_ascii "// c" ++ [8232]%N ++ runes_of_ascii "
packet A {
}")).
Eval vm_compute in ("<<<M979>>>" ++ check (runes_of_ascii "packet A {
}// c" ++ [12288]%N)).
Eval vm_compute in ("<<<M378>>>" ++ check (runes_of_ascii "// @lengthOf(

")).
Eval vm_compute in ("<<<M1040>>>" ++ check (runes_of_ascii "// c 	")).
Eval vm_compute in ("<<<M728>>>" ++ check (runes_of_ascii "		")).
