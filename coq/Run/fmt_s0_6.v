From FP Require Import Lexer Parser ShowPT Digest Formatter.
From Coq Require Import String List NArith.
Import ListNotations.
Open Scope string_scope.
Set Printing Width 100000000.
Set Printing Depth 100000000.
Definition show_fres (r : fres) : string :=
  match r with
  | FOk s => "OK:" ++ sh_escaped s ""
  | FErr s => "ERR:" ++ sh_escaped s ""
  | FPanic p => "PANIC:" ++ p
  end.
Definition check (rs : list rune) : string := digest (show_fres (format_res rs)).
Definition full (rs : list rune) : string := show_fres (format_res rs).
Eval vm_compute in ("<<<M1545>>>" ++ check (runes_of_ascii "
options{ 	 // c1
    LittleEndian  // c2a
// c2b
  	= 	 // c3a
	// c3b
    	true

; 
// c5
  StringPrefixLenType// c6a
    // c6b
=  u32; // c9a
  // c9b
    ArrayPrefixLenType 
=	u8
	// c12
  ;  } 	 // c14a

// c14b
    packet 	 // c15
  Heartbeat// c16a
    // c16b
{  
  // c17
  	string

// c18
msgKind 
// c19
    , 	 // c20a
// c20b
	}	// c21a
// c21b

  packet// c22
    	Logon 
// c23
  {repeat 
      // c25
  Heartbeat// c26a

// c26b
  ,// c27a
	// c27b
repeat  // c28
  string // c29

  Px  // c30a
    // c30b
      ,  // c31
uint8  // c32a
  	// c32b
Tail 
// c33
	,
char[]
        // c35

  f1 	 // c36a
  	// c36b

	, 
	// c37
}packet

    // c39
Cancel	// c40
	{// c41a
// c41b

  zchar[ // c42a

  // c42b
    	4 
      // c43
  ]	OrderId// c45a
    // c45b
,

    // c46
  Logon
    // c47
	, 
    // c48

  repeat
InMsgkind98 
    // c50
    {	// c51
  repeat // c52a
	// c52b
u8  // c53a
// c53b
tag7,// c55
		repeat
// c56
InFlags69 // c57
  { 	 // c58a
  	// c58b

  char[] 
	    // c59

  Note// c60
  	, // c61a
// c61b
  char[]
	lastPx  // c63a
// c63b

	, // c64a
// c64b
		char[
	11

] 	 // c67

  Ref, 
  // c69
	  Logon 
	    // c70
, // c71
      } // c72
		,	// c73a
		// c73b

repeat	// c74
    Heartbeat ,
	// c76
    }// c77
  , // c78a
// c78b
  zchar[// c79

	7
    // c80
  ] 	 // c81a
    // c81b
    	Px 
	    // c82

	,  // c83
  u32
seqNo 
, 
// c86
	  }// c87
root
    // c88
	packet Reject // c90
    	{
	i16 	 // c92a

// c92b
  tag7// c93
    , 

// c94

  char[ 

    // c95
		3	// c96a
    // c96b
] // c97
  Qty // c98a
// c98b
, 	 // c99a
  // c99b
    InRef42 
{
u8
    pad0	// c103a

  // c103b
    ,
    // c104
  }  // c105
    	, 
      // c106

  uint32  // c107a
	  // c107b
	f1 // c108a

// c108b
	, 
	    // c109
	zchar[ 	 // c110
7
]

OrderId	, 	 // c114a

	// c114b
zchar[ 	 // c115a
// c115b
8  // c116
  	]x
, 
	// c119
    	} ")).
Eval vm_compute in ("<<<M106>>>" ++ check (runes_of_ascii "packet //	t
packetx { } root packet repeatCount
// trailing space 
// 50% %s
{
    int16
    rootA @lengthOf(// " ++ [27880; 37322]%N ++ runes_of_ascii "
len) ``
// " ++ [128512]%N ++ runes_of_ascii " emoji
// trailing space 
, i32 A
@calculatedFrom( ""a\\"" ), i16 asx @calculatedFrom( ""x y""
) ,repeat char[]
    x,}
root
    packet
lengthOf//x
{ @leftPad ( '0')@calculatedFrom(
""\" ++ [233]%N ++ runes_of_ascii """ ) @lengthOf( // @lengthOf(
Z9_
    ) repeat char[]  As
, @rightPad ( ' ' // @lengthOf(
)
    repeat	zchar
, match a1
as pack
{ [  3  ]
    : lengthOf ,[ 007
, ""x y"" ] :
A, } ,
    repeat chars { char[ 4294967296
] //
body , body @lengthOf( pack), string Z9_
    , } , @leftPad( ' ' )
zchar[ // packet A { u8 x, }
255]Header , @tag(0
//	t
// 50% %s
)repeat char[ 00 ]
    // " ++ [27880; 37322]%N ++ runes_of_ascii "
    roots	,match crc as body { ""`tick`"" ://	t
a1 } , @tag( 1 ) char[] rootA @calculatedFrom( """ ++ [233]%N ++ runes_of_ascii "t" ++ [233]%N ++ runes_of_ascii """
// `tick` ""quote"" 'q'
//
) // a // b
,	} packet pack  {
match Packet
as /// triple
repeatCount
{
    //x
    ""a	b"" : pack, } , packetx packetx
,//	t
match
    // c
    o  as Packet { // a // b
0123456789 :
lengthOf,// `tick` ""quote"" 'q'
""CRC32""
    :
i64_ , 1
    :asx ,	""\" ++ [233]%N ++ runes_of_ascii """
:
    // packet A { u8 x, }
    o
    ,
    ""a	b"" :u128, ""// no comment"" :Packet
,
    // `tick` ""quote"" 'q'
    } ,
    @leftPad ( '0')@calculatedFrom(
    """ ++ [128512]%N ++ runes_of_ascii """ ) A @calculatedFrom( ""{,}""  ) `u8 x,`,	@tag( 255 ) float32 MetaDataX
, char[]u128@lengthOf( zchar ),
    match
x	as _x
{00 :
A ,} ,
    //	t
    }")).
Eval vm_compute in ("<<<M313>>>" ++ check (runes_of_ascii "root	packet packetx { /// triple
@tag(//
007	) int16
int``
    // `tick` ""quote"" 'q'
    ,@calculatedFrom( ""x y"" ) repeat string a1
`it's` ,@lengthOf(Header
    )
repeat
char[ 1
    ]
    string_ `` , uint64
falsey @lengthOf( i8i8 )
    ,
@lengthOf( u ) match
    roots
    as u128 {[ ""`tick`"" // " ++ [27880; 37322]%N ++ runes_of_ascii "
,
4294967296
, """" ,
65535 ,""" ++ [28040; 24687]%N ++ runes_of_ascii """ ,
    /// triple
    ""CRC32""
    , ""a	b"" , ""a	b""] : options1
,[ 007, ""abc"" , 65535  ] :
A, 7 : f32a ,""abc""
// " ++ [27880; 37322]%N ++ runes_of_ascii "
// packet A { u8 x, }
:
    i8i8 , ""it's""	:
o //	t
, [ ""{,}"" /// triple
, // `tick` ""quote"" 'q'
42
, 65535
    //
    ,"""" // `tick` ""quote"" 'q'
,
""a\""b"", 4294967296, 0
    ] :T
/// triple
//x
} ,
@tag( 7 )	char
o @calculatedFrom(  ""// no comment"")  , repeat f32
    float// packet A { u8 x, }
`line1
line2` , @lengthOf( f32a )
match rootA// c
as matchKey {007	:x // packet A { u8 x, }
,
    """ ++ [233]%N ++ runes_of_ascii "t" ++ [233]%N ++ runes_of_ascii """
:
    charz
,[ ""x y"" ,4294967296
, 255 , 00
// trailing space 
// a // b
]	: len} , @tag(
0123456789 )	repeat
    trueish
    // @lengthOf(
    i64_ , }packet
    lengthOf
{ }// a // b
packet len
{ @calculatedFrom(
    /// triple
    ""a	b"")  _x
    roots`a\`, }
//	t
")).
Eval vm_compute in ("<<<M1354>>>" ++ check (runes_of_ascii "options
{ LittleEndian=

    true
;
StringPrefixLenType  = 
u8	;ArrayPrefixLenType

    =u8
; FixedStringPadFromLeft= 
true ;

    FixedStringPadChar	=
'0'
;	} 
packet

Logon{

    repeat  i8
Ref

    ,

@rightPad ('0'
	)char[
	8	]
    msgKind,
repeat

InOrderid72 
{
    u8
	Side2,
uint32 Qty,  repeat  InPrice27 {repeat
char[4]Acct  ,

    u64 sym ,
} 
, zchar[
	4	]
	clOrdID

    ,int16 lastPx ,  InAcct22
{repeat	char[

    3
	]
OrderId
    ,

}
	,}

,
    int64

    Px,}packet	Fill {  uint16
Qty , repeat char[
    1 ] Flags ,
    i8

    Ref 
,	}
	packet
Logout
{ @leftPad
    ('0'

)
char[	3 ]
	x
    ,
int8
f1 ,Logon
, uint16
venue
    ,

    zchar[
	2

    ]Px
    ,
	}	packet

Reject {	} root

packet

Leg{
Fill
,u16

    msgKind	,
	match 
msgKind
as
Body 
{ [
182,83

]

    : 
Fill ,

    199 : 
Reject 
,
137 :
    Logout

, 35:  Logon,
}

,
    u32
lastPx@calculatedFrom(  ""CRC32"" )  ,

    }")).
Eval vm_compute in ("<<<M9>>>" ++ check (runes_of_ascii "packet roots { u16 packetx`say ""hi""` ,  @tag( 00 )string trueish ,
// 50% %s
// @lengthOf(
}	packet falsey {match o
as zchar {
[7
,
    // a // b
    """ ++ [233]%N ++ runes_of_ascii "t" ++ [233]%N ++ runes_of_ascii """ ]:leftPad ,
    ""a	b"" : f32a ,
[""`tick`""
, 10
    /// triple
    ,
// @lengthOf(
// `tick` ""quote"" 'q'
4294967296, 255 ,
10
, ""{,}""
// a // b
//
, """"
    ]
    : // a // b
i64_
, 00 : len , [ 10,
    0,0123456789//x
]
:float }, repeat // 50% %s
char[] BodyLength ,
    @rightPad (
    '0'
    ) @calculatedFrom( // trailing space 
""a	b""
)match Foo as chars {	""" ++ [28040; 24687]%N ++ runes_of_ascii """ : asx, ""packet""	: _x , },} root /// triple
packet x
    { @calculatedFrom( """ ++ [233]%N ++ runes_of_ascii "t" ++ [233]%N ++ runes_of_ascii """
)// c
uint16 calculatedFrom , asx rootA `{ , }` , @calculatedFrom(	""" ++ [28040; 24687]%N ++ runes_of_ascii """ )	x A ,@lengthOf( u8x) @calculatedFrom(
""1"" ) @lengthOf(
    //x
    uint8x )
    zchar[ 65535]lengthOf
`tab	here`,}")).
Eval vm_compute in ("<<<M1392>>>" ++ check (runes_of_ascii "// top
options // c0a
  // c0b
{ LittleEndian = // c3
true
    // c4
; } // c6
packet
    // c7
Sub { // c9a
  // c9b
u8 a // c11
,
    // c12
@calculatedFrom( ""CRC16"" ) // c15a
  // c15b
u64 // c16a
  // c16b
SubSum // c17
, // c18a
  // c18b
}
    // c19
root
    // c20
packet // c21a
  // c21b
Frame // c22
{
    // c23
u16 // c24a
  // c24b
MsgType , // c26
u16 BodyLen // c28a
  // c28b
@lengthOf( Body // c30
) // c31
, // c32a
  // c32b
Sub // c33a
  // c33b
Body , // c35
string
    // c36
note
    // c37
,
    // c38
@calculatedFrom( // c39
""CRC16""
    // c40
) // c41a
  // c41b
u64 Checksum
    // c43
,
    // c44
u8 // c45a
  // c45b
tail // c46
, // c47
} // c48a
  // c48b
")).
Eval vm_compute in ("<<<M1401>>>" ++ check (runes_of_ascii "// top
packet
    // c0
Sub // c1a
  // c1b
{ // c2
u8 // c3
a
    // c4
, // c5
@calculatedFrom( // c6a
  // c6b
""CRC16"" // c7a
  // c7b
)
    // c8
i64 // c9
SubSum
    // c10
, // c11
}
    // c12
root
    // c13
packet // c14
Frame // c15
{ // c16a
  // c16b
u16 MsgType , u16 BodyLen @lengthOf( // c22a
  // c22b
Body
    // c23
) // c24a
  // c24b
, Sub // c26a
  // c26b
Body
    // c27
,
    // c28
string
    // c29
note // c30a
  // c30b
, // c31a
  // c31b
@calculatedFrom(
    // c32
""CRC16"" // c33a
  // c33b
)
    // c34
i64 // c35
Checksum , // c37
u8 // c38
tail // c39
, } // c41a
  // c41b
")).
Eval vm_compute in ("<<<M1875>>>" ++ check (runes_of_ascii "options {
    charz = false;
    Z9_ = ""\" ++ [233]%N ++ runes_of_ascii """;// c
}

options {
    falsey = char[];
}

packet metadata {
    @tag(4294967296)
    match int as float {
        [
            0, 0123456789, 42, 7, ""a\""b"",
            7
        ] : zchar,
        ""1"" : options1,
    },
    @tag(10)
    match msg_type as Foo {
        ""a	b"" : rootA,
        65535 : roots,
        00 : trueish,
        ""\" ++ [233]%N ++ runes_of_ascii """ : MetaDataX,
        //x
        // 50% %s
        00 : Logon,
    },
    repeat len packetx,
    @lengthOf(Foo)
    len `two words`,
    roots,
}//x")).
Eval vm_compute in ("<<<M1386>>>" ++ check (runes_of_ascii "options

    {
LittleEndian = false

    ;
	StringPrefixLenType =

u16
;FixedStringPadFromLeft =	true

    ;	FixedStringPadChar  = 
'0' ; } packet

Fill 
{
	}

    root
    packet

Order	{
repeat

Fill  , 
char[]clOrdID  ,
    @rightPad
    ('\x00'	)

    char[4

    ]

lastPx
, char[] 
OrderId	, int8 tag7

    ,u8 f1
, u16 count

    @lengthOf( Body
    ) ,match
f1

as
Body

    {
	[159
	, 
49	]:
    Fill

,
    }

    ,  u16  Tail  @calculatedFrom(
""CRC32""

    ), 
}")).
Eval vm_compute in ("<<<M1161>>>" ++ check (runes_of_ascii "// top
MetaData
    // c0
x
    // c1
{ // c2
f32a // c3a
  // c3b
Pad
    // c4
`` // c5a
  // c5b
, // c6a
  // c6b
}
    // c7
packet leftPad { // c10a
  // c10b
repeat // c11
int64 // c12
crc // c13a
  // c13b
, // c14a
  // c14b
BodyLength
    // c15
{
    // c16
uint8 pack // c18
`say ""hi""` // c19a
  // c19b
,
    // c20
lengthOf @lengthOf( // c22
asx
    // c23
) // c24a
  // c24b
`" ++ [28040; 24687; 31867; 22411]%N ++ runes_of_ascii "` ,
    // c26
} // c27a
  // c27b
, // c28
} // c29a
  // c29b
")).
Eval vm_compute in ("<<<M1581>>>" ++ check (runes_of_ascii "packet repeatCount {
    @tag(7)
    match T as i64_ {
        """ ++ [233]%N ++ runes_of_ascii "t" ++ [233]%N ++ runes_of_ascii """ : body,
    },
    @lengthOf(crc)
    float64 body `u8 x,`,
    repeat rootA {
        int16 x_y_z `two words`,
        zchar[4294967296] trueish `two words`,
        Pad @lengthOf(Pad) `// not a comment`,
    },
    tag string_,
    @lengthOf(len)
    // packet A { u8 x, }
    @tag(255)
    @lengthOf(Logon)
    int,
    Foo @lengthOf(leftPad) `
    `,
}")).
Eval vm_compute in ("<<<M1853>>>" ++ check (runes_of_ascii "options {
    // c1
    LittleEndian = true;// c5
}// c6a

// c6b
packet Sub {
    // c9
    u8 a,
    // c12
    u16 SubSum @calculatedFrom(""CRC16""),
    // c18
}// c19

root packet Frame {
    // c23
    u16 MsgType,
    u16 BodyLen @lengthOf(Body),
    Sub Body,// c35a
    // c35b
    string note,// c38a
    // c38b
    u16 Checksum @calculatedFrom(""CRC16""),
    u8 tail,
    // c47
}// c48")).
Eval vm_compute in ("<<<M1700>>>" ++ check (runes_of_ascii "packet string_ {
    @tag(4294967296)
    repeat u `crlf
        line`,
    repeat zchar[0] BodyLength,
    @tag(255)
    int `say ""hi""`,
    uint8x `u8 x,`,
    @leftPad(' ')
    string MetaDataX @lengthOf(options1),
    zchar[00] charz `" ++ [28040; 24687; 31867; 22411]%N ++ runes_of_ascii "`,
    @calculatedFrom(""" ++ [128512]%N ++ runes_of_ascii """)
    _x calculatedFrom,
    uint8 packetx `it's`,
    @leftPad()
    zchar[0] Foo `a\`,
}")).
Eval vm_compute in ("<<<M1530>>>" ++ check (runes_of_ascii "MetaData msg_type {
    //
    u8 Foo `// not a comment`,
    char[007] Pad `u8 x,`,
    f32 o,
    char[0123456789] falsey,
    float64 metadata,
    zchar[0123456789] uint8x,
}

packet string_ {
    i16 leftPad `// not a comment`,
}

packet zchar {
    MetaDataX @calculatedFrom(""a	b"") `tab	here`,
    @tag(255)
    string i64_,
}")).
Eval vm_compute in ("<<<M69>>>" ++ check (runes_of_ascii "// " ++ [27880; 37322]%N ++ runes_of_ascii "
options
    { calculatedFrom
    = '\x00'
packetx= """ ++ [28040; 24687]%N ++ runes_of_ascii """
    ;i8i8 = """ ++ [28040; 24687]%N ++ runes_of_ascii """; body =
    '0' falsey= 10
} packet o {
    calculatedFrom
    {
    repeat
// c
// `tick` ""quote"" 'q'
zchar[0
    ] a1 , char[] f32a // trailing space 
`" ++ [28040; 24687; 31867; 22411]%N ++ runes_of_ascii "`
//x
// " ++ [128512]%N ++ runes_of_ascii " emoji
,
} ,	} // packet A { u8 x, }")).
Eval vm_compute in ("<<<M1391>>>" ++ check (runes_of_ascii "options {
    LittleEndian = true;
}
packet Sub {
    u8 a,
    @calculatedFrom(""CRC16"") u64 SubSum,
}
root packet Frame {
    u16 MsgType,
    u16 BodyLen @lengthOf(Body),
    Sub Body,
    string note,
    @calculatedFrom(""CRC16"") u64 Checksum,
    u8 tail,
}
")).
Eval vm_compute in ("<<<M452>>>" ++ check (runes_of_ascii "packet
    asx { @calculatedFrom(
""""  ) @tag( 255 )repeat
// packet A { u8 x, }
// trailing space 
int16 u8x
,
@tag( @tag(
    //
    007 )
    @tag( 0
    /// triple
    ) @tag( 1) u
    @lengthOf( T ),
// `tick` ""quote"" 'q'
//x
} // " ++ [128512]%N ++ runes_of_ascii " emoji")).
Eval vm_compute in ("<<<M497>>>" ++ check (runes_of_ascii "packet
    asx { @calculatedFrom(
""""  ) @tag( 255 )repeat
// packet A { u8 x, }
// trailing space 
int16 u8x
,
@tag(
    //
    007 )
    @tag( 0
    /// triple
    ) @tag( 1) u u
    @lengthOf( T ),
// `tick` ""quote"" 'q'
//x
} // " ++ [128512]%N ++ runes_of_ascii " emoji")).
Eval vm_compute in ("<<<M443>>>" ++ check (runes_of_ascii "packet
    asx { @calculatedFrom(
""""  ) @tag( 255 )repeat
// packet A { u8 x, }
// trailing space 
int16 ,
u8x
@tag(
    //
    007 )
    @tag( 0
    /// triple
    ) @tag( 1) u
    @lengthOf( T ),
// `tick` ""quote"" 'q'
//x
} // " ++ [128512]%N ++ runes_of_ascii " emoji")).
Eval vm_compute in ("<<<M461>>>" ++ check (runes_of_ascii "packet
    asx { @calculatedFrom(
""""  ) @tag( 255 )repeat
// packet A { u8 x, }
// trailing space 
int16 u8x
,
@tag(
    //
    007 
    @tag( 0
    /// triple
    ) @tag( 1) u
    @lengthOf( T ),
// `tick` ""quote"" 'q'
//x
} // " ++ [128512]%N ++ runes_of_ascii " emoji")).
Eval vm_compute in ("<<<M404>>>" ++ check (runes_of_ascii "packet
    asx { options
""""  ) @tag( 255 )repeat
// packet A { u8 x, }
// trailing space 
int16 u8x
,
@tag(
    //
    007 )
    @tag( 0
    /// triple
    ) @tag( 1) u
    @lengthOf( T ),
// `tick` ""quote"" 'q'
//x
} // " ++ [128512]%N ++ runes_of_ascii " emoji")).
Eval vm_compute in ("<<<M191>>>" ++ check (runes_of_ascii "packet T { } MetaData lengthOf{  char[ 4294967296 ] a1	, float64
    body `100% of %d`,
asx Foo ,	u8x pack
// @lengthOf(
// " ++ [128512]%N ++ runes_of_ascii " emoji
, zchar[
    // @lengthOf(
    0123456789 ] Z9_
, char
As `crlf
line`
, }
")).
Eval vm_compute in ("<<<M318>>>" ++ check (runes_of_ascii "packet pack	{} options
    {_x
    =""1""	; tag = 007
    matchKey= ""it's"";
charz
    =
uint16 ; } // @lengthOf(
options {
msg_type =007  ;
    stringy
=
    ""`tick`""stringy =
    007 ;}
")).
Eval vm_compute in ("<<<M1912>>>" ++ check (runes_of_ascii "
packet
    u8x  {
char[]
f32a
    @lengthOf(
	Foo)  `100% of %d`
	,

repeat i8i8
{
A	f32a  ,
x
    `say ""hi""`
    , 
      // @lengthOf(
	repeat  body	rootA  `
`	,
}
,
}")).
Eval vm_compute in ("<<<M654>>>" ++ check (runes_of_ascii "MetaData u
    { } MetaData o
{ float uint8x
`100% of %d` ,repeatCount u8x, string_ leftPad
, i32
    Foo , int64 uint8 `two words` , calculatedFrom
stringy `a\` ,
}
")).
Eval vm_compute in ("<<<M702>>>" ++ check (runes_of_ascii "MetaData u
    { } MetaData o
{ float uint8x
`100% of %d` ,repeatCount u8x, string_ leftPad
, i32
    Foo , int64 x `two words` , calculatedFrom
< stringy `a\` ,
}
")).
Eval vm_compute in ("<<<M618>>>" ++ check (runes_of_ascii "MetaData u
    { } MetaData o
{ float uint8x
`100% of %d` ,repeatCount u8x, leftPad string_
, i32
    Foo , int64 x `two words` , calculatedFrom
stringy `a\` ,
}
")).
Eval vm_compute in ("<<<M681>>>" ++ check (runes_of_ascii "MetaData u
    { } MetaData o
{ float uint8x
`100% of %d` ,repeatCount u8x, string_ leftPad
, i32
    Foo , int64 x `two words` , calculatedFrom
stringy `a\` 
}
")).
Eval vm_compute in ("<<<M621>>>" ++ check (runes_of_ascii "MetaData u
    { } MetaData o
{ float uint8x
`100% of %d` ,repeatCount u8x, string_ 
, i32
    Foo , int64 x `two words` , calculatedFrom
stringy `a\` ,
}
")).
Eval vm_compute in ("<<<M1416>>>" ++ check (runes_of_ascii "

  options 	 // c
	{
    } options
	{
MetaDataX= char;
    }

    MetaData

    Pad	{	i8
metadata ,
string stringy
,
	int8
As

`{ , }`  , }
")).
Eval vm_compute in ("<<<M288>>>" ++ check (runes_of_ascii "packet
    asx
{ f32
    u
@calculatedFrom(
""packet"" )  , } MetaData tag
{ zchar[ 007 ] pack, zchar[00 ]// packet A { u8 x, }
len`
` , }")).
Eval vm_compute in ("<<<M1661>>>" ++ check (runes_of_ascii "packet A {
    match k as n {
        [
            1, 22, ""c c"", 4, 5,
            ""f"", 7, 8
        ] : B,
        2 : C,
    },
}")).
Eval vm_compute in ("<<<M1272>>>" ++ check (runes_of_ascii "packet B {
    u8 a,
}
root packet P {
    u8 K,
    u64 L @lengthOf(Body),
    match K as Body {
        1 : B,
    },
}
")).
Eval vm_compute in ("<<<M1202>>>" ++ check (runes_of_ascii "
// c
options { } options { MetaDataX = char ; } MetaData Pad { i8 metadata , string stringy , int8 As `{ , }` , }")).
Eval vm_compute in ("<<<M1227>>>" ++ check (runes_of_ascii "options { } options { MetaDataX = char ; } MetaData Pad { // c
i8 metadata , string stringy , int8 As `{ , }` , }")).
Eval vm_compute in ("<<<M235>>>" ++ check (runes_of_ascii "// " ++ [128512]%N ++ runes_of_ascii " emoji
packet lengthOf {zchar[
1
    ]u8x
    `tab	here` ,}packet packetx{@leftPad ( ) f32a `it's`
    , }")).
Eval vm_compute in ("<<<M929>>>" ++ check (runes_of_ascii "packet A {
    u16 len @lengthOf(body) `
`,
    u32 crc @calculatedFrom(""CRC32"") `
`,
    string body,
}")).
Eval vm_compute in ("<<<M640>>>" ++ check (runes_of_ascii "MetaData u
    { } MetaData o
{ float uint8x
`100% of %d` ,repeatCount u8x, string_ leftPad
, i32")).
Eval vm_compute in ("<<<M1278>>>" ++ check (runes_of_ascii "packet B {
    u8 a,
    string s,
}
root packet P {
    u16 L @lengthOf(B),
    B,
    u8 t,
}
")).
Eval vm_compute in ("<<<M868>>>" ++ check (runes_of_ascii "packet A {
  match k as n {
    [1, ""bb"", 007, ""d"", 5, ""f"", 7, ""h"", 9] : B
    2 : C
  },
}")).
Eval vm_compute in ("<<<M1624>>>" ++ check (runes_of_ascii "packet	A
	{	u16 // a
	len// b
  @lengthOf(  // c
body  // d
  	)	// e
`d`  // f
	,

}")).
Eval vm_compute in ("<<<M982>>>" ++ check (runes_of_ascii "packet A {
    u32 crc @calculatedFrom(""x\
y""),
    @calculatedFrom(""x\
y"") u8 y,
}")).
Eval vm_compute in ("<<<M822>>>" ++ check (runes_of_ascii "packet A {
  match k as n {
    [""a"", ""bb"", 007, ""d"", ""e""] : B
    2 : C
  },
}")).
Eval vm_compute in ("<<<M1850>>>" ++ check (runes_of_ascii "packet A {
    B b `a
    b`,
    B `a
    b`,
    repeat B bs `a
    b`,
}")).
Eval vm_compute in ("<<<M738>>>" ++ check (runes_of_ascii "i64 len u8 true : uint16 ' ' int32 : options @lengthOf( char[] MetaData")).
Eval vm_compute in ("<<<M1300>>>" ++ check (runes_of_ascii "  root packet P

    {
repeat
	string  ss, 
repeat
u16 ns
	, }
")).
Eval vm_compute in ("<<<M1812>>>" ++ check (runes_of_ascii "
root packet 
len{
	@calculatedFrom( ""a\""b""
)
    i16 a1	,	}")).
Eval vm_compute in ("<<<M1949>>>" ++ check (runes_of_ascii "  MetaData	// " ++ [27880; 37322]%N ++ runes_of_ascii "

Foo  {

rootA  f32a
    //
  ,

}
//	t")).
Eval vm_compute in ("<<<M73>>>" ++ check (runes_of_ascii "options {
} packet
Foo
{
// 50% %s
// @lengthOf(
}
")).
Eval vm_compute in ("<<<M1494>>>" ++ check (runes_of_ascii "
options
    {

a=""%d%s""; b
=
    ""%d%s""

} ")).
Eval vm_compute in ("<<<M1767>>>" ++ check (runes_of_ascii "root packet A {
    u8 x `x
        `,
}")).
Eval vm_compute in ("<<<M933>>>" ++ check (runes_of_ascii "packet A {
    u8 x `a
    b
  c`,
}")).
Eval vm_compute in ("<<<M276>>>" ++ check (runes_of_ascii "packet crc// `tick` ""quote"" 'q'
{}")).
Eval vm_compute in ("<<<M1711>>>" ++ check (runes_of_ascii "packet A {
    u8 x `a
    b`,
}")).
Eval vm_compute in ("<<<M81>>>" ++ check (runes_of_ascii "options {} // trailing space ")).
Eval vm_compute in ("<<<M749>>>" ++ check (runes_of_ascii "f64 char[ false u8 string")).
Eval vm_compute in ("<<<M90>>>" ++ check (runes_of_ascii "
packet Packet {
} 	 ")).
Eval vm_compute in ("<<<M570>>>" ++ check (runes_of_ascii "MetaData u
    { }")).
Eval vm_compute in ("<<<M1075>>>" ++ check (runes_of_ascii "packet A {
}
// c" ++ [6158]%N)).
Eval vm_compute in ("<<<M1169>>>" ++ check (runes_of_ascii "packet x // c
{ }")).
Eval vm_compute in ("<<<M755>>>" ++ check (runes_of_ascii "
'" ++ [17]%N ++ runes_of_ascii "=" ++ [65533; 65533; 65533]%N ++ runes_of_ascii "M" ++ [65533; 65533; 1631]%N)).
Eval vm_compute in ("<<<M1074>>>" ++ check (runes_of_ascii "// c" ++ [6158]%N)).
